// Package vfapp holds what the L1 tools of the C11 / C15 family share: booting an in-process hookaido through
// app.VerifBoot, side-effect-free queue dumps with digests, and sharded ndjson writers.
package vfapp

import (
	"bufio"
	"crypto/sha256"
	"encoding/hex"
	"encoding/json"
	"fmt"
	"os"
	"path/filepath"
	"sort"
	"strings"
	"sync"
	"time"

	"github.com/nuetzliches/hookaido/internal/app"
	"github.com/nuetzliches/hookaido/internal/queue"
)

// Msg is the abstract view of one stored message.  Times are strings (TLC integers are 32 bit).
type Msg struct {
	ID      string `json:"id"`
	State   string `json:"st"`
	Route   string `json:"rt"`
	Target  string `json:"tg"`
	Attempt int    `json:"att"`
	Recv    string `json:"recv"`
	Next    string `json:"next"`
	Lease   string `json:"lease"`
	Until   string `json:"until"`
	Payload string `json:"pl"` // digest:length
	Headers string `json:"hd"` // canonical k=v list digest
	Trace   string `json:"trc"`
	Dead    string `json:"dr"`
	Schema  int    `json:"sv"`
}

func Digest(b []byte) string {
	h := sha256.Sum256(b)
	return hex.EncodeToString(h[:6]) + ":" + fmt.Sprint(len(b))
}

// MapDigest is a canonical digest of a string map ("" for nil or empty).
func MapDigest(m map[string]string) string {
	if len(m) == 0 {
		return ""
	}
	keys := make([]string, 0, len(m))
	for k := range m {
		keys = append(keys, k)
	}
	sort.Strings(keys)
	var sb strings.Builder
	for _, k := range keys {
		fmt.Fprintf(&sb, "%d:%s=%d:%s;", len(k), k, len(m[k]), m[k])
	}
	return Digest([]byte(sb.String()))
}

func TimeStr(t time.Time) string {
	if t.IsZero() {
		return ""
	}
	return fmt.Sprint(t.UnixNano())
}

func FromEnvelope(e queue.Envelope) Msg {
	return Msg{ID: e.ID, State: string(e.State), Route: e.Route, Target: e.Target, Attempt: e.Attempt,
		Recv: TimeStr(e.ReceivedAt), Next: TimeStr(e.NextRunAt), Lease: e.LeaseID, Until: TimeStr(e.LeaseUntil),
		Payload: Digest(e.Payload), Headers: MapDigest(e.Headers), Trace: MapDigest(e.Trace), Dead: e.DeadReason, Schema: e.SchemaVersion}
}

// Dump returns every stored message sorted by id, without pruning or reading the clock.
func Dump(store queue.Store) ([]Msg, error) {
	var rows []queue.VerifRow
	switch s := store.(type) {
	case *queue.MemoryStore:
		rows = s.VerifDump()
	case *queue.SQLiteStore:
		var err error
		rows, err = s.VerifDump()
		if err != nil {
			return nil, err
		}
	default:
		return nil, fmt.Errorf("unsupported store %T", store)
	}
	out := make([]Msg, 0, len(rows))
	for _, r := range rows {
		out = append(out, FromEnvelope(r.Env))
	}
	sort.Slice(out, func(i, j int) bool { return out[i].ID < out[j].ID })
	return out, nil
}

// Hash is a digest of a complete dump (every field of every message).
func Hash(msgs []Msg) string {
	h := sha256.New()
	enc := json.NewEncoder(h)
	for _, m := range msgs {
		_ = enc.Encode(m)
	}
	return hex.EncodeToString(h.Sum(nil)[:10])
}

// Delta lists what differs between two dumps: "+id", "-id", "~id:st1>st2".
func Delta(pre, post []Msg) []string {
	a := map[string]Msg{}
	for _, m := range pre {
		a[m.ID] = m
	}
	out := []string{}
	seen := map[string]bool{}
	for _, m := range post {
		seen[m.ID] = true
		p, ok := a[m.ID]
		if !ok {
			out = append(out, "+"+m.ID)
		} else if p != m {
			out = append(out, "~"+m.ID+":"+p.State+">"+m.State)
		}
	}
	for _, m := range pre {
		if !seen[m.ID] {
			out = append(out, "-"+m.ID)
		}
	}
	sort.Strings(out)
	if len(out) > 12 {
		out = append(out[:12], fmt.Sprintf("...(%d)", len(out)))
	}
	return out
}

// Boot writes cfgText to dir/Hookaidofile and boots it with the production wiring.
func Boot(cfgText, dir, dbPath string) (*app.VerifInstance, string, error) {
	if err := os.MkdirAll(dir, 0o755); err != nil {
		return nil, "", err
	}
	p := filepath.Join(dir, "Hookaidofile")
	if err := os.WriteFile(p, []byte(cfgText), 0o644); err != nil {
		return nil, "", err
	}
	inst, err := app.VerifBoot(app.VerifOptions{ConfigPath: p, DBPath: dbPath})
	return inst, p, err
}

func FileSum(p string) string {
	b, err := os.ReadFile(p)
	if err != nil {
		return "ERR"
	}
	return Digest(b)
}

// Shards writes ndjson events round-robin-free: the caller picks the shard.
type Shards struct {
	mu []sync.Mutex
	w  []*bufio.Writer
	f  []*os.File
	N  []int
}

func ShardPath(prefix string, i, n int) string {
	if n == 1 {
		return prefix
	}
	return fmt.Sprintf("%s.%d", prefix, i)
}

func OpenShards(prefix string, n int) (*Shards, error) {
	s := &Shards{mu: make([]sync.Mutex, n), w: make([]*bufio.Writer, n), f: make([]*os.File, n), N: make([]int, n)}
	for i := 0; i < n; i++ {
		f, err := os.Create(ShardPath(prefix, i, n))
		if err != nil {
			return nil, err
		}
		s.f[i] = f
		s.w[i] = bufio.NewWriterSize(f, 1<<20)
	}
	return s, nil
}

func (s *Shards) Write(i int, v any) {
	b, err := json.Marshal(v)
	if err != nil {
		panic(err)
	}
	i = i % len(s.w)
	s.mu[i].Lock()
	s.w[i].Write(b)
	s.w[i].WriteByte('\n')
	s.N[i]++
	s.mu[i].Unlock()
}

func (s *Shards) Close() {
	for i := range s.w {
		s.w[i].Flush()
		s.f[i].Close()
	}
}
