// Package l2 drives the real hookaido binary (built with -tags verif): kill at labelled points or at random
// instants, restart on the same files, inspect what survived (C01).
package l2

import (
	"bytes"
	"context"
	"crypto/sha256"
	"encoding/base64"
	"encoding/hex"
	"encoding/json"
	"fmt"
	"io"
	"net"
	"net/http"
	"os"
	"os/exec"
	"path/filepath"
	"strings"
	"sync"
	"sync/atomic"
	"syscall"
	"time"

	"github.com/nuetzliches/hookaido/internal/queue"
)

// WorkOp is one client operation of a workload (spec/CrashGen.tla).
type WorkOp struct {
	Op    string `json:"op"`
	Route string `json:"route,omitempty"`
	N     int    `json:"n,omitempty"`
	Batch int    `json:"batch,omitempty"`
}

type ports struct{ ingress, pull, admin, stub int }

var portSlot atomic.Int64

// forkMu keeps port probing and process creation apart: a child between fork and exec still holds a copy of every
// descriptor of this process, so a probe listener closed here would stay bound for a moment ("address already in use").
var forkMu sync.RWMutex

// freePorts hands out four ports from a range private to this process and call (parallel runs must not race for
// ports: a port that is probed free and then taken by another run would make an instance fail to start).
func freePorts() (ports, error) {
	for tries := 0; tries < 200; tries++ {
		slot := portSlot.Add(1)
		forkMu.Lock()
		base := 12000 + (os.Getpid()%120)*160 + int(slot%40)*4 // below the ephemeral range (32768..)
		ok := true
		var ls []net.Listener
		for i := 0; i < 4; i++ {
			l, err := net.Listen("tcp", fmt.Sprintf("127.0.0.1:%d", base+i))
			if err != nil {
				ok = false
				break
			}
			ls = append(ls, l)
		}
		for _, l := range ls {
			l.Close()
		}
		forkMu.Unlock()
		if ok {
			return ports{base, base + 1, base + 2, base + 3}, nil
		}
	}
	return ports{}, fmt.Errorf("no free port range")
}

func configText(p ports) string {
	return fmt.Sprintf(`ingress {
  listen 127.0.0.1:%d
}
pull_api {
  listen 127.0.0.1:%d
  auth token raw:tok
}
admin_api {
  listen 127.0.0.1:%d
}
defaults {
  egress {
    https_only off
    dns_rebind_protection off
  }
}
queue_retention {
  max_age 1h
  prune_interval 1s
}
queue_limits {
  max_depth 14
  drop_policy reject
}
/in/pull {
  pull { path /pull/p }
}
/in/fan {
  deliver "http://127.0.0.1:%d/t1" {
    retry exponential max 3 base 1h cap 2h jitter 0
    timeout 2s
  }
  deliver "http://127.0.0.1:%d/t2" {
    retry exponential max 3 base 1h cap 2h jitter 0
    timeout 2s
  }
  deliver "http://127.0.0.1:%d/t3" {
    retry exponential max 3 base 1h cap 2h jitter 0
    timeout 2s
  }
}
`, p.ingress, p.pull, p.admin, p.stub, p.stub, p.stub)
}

// Run is one kill-and-restart run.
type Run struct {
	Bin      string
	Dir      string
	Name     string
	Ops      []WorkOp
	Crash    string        // VERIF_CRASH value ("" = none)
	KillAt   time.Duration // external SIGKILL after this delay (0 = none)
	HitLog   bool
	Early    bool // restart at once and poll before the leases of the killed process run out, then again afterwards
	CkptMs   int  // > 0: the store checkpoints its WAL every CkptMs milliseconds (hook VERIF_SQLITE_CHECKPOINT_MS)
	ports    ports
	cmd      *exec.Cmd
	exited   chan struct{}
	events   []map[string]any
	serial   int
	held     []heldLease
	sentKeys map[string]sentMsg
	client   *http.Client
}

type heldLease struct {
	lease, key string
	sent       time.Time // when the dequeue request that got this lease was SENT: the lease runs until sent + TTL at least
}
type sentMsg struct {
	route, target string
	digest        string
}

func digest(b []byte) string {
	h := sha256.Sum256(b)
	return hex.EncodeToString(h[:8])
}

func (r *Run) emit(ev map[string]any) { r.events = append(r.events, ev) }

func (r *Run) leaseTTL() string {
	if r.Early {
		return "3s"
	}
	return "1s"
}

func (r *Run) leaseTTLDur() time.Duration {
	if r.Early {
		return 3 * time.Second
	}
	return time.Second
}

func (r *Run) start(crash string) error {
	cmd := exec.Command(r.Bin, "run", "--config", filepath.Join(r.Dir, "Hookaidofile"), "--db", filepath.Join(r.Dir, "q.db"), "--log-level", "error")
	cmd.Env = append(os.Environ(), "VERIF_CRASH="+crash)
	if r.HitLog || r.CkptMs > 0 {
		cmd.Env = append(cmd.Env, "VERIF_HITLOG="+filepath.Join(r.Dir, "hits.log"))
	}
	if r.CkptMs > 0 {
		cmd.Env = append(cmd.Env, fmt.Sprintf("VERIF_SQLITE_CHECKPOINT_MS=%d", r.CkptMs))
	}
	logf, _ := os.OpenFile(filepath.Join(r.Dir, "run.log"), os.O_CREATE|os.O_WRONLY|os.O_APPEND, 0o644)
	cmd.Stdout, cmd.Stderr = logf, logf
	forkMu.RLock()
	err := cmd.Start()
	forkMu.RUnlock()
	if err != nil {
		return err
	}
	r.cmd = cmd
	r.exited = make(chan struct{})
	go func() { _ = cmd.Wait(); logf.Close(); close(r.exited) }()
	return nil
}

func (r *Run) alive() bool {
	select {
	case <-r.exited:
		return false
	default:
		return true
	}
}

func (r *Run) waitHealthy(d time.Duration) bool {
	deadline := time.Now().Add(d)
	for time.Now().Before(deadline) {
		if !r.alive() {
			return false
		}
		resp, err := r.client.Get(fmt.Sprintf("http://127.0.0.1:%d/healthz", r.ports.admin))
		if err == nil {
			io.Copy(io.Discard, resp.Body)
			resp.Body.Close()
			if resp.StatusCode == 200 {
				// the ingress listener must be up as well
				c, err := net.DialTimeout("tcp", fmt.Sprintf("127.0.0.1:%d", r.ports.ingress), 200*time.Millisecond)
				if err == nil {
					c.Close()
					return true
				}
			}
		}
		time.Sleep(15 * time.Millisecond)
	}
	return false
}

func (r *Run) post(port int, path string, body []byte, hdr map[string]string) (int, []byte) {
	req, _ := http.NewRequest(http.MethodPost, fmt.Sprintf("http://127.0.0.1:%d%s", port, path), bytes.NewReader(body))
	req.Header.Set("Content-Type", "application/json")
	for k, v := range hdr {
		req.Header.Set(k, v)
	}
	resp, err := r.client.Do(req)
	if err != nil {
		return -1, nil
	}
	defer resp.Body.Close()
	b, _ := io.ReadAll(resp.Body)
	return resp.StatusCode, b
}

func targetsOf(route string, p ports) (string, []string) {
	if route == "fan" {
		return "/in/fan", []string{fmt.Sprintf("http://127.0.0.1:%d/t1", p.stub), fmt.Sprintf("http://127.0.0.1:%d/t2", p.stub), fmt.Sprintf("http://127.0.0.1:%d/t3", p.stub)}
	}
	return "/in/pull", []string{"pull"}
}

func (r *Run) doOp(op WorkOp) {
	switch op.Op {
	case "ingress":
		r.serial++
		tok := fmt.Sprintf("%s-i%d", r.Name, r.serial)
		body := []byte(fmt.Sprintf(`{"tok":%q,"pad":%q}`, tok, strings.Repeat("z", 40)))
		path, targets := targetsOf(op.Route, r.ports)
		keys := []any{}
		for _, t := range targets {
			k := tok + "|" + t
			keys = append(keys, k)
			r.sentKeys[k] = sentMsg{route: path, target: t, digest: digest(body)}
		}
		status, _ := r.post(r.ports.ingress, path, body, nil)
		r.emit(map[string]any{"ev": "Enq", "kind": "ingress", "keys": keys, "acked": status == 202, "refused": status >= 400, "atomic": false, "status": status})
	case "publish":
		path, targets := targetsOf(op.Route, r.ports)
		items := []map[string]any{}
		keys := []any{}
		for i := 0; i < op.N; i++ {
			r.serial++
			tok := fmt.Sprintf("%s-p%d", r.Name, r.serial)
			body := []byte(fmt.Sprintf(`{"tok":%q}`, tok))
			t := targets[i%len(targets)]
			k := tok + "|" + t
			keys = append(keys, k)
			r.sentKeys[k] = sentMsg{route: path, target: t, digest: digest(body)}
			items = append(items, map[string]any{"id": "evt_" + tok, "route": path, "target": t, "payload_b64": base64.StdEncoding.EncodeToString(body)})
		}
		b, _ := json.Marshal(map[string]any{"items": items})
		status, _ := r.post(r.ports.admin, "/messages/publish", b, map[string]string{"X-Hookaido-Audit-Reason": "verif"})
		r.emit(map[string]any{"ev": "Enq", "kind": "publish", "keys": keys, "acked": status == 200, "refused": status >= 400, "atomic": true, "status": status})
	case "dequeue":
		b, _ := json.Marshal(map[string]any{"batch": op.Batch, "lease_ttl": r.leaseTTL(), "max_wait": "0s"})
		sentAt := time.Now()
		status, body := r.post(r.ports.pull, "/pull/p/dequeue", b, map[string]string{"Authorization": "Bearer tok"})
		keys := []any{}
		if status == 200 {
			var resp struct {
				Items []struct {
					LeaseID    string `json:"lease_id"`
					PayloadB64 string `json:"payload_b64"`
				} `json:"items"`
			}
			if json.Unmarshal(body, &resp) == nil {
				for _, it := range resp.Items {
					k := r.keyOfPayload(it.PayloadB64, "pull")
					keys = append(keys, k)
					r.held = append(r.held, heldLease{it.LeaseID, k, sentAt})
				}
			}
		}
		r.emit(map[string]any{"ev": "Deq", "keys": keys, "status": status})
	case "ack_batch", "nack_batch", "dead_batch":
		// settle everything that is held through the batch form (lease_ids)
		if len(r.held) == 0 {
			return
		}
		held := r.held
		r.held = nil
		ids := make([]string, 0, len(held))
		for _, h := range held {
			ids = append(ids, h.lease)
		}
		kind := strings.TrimSuffix(op.Op, "_batch")
		body := map[string]any{"lease_ids": ids}
		path := "/pull/p/ack"
		switch kind {
		case "nack":
			path = "/pull/p/nack"
			body["delay"] = "0s"
		case "dead":
			path = "/pull/p/nack"
			body["dead"] = true
			body["reason"] = "verif"
		}
		b, _ := json.Marshal(body)
		status, _ := r.post(r.ports.pull, path, b, map[string]string{"Authorization": "Bearer tok"})
		// 200 = every lease settled; 409 = some conflict (treated like an unanswered request: either outcome per lease)
		st := status
		if status == 200 {
			st = 204
		} else if status == 409 {
			st = -1
		}
		for _, h := range held {
			r.emit(map[string]any{"ev": "Settle", "kind": kind, "key": h.key, "status": st, "batch": true})
		}
	case "ack", "nack", "dead":
		if len(r.held) == 0 {
			return
		}
		h := r.held[0]
		r.held = r.held[1:]
		var status int
		switch op.Op {
		case "ack":
			b, _ := json.Marshal(map[string]any{"lease_id": h.lease})
			status, _ = r.post(r.ports.pull, "/pull/p/ack", b, map[string]string{"Authorization": "Bearer tok"})
		case "nack":
			b, _ := json.Marshal(map[string]any{"lease_id": h.lease, "delay": "0s"})
			status, _ = r.post(r.ports.pull, "/pull/p/nack", b, map[string]string{"Authorization": "Bearer tok"})
		case "dead":
			b, _ := json.Marshal(map[string]any{"lease_id": h.lease, "dead": true, "reason": "verif"})
			status, _ = r.post(r.ports.pull, "/pull/p/nack", b, map[string]string{"Authorization": "Bearer tok"})
		}
		r.emit(map[string]any{"ev": "Settle", "kind": op.Op, "key": h.key, "status": status})
	}
}

func (r *Run) keyOfPayload(b64, target string) string {
	raw, err := base64.StdEncoding.DecodeString(b64)
	if err != nil {
		return "undecodable|" + target
	}
	var v struct {
		Tok string `json:"tok"`
	}
	if json.Unmarshal(raw, &v) != nil || v.Tok == "" {
		return "unknown|" + target
	}
	return v.Tok + "|" + target
}

// Execute performs the run and returns its trace events.
func (r *Run) Execute() ([]map[string]any, error) {
	p, err := freePorts()
	if err != nil {
		return nil, err
	}
	r.ports = p
	r.sentKeys = map[string]sentMsg{}
	r.client = &http.Client{Timeout: 5 * time.Second, Transport: &http.Transport{DisableKeepAlives: true}}
	if err := os.WriteFile(filepath.Join(r.Dir, "Hookaidofile"), []byte(configText(p)), 0o600); err != nil {
		return nil, err
	}
	// stub target: always 500, so every delivery attempt ends in a nack with a one-hour delay
	stub := &http.Server{Addr: fmt.Sprintf("127.0.0.1:%d", p.stub), Handler: http.HandlerFunc(func(w http.ResponseWriter, q *http.Request) {
		io.Copy(io.Discard, q.Body)
		w.WriteHeader(500)
	})}
	ln, err := net.Listen("tcp", stub.Addr)
	if err != nil {
		return nil, err
	}
	go stub.Serve(ln)
	defer stub.Close()

	r.emit(map[string]any{"ev": "Reset", "tr": r.Name, "crash": r.Crash, "kill_at_ms": int(r.KillAt / time.Millisecond)})
	if err := r.start(r.Crash); err != nil {
		return nil, err
	}
	healthy := r.waitHealthy(25 * time.Second)
	if !healthy && r.alive() {
		r.kill()
		return nil, fmt.Errorf("%s: instance did not become healthy", r.Name)
	}
	var killTimer *time.Timer
	if r.KillAt > 0 {
		killTimer = time.AfterFunc(r.KillAt, func() { _ = r.cmd.Process.Signal(syscall.SIGKILL) })
	}
	for _, op := range r.Ops {
		if !r.alive() {
			break
		}
		r.doOp(op)
	}
	if r.Crash == "" && r.KillAt == 0 {
		// clean run: let background work settle, then kill anyway (a crash "between" operations)
		time.Sleep(150 * time.Millisecond)
	} else if r.alive() {
		// give a labelled crash in background work (dispatcher) a moment to happen
		select {
		case <-r.exited:
		case <-time.After(300 * time.Millisecond):
		}
	}
	if killTimer != nil {
		killTimer.Stop()
	}
	crashed := !r.alive()
	r.kill()
	crashEv := map[string]any{"ev": "Crash", "self": crashed}
	if r.CkptMs > 0 {
		h := Hits(r.Dir)
		crashEv["ckpt_begun"], crashEv["ckpt_done"] = h["sqlite.checkpoint"], h["sqlite.checkpoint.done"]
	}
	r.emit(crashEv)

	// what is in the file: open it with the store's own open path
	rows := map[string]any{}
	unknown := 0
	opened := true
	integrity := "?"
	countersOK := true
	st, err := queue.NewSQLiteStore(filepath.Join(r.Dir, "q.db"), queue.WithSQLiteCheckpointInterval(0))
	if err != nil {
		opened = false
		integrity = "open: " + err.Error()
	} else {
		dump, derr := st.VerifDump()
		if derr != nil {
			opened = false
			integrity = "dump: " + derr.Error()
		}
		integrity, _ = st.VerifPragma("integrity_check")
		nq, nl := 0, 0
		for _, row := range dump {
			k := r.keyOfPayload(base64.StdEncoding.EncodeToString(row.Env.Payload), row.Env.Target)
			sm, known := r.sentKeys[k]
			if !known {
				unknown++
				continue
			}
			ok := sm.route == row.Env.Route && sm.target == row.Env.Target && sm.digest == digest(row.Env.Payload) && row.Env.ID != "" && !row.Env.ReceivedAt.IsZero()
			if row.Env.State == queue.StateLeased {
				ok = ok && row.Env.LeaseID != "" && !row.Env.LeaseUntil.IsZero()
				nl++
			} else {
				ok = ok && row.Env.LeaseID == ""
			}
			if row.Env.State == queue.StateQueued {
				nq++
			}
			if prev, dup := rows[k]; dup {
				m := prev.(map[string]any)
				m["count"] = m["count"].(int) + 1
			} else {
				rows[k] = map[string]any{"state": string(row.Env.State), "ok": ok, "count": 1, "attempt": row.Env.Attempt}
			}
		}
		cq, cl, cerr := st.VerifCounters()
		if cerr != nil || cq+cl != countActive(dump) {
			countersOK = false
		}
		_ = st.Close()
	}
	// restart on the same files; after the leases ran out everything unsettled on the pull route must be offered
	restarted := false
	offered := []any{}
	// leases that the consumer still holds (granted by an answered dequeue, not settled since): certainly unexpired until sent + TTL
	liveOffered := []any{}
	liveHeld := 0
	if opened {
		poll := func() bool {
			b, _ := json.Marshal(map[string]any{"batch": 50, "lease_ttl": "30s", "max_wait": "0s"})
			status, body := r.post(r.ports.pull, "/pull/p/dequeue", b, map[string]string{"Authorization": "Bearer tok"})
			if status != 200 {
				return false
			}
			var resp struct {
				Items []struct {
					PayloadB64 string `json:"payload_b64"`
				} `json:"items"`
			}
			if json.Unmarshal(body, &resp) != nil || len(resp.Items) == 0 {
				return false
			}
			for _, it := range resp.Items {
				offered = append(offered, r.keyOfPayload(it.PayloadB64, "pull"))
			}
			return true
		}
		if !r.Early {
			// let the backlog age past queue_retention.prune_interval (1s, far below max_age) and the leases (1s) run out
			time.Sleep(1200 * time.Millisecond)
		}
		if err := r.start(""); err == nil {
			restarted = r.waitHealthy(25*time.Second) || r.waitHealthy(35*time.Second)
			if restarted && r.Early {
				// a consumer that polls while the killed process's leases (3s) are still running, and again afterwards.
				// A message whose lease is certainly still running when this poll is ANSWERED must not be in the answer
				// (a restart is not an ack, nack or expiry).
				n0 := len(offered)
				poll()
				answered := time.Now()
				live := map[string]bool{}
				for _, h := range r.held {
					if h.sent.Add(r.leaseTTLDur()).After(answered) {
						live[h.key] = true
					}
				}
				liveHeld = len(live)
				for _, k := range offered[n0:] {
					if live[k.(string)] {
						liveOffered = append(liveOffered, k)
					}
				}
				time.Sleep(3200 * time.Millisecond)
			}
			if restarted {
				for i := 0; i < 6 && poll(); i++ {
				}
			}
			r.kill()
		}
	}
	pullkeys := []any{}
	for k, sm := range r.sentKeys {
		if sm.target == "pull" {
			pullkeys = append(pullkeys, k)
		}
	}
	r.emit(map[string]any{"ev": "Restart", "opened": opened, "integrity": integrity, "counters_ok": countersOK, "rows": rows, "unknown_rows": unknown,
		"restarted": restarted, "offered": offered, "pullkeys": pullkeys, "live_held": liveHeld, "live_offered": liveOffered})
	return r.events, nil
}

func countActive(rows []queue.VerifRow) int {
	n := 0
	for _, r := range rows {
		if r.Env.State == queue.StateQueued || r.Env.State == queue.StateLeased {
			n++
		}
	}
	return n
}

func (r *Run) kill() {
	if r.cmd != nil && r.cmd.Process != nil {
		_ = r.cmd.Process.Signal(syscall.SIGKILL)
		select {
		case <-r.exited:
		case <-time.After(3 * time.Second):
		}
	}
}

// Hits parses the hit log of a clean run: label -> number of hits.
func Hits(dir string) map[string]int {
	out := map[string]int{}
	b, err := os.ReadFile(filepath.Join(dir, "hits.log"))
	if err != nil {
		return out
	}
	for _, line := range strings.Split(string(b), "\n") {
		f := strings.Fields(line)
		if len(f) >= 2 && f[0] != "CRASH" {
			var n int
			fmt.Sscanf(f[1], "%d", &n)
			if n > out[f[0]] {
				out[f[0]] = n
			}
		}
	}
	return out
}

var _ = context.Background
