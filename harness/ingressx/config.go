package ingressx

import (
	"encoding/binary"
	"encoding/json"
	"fmt"
	"math/rand"
	"net/netip"
	"strings"
	"time"
)

// Base is the instant that abstract time 0 stands for (cred.ts is in seconds,
// cred.now in milliseconds relative to it).
var Base = time.Date(2027, 3, 1, 12, 0, 0, 0, time.UTC)

// ConcCfg is one concretisation of an abstract configuration.
type ConcCfg struct {
	Seed   int64
	Tag    string // unique per (process, boot): env var names, pull paths
	Routes []Route

	Seg        map[string]string // segment token -> concrete segment
	Label      map[string]string // host label token -> concrete label
	RoutePaths []string          // concrete (clean) route path per route
	Targets    [][]string        // stored target names per route
	HdrName    string
	QKey       string
	Val        map[string]string       // value token -> concrete value (shared by header and query)
	Pfx        map[string]netip.Prefix // A4 S4 A6 S6
	UserName   map[string]string
	Password   map[string]string
	PwRefText  map[string]string // user token -> literal text of the password reference (pwform = ref)
	Key        map[string][]byte // key id -> secret value (incl. "unconf")
	SigH       string
	TsH        string
	NonceH     string
	FwdTimeout time.Duration

	// Spell is how the match criteria are written: "" / "inline" = one match block per route; otherwise through named
	// matchers (see Spellings).  Named[i] lists the criteria of route i that are written ONLY through named matchers.
	Spell string
	Named [][]string

	File string
	Env  map[string]string
}

// Spellings of a route's criteria set other than the inline match block.  Every spelling denotes the same criteria
// set (named matchers are merged into the route: list criteria are joined, header / query criteria all required).
//
//	named      one named matcher with everything, `match @m` (identical criteria sets of two routes share one definition)
//	two        the criteria items dealt to two named matchers, `match @m1 @m2` or two match directives
//	split      some items in a named matcher, the rest in an inline block
//	twoinline  two named matchers and an inline block
var Spellings = []string{"named", "two", "split", "twoinline"}

// critItem is one item of a route's criteria set.
type critItem struct {
	crit string // method | host | hdr | q | ip
	idx  int
}

func critItems(m Match) []critItem {
	var out []critItem
	for i := range m.Methods {
		out = append(out, critItem{"method", i})
	}
	for i := range m.Hosts {
		out = append(out, critItem{"host", i})
	}
	if m.Hdr.K != "none" {
		out = append(out, critItem{"hdr", 0})
	}
	if m.Q.K != "none" {
		out = append(out, critItem{"q", 0})
	}
	for i := range m.Ips {
		out = append(out, critItem{"ip", i})
	}
	return out
}

// HasCriteria reports whether some route of the configuration declares a match criterion.
func HasCriteria(routes []Route) bool {
	for _, rt := range routes {
		if len(critItems(rt.M)) > 0 {
			return true
		}
	}
	return false
}

// renderItems writes the directives of a set of criteria items (the body of a match block or of a named matcher).
func (c *ConcCfg) renderItems(m Match, items []critItem, indent string, r *rand.Rand) string {
	var sb strings.Builder
	var methods, hosts, ips []string
	for _, it := range items {
		switch it.crit {
		case "method":
			mm := m.Methods[it.idx]
			if r.Intn(4) == 0 {
				mm = strings.ToLower(mm) // config methods are case-insensitive (docs)
			}
			methods = append(methods, mm)
		case "host":
			hosts = append(hosts, quote(c.hostPatText(m.Hosts[it.idx], r)))
		case "ip":
			ips = append(ips, quote(c.prefixText(m.Ips[it.idx], r)))
		}
	}
	list := func(dir string, vals []string) {
		if len(vals) == 0 {
			return
		}
		if len(vals) > 1 && r.Intn(3) == 0 {
			for _, v := range vals { // one directive per value
				fmt.Fprintf(&sb, "%s%s %s\n", indent, dir, v)
			}
			return
		}
		fmt.Fprintf(&sb, "%s%s %s\n", indent, dir, strings.Join(vals, " "))
	}
	list("method", methods)
	list("host", hosts)
	for _, it := range items {
		hn := c.HdrName
		if r.Intn(3) == 0 {
			hn = strings.ToLower(hn) // header names are case-insensitive
		}
		switch {
		case it.crit == "hdr" && m.Hdr.K == "exists":
			fmt.Fprintf(&sb, "%sheader_exists %s\n", indent, quote(hn))
		case it.crit == "hdr" && m.Hdr.K == "value":
			fmt.Fprintf(&sb, "%sheader %s %s\n", indent, quote(hn), quote(c.Val[m.Hdr.V]))
		case it.crit == "q" && m.Q.K == "exists":
			fmt.Fprintf(&sb, "%squery_exists %s\n", indent, quote(c.QKey))
		case it.crit == "q" && m.Q.K == "value":
			fmt.Fprintf(&sb, "%squery %s %s\n", indent, quote(c.QKey), quote(c.Val[m.Q.V]))
		}
	}
	list("remote_ip", ips)
	return sb.String()
}

// spellRoute decides how the criteria items of one route are dealt to named matchers (parts 0 and 1) and the inline
// block (part 2).  Parts may be empty; an empty part is not written.
func spellRoute(spell string, items []critItem, r *rand.Rand) [3][]critItem {
	var parts [3][]critItem
	n := len(items)
	if n == 0 {
		return parts
	}
	perm := r.Perm(n)
	switch {
	case spell == "" || spell == "inline":
		parts[2] = items
	case spell == "named" || n == 1:
		parts[0] = items // a single item always goes through the named matcher
	case spell == "two":
		for k, j := range perm {
			parts[k%2] = append(parts[k%2], items[j])
		}
	case spell == "split":
		cut := 1 + r.Intn(n-1)
		for k, j := range perm {
			if k < cut {
				parts[0] = append(parts[0], items[j])
			} else {
				parts[2] = append(parts[2], items[j])
			}
		}
	case spell == "twoinline":
		for k, j := range perm {
			parts[k%3] = append(parts[k%3], items[j])
		}
	default:
		parts[2] = items
	}
	// keep the declaration order inside every part
	for p := range parts {
		sortItems(parts[p], items)
	}
	return parts
}

func sortItems(part, order []critItem) {
	pos := map[critItem]int{}
	for i, it := range order {
		pos[it] = i
	}
	for i := 1; i < len(part); i++ {
		for j := i; j > 0 && pos[part[j]] < pos[part[j-1]]; j-- {
			part[j], part[j-1] = part[j-1], part[j]
		}
	}
}

var (
	segBases   = []string{"a", "hooks", "v1", "in", "Web-Hooks_1", "svc.api", "x~y"}
	segSuffix  = []string{"b", "2", "-x", "_", ".json", "~", "s"}
	otherSegs  = []string{"q", "zeta", "K9", "o-o", "m_n", "r.s", "t1", "uu", "w"}
	labelPools = map[string][]string{
		"hooks":   {"hooks", "wh", "in-1"},
		"example": {"example", "acme", "my-corp"},
		"com":     {"com", "io"},
		"org":     {"org", "dev"},
		"api":     {"api", "www"},
		"a":       {"a", "deep"},
		"b":       {"b", "er"},
		"evil":    {"evil", "mallory"},
		"net":     {"net", "biz"},
		"x":       {"x", "team"},
		"other":   {"other", "unrelated"},
		"test":    {"test", "invalid"},
	}
	hdrNames = []string{"X-Verif-Kind", "X-GitHub-Event", "Stripe-Event-Type", "x-kind"}
	qKeys    = []string{"env", "kind", "t", "Env2"}
	valPools = [][]string{{"push", "ping", "issues"}, {"production", "staging", "dev"}, {"a1", "b2", "c3"}, {"invoice.paid", "invoice.void", "charge.ok"}}
)

func safeWord(r *rand.Rand, n int) string {
	const cs = "abcdefghijklmnopqrstuvwxyzABCDEFGHIJKLMNOPQRSTUVWXYZ0123456789"
	b := make([]byte, n)
	for i := range b {
		b[i] = cs[r.Intn(len(cs))]
	}
	return string(b)
}

func password(r *rand.Rand) string {
	// printable, no quote / backslash / brace / dollar (config syntax), no leading or trailing blank (compile trims)
	const cs = "abcdefghijklmnopqrstuvwxyzABCDEFGHIJKLMNOPQRSTUVWXYZ0123456789:_-+=.@~!,; "
	for {
		n := 3 + r.Intn(14)
		b := make([]byte, n)
		for i := range b {
			for {
				b[i] = cs[r.Intn(len(cs))]
				if (i == 0 || i == n-1) && b[i] == ' ' {
					continue
				}
				break
			}
		}
		s := string(b)
		// a plain password that reads like a secret reference would be an open case: not emitted
		if strings.HasPrefix(s, "env:") || strings.HasPrefix(s, "file:") || strings.HasPrefix(s, "raw:") || strings.HasPrefix(s, "vault:") {
			continue
		}
		return s
	}
}

func quote(s string) string {
	s = strings.ReplaceAll(s, `\`, `\\`)
	s = strings.ReplaceAll(s, `"`, `\"`)
	return `"` + s + `"`
}

// lastAddr returns the last address of a prefix.
func lastAddr(p netip.Prefix) netip.Addr {
	a := p.Masked().Addr()
	b := a.AsSlice()
	bits := p.Bits()
	for i := bits; i < len(b)*8; i++ {
		b[i/8] |= 1 << (7 - uint(i%8))
	}
	out, _ := netip.AddrFromSlice(b)
	return out
}

func addrAdd(a netip.Addr, n int) netip.Addr {
	for i := 0; i < n; i++ {
		a = a.Next()
	}
	for i := 0; i > n; i-- {
		a = a.Prev()
	}
	return a
}

func randInside(r *rand.Rand, p netip.Prefix) netip.Addr {
	// strictly between first and last
	first := p.Masked().Addr()
	b := first.AsSlice()
	bits := p.Bits()
	for {
		c := append([]byte(nil), b...)
		for i := bits; i < len(c)*8; i++ {
			if r.Intn(2) == 1 {
				c[i/8] |= 1 << (7 - uint(i%8))
			}
		}
		a, _ := netip.AddrFromSlice(c)
		if a != first && a != lastAddr(p) {
			return a
		}
	}
}

// Concretise builds a Hookaidofile for an abstract configuration.
func Concretise(routes []Route, seed int64, tag string, fwdURL, closedURL string, spell string) *ConcCfg {
	c := &ConcCfg{Seed: seed, Tag: tag, Routes: routes, Seg: map[string]string{}, Label: map[string]string{},
		Val: map[string]string{}, Pfx: map[string]netip.Prefix{}, UserName: map[string]string{}, Password: map[string]string{},
		PwRefText: map[string]string{}, Key: map[string][]byte{}, Env: map[string]string{}}
	r := rng(seed, "cfg")

	// ---- path segments: "ab" has "a" as a proper string prefix, "bc" has "b"
	a := pick(r, segBases)
	b := pick(r, []string{"b", "gh", "push", "E", "v2.0"})
	c.Seg["a"], c.Seg["b"] = a, b
	c.Seg["ab"] = a + pick(r, segSuffix)
	c.Seg["bc"] = b + pick(r, segSuffix)
	perm := r.Perm(len(otherSegs))
	for i, tok := range []string{"c", "d", "x", "h", "y"} {
		c.Seg[tok] = otherSegs[perm[i]]
	}
	for _, rt := range routes {
		if len(rt.Path) == 0 {
			c.RoutePaths = append(c.RoutePaths, "/")
			continue
		}
		parts := make([]string, len(rt.Path))
		for i, s := range rt.Path {
			parts[i] = c.Seg[s]
		}
		c.RoutePaths = append(c.RoutePaths, "/"+strings.Join(parts, "/"))
	}

	// ---- host labels
	toks := []string{"hooks", "example", "com", "org", "api", "a", "b", "evil", "net", "x", "other", "test"}
	for _, tok := range toks {
		c.Label[tok] = pick(r, labelPools[tok])
	}
	c.Label["evilexample"] = c.Label["evil"] + c.Label["example"] // look-alike: the domain as a string suffix, no dot
	c.Label["[v6]"] = fmt.Sprintf("[2001:db8:%x::%x]", 1+r.Intn(0xfffe), 1+r.Intn(0xfffe))

	// ---- header / query vocabulary
	c.HdrName = pick(r, hdrNames)
	c.QKey = pick(r, qKeys)
	vp := pick(r, valPools)
	c.Val["v"], c.Val["w"], c.Val["u"] = vp[0], vp[1], vp[2]
	c.Val["vv"] = pick(r, []string{vp[0] + "x", "x" + vp[0], vp[0] + vp[0], vp[0][:len(vp[0])-1]}) // look-alikes of v
	c.Val[""] = ""

	// ---- address prefixes: A = a block, S = a single address two above the block
	l4 := pick(r, []int{8, 12, 16, 20, 24, 26, 27, 29, 30})
	var b4 [4]byte
	binary.BigEndian.PutUint32(b4[:], uint32(0x0b000000)+uint32(r.Intn(0x60000000)))
	if b4[0] == 127 {
		b4[0] = 126
	}
	a4 := netip.PrefixFrom(netip.AddrFrom4(b4), l4).Masked()
	c.Pfx["A4"] = a4
	c.Pfx["S4"] = netip.PrefixFrom(addrAdd(lastAddr(a4), 2), 32)
	l6 := pick(r, []int{32, 48, 56, 64, 96, 112, 120, 126})
	var b6 [16]byte
	b6[0], b6[1], b6[2], b6[3] = 0x20, 0x01, 0x0d, 0xb8
	for i := 4; i < 16; i++ {
		b6[i] = byte(r.Intn(256))
	}
	a6 := netip.PrefixFrom(netip.AddrFrom16(b6), l6).Masked()
	c.Pfx["A6"] = a6
	c.Pfx["S6"] = netip.PrefixFrom(addrAdd(lastAddr(a6), 2), 128)

	// ---- auth vocabulary
	c.UserName["u1"] = pick(r, []string{"hook-user", "alice", "svc_1", "Webhook.User"})
	c.UserName["u2"] = pick(r, []string{"bob", "ci-bot", "second"})
	c.UserName["ux"] = "" // chosen per request
	c.Password["p1"] = password(r)
	for {
		c.Password["p2"] = password(r)
		if c.Password["p2"] != c.Password["p1"] {
			break
		}
	}
	for _, k := range []string{"s1", "s2", "k1", "k2", "k3", "unconf"} {
		c.Key[k] = []byte(k + "-" + safeWord(r, 8+r.Intn(24)))
	}
	c.SigH, c.TsH, c.NonceH = "X-Signature", "X-Timestamp", "X-Nonce"

	// ---- the file
	var sb strings.Builder
	w := func(f string, args ...any) { fmt.Fprintf(&sb, f, args...) }
	needSecrets := false
	for _, rt := range routes {
		if len(rt.Auth.Vs) > 0 {
			needSecrets = true
		}
	}
	w("ingress {\n  listen \"127.0.0.1:0\"\n}\n")
	w("pull_api {\n  listen \"127.0.0.2:0\"\n  auth token \"raw:verif-pull-%s\"\n}\n", tag)
	w("admin_api {\n  listen \"127.0.0.3:0\"\n}\n")
	w("queue_limits {\n  max_depth 100000\n}\n")
	if needSecrets {
		w("secrets {\n")
		for _, rt := range routes {
			for _, v := range rt.Auth.Vs {
				env := fmt.Sprintf("VERIF_SEC_%s_%s", tag, v.ID)
				c.Env[env] = string(c.Key[v.ID])
				w("  secret %s {\n    value \"env:%s\"\n    valid_from %s\n", quote(v.ID), env, quote(Base.Add(time.Duration(v.From)*time.Second).Format(time.RFC3339)))
				if v.Until >= 0 {
					w("    valid_until %s\n", quote(Base.Add(time.Duration(v.Until)*time.Second).Format(time.RFC3339)))
				}
				w("  }\n")
			}
		}
		w("}\n")
	}

	c.Spell = spell
	rm := rng(seed, "match", spell) // its own stream: the vocabulary and the rest of the file do not depend on the spelling
	var defs strings.Builder
	shared := map[string]string{}
	defsFirst := rm.Intn(2) == 0
	headLen := sb.Len()
	for i, rt := range routes {
		p := c.RoutePaths[i]
		// route path as written: sometimes with a trailing slash or a doubled slash (compile cleans it)
		written := p
		switch r.Intn(5) {
		case 0:
			if p != "/" {
				written = p + "/"
			}
		case 1:
			if p != "/" {
				written = strings.Replace(p, "/", "//", 1)
			}
		}
		wrapper := r.Intn(2) == 0
		head := ""
		switch rt.Ch {
		case "inbound":
			if wrapper {
				w("inbound {\n")
			}
			head = quote(written)
		case "outbound", "internal":
			if wrapper {
				w("%s {\n", rt.Ch)
				head = quote(written)
			} else {
				head = rt.Ch + " " + quote(written)
			}
		}
		w("%s {\n", head)
		w("  queue { backend memory }\n")
		// match criteria in the spelling of this rendering
		items := critItems(rt.M)
		parts := spellRoute(spell, items, rm)
		var refs []string
		for pi := 0; pi < 2; pi++ {
			if len(parts[pi]) == 0 {
				continue
			}
			key := ""
			if spell == "named" {
				mj, _ := json.Marshal(rt.M)
				key = string(mj) // routes with the same criteria set share the definition
			}
			name, ok := shared[key]
			if key == "" || !ok {
				name = fmt.Sprintf("%s%d%s", pick(rm, []string{"m", "crit-r", "M_", "only-"}), i+1, []string{"a", "b"}[pi])
				fmt.Fprintf(&defs, "@%s {\n%s}\n", name, c.renderItems(rt.M, parts[pi], "  ", rm))
				if key != "" {
					shared[key] = name
				}
			}
			refs = append(refs, "@"+name)
		}
		inlineFirst := rm.Intn(2) == 0
		writeInline := func() {
			if len(parts[2]) > 0 {
				w("  match {\n%s  }\n", c.renderItems(rt.M, parts[2], "    ", rm))
			}
		}
		if inlineFirst {
			writeInline()
		}
		if len(refs) == 2 && rm.Intn(2) == 0 {
			w("  match %s\n  match %s\n", refs[0], refs[1])
		} else if len(refs) > 0 {
			w("  match %s\n", strings.Join(refs, " "))
		}
		if !inlineFirst {
			writeInline()
		}
		var namedOnly []string
		for _, crit := range []string{"method", "host", "hdr", "q", "ip"} {
			has, inline := false, false
			for _, it := range items {
				if it.crit == crit {
					has = true
				}
			}
			for _, it := range parts[2] {
				if it.crit == crit {
					inline = true
				}
			}
			if has && !inline {
				namedOnly = append(namedOnly, crit)
			}
		}
		if namedOnly == nil {
			namedOnly = []string{}
		}
		c.Named = append(c.Named, namedOnly)
		// auth
		switch rt.Auth.K {
		case "basic":
			for _, u := range rt.Auth.Users {
				if rt.Auth.Pwform == "ref" {
					env := fmt.Sprintf("VERIF_PW_%s_%s", tag, u.U)
					c.Env[env] = c.Password[u.P]
					c.PwRefText[u.U] = "env:" + env
					w("  auth basic %s %s\n", quote(c.UserName[u.U]), quote("env:"+env))
				} else {
					w("  auth basic %s %s\n", quote(c.UserName[u.U]), quote(c.Password[u.P]))
				}
			}
		case "hmac":
			if rt.Auth.Names == "custom" {
				c.SigH, c.TsH, c.NonceH = pick(r, []string{"X-Hub-Signature-256", "Webhook-Signature", "X-Sig"}), pick(r, []string{"X-Hub-Timestamp", "Webhook-Timestamp", "X-Ts"}), pick(r, []string{"X-Hub-Nonce", "Webhook-Id", "X-N"})
			}
			w("  auth hmac {\n")
			for _, s := range rt.Auth.St {
				env := fmt.Sprintf("VERIF_HS_%s_%s", tag, s)
				c.Env[env] = string(c.Key[s])
				w("    secret \"env:%s\"\n", env)
			}
			for _, v := range rt.Auth.Vs {
				w("    secret_ref %s\n", quote(v.ID))
			}
			if rt.Auth.Names == "custom" {
				w("    signature_header %s\n    timestamp_header %s\n    nonce_header %s\n", quote(c.SigH), quote(c.TsH), quote(c.NonceH))
			}
			if rt.Auth.Tol != 300 || r.Intn(2) == 0 {
				if rt.Auth.Tol%60 == 0 && r.Intn(2) == 0 {
					w("    tolerance %dm\n", rt.Auth.Tol/60)
				} else {
					w("    tolerance %ds\n", rt.Auth.Tol)
				}
			}
			w("  }\n")
		case "forward":
			url := fwdURL
			if rt.Auth.Ep == "closed" {
				url = closedURL
			}
			c.FwdTimeout = 2 * time.Second
			if rt.Auth.Tmo == "short" {
				c.FwdTimeout = ShortForwardTimeout
				w("  auth forward %s {\n    timeout %dms\n  }\n", quote(url), ShortForwardTimeout/time.Millisecond)
			} else {
				w("  auth forward %s\n", quote(url))
			}
		}
		// mode
		var tgs []string
		if rt.Tg == 0 {
			w("  pull { path \"/pull/%s-r%d\" }\n", tag, i+1)
			tgs = []string{"pull"}
		} else {
			for k := 1; k <= rt.Tg; k++ {
				u := fmt.Sprintf("http://127.0.0.9:9/%s/r%d/t%d", tag, i+1, k)
				w("  deliver %s {\n    timeout 1s\n  }\n", quote(u))
				tgs = append(tgs, u)
			}
		}
		c.Targets = append(c.Targets, tgs)
		w("}\n")
		if wrapper {
			w("}\n")
		}
	}
	c.File = sb.String()
	if defs.Len() > 0 {
		// named matcher definitions are top-level blocks; before or after the routes that use them
		if defsFirst {
			c.File = c.File[:headLen] + defs.String() + c.File[headLen:]
		} else {
			c.File += defs.String()
		}
	}
	return c
}

// ShortForwardTimeout is the configured forward-auth timeout of the "short" configurations.
const ShortForwardTimeout = 600 * time.Millisecond

func (c *ConcCfg) hostText(labels []string) string {
	parts := make([]string, len(labels))
	for i, l := range labels {
		if v, ok := c.Label[l]; ok {
			parts[i] = v
		} else {
			parts[i] = l
		}
	}
	return strings.Join(parts, ".")
}

func (c *ConcCfg) hostPatText(hp HostPat, r *rand.Rand) string {
	switch hp.K {
	case "any":
		return "*"
	case "sub":
		s := "*." + c.hostText(hp.L)
		if r.Intn(3) == 0 {
			s = strings.ToUpper(s)
		}
		return s
	}
	s := c.hostText(hp.L)
	if strings.HasPrefix(s, "[") {
		return s
	}
	switch r.Intn(4) {
	case 0:
		s = strings.ToUpper(s)
	case 1:
		s += "."
	}
	return s
}

func (c *ConcCfg) prefixText(name string, r *rand.Rand) string {
	p := c.Pfx[name]
	if p.Bits() == p.Addr().BitLen() {
		if r.Intn(2) == 0 {
			return p.Addr().String() // single address without /len
		}
		return p.String()
	}
	if r.Intn(3) == 0 {
		// host bits set: compile masks the prefix
		return netip.PrefixFrom(randInside(r, p), p.Bits()).String()
	}
	return p.String()
}
