// Package ingressx binds the abstract tables of spec/Ingress.tla (properties
// C10 and C08) to the real ingress pipeline: it turns an abstract
// configuration into a Hookaidofile compiled by the real config package and
// booted through app.VerifBoot, turns every abstract request into concrete
// HTTP requests, drives the production ingress handler in-process and records
// what happened (status, Allow, queue dump difference) as ndjson events for
// spec/IngressTrace.tla.  It computes no expected results.
package ingressx

import (
	"encoding/json"
	"hash/fnv"
	"math/rand"
)

// ---- abstract records (JSON vocabulary of spec/IngressMC.tla) ----

type HostPat struct {
	K string   `json:"k"` // exact | any | sub
	L []string `json:"l"`
}

type ValReq struct {
	K string `json:"k"` // none | exists | value
	V string `json:"v"`
}

type Match struct {
	Methods []string  `json:"methods"`
	Hosts   []HostPat `json:"hosts"`
	Hdr     ValReq    `json:"hdr"`
	Q       ValReq    `json:"q"`
	Ips     []string  `json:"ips"`
}

type User struct {
	U string `json:"u"`
	P string `json:"p"`
}

type Version struct {
	ID    string `json:"id"`
	From  int    `json:"from"`
	Until int    `json:"until"` // -1 = none
}

type Auth struct {
	K      string    `json:"k"` // none | basic | hmac | forward
	Users  []User    `json:"users"`
	Pwform string    `json:"pwform"` // plain | ref
	Names  string    `json:"names"`  // default | custom
	Tol    int       `json:"tol"`    // seconds
	St     []string  `json:"st"`
	Vs     []Version `json:"vs"`
	Tmo    string    `json:"tmo"` // default | short
	Ep     string    `json:"ep"`  // script | closed
}

type Route struct {
	Ch   string   `json:"ch"`
	Path []string `json:"path"`
	M    Match    `json:"m"`
	Auth Auth     `json:"auth"`
	Tg   int      `json:"tg"`
}

type IP struct {
	Fam  int    `json:"fam"`
	Pos  int    `json:"pos"`
	Form string `json:"form"` // plain | mapped
}

type Cred struct {
	K     string `json:"k"`
	Wf    string `json:"wf"`
	User  string `json:"user"`
	Pwof  string `json:"pwof"`
	Pwrel string `json:"pwrel"`
	Ps    string `json:"ps"`
	Pt    string `json:"pt"`
	Pn    string `json:"pn"`
	Tsf   string `json:"tsf"`
	Ts    int    `json:"ts"`  // seconds relative to Base
	Now   int    `json:"now"` // milliseconds relative to Base
	Sigc  string `json:"sigc"`
	Key   string `json:"key"`
	Fk    string `json:"fk"`
	Code  int    `json:"code"`
}

type Req struct {
	Path   []string `json:"path"`
	Method string   `json:"method"`
	Host   []string `json:"host"`
	Hdr    []string `json:"hdr"`
	Q      []string `json:"q"`
	IP     IP       `json:"ip"`
	Cred   Cred     `json:"cred"`
}

// TableLine is one line of the generated table: a configuration and the
// complete set of its abstract requests (raw JSON is passed through into the
// trace verbatim).
type TableLine struct {
	Cfg  json.RawMessage   `json:"cfg"`
	Reqs []json.RawMessage `json:"reqs"`
}

// ---- trace events ----

type NewMsg struct {
	Ri int  `json:"ri"` // 1-based index of the route (by stored route path) in the configuration, 0 = unknown
	Ti int  `json:"ti"` // 1-based index of the stored target among the targets of that route, 0 = unknown
	Pl bool `json:"pl"` // stored payload == body sent
}

type Obs struct {
	Status int      `json:"status"`
	Allow  []string `json:"allow"`
	New    []NewMsg `json:"new"`
	Gone   int      `json:"gone"` // messages present before and missing after
	Mut    int      `json:"mut"`  // messages present before and after but different
	Pre    int      `json:"pre"`  // messages in the store before the request
}

type Conc struct {
	Method  string            `json:"method"`
	Target  string            `json:"target"`
	Host    string            `json:"host"`
	Remote  string            `json:"remote"`
	Hdr     map[string]string `json:"hdr,omitempty"` // selected request headers (joined)
	BodyLen int               `json:"bodylen"`
	Var     map[string]string `json:"var"` // attribute -> variant label ("plain" omitted)
	Note    string            `json:"note,omitempty"`
}

type Event struct {
	Ev    string          `json:"ev"` // Cfg | Req
	Tr    string          `json:"tr"`
	Ci    int             `json:"ci"`
	Cseed int64           `json:"cseed"`
	Cfg   json.RawMessage `json:"cfg,omitempty"`
	File  string          `json:"file,omitempty"`
	Spell string          `json:"spell,omitempty"` // Cfg: spelling of the match criteria in this rendering; Req: same
	Named [][]string      `json:"named,omitempty"` // Cfg: per route, the criteria written only through named matchers
	Row   int             `json:"row"`
	K     int             `json:"k"`
	Rseed int64           `json:"rseed"`
	Mask  string          `json:"mask"` // "*" every attribute varies, "" plain, else comma-separated attributes
	Req   json.RawMessage `json:"req,omitempty"`
	Conc  *Conc           `json:"conc,omitempty"`
	Obs   *Obs            `json:"obs,omitempty"`
}

// Attrs are the request attributes whose concretisation has variants; a mask
// names the attributes that may leave their plain rendering.
var Attrs = []string{"path", "host", "ip", "hdr", "q", "body", "auth"}

func subSeed(seed int64, parts ...string) int64 {
	h := fnv.New64a()
	var b [8]byte
	for i := 0; i < 8; i++ {
		b[i] = byte(seed >> (8 * i))
	}
	h.Write(b[:])
	for _, p := range parts {
		h.Write([]byte{0})
		h.Write([]byte(p))
	}
	return int64(h.Sum64() & 0x7fffffffffffffff)
}

func rng(seed int64, parts ...string) *rand.Rand {
	return rand.New(rand.NewSource(subSeed(seed, parts...)))
}

func pick[T any](r *rand.Rand, xs []T) T { return xs[r.Intn(len(xs))] }

// ParseMask turns the textual mask into Build's argument (nil = every attribute varies).
func ParseMask(s string) []string {
	if s == "*" {
		return nil
	}
	out := []string{}
	for _, a := range splitComma(s) {
		out = append(out, a)
	}
	return out
}

func splitComma(s string) []string {
	var out []string
	cur := ""
	for i := 0; i < len(s); i++ {
		if s[i] == ',' {
			if cur != "" {
				out = append(out, cur)
			}
			cur = ""
			continue
		}
		cur += string(s[i])
	}
	if cur != "" {
		out = append(out, cur)
	}
	return out
}
