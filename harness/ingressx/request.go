package ingressx

import (
	"bytes"
	"crypto/hmac"
	"crypto/sha256"
	"encoding/base64"
	"encoding/hex"
	"fmt"
	"math/rand"
	"net/http"
	"net/http/httptest"
	"net/netip"
	"strconv"
	"strings"
	"time"
)

// ConcReq is one concrete request for an abstract row.
type ConcReq struct {
	R     *http.Request
	Body  []byte
	NowMS int // fake clock for this request, ms relative to Base
	Conc  Conc
}

type masker map[string]bool

func (m masker) on(attr string) bool { return m == nil || m[attr] }

func flipBit(b []byte, pos int, bit uint) []byte {
	out := append([]byte(nil), b...)
	out[pos] ^= 1 << bit
	return out
}

// flipWhere picks a position for a single-bit flip: first, last or random.
func flipWhere(r *rand.Rand, n int) (int, string) {
	switch r.Intn(3) {
	case 0:
		return 0, "first"
	case 1:
		return n - 1, "last"
	}
	return r.Intn(n), "random"
}

func isToken(s string) bool {
	if s == "" {
		return false
	}
	for i := 0; i < len(s); i++ {
		ch := s[i]
		if ch >= 'A' && ch <= 'Z' || ch >= 'a' && ch <= 'z' || ch >= '0' && ch <= '9' {
			continue
		}
		if strings.IndexByte("!#$%&'*+-.^_`|~", ch) >= 0 {
			continue
		}
		return false
	}
	return true
}

func pctEncodeOne(r *rand.Rand, seg string) string {
	// percent-encode one unreserved ASCII letter / digit of the segment (RFC 3986: equivalent URI)
	var idx []int
	for i := 0; i < len(seg); i++ {
		ch := seg[i]
		if ch >= 'A' && ch <= 'Z' || ch >= 'a' && ch <= 'z' || ch >= '0' && ch <= '9' {
			idx = append(idx, i)
		}
	}
	if len(idx) == 0 {
		return seg
	}
	i := idx[r.Intn(len(idx))]
	f := "%%%02X"
	if r.Intn(2) == 0 {
		f = "%%%02x"
	}
	return seg[:i] + fmt.Sprintf(f, seg[i]) + seg[i+1:]
}

// climbSegs returns segments to append to a clean path before climbing back with "..": if some route path of the
// configuration strictly extends the clean path, the extension of one of them (the raw path then runs THROUGH that
// route's path and ends above it), else one or two segment names of the configuration's vocabulary.
func (c *ConcCfg) climbSegs(r *rand.Rand, segs []string) ([]string, bool) {
	clean := "/" + strings.Join(segs, "/")
	var exts [][]string
	for _, rp := range c.RoutePaths {
		if rp == "/" || rp == clean {
			continue
		}
		pre := clean
		if pre != "/" {
			pre += "/"
		}
		if strings.HasPrefix(rp, pre) {
			exts = append(exts, strings.Split(strings.TrimPrefix(rp, pre), "/"))
		}
	}
	if len(exts) > 0 {
		return pick(r, exts), true
	}
	toks := []string{"a", "b", "c", "d", "x", "h", "y", "ab", "bc"}
	n := 1 + r.Intn(2)
	out := make([]string, n)
	for i := range out {
		out[i] = c.Seg[pick(r, toks)]
	}
	return out, false
}

// filler is a segment that a following ".." removes again: a name of the configuration's vocabulary or a made-up one.
func (c *ConcCfg) filler(r *rand.Rand) string {
	if r.Intn(2) == 0 {
		return c.Seg[pick(r, []string{"a", "b", "c", "d", "x", "h", "y", "ab", "bc"})]
	}
	return pick(r, []string{"zz", "z1", "qq"})
}

var encodedDotDot = []string{"%2e%2e", "%2E%2E", ".%2e", "%2E."}

// messyPath renders a clean path in an equivalent unclean form (equivalent under dot-segment removal, empty-segment
// removal and decoding of percent-encoded unreserved characters).  The raw text is sent verbatim (as `curl
// --path-as-is` would).  The second result says that the raw path runs through the path of another route.
func (c *ConcCfg) messyPath(r *rand.Rand, segs []string, variant string) (string, bool) {
	clean := "/" + strings.Join(segs, "/")
	if variant == "plain" {
		return clean, false
	}
	base := clean
	if base == "/" {
		base = ""
	}
	switch variant {
	case "climb", "climbpct", "climbslash":
		// real segments appended and taken back by a FINAL ".." (no trailing slash unless climbslash)
		ext, through := c.climbSegs(r, segs)
		raw := base + "/" + strings.Join(ext, "/")
		for i := range ext {
			dd := ".."
			if variant == "climbpct" && (i == len(ext)-1 || r.Intn(2) == 0) {
				dd = pick(r, encodedDotDot)
			}
			raw += "/" + dd
		}
		if variant == "climbslash" {
			raw += "/"
		}
		return raw, through
	case "enddot":
		// "." or an empty segment as the final segment(s)
		return base + pick(r, []string{"/.", "/./.", "//", "/.//", "//.", "/%2e", "/%2E"}), false
	}
	if len(segs) == 0 {
		switch variant {
		case "dslash":
			return "//", false
		case "dot":
			return pick(r, []string{"/.", "/./"}), false
		case "dotdot":
			f, g := c.filler(r), c.filler(r)
			return pick(r, []string{"/" + f + "/..", "/" + f + "/../", "/" + f + "/" + g + "/../..", "/" + f + "/../" + g + "/.."}), false
		}
		return "/", false
	}
	parts := append([]string(nil), segs...)
	at := r.Intn(len(parts) + 1) // boundary: before parts[at] (len = at the end)
	ins := func(s string) string {
		var sb strings.Builder
		for i, p := range parts {
			if i == at {
				sb.WriteString(s)
			}
			sb.WriteString("/" + p)
		}
		if at == len(parts) {
			sb.WriteString(s)
		}
		return sb.String()
	}
	switch variant {
	case "tslash":
		return "/" + strings.Join(parts, "/") + "/", false
	case "dslash":
		return ins("/"), false
	case "dot":
		return ins("/."), false
	case "dotdot":
		f, g := c.filler(r), c.filler(r)
		return ins(pick(r, []string{"/" + f + "/..", "/" + f + "/./..", "/" + f + "/" + g + "/../.."})), false
	case "pct":
		i := r.Intn(len(parts))
		parts[i] = pctEncodeOne(r, parts[i])
		return "/" + strings.Join(parts, "/"), false
	case "mix":
		i := r.Intn(len(parts))
		parts[i] = pctEncodeOne(r, parts[i])
		return ins(pick(r, []string{"/", "/.", "/" + c.filler(r) + "/.."})) + pick(r, []string{"", "/", "/."}), false
	}
	return "/" + strings.Join(parts, "/"), false
}

// climb is listed twice: a final ".." above another route's path is the rendering that separates a complete
// dot-segment removal from a partial one
var pathVariants = []string{"tslash", "dslash", "dot", "dotdot", "pct", "mix", "climb", "climb", "climbpct", "climbslash", "enddot"}

func caseMix(r *rand.Rand, s string) string {
	b := []byte(s)
	for i := range b {
		if r.Intn(2) == 0 {
			b[i] = byte(strings.ToUpper(string(b[i]))[0])
		}
	}
	return string(b)
}

func (c *ConcCfg) hostHeader(r *rand.Rand, labels []string, variant string) string {
	h := c.hostText(labels)
	port := pick(r, []string{":80", ":8080", ":443", ":65535"})
	if strings.HasPrefix(h, "[") {
		switch variant {
		case "port":
			return h + port
		case "upper", "mixed":
			return strings.ToUpper(h)
		case "upperport", "dotport":
			return strings.ToUpper(h) + port
		}
		return h
	}
	switch variant {
	case "upper":
		return strings.ToUpper(h)
	case "mixed":
		return caseMix(r, h)
	case "port":
		return h + port
	case "dot":
		return h + "."
	case "upperport":
		return strings.ToUpper(h) + port
	case "dotport":
		return h + "." + port
	}
	return h
}

var hostVariants = []string{"upper", "mixed", "port", "dot", "upperport", "dotport"}

// address for an abstract (family, position) on the configuration's address line
func (c *ConcCfg) addr(r *rand.Rand, ip IP) netip.Addr {
	a, s := c.Pfx["A4"], c.Pfx["S4"]
	if ip.Fam == 6 {
		a, s = c.Pfx["A6"], c.Pfx["S6"]
	}
	first, last := a.Masked().Addr(), lastAddr(a)
	switch ip.Pos {
	case 0:
		if ip.Fam == 4 {
			b := first.As4()
			v := uint32(b[0])<<24 | uint32(b[1])<<16 | uint32(b[2])<<8 | uint32(b[3])
			v -= 1<<24 + uint32(r.Intn(65536))
			return netip.AddrFrom4([4]byte{byte(v >> 24), byte(v >> 16), byte(v >> 8), byte(v)})
		}
		var b [16]byte
		b[0], b[1], b[2], b[3] = 0x20, 0x01, 0x0d, 0xb7
		for i := 4; i < 16; i++ {
			b[i] = byte(r.Intn(256))
		}
		return netip.AddrFrom16(b)
	case 2:
		return first.Prev()
	case 3:
		return first
	case 4, 5:
		return randInside(r, a)
	case 6:
		return last
	case 7:
		return last.Next()
	case 8:
		return s.Addr()
	case 9:
		return s.Addr().Next()
	}
	return first
}

func (c *ConcCfg) remoteAddr(r *rand.Rand, ip IP, variant string) string {
	a := c.addr(r, ip)
	port := strconv.Itoa(1024 + r.Intn(60000))
	if ip.Fam == 4 && ip.Form == "mapped" {
		b := a.As4()
		m := "::ffff:" + a.String()
		switch variant {
		case "noport":
			return m
		case "hex":
			return fmt.Sprintf("[::ffff:%02x%02x:%02x%02x]:%s", b[0], b[1], b[2], b[3], port)
		case "bracket":
			return "[" + m + "]"
		}
		return "[" + m + "]:" + port
	}
	if ip.Fam == 4 {
		if variant == "noport" {
			return a.String()
		}
		return a.String() + ":" + port
	}
	switch variant {
	case "noport":
		return a.String()
	case "bracket":
		return "[" + a.String() + "]"
	case "hex":
		return "[" + strings.ToUpper(a.StringExpanded()) + "]:" + port
	}
	return "[" + a.String() + "]:" + port
}

var ipVariants = []string{"noport", "bracket", "hex"}

func (c *ConcCfg) vals(tokens []string) []string {
	out := make([]string, len(tokens))
	for i, t := range tokens {
		out[i] = c.Val[t]
	}
	return out
}

// Build makes the k-th concrete request of an abstract row.  mask == nil lets every attribute vary;
// otherwise only the named attributes leave their plain rendering.
func (c *ConcCfg) Build(q Req, rseed int64, token string, mask []string) *ConcReq {
	var m masker
	if mask != nil {
		m = masker{}
		for _, a := range mask {
			m[a] = true
		}
	}
	vr := map[string]string{}
	variant := func(attr string, r *rand.Rand, vs []string) string {
		if !m.on(attr) || len(vs) == 0 {
			return "plain"
		}
		v := pick(r, vs)
		vr[attr] = v
		return v
	}

	// ---- path
	segs := make([]string, len(q.Path))
	for i, s := range q.Path {
		segs[i] = c.Seg[s]
	}
	clean := "/" + strings.Join(segs, "/")
	rp := rng(rseed, "path")
	target, through := c.messyPath(rp, segs, variant("path", rp, pathVariants))
	if through {
		vr["path"] += "-route" // the raw path runs through the path of another route of the configuration
	}

	// ---- query
	rq := rng(rseed, "q")
	var qs []string
	qv := variant("q", rq, []string{"noise", "pct", "noisepct"})
	for _, v := range c.vals(q.Q) {
		ev := v
		if strings.Contains(qv, "pct") && len(v) > 0 {
			ev = pctEncodeOne(rq, v)
		}
		qs = append(qs, c.QKey+"="+ev)
	}
	if strings.Contains(qv, "noise") {
		// other keys, including look-alikes of the key carrying the required value
		noise := []string{c.QKey + "x=" + c.Val["v"], "x" + c.QKey + "=" + c.Val["v"], "z=1", "utm=" + c.Val["w"], c.QKey[:len(c.QKey)-1] + "_=" + c.Val["v"]}
		n := 1 + rq.Intn(3)
		for i := 0; i < n; i++ {
			nz := pick(rq, noise)
			if rq.Intn(2) == 0 {
				qs = append([]string{nz}, qs...)
			} else {
				qs = append(qs, nz)
			}
		}
	}
	if len(qs) > 0 {
		target += "?" + strings.Join(qs, "&")
	}

	// ---- body: unique token, optional binary tail
	rb := rng(rseed, "body")
	body := []byte(`{"tok":"` + token + `"}`)
	switch variant("body", rb, []string{"binary", "text", "binary", "text", "binary", "text", "binary", "text", "binary", "large"}) {
	case "binary":
		tail := make([]byte, 1+rb.Intn(64))
		rb.Read(tail)
		body = append(body, tail...)
	case "large":
		tail := make([]byte, 20000+rb.Intn(40000))
		rb.Read(tail)
		body = append(body, tail...)
	case "text":
		body = append(body, []byte("\n"+safeWord(rb, 1+rb.Intn(200))+"\n")...)
	}

	var r *http.Request
	func() {
		defer func() {
			if recover() != nil {
				r = nil
			}
		}()
		r = httptest.NewRequest(q.Method, target, bytes.NewReader(body))
	}()
	if r == nil {
		// the variant is not a legal request target: fall back to the clean form
		vr["path"] = "fallback"
		target = clean
		if len(qs) > 0 {
			target += "?" + strings.Join(qs, "&")
		}
		r = httptest.NewRequest(q.Method, target, bytes.NewReader(body))
	}

	// ---- host
	rh := rng(rseed, "host")
	r.Host = c.hostHeader(rh, q.Host, variant("host", rh, hostVariants))

	// ---- remote address
	ri := rng(rseed, "ip")
	r.RemoteAddr = c.remoteAddr(ri, q.IP, variant("ip", ri, ipVariants))

	// ---- matched header
	rx := rng(rseed, "hdr")
	hv := c.vals(q.Hdr)
	shown := map[string]string{}
	if len(hv) > 0 {
		v := "plain"
		if len(hv) > 1 {
			v = variant("hdr", rx, []string{"spaced", "multi", "ws", "split"})
		}
		switch v {
		case "plain":
			r.Header.Set(c.HdrName, strings.Join(hv, ","))
		case "spaced":
			r.Header.Set(c.HdrName, strings.Join(hv, ", "))
		case "multi":
			for _, x := range hv {
				r.Header.Add(c.HdrName, x)
			}
		case "ws":
			var parts []string
			for _, x := range hv {
				parts = append(parts, pick(rx, []string{"", " ", "  ", "\t"})+x+pick(rx, []string{"", " ", "\t"}))
			}
			r.Header.Set(c.HdrName, strings.TrimSpace(strings.Join(parts, ",")))
		case "split":
			k := 1 + rx.Intn(len(hv)-1)
			r.Header.Add(c.HdrName, strings.Join(hv[:k], ", "))
			r.Header.Add(c.HdrName, strings.Join(hv[k:], ","))
		}
		shown[c.HdrName] = strings.Join(r.Header.Values(c.HdrName), " | ")
	}
	r.Header.Set("Content-Type", "application/json")

	cr := &ConcReq{R: r, Body: body}
	// ---- auth material
	ra := rng(rseed, "auth")
	note := ""
	switch q.Cred.K {
	case "basic":
		note = c.basic(ra, r, q.Cred, m.on("auth"), vr)
		shown["Authorization"] = r.Header.Get("Authorization")
	case "hmac":
		note = c.hmac(ra, cr, q, clean, target, m.on("auth"), vr)
		for _, h := range []string{c.SigH, c.TsH, c.NonceH} {
			if vs, ok := r.Header[http.CanonicalHeaderKey(h)]; ok {
				shown[h] = strings.Join(vs, " | ")
			}
		}
	case "forward":
		note = c.forward(ra, r, q.Cred, m.on("auth"), vr)
		shown[FwdScriptHeader] = r.Header.Get(FwdScriptHeader)
	}
	cr.Conc = Conc{Method: r.Method, Target: target, Host: r.Host, Remote: r.RemoteAddr, Hdr: shown, BodyLen: len(cr.Body), Var: vr, Note: note}
	return cr
}

// ---------------------------------------------------------------- basic

func (c *ConcCfg) basic(r *rand.Rand, req *http.Request, cr Cred, vary bool, vr map[string]string) string {
	// the credentials an entitled client would send
	rightUser, rightPw := c.UserName["u1"], c.Password["p1"]
	b64 := func(s string) string { return base64.StdEncoding.EncodeToString([]byte(s)) }
	ch := func(vs []string) string {
		if !vary {
			return vs[0]
		}
		v := pick(r, vs)
		if v != vs[0] {
			vr["auth"] = v
		}
		return v
	}
	switch cr.Wf {
	case "absent":
		if ch([]string{"omitted", "emptyvalue"}) == "emptyvalue" {
			req.Header.Set("Authorization", "")
		}
		return "no credentials"
	case "scheme":
		good := b64(rightUser + ":" + rightPw)
		switch ch([]string{"bearer", "digest", "bare", "basi", "basicx", "negotiate", "nospace"}) {
		case "bearer":
			req.Header.Set("Authorization", "Bearer "+good)
		case "digest":
			req.Header.Set("Authorization", `Digest username="`+rightUser+`", response="`+good+`"`)
		case "bare":
			req.Header.Set("Authorization", "Basic")
		case "basi":
			req.Header.Set("Authorization", "Basi "+good)
		case "basicx":
			req.Header.Set("Authorization", "Basicx "+good)
		case "negotiate":
			req.Header.Set("Authorization", "Negotiate "+good)
		case "nospace":
			req.Header.Set("Authorization", "Basic"+good)
		}
		return "right credentials under a scheme that is not Basic"
	case "badb64":
		good := b64(rightUser + ":" + rightPw)
		switch ch([]string{"star", "percent", "garbage", "urlsafe"}) {
		case "star":
			i := r.Intn(len(good))
			req.Header.Set("Authorization", "Basic "+good[:i]+"*"+good[i+1:])
		case "percent":
			req.Header.Set("Authorization", "Basic %"+good)
		case "garbage":
			req.Header.Set("Authorization", "Basic !!!not base64!!!")
		case "urlsafe":
			req.Header.Set("Authorization", "Basic "+good+"_-") // not in the standard alphabet
		}
		return "Basic with a value that is not base64"
	case "nocolon":
		switch ch([]string{"joined", "useronly"}) {
		case "joined":
			req.Header.Set("Authorization", "Basic "+b64(rightUser+rightPw))
		case "useronly":
			req.Header.Set("Authorization", "Basic "+b64(rightUser))
		}
		return "Basic, base64 of text without a colon"
	}
	// well-formed
	user := c.UserName[cr.User]
	if cr.User == "ux" {
		switch ch([]string{"other", "suffix", "prefix", "emptyuser"}) {
		case "other":
			user = "nobody-" + safeWord(r, 4)
		case "suffix":
			user = rightUser + "x"
		case "prefix":
			user = rightUser[:len(rightUser)-1]
		case "emptyuser":
			user = ""
		}
	}
	base := c.Password[cr.Pwof]
	pw := base
	switch cr.Pwrel {
	case "eq":
	case "shorter":
		switch ch([]string{"droplast", "dropfirst", "onechar"}) {
		case "droplast":
			pw = base[:len(base)-1]
		case "dropfirst":
			pw = base[1:]
		case "onechar":
			pw = base[:1]
		}
	case "longer":
		switch ch([]string{"appendx", "double", "appendnul", "prependsp"}) {
		case "appendx":
			pw = base + "x"
		case "double":
			pw = base + base
		case "appendnul":
			pw = base + "\x00"
		case "prependsp":
			pw = " " + base
		}
	case "samelen":
		pos, where := 0, "first"
		if vary {
			pos, where = flipWhere(r, len(base))
			vr["auth"] = "bitflip-" + where
		}
		pw = string(flipBit([]byte(base), pos, uint(r.Intn(7))))
	case "empty":
		pw = ""
	case "reftext":
		pw = c.PwRefText[userOfPw(cr.Pwof)]
	}
	req.Header.Set("Authorization", "Basic "+b64(user+":"+pw))
	return fmt.Sprintf("user %q password %q", user, pw)
}

func userOfPw(p string) string {
	// the user token whose password token is p (p1 -> u1, p2 -> u2)
	return "u" + strings.TrimPrefix(p, "p")
}

// ---------------------------------------------------------------- hmac

func mac(key []byte, ts, method, path string, body []byte) []byte {
	h := sha256.Sum256(body)
	m := hmac.New(sha256.New, key)
	m.Write([]byte(ts + "\n" + method + "\n" + path + "\n" + hex.EncodeToString(h[:])))
	return m.Sum(nil)
}

var unparsable = []string{"abc", "12.5e3", "0x6b49d200", "1_800_000_000", "18 00", "99999999999999999999", "１７", "1800000000.0", "--5", "1800000000s"}

func (c *ConcCfg) hmac(r *rand.Rand, cr *ConcReq, q Req, clean, target string, vary bool, vr map[string]string) string {
	cd := q.Cred
	req := cr.R
	ch := func(vs []string) string {
		if !vary {
			return vs[0]
		}
		v := pick(r, vs)
		if v != vs[0] {
			vr["auth"] = v
		}
		return v
	}
	cr.NowMS = cd.Now
	tsStr := strconv.FormatInt(Base.Unix()+int64(cd.Ts), 10)
	if cd.Tsf == "unparsable" {
		tsStr = ch(unparsable)
	}
	key := c.Key[cd.Key]
	body := cr.Body
	method := req.Method
	signTs, signMethod, signPath, signBody := tsStr, method, clean, body
	sentTs := tsStr
	note := "signature over what is sent, key " + cd.Key
	rawPath := target
	if i := strings.IndexByte(rawPath, '?'); i >= 0 {
		rawPath = rawPath[:i]
	}
	switch cd.Sigc {
	case "alt_body":
		pos, where := flipWhere(r, len(body))
		fl := flipBit(body, pos, uint(r.Intn(8)))
		if ch([]string{"sent-flipped", "signed-flipped"}) == "sent-flipped" {
			// the body on the wire differs in one bit from the body that was signed
			cr.Body = fl
			req.Body = readCloser(fl)
			req.ContentLength = int64(len(fl))
		} else {
			signBody = fl
		}
		note = "body differs from the signed body in one bit (" + where + ")"
	case "alt_path":
		alts := []string{"signed-flipped-last", "signed-flipped-first", "signed-flipped-random", "signed-tslash", "signed-parent"}
		if rawPath != clean {
			alts = append(alts, "signed-raw", "signed-raw")
		}
		switch v := ch(alts); v {
		case "signed-flipped-last":
			signPath = string(flipBit([]byte(clean), len(clean)-1, uint(r.Intn(5))))
		case "signed-flipped-first":
			signPath = string(flipBit([]byte(clean), 0, uint(r.Intn(5))))
		case "signed-flipped-random":
			signPath = string(flipBit([]byte(clean), r.Intn(len(clean)), uint(r.Intn(5))))
		case "signed-tslash":
			signPath = clean + "/"
		case "signed-parent":
			signPath = clean[:strings.LastIndexByte(clean, '/')]
			if signPath == "" {
				signPath = "/"
			}
		case "signed-raw":
			signPath = rawPath // the path as sent, not cleaned
		}
		note = fmt.Sprintf("signature over path %q, cleaned request path is %q", signPath, clean)
	case "alt_method":
		switch ch([]string{"flip-first", "flip-last", "flip-random", "lower", "othermethod"}) {
		case "flip-first":
			signMethod = string(flipBit([]byte(method), 0, uint(r.Intn(5))))
		case "flip-last":
			signMethod = string(flipBit([]byte(method), len(method)-1, uint(r.Intn(5))))
		case "flip-random":
			signMethod = string(flipBit([]byte(method), r.Intn(len(method)), uint(r.Intn(5))))
		case "lower":
			signMethod = strings.ToLower(method)
		case "othermethod":
			signMethod = map[string]string{"POST": "PUT", "PUT": "POST"}[method]
			if signMethod == "" {
				signMethod = "GET"
			}
		}
		note = fmt.Sprintf("signature over method %q, request method is %q", signMethod, method)
	case "alt_ts":
		alts := []string{"signed-flip-last", "signed-flip-first", "signed-flip-random", "signed-plus1", "signed-space"}
		if cd.Tsf == "int" && cd.Now == cd.Ts*1000 && cd.Ts == 500 {
			// mid-window, clock offset 0: the header itself may be altered without leaving the abstract class
			alts = append(alts, "sent-plus1", "sent-minus1")
		}
		switch v := ch(alts); v {
		case "signed-flip-last":
			signTs = string(flipBit([]byte(tsStr), len(tsStr)-1, uint(r.Intn(3))))
		case "signed-flip-first":
			signTs = string(flipBit([]byte(tsStr), 0, uint(r.Intn(3))))
		case "signed-flip-random":
			signTs = string(flipBit([]byte(tsStr), r.Intn(len(tsStr)), uint(r.Intn(3))))
		case "signed-plus1":
			signTs = tsStr + "0"
		case "signed-space":
			signTs = " " + tsStr
		case "sent-plus1":
			sentTs = strconv.FormatInt(Base.Unix()+int64(cd.Ts)+1, 10)
		case "sent-minus1":
			sentTs = strconv.FormatInt(Base.Unix()+int64(cd.Ts)-1, 10)
		}
		if signTs == tsStr && sentTs == tsStr {
			signTs = tsStr + "1"
		}
		note = fmt.Sprintf("signature over timestamp %q, timestamp header is %q", signTs, sentTs)
	}
	sum := mac(key, signTs, signMethod, signPath, signBody)
	sig := hex.EncodeToString(sum)
	switch cd.Sigc {
	case "alt_sig":
		pos, where := 0, "first"
		if vary {
			pos, where = flipWhere(r, len(sig))
		}
		for {
			fl := string(flipBit([]byte(sig), pos, uint(r.Intn(7))))
			if !strings.EqualFold(fl, sig) { // a case flip of a hex letter is the same signature
				sig = fl
				break
			}
		}
		note = "one bit of the signature header flipped (" + where + ")"
	case "nothex":
		switch ch([]string{"letter", "prefix", "base64", "space"}) {
		case "letter":
			i := r.Intn(len(sig))
			sig = sig[:i] + "g" + sig[i+1:]
		case "prefix":
			sig = "sha256=" + sig
		case "base64":
			sig = base64.StdEncoding.EncodeToString(sum)
		case "space":
			sig = sig[:32] + " " + sig[32:]
		}
		note = "signature header is not hex"
	case "trunc":
		switch ch([]string{"dropbyte", "half", "oddlen", "onebyte"}) {
		case "dropbyte":
			sig = sig[:62]
		case "half":
			sig = sig[:32]
		case "oddlen":
			sig = sig[:63]
		case "onebyte":
			sig = sig[:2]
		}
		note = "signature truncated"
	case "ext":
		switch ch([]string{"append00", "prepend00", "twice"}) {
		case "append00":
			sig += "00"
		case "prepend00":
			sig = "00" + sig
		case "twice":
			sig += sig
		}
		note = "signature extended"
	}
	nonce := "n-" + safeWord(r, 6) + "-" + strconv.FormatInt(subSeed(int64(len(cr.Body)), target, sig)%1e9, 36)
	set := func(pres, name, val, dflt, kind string) {
		switch pres {
		case "present":
			req.Header.Set(name, val)
		case "blank":
			req.Header.Set(name, ch2(r, vary, []string{"", " ", "\t ", "   "}))
		case "absent":
			v := "omitted"
			if vary {
				alts := []string{"omitted", "lookalike"}
				if name != dflt {
					alts = append(alts, "defaultname")
				}
				v = pick(r, alts)
			}
			switch v {
			case "lookalike":
				req.Header.Set(name+"-X", val)
				vr["auth-"+kind] = "lookalike-name"
			case "defaultname":
				req.Header.Set(dflt, val) // right value under the default name, route configured another name
				vr["auth-"+kind] = "default-name"
			}
		}
	}
	set(cd.Ps, c.SigH, sig, "X-Signature", "sig")
	set(cd.Pt, c.TsH, sentTs, "X-Timestamp", "ts")
	set(cd.Pn, c.NonceH, nonce, "X-Nonce", "nonce")
	return note
}

func ch2(r *rand.Rand, vary bool, vs []string) string {
	if !vary {
		return vs[0]
	}
	return pick(r, vs)
}

type rc struct{ *bytes.Reader }

func (rc) Close() error { return nil }

func readCloser(b []byte) rc { return rc{bytes.NewReader(b)} }

// ---------------------------------------------------------------- forward

// FwdScriptHeader scripts the local auth service per request (forward auth copies the request headers).
const FwdScriptHeader = "X-Verif-Fwd"

func (c *ConcCfg) forward(r *rand.Rand, req *http.Request, cd Cred, vary bool, vr map[string]string) string {
	switch cd.Fk {
	case "status":
		script := strconv.Itoa(cd.Code)
		if cd.Code >= 300 && cd.Code < 400 && vary {
			// a redirect may carry a Location; the auth service still answered 3xx
			switch v := pick(r, []string{"noloc", "loc200", "loc401", "locself"}); v {
			case "loc200", "loc401", "locself":
				script += ":" + v
				vr["auth"] = v
			}
		} else if vary && r.Intn(2) == 0 {
			script += ":body"
			vr["auth"] = "body"
		}
		req.Header.Set(FwdScriptHeader, script)
		return "auth service answers " + script
	case "timeout":
		req.Header.Set(FwdScriptHeader, "hang")
		return "auth service does not answer within the configured timeout"
	case "reset":
		req.Header.Set(FwdScriptHeader, "reset")
		return "auth service closes the connection without answering"
	case "refused":
		req.Header.Set(FwdScriptHeader, "n/a")
		return "auth service port is closed"
	}
	return ""
}

var _ = time.Second
