package ingressx

import (
	"bytes"
	"encoding/json"
	"fmt"
	"net"
	"net/http"
	"net/http/httptest"
	"os"
	"path/filepath"
	"reflect"
	"strconv"
	"strings"
	"sync/atomic"
	"syscall"
	"time"

	"github.com/nuetzliches/hookaido/internal/app"
	"github.com/nuetzliches/hookaido/internal/queue"
)

// ---------------------------------------------------------------- scripted auth service

// FwdServer is the local auth service of the forward-auth configurations.
type FwdServer struct {
	srv       *httptest.Server
	URL       string
	ClosedURL string
	closedFD  int
	Hits      atomic.Int64
}

func NewFwdServer() (*FwdServer, error) {
	f := &FwdServer{closedFD: -1}
	mux := http.NewServeMux()
	mux.HandleFunc("/ok200", func(w http.ResponseWriter, r *http.Request) { w.WriteHeader(200); _, _ = w.Write([]byte("<html>login</html>")) })
	mux.HandleFunc("/no401", func(w http.ResponseWriter, r *http.Request) { w.WriteHeader(401) })
	mux.HandleFunc("/check", func(w http.ResponseWriter, r *http.Request) {
		f.Hits.Add(1)
		script := r.Header.Get(FwdScriptHeader)
		parts := strings.SplitN(script, ":", 2)
		opt := ""
		if len(parts) == 2 {
			opt = parts[1]
		}
		switch parts[0] {
		case "hang":
			select {
			case <-r.Context().Done():
			case <-time.After(4 * ShortForwardTimeout):
			}
			w.WriteHeader(200) // too late: the caller has given up
			return
		case "reset":
			if hj, ok := w.(http.Hijacker); ok {
				if conn, _, err := hj.Hijack(); err == nil {
					_ = conn.Close()
					return
				}
			}
			panic(http.ErrAbortHandler)
		}
		code, err := strconv.Atoi(parts[0])
		if err != nil {
			w.WriteHeader(599) // unscripted request: never an allow
			return
		}
		switch opt {
		case "loc200":
			w.Header().Set("Location", "/ok200")
		case "loc401":
			w.Header().Set("Location", "/no401")
		case "locself":
			w.Header().Set("Location", "/check")
		}
		if code == 401 {
			w.Header().Set("WWW-Authenticate", `Bearer realm="verif"`)
		}
		w.WriteHeader(code)
		if opt == "body" && code != 204 && code != 304 {
			_, _ = w.Write([]byte(`{"ok":true,"status":"authorized"}`))
		}
	})
	f.srv = httptest.NewServer(mux)
	f.URL = f.srv.URL + "/check"
	// a port that is bound but not listening: connections are refused, and nobody else can take it
	fd, err := syscall.Socket(syscall.AF_INET, syscall.SOCK_STREAM, 0)
	if err != nil {
		return nil, err
	}
	if err := syscall.Bind(fd, &syscall.SockaddrInet4{Port: 0, Addr: [4]byte{127, 0, 0, 1}}); err != nil {
		return nil, err
	}
	sa, err := syscall.Getsockname(fd)
	if err != nil {
		return nil, err
	}
	f.closedFD = fd
	f.ClosedURL = fmt.Sprintf("http://127.0.0.1:%d/check", sa.(*syscall.SockaddrInet4).Port)
	// make sure it really refuses
	if conn, err := net.DialTimeout("tcp", strings.TrimSuffix(strings.TrimPrefix(f.ClosedURL, "http://"), "/check"), time.Second); err == nil {
		_ = conn.Close()
		return nil, fmt.Errorf("closed port accepts connections")
	}
	return f, nil
}

func (f *FwdServer) Close() {
	f.srv.Close()
	if f.closedFD >= 0 {
		_ = syscall.Close(f.closedFD)
	}
}

// ---------------------------------------------------------------- instance

var nowNS atomic.Int64

func fakeNow() time.Time { return time.Unix(0, nowNS.Load()).UTC() }

func setNowMS(ms int) { nowNS.Store(Base.UnixNano() + int64(ms)*int64(time.Millisecond)) }

// Inst is a booted configuration.
type Inst struct {
	C     *ConcCfg
	V     *app.VerifInstance
	H     http.Handler
	Store *queue.MemoryStore
	dir   string
}

var bootSeq atomic.Int64

// Boot compiles the concretised configuration with the real config package and wires it like `hookaido run`.
func Boot(routes []Route, cseed int64, scratch string, fwd *FwdServer, spell string) (*Inst, error) {
	tag := fmt.Sprintf("p%dn%d", os.Getpid(), bootSeq.Add(1))
	c := Concretise(routes, cseed, tag, fwd.URL, fwd.ClosedURL, spell)
	for k, v := range c.Env {
		os.Setenv(k, v)
	}
	dir, err := os.MkdirTemp(scratch, "ing-")
	if err != nil {
		return nil, err
	}
	cfgPath := filepath.Join(dir, "Hookaidofile")
	if err := os.WriteFile(cfgPath, []byte(c.File), 0o600); err != nil {
		return nil, err
	}
	setNowMS(0)
	v, err := app.VerifBoot(app.VerifOptions{ConfigPath: cfgPath, DBPath: filepath.Join(dir, "unused.db"), Now: fakeNow})
	if err != nil {
		os.RemoveAll(dir)
		return nil, fmt.Errorf("boot: %w\n%s", err, c.File)
	}
	h := v.Handlers["ingress"]
	ms, ok := v.Store.(*queue.MemoryStore)
	if h == nil || !ok {
		v.Stop()
		os.RemoveAll(dir)
		return nil, fmt.Errorf("boot: no ingress handler or store is %T", v.Store)
	}
	return &Inst{C: c, V: v, H: h, Store: ms, dir: dir}, nil
}

func (in *Inst) Close() {
	in.V.Stop()
	for k := range in.C.Env {
		os.Unsetenv(k)
	}
	os.RemoveAll(in.dir)
}

func (in *Inst) dump() map[string]queue.Envelope {
	rows := in.Store.VerifDump()
	out := make(map[string]queue.Envelope, len(rows))
	for _, r := range rows {
		out[r.Env.ID] = r.Env
	}
	return out
}

// purge empties the store through its own API (harness housekeeping between requests, not under test).
func (in *Inst) purge() {
	for i := 0; i < 1000; i++ {
		rows := in.Store.VerifDump()
		if len(rows) == 0 {
			return
		}
		seen := map[[2]string]bool{}
		for _, r := range rows {
			k := [2]string{r.Env.Route, r.Env.Target}
			if seen[k] {
				continue
			}
			seen[k] = true
			resp, err := in.Store.Dequeue(queue.DequeueRequest{Route: r.Env.Route, Target: r.Env.Target, Batch: 100, LeaseTTL: time.Minute})
			if err != nil {
				continue
			}
			for _, it := range resp.Items {
				_ = in.Store.Ack(it.LeaseID)
			}
		}
	}
}

// Do serves one concrete request through the production handler and observes the queue around it.
func (in *Inst) Do(cr *ConcReq) *Obs {
	before := in.dump()
	if len(before) > 24 {
		in.purge()
		before = in.dump()
	}
	setNowMS(cr.NowMS)
	rec := httptest.NewRecorder()
	in.H.ServeHTTP(rec, cr.R)
	after := in.dump()
	o := &Obs{Status: rec.Code, Allow: []string{}, New: []NewMsg{}, Pre: len(before)}
	if a := rec.Header().Values("Allow"); len(a) > 0 {
		for _, line := range a {
			for _, m := range strings.Split(line, ",") {
				if m = strings.TrimSpace(m); m != "" {
					o.Allow = append(o.Allow, m)
				}
			}
		}
	}
	for id, b := range before {
		a, ok := after[id]
		if !ok {
			o.Gone++
			continue
		}
		if !reflect.DeepEqual(a, b) {
			o.Mut++
		}
	}
	for id, a := range after {
		if _, ok := before[id]; ok {
			continue
		}
		nm := NewMsg{Pl: bytes.Equal(a.Payload, cr.Body)}
		for i, p := range in.C.RoutePaths {
			if p == a.Route {
				nm.Ri = i + 1
				for k, t := range in.C.Targets[i] {
					if t == a.Target {
						nm.Ti = k + 1
					}
				}
			}
		}
		o.New = append(o.New, nm)
	}
	// deterministic order
	for i := 1; i < len(o.New); i++ {
		for j := i; j > 0 && (o.New[j].Ri < o.New[j-1].Ri || o.New[j].Ri == o.New[j-1].Ri && o.New[j].Ti < o.New[j-1].Ti); j-- {
			o.New[j], o.New[j-1] = o.New[j-1], o.New[j]
		}
	}
	return o
}

// ParseRoutes decodes an abstract configuration.
func ParseRoutes(raw json.RawMessage) ([]Route, error) {
	var routes []Route
	if err := json.Unmarshal(raw, &routes); err != nil {
		return nil, err
	}
	return routes, nil
}

// RowSeed is the concretisation seed of the k-th request of a row.
func RowSeed(seed int64, ci, row, k int) int64 {
	return subSeed(seed, "row", strconv.Itoa(ci), strconv.Itoa(row), strconv.Itoa(k))
}

// CfgSeed is the concretisation seed of a configuration.
func CfgSeed(seed int64, ci int) int64 { return subSeed(seed, "cfg", strconv.Itoa(ci)) }

// SpellFor is the non-inline spelling used for the varied requests of configuration ci (a function of the table
// position only, so that coverage does not depend on the seed).
func SpellFor(ci int) string { return Spellings[ci%len(Spellings)] }
