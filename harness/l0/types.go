// Package l0 drives queue.Store implementations directly (layer L0) on a
// fake clock and records every call as one trace event for TLC.
package l0

import (
	"crypto/sha256"
	"encoding/hex"
	"encoding/json"
	"fmt"
	"sort"
	"strings"
	"time"
)

// Base is tick 0 of the fake clock; one tick is one millisecond.  Drivers
// start the clock at tick 1000 so that tick 0 can stand for the zero time.
var Base = time.Date(2025, 1, 1, 0, 0, 0, 0, time.UTC)

func TickTime(k int) time.Time {
	if k == 0 {
		return time.Time{}
	}
	return Base.Add(time.Duration(k) * time.Millisecond)
}

// TimeTick converts a time to ticks; zero time -> 0; non-integral -> -999999.
func TimeTick(t time.Time) int {
	if t.IsZero() {
		return 0
	}
	d := t.Sub(Base)
	if d%time.Millisecond != 0 {
		return -999999
	}
	return int(d / time.Millisecond)
}

// Cfg is the store configuration of one trace (spec: C).
type Cfg struct {
	Backend     string   `json:"backend"`
	MaxDepth    int      `json:"maxDepth"`
	Drop        string   `json:"drop"`
	RetMaxAge   int      `json:"retMaxAge"`
	PruneInt    int      `json:"pruneInt"`
	DelivMaxAge int      `json:"delivMaxAge"`
	DlqMaxAge   int      `json:"dlqMaxAge"`
	DlqMaxDepth int      `json:"dlqMaxDepth"`
	SweepGran   int      `json:"sweepGran"`
	PressItems  int      `json:"pressItems"`
	Pressure    bool     `json:"pressure"`
	DelivGuard  bool     `json:"delivGuard"`
	Dev         []string `json:"dev"`
}

// EnvSpec is the abstract description of an envelope to enqueue.
type EnvSpec struct {
	ID   string `json:"id"`
	Rt   string `json:"rt"`
	Tg   string `json:"tg"`
	Recv int    `json:"recv"`
	Next int    `json:"next"`
	Att  int    `json:"att"`
	Pl   string `json:"pl"` // payload token
	Hd   string `json:"hd"` // header token ("" = nil)
	Tr   string `json:"tr"` // trace token ("" = nil)
}

// LeaseRef names a lease symbolically.
//   Msg+Epoch: the lease id issued by the Epoch-th lease of message Msg
//              (1-based, as observed by this run); unknown -> made-up id
//   Lit:       a literal string (unknown / blank ids)
//   Pad:       surround with blanks
type LeaseRef struct {
	Msg   string `json:"msg,omitempty"`
	Epoch int    `json:"epoch,omitempty"` // 0 = latest observed epoch
	Lit   string `json:"lit,omitempty"`
	IsLit bool   `json:"islit,omitempty"`
	Pad   bool   `json:"pad,omitempty"`
}

type Filter struct {
	Rt     string `json:"rt"`
	Tg     string `json:"tg"`
	St     string `json:"st"`
	Before int    `json:"before"`
	Limit  int    `json:"limit"`
}

// Op is one step of a schedule.
type Op struct {
	Op      string     `json:"op"`
	Env     *EnvSpec   `json:"env,omitempty"`
	Envs    []EnvSpec  `json:"envs,omitempty"`
	Rt      string     `json:"rt,omitempty"`
	Tg      string     `json:"tg,omitempty"`
	Batch   int        `json:"batch,omitempty"`
	TTL     int        `json:"ttl,omitempty"`
	Kind    string     `json:"kind,omitempty"`
	Lease   *LeaseRef  `json:"lease,omitempty"`
	Leases  []LeaseRef `json:"leases,omitempty"`
	Arg     int        `json:"arg,omitempty"`
	Reason  string     `json:"reason,omitempty"`
	MOp     string     `json:"mop,omitempty"`
	IDs     []string   `json:"ids,omitempty"`
	F       *Filter    `json:"f,omitempty"`
	Preview bool       `json:"preview,omitempty"`
	Order   string     `json:"order,omitempty"`
	Inc     bool       `json:"inc,omitempty"`
	D       int        `json:"d,omitempty"`
	// FilterRace: a by-filter mutation (MOp, F) paused between its select and its update while Inner runs
	Inner []Op `json:"inner,omitempty"`
	// auxiliary logs of the store contract (QueueAux.tla): delivery-attempt log and backlog-trend samples
	Att *AttSpec    `json:"attempt,omitempty"` // RecordAttempt
	AF  *AttFilter  `json:"af,omitempty"`      // ListAttempts
	TF  *TrendQuery `json:"tf,omitempty"`      // ListTrend
	At  int         `json:"at,omitempty"`      // CaptureTrend: explicit instant (0 = the store's clock)
}

// AttSpec is one delivery attempt to record.  IDN is the numeric order of an explicit id ("a0007" -> 7), 0 for a
// blank id (the store then generates one).
type AttSpec struct {
	ID   string `json:"id"`
	IDN  int    `json:"idn"`
	Ev   string `json:"ev"`
	Rt   string `json:"rt"`
	Tg   string `json:"tg"`
	N    int    `json:"n"`
	Code int    `json:"code"`
	Err  string `json:"err"`
	Out  string `json:"out"`
	Dr   string `json:"dr"`
	At   int    `json:"at"`
}

type AttFilter struct {
	Rt     string `json:"rt"`
	Tg     string `json:"tg"`
	Ev     string `json:"ev"`
	Out    string `json:"out"`
	Limit  int    `json:"limit"`
	Before int    `json:"before"`
}

type TrendQuery struct {
	Rt    string `json:"rt"`
	Tg    string `json:"tg"`
	Since int    `json:"since"`
	Until int    `json:"until"`
	Limit int    `json:"limit"`
}

// Schedule is a named operation sequence with a configuration.
type Schedule struct {
	Name string `json:"name"`
	Cfg  Cfg    `json:"cfg"`
	Ops  []Op   `json:"ops"`
}

func PayloadBytes(tok string) []byte {
	switch {
	case tok == "":
		return nil
	case tok == "empty":
		return []byte{}
	case strings.HasPrefix(tok, "bin"):
		return []byte{0, 1, 2, 0xff, 0xfe, 0, byte(len(tok))}
	}
	return []byte("payload-" + tok)
}

func MapFor(tok string) map[string]string {
	if tok == "" {
		return nil
	}
	if tok == "empty" {
		return map[string]string{}
	}
	return map[string]string{"X-Tok": tok, "Content-Type": "application/" + tok}
}

func DigestBytes(b []byte) string {
	if len(b) == 0 {
		return ""
	}
	h := sha256.Sum256(b)
	return fmt.Sprintf("%s:%d", hex.EncodeToString(h[:6]), len(b))
}

func DigestMap(m map[string]string) string {
	if len(m) == 0 {
		return ""
	}
	keys := make([]string, 0, len(m))
	for k := range m {
		keys = append(keys, k)
	}
	sort.Strings(keys)
	var sb strings.Builder
	for _, k := range keys {
		kb, _ := json.Marshal(k)
		vb, _ := json.Marshal(m[k])
		sb.Write(kb)
		sb.WriteByte('=')
		sb.Write(vb)
		sb.WriteByte(';')
	}
	return DigestBytes([]byte(sb.String()))
}
