package l0

import (
	"fmt"
	"math/rand"
)

// DriverOpts tunes the random schedule generator.
type DriverOpts struct {
	Ops      int
	IDs      int // number of distinct message ids
	Routes   int
	Targets  int
	BigPop   bool // start with a large population (limit caps)
	Explicit bool // use explicit received_at / next_run_at values
	Churn    bool // start with > 1024 enqueues of which most are consumed (memory order-list compaction, long id history)
	Profile  string
}

// op kinds in the order of the weight vectors below
const (
	kEnq = iota
	kEnqBatch
	kDeq
	kLeaseOp
	kLeaseBatch
	kMutIds
	kMutFilter
	kListMsg
	kListDead
	kLookup
	kStats
	kTick
	kRace
	kRecAtt
	kListAtt
	kCapTrend
	kListTrend
	kReopen
	kHandleRace
	kN
)

var profiles = map[string][kN]int{
	"all": {18, 5, 18, 14, 7, 8, 7, 4, 3, 2, 3, 11, 3, 0, 0, 0, 0, 2},
	"lease": {14, 2, 24, 22, 12, 6, 2, 1, 0, 0, 1, 16, 3, 0, 0, 0, 0, 3, 2},
	"time": {14, 2, 26, 18, 6, 3, 1, 1, 0, 0, 3, 26, 1, 0, 0, 0, 0, 3},
	"admission": {30, 16, 14, 10, 4, 6, 2, 2, 1, 1, 4, 10, 1},
	"operator": {14, 4, 10, 8, 3, 20, 22, 6, 4, 3, 1, 5, 6, 0, 0, 0, 0, 2, 2},
	// the auxiliary logs (delivery attempts, backlog-trend samples) next to ordinary traffic; the four new kinds have weight 0
	// in every other profile, so the schedules of those profiles are unchanged
	"aux": {14, 4, 12, 10, 3, 4, 2, 1, 1, 0, 2, 10, 0, 12, 10, 8, 8, 2},
}

// ProfileCfg adapts a random configuration to a profile.
func ProfileCfg(r *rand.Rand, c Cfg, profile string) Cfg {
	switch profile {
	case "admission":
		c.MaxDepth = pick(r, 1, 2, 2, 3, 4)
		if r.Intn(3) == 0 {
			c.PressItems = pick(r, 1, 2, 3)
		}
	case "aux":
		// every second schedule has a retention that the clock steps outrun, so that captures find something to prune
		if r.Intn(2) == 0 {
			c.PruneInt = pick(r, 1, 10)
			c.RetMaxAge = pick(r, 30, 80)
			c.DlqMaxAge = pick(r, 0, 60)
		}
	case "time":
		if r.Intn(2) == 0 {
			c.PruneInt = pick(r, 1, 10)
			c.RetMaxAge = pick(r, 40, 120)
		}
	}
	return c
}

func pick[T any](r *rand.Rand, xs ...T) T { return xs[r.Intn(len(xs))] }

// RandomCfg draws a limits / retention configuration.
func RandomCfg(r *rand.Rand) Cfg {
	c := Cfg{Drop: pick(r, "reject", "drop_oldest")}
	c.MaxDepth = pick(r, 0, 0, 1, 2, 3, 5, 8)
	if r.Intn(3) == 0 {
		c.PruneInt = pick(r, 1, 20, 100)
		c.RetMaxAge = pick(r, 0, 50, 200, 1000)
		c.DlqMaxAge = pick(r, 0, 100, 400)
		c.DlqMaxDepth = pick(r, 0, 0, 1, 2)
	}
	if r.Intn(3) == 0 {
		c.DelivMaxAge = pick(r, 30, 100, 1000)
		if c.PruneInt == 0 && r.Intn(2) == 0 {
			c.PruneInt = pick(r, 1, 20)
		}
	}
	if r.Intn(6) == 0 {
		c.PressItems = pick(r, 2, 3, 5)
	}
	return c
}

// GenSchedule produces a random schedule.  Leases are named symbolically, so
// the schedule is independent of the backend that executes it.  The
// generator keeps a rough picture of what it has done (ids enqueued, how many
// dequeues named each id at most) only to bias its choices; correctness of a
// schedule never depends on that picture.
func GenSchedule(r *rand.Rand, name string, cfg Cfg, o DriverOpts) Schedule {
	if o.IDs <= 0 {
		o.IDs = 6
	}
	if o.Routes <= 0 {
		o.Routes = 2
	}
	if o.Targets <= 0 {
		o.Targets = 2
	}
	ids := make([]string, o.IDs)
	for i := range ids {
		ids[i] = fmt.Sprintf("m%02d", i+1)
	}
	routes := make([]string, o.Routes)
	for i := range routes {
		routes[i] = fmt.Sprintf("/r%d", i+1)
	}
	targets := make([]string, o.Targets)
	for i := range targets {
		targets[i] = fmt.Sprintf("t%d", i+1)
	}
	rid := func() string { return ids[r.Intn(len(ids))] }
	rrt := func(blankPct int) string {
		if r.Intn(100) < blankPct {
			return ""
		}
		return routes[r.Intn(len(routes))]
	}
	rtg := func(blankPct int) string {
		if r.Intn(100) < blankPct {
			return ""
		}
		return targets[r.Intn(len(targets))]
	}
	now := 1000
	env := func(id string) EnvSpec {
		e := EnvSpec{ID: id, Rt: rrt(0), Tg: rtg(0), Pl: pick(r, "a", "b", "c", "", "empty", "bin1"), Hd: pick(r, "", "h1", "h2", "empty"), Tr: pick(r, "", "", "t1")}
		if o.Explicit {
			switch r.Intn(6) {
			case 0:
				e.Recv = now - r.Intn(300)
			case 1:
				e.Next = now + pick(r, 1, 7, 50)
			case 2:
				e.Recv = now - r.Intn(50)
				e.Next = now + r.Intn(20)
			}
		} else if r.Intn(8) == 0 {
			e.Next = now + pick(r, 1, 7, 50)
		}
		if r.Intn(12) == 0 {
			e.Att = pick(r, 1, 3)
		}
		return e
	}
	lease := func() LeaseRef {
		switch x := r.Intn(100); {
		case x < 62:
			return LeaseRef{Msg: rid(), Epoch: 0}
		case x < 78:
			return LeaseRef{Msg: rid(), Epoch: 1 + r.Intn(3)}
		case x < 84:
			return LeaseRef{Msg: rid(), Epoch: 0, Pad: true}
		case x < 90:
			return LeaseRef{IsLit: true, Lit: pick(r, "lease_unknown", "m01", "evt_x")}
		case x < 95:
			return LeaseRef{IsLit: true, Lit: ""}
		default:
			return LeaseRef{IsLit: true, Lit: pick(r, " ", "\t \n")}
		}
	}
	idList := func() []string {
		n := 1 + r.Intn(4)
		out := make([]string, 0, n)
		for i := 0; i < n; i++ {
			switch x := r.Intn(100); {
			case x < 75:
				out = append(out, rid())
			case x < 85:
				out = append(out, " "+rid()+" ")
			case x < 92:
				out = append(out, pick(r, "", "  "))
			default:
				out = append(out, "nope")
			}
		}
		if r.Intn(10) == 0 && len(out) > 0 {
			out = append(out, out[0])
		}
		return out
	}
	filter := func() *Filter {
		f := &Filter{Rt: rrt(55), Tg: rtg(70)}
		if r.Intn(3) == 0 {
			f.St = pick(r, "queued", "leased", "dead", "canceled", "delivered")
		}
		if r.Intn(4) == 0 {
			f.Before = now - r.Intn(40) + 5
		}
		f.Limit = pick(r, 0, 0, 1, 2, 3, -1, 1000, 1001, 5000)
		return f
	}

	ops := make([]Op, 0, o.Ops)
	attN, lastCap := 0, -1
	var caps []int
	if o.BigPop {
		// large population in a few batches so that the 100 / 1000 caps are reached
		n := 0
		for b := 0; b < 13; b++ {
			envs := make([]EnvSpec, 0, 95)
			for i := 0; i < 95; i++ {
				n++
				e := env(fmt.Sprintf("b%04d", n))
				e.Rt, e.Tg = routes[0], targets[0]
				envs = append(envs, e)
			}
			ops = append(ops, Op{Op: "EnqueueBatch", Envs: envs})
			if b%4 == 3 {
				ops = append(ops, Op{Op: "Tick", D: 1})
				now++
			}
		}
		ids = append(ids, "b0001", "b0500", "b1200")
	}
	w, okp := profiles[o.Profile]
	if !okp {
		w = profiles["all"]
	}
	total := 0
	for _, x := range w {
		total += x
	}
	kind := func() int {
		x := r.Intn(total)
		for k, wk := range w {
			if x < wk {
				return k
			}
			x -= wk
		}
		return kTick
	}
	tickSet := []int{1, 1, 3, 5, 9, 10, 11, 20, 30, 50, 100, 250, 1000, 30000}
	ttlSet := []int{0, 5, 20, 20, 50, 100, -3}
	if o.Profile == "time" || o.Profile == "lease" {
		tickSet = []int{1, 1, 2, 4, 5, 9, 10, 10, 11, 15, 19, 20, 21, 30, 50, 100}
		ttlSet = []int{5, 10, 20, 20, 30, 50, 0}
	}
	if o.Churn {
		// 1140 messages, 900 of them consumed in batches, 100 leased and abandoned, then redelivery.
		// Two messages sit in the DLQ / canceled through the whole churn (and the order-list compaction it causes on the
		// memory store) and are requeued / resumed afterwards: they must be offered again like any other ready message.
		n := 0
		ops = append(ops,
			Op{Op: "EnqueueBatch", Envs: []EnvSpec{{ID: "z001", Rt: routes[0], Tg: targets[0], Pl: "a"}, {ID: "z002", Rt: routes[0], Tg: targets[0], Pl: "b"}}},
			Op{Op: "Dequeue", Rt: routes[0], Batch: 2, TTL: 50},
			Op{Op: "LeaseOp", Kind: "dead", Lease: &LeaseRef{Msg: "z001"}, Reason: "no_retry"},
			Op{Op: "MutateIds", MOp: "cancel", IDs: []string{"z002"}})
		for b := 0; b < 12; b++ {
			envs := make([]EnvSpec, 0, 95)
			for i := 0; i < 95; i++ {
				n++
				envs = append(envs, EnvSpec{ID: fmt.Sprintf("c%04d", n), Rt: routes[0], Tg: targets[0], Pl: "a"})
			}
			ops = append(ops, Op{Op: "EnqueueBatch", Envs: envs})
		}
		for round := 0; round < 9; round++ {
			ops = append(ops, Op{Op: "Dequeue", Rt: routes[0], Batch: 100, TTL: 50})
			refs := make([]LeaseRef, 0, 100)
			for i := 1; i <= 100; i++ {
				refs = append(refs, LeaseRef{Msg: fmt.Sprintf("c%04d", round*100+i)})
			}
			ops = append(ops, Op{Op: "LeaseBatch", Kind: "ack", Leases: refs})
		}
		ops = append(ops,
			Op{Op: "Dequeue", Rt: routes[0], Batch: 100, TTL: 20},
			Op{Op: "Tick", D: 30},
			Op{Op: "Dequeue", Rt: routes[0], Batch: 100, TTL: 20},
			Op{Op: "LeaseOp", Kind: "nack", Lease: &LeaseRef{Msg: "c0901"}, Arg: 7},
			Op{Op: "LeaseOp", Kind: "nack", Lease: &LeaseRef{Msg: "c0950"}, Arg: 0},
			Op{Op: "Tick", D: 7},
			Op{Op: "Dequeue", Rt: routes[0], Batch: 100, TTL: 20},
			Op{Op: "Tick", D: 25},
			Op{Op: "Dequeue", Rt: routes[0], Batch: 100, TTL: 20},
			Op{Op: "Dequeue", Rt: routes[0], Batch: 100, TTL: 20},
			Op{Op: "Dequeue", Rt: routes[0], Batch: 100, TTL: 20},
			Op{Op: "MutateIds", MOp: "requeuedead", IDs: []string{"z001"}},
			Op{Op: "MutateIds", MOp: "resume", IDs: []string{"z002"}},
			Op{Op: "Dequeue", Rt: routes[0], Batch: 100, TTL: 20},
			Op{Op: "Stats"})
		now += 62
		ids = append(ids, "c0901", "c0950", "c1001", "c1140", "z001", "z002")
		o.Ops = len(ops) + 15
	}
	for len(ops) < o.Ops {
		switch kind() {
		case kEnq:
			id := rid()
			if r.Intn(25) == 0 {
				id = ""
			}
			e := env(id)
			ops = append(ops, Op{Op: "Enqueue", Env: &e})
		case kEnqBatch:
			n := 1 + r.Intn(4)
			envs := make([]EnvSpec, 0, n)
			for i := 0; i < n; i++ {
				envs = append(envs, env(rid()))
			}
			if r.Intn(20) == 0 {
				envs[0].ID = ""
			}
			ops = append(ops, Op{Op: "EnqueueBatch", Envs: envs})
		case kDeq:
			batch := pick(r, 0, 1, 1, 2, 3, 5, -1, 100, 101, 250)
			ops = append(ops, Op{Op: "Dequeue", Rt: rrt(40), Tg: rtg(65), Batch: batch, TTL: ttlSet[r.Intn(len(ttlSet))]})
		case kLeaseOp:
			kind := pick(r, "ack", "ack", "nack", "nack", "extend", "dead")
			op := Op{Op: "LeaseOp", Kind: kind}
			l := lease()
			op.Lease = &l
			switch kind {
			case "nack":
				op.Arg = pick(r, 0, 0, 7, 30, -5, 200)
			case "extend":
				op.Arg = pick(r, 10, 50, 0, -5, 1)
			case "dead":
				op.Reason = pick(r, "no_retry", "max_retries", "", "why not", "  ")
			}
			ops = append(ops, op)
		case kLeaseBatch:
			kind := pick(r, "ack", "nack", "dead")
			n := 1 + r.Intn(4)
			ls := make([]LeaseRef, 0, n)
			for i := 0; i < n; i++ {
				ls = append(ls, lease())
			}
			if r.Intn(5) == 0 {
				ls = append(ls, ls[0])
			}
			op := Op{Op: "LeaseBatch", Kind: kind, Leases: ls}
			if kind == "nack" {
				op.Arg = pick(r, 0, 7, -5, 30)
			}
			if kind == "dead" {
				op.Reason = pick(r, "no_retry", "", "policy_denied")
			}
			ops = append(ops, op)
		case kMutIds:
			ops = append(ops, Op{Op: "MutateIds", MOp: pick(r, "cancel", "requeue", "resume", "requeuedead", "deletedead"), IDs: idList()})
		case kMutFilter:
			ops = append(ops, Op{Op: "MutateFilter", MOp: pick(r, "cancel", "requeue", "resume"), F: filter(), Preview: r.Intn(3) == 0})
		case kListMsg:
			ops = append(ops, Op{Op: "ListMessages", F: filter(), Order: pick(r, "", "desc", "asc", "ASC", " Desc ", "bogus"), Inc: r.Intn(2) == 0})
		case kListDead:
			ops = append(ops, Op{Op: "ListDead", F: &Filter{Rt: rrt(60), Before: pick(r, 0, 0, now-5, now+1), Limit: pick(r, 0, 1, 2, 1001)}, Inc: r.Intn(2) == 0})
		case kLookup:
			ops = append(ops, Op{Op: "Lookup", IDs: idList()})
		case kStats:
			ops = append(ops, Op{Op: "Stats"})
		case kRace:
			// a by-filter mutation with other operations between its select and its update (SQLite)
			var inner []Op
			for k := 1 + r.Intn(3); k > 0; k-- {
				switch r.Intn(6) {
				case 0:
					inner = append(inner, Op{Op: "Dequeue", Batch: pick(r, 1, 3), TTL: 20})
				case 1:
					l := lease()
					inner = append(inner, Op{Op: "LeaseOp", Kind: pick(r, "ack", "nack", "dead"), Lease: &l, Reason: "no_retry"})
				case 2:
					inner = append(inner, Op{Op: "MutateIds", MOp: pick(r, "resume", "requeue", "cancel", "requeuedead", "deletedead"), IDs: []string{rid(), rid()}})
				case 3:
					e := env(rid())
					inner = append(inner, Op{Op: "Enqueue", Env: &e})
				case 4:
					inner = append(inner, Op{Op: "Dequeue", Batch: 5, TTL: 50}, Op{Op: "LeaseBatch", Kind: "ack", Leases: []LeaseRef{{Msg: rid()}, {Msg: rid()}, {Msg: rid()}}})
				default:
					inner = append(inner, Op{Op: "MutateIds", MOp: "resume", IDs: append([]string{}, ids...)}, Op{Op: "Dequeue", Batch: 5, TTL: 30})
				}
			}
			f := filter()
			f.Limit = pick(r, 0, 0, 2, 1000)
			ops = append(ops, Op{Op: "FilterRace", MOp: pick(r, "cancel", "requeue", "resume"), F: f, Inner: inner})
		case kHandleRace:
			// an operator mutation through a second handle on the database, paused before its commit while a lease
			// operation of the main handle starts (see Runner.handleRace)
			if r.Intn(3) == 0 {
				// two consumers, one per handle, poll at the same instant
				d1 := Op{Op: "Dequeue", Rt: rrt(70), Tg: rtg(90), Batch: pick(r, 1, 2, 3, 5), TTL: pick(r, 20, 50)}
				d2 := Op{Op: "Dequeue", Rt: rrt(70), Tg: rtg(90), Batch: pick(r, 1, 2, 3, 5), TTL: pick(r, 20, 50)}
				ops = append(ops, Op{Op: "HandleRace", Inner: []Op{d1, d2}})
				break
			}
			ls := make([]LeaseRef, 0, 3)
			for i, n := 0, 1+r.Intn(3); i < n; i++ {
				ls = append(ls, LeaseRef{Msg: rid()})
			}
			second := Op{Op: "LeaseBatch", Kind: pick(r, "ack", "nack", "dead"), Leases: ls, Reason: "no_retry"}
			if second.Kind == "nack" {
				second.Arg = pick(r, 0, 7)
			}
			first := Op{Op: "MutateIds", MOp: pick(r, "cancel", "cancel", "requeue", "resume"), IDs: []string{ls[0].Msg, rid()}}
			ops = append(ops, Op{Op: "HandleRace", Inner: []Op{first, second}})
		case kReopen:
			// restart of the process that owns the database (SQLite; skipped on the memory store)
			ops = append(ops, Op{Op: "Reopen"})
		case kRecAtt:
			attN++
			a := AttSpec{Ev: rid(), Rt: rrt(0), Tg: rtg(0), N: 1 + r.Intn(4), Code: pick(r, 0, 0, 200, 204, 404, 429, 503),
				Err: pick(r, "", "", "dial tcp: refused", "  timeout \t", " "), Out: pick(r, "acked", "retry", "retry", "dead", ""),
				Dr: pick(r, "", "", "no_retry", " max_retries ", "\t")}
			switch x := r.Intn(10); {
			case x < 6: // explicit id, the store's clock
				a.ID, a.IDN = fmt.Sprintf("a%04d", attN), attN
			case x < 8: // explicit id and instant (ties and out-of-order instants)
				a.ID, a.IDN = fmt.Sprintf("a%04d", attN), attN
				a.At = now - pick(r, 0, 0, 1, 5, 40)
			default: // blank id: the store makes one up; a unique instant identifies the record in listings
				a.ID = pick(r, "", "  ")
				a.At = 200000 + attN
			}
			ops = append(ops, Op{Op: "RecordAttempt", Att: &a})
		case kListAtt:
			f := &AttFilter{Limit: pick(r, 0, 0, 1, 2, 3, -1, 1000, 1001)}
			if r.Intn(3) == 0 {
				f.Rt = rrt(0)
			}
			if r.Intn(4) == 0 {
				f.Tg = rtg(0)
			}
			if r.Intn(3) == 0 {
				f.Ev = rid()
			}
			if r.Intn(3) == 0 {
				f.Out = pick(r, "acked", "retry", "dead", "bogus")
			}
			if r.Intn(3) == 0 {
				f.Before = pick(r, now, now+1, now-3, now-20, 200000+attN)
			}
			ops = append(ops, Op{Op: "ListAttempts", AF: f})
		case kCapTrend:
			if lastCap == now { // one sample per instant (see QueueAux.tla)
				now++
				ops = append(ops, Op{Op: "Tick", D: 1})
			}
			lastCap = now
			caps = append(caps, now)
			ops = append(ops, Op{Op: "CaptureTrend", At: pick(r, 0, 0, now)})
		case kListTrend:
			q := &TrendQuery{Limit: pick(r, 0, 0, 1, 2, 3, -1, 20001)}
			switch r.Intn(5) {
			case 0:
				q.Rt = rrt(0)
			case 1:
				q.Tg = rtg(0)
			case 2:
				q.Rt, q.Tg = rrt(0), rtg(0)
			case 3:
				q.Rt = " " + rrt(0) + " "
			}
			if len(caps) > 0 && r.Intn(3) == 0 {
				q.Since = caps[r.Intn(len(caps))] + pick(r, 0, 0, 1)
			}
			if len(caps) > 0 && r.Intn(3) == 0 {
				q.Until = caps[r.Intn(len(caps))] + pick(r, 0, 1, 1)
			}
			ops = append(ops, Op{Op: "ListTrend", TF: q})
		default:
			d := tickSet[r.Intn(len(tickSet))]
			now += d
			ops = append(ops, Op{Op: "Tick", D: d})
		}
	}
	return Schedule{Name: name, Cfg: cfg, Ops: ops}
}
