package l0

import (
	"crypto/rand"
	"encoding/hex"
	"fmt"
	"io"
	mrand "math/rand"
	"os"
	"path/filepath"
	"sync"
	"time"

	"github.com/nuetzliches/hookaido/internal/queue"
)

func randHex(n int) string {
	b := make([]byte, n)
	_, _ = rand.Read(b)
	return hex.EncodeToString(b)
}

// ConcOpts configures one free-running concurrent history at L0.
type ConcOpts struct {
	Backend    string
	Seed       int64
	Goroutines int
	Rounds     int
	OpsPerG    int // operations per goroutine and round
	IDs        int
	MaxDepth   int
	Drop       string
	DelivAge   int
}

// RunConc runs goroutines that hammer one store through a TraceStore in rounds
// separated by barriers (dump + optional clock advance) and writes the trace.
func RunConc(w io.Writer, scratch string, name string, o ConcOpts) (int, error) {
	clk := &Clock{k: 1000}
	cfg := BackendCfg(Cfg{MaxDepth: o.MaxDepth, Drop: o.Drop, DelivMaxAge: o.DelivAge}, o.Backend, false)
	dbPath := ""
	if o.Backend == "sqlite" {
		dbPath = filepath.Join(scratch, fmt.Sprintf("conc-%s.db", randHex(4)))
		defer func() {
			for _, suf := range []string{"", "-wal", "-shm"} {
				_ = os.Remove(dbPath + suf)
			}
		}()
	}
	store, dump, closeFn, err := OpenStore(cfg, clk, dbPath)
	if err != nil {
		return 0, err
	}
	defer closeFn()
	ts := NewTraceStore(store, dump, clk)
	ts.Reset(name, cfg)

	rng := mrand.New(mrand.NewSource(o.Seed))
	ids := make([]string, o.IDs)
	for i := range ids {
		ids[i] = fmt.Sprintf("m%02d", i+1)
	}
	// leases observed so far (shared between goroutines: a worker may present a lease another one obtained)
	var lmu sync.Mutex
	var leases []string
	addLeases := func(items []queue.Envelope) {
		lmu.Lock()
		for _, it := range items {
			leases = append(leases, it.LeaseID)
		}
		lmu.Unlock()
	}
	pickLease := func(r *mrand.Rand) string {
		lmu.Lock()
		defer lmu.Unlock()
		if len(leases) == 0 || r.Intn(10) == 0 {
			return "lease_unknown"
		}
		// mostly recent leases
		k := len(leases) - 1 - r.Intn(min(len(leases), 6))
		return leases[k]
	}

	for round := 0; round < o.Rounds; round++ {
		var wg sync.WaitGroup
		for g := 0; g < o.Goroutines; g++ {
			wg.Add(1)
			gr := mrand.New(mrand.NewSource(rng.Int63()))
			go func(gr *mrand.Rand) {
				defer wg.Done()
				for k := 0; k < o.OpsPerG; k++ {
					switch x := gr.Intn(100); {
					case x < 22:
						id := ids[gr.Intn(len(ids))]
						_ = ts.Enqueue(queue.Envelope{ID: id, Route: pick(gr, "/r1", "/r1", "/r2"), Target: pick(gr, "t1", "t2"), Payload: []byte("p-" + id)})
					case x < 52:
						resp, err := ts.Dequeue(queue.DequeueRequest{Route: pick(gr, "", "/r1", "/r2"), Batch: pick(gr, 1, 1, 2, 3), LeaseTTL: ms(pick(gr, 20, 50, 100))})
						if err == nil {
							addLeases(resp.Items)
						}
					case x < 64:
						_ = ts.Ack(pickLease(gr))
					case x < 74:
						_ = ts.Nack(pickLease(gr), ms(pick(gr, 0, 0, 10)))
					case x < 79:
						_ = ts.Extend(pickLease(gr), ms(pick(gr, 10, 30)))
					case x < 83:
						_ = ts.MarkDead(pickLease(gr), "no_retry")
					case x < 88:
						_, _ = ts.AckBatch([]string{pickLease(gr), pickLease(gr)})
					case x < 91:
						_, _ = ts.NackBatch([]string{pickLease(gr), pickLease(gr)}, 0)
					case x < 95:
						_, _ = ts.CancelMessages(queue.MessageCancelRequest{IDs: []string{ids[gr.Intn(len(ids))]}})
					case x < 98:
						_, _ = ts.RequeueMessages(queue.MessageRequeueRequest{IDs: []string{ids[gr.Intn(len(ids))], ids[gr.Intn(len(ids))]}})
					default:
						_, _ = ts.Stats()
					}
				}
			}(gr)
		}
		wg.Wait()
		if err := ts.Barrier(); err != nil {
			return 0, err
		}
		if rng.Intn(3) > 0 {
			ts.Tick(pick(rng, 1, 5, 10, 10, 20, 30, 60, 120))
		}
	}
	_ = time.Now
	return ts.WriteTrace(w)
}
