package l0

import (
	"database/sql"
	"context"
	"bufio"
	"encoding/json"
	"errors"
	"fmt"
	"io"
	"os"
	"path/filepath"
	"runtime"
	"strconv"
	"sort"
	"strings"
	"sync"
	"time"

	"github.com/nuetzliches/hookaido/internal/queue"
	"github.com/nuetzliches/hookaido/internal/verifhook"
)

// Clock is the fake clock shared by harness and store.
type Clock struct {
	mu sync.Mutex
	k  int
}

func (c *Clock) Now() time.Time { c.mu.Lock(); defer c.mu.Unlock(); return TickTime(c.k) }
func (c *Clock) Tick() int      { c.mu.Lock(); defer c.mu.Unlock(); return c.k }
func (c *Clock) Advance(d int)  { c.mu.Lock(); c.k += d; c.mu.Unlock() }
func (c *Clock) Set(k int)      { c.mu.Lock(); c.k = k; c.mu.Unlock() }

func ms(k int) time.Duration { return time.Duration(k) * time.Millisecond }

// Dumper is implemented by both stores under the verif tag (via adapters).
type Dumper interface {
	Dump() ([]queue.VerifRow, error)
	Volatile() queue.VerifVolatile
}

type memAdapter struct{ *queue.MemoryStore }

func (m memAdapter) Dump() ([]queue.VerifRow, error) { return m.VerifDump(), nil }
func (m memAdapter) Volatile() queue.VerifVolatile    { return m.VerifVolatile() }

type sqlAdapter struct{ *queue.SQLiteStore }

func (s sqlAdapter) Dump() ([]queue.VerifRow, error) { return s.VerifDump() }
func (s sqlAdapter) Volatile() queue.VerifVolatile    { return s.VerifVolatile() }

// OpenStore builds a store for cfg on the given clock.
func OpenStore(cfg Cfg, clk *Clock, dbPath string) (queue.Store, Dumper, func(), error) {
	switch cfg.Backend {
	case "memory":
		opts := []queue.MemoryOption{queue.WithNowFunc(clk.Now)}
		if cfg.MaxDepth > 0 || cfg.Drop != "" {
			opts = append(opts, queue.WithQueueLimits(cfg.MaxDepth, cfg.Drop))
		}
		opts = append(opts, queue.WithQueueRetention(ms(cfg.RetMaxAge), ms(cfg.PruneInt)))
		opts = append(opts, queue.WithDeliveredRetention(ms(cfg.DelivMaxAge)))
		opts = append(opts, queue.WithDLQRetention(ms(cfg.DlqMaxAge), cfg.DlqMaxDepth))
		if cfg.PressItems > 0 {
			opts = append(opts, queue.WithMemoryPressureLimits(cfg.PressItems, 0))
		}
		s := queue.NewMemoryStore(opts...)
		return s, memAdapter{s}, func() {}, nil
	case "sqlite":
		opts := []queue.SQLiteOption{queue.WithSQLiteNowFunc(clk.Now), queue.WithSQLiteCheckpointInterval(0)}
		if cfg.MaxDepth > 0 || cfg.Drop != "" {
			opts = append(opts, queue.WithSQLiteQueueLimits(cfg.MaxDepth, cfg.Drop))
		}
		opts = append(opts, queue.WithSQLiteRetention(ms(cfg.RetMaxAge), ms(cfg.PruneInt)))
		opts = append(opts, queue.WithSQLiteDeliveredRetention(ms(cfg.DelivMaxAge)))
		opts = append(opts, queue.WithSQLiteDLQRetention(ms(cfg.DlqMaxAge), cfg.DlqMaxDepth))
		s, err := queue.NewSQLiteStore(dbPath, opts...)
		if err != nil {
			return nil, nil, nil, err
		}
		return s, sqlAdapter{s}, func() { _ = s.Close() }, nil
	}
	return nil, nil, nil, fmt.Errorf("unknown backend %q", cfg.Backend)
}

// BackendCfg completes cfg for a backend: contract constants that are
// documented as backend-specific, and (unless reference is set) the as-is
// deviations of that backend.
func BackendCfg(cfg Cfg, backend string, reference bool) Cfg {
	c := cfg
	c.Backend = backend
	if c.Drop == "" {
		c.Drop = "reject"
	}
	switch backend {
	case "memory":
		c.SweepGran = 0
		c.Pressure = true
		c.DelivGuard = true
		c.Dev = []string{}
		if !reference {
			c.Dev = append([]string{}, MemoryDevs...)
		}
	case "sqlite":
		c.SweepGran = 10
		c.Pressure = false
		c.DelivGuard = false
		c.PressItems = 0
		c.Dev = []string{}
		if !reference {
			c.Dev = append([]string{}, SQLiteDevs...)
		}
	}
	return c
}

// As-is deviations per backend (see Queue.tla, Dev).  Entries are removed
// here when the corresponding divergence is repaired in the repository.
var (
	MemoryDevs = []string{}
	SQLiteDevs = []string{}
)

type Event map[string]any

// Runner executes schedules and writes trace events.
type Runner struct {
	W       *bufio.Writer
	Scratch string
	n       int
	Events  int
}

func NewRunner(w io.Writer, scratch string) *Runner {
	return &Runner{W: bufio.NewWriterSize(w, 1<<20), Scratch: scratch}
}

func (r *Runner) emit(ev Event) error {
	b, err := json.Marshal(ev)
	if err != nil {
		return err
	}
	r.Events++
	_, err = r.W.Write(append(b, '\n'))
	return err
}

func errClass(err error) string {
	switch {
	case err == nil:
		return ""
	case errors.Is(err, queue.ErrLeaseNotFound):
		return "notfound"
	case errors.Is(err, queue.ErrLeaseExpired):
		return "expired"
	case errors.Is(err, queue.ErrQueueFull):
		return "full"
	case errors.Is(err, queue.ErrMemoryPressure):
		return "pressure"
	case errors.Is(err, queue.ErrEnvelopeExists):
		return "exists"
	case strings.Contains(err.Error(), "invalid message order"):
		return "badorder"
	}
	return "other:" + err.Error()
}

func rowJSON(e queue.Envelope) map[string]any {
	return map[string]any{
		"id": e.ID, "st": string(e.State), "rt": e.Route, "tg": e.Target,
		"recv": TimeTick(e.ReceivedAt), "att": e.Attempt, "next": TimeTick(e.NextRunAt),
		"lease": e.LeaseID, "until": TimeTick(e.LeaseUntil),
		"pl": DigestBytes(e.Payload), "hd": DigestMap(e.Headers), "tr": DigestMap(e.Trace), "dr": e.DeadReason,
	}
}

// post returns the abstract state after a call: the message table keyed by
// id, the lexicographic rank of every id, and the volatile throttle state.
func (r *Runner) post(d Dumper) (map[string]any, map[string]any, map[string]any, error) {
	rows, err := d.Dump()
	if err != nil {
		return nil, nil, nil, err
	}
	sort.Slice(rows, func(i, j int) bool { return rows[i].Env.ID < rows[j].Env.ID })
	out := make(map[string]any, len(rows))
	rank := make(map[string]any, len(rows))
	for i, row := range rows {
		m := rowJSON(row.Env)
		delete(m, "id")
		out[row.Env.ID] = m
		rank[row.Env.ID] = i + 1
	}
	v := d.Volatile()
	return out, rank, map[string]any{"lp": TimeTick(v.LastPrune), "ls": TimeTick(v.LastSweep)}, nil
}

// isGeneratedAttemptID: "att_" + 16 hex digits, the shape of an id the store makes up for a blank one.
func isGeneratedAttemptID(id string) bool {
	if len(id) != 20 || !strings.HasPrefix(id, "att_") {
		return false
	}
	for _, c := range id[4:] {
		if !(c >= '0' && c <= '9' || c >= 'a' && c <= 'f') {
			return false
		}
	}
	return true
}

func envArg(e EnvSpec) map[string]any {
	return map[string]any{"id": e.ID, "rt": e.Rt, "tg": e.Tg, "recv": e.Recv, "next": e.Next, "att": e.Att,
		"pl": DigestBytes(PayloadBytes(e.Pl)), "hd": DigestMap(MapFor(e.Hd)), "tr": DigestMap(MapFor(e.Tr))}
}

func envReal(e EnvSpec) queue.Envelope {
	return queue.Envelope{ID: e.ID, Route: e.Rt, Target: e.Tg, ReceivedAt: TickTime(e.Recv), NextRunAt: TickTime(e.Next),
		Attempt: e.Att, Payload: PayloadBytes(e.Pl), Headers: MapFor(e.Hd), Trace: MapFor(e.Tr)}
}

type leaseBook struct {
	epochs map[string][]string // message id -> lease ids in order of issue
}

func (b *leaseBook) resolve(l LeaseRef) string {
	var s string
	if l.IsLit {
		s = l.Lit
	} else {
		eps := b.epochs[l.Msg]
		switch {
		case l.Epoch == 0 && len(eps) > 0:
			s = eps[len(eps)-1]
		case l.Epoch >= 1 && l.Epoch <= len(eps):
			s = eps[l.Epoch-1]
		default:
			s = fmt.Sprintf("lease_none_%s_%d", l.Msg, l.Epoch)
		}
	}
	if l.Pad {
		s = " " + s + "\t"
	}
	return s
}

func normIDs(ids []string) []string {
	out := []string{}
	seen := map[string]bool{}
	for _, raw := range ids {
		id := strings.TrimSpace(raw)
		if id == "" || seen[id] {
			continue
		}
		seen[id] = true
		out = append(out, id)
	}
	return out
}

func filterArg(f *Filter) map[string]any {
	if f == nil {
		f = &Filter{}
	}
	return map[string]any{"rt": f.Rt, "tg": f.Tg, "st": f.St, "before": f.Before, "limit": f.Limit}
}

func itemsJSON(items []queue.Envelope) []any {
	out := make([]any, 0, len(items))
	for _, it := range items {
		out = append(out, rowJSON(it))
	}
	return out
}

// Run executes one schedule on one backend configuration and appends the
// trace.  The configuration must already be completed by BackendCfg.
func (r *Runner) Run(name string, cfg Cfg, ops []Op) error {
	r.n++
	clk := &Clock{k: 1000}
	dbPath := ""
	if cfg.Backend == "sqlite" {
		dbPath = filepath.Join(r.Scratch, fmt.Sprintf("q%d.db", r.n))
		defer func() {
			for _, suf := range []string{"", "-wal", "-shm"} {
				_ = os.Remove(dbPath + suf)
			}
		}()
	}
	store, dump, closeFn, err := OpenStore(cfg, clk, dbPath)
	if err != nil {
		return err
	}
	defer func() { closeFn() }()
	if cfg.Dev == nil {
		cfg.Dev = []string{}
	}
	if err := r.emit(Event{"ev": "Reset", "tr": name, "cfg": cfg, "now": clk.Tick()}); err != nil {
		return err
	}
	book := &leaseBook{epochs: map[string][]string{}}
	for _, op := range ops {
		if op.Op == "Reopen" {
			// close the store and open it again on the same database: a restart of the process that owns the queue.
			// The memory store has nothing to reopen (the step is skipped there).
			if cfg.Backend != "sqlite" {
				continue
			}
			closeFn()
			store, dump, closeFn, err = OpenStore(cfg, clk, dbPath)
			if err != nil {
				closeFn = func() {}
				return fmt.Errorf("%s: reopen: %w", name, err)
			}
			post, rank, vol, err := r.post(dump)
			if err != nil {
				return err
			}
			if err := r.emit(Event{"ev": "Reopen", "a": map[string]any{}, "r": map[string]any{"err": ""}, "now": clk.Tick(), "post": post, "rank": rank, "vol": vol}); err != nil {
				return err
			}
			continue
		}
		if op.Op == "HandleRace" {
			if err := r.handleRace(store, dump, clk, book, cfg, dbPath, op); err != nil {
				return fmt.Errorf("%s: HandleRace: %w", name, err)
			}
			continue
		}
		if op.Op == "FilterRace" {
			if err := r.filterRace(store, dump, clk, book, op); err != nil {
				return fmt.Errorf("%s: FilterRace: %w", name, err)
			}
			continue
		}
		ev, err := execOp(store, clk, book, op)
		if err != nil {
			return fmt.Errorf("%s: op %s: %w", name, op.Op, err)
		}
		post, rank, vol, err := r.post(dump)
		if err != nil {
			return err
		}
		ev["now"] = clk.Tick()
		ev["post"] = post
		ev["rank"] = rank
		ev["vol"] = vol
		if err := r.emit(ev); err != nil {
			return err
		}
	}
	return nil
}

func execOp(store queue.Store, clk *Clock, book *leaseBook, op Op) (Event, error) {
	switch op.Op {
	case "Tick":
		clk.Advance(op.D)
		return Event{"ev": "Tick", "a": map[string]any{"d": op.D}}, nil
	case "Enqueue":
		err := store.Enqueue(envReal(*op.Env))
		return Event{"ev": "Enqueue", "a": map[string]any{"envs": []any{envArg(*op.Env)}}, "r": map[string]any{"err": errClass(err), "n": 0}}, nil
	case "EnqueueBatch":
		be, ok := store.(queue.BatchEnqueuer)
		if !ok {
			return nil, errors.New("store is not a BatchEnqueuer")
		}
		envs := make([]queue.Envelope, 0, len(op.Envs))
		args := make([]any, 0, len(op.Envs))
		for _, e := range op.Envs {
			envs = append(envs, envReal(e))
			args = append(args, envArg(e))
		}
		n, err := be.EnqueueBatch(envs)
		return Event{"ev": "EnqueueBatch", "a": map[string]any{"envs": args}, "r": map[string]any{"err": errClass(err), "n": n}}, nil
	case "RecordAttempt":
		a := *op.Att
		err := store.RecordAttempt(queue.DeliveryAttempt{ID: a.ID, EventID: a.Ev, Route: a.Rt, Target: a.Tg, Attempt: a.N, StatusCode: a.Code,
			Error: a.Err, Outcome: queue.AttemptOutcome(a.Out), DeadReason: a.Dr, CreatedAt: TickTime(a.At)})
		return Event{"ev": "RecordAttempt", "a": map[string]any{"id": a.ID, "idn": a.IDN, "blank": strings.TrimSpace(a.ID) == "", "ev": a.Ev, "rt": a.Rt, "tg": a.Tg,
			"n": a.N, "code": a.Code, "err": a.Err, "errn": strings.TrimSpace(a.Err), "out": a.Out, "dr": a.Dr, "drn": strings.TrimSpace(a.Dr), "at": a.At},
			"r": map[string]any{"err": errClass(err)}}, nil
	case "ListAttempts":
		f := *op.AF
		resp, err := store.ListAttempts(queue.AttemptListRequest{Route: f.Rt, Target: f.Tg, EventID: f.Ev, Outcome: queue.AttemptOutcome(f.Out), Limit: f.Limit, Before: TickTime(f.Before)})
		items := make([]any, 0, len(resp.Items))
		for _, it := range resp.Items {
			items = append(items, map[string]any{"id": it.ID, "gen": isGeneratedAttemptID(it.ID), "ev": it.EventID, "rt": it.Route, "tg": it.Target, "n": it.Attempt,
				"code": it.StatusCode, "err": it.Error, "out": string(it.Outcome), "dr": it.DeadReason, "at": TimeTick(it.CreatedAt)})
		}
		return Event{"ev": "ListAttempts", "a": map[string]any{"rt": f.Rt, "tg": f.Tg, "ev": f.Ev, "out": f.Out, "limit": f.Limit, "before": f.Before},
			"r": map[string]any{"err": errClass(err), "items": items}}, nil
	case "CaptureTrend":
		ts, ok := store.(queue.BacklogTrendStore)
		if !ok {
			return nil, errors.New("store is not a BacklogTrendStore")
		}
		err := ts.CaptureBacklogTrendSample(TickTime(op.At))
		return Event{"ev": "CaptureTrend", "a": map[string]any{"at": op.At}, "r": map[string]any{"err": errClass(err)}}, nil
	case "ListTrend":
		ts, ok := store.(queue.BacklogTrendStore)
		if !ok {
			return nil, errors.New("store is not a BacklogTrendStore")
		}
		f := *op.TF
		resp, err := ts.ListBacklogTrend(queue.BacklogTrendListRequest{Route: f.Rt, Target: f.Tg, Since: TickTime(f.Since), Until: TickTime(f.Until), Limit: f.Limit})
		items := make([]any, 0, len(resp.Items))
		for _, it := range resp.Items {
			items = append(items, map[string]any{"at": TimeTick(it.CapturedAt), "q": it.Queued, "l": it.Leased, "d": it.Dead})
		}
		return Event{"ev": "ListTrend", "a": map[string]any{"rt": f.Rt, "tg": f.Tg, "rtn": strings.TrimSpace(f.Rt), "tgn": strings.TrimSpace(f.Tg), "since": f.Since, "until": f.Until, "limit": f.Limit},
			"r": map[string]any{"err": errClass(err), "items": items, "trunc": resp.Truncated}}, nil
	case "Dequeue":
		resp, err := store.Dequeue(queue.DequeueRequest{Route: op.Rt, Target: op.Tg, Batch: op.Batch, LeaseTTL: ms(op.TTL)})
		for _, it := range resp.Items {
			book.epochs[it.ID] = append(book.epochs[it.ID], it.LeaseID)
		}
		return Event{"ev": "Dequeue", "a": map[string]any{"rt": op.Rt, "tg": op.Tg, "batch": op.Batch, "ttl": op.TTL},
			"r": map[string]any{"err": errClass(err), "items": itemsJSON(resp.Items)}}, nil
	case "LeaseOp":
		raw := book.resolve(*op.Lease)
		var err error
		var arg any = op.Arg
		argn := any(op.Arg)
		switch op.Kind {
		case "ack":
			err = store.Ack(raw)
		case "nack":
			err = store.Nack(raw, ms(op.Arg))
		case "extend":
			err = store.Extend(raw, ms(op.Arg))
		case "dead":
			err = store.MarkDead(raw, op.Reason)
			arg = op.Reason
			argn = op.Reason
			if strings.TrimSpace(op.Reason) == "" {
				argn = ""
			}
		default:
			return nil, fmt.Errorf("bad kind %q", op.Kind)
		}
		return Event{"ev": "LeaseOp", "a": map[string]any{"kind": op.Kind, "lease": raw, "lid": strings.TrimSpace(raw), "arg": arg, "argn": argn},
			"r": map[string]any{"err": errClass(err)}}, nil
	case "LeaseBatch":
		lb, ok := store.(queue.LeaseBatchStore)
		if !ok {
			return nil, errors.New("store is not a LeaseBatchStore")
		}
		raws := make([]string, 0, len(op.Leases))
		lids := make([]any, 0, len(op.Leases))
		for _, l := range op.Leases {
			s := book.resolve(l)
			raws = append(raws, s)
			lids = append(lids, strings.TrimSpace(s))
		}
		var res queue.LeaseBatchResult
		var err error
		var arg any = op.Arg
		argn := any(op.Arg)
		switch op.Kind {
		case "ack":
			res, err = lb.AckBatch(raws)
		case "nack":
			res, err = lb.NackBatch(raws, ms(op.Arg))
		case "dead":
			res, err = lb.MarkDeadBatch(raws, op.Reason)
			arg = op.Reason
			argn = op.Reason
			if strings.TrimSpace(op.Reason) == "" {
				argn = ""
			}
		default:
			return nil, fmt.Errorf("bad batch kind %q", op.Kind)
		}
		nf := []any{}
		ex := []any{}
		for _, c := range res.Conflicts {
			if c.Expired {
				ex = append(ex, strings.TrimSpace(c.LeaseID))
			} else {
				nf = append(nf, strings.TrimSpace(c.LeaseID))
			}
		}
		return Event{"ev": "LeaseBatch", "a": map[string]any{"kind": op.Kind, "leases": raws, "lids": lids, "arg": arg, "argn": argn},
			"r": map[string]any{"err": errClass(err), "ok": res.Succeeded, "nf": nf, "ex": ex}}, nil
	case "MutateIds":
		var n, matched int
		var err error
		switch op.MOp {
		case "cancel":
			var resp queue.MessageCancelResponse
			resp, err = store.CancelMessages(queue.MessageCancelRequest{IDs: op.IDs})
			n, matched = resp.Canceled, resp.Matched
		case "requeue":
			var resp queue.MessageRequeueResponse
			resp, err = store.RequeueMessages(queue.MessageRequeueRequest{IDs: op.IDs})
			n, matched = resp.Requeued, resp.Matched
		case "resume":
			var resp queue.MessageResumeResponse
			resp, err = store.ResumeMessages(queue.MessageResumeRequest{IDs: op.IDs})
			n, matched = resp.Resumed, resp.Matched
		case "requeuedead":
			var resp queue.DeadRequeueResponse
			resp, err = store.RequeueDead(queue.DeadRequeueRequest{IDs: op.IDs})
			n, matched = resp.Requeued, resp.Requeued
		case "deletedead":
			var resp queue.DeadDeleteResponse
			resp, err = store.DeleteDead(queue.DeadDeleteRequest{IDs: op.IDs})
			n, matched = resp.Deleted, resp.Deleted
		default:
			return nil, fmt.Errorf("bad mop %q", op.MOp)
		}
		ids := op.IDs
		if ids == nil {
			ids = []string{}
		}
		return Event{"ev": "MutateIds", "a": map[string]any{"op": op.MOp, "ids": ids, "nids": normIDs(op.IDs)},
			"r": map[string]any{"err": errClass(err), "n": n, "matched": matched}}, nil
	case "MutateFilter":
		f := op.F
		if f == nil {
			f = &Filter{}
		}
		req := queue.MessageManageFilterRequest{Route: f.Rt, Target: f.Tg, State: queue.State(f.St), Limit: f.Limit, Before: TickTime(f.Before), PreviewOnly: op.Preview}
		var n, matched int
		var prev bool
		var err error
		switch op.MOp {
		case "cancel":
			var resp queue.MessageCancelResponse
			resp, err = store.CancelMessagesByFilter(req)
			n, matched, prev = resp.Canceled, resp.Matched, resp.PreviewOnly
		case "requeue":
			var resp queue.MessageRequeueResponse
			resp, err = store.RequeueMessagesByFilter(req)
			n, matched, prev = resp.Requeued, resp.Matched, resp.PreviewOnly
		case "resume":
			var resp queue.MessageResumeResponse
			resp, err = store.ResumeMessagesByFilter(req)
			n, matched, prev = resp.Resumed, resp.Matched, resp.PreviewOnly
		default:
			return nil, fmt.Errorf("bad filter mop %q", op.MOp)
		}
		return Event{"ev": "MutateFilter", "a": map[string]any{"op": op.MOp, "f": filterArg(f), "preview": op.Preview},
			"r": map[string]any{"err": errClass(err), "n": n, "matched": matched, "preview": prev}}, nil
	case "ListMessages":
		f := op.F
		if f == nil {
			f = &Filter{}
		}
		resp, err := store.ListMessages(queue.MessageListRequest{Route: f.Rt, Target: f.Tg, State: queue.State(f.St), Order: op.Order, Limit: f.Limit,
			Before: TickTime(f.Before), IncludePayload: op.Inc, IncludeHeaders: op.Inc, IncludeTrace: op.Inc})
		ord := strings.ToLower(strings.TrimSpace(op.Order))
		if ord == "" {
			ord = "desc"
		}
		return Event{"ev": "ListMessages", "a": map[string]any{"f": filterArg(f), "order": ord, "inc": op.Inc},
			"r": map[string]any{"err": errClass(err), "items": itemsJSON(resp.Items)}}, nil
	case "ListDead":
		f := op.F
		if f == nil {
			f = &Filter{}
		}
		ff := *f
		ff.Tg, ff.St = "", "dead"
		resp, err := store.ListDead(queue.DeadListRequest{Route: f.Rt, Limit: f.Limit, Before: TickTime(f.Before), IncludePayload: op.Inc, IncludeHeaders: op.Inc, IncludeTrace: op.Inc})
		return Event{"ev": "ListDead", "a": map[string]any{"f": filterArg(&ff), "inc": op.Inc},
			"r": map[string]any{"err": errClass(err), "items": itemsJSON(resp.Items)}}, nil
	case "Lookup":
		resp, err := store.LookupMessages(queue.MessageLookupRequest{IDs: op.IDs})
		items := []any{}
		for _, it := range resp.Items {
			items = append(items, map[string]any{"id": it.ID, "rt": it.Route, "st": string(it.State)})
		}
		ids := op.IDs
		if ids == nil {
			ids = []string{}
		}
		return Event{"ev": "Lookup", "a": map[string]any{"ids": ids, "nids": normIDs(op.IDs)}, "r": map[string]any{"err": errClass(err), "items": items}}, nil
	case "Stats":
		st, err := store.Stats()
		by := map[string]any{}
		for _, s := range []string{"queued", "leased", "delivered", "dead", "canceled"} {
			by[s] = st.ByState[queue.State(s)]
		}
		extra := 0
		for k := range st.ByState {
			switch string(k) {
			case "queued", "leased", "delivered", "dead", "canceled":
			default:
				extra++
			}
		}
		return Event{"ev": "Stats", "a": map[string]any{}, "r": map[string]any{"err": errClass(err), "total": st.Total, "by": by, "extra": extra,
			"oldest": TimeTick(st.OldestQueuedReceivedAt), "earliest": TimeTick(st.EarliestQueuedNextRun),
			"age": int(st.OldestQueuedAge / time.Millisecond), "lag": int(st.ReadyLag / time.Millisecond)}}, nil
	}
	return nil, fmt.Errorf("unknown op %q", op.Op)
}


// EmitRaw writes an event as is.
func (r *Runner) EmitRaw(ev Event) error { return r.emit(ev) }

// EmitWithPost completes an event with the clock, the dump, ranks and volatile state, and writes it.
func (r *Runner) EmitWithPost(ev Event, d Dumper, clk *Clock) error {
	post, rank, vol, err := r.post(d)
	if err != nil {
		return err
	}
	ev["now"] = clk.Tick()
	ev["post"] = post
	ev["rank"] = rank
	ev["vol"] = vol
	return r.emit(ev)
}

// LeaseBook is exported for other layers.
type LeaseBook = leaseBook

func NewLeaseBook() *LeaseBook { return &leaseBook{epochs: map[string][]string{}} }
func (b *leaseBook) Add(msg, lease string) { b.epochs[msg] = append(b.epochs[msg], lease) }
func (b *leaseBook) Resolve(l LeaseRef) string { return b.resolve(l) }

// ExecOp executes one store-level operation and returns its event (without post-state).
func ExecOp(store queue.Store, clk *Clock, book *LeaseBook, op Op) (Event, error) { return execOp(store, clk, book, op) }


// handleRace: two handles on one SQLite database (the running gateway and a second opener of the file - `hookaido mcp` in
// direct mode, another instance).  Inner[0] is an operator mutation made through a SECOND handle, Inner[1] a lease operation
// of the main handle.  A third connection takes the database's write lock first; the lease operation is started and gets
// as far as it can without the lock, then the operator call is started and waits for the lock as well; the lock is
// released and the two commit in whichever order SQLite grants it.  Whatever that order is, the pair must look like the two
// calls made one after the other in SOME order (TraceHandleRace): a decision taken on what was read before the lock was
// granted is not such an outcome.  On the memory store (one handle by construction) the two run one after the other.
func (r *Runner) handleRace(store queue.Store, dump Dumper, clk *Clock, book *leaseBook, cfg Cfg, dbPath string, op Op) error {
	if len(op.Inner) != 2 {
		return errors.New("HandleRace needs two inner operations")
	}
	first, second := op.Inner[0], op.Inner[1]
	var ev1, ev2 Event
	if _, isSQL := store.(*queue.SQLiteStore); !isSQL {
		var err error
		if ev1, err = execOp(store, clk, book, first); err != nil {
			return err
		}
		if ev2, err = execOp(store, clk, book, second); err != nil {
			return err
		}
	} else {
		storeB, _, closeB, err := OpenStore(cfg, clk, dbPath)
		if err != nil {
			return fmt.Errorf("second handle: %w", err)
		}
		defer closeB()
		raw, err := sql.Open("sqlite", dbPath)
		if err != nil {
			return err
		}
		defer raw.Close()
		ctx := context.Background()
		conn, err := raw.Conn(ctx)
		if err != nil {
			return err
		}
		defer conn.Close()
		if _, err := conn.ExecContext(ctx, "PRAGMA busy_timeout=5000;"); err != nil {
			return err
		}
		if _, err := conn.ExecContext(ctx, "BEGIN IMMEDIATE;"); err != nil {
			return fmt.Errorf("lock holder: %w", err)
		}
		type res struct {
			ev  Event
			err error
		}
		doneA := make(chan res, 1)
		doneB := make(chan res, 1)
		bookA, bookB := book, book
		if second.Op == "Dequeue" {
			// both calls record the leases they are given: private books, merged afterwards
			bookA, bookB = NewLeaseBook(), NewLeaseBook()
		}
		go func() {
			ev, err := execOp(store, clk, bookA, second)
			doneA <- res{ev, err}
		}()
		// the lease call reads what it reads without the lock, then waits for it; SQLite's busy handler polls at growing
		// intervals (1 ... 100 ms), so a waiter that has waited long is usually overtaken by one that has just arrived:
		// mostly the operator is given the lock first, sometimes (short wait) the lease call
		wait := 140 * time.Millisecond
		if r.n%4 == 0 {
			wait = 15 * time.Millisecond
		}
		time.Sleep(wait)
		go func() {
			ev, err := execOp(storeB, clk, bookB, first)
			doneB <- res{ev, err}
		}()
		time.Sleep(4 * time.Millisecond)
		if _, err := conn.ExecContext(ctx, "ROLLBACK;"); err != nil {
			return fmt.Errorf("lock holder: %w", err)
		}
		var ra, rb res
		for k := 0; k < 2; k++ {
			select {
			case ra = <-doneA:
			case rb = <-doneB:
			case <-time.After(30 * time.Second):
				return errors.New("the two calls did not finish")
			}
		}
		if rb.err != nil {
			return rb.err
		}
		if ra.err != nil {
			return ra.err
		}
		ev1, ev2 = rb.ev, ra.ev
		if second.Op == "Dequeue" {
			for _, bk := range []*leaseBook{bookB, bookA} {
				for id, ls := range bk.epochs {
					book.epochs[id] = append(book.epochs[id], ls...)
				}
			}
		}
	}
	if second.Op == "Dequeue" {
		ev := Event{"ev": "HandleDeq", "a": map[string]any{"first": ev1["a"], "second": ev2["a"]}, "r": map[string]any{"first": ev1["r"], "second": ev2["r"]}}
		return r.EmitWithPost(ev, dump, clk)
	}
	ev := Event{"ev": "HandleRace", "a": map[string]any{"first": ev1["a"], "second": ev2["a"], "second_ev": ev2["ev"]},
		"r": map[string]any{"first": ev1["r"], "second": ev2["r"]}}
	return r.EmitWithPost(ev, dump, clk)
}

// filterRaceMu serialises FilterRace executions: the gate is global to the process.
var filterRaceMu sync.Mutex

// filterRace runs a by-filter mutation that is paused at the hook between its select and its update
// (sqlite.filter.selected) while the inner operations run, and emits FilterSelect, the inner events, FilterApply.
// Stores that perform the mutation atomically (memory) emit the plain MutateFilter event followed by the inner events.
func (r *Runner) filterRace(store queue.Store, dump Dumper, clk *Clock, book *leaseBook, op Op) error {
	emitOp := func(o Op) error {
		ev, err := execOp(store, clk, book, o)
		if err != nil {
			return err
		}
		return r.EmitWithPost(ev, dump, clk)
	}
	plain := Op{Op: "MutateFilter", MOp: op.MOp, F: op.F}
	if _, isSQL := store.(*queue.SQLiteStore); !isSQL {
		if err := emitOp(plain); err != nil {
			return err
		}
		for _, in := range op.Inner {
			if err := emitOp(in); err != nil {
				return err
			}
		}
		return nil
	}
	filterRaceMu.Lock()
	defer filterRaceMu.Unlock()
	arrived := make(chan struct{}, 1)
	release := make(chan struct{})
	armed := true
	var gmu sync.Mutex
	var target int64 // goroutine that performs OUR by-filter call (other shards run in the same process)
	verifhook.SetGate(func(label string) {
		if label != "sqlite.filter.selected" {
			return
		}
		gmu.Lock()
		a := armed && target != 0 && curGID() == target
		if a {
			armed = false
		}
		gmu.Unlock()
		if !a {
			return
		}
		arrived <- struct{}{}
		<-release
	})
	defer verifhook.SetGate(nil)
	type res struct {
		ev  Event
		err error
	}
	done := make(chan res, 1)
	go func() {
		gmu.Lock()
		target = curGID()
		gmu.Unlock()
		ev, err := execOp(store, clk, book, plain)
		done <- res{ev, err}
	}()
	select {
	case <-arrived:
	case d := <-done:
		// nothing was selected: the call returned before the second step - a plain atomic MutateFilter
		if d.err != nil {
			return d.err
		}
		if err := r.EmitWithPost(d.ev, dump, clk); err != nil {
			return err
		}
		for _, in := range op.Inner {
			if err := emitOp(in); err != nil {
				return err
			}
		}
		return nil
	case <-time.After(20 * time.Second):
		return fmt.Errorf("by-filter call neither reached the hook nor returned")
	}
	if err := r.EmitWithPost(Event{"ev": "FilterSelect", "a": map[string]any{"op": op.MOp, "f": filterArg(op.F)}}, dump, clk); err != nil {
		close(release)
		return err
	}
	for _, in := range op.Inner {
		if err := emitOp(in); err != nil {
			close(release)
			return err
		}
	}
	close(release)
	d := <-done
	if d.err != nil {
		return d.err
	}
	d.ev["ev"] = "FilterApply"
	return r.EmitWithPost(d.ev, dump, clk)
}


// curGID returns the id of the calling goroutine (parsed from its stack header; harness use only).
func curGID() int64 {
	var buf [64]byte
	n := runtime.Stack(buf[:], false)
	f := strings.Fields(string(buf[:n]))
	if len(f) < 2 {
		return -1
	}
	id, err := strconv.ParseInt(f[1], 10, 64)
	if err != nil {
		return -1
	}
	return id
}
