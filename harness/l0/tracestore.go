package l0

import (
	"encoding/json"
	"fmt"
	"io"
	"sort"
	"strings"
	"sync"
	"sync/atomic"
	"time"

	"github.com/nuetzliches/hookaido/internal/queue"
)

// TraceStore is a tracing decorator around a real store for CONCURRENT use
// (C03).  Every call is logged as one operation record with a global sequence
// number taken immediately before the call (cs) and one taken immediately after
// it returned (rs).  Operations hold a read lock for their duration; Barrier and
// Tick take the write lock, so the fake clock is constant during every
// operation and dumps are taken at quiescent points only.  Whatever drives the
// store (goroutines of the harness, the pull / worker handlers, the push
// dispatcher of a production-wired instance) goes through the same decorator.
type TraceStore struct {
	Inner queue.Store
	Dump  Dumper
	Clk   *Clock
	// EmptyWait is slept (real time, outside the lock) after a dequeue that asked to
	// wait and got nothing, so that polling callers do not spin.
	EmptyWait time.Duration

	mu  sync.RWMutex
	seq atomic.Int64
	lmu sync.Mutex
	ops []*opRec
	// non-operation events (Reset, Tick, Check) carry a single sequence number
	evs []Event
}

type opRec struct {
	CS, RS int64
	G      string
	Ev     string
	Now    int
	A, R   map[string]any
}

func NewTraceStore(inner queue.Store, dump Dumper, clk *Clock) *TraceStore {
	return &TraceStore{Inner: inner, Dump: dump, Clk: clk}
}

type gidKey struct{}

func (t *TraceStore) begin(ev string, a map[string]any) *opRec {
	t.mu.RLock()
	op := &opRec{Ev: ev, A: a, Now: t.Clk.Tick(), G: "g"}
	op.CS = t.seq.Add(1)
	return op
}

func (t *TraceStore) end(op *opRec, r map[string]any) {
	op.R = r
	op.RS = t.seq.Add(1)
	t.lmu.Lock()
	t.ops = append(t.ops, op)
	t.lmu.Unlock()
	t.mu.RUnlock()
}

// Reset logs the configuration event (call before any operation).
func (t *TraceStore) Reset(name string, cfg Cfg) {
	if cfg.Dev == nil {
		cfg.Dev = []string{}
	}
	t.evs = append(t.evs, Event{"seq": t.seq.Add(1), "ev": "Reset", "tr": name, "cfg": cfg, "now": t.Clk.Tick()})
}

// Tick advances the fake clock at a quiescent point.
func (t *TraceStore) Tick(d int) {
	t.mu.Lock()
	t.Clk.Advance(d)
	t.lmu.Lock()
	t.evs = append(t.evs, Event{"seq": t.seq.Add(1), "ev": "Tick", "a": map[string]any{"d": d}, "now": t.Clk.Tick()})
	t.lmu.Unlock()
	t.mu.Unlock()
}

// Barrier dumps the store at a quiescent point.
func (t *TraceStore) Barrier() error {
	t.mu.Lock()
	defer t.mu.Unlock()
	rows, err := t.Dump.Dump()
	if err != nil {
		return err
	}
	post := make(map[string]any, len(rows))
	for _, row := range rows {
		m := rowJSON(row.Env)
		delete(m, "id")
		post[row.Env.ID] = m
	}
	t.lmu.Lock()
	t.evs = append(t.evs, Event{"seq": t.seq.Add(1), "ev": "Check", "post": post, "now": t.Clk.Tick()})
	t.lmu.Unlock()
	return nil
}

// WriteTrace writes the merged event sequence: for every operation a "call"
// line (which carries arguments AND the result that the matching return
// reported - a join, nothing is inferred) and a "ret" line, ordered by
// sequence number.
func (t *TraceStore) WriteTrace(w io.Writer) (int, error) {
	t.mu.Lock()
	defer t.mu.Unlock()
	type line struct {
		seq int64
		ev  Event
	}
	var lines []line
	for _, e := range t.evs {
		lines = append(lines, line{e["seq"].(int64), e})
	}
	for i, op := range t.ops {
		id := fmt.Sprintf("o%d", i+1)
		lines = append(lines, line{op.CS, Event{"ev": "Call", "op": op.Ev, "id": id, "now": op.Now, "a": op.A, "r": op.R}})
		lines = append(lines, line{op.RS, Event{"ev": "Ret", "id": id}})
	}
	sort.Slice(lines, func(i, j int) bool { return lines[i].seq < lines[j].seq })
	for _, l := range lines {
		delete(l.ev, "seq")
		b, err := json.Marshal(l.ev)
		if err != nil {
			return 0, err
		}
		if _, err := w.Write(append(b, '\n')); err != nil {
			return 0, err
		}
	}
	return len(lines), nil
}

func (t *TraceStore) Enqueue(env queue.Envelope) error {
	if env.ID == "" {
		env.ID = "evt_" + randHex(8)
	}
	op := t.begin("Enqueue", map[string]any{"envs": []any{envArgReal(env)}})
	err := t.Inner.Enqueue(env)
	t.end(op, map[string]any{"err": errClass(err), "n": 0})
	return err
}

func (t *TraceStore) EnqueueBatch(items []queue.Envelope) (int, error) {
	be, ok := t.Inner.(queue.BatchEnqueuer)
	if !ok {
		return 0, fmt.Errorf("inner store is not a BatchEnqueuer")
	}
	args := make([]any, 0, len(items))
	for i := range items {
		if items[i].ID == "" {
			items[i].ID = "evt_" + randHex(8)
		}
		args = append(args, envArgReal(items[i]))
	}
	op := t.begin("EnqueueBatch", map[string]any{"envs": args})
	n, err := be.EnqueueBatch(items)
	t.end(op, map[string]any{"err": errClass(err), "n": n})
	return n, err
}

func (t *TraceStore) Dequeue(req queue.DequeueRequest) (queue.DequeueResponse, error) {
	// long-poll waiting would hold the read lock for real time; the store is asked without waiting
	wanted := req.MaxWait
	req.MaxWait = 0
	op := t.begin("Dequeue", map[string]any{"rt": req.Route, "tg": req.Target, "batch": req.Batch, "ttl": int(req.LeaseTTL / time.Millisecond)})
	resp, err := t.Inner.Dequeue(req)
	t.end(op, map[string]any{"err": errClass(err), "items": itemsJSON(resp.Items)})
	if wanted > 0 && len(resp.Items) == 0 && t.EmptyWait > 0 {
		time.Sleep(t.EmptyWait)
	}
	return resp, err
}

func leaseArgs(kind, raw string, arg any, argn any) map[string]any {
	return map[string]any{"kind": kind, "lease": raw, "lid": strings.TrimSpace(raw), "arg": arg, "argn": argn}
}

func (t *TraceStore) Ack(leaseID string) error {
	op := t.begin("LeaseOp", leaseArgs("ack", leaseID, 0, 0))
	err := t.Inner.Ack(leaseID)
	t.end(op, map[string]any{"err": errClass(err)})
	return err
}

func (t *TraceStore) Nack(leaseID string, delay time.Duration) error {
	d := int(delay / time.Millisecond)
	op := t.begin("LeaseOp", leaseArgs("nack", leaseID, d, d))
	err := t.Inner.Nack(leaseID, delay)
	t.end(op, map[string]any{"err": errClass(err)})
	return err
}

func (t *TraceStore) Extend(leaseID string, by time.Duration) error {
	d := int(by / time.Millisecond)
	op := t.begin("LeaseOp", leaseArgs("extend", leaseID, d, d))
	err := t.Inner.Extend(leaseID, by)
	t.end(op, map[string]any{"err": errClass(err)})
	return err
}

func normReason(reason string) string {
	if strings.TrimSpace(reason) == "" {
		return ""
	}
	return reason
}

func (t *TraceStore) MarkDead(leaseID string, reason string) error {
	op := t.begin("LeaseOp", leaseArgs("dead", leaseID, reason, normReason(reason)))
	err := t.Inner.MarkDead(leaseID, reason)
	t.end(op, map[string]any{"err": errClass(err)})
	return err
}

func (t *TraceStore) leaseBatch(kind string, ids []string, arg any, argn any, call func(queue.LeaseBatchStore) (queue.LeaseBatchResult, error)) (queue.LeaseBatchResult, error) {
	lb, ok := t.Inner.(queue.LeaseBatchStore)
	if !ok {
		return queue.LeaseBatchResult{}, fmt.Errorf("inner store is not a LeaseBatchStore")
	}
	lids := make([]any, 0, len(ids))
	raws := make([]any, 0, len(ids))
	for _, s := range ids {
		lids = append(lids, strings.TrimSpace(s))
		raws = append(raws, s)
	}
	op := t.begin("LeaseBatch", map[string]any{"kind": kind, "leases": raws, "lids": lids, "arg": arg, "argn": argn})
	res, err := call(lb)
	nf, ex := []any{}, []any{}
	for _, c := range res.Conflicts {
		if c.Expired {
			ex = append(ex, strings.TrimSpace(c.LeaseID))
		} else {
			nf = append(nf, strings.TrimSpace(c.LeaseID))
		}
	}
	t.end(op, map[string]any{"err": errClass(err), "ok": res.Succeeded, "nf": nf, "ex": ex})
	return res, err
}

func (t *TraceStore) AckBatch(ids []string) (queue.LeaseBatchResult, error) {
	return t.leaseBatch("ack", ids, 0, 0, func(lb queue.LeaseBatchStore) (queue.LeaseBatchResult, error) { return lb.AckBatch(ids) })
}

func (t *TraceStore) NackBatch(ids []string, delay time.Duration) (queue.LeaseBatchResult, error) {
	d := int(delay / time.Millisecond)
	return t.leaseBatch("nack", ids, d, d, func(lb queue.LeaseBatchStore) (queue.LeaseBatchResult, error) { return lb.NackBatch(ids, delay) })
}

func (t *TraceStore) MarkDeadBatch(ids []string, reason string) (queue.LeaseBatchResult, error) {
	return t.leaseBatch("dead", ids, reason, normReason(reason), func(lb queue.LeaseBatchStore) (queue.LeaseBatchResult, error) { return lb.MarkDeadBatch(ids, reason) })
}

func (t *TraceStore) mutateIDs(mop string, ids []string, call func() (int, int, error)) (int, int, error) {
	if ids == nil {
		ids = []string{}
	}
	op := t.begin("MutateIds", map[string]any{"op": mop, "ids": ids, "nids": normIDs(ids)})
	n, matched, err := call()
	t.end(op, map[string]any{"err": errClass(err), "n": n, "matched": matched})
	return n, matched, err
}

func (t *TraceStore) CancelMessages(req queue.MessageCancelRequest) (queue.MessageCancelResponse, error) {
	var resp queue.MessageCancelResponse
	_, _, err := t.mutateIDs("cancel", req.IDs, func() (int, int, error) {
		var e error
		resp, e = t.Inner.CancelMessages(req)
		return resp.Canceled, resp.Matched, e
	})
	return resp, err
}

func (t *TraceStore) RequeueMessages(req queue.MessageRequeueRequest) (queue.MessageRequeueResponse, error) {
	var resp queue.MessageRequeueResponse
	_, _, err := t.mutateIDs("requeue", req.IDs, func() (int, int, error) {
		var e error
		resp, e = t.Inner.RequeueMessages(req)
		return resp.Requeued, resp.Matched, e
	})
	return resp, err
}

func (t *TraceStore) ResumeMessages(req queue.MessageResumeRequest) (queue.MessageResumeResponse, error) {
	var resp queue.MessageResumeResponse
	_, _, err := t.mutateIDs("resume", req.IDs, func() (int, int, error) {
		var e error
		resp, e = t.Inner.ResumeMessages(req)
		return resp.Resumed, resp.Matched, e
	})
	return resp, err
}

func (t *TraceStore) RequeueDead(req queue.DeadRequeueRequest) (queue.DeadRequeueResponse, error) {
	var resp queue.DeadRequeueResponse
	_, _, err := t.mutateIDs("requeuedead", req.IDs, func() (int, int, error) {
		var e error
		resp, e = t.Inner.RequeueDead(req)
		return resp.Requeued, resp.Requeued, e
	})
	return resp, err
}

func (t *TraceStore) DeleteDead(req queue.DeadDeleteRequest) (queue.DeadDeleteResponse, error) {
	var resp queue.DeadDeleteResponse
	_, _, err := t.mutateIDs("deletedead", req.IDs, func() (int, int, error) {
		var e error
		resp, e = t.Inner.DeleteDead(req)
		return resp.Deleted, resp.Deleted, e
	})
	return resp, err
}

func (t *TraceStore) Stats() (queue.Stats, error) {
	op := t.begin("Stats", map[string]any{})
	st, err := t.Inner.Stats()
	by := map[string]any{}
	for _, s := range []string{"queued", "leased", "delivered", "dead", "canceled"} {
		by[s] = st.ByState[queue.State(s)]
	}
	t.end(op, map[string]any{"err": errClass(err), "total": st.Total, "by": by})
	return st, err
}

func (t *TraceStore) LookupMessages(req queue.MessageLookupRequest) (queue.MessageLookupResponse, error) {
	ids := req.IDs
	if ids == nil {
		ids = []string{}
	}
	op := t.begin("Lookup", map[string]any{"ids": ids, "nids": normIDs(req.IDs)})
	resp, err := t.Inner.LookupMessages(req)
	items := []any{}
	for _, it := range resp.Items {
		items = append(items, map[string]any{"id": it.ID, "rt": it.Route, "st": string(it.State)})
	}
	t.end(op, map[string]any{"err": errClass(err), "items": items})
	return resp, err
}

// The remaining methods are passed through without a trace record; they do not
// change the message table when retention is off (the concurrent drivers keep
// it off) and their results are not part of C03.
func (t *TraceStore) passthrough() func() {
	t.mu.RLock()
	return t.mu.RUnlock
}

func (t *TraceStore) ListDead(req queue.DeadListRequest) (queue.DeadListResponse, error) {
	defer t.passthrough()()
	return t.Inner.ListDead(req)
}
func (t *TraceStore) ListMessages(req queue.MessageListRequest) (queue.MessageListResponse, error) {
	defer t.passthrough()()
	return t.Inner.ListMessages(req)
}
func (t *TraceStore) CancelMessagesByFilter(req queue.MessageManageFilterRequest) (queue.MessageCancelResponse, error) {
	return queue.MessageCancelResponse{}, fmt.Errorf("by-filter mutations are not part of the concurrent trace alphabet")
}
func (t *TraceStore) RequeueMessagesByFilter(req queue.MessageManageFilterRequest) (queue.MessageRequeueResponse, error) {
	return queue.MessageRequeueResponse{}, fmt.Errorf("by-filter mutations are not part of the concurrent trace alphabet")
}
func (t *TraceStore) ResumeMessagesByFilter(req queue.MessageManageFilterRequest) (queue.MessageResumeResponse, error) {
	return queue.MessageResumeResponse{}, fmt.Errorf("by-filter mutations are not part of the concurrent trace alphabet")
}
func (t *TraceStore) RecordAttempt(a queue.DeliveryAttempt) error {
	defer t.passthrough()()
	return t.Inner.RecordAttempt(a)
}
func (t *TraceStore) ListAttempts(req queue.AttemptListRequest) (queue.AttemptListResponse, error) {
	defer t.passthrough()()
	return t.Inner.ListAttempts(req)
}

func envArgReal(e queue.Envelope) map[string]any {
	return map[string]any{"id": e.ID, "rt": e.Route, "tg": e.Target, "recv": TimeTick(e.ReceivedAt), "next": TimeTick(e.NextRunAt), "att": e.Attempt,
		"pl": DigestBytes(e.Payload), "hd": DigestMap(e.Headers), "tr": DigestMap(e.Trace)}
}
