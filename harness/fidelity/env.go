package fidelity

import (
	"fmt"
	"io"
	"net/http"
	"net/http/httptest"
	"strings"
	"sync"
	"time"

	"github.com/nuetzliches/hookaido/internal/queue"
)

// ---------------------------------------------------------------- auxiliary servers

// Attempt is one push delivery as seen by the recording RoundTripper (Header:
// what the real HTTPDeliverer put on the request) and by the target server
// (Body / WireHeader: what arrived over the loopback connection).
type Attempt struct {
	Header     http.Header
	WireHeader http.Header
	Body       []byte
	Method     string
	Outcome    string
	Unexpected bool
	Path       string
	clen       int64
}

// aux is the per-journey state of the auxiliary servers.
type aux struct {
	mu         sync.Mutex
	auth       []Field // header fields of the forward-auth response
	authVia    string
	authSeen   int
	outcome    string // what the target answers to the next delivery
	attempts   []Attempt
	fan        []Attempt // deliveries to the second target of a fan-out route
	need       int       // deliveries expected in the current Push step (one per target)
	inStep     int       // deliveries of the message that arrived in the current Push step
	between    func()    // runs while the first of them is being answered (other traffic between the per-target deliveries)
	companions []Attempt
	pending    []*Attempt // recorded by the RoundTripper, completed by the target
	gate       *gate
	arrived    chan struct{}
}

func (x *aux) inStepReached() bool {
	x.mu.Lock()
	defer x.mu.Unlock()
	return x.need <= 1 || x.inStep >= x.need
}

// Aux hosts the forward-auth server and the push target for all journeys of a process.
type Aux struct {
	srv *httptest.Server
	mu  sync.Mutex
	by  map[string]*aux
	rt  http.RoundTripper
}

func NewAux() *Aux {
	a := &Aux{by: map[string]*aux{}}
	a.srv = httptest.NewServer(http.HandlerFunc(a.serve))
	a.rt = &recordingRT{aux: a, base: &http.Transport{MaxIdleConnsPerHost: 4, IdleConnTimeout: 5 * time.Second}}
	return a
}

func (a *Aux) Close()      { a.srv.Close() }
func (a *Aux) URL() string { return a.srv.URL }

func (a *Aux) register(jid string, x *aux) {
	a.mu.Lock()
	a.by[jid] = x
	a.mu.Unlock()
}

func (a *Aux) unregister(jid string) {
	a.mu.Lock()
	delete(a.by, jid)
	a.mu.Unlock()
}

func (a *Aux) lookup(path string) *aux {
	parts := strings.Split(strings.Trim(path, "/"), "/")
	if len(parts) < 2 {
		return nil
	}
	a.mu.Lock()
	defer a.mu.Unlock()
	return a.by[parts[1]]
}

func (a *Aux) serve(w http.ResponseWriter, r *http.Request) {
	x := a.lookup(r.URL.Path)
	if x == nil {
		http.Error(w, "unknown journey", http.StatusTeapot)
		return
	}
	switch {
	case strings.HasPrefix(r.URL.Path, "/auth/"):
		_, _ = io.Copy(io.Discard, r.Body)
		x.mu.Lock()
		x.authSeen++
		fields := x.auth
		x.mu.Unlock()
		// the response is written by hand: header lines in the order and in the
		// casing of the model (a ResponseWriter would sort them)
		hj, ok := w.(http.Hijacker)
		if !ok {
			http.Error(w, "no hijack", http.StatusInternalServerError)
			return
		}
		conn, buf, err := hj.Hijack()
		if err != nil {
			return
		}
		buf.WriteString("HTTP/1.1 204 No Content\r\nConnection: close\r\n")
		for _, f := range fields {
			buf.WriteString(SentName(f.N, f.C) + ": " + valueSent[f.V] + "\r\n")
		}
		buf.WriteString("\r\n")
		_ = buf.Flush()
		_ = conn.Close()
	case strings.HasPrefix(r.URL.Path, "/t/"), strings.HasPrefix(r.URL.Path, "/t2/"):
		second := strings.HasPrefix(r.URL.Path, "/t2/")
		body, _ := io.ReadAll(r.Body)
		x.mu.Lock()
		var att *Attempt
		for i, p := range x.pending {
			if p.clen == r.ContentLength && p.Path == r.URL.Path {
				att = p
				x.pending = append(x.pending[:i], x.pending[i+1:]...)
				break
			}
		}
		if att == nil {
			att = &Attempt{}
		}
		if isCompanionBody(body) || r.Header.Get("X-Fid-K") != "" {
			// the harness' own second message on the route: accept it, it is not an attempt of the journey's message
			att.WireHeader = r.Header.Clone()
			att.Body = body
			x.companions = append(x.companions, *att)
			x.mu.Unlock()
			w.WriteHeader(http.StatusOK)
			return
		}
		att.WireHeader = r.Header.Clone()
		att.Body = body
		att.Method = r.Method
		att.Path = r.URL.Path
		att.Outcome = x.outcome
		if x.outcome == "" {
			att.Unexpected = true
		}
		if second {
			x.fan = append(x.fan, *att)
		} else {
			x.attempts = append(x.attempts, *att)
		}
		first := x.inStep == 0
		x.inStep++
		between := x.between
		g := x.gate
		ch := x.arrived
		x.mu.Unlock()
		if g != nil && x.inStepReached() {
			g.Close() // no further dequeue by the dispatcher until the next Push step
		}
		if first && between != nil {
			between()
		}
		switch att.Outcome {
		case "ok":
			w.WriteHeader(http.StatusOK)
		case "fatal":
			w.WriteHeader(http.StatusBadRequest)
		default:
			w.WriteHeader(http.StatusServiceUnavailable)
		}
		select {
		case ch <- struct{}{}:
		default:
		}
	default:
		http.NotFound(w, r)
	}
}

// recordingRT records the request exactly as the HTTP deliverer built it and
// then sends it over a real connection.
type recordingRT struct {
	aux  *Aux
	base http.RoundTripper
}

func (t *recordingRT) RoundTrip(req *http.Request) (*http.Response, error) {
	if x := t.aux.lookup(req.URL.Path); x != nil && (strings.HasPrefix(req.URL.Path, "/t/") || strings.HasPrefix(req.URL.Path, "/t2/")) {
		x.mu.Lock()
		x.pending = append(x.pending, &Attempt{Header: req.Header.Clone(), clen: req.ContentLength, Path: req.URL.Path})
		x.mu.Unlock()
	}
	return t.base.RoundTrip(req)
}

// ---------------------------------------------------------------- gated stores (deliver routes)

// gate lets the harness decide when the push dispatcher may take the message:
// a scheduler hook at operation entry, it does not touch any data.  While the
// gate is closed the dispatcher's Dequeue finds nothing; while it is open the
// call goes to the real store without the long poll (so no call is in flight
// when the gate closes: Close waits for running calls).
type gate struct {
	mu   sync.RWMutex
	open bool
}

func (g *gate) Open() {
	g.mu.Lock()
	g.open = true
	g.mu.Unlock()
}

func (g *gate) Close() {
	g.mu.Lock()
	g.open = false
	g.mu.Unlock()
}

func (g *gate) pass(req queue.DequeueRequest, real func(queue.DequeueRequest) (queue.DequeueResponse, error)) (queue.DequeueResponse, error) {
	g.mu.RLock()
	if !g.open {
		g.mu.RUnlock()
		time.Sleep(time.Millisecond)
		return queue.DequeueResponse{}, nil
	}
	req.MaxWait = 0
	resp, err := real(req)
	g.mu.RUnlock()
	if err == nil && len(resp.Items) == 0 {
		time.Sleep(time.Millisecond)
	}
	return resp, err
}

type memGated struct {
	*queue.MemoryStore
	g *gate
}

func (m memGated) Dequeue(req queue.DequeueRequest) (queue.DequeueResponse, error) {
	return m.g.pass(req, m.MemoryStore.Dequeue)
}

type sqlGated struct {
	*queue.SQLiteStore
	g *gate
}

func (m sqlGated) Dequeue(req queue.DequeueRequest) (queue.DequeueResponse, error) {
	return m.g.pass(req, m.SQLiteStore.Dequeue)
}

// ---------------------------------------------------------------- configuration

const pullToken = "fid-pull-token"

// Names used when the route is managed (endpoint-scoped publish path).
const (
	mgApp      = "fidapp"
	mgEndpoint = "fidep"
	signSecret = "fid-sign-secret-0123456789"
)

// Route describes the route the message takes.
type Route struct {
	Backend, Mode        string
	Lim, Fwd             bool
	Managed, Fan, Signed bool
}

// ConfigText renders the Hookaidofile of one journey: the route the message
// takes (pull or deliver with one or two targets, optionally signed; optionally
// small limits; optionally forward auth with copy_headers; optionally
// management labels) and an auxiliary pull route, so that Pull API, worker gRPC
// and Admin API always exist.  adminListen is 127.0.0.3:0 for the instance and
// the real address in the copy an MCP server in admin-proxy mode reads.
func ConfigText(r Route, auxURL, jid, adminListen string) string {
	var b strings.Builder
	b.WriteString("ingress {\n  listen 127.0.0.1:0\n}\n")
	b.WriteString("pull_api {\n  listen 127.0.0.2:0\n  grpc_listen 127.0.0.4:0\n  auth token raw:" + pullToken + "\n}\n")
	b.WriteString("admin_api {\n  listen " + adminListen + "\n}\n")
	b.WriteString("delivered_retention {\n  max_age 1h\n}\n")
	b.WriteString("defaults {\n  egress {\n    https_only off\n    dns_rebind_protection off\n  }\n}\n")
	b.WriteString("/in {\n")
	fmt.Fprintf(&b, "  queue { backend %s }\n", r.Backend)
	if r.Managed {
		fmt.Fprintf(&b, "  application \"%s\"\n  endpoint_name \"%s\"\n", mgApp, mgEndpoint)
	}
	if r.Lim {
		fmt.Fprintf(&b, "  max_body %d\n  max_headers %d\n", LimBody, LimHeaders)
	}
	if r.Fwd {
		fmt.Fprintf(&b, "  auth forward \"%s/auth/%s\" {\n    timeout 5s\n    copy_headers \"%s\"\n    copy_headers \"%s\"\n  }\n",
			auxURL, jid, CanonName(nameLower["uid"]), nameLower["org"])
	}
	if r.Mode == "push" {
		targets := []string{"t"}
		if r.Fan {
			targets = []string{"t", "t2"}
		}
		for _, t := range targets {
			delay := "1ms"
			if r.Fan {
				delay = "150ms" // a copy that failed must not come back while the other copy of the same step is still under way
			}
			fmt.Fprintf(&b, "  deliver \"%s/%s/%s\" {\n    retry exponential max 20 base %s cap %s jitter 0\n    timeout 20s\n", auxURL, t, jid, delay, delay)
			if r.Signed {
				b.WriteString("    sign hmac raw:" + signSecret + "\n")
			}
			b.WriteString("  }\n")
		}
		b.WriteString("  deliver_concurrency 4\n")
	} else {
		b.WriteString("  pull { path /pull/in }\n")
	}
	b.WriteString("}\n")
	b.WriteString("/aux {\n")
	fmt.Fprintf(&b, "  queue { backend %s }\n", r.Backend)
	b.WriteString("  pull { path /pull/aux }\n}\n")
	return b.String()
}
