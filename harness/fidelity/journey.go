package fidelity

import (
	"bufio"
	"bytes"
	"context"
	"crypto/hmac"
	"crypto/sha256"
	"encoding/base64"
	"encoding/hex"
	"encoding/json"
	"errors"
	"fmt"
	"io"
	"net"
	"net/http"
	"net/http/httptest"
	"net/url"
	"os"
	"path/filepath"
	"regexp"
	"sort"
	"strconv"
	"strings"
	"sync"
	"time"

	"github.com/nuetzliches/hookaido/internal/app"
	"github.com/nuetzliches/hookaido/internal/dispatcher"
	"github.com/nuetzliches/hookaido/internal/mcp"
	"github.com/nuetzliches/hookaido/internal/queue"
	workerapipb "github.com/nuetzliches/hookaido/internal/workerapi/proto"
	"google.golang.org/grpc"
	"google.golang.org/grpc/credentials/insecure"
	"google.golang.org/grpc/metadata"
	"google.golang.org/protobuf/types/known/durationpb"
)

// Op is one operation of a generated schedule (the JSON vocabulary of FidelityMC).
type Op struct {
	Op      string  `json:"op"`
	Src     string  `json:"src,omitempty"`
	PC      string  `json:"pc,omitempty"`
	HC      string  `json:"hc,omitempty"`
	Be      string  `json:"be,omitempty"`
	Mode    string  `json:"mode,omitempty"`
	Via     string  `json:"via,omitempty"`
	Lim     bool    `json:"lim,omitempty"`
	Fwd     bool    `json:"fwd,omitempty"`
	Recv    []Field `json:"recv,omitempty"`
	Auth    []Field `json:"auth,omitempty"`
	Ch      string  `json:"ch,omitempty"`
	TTL     string  `json:"ttl,omitempty"`
	Kind    string  `json:"kind,omitempty"`
	Outcome string  `json:"outcome,omitempty"`
	Which   string  `json:"which,omitempty"`
	B       string  `json:"b,omitempty"`
	PB      string  `json:"pb,omitempty"`
	Form    string  `json:"form,omitempty"`
	K       string  `json:"k,omitempty"`
	Sz      string  `json:"sz,omitempty"`
	Fan     bool    `json:"fan,omitempty"`
	Sg      bool    `json:"sg,omitempty"`
	By      string  `json:"by,omitempty"`
}

type Schedule struct {
	Name string `json:"name"`
	Ops  []Op   `json:"ops"`
}

// Runner executes journeys one after the other and appends their events to Out.
type Runner struct {
	Aux      *Aux
	Seed     int64
	Scratch  string
	Out      *bufio.Writer
	Events   int
	Journeys int
}

type tok struct {
	S   string `json:"s"`
	Len int    `json:"len"`
}

type row struct {
	ID   string   `json:"id"`
	St   string   `json:"st"`
	PL   PL       `json:"pl"`
	H    []HV     `json:"h"`
	T    []HV     `json:"t"` // trace map
	Leak []string `json:"leak"`
}

// sibling is an item of the harness that travels in the same publish request as the message.
type sibling struct {
	ID      string
	Route   string
	Payload []byte
	Headers map[string]string
	Trace   map[string]string
}

type journey struct {
	r       *Runner
	jid     string
	in      Op
	payload []byte
	recv    []Field // as they reach hookaido (model fields + transport fields)
	secrets map[string]bool
	names   map[string]tok
	vals    map[string]tok
	sent    map[string]string // value token -> string as written by the sender
	maxBody int
	maxHdr  int

	cfgPath string
	dbPath  string
	inst    *app.VerifInstance
	own     bool // the store is built by the harness (deliver routes: gate)
	mem     *queue.MemoryStore
	sql     *queue.SQLiteStore
	g       *gate
	x       *aux
	conn    *grpc.ClientConn

	leaseID   string
	nextRun   time.Time
	msgIDs    []string // all stored copies of the message (two on a fan-out route)
	managed   bool     // the route carries management labels (endpoint-scoped Admin API paths)
	route     Route
	nmu       sync.Mutex // guards noise / nother (other traffic may run inside the push target's handler)
	msgID     string
	ncomp     int
	recvAt    time.Time         // received_at of the message (filter operations select it by "before")
	mtrace    map[string]string // trace map given with a published message
	sibs      []sibling
	nother    int
	seenNoise []noiseMsg
	noise     []noiseMsg               // interfering messages that were accepted, as they must be stored
	held      *workerapipb.DequeueItem // last result of the in-process worker call, still in the consumer's hands
}

var reSafe = regexp.MustCompile(`[^A-Za-z0-9]+`)

// Run executes one schedule.  Only infrastructure problems are returned as
// errors; whatever hookaido does is recorded.
func (r *Runner) Run(s Schedule) error {
	if len(s.Ops) == 0 || s.Ops[0].Op != "Submit" {
		return fmt.Errorf("schedule %s does not start with Submit", s.Name)
	}
	j := &journey{r: r, jid: reSafe.ReplaceAllString(s.Name, "x"), in: s.Ops[0]}
	defer j.cleanup()
	if err := j.start(s.Name); err != nil {
		return fmt.Errorf("%s: start: %w", s.Name, err)
	}
	for i, op := range s.Ops {
		var err error
		switch op.Op {
		case "Submit":
			err = j.submit()
		case "Deq":
			err = j.deq(op)
		case "LeaseOp":
			err = j.leaseOp(op)
		case "Expire":
			time.Sleep(shortTTL + 8*time.Millisecond)
			j.emit("Expire", nil, map[string]any{"ok": true})
		case "Requeue":
			err = j.requeue(op)
		case "Cancel", "Resume", "RequeueMsg":
			err = j.operator(op)
		case "Extend":
			err = j.extend(op)
		case "Other":
			err = j.other(op)
		case "Push":
			err = j.push(op.Outcome, "push", op.B)
		case "Restart":
			err = j.restart()
		case "List":
			err = j.list(op)
		default:
			err = fmt.Errorf("unknown op %q", op.Op)
		}
		if err != nil {
			return fmt.Errorf("%s: step %d (%s): %w", s.Name, i, op.Op, err)
		}
	}
	if err := j.storeAlias(); err != nil {
		return fmt.Errorf("%s: alias probe: %w", s.Name, err)
	}
	if err := j.scan(); err != nil {
		return fmt.Errorf("%s: scan: %w", s.Name, err)
	}
	r.Journeys++
	return nil
}

const shortTTL = 5 * time.Millisecond

// ---------------------------------------------------------------- set-up

func (j *journey) start(name string) error {
	in := j.in
	j.payload = Payload(in.PC, j.r.Seed, name)
	j.maxBody, j.maxHdr = DefBody, DefHeaders
	if in.Lim {
		j.maxBody, j.maxHdr = LimBody, LimHeaders
	}
	j.names = map[string]tok{}
	j.vals = map[string]tok{}
	j.sent = map[string]string{}
	j.secrets = map[string]bool{}

	j.recv = append([]Field{}, in.Recv...)
	if in.Via == "wire" {
		j.recv = append(j.recv, Field{N: "content-length", C: "canon", V: "clen"})
		j.sent["clen"] = strconv.Itoa(len(j.payload))
	}
	received := func(s string) string {
		if in.Via == "wire" || in.Via == "chunked" {
			return TrimOWS(s)
		}
		return s
	}
	addName := func(id string) {
		c := CanonName(nameLower[id])
		if _, ok := nameLower[id]; !ok {
			panic("unknown name identity " + id)
		}
		j.names[id] = tok{S: c, Len: len(c)}
	}
	for _, f := range j.recv {
		addName(f.N)
		if f.V == "pad" {
			continue
		}
		s, ok := j.sent[f.V]
		if !ok {
			if s, ok = valueSent[f.V]; !ok {
				return fmt.Errorf("unknown value token %q", f.V)
			}
			j.sent[f.V] = s
		}
		rs := received(s)
		j.vals[f.V] = tok{S: rs, Len: len(rs)}
		if _, sec := secretCore[f.V]; sec {
			j.secrets[f.V] = true
		}
	}
	for _, f := range in.Auth {
		addName(f.N)
		s, ok := valueSent[f.V]
		if !ok {
			return fmt.Errorf("unknown value token %q", f.V)
		}
		j.sent[f.V] = s
		j.vals[f.V] = tok{S: TrimOWS(s), Len: len(TrimOWS(s))}
	}
	for _, id := range []string{"uid", "org"} {
		addName(id)
	}
	// the pad value brings the size of what must be stored (sum of name and
	// value lengths) to max_headers - 1 / max_headers / max_headers + 1
	for _, f := range j.recv {
		if f.V != "pad" {
			continue
		}
		delta := map[string]int{"hmaxm1": -1, "hmax": 0, "hmaxp1": 1}[in.HC]
		other := 0
		for _, g := range j.recv {
			other += j.names[g.N].Len
			if g.V != "pad" {
				other += j.vals[g.V].Len
			}
		}
		n := j.maxHdr + delta - other
		if n < 0 {
			return fmt.Errorf("cannot pad header set of class %s", in.HC)
		}
		p := strings.Repeat("p", n)
		j.sent["pad"] = p
		j.vals["pad"] = tok{S: p, Len: n}
	}
	j.vals["_"] = tok{}

	j.x = &aux{auth: in.Auth, arrived: make(chan struct{}, 4)}
	j.r.Aux.register(j.jid, j.x)
	j.cfgPath = filepath.Join(j.r.Scratch, j.jid+".hk")
	j.dbPath = filepath.Join(j.r.Scratch, j.jid+".db")
	j.managed = in.Src == "mpublish"
	j.route = Route{Backend: in.Be, Mode: in.Mode, Lim: in.Lim, Fwd: in.Fwd, Managed: j.managed, Fan: in.Fan, Signed: in.Sg}
	cfg := ConfigText(j.route, j.r.Aux.URL(), j.jid, "127.0.0.3:0")
	if err := os.WriteFile(j.cfgPath, []byte(cfg), 0o644); err != nil {
		return err
	}
	j.own = in.Mode == "push"
	if err := j.boot(); err != nil {
		return err
	}
	// publish: trace map of the message (seeded choice) and the siblings of the request shape
	if in.Src != "ingress" {
		if pick(j.r.Seed, j.jid, "mtrace", 2) == 0 {
			j.mtrace = map[string]string{"trace_id": "m-" + j.jid, "origin": "fid m,1"}
		}
		with := sibling{ID: "sib_" + j.jid + "_with", Route: "/aux", Payload: []byte("sibling+\x00\xfe with headers " + j.jid),
			Headers: map[string]string{"X-Sib": "sibling one, with", "Content-Type": "text/x-sibling"},
			Trace:   map[string]string{"trace_id": "sib-with", "sib": "1"}}
		bare := sibling{ID: "sib_" + j.jid + "_bare", Route: "/aux", Payload: []byte("sibling- bare\xff " + j.jid)}
		if j.managed {
			with.Route, bare.Route = "/in", "/in"
		}
		switch in.PB {
		case "after":
			j.sibs = []sibling{with}
		case "before":
			j.sibs = []sibling{bare}
		case "middle":
			j.sibs = []sibling{with, bare}
		}
	}
	sibExp := []map[string]any{}
	for _, sb := range j.sibs {
		sibExp = append(sibExp, map[string]any{"id": sb.ID, "pl": Digest(sb.Payload, sb.Payload), "h": HeaderList(sb.Headers), "t": HeaderList(sb.Trace)})
	}
	copyNames := []string{"uid", "org"}
	if !in.Fwd {
		copyNames = []string{}
	}
	auth := in.Auth
	if auth == nil {
		auth = []Field{}
	}
	ev := map[string]any{
		"c": map[string]any{"src": in.Src, "pc": in.PC, "hc": in.HC, "be": in.Be, "mode": in.Mode, "via": in.Via,
			"lim": in.Lim, "fwd": in.Fwd, "pb": in.PB, "fan": in.Fan, "sg": in.Sg, "maxBody": j.maxBody, "maxHdr": j.maxHdr},
		"pl":        Digest(j.payload, j.payload),
		"recv":      j.recv,
		"auth":      auth,
		"copy":      copyNames,
		"names":     j.names,
		"vals":      j.vals,
		"name":      name,
		"mt":        HeaderList(j.mtrace),
		"signnames": []string{CanonName(nameLower["sig"]), CanonName(nameLower["sigts"])},
		"xsibs":     sibExp,
	}
	j.emitRaw("Start", ev)
	return nil
}

func (j *journey) boot() error {
	opts := app.VerifOptions{ConfigPath: j.cfgPath, DBPath: j.dbPath}
	if j.own {
		if j.g == nil {
			j.g = &gate{}
			j.x.mu.Lock()
			j.x.gate = j.g
			j.x.mu.Unlock()
		}
		j.g.Close()
		limits := pick(j.r.Seed, j.jid, "limits", 2) == 0
		switch j.in.Be {
		case "memory":
			if j.mem == nil {
				if limits {
					j.mem = queue.NewMemoryStore(queue.WithDeliveredRetention(time.Hour), queue.WithQueueLimits(10000, "reject"))
				} else {
					j.mem = queue.NewMemoryStore(queue.WithDeliveredRetention(time.Hour))
				}
			}
			opts.Store = memGated{MemoryStore: j.mem, g: j.g}
		case "sqlite":
			sopts := []queue.SQLiteOption{queue.WithSQLiteDeliveredRetention(time.Hour)}
			if limits {
				sopts = append(sopts, queue.WithSQLiteQueueLimits(10000, "reject"))
			}
			s, err := queue.NewSQLiteStore(j.dbPath, sopts...)
			if err != nil {
				return err
			}
			j.sql = s
			opts.Store = sqlGated{SQLiteStore: s, g: j.g}
		}
		client := &http.Client{Transport: j.r.Aux.rt}
		opts.Deliverer = dispatcher.NewHTTPDeliverer(client, dispatcher.EgressPolicy{})
	}
	inst, err := app.VerifBoot(opts)
	if err != nil {
		return err
	}
	j.inst = inst
	if !j.own {
		switch s := inst.Store.(type) {
		case *queue.MemoryStore:
			j.mem = s
		case *queue.SQLiteStore:
			j.sql = s
		default:
			return fmt.Errorf("unexpected store type %T", inst.Store)
		}
	}
	for _, n := range []string{"ingress", "pull_api", "admin_api"} {
		if inst.Handlers[n] == nil {
			return fmt.Errorf("handler %s missing", n)
		}
	}
	if inst.Addrs["grpc"] == "" || inst.Worker == nil {
		return errors.New("worker gRPC listener missing")
	}
	return nil
}

func (j *journey) stop() {
	if j.conn != nil {
		_ = j.conn.Close()
		j.conn = nil
	}
	if j.inst != nil {
		j.inst.Stop()
		j.inst = nil
	}
	if j.sql != nil {
		if j.own {
			_ = j.sql.Close()
		}
		j.sql = nil
	}
}

func (j *journey) cleanup() {
	j.stop()
	j.r.Aux.unregister(j.jid)
	for _, suf := range []string{"", "-wal", "-shm", "-journal"} {
		_ = os.Remove(j.dbPath + suf)
	}
	_ = os.Remove(j.cfgPath)
}

// ---------------------------------------------------------------- events

func (j *journey) dump() (rows []row, sibs []row, other int, err error) {
	j.seenNoise = j.seenNoise[:0]
	var raw []queue.VerifRow
	switch {
	case j.sql != nil:
		raw, err = j.sql.VerifDump()
		if err != nil {
			return nil, nil, 0, err
		}
	case j.mem != nil:
		raw = j.mem.VerifDump()
	}
	rows, sibs = []row{}, []row{}
	for _, vr := range raw {
		e := vr.Env
		if strings.HasPrefix(e.ID, compPrefix) {
			continue
		}
		h := HeaderList(e.Headers)
		if strings.HasPrefix(e.ID, "sib_") {
			var want []byte
			for _, sb := range j.sibs {
				if sb.ID == e.ID {
					want = sb.Payload
				}
			}
			sibs = append(sibs, row{ID: e.ID, St: string(e.State), PL: Digest(e.Payload, want), H: h, T: HeaderList(e.Trace), Leak: []string{}})
			continue
		}
		if e.Route == "/aux" {
			// interfering traffic: published noise carries a given trace map, ingress noise the handler's own
			p := Digest(e.Payload, e.Payload)
			nm := noiseMsg{D: p.D, N: p.N, H: mapDigest(e.Headers)}
			if strings.HasPrefix(e.ID, "oth_") {
				nm.H = mapDigest(e.Headers, e.Trace)
			}
			j.seenNoise = append(j.seenNoise, nm)
			continue
		}
		if e.Route != "/in" {
			other++
			continue
		}
		texts := append(headerTexts(h), e.ID, e.Target, e.DeadReason, string(e.Payload))
		for k, v := range e.Trace {
			texts = append(texts, k, v)
		}
		rows = append(rows, row{ID: e.ID, St: string(e.State), PL: Digest(e.Payload, j.payload), H: h, T: HeaderList(e.Trace),
			Leak: Leaks(j.secrets, texts...)})
		if e.ReceivedAt.After(j.recvAt) {
			j.recvAt = e.ReceivedAt
		}
		if e.NextRunAt.After(j.nextRun) {
			j.nextRun = e.NextRunAt
		}
	}
	return rows, sibs, other, nil
}

func (j *journey) emitRaw(ev string, fields map[string]any) {
	// what the in-process consumer was handed one step ago must not have moved under other activity; after that
	// look the consumer scribbles over it, which in turn must not reach the store (the dump below)
	held := map[string]any{"n": 0, "pl": PL{D: "", N: 0, Diff: -1}, "h": []HV{}}
	if j.held != nil {
		held = map[string]any{"n": 1, "pl": Digest(j.held.GetPayload(), j.payload), "h": HeaderList(j.held.GetHeaders())}
		scribble(j.held)
		j.held = nil
	}
	fields["held"] = held
	rows, sibs, other, err := j.dump()
	if err != nil {
		fields["dumperr"] = err.Error()
		rows, sibs = []row{}, []row{}
	}
	fields["tr"] = j.jid
	fields["ev"] = ev
	fields["dump"] = rows
	fields["sibs"] = sibs
	fields["other"] = other
	seen := append([]noiseMsg{}, j.seenNoise...)
	j.nmu.Lock()
	want := append([]noiseMsg{}, j.noise...)
	j.nmu.Unlock()
	sortNoise(seen)
	sortNoise(want)
	fields["noise"] = seen
	fields["nwant"] = want
	b, err := json.Marshal(fields)
	if err != nil {
		panic(err)
	}
	j.r.Out.Write(ASCIIJSON(b))
	j.r.Out.WriteByte('\n')
	j.r.Events++
	if len(rows) >= 1 {
		j.msgID = rows[0].ID
		j.msgIDs = j.msgIDs[:0]
		for _, r := range rows {
			j.msgIDs = append(j.msgIDs, r.ID)
		}
	}
}

func (j *journey) emit(ev string, a map[string]any, r map[string]any) {
	if a == nil {
		a = map[string]any{"_": 0}
	}
	j.emitRaw(ev, map[string]any{"a": a, "r": r})
}

// obs is what one observation point saw.
func (j *journey) obs(errText string, n int, payload []byte, h []HV, extra map[string]any) map[string]any {
	if h == nil {
		h = []HV{}
	}
	r := map[string]any{"err": errText, "n": n, "pl": Digest(payload, j.payload), "h": h, "leak": Leaks(j.secrets, headerTexts(h)...)}
	if n == 0 {
		r["pl"] = PL{D: "", N: 0, Diff: -1}
	}
	r["f"] = noF()
	for k, v := range extra {
		r[k] = v
	}
	return r
}

// ---------------------------------------------------------------- submit

func (j *journey) sentValue(f Field) string { return j.sent[f.V] }

func (j *journey) submit() error {
	in := j.in
	status := 0
	errText := ""
	var lines [][2]string // header lines in the order and spelling of the sender
	for _, f := range in.Recv {
		lines = append(lines, [2]string{SentName(f.N, f.C), j.sentValue(f)})
	}
	switch in.Via {
	case "handler", "stream", "wire", "chunked":
		var err error
		status, err = j.ingressSend(in.Via, "/in", j.payload, lines)
		if err != nil {
			errText = err.Error()
		}
	case "api":
		item := map[string]any{"id": "pub_" + j.jid}
		if !j.managed {
			item["route"] = "/in" // the endpoint-scoped path takes route and target from the URL
		}
		if len(j.payload) > 0 || pick(j.r.Seed, j.jid, "emptyb64", 2) == 0 {
			item["payload_b64"] = base64.StdEncoding.EncodeToString(j.payload)
		}
		if len(in.Recv) > 0 {
			h := map[string]string{}
			for _, f := range in.Recv {
				h[SentName(f.N, f.C)] = j.sentValue(f)
			}
			item["headers"] = h
		}
		if j.mtrace != nil {
			item["trace"] = j.mtrace
		}
		sibItem := func(sb sibling) map[string]any {
			it := map[string]any{"id": sb.ID, "payload_b64": base64.StdEncoding.EncodeToString(sb.Payload)}
			if j.managed {
				// same route as the message: a received_at (= next_run_at) far in the future keeps it from being
				// offered to consumers and out of the operator filters of the journey
				it["received_at"] = "2099-01-01T00:00:00Z"
			} else {
				it["route"] = sb.Route
			}
			if sb.Headers != nil {
				it["headers"] = sb.Headers
			}
			if sb.Trace != nil {
				it["trace"] = sb.Trace
			}
			return it
		}
		items := []any{item}
		switch in.PB {
		case "after":
			items = []any{sibItem(j.sibs[0]), item}
		case "before":
			items = []any{item, sibItem(j.sibs[0])}
		case "middle":
			items = []any{sibItem(j.sibs[0]), item, sibItem(j.sibs[1])}
		}
		if in.Src == "mcp" {
			// the MCP tool messages_publish: direct SQLite mode (SQLite) or admin-proxy mode (memory)
			res, isErr, err := j.mcpCall("messages_publish", map[string]any{"items": items, "reason": "fidelity check"})
			switch {
			case err != nil:
				status, errText = 0, err.Error()
			case !isErr:
				status = 200
			case strings.Contains(res, "exceed"):
				status, errText = 413, res
			default:
				status, errText = 500, res
			}
			if len(errText) > 300 {
				errText = errText[:300]
			}
			break
		}
		body, _ := json.Marshal(map[string]any{"items": items})
		req := httptest.NewRequest(http.MethodPost, "http://admin.test"+j.publishPath(), bytes.NewReader(body))
		req.Header.Set("Content-Type", "application/json")
		req.Header.Set("X-Hookaido-Audit-Reason", "fidelity check")
		rec := httptest.NewRecorder()
		j.inst.Handlers["admin_api"].ServeHTTP(rec, req)
		status = rec.Code
		if status != 200 {
			errText = strings.TrimSpace(rec.Body.String())
			if len(errText) > 200 {
				errText = errText[:200]
			}
		}
	default:
		return fmt.Errorf("unknown via %q", in.Via)
	}
	j.x.mu.Lock()
	seen := j.x.authSeen
	j.x.mu.Unlock()
	j.emit("Submit", nil, map[string]any{"status": status, "err": errText, "authcalls": seen})
	return nil
}

// submitWire writes the request byte by byte on a real connection to the
// production ingress listener: header names in the casing of the model.
// ingressSend delivers one request to the ingress of the instance.
//
//	handler  in-process, known length            wire     raw bytes on the real listener, Content-Length
//	stream   in-process, unknown length          chunked  raw bytes on the real listener, Transfer-Encoding: chunked
func (j *journey) ingressSend(via, path string, payload []byte, lines [][2]string) (int, error) {
	switch via {
	case "handler", "stream":
		var rd io.Reader = bytes.NewReader(payload)
		if via == "stream" {
			rd = struct{ io.Reader }{rd} // hides the length: no Content-Length at all
		}
		req := httptest.NewRequest(http.MethodPost, "http://fid.test"+path, rd)
		if via == "stream" {
			req.ContentLength = -1
			req.TransferEncoding = []string{"chunked"}
		}
		req.Header = http.Header{}
		for _, l := range lines {
			// a server hands the handler canonical names, whatever the client wrote
			k := CanonName(l[0])
			req.Header[k] = append(req.Header[k], l[1])
		}
		rec := httptest.NewRecorder()
		j.inst.Handlers["ingress"].ServeHTTP(rec, req)
		return rec.Code, nil
	case "wire", "chunked":
		return j.sendWire(via == "chunked", path, payload, lines)
	}
	return 0, fmt.Errorf("unknown via %q", via)
}

// sendWire writes the request byte by byte on a real connection to the
// production ingress listener: header names in the spelling of the sender.
func (j *journey) sendWire(chunked bool, path string, payload []byte, lines [][2]string) (int, error) {
	addr := j.inst.Addrs["ingress"]
	conn, err := net.DialTimeout("tcp", addr, 5*time.Second)
	if err != nil {
		return 0, err
	}
	defer conn.Close()
	_ = conn.SetDeadline(time.Now().Add(60 * time.Second))
	var hb bytes.Buffer
	if chunked {
		fmt.Fprintf(&hb, "POST %s HTTP/1.1\r\nHost: fid.test\r\nTransfer-Encoding: chunked\r\n", path)
	} else {
		fmt.Fprintf(&hb, "POST %s HTTP/1.1\r\nHost: fid.test\r\nContent-Length: %d\r\n", path, len(payload))
	}
	for _, l := range lines {
		fmt.Fprintf(&hb, "%s: %s\r\n", l[0], l[1])
	}
	hb.WriteString("\r\n")
	body := payload
	if chunked {
		// no declared length: chunks of uneven sizes, then the last-chunk
		var cb bytes.Buffer
		sizes := []int{1, 7, 1024, 3, 64 << 10}
		for i, k := 0, 0; i < len(body); k++ {
			n := sizes[k%len(sizes)]
			if n > len(body)-i {
				n = len(body) - i
			}
			fmt.Fprintf(&cb, "%x\r\n", n)
			cb.Write(body[i : i+n])
			cb.WriteString("\r\n")
			i += n
		}
		cb.WriteString("0\r\n\r\n")
		body = cb.Bytes()
	}
	done := make(chan struct{})
	go func() {
		defer close(done)
		if _, err := conn.Write(hb.Bytes()); err != nil {
			return
		}
		_, _ = conn.Write(body)
	}()
	resp, err := http.ReadResponse(bufio.NewReader(conn), nil)
	if err != nil {
		<-done
		return 0, err
	}
	_, _ = io.Copy(io.Discard, resp.Body)
	resp.Body.Close()
	<-done
	return resp.StatusCode, nil
}

// ---------------------------------------------------------------- other traffic

// noiseMsg is one message of the interfering traffic as it must be stored.
type noiseMsg struct {
	D string `json:"d"`
	N int    `json:"n"`
	H string `json:"h"` // digest of the header map (and of the given trace map for published noise)
}

func mapDigest(ms ...map[string]string) string {
	h := sha256.New()
	for _, m := range ms {
		keys := make([]string, 0, len(m))
		for k := range m {
			keys = append(keys, k)
		}
		sort.Strings(keys)
		for _, k := range keys {
			fmt.Fprintf(h, "%d:%s=%d:%s;", len(k), k, len(m[k]), m[k])
		}
		h.Write([]byte("|"))
	}
	return hex.EncodeToString(h.Sum(nil))[:16]
}

func sortNoise(n []noiseMsg) {
	sort.Slice(n, func(a, b int) bool {
		if n[a].D != n[b].D {
			return n[a].D < n[b].D
		}
		return n[a].H < n[b].H
	})
}

// other sends traffic that has nothing to do with the followed message through the same instance: requests to the
// auxiliary route with bodies as long as / longer than / shorter than the message's, carrying the same header names
// with other values, over any framing, or a publish batch.  Nothing of it may show in the followed message, and the
// other messages must be stored as sent, too.
func (j *journey) other(op Op) error {
	sent, accepted := j.otherTraffic(op, 0)
	j.emit("Other", map[string]any{"k": op.K, "sz": op.Sz}, map[string]any{"sent": sent, "accepted": accepted})
	return nil
}

func (j *journey) otherTraffic(op Op, max int) (int, int) {
	j.nmu.Lock()
	defer j.nmu.Unlock()
	reps := 3
	if max > 0 {
		reps = max
	}
	if len(j.payload) > 64<<10 {
		reps = 1
	}
	sent, accepted := 0, 0
	for i := 0; i < reps; i++ {
		j.nother++
		size := len(j.payload)
		switch op.Sz {
		case "longer":
			size += 17 + 3*i
		case "shorter":
			size -= 5 + 3*i
			if size < 0 {
				size = 0
			}
		}
		body := randBytes(j.r.Seed, fmt.Sprintf("%s/other/%d", j.jid, j.nother), size)
		hdr := map[string]string{"X-Noise": fmt.Sprintf("n%d", j.nother), CanonName(nameLower["a"]): fmt.Sprintf("noise-a-%d", j.nother),
			"Content-Type": "application/x-noise"}
		sent++
		if op.K == "publish" {
			// a batch of two: the second item without headers and trace
			id := fmt.Sprintf("oth_%s_%d", j.jid, j.nother)
			tr := map[string]string{"noise": fmt.Sprintf("t%d", j.nother)}
			body2 := randBytes(j.r.Seed, fmt.Sprintf("%s/other2/%d", j.jid, j.nother), size/2)
			items := []any{
				map[string]any{"id": id + "a", "route": "/aux", "payload_b64": base64.StdEncoding.EncodeToString(body), "headers": hdr, "trace": tr},
				map[string]any{"id": id + "b", "route": "/aux", "payload_b64": base64.StdEncoding.EncodeToString(body2)},
			}
			b, _ := json.Marshal(map[string]any{"items": items})
			code, _ := j.admin(http.MethodPost, "/messages/publish", string(b))
			if code == 200 {
				accepted++
				p1, p2 := Digest(body, body), Digest(body2, body2)
				j.noise = append(j.noise, noiseMsg{D: p1.D, N: p1.N, H: mapDigest(hdr, tr)}, noiseMsg{D: p2.D, N: p2.N, H: mapDigest(nil, nil)})
			}
			continue
		}
		var lines [][2]string
		for _, k := range []string{"X-Noise", CanonName(nameLower["a"]), "Content-Type"} {
			lines = append(lines, [2]string{k, hdr[k]})
		}
		code, err := j.ingressSend(op.K, "/aux", body, lines)
		if err == nil && code >= 200 && code <= 299 {
			accepted++
			if op.K == "wire" {
				hdr["Content-Length"] = strconv.Itoa(len(body))
			}
			p := Digest(body, body)
			j.noise = append(j.noise, noiseMsg{D: p.D, N: p.N, H: mapDigest(hdr)})
		}
	}
	return sent, accepted
}

// ---------------------------------------------------------------- pull side

func (j *journey) grpcClient() (workerapipb.WorkerServiceClient, error) {
	if j.conn == nil {
		c, err := grpc.NewClient(j.inst.Addrs["grpc"], grpc.WithTransportCredentials(insecure.NewCredentials()),
			grpc.WithDefaultCallOptions(grpc.MaxCallRecvMsgSize(32<<20)))
		if err != nil {
			return nil, err
		}
		j.conn = c
	}
	return workerapipb.NewWorkerServiceClient(j.conn), nil
}

func grpcCtx() (context.Context, context.CancelFunc) {
	ctx, cancel := context.WithTimeout(context.Background(), 20*time.Second)
	return metadata.AppendToOutgoingContext(ctx, "authorization", "Bearer "+pullToken), cancel
}

func (j *journey) pullHTTP(op string, body string) (int, []byte) {
	req := httptest.NewRequest(http.MethodPost, "http://pull.test/pull/in/"+op, strings.NewReader(body))
	req.Header.Set("Authorization", "Bearer "+pullToken)
	req.Header.Set("Content-Type", "application/json")
	rec := httptest.NewRecorder()
	j.inst.Handlers["pull_api"].ServeHTTP(rec, req)
	return rec.Code, rec.Body.Bytes()
}

type deqItem struct {
	enc     string
	payload []byte
	headers map[string]string
	lease   string
	attempt int
	id      string
	raw     *workerapipb.DequeueItem
}

type deqResult struct {
	err   string
	items []deqItem
}

func decodeB64(s *string) ([]byte, string) {
	if s == nil {
		return nil, "payload_b64 missing"
	}
	p, err := base64.StdEncoding.DecodeString(*s)
	if err != nil {
		return []byte(*s), "payload_b64 is not standard base64"
	}
	return p, ""
}

func (j *journey) deqOnce(ch string, ttl time.Duration, batch int) (deqResult, error) {
	var d deqResult
	switch ch {
	case "http":
		code, body := j.pullHTTP("dequeue", fmt.Sprintf(`{"batch":%d,"lease_ttl":"%s"}`, batch, ttl))
		if code != 200 {
			d.err = fmt.Sprintf("status %d", code)
			return d, nil
		}
		var out struct {
			Items []struct {
				ID         string            `json:"id"`
				LeaseID    string            `json:"lease_id"`
				Attempt    int               `json:"attempt"`
				PayloadB64 *string           `json:"payload_b64"`
				Headers    map[string]string `json:"headers"`
			} `json:"items"`
		}
		if err := json.Unmarshal(body, &out); err != nil {
			d.err = "response is not JSON: " + err.Error()
			return d, nil
		}
		for _, it := range out.Items {
			p, enc := decodeB64(it.PayloadB64)
			d.items = append(d.items, deqItem{id: it.ID, lease: it.LeaseID, attempt: it.Attempt, headers: it.Headers, payload: p, enc: enc})
		}
	case "grpc":
		cl, err := j.grpcClient()
		if err != nil {
			return d, err
		}
		ctx, cancel := grpcCtx()
		resp, err := cl.Dequeue(ctx, &workerapipb.DequeueRequest{Endpoint: "/pull/in", Batch: uint32(batch), LeaseTtl: durationpb.New(ttl)})
		cancel()
		if err != nil {
			d.err = "grpc: " + err.Error()
			return d, nil
		}
		for _, it := range resp.GetItems() {
			d.items = append(d.items, deqItem{id: it.GetId(), lease: it.GetLeaseId(), attempt: int(it.GetAttempt()), headers: it.GetHeaders(), payload: it.GetPayload()})
		}
	case "inproc":
		ctx := metadata.NewIncomingContext(context.Background(), metadata.Pairs("authorization", "Bearer "+pullToken))
		resp, err := j.inst.Worker.Dequeue(ctx, &workerapipb.DequeueRequest{Endpoint: "/pull/in", Batch: uint32(batch), LeaseTtl: durationpb.New(ttl)})
		if err != nil {
			d.err = "inproc: " + err.Error()
			return d, nil
		}
		for _, it := range resp.GetItems() {
			h := map[string]string{}
			for k, v := range it.GetHeaders() {
				h[k] = v
			}
			d.items = append(d.items, deqItem{id: it.GetId(), lease: it.GetLeaseId(), attempt: int(it.GetAttempt()), headers: h,
				payload: append([]byte(nil), it.GetPayload()...), raw: it})
		}
	default:
		return d, fmt.Errorf("unknown channel %q", ch)
	}
	return d, nil
}

// scribble overwrites everything a consumer of the in-process worker API was handed.
func scribble(it *workerapipb.DequeueItem) {
	p := it.Payload
	for i := range p {
		p[i] ^= 0xff
	}
	if cap(p) > len(p) {
		p = p[:cap(p)]
		for i := range p {
			p[i] = 'X'
		}
	}
	for k := range it.Headers {
		it.Headers[k] = "scribbled"
	}
	if it.Headers != nil {
		it.Headers["X-Fid-Injected"] = "1"
	}
	for k := range it.Trace {
		it.Trace[k] = "scribbled"
	}
}

// ---------------------------------------------------------------- companion message

const compPrefix = "comp_"

var compHeaders = map[string]string{"X-Fid-K": "k v,1", "Content-Type": "application/x-companion"}

func (j *journey) compPayload(n int) []byte {
	return []byte(fmt.Sprintf("fid-companion\x00\xff\xfe %s #%d \r\n\x00", j.jid, n))
}

func isCompanionBody(b []byte) bool { return bytes.HasPrefix(b, []byte("fid-companion\x00\xff\xfe ")) }

// publishCompanion stores a second message on the same route, so that a batch
// request finds two ready messages (the store then reads them on its
// multi-row path).
func (j *journey) publishCompanion() (string, []byte, error) {
	j.ncomp++
	id := fmt.Sprintf("%s%s_%d", compPrefix, j.jid, j.ncomp)
	p := j.compPayload(j.ncomp)
	item := map[string]any{"id": id, "payload_b64": base64.StdEncoding.EncodeToString(p), "headers": compHeaders}
	if !j.managed {
		item["route"] = "/in"
	}
	if j.in.Fan {
		item["target"] = j.r.Aux.URL() + "/t/" + j.jid // a route with several targets wants the target named
	}
	body, _ := json.Marshal(map[string]any{"items": []any{item}})
	code, resp := j.admin(http.MethodPost, j.publishPath(), string(body))
	if code != 200 {
		return "", nil, fmt.Errorf("companion publish: status %d %s", code, strings.TrimSpace(string(resp)))
	}
	return id, p, nil
}

func (j *journey) scoped(suffix string) string {
	return "/applications/" + mgApp + "/endpoints/" + mgEndpoint + suffix
}

// publishPath: the global publish path, or the endpoint-scoped one on a managed route
func (j *journey) publishPath() string {
	if j.managed {
		return j.scoped("/messages/publish")
	}
	return "/messages/publish"
}

// mcpCall runs one tool call on an MCP server built like `hookaido mcp` builds it (role operate, mutations on).  On
// the SQLite backend it works on the database file itself (direct mode, next to the running instance); on the memory
// backend it reads a copy of the configuration that names the real admin listener and proxies to the Admin API.
func (j *journey) mcpCall(tool string, args map[string]any) (string, bool, error) {
	cfgPath, dbPath := j.cfgPath, j.dbPath
	if j.in.Be == "memory" {
		cfgPath = j.cfgPath + ".mcp"
		if err := os.WriteFile(cfgPath, []byte(ConfigText(j.route, j.r.Aux.URL(), j.jid, j.inst.Addrs["admin_api"])), 0o644); err != nil {
			return "", false, err
		}
		defer os.Remove(cfgPath)
		dbPath = ""
	}
	req := map[string]any{"jsonrpc": "2.0", "id": 1, "method": "tools/call", "params": map[string]any{"name": tool, "arguments": args}}
	payload, _ := json.Marshal(req)
	var in bytes.Buffer
	fmt.Fprintf(&in, "Content-Length: %d\r\n\r\n", len(payload))
	in.Write(payload)
	var out bytes.Buffer
	srv := mcp.NewServer(&in, &out, cfgPath, dbPath, mcp.WithRole(mcp.RoleOperate), mcp.WithPrincipal("fidelity"),
		mcp.WithMutationsEnabled(true), mcp.WithAuditWriter(io.Discard), mcp.WithAdminProxyEndpointAllowlist(nil))
	if err := srv.Serve(context.Background()); err != nil {
		return "", false, err
	}
	raw := out.Bytes()
	if i := bytes.Index(raw, []byte("\r\n\r\n")); i >= 0 {
		raw = raw[i+4:]
	}
	var rep struct {
		Result struct {
			Content []struct {
				Text string `json:"text"`
			} `json:"content"`
			Structured json.RawMessage `json:"structuredContent"`
			IsError    bool            `json:"isError"`
		} `json:"result"`
		Error *struct {
			Message string `json:"message"`
		} `json:"error"`
	}
	if err := json.Unmarshal(raw, &rep); err != nil {
		return "", false, fmt.Errorf("mcp reply: %w", err)
	}
	if rep.Error != nil {
		return rep.Error.Message, true, nil
	}
	text := string(rep.Result.Structured)
	if len(rep.Result.Structured) == 0 && len(rep.Result.Content) > 0 {
		text = rep.Result.Content[0].Text
	}
	return text, rep.Result.IsError, nil
}

func (j *journey) cancelCompanion(id string) {
	_, _ = j.admin(http.MethodPost, "/messages/cancel", fmt.Sprintf(`{"ids":[%q]}`, id))
}

// kObs describes what was seen of the companion.
func kObs(want int, got [][]byte, hdrs []map[string]string, sentPayload []byte) map[string]any {
	k := map[string]any{"want": want, "n": len(got), "pl": PL{D: "", N: 0, Diff: -1}, "wpl": PL{D: "", N: 0, Diff: -1},
		"h": []HV{}, "sent": HeaderList(compHeaders)}
	if sentPayload != nil {
		k["wpl"] = Digest(sentPayload, sentPayload)
	}
	if len(got) > 0 {
		k["pl"] = Digest(got[0], sentPayload)
		k["h"] = HeaderList(hdrs[0])
	}
	return k
}

func (j *journey) deq(op Op) error {
	ttl := 30 * time.Second
	if op.TTL == "short" {
		ttl = shortTTL
	}
	batch := 1
	if op.B == "alone" || op.B == "pair" {
		batch = 5
	}
	compID := ""
	var compP []byte
	if op.B == "pair" {
		var err error
		if compID, compP, err = j.publishCompanion(); err != nil {
			return err
		}
	}
	var d deqResult
	var err error
	tries := 0
	deadline := time.Now().Add(3 * time.Second)
	for {
		tries++
		d, err = j.deqOnce(op.Ch, ttl, batch)
		if err != nil {
			return err
		}
		if len(d.items) > 0 || d.err != "" || time.Now().After(deadline) {
			break
		}
		time.Sleep(3 * time.Millisecond)
	}
	var m deqItem
	var hold *workerapipb.DequeueItem
	n := 0
	var kp [][]byte
	var kh []map[string]string
	mutated := false
	for _, it := range d.items {
		if strings.HasPrefix(it.id, compPrefix) {
			kp = append(kp, it.payload)
			kh = append(kh, it.headers)
		} else {
			if n == 0 {
				m = it
			}
			n++
		}
		if it.raw != nil {
			mutated = true
			if strings.HasPrefix(it.id, compPrefix) || hold != nil {
				scribble(it.raw)
			} else {
				hold = it.raw // stays in the consumer's hands for one more step, then it is scribbled over (emitRaw)
			}
		}
	}
	if n > 0 {
		j.leaseID = m.lease
	}
	if compID != "" {
		j.cancelCompanion(compID)
	}
	want := 0
	if compID != "" {
		want = 1
	}
	j.emit("Deq", map[string]any{"ch": op.Ch, "ttl": op.TTL, "b": op.B},
		j.obs(d.err, n, m.payload, HeaderList(m.headers), map[string]any{"att": m.attempt, "tries": tries, "mutated": mutated, "enc": m.enc,
			"k": kObs(want, kp, kh, compP)}))
	j.held = hold
	return nil
}

func (j *journey) leaseOp(op Op) error {
	ok := false
	detail := ""
	batch := op.Form == "batch"
	switch op.Ch {
	case "http":
		var code int
		var body []byte
		idField := fmt.Sprintf(`"lease_id":%q`, j.leaseID)
		if batch {
			idField = fmt.Sprintf(`"lease_ids":[%q]`, j.leaseID)
		}
		switch op.Kind {
		case "ack":
			code, body = j.pullHTTP("ack", "{"+idField+"}")
		case "nack":
			code, body = j.pullHTTP("nack", "{"+idField+`,"delay":"0s"}`)
		case "dead":
			code, body = j.pullHTTP("nack", "{"+idField+`,"dead":true,"reason":"fidelity"}`)
		}
		ok = code == 204 || code == 200
		if !ok {
			detail = fmt.Sprintf("status %d %s", code, strings.TrimSpace(string(body)))
		}
	case "grpc":
		cl, err := j.grpcClient()
		if err != nil {
			return err
		}
		ctx, cancel := grpcCtx()
		single, many := j.leaseID, []string(nil)
		if batch {
			single, many = "", []string{j.leaseID}
		}
		conflicts := 0
		switch op.Kind {
		case "ack":
			var r *workerapipb.AckResponse
			r, err = cl.Ack(ctx, &workerapipb.AckRequest{Endpoint: "/pull/in", LeaseId: single, LeaseIds: many})
			conflicts = len(r.GetConflicts())
		case "nack":
			var r *workerapipb.NackResponse
			r, err = cl.Nack(ctx, &workerapipb.NackRequest{Endpoint: "/pull/in", LeaseId: single, LeaseIds: many, Delay: durationpb.New(0)})
			conflicts = len(r.GetConflicts())
		case "dead":
			var r *workerapipb.NackResponse
			r, err = cl.Nack(ctx, &workerapipb.NackRequest{Endpoint: "/pull/in", LeaseId: single, LeaseIds: many, Dead: true, Reason: "fidelity"})
			conflicts = len(r.GetConflicts())
		}
		cancel()
		ok = err == nil && conflicts == 0
		if err != nil {
			detail = err.Error()
		} else if conflicts > 0 {
			detail = "lease conflict"
		}
	default:
		return fmt.Errorf("unknown lease channel %q", op.Ch)
	}
	if len(detail) > 200 {
		detail = detail[:200]
	}
	j.emit("LeaseOp", map[string]any{"kind": op.Kind, "ch": op.Ch, "form": op.Form}, map[string]any{"ok": ok, "detail": detail})
	return nil
}

func (j *journey) extend(op Op) error {
	ok := false
	detail := ""
	switch op.Ch {
	case "http":
		code, body := j.pullHTTP("extend", fmt.Sprintf(`{"lease_id":%q,"extend_by":"45s"}`, j.leaseID))
		ok = code == 204 || code == 200
		if !ok {
			detail = fmt.Sprintf("status %d %s", code, strings.TrimSpace(string(body)))
		}
	case "grpc":
		cl, err := j.grpcClient()
		if err != nil {
			return err
		}
		ctx, cancel := grpcCtx()
		_, err = cl.Extend(ctx, &workerapipb.ExtendRequest{Endpoint: "/pull/in", LeaseId: j.leaseID, ExtendBy: durationpb.New(45 * time.Second)})
		cancel()
		ok = err == nil
		if err != nil {
			detail = err.Error()
		}
	default:
		return fmt.Errorf("unknown lease channel %q", op.Ch)
	}
	if len(detail) > 200 {
		detail = detail[:200]
	}
	j.emit("Extend", map[string]any{"ch": op.Ch}, map[string]any{"ok": ok, "detail": detail})
	return nil
}

// ---------------------------------------------------------------- operator side

func (j *journey) admin(method, target string, body string) (int, []byte) {
	var rd io.Reader
	if body != "" {
		rd = strings.NewReader(body)
	}
	req := httptest.NewRequest(method, "http://admin.test"+target, rd)
	if body != "" {
		req.Header.Set("Content-Type", "application/json")
	}
	req.Header.Set("X-Hookaido-Audit-Reason", "fidelity check")
	rec := httptest.NewRecorder()
	j.inst.Handlers["admin_api"].ServeHTTP(rec, req)
	return rec.Code, rec.Body.Bytes()
}

func (j *journey) idsJSON() string {
	b, _ := json.Marshal(j.msgIDs)
	return string(b)
}

func (j *journey) requeue(op Op) error {
	if j.in.Mode == "push" {
		j.x.mu.Lock()
		j.x.outcome = op.Outcome
		j.x.mu.Unlock()
	}
	n, code, detail := 0, 0, ""
	if op.By == "mcp" {
		ids := make([]any, 0, len(j.msgIDs))
		for _, id := range j.msgIDs {
			ids = append(ids, id)
		}
		res, isErr, err := j.mcpCall("dlq_requeue", map[string]any{"ids": ids, "reason": "fidelity check"})
		if err != nil {
			detail = err.Error()
		} else if isErr {
			code, detail = 500, res
		} else {
			code = 200
			var out struct {
				Requeued int `json:"requeued"`
			}
			_ = json.Unmarshal([]byte(res), &out)
			n = out.Requeued
		}
	} else {
		var body []byte
		code, body = j.admin(http.MethodPost, "/dlq/requeue", `{"ids":`+j.idsJSON()+`}`)
		var out struct {
			Requeued int `json:"requeued"`
		}
		_ = json.Unmarshal(body, &out)
		n = out.Requeued
		if code != 200 {
			n = 0
			detail = strings.TrimSpace(string(body))
		}
	}
	if len(detail) > 200 {
		detail = detail[:200]
	}
	j.emit("Requeue", map[string]any{"outcome": op.Outcome, "by": op.By}, map[string]any{"n": n, "status": code, "detail": detail})
	if j.in.Mode == "push" {
		return j.push(op.Outcome, "requeue", op.B)
	}
	return nil
}

// operator: cancel / resume / requeue through the Admin API, by id or by filter.  The filter names the route, the
// current state of the message and "before" = its received_at + 1ns, so the harness' own companions (published
// later) never match.
func (j *journey) operator(op Op) error {
	verb := map[string]string{"Cancel": "cancel", "Resume": "resume", "RequeueMsg": "requeue"}[op.Op]
	rows, _, _, err := j.dump()
	if err != nil {
		return err
	}
	state := ""
	if len(rows) > 0 {
		state = rows[0].St
	}
	var code int
	var body []byte
	if op.Form == "filter" {
		req := map[string]any{"limit": 10, "before": j.recvAt.Add(time.Nanosecond).UTC().Format(time.RFC3339Nano)}
		if state != "" {
			req["state"] = state
		}
		path := "/messages/" + verb + "_by_filter"
		if j.managed {
			path = j.scoped(path) // the endpoint-scoped path is authoritative: no selector in the body
		} else {
			req["route"] = "/in"
		}
		b, _ := json.Marshal(req)
		code, body = j.admin(http.MethodPost, path, string(b))
	} else {
		code, body = j.admin(http.MethodPost, "/messages/"+verb, `{"ids":`+j.idsJSON()+`}`)
	}
	var out map[string]any
	_ = json.Unmarshal(body, &out)
	n := 0
	for _, k := range []string{"canceled", "resumed", "requeued"} {
		if v, ok := out[k].(float64); ok {
			n = int(v)
		}
	}
	detail := ""
	if code != 200 {
		n = 0
		detail = strings.TrimSpace(string(body))
		if len(detail) > 200 {
			detail = detail[:200]
		}
	}
	j.emit(op.Op, map[string]any{"form": op.Form, "from": state}, map[string]any{"n": n, "status": code, "detail": detail})
	return nil
}

func (j *journey) list(op Op) error {
	var body []byte
	errText, enc := "", ""
	// In admin-proxy mode the MCP server reads at most 1 MiB of an Admin API answer, so a listing that carries a
	// payload of that size cannot be had through it (it answers with an error, not with other bytes): not asked.
	capped := (op.Which == "mcp" || op.Which == "mcpdlq") && j.in.Be == "memory" && len(j.payload) > 300<<10
	switch {
	case capped:
	case op.Which == "mcp" || op.Which == "mcpdlq":
		tool := "messages_list"
		if op.Which == "mcpdlq" {
			tool = "dlq_list"
		}
		args := map[string]any{"include_payload": true, "include_headers": true, "limit": 50}
		if j.managed && tool == "messages_list" {
			args["application"], args["endpoint_name"] = mgApp, mgEndpoint
		} else {
			args["route"] = "/in"
		}
		res, isErr, err := j.mcpCall(tool, args)
		switch {
		case err != nil:
			errText = err.Error()
		case isErr:
			errText = "mcp: " + res
		default:
			body = []byte(res)
		}
	default:
		q := url.Values{}
		q.Set("include_payload", "1")
		q.Set("include_headers", "true")
		q.Set("limit", "50")
		path := "/messages?"
		switch {
		case op.Which == "dlq":
			path = "/dlq?"
			q.Set("route", "/in")
		case j.managed:
			path = j.scoped("/messages?") // endpoint-scoped listing of a managed route
		default:
			q.Set("route", "/in")
		}
		var code int
		code, body = j.admin(http.MethodGet, path+q.Encode(), "")
		if code != 200 {
			errText = fmt.Sprintf("status %d %s", code, strings.TrimSpace(string(body)))
			body = nil
		}
	}
	if len(errText) > 300 {
		errText = errText[:300]
	}
	var out struct {
		Items []struct {
			ID         string            `json:"id"`
			State      string            `json:"state"`
			PayloadB64 string            `json:"payload_b64"`
			Headers    map[string]string `json:"headers"`
		} `json:"items"`
	}
	if body != nil {
		if err := json.Unmarshal(body, &out); err != nil {
			errText = "response is not JSON"
		}
	}
	n, comps := 0, 0
	var payload []byte
	var hdr map[string]string
	st := ""
	f := noF()
	for _, it := range out.Items {
		if strings.HasPrefix(it.ID, compPrefix) || strings.HasPrefix(it.ID, "sib_") {
			comps++
			continue
		}
		p, err := base64.StdEncoding.DecodeString(it.PayloadB64)
		if err != nil {
			enc = "payload_b64 is not standard base64"
			p = []byte(it.PayloadB64)
		}
		n++
		switch n {
		case 1:
			st, hdr, payload = it.State, it.Headers, p
		case 2:
			f = j.fObs(p, HeaderList(it.Headers), nil)
		}
	}
	j.emit("List", map[string]any{"which": op.Which, "capped": capped}, j.obs(errText, n, payload, HeaderList(hdr), map[string]any{"st": st, "enc": enc, "comps": comps, "f": f}))
	return nil
}

// noF / fObs: what was seen of the second stored copy of the message (fan-out routes).
func noF() map[string]any {
	return map[string]any{"n": 0, "pl": PL{D: "", N: 0, Diff: -1}, "h": []HV{}, "leak": []string{}, "sig": noSig()}
}

func (j *journey) fObs(payload []byte, h []HV, sig map[string]any) map[string]any {
	if sig == nil {
		sig = noSig()
	}
	return map[string]any{"n": 1, "pl": Digest(payload, j.payload), "h": h, "leak": Leaks(j.secrets, headerTexts(h)...), "sig": sig}
}

func noSig() map[string]any {
	return map[string]any{"have": "", "want": "", "ts": "", "nsig": 0, "nts": 0}
}

// sigObs recomputes the delivery signature from the ACCEPTED payload and what the target received:
// HMAC-SHA256(secret, METHOD \n path \n timestamp \n hex(sha256(body))).
func (j *journey) sigObs(att Attempt) map[string]any {
	have := att.WireHeader.Get("X-Hookaido-Signature")
	ts := att.WireHeader.Get("X-Hookaido-Timestamp")
	sum := sha256.Sum256(j.payload)
	mac := hmac.New(sha256.New, []byte(signSecret))
	mac.Write([]byte(strings.ToUpper(att.Method) + "\n" + att.Path + "\n" + ts + "\n" + hex.EncodeToString(sum[:])))
	return map[string]any{"have": have, "want": hex.EncodeToString(mac.Sum(nil)), "ts": ts,
		"nsig": len(att.WireHeader.Values("X-Hookaido-Signature")), "nts": len(att.WireHeader.Values("X-Hookaido-Timestamp"))}
}

func (j *journey) restart() error {
	j.stop()
	err := j.boot()
	if err != nil {
		return err
	}
	j.emit("Restart", nil, map[string]any{"ok": true})
	return nil
}

// ---------------------------------------------------------------- push side

func (j *journey) push(outcome, after, b string) error {
	x := j.x
	compID := ""
	var compP []byte
	if b == "pair" {
		var err error
		if compID, compP, err = j.publishCompanion(); err != nil {
			return err
		}
	}
	need := 1
	if j.in.Fan {
		need = 2
		// the copies were nacked one after the other with a longer retry delay; wait until every copy is due
		if _, _, _, err := j.dump(); err != nil {
			return err
		}
		if d := time.Until(j.nextRun); d > 0 && d < 2*time.Second {
			time.Sleep(d + time.Millisecond)
		}
	}
	mid := 0
	x.mu.Lock()
	x.outcome = outcome
	x.inStep, x.need = 0, need
	before, fbefore := len(x.attempts), len(x.fan)
	kbefore := len(x.companions)
	x.between = nil
	if j.in.Fan {
		// other traffic between the per-target deliveries: runs while the first delivery is being answered
		x.between = func() {
			_, acc := j.otherTraffic(Op{K: "handler", Sz: "same"}, 1)
			mid += acc
		}
	}
	x.mu.Unlock()
	for len(x.arrived) > 0 {
		<-x.arrived
	}
	j.g.Open()
	arrivals := 0
	timeout := time.After(25 * time.Second)
wait:
	for arrivals < need {
		select {
		case <-x.arrived:
			arrivals++
		case <-timeout:
			break wait
		}
	}
	j.g.Close()
	errText := ""
	n, fn := 0, 0
	var att, fatt Attempt
	x.mu.Lock()
	if len(x.attempts) > before {
		att = x.attempts[before]
		n = len(x.attempts) - before
	}
	if len(x.fan) > fbefore {
		fatt = x.fan[fbefore]
		fn = len(x.fan) - fbefore
	}
	x.outcome = ""
	x.between = nil
	x.mu.Unlock()
	if n == 0 {
		errText = "no delivery arrived at the target"
	} else if j.in.Fan && fn == 0 {
		errText = "no delivery arrived at the second target"
	} else {
		// wait until the dispatcher has applied the lease action(s)
		deadline := time.Now().Add(15 * time.Second)
		for {
			rows, _, _, err := j.dump()
			if err != nil {
				return err
			}
			leased := false
			for _, r := range rows {
				if r.St == "leased" {
					leased = true
				}
			}
			if !leased || time.Now().After(deadline) {
				break
			}
			time.Sleep(300 * time.Microsecond)
		}
	}
	var kp [][]byte
	var kh []map[string]string
	want := 0
	if compID != "" {
		want = 1
		// the companion was ready together with the message and is part of the same micro-batch of the dispatcher;
		// give its delivery a moment, then take it out of the way
		deadline := time.Now().Add(2 * time.Second)
		if j.in.Fan {
			deadline = time.Now().Add(50 * time.Millisecond) // batches of two: it may not have been taken at all
		}
		for {
			x.mu.Lock()
			got := len(x.companions) > kbefore
			x.mu.Unlock()
			if got || errText != "" || time.Now().After(deadline) {
				break
			}
			time.Sleep(500 * time.Microsecond)
		}
		j.cancelCompanion(compID)
		x.mu.Lock()
		for _, c := range x.companions[kbefore:] {
			kp = append(kp, c.Body)
			h := map[string]string{}
			for k, v := range c.Header {
				if _, mine := compHeaders[k]; mine {
					h[k] = strings.Join(v, "\x00")
				}
			}
			kh = append(kh, h)
		}
		x.mu.Unlock()
	}
	if att.Unexpected || fatt.Unexpected {
		errText = "delivery without a scheduled outcome"
	}
	h := HeaderListMulti(att.Header)
	wh := HeaderListMulti(att.WireHeader)
	sig := noSig()
	if j.in.Sg && n > 0 {
		sig = j.sigObs(att)
	}
	f := noF()
	if fn > 0 {
		var fsig map[string]any
		if j.in.Sg {
			fsig = j.sigObs(fatt)
		}
		f = j.fObs(fatt.Body, HeaderListMulti(fatt.Header), fsig)
		f["wleak"] = Leaks(j.secrets, headerTexts(HeaderListMulti(fatt.WireHeader))...)
		f["n"] = fn
	}
	extra := map[string]any{"wh": wh, "wleak": Leaks(j.secrets, headerTexts(wh)...), "method": att.Method, "enc": "",
		"k": kObs(want, kp, kh, compP), "f": f, "sig": sig, "mid": mid}
	j.emit("Push", map[string]any{"outcome": outcome, "after": after, "b": b}, j.obs(errText, n, att.Body, h, extra))
	return nil
}

// ---------------------------------------------------------------- end of journey

// storeAlias is informational: does the envelope returned by Store.Dequeue
// share memory with the stored message?  (Internal Go API, not one of the
// consumer channels of the property.)
func (j *journey) storeAlias() error {
	var st queue.Store
	switch {
	case j.sql != nil:
		st = j.sql
	case j.mem != nil:
		st = j.mem
	default:
		return nil
	}
	id := "probe_" + j.jid
	if err := st.Enqueue(queue.Envelope{ID: id, Route: "/probe", Target: "pull", Payload: []byte("probe-payload"),
		Headers: map[string]string{"X-Probe": "original"}}); err != nil {
		j.emit("StoreAlias", nil, map[string]any{"err": err.Error(), "pl": false, "hd": false})
		return nil
	}
	resp, err := st.Dequeue(queue.DequeueRequest{Route: "/probe", Batch: 1, LeaseTTL: time.Minute})
	if err != nil || len(resp.Items) != 1 {
		j.emit("StoreAlias", nil, map[string]any{"err": fmt.Sprint("dequeue: ", err), "pl": false, "hd": false})
		return nil
	}
	it := resp.Items[0]
	for i := range it.Payload {
		it.Payload[i] ^= 0xff
	}
	if it.Headers != nil {
		it.Headers["X-Probe"] = "scribbled"
	}
	sharedP, sharedH := false, false
	var raw []queue.VerifRow
	if j.sql != nil {
		raw, _ = j.sql.VerifDump()
	} else {
		raw = j.mem.VerifDump()
	}
	for _, vr := range raw {
		if vr.Env.ID == id {
			sharedP = string(vr.Env.Payload) != "probe-payload"
			sharedH = vr.Env.Headers["X-Probe"] != "original"
		}
	}
	_ = st.Ack(it.LeaseID)
	j.emit("StoreAlias", nil, map[string]any{"err": "", "pl": sharedP, "hd": sharedH})
	return nil
}

// scan looks for the secret cores in everything that was persisted: the raw
// database files after the instance is stopped (SQLite), or every field of
// every stored message (memory).
func (j *journey) scan() error {
	found := []string{}
	files, total := 0, 0
	if j.in.Be == "sqlite" {
		j.stop()
		for _, suf := range []string{"", "-wal", "-shm", "-journal"} {
			b, err := os.ReadFile(j.dbPath + suf)
			if err != nil {
				continue
			}
			files++
			total += len(b)
			for t := range j.secrets {
				if bytes.Contains(b, []byte(secretCore[t])) {
					found = append(found, t)
				}
			}
		}
		if files == 0 {
			return errors.New("no database file to scan")
		}
	} else if j.mem != nil {
		for _, vr := range j.mem.VerifDump() {
			e := vr.Env
			texts := []string{e.ID, e.Route, e.Target, e.DeadReason, e.LeaseID, string(e.Payload)}
			for k, v := range e.Headers {
				texts = append(texts, k, v)
			}
			for k, v := range e.Trace {
				texts = append(texts, k, v)
			}
			found = append(found, Leaks(j.secrets, texts...)...)
			total += len(e.Payload)
		}
		files = 1
	}
	sort.Strings(found)
	uniq := []string{}
	for i, f := range found {
		if i == 0 || found[i-1] != f {
			uniq = append(uniq, f)
		}
	}
	// the dump is taken by emitRaw; after stop() there is no store left, so record the scan without one
	fields := map[string]any{"a": map[string]any{"_": 0}, "r": map[string]any{"found": uniq, "files": files, "bytes": total, "secrets": len(j.secrets)}}
	fields["tr"] = j.jid
	fields["ev"] = "Scan"
	fields["dump"] = []row{}
	fields["sibs"] = []row{}
	fields["other"] = 0
	fields["noise"] = []noiseMsg{}
	fields["nwant"] = []noiseMsg{}
	fields["held"] = map[string]any{"n": 0}
	b, _ := json.Marshal(fields)
	j.r.Out.Write(ASCIIJSON(b))
	j.r.Out.WriteByte('\n')
	j.r.Events++
	return nil
}
