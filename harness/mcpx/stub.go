package mcpx

import (
	"fmt"
	"os"
	"os/exec"
	"os/signal"
	"path/filepath"
	"strconv"
	"strings"
	"syscall"
	"time"
)

// StubMain is the body of the stub process that stands in for `hookaido run`.
// It is started either by the MCP server (instance_start: argv "run --config ..
// --db .. --pid-file P ..", spawned = true, leaves the marker P.spawned) or by
// the harness as the process named by a pid file ("victim").  It writes its
// pid to P, appends a line to P.hup on every SIGHUP, answers SIGUSR1 by
// appending a line to P.ack (so the harness can wait until earlier signals
// have been handled), exits on SIGTERM and after 90 s at the latest.
func StubMain(args []string, spawned bool) int {
	pidFile := ""
	for i := 0; i < len(args); i++ {
		if args[i] == "--pid-file" && i+1 < len(args) {
			pidFile = args[i+1]
		}
	}
	if pidFile == "" {
		return 3
	}
	ch := make(chan os.Signal, 16)
	signal.Notify(ch, syscall.SIGHUP, syscall.SIGTERM, syscall.SIGUSR1)
	if spawned {
		_ = os.WriteFile(pidFile+".spawned", []byte(strings.Join(args, " ")+"\n"), 0o600)
	}
	tmp := pidFile + ".tmp"
	_ = os.WriteFile(tmp, []byte(strconv.Itoa(os.Getpid())+"\n"), 0o600)
	_ = os.Rename(tmp, pidFile)
	appendLine := func(p string) {
		f, err := os.OpenFile(p, os.O_CREATE|os.O_WRONLY|os.O_APPEND, 0o600)
		if err == nil {
			_, _ = f.WriteString("x\n")
			_ = f.Close()
		}
	}
	deadline := time.After(90 * time.Second)
	for {
		select {
		case s := <-ch:
			switch s {
			case syscall.SIGHUP:
				appendLine(pidFile + ".hup")
			case syscall.SIGUSR1:
				appendLine(pidFile + ".ack")
			case syscall.SIGTERM:
				return 0
			}
		case <-deadline:
			return 0
		}
	}
}

type victimProc struct {
	cmd     *exec.Cmd
	pid     int
	pidFile string
	done    chan struct{}
}

// startVictim starts a stub process whose pid is written to pidFile.
func startVictim(exe, pidFile string) (*victimProc, error) {
	cmd := exec.Command(exe, "victim", "--pid-file", pidFile)
	if err := cmd.Start(); err != nil {
		return nil, err
	}
	v := &victimProc{cmd: cmd, pid: cmd.Process.Pid, pidFile: pidFile, done: make(chan struct{})}
	go func() { _ = cmd.Wait(); close(v.done) }()
	deadline := time.Now().Add(20 * time.Second)
	for {
		if b, err := os.ReadFile(pidFile); err == nil && strings.TrimSpace(string(b)) == strconv.Itoa(v.pid) {
			return v, nil
		}
		if time.Now().After(deadline) {
			_ = cmd.Process.Kill()
			return nil, fmt.Errorf("victim did not write %s", pidFile)
		}
		time.Sleep(time.Millisecond)
	}
}

func (v *victimProc) alive() bool {
	select {
	case <-v.done:
		return false
	default:
	}
	return pidAlive(v.pid)
}

func pidAlive(pid int) bool {
	if err := syscall.Kill(pid, 0); err != nil {
		return false
	}
	b, err := os.ReadFile(fmt.Sprintf("/proc/%d/stat", pid))
	if err != nil {
		return false
	}
	s := string(b)
	if i := strings.LastIndexByte(s, ')'); i >= 0 && i+2 < len(s) {
		return s[i+2] != 'Z'
	}
	return true
}

func countLines(p string) int {
	b, err := os.ReadFile(p)
	if err != nil {
		return 0
	}
	return strings.Count(string(b), "\n")
}

// observe waits until the victim has handled every signal sent before now
// (SIGUSR1 round trip; pending standard signals are delivered lowest number
// first, so an earlier SIGHUP is handled before the SIGUSR1), then reports.
func (v *victimProc) observe() Victim {
	out := Victim{Present: true}
	if !v.alive() {
		// give a dying process a moment to be reaped, then report
		select {
		case <-v.done:
		case <-time.After(200 * time.Millisecond):
		}
		out.Alive = v.alive()
		out.Hups = countLines(v.pidFile + ".hup")
		return out
	}
	before := countLines(v.pidFile + ".ack")
	_ = syscall.Kill(v.pid, syscall.SIGUSR1)
	deadline := time.Now().Add(3 * time.Second)
	for countLines(v.pidFile+".ack") == before && time.Now().Before(deadline) {
		select {
		case <-v.done:
			deadline = time.Now()
		case <-time.After(time.Millisecond):
		}
	}
	out.Alive = v.alive()
	out.Hups = countLines(v.pidFile + ".hup")
	return out
}

func (v *victimProc) kill() {
	_ = v.cmd.Process.Kill()
	select {
	case <-v.done:
	case <-time.After(2 * time.Second):
	}
}

// childPIDs lists the live children of this process (scan of /proc).
func childPIDs() []int {
	self := os.Getpid()
	ents, err := os.ReadDir("/proc")
	if err != nil {
		return nil
	}
	var out []int
	for _, de := range ents {
		pid, err := strconv.Atoi(de.Name())
		if err != nil {
			continue
		}
		b, err := os.ReadFile(filepath.Join("/proc", de.Name(), "stat"))
		if err != nil {
			continue
		}
		s := string(b)
		i := strings.LastIndexByte(s, ')')
		if i < 0 || i+2 >= len(s) {
			continue
		}
		f := strings.Fields(s[i+2:])
		if len(f) < 2 {
			continue
		}
		if ppid, _ := strconv.Atoi(f[1]); ppid == self {
			out = append(out, pid)
		}
	}
	return out
}
