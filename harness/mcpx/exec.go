package mcpx

import (
	"bufio"
	"bytes"
	"context"
	"encoding/json"
	"errors"
	"fmt"
	"io"
	"os"
	"os/exec"
	"path/filepath"
	"strconv"
	"strings"
	"sync"
	"syscall"
	"time"
	"unicode/utf16"

	"github.com/nuetzliches/hookaido/internal/mcp"
	"github.com/nuetzliches/hookaido/internal/verifhook"
)

// ---------------------------------------------------------------- JSON-RPC over the stdio framing

type client struct {
	w  io.WriteCloser
	r  *bufio.Reader
	id int
}

func (c *client) send(method string, params any, notify bool) error {
	msg := map[string]any{"jsonrpc": "2.0", "method": method}
	if !notify {
		c.id++
		msg["id"] = c.id
	}
	if params != nil {
		msg["params"] = params
	}
	b, err := json.Marshal(msg)
	if err != nil {
		return err
	}
	_, err = fmt.Fprintf(c.w, "Content-Length: %d\r\n\r\n%s", len(b), b)
	return err
}

type rpcReply struct {
	ID     any             `json:"id"`
	Result json.RawMessage `json:"result"`
	Error  *struct {
		Code    int    `json:"code"`
		Message string `json:"message"`
	} `json:"error"`
}

func (c *client) recv() (*rpcReply, error) {
	n := -1
	for {
		line, err := c.r.ReadString('\n')
		if err != nil {
			return nil, err
		}
		line = strings.TrimRight(line, "\r\n")
		if line == "" {
			break
		}
		if i := strings.IndexByte(line, ':'); i > 0 && strings.EqualFold(strings.TrimSpace(line[:i]), "Content-Length") {
			n, err = strconv.Atoi(strings.TrimSpace(line[i+1:]))
			if err != nil {
				return nil, err
			}
		}
	}
	if n < 0 {
		return nil, errors.New("reply without Content-Length")
	}
	buf := make([]byte, n)
	if _, err := io.ReadFull(c.r, buf); err != nil {
		return nil, err
	}
	var rep rpcReply
	if err := json.Unmarshal(buf, &rep); err != nil {
		return nil, err
	}
	return &rep, nil
}

func (c *client) call(method string, params any) (*rpcReply, error) {
	if err := c.send(method, params, false); err != nil {
		return nil, err
	}
	type res struct {
		r   *rpcReply
		err error
	}
	ch := make(chan res, 1)
	go func() { r, err := c.recv(); ch <- res{r, err} }()
	select {
	case x := <-ch:
		return x.r, x.err
	case <-time.After(60 * time.Second):
		return nil, fmt.Errorf("timeout waiting for reply to %s", method)
	}
}

func (c *client) list() ([]string, error) {
	rep, err := c.call("tools/list", map[string]any{})
	if err != nil {
		return nil, err
	}
	if rep.Error != nil {
		return nil, fmt.Errorf("tools/list: rpc error %d", rep.Error.Code)
	}
	var out struct {
		Tools []struct {
			Name string `json:"name"`
		} `json:"tools"`
	}
	if err := json.Unmarshal(rep.Result, &out); err != nil {
		return nil, err
	}
	names := make([]string, 0, len(out.Tools))
	for _, t := range out.Tools {
		names = append(names, t.Name)
	}
	return names, nil // order and duplicates preserved
}

// ---------------------------------------------------------------- executor

type lockedBuf struct {
	mu sync.Mutex
	b  bytes.Buffer
}

func (l *lockedBuf) Write(p []byte) (int, error) {
	l.mu.Lock()
	defer l.mu.Unlock()
	return l.b.Write(p)
}
func (l *lockedBuf) String() string {
	l.mu.Lock()
	defer l.mu.Unlock()
	return l.b.String()
}

// Executor runs rows one after the other (the write hook is process-global).
type Executor struct {
	Scratch    string
	Exe        string // this binary: stands in for `hookaido run`
	AdminUp    string
	AdminDown  string
	DBTemplate string
	DBHash     string
	Binary     string // "" = in-process mcp.Server; else path of a real hookaido binary (`hookaido mcp serve`, layer L2)
	Cwd        string // working directory of the shard (relative paths in arguments land here)
	admin      *FakeAdmin

	cur struct {
		mu     sync.Mutex
		cfg    string
		writes []Write
	}
}

func NewExecutor(scratch string) (*Executor, error) {
	exe, err := os.Executable()
	if err != nil {
		return nil, err
	}
	x := &Executor{Scratch: scratch, Exe: exe}
	if err := os.MkdirAll(scratch, 0o755); err != nil {
		return nil, err
	}
	if x.admin, err = StartFakeAdmin(); err != nil {
		return nil, err
	}
	x.AdminUp, x.AdminDown = x.admin.Up, x.admin.Down
	x.DBTemplate = filepath.Join(scratch, "template.db")
	x.DBHash, err = MakeTemplateDB(x.DBTemplate)
	if err != nil {
		return nil, fmt.Errorf("template db: %w", err)
	}
	if !verifhook.Enabled() {
		return nil, errors.New("harness must be built with -tags verif")
	}
	verifhook.SetGate(func(label string) {
		if label != "mcpwrite.renamed" {
			return
		}
		x.cur.mu.Lock()
		defer x.cur.mu.Unlock()
		if x.cur.cfg == "" {
			return
		}
		b, err := os.ReadFile(x.cur.cfg)
		if err != nil {
			x.cur.writes = append(x.cur.writes, Write{Sha: "absent", OK: false})
			return
		}
		x.cur.writes = append(x.cur.writes, Write{Sha: Sha(b), OK: Compiles(b)})
	})
	return x, nil
}

func (x *Executor) Close() {
	verifhook.SetGate(nil)
	if x.admin != nil {
		x.admin.Close()
	}
}

var sevenFields = []string{"duration_ms", "input_hash", "principal", "result", "role", "timestamp", "tool"}

func parseAudits(raw string, t0, t1 time.Time) ([]Audit, int) {
	out := []Audit{}
	lines := 0
	for _, line := range strings.Split(raw, "\n") {
		if strings.TrimSpace(line) == "" {
			continue
		}
		lines++
		var m map[string]any
		a := Audit{Fields: []string{}}
		if err := json.Unmarshal([]byte(line), &m); err != nil {
			out = append(out, a)
			continue
		}
		a.ParseOK = true
		for _, f := range sevenFields {
			if v, ok := m[f]; ok && v != nil {
				a.Fields = append(a.Fields, f)
			}
		}
		a.Result, _ = m["result"].(string)
		a.Tool, _ = m["tool"].(string)
		a.Role, _ = m["role"].(string)
		a.Principal, _ = m["principal"].(string)
		a.IHash, _ = m["input_hash"].(string)
		if ts, ok := m["timestamp"].(string); ok {
			if t, err := time.Parse(time.RFC3339Nano, ts); err == nil {
				a.TsOK = !t.Before(t0.Add(-time.Second)) && !t.After(t1.Add(time.Second))
			}
		}
		if d, ok := m["duration_ms"].(float64); ok {
			a.DurOK = d >= 0 && d <= float64(t1.Sub(t0).Milliseconds()+1000)
		}
		if a.IHash != "" {
			a.HashOK = true
			for _, c := range a.IHash {
				if !strings.ContainsRune("0123456789abcdef", c) {
					a.HashOK = false
				}
			}
		}
		out = append(out, a)
	}
	return out, lines
}

// Run executes one row and returns its event.  An error is an infrastructure
// problem (the row could not be executed), never an observation.
func (x *Executor) Run(r Row) (*Event, error) {
	started := time.Now()
	principal := ""
	if r.Principal {
		principal = PrincipalName
	}
	// ---- arguments
	var tpl map[string]any
	health := r.Health
	if r.ArgsTpl != "" {
		if err := json.Unmarshal([]byte(r.ArgsTpl), &tpl); err != nil {
			return nil, fmt.Errorf("row %s: bad args_tpl: %w", r.ID, err)
		}
	} else {
		var err error
		var h string
		tpl, h, err = BuildArgs(r)
		if err != nil {
			return nil, fmt.Errorf("row %s: %w", r.ID, err)
		}
		if health == "" {
			health = h
		}
	}
	if health == "" {
		health = "up"
	}
	tplJSON, _ := json.Marshal(tpl)
	usesFPID := strings.Contains(string(tplJSON), "${FPID}")

	// ---- environment
	root, err := os.MkdirTemp(x.Scratch, "row-")
	if err != nil {
		return nil, err
	}
	defer os.RemoveAll(root)
	backend := r.Lab.Backend
	if backend == "" {
		backend = "sqlite"
	}
	env, err := NewEnv(root, x.AdminUp, x.AdminDown, health, backend, x.DBTemplate)
	if err != nil {
		return nil, err
	}
	env.Conf = r.Lab.Conf
	if env.Conf == "" {
		env.Conf = "all"
	}
	args, _ := Subst(tpl, env.Replacer(principal)).(map[string]any)
	argsJSON, _ := json.Marshal(args)

	ev := &Event{Ev: "Call", ID: r.ID, Row: r, Listed: []string{}, ListedAfter: []string{}, Audits: []Audit{}, Writes: []Write{},
		Foreign: []string{}, Effect: "none", ArgsJSON: asciiJSON(argsJSON), ArgsSha: Sha(argsJSON), DBBefore: x.DBHash}
	wireName, err := WireName(r.Tool, r.Spell)
	if err != nil {
		return nil, err
	}
	ev.WireName = strings.Trim(strconv.QuoteToASCII(wireName), `"`) // plain ASCII rendering for TLC ("\n", "\u00a0" spelled out)
	if ev.Row.Spell == "" {
		ev.Row.Spell = "exact"
	}
	ev.Row.ArgsTpl = "" // the concrete arguments are in args_json
	ev.Layer = "L1"
	if x.Binary != "" {
		ev.Layer = "L2"
	}
	ev.Real = Classify(r.Tool, args, env, principal)
	ev.Real.Wire = r.Lab.Wire
	if ev.Real.Wire == "" {
		ev.Real.Wire = "object"
	}
	ev.Row.Lab.Wire = ev.Real.Wire
	ev.Real.Backend = backend
	ev.Row.Lab.Backend = backend
	ev.Real.Conf = env.Conf
	ev.Row.Lab.Conf = env.Conf
	if c, ok := args["content"].(string); ok {
		ev.ContentSha = Sha([]byte(c))
		ev.ContentOK = Compiles([]byte(c))
	}

	// ---- processes named by pid files
	var victim, fvictim *victimProc
	_, isKnown := DocKeys[r.Tool]
	pidTool := isKnown && hasDocKey(r.Tool, "pid_file")
	if pidTool && r.Tool != "instance_start" {
		switch {
		case env.Conf == "nopid":
			// no pid file is configured: whatever process a pid file of the arguments names is a foreign one
			fp := env.PID
			if usesFPID {
				fp = env.FPID
			}
			if fvictim, err = startVictim(x.Exe, fp); err != nil {
				return nil, err
			}
			defer fvictim.kill()
		default:
			if victim, err = startVictim(x.Exe, env.PID); err != nil {
				return nil, err
			}
			defer victim.kill()
			if usesFPID {
				if fvictim, err = startVictim(x.Exe, env.FPID); err != nil {
					return nil, err
				}
				defer fvictim.kill()
			}
		}
	}
	known := map[int]bool{}
	for _, p := range childPIDs() {
		known[p] = true
	}

	// ---- before
	ev.CfgBefore = FileSha(env.Cfg)
	treeBefore := env.TreeSnapshot()
	cwdBefore := dirListing(x.Cwd)
	x.cur.mu.Lock()
	x.cur.cfg = env.Cfg
	x.cur.writes = nil
	x.cur.mu.Unlock()

	// ---- the server: in-process, built as internal/app/mcp.go builds it, or the real binary
	audit := &lockedBuf{}
	var inW io.WriteCloser
	var outR io.ReadCloser
	done := make(chan error, 1)
	if x.Binary == "" {
		role, err := mcp.ParseRole(r.Role)
		if err != nil {
			return nil, err
		}
		pinR, pinW := io.Pipe()
		poutR, poutW := io.Pipe()
		inW, outR = pinW, poutR
		server := mcp.NewServer(
			pinR,
			poutW,
			env.ServerCfg(),
			env.ServerDB(),
			mcp.WithRole(role),
			mcp.WithPrincipal(principal),
			mcp.WithAuditWriter(audit),
			mcp.WithMutationsEnabled(r.Mut),
			mcp.WithRuntimeControlEnabled(r.Rc),
			mcp.WithRuntimeControlPIDFile(env.ServerPID()),
			mcp.WithRuntimeControlRunBinary(x.Exe),
			mcp.WithRuntimeControlRunWatch(true),
			mcp.WithRuntimeControlRunLogLevel("info"),
			mcp.WithRuntimeControlRunDotenv(""),
			mcp.WithAdminProxyEndpointAllowlist(nil),
		)
		go func() {
			err := server.Serve(context.Background())
			_ = poutW.Close()
			done <- err
		}()
	} else {
		flags := []string{"mcp", "serve", "--config", env.ServerCfg(), "--db", env.ServerDB(), "--role", r.Role, "--pid-file", env.ServerPID(),
			"--run-binary", x.Exe}
		if r.Principal {
			flags = append(flags, "--principal", principal)
		}
		if r.Mut {
			flags = append(flags, "--enable-mutations")
		}
		if r.Rc {
			flags = append(flags, "--enable-runtime-control")
		}
		cmd := exec.Command(x.Binary, flags...)
		cmd.Dir = x.Cwd
		cmd.Stderr = audit // the audit sink of `hookaido mcp serve` is stderr
		stdin, err := cmd.StdinPipe()
		if err != nil {
			return nil, err
		}
		stdout, err := cmd.StdoutPipe()
		if err != nil {
			return nil, err
		}
		if err := cmd.Start(); err != nil {
			return nil, err
		}
		inW, outR = stdin, stdout
		known[cmd.Process.Pid] = true
		go func() { done <- cmd.Wait() }()
		defer func() { _ = cmd.Process.Kill() }()
	}
	c := &client{w: inW, r: bufio.NewReader(outR)}
	fail := func(err error) (*Event, error) {
		_ = inW.Close()
		_ = outR.Close()
		return nil, fmt.Errorf("row %s (%s): %w", r.ID, r.Tool, err)
	}
	if rep, err := c.call("initialize", map[string]any{"protocolVersion": "2024-11-05", "capabilities": map[string]any{},
		"clientInfo": map[string]any{"name": "hkv-mcp", "version": "0"}}); err != nil || rep.Error != nil {
		return fail(fmt.Errorf("initialize failed: %v", err))
	}
	if err := c.send("notifications/initialized", nil, true); err != nil {
		return fail(err)
	}
	if ev.Listed, err = c.list(); err != nil {
		return fail(err)
	}
	auditBefore := audit.String()
	x.admin.Reset()
	t0 := time.Now()
	params := map[string]any{"name": wireName, "arguments": args}
	switch ev.Real.Wire {
	case "absent":
		delete(params, "arguments")
	case "nonobject":
		params["arguments"] = "not-an-object"
	}
	rep, err := c.call("tools/call", params)
	t1 := time.Now()
	ev.AdminPosts, ev.AdminGets = x.admin.Counts()
	if err != nil {
		return fail(err)
	}
	if rep.Error != nil {
		ev.RPCError = true
		ev.RPCCode = rep.Error.Code
		ev.Text = clip(rep.Error.Message)
	} else {
		var res struct {
			Content []struct {
				Text string `json:"text"`
			} `json:"content"`
			StructuredContent json.RawMessage `json:"structuredContent"`
			IsError           bool            `json:"isError"`
		}
		if err := json.Unmarshal(rep.Result, &res); err != nil {
			return fail(fmt.Errorf("tools/call result: %w", err))
		}
		ev.IsError = res.IsError
		ev.HasOutput = len(res.StructuredContent) > 0 && string(res.StructuredContent) != "null"
		if len(res.Content) > 0 {
			ev.Text = clip(res.Content[0].Text)
		}
	}
	if ev.RPCError || ev.IsError {
		ev.Obs = "refused"
	} else {
		ev.Obs = "ok"
	}
	if ev.ListedAfter, err = c.list(); err != nil {
		return fail(err)
	}
	_ = inW.Close()
	select {
	case <-done:
	case <-time.After(10 * time.Second):
		return fail(errors.New("server did not stop on EOF"))
	}
	_ = outR.Close()
	x.cur.mu.Lock()
	x.cur.cfg = ""
	ev.Writes = append(ev.Writes, x.cur.writes...)
	x.cur.mu.Unlock()
	if auditBefore != "" {
		return fail(errors.New("audit output before the call"))
	}

	// ---- after
	ev.Audits, ev.AuditLines = parseAudits(audit.String(), t0, t1)
	ev.CfgAfter = FileSha(env.Cfg)
	if b, err := os.ReadFile(env.Cfg); err == nil {
		ev.CfgAfterOK = Compiles(b)
	}
	ev.Foreign = DiffSnapshots(treeBefore, env.TreeSnapshot())
	for _, n := range DiffSnapshots(cwdBefore, dirListing(x.Cwd)) { // files dropped via relative paths
		ev.Foreign = append(ev.Foreign, "cwd/"+n)
		_ = os.RemoveAll(filepath.Join(x.Cwd, n))
	}
	if ev.DBAfter, err = DBDump(env.DB); err != nil {
		return nil, fmt.Errorf("row %s: db dump: %w", r.ID, err)
	}
	// processes
	if m, _ := filepath.Glob(filepath.Join(env.RunDir, "*.spawned")); len(m) > 0 {
		ev.Spawned = true
	}
	for _, p := range childPIDs() {
		if !known[p] {
			ev.Spawned = true
			_ = syscall.Kill(p, syscall.SIGKILL)
		}
	}
	if victim != nil {
		ev.Victim = victim.observe()
	}
	if fvictim != nil {
		ev.FVictim = fvictim.observe()
	}
	if _, err := os.Stat(env.PID); err != nil {
		ev.PidFileGone = true
	}
	// stop whatever instance_start left running
	for _, pf := range []string{env.PID, env.FPID} {
		if b, err := os.ReadFile(pf); err == nil {
			if pid, err := strconv.Atoi(strings.TrimSpace(string(b))); err == nil && pid > 1 && !known[pid] {
				_ = syscall.Kill(pid, syscall.SIGKILL)
			}
		}
	}
	switch {
	case ev.Spawned:
		ev.Effect = "spawn"
	case victim != nil && !ev.Victim.Alive:
		ev.Effect = "stop"
	case victim != nil && ev.Victim.Hups > 0:
		ev.Effect = "hup"
	case ev.CfgAfter != ev.CfgBefore:
		ev.Effect = "cfg"
	case ev.DBAfter != ev.DBBefore:
		ev.Effect = "db"
	case ev.Obs == "ok" && ev.HasOutput:
		ev.Effect = "output"
	}
	ev.Ms = int(time.Since(started).Milliseconds())
	return ev, nil
}

// clip keeps diagnostics short and plain ASCII (TLC reads the file).
// dirListing lists a directory (names only; directories are marked).
func dirListing(dir string) map[string]string {
	out := map[string]string{}
	if dir == "" {
		return out
	}
	ents, _ := os.ReadDir(dir)
	for _, de := range ents {
		if de.IsDir() {
			out[de.Name()] = "dir"
		} else {
			out[de.Name()] = "file"
		}
	}
	return out
}

func clip(s string) string {
	var b strings.Builder
	for _, r := range s {
		if b.Len() >= 160 {
			break
		}
		if r < 32 || r > 126 {
			b.WriteByte('?')
		} else {
			b.WriteRune(r)
		}
	}
	return b.String()
}

// asciiJSON escapes every non-ASCII rune of a JSON text as \uXXXX and bounds its length.
func asciiJSON(j []byte) string {
	var b strings.Builder
	for _, r := range string(j) {
		if b.Len() >= 900 {
			b.WriteString("...")
			break
		}
		switch {
		case r > 126 && r <= 0xFFFF:
			fmt.Fprintf(&b, "\\u%04x", r)
		case r > 0xFFFF:
			r1, r2 := utf16.EncodeRune(r)
			fmt.Fprintf(&b, "\\u%04x\\u%04x", r1, r2)
		default:
			b.WriteRune(r)
		}
	}
	return b.String()
}
