package mcpx

import (
	"crypto/sha256"
	"encoding/hex"
	"encoding/json"
	"fmt"
	"io"
	"net"
	"net/http"
	"os"
	"path/filepath"
	"sort"
	"strings"
	"sync"
	"time"

	"github.com/nuetzliches/hookaido/internal/config"
	"github.com/nuetzliches/hookaido/internal/queue"
)

const PrincipalName = "ops@example.test"

// Env is the private scratch environment of one call.
//
//	root/cfgdir/Hookaidofile        the configured config file
//	root/other/Hookaidofile         a foreign config file
//	root/other/cfgdir/Hookaidofile  a foreign config file reachable as root/dirlink/../cfgdir/Hookaidofile
//	root/other/sub/                 target of the directory symlink root/dirlink
//	root/linkf    -> other/Hookaidofile   (symlink to a foreign file)
//	root/linksame -> cfgdir/Hookaidofile  (symlink to the configured file)
//	root/run/hookaido.db, hookaido.pid, foreign.pid, runtime.log
type Env struct {
	Root, CfgDir, Cfg, OtherDir, Other, Other2, LinkF, LinkSame, DirLink string
	RunDir, DB, PID, FPID, Log                                           string
	AdminUp, AdminDown                                                   string
	Health                                                               string
	Backend                                                              string // "sqlite" | "proxy"
	Conf                                                                 string // "all" | "nocfg" | "nopid" | "nodb"
}

// ConfigText renders the scratch Hookaidofile.  alt adds one more route (the
// "valid candidate" submitted to config_apply / config_diff).
func ConfigText(adminListen, logPath string, alt bool, backend string) string {
	if backend == "" || backend == "proxy" {
		if backend == "proxy" {
			backend = "memory"
		} else {
			backend = "sqlite"
		}
	}
	var b strings.Builder
	fmt.Fprintf(&b, `pull_api {
  listen "127.0.0.2:0"
  auth token "raw:pull-token"
}

admin_api {
  listen %q
}

observability {
  runtime_log {
    level info
    output file
    path %q
  }
}

"/r" {
  queue %[3]s
  pull {
    path "/pull/r"
  }
}

"/m" {
  application "billing"
  endpoint_name "invoice.created"
  queue %[3]s
  pull {
    path "/pull/m"
  }
}

"/u" {
  queue %[3]s
  pull {
    path "/pull/u"
  }
}
`, adminListen, logPath, backend)
	if alt {
		fmt.Fprintf(&b, `
"/added" {
  queue %s
  pull {
    path "/pull/added"
  }
}
`, backend)
	}
	return b.String()
}

const ContentNoParse = "\"/r\" {\n  pull {\n"

// parses, does not compile (labels must be set together; pull route without pull_api)
const ContentNoCompile = "\"/bad\" {\n  application \"only-app\"\n  pull {\n    path \"/pull/bad\"\n  }\n}\n"

const ForeignText = "# foreign file - must never be touched\n\"/foreign\" {\n  deliver \"https://foreign.example/hook\" {}\n}\n"

// Compiles reports whether content parses and compiles (the real parser and
// compiler are the definition of "parses and compiles").
func Compiles(content []byte) bool {
	cfg, err := config.Parse(content)
	if err != nil {
		return false
	}
	_, res := config.Compile(cfg)
	return res.OK
}

func Sha(b []byte) string {
	s := sha256.Sum256(b)
	return hex.EncodeToString(s[:])
}

func FileSha(p string) string {
	b, err := os.ReadFile(p)
	if err != nil {
		return "absent"
	}
	return Sha(b)
}

// NewEnv lays out the scratch tree under root.
func NewEnv(root, adminUp, adminDown, health, backend, dbTemplate string) (*Env, error) {
	e := &Env{Root: root, AdminUp: adminUp, AdminDown: adminDown, Health: health, Backend: backend}
	e.CfgDir = filepath.Join(root, "cfgdir")
	e.Cfg = filepath.Join(e.CfgDir, "Hookaidofile")
	e.OtherDir = filepath.Join(root, "other")
	e.Other = filepath.Join(e.OtherDir, "Hookaidofile")
	e.Other2 = filepath.Join(e.OtherDir, "cfgdir", "Hookaidofile")
	e.LinkF = filepath.Join(root, "linkf")
	e.LinkSame = filepath.Join(root, "linksame")
	e.DirLink = filepath.Join(root, "dirlink")
	e.RunDir = filepath.Join(root, "run")
	e.DB = filepath.Join(e.RunDir, "hookaido.db")
	e.PID = filepath.Join(e.RunDir, "hookaido.pid")
	e.FPID = filepath.Join(e.RunDir, "foreign.pid")
	e.Log = filepath.Join(e.RunDir, "runtime.log")
	for _, d := range []string{e.CfgDir, filepath.Join(e.OtherDir, "cfgdir"), filepath.Join(e.OtherDir, "sub"), e.RunDir} {
		if err := os.MkdirAll(d, 0o755); err != nil {
			return nil, err
		}
	}
	if err := os.WriteFile(e.Cfg, []byte(e.BaseConfig()), 0o600); err != nil {
		return nil, err
	}
	for _, f := range []string{e.Other, e.Other2} {
		if err := os.WriteFile(f, []byte(ForeignText), 0o600); err != nil {
			return nil, err
		}
	}
	if err := os.Symlink(e.Other, e.LinkF); err != nil {
		return nil, err
	}
	if err := os.Symlink(e.Cfg, e.LinkSame); err != nil {
		return nil, err
	}
	if err := os.Symlink(filepath.Join(e.OtherDir, "sub"), e.DirLink); err != nil {
		return nil, err
	}
	if err := os.WriteFile(e.Log, []byte("l1\nl2\nl3\n"), 0o600); err != nil {
		return nil, err
	}
	for _, suf := range []string{"", "-wal", "-shm"} {
		if _, err := os.Stat(dbTemplate + suf); err != nil {
			continue
		}
		if err := copyFile(dbTemplate+suf, e.DB+suf); err != nil {
			return nil, err
		}
	}
	return e, nil
}

// ServerCfg / ServerDB / ServerPID are what the server is started with: the
// scratch files, or "" when the row says that path is not configured (the
// files exist all the same).
func (e *Env) ServerCfg() string {
	if e.Conf == "nocfg" {
		return ""
	}
	return e.Cfg
}

func (e *Env) ServerDB() string {
	if e.Conf == "nodb" {
		return ""
	}
	return e.DB
}

func (e *Env) ServerPID() string {
	if e.Conf == "nopid" {
		return ""
	}
	return e.PID
}

func (e *Env) adminListen() string {
	if e.Health == "down" {
		return e.AdminDown
	}
	return e.AdminUp
}

func (e *Env) BaseConfig() string { return ConfigText(e.adminListen(), e.Log, false, e.Backend) }

// Replacer maps the ${...} placeholders of argument templates to this environment.
func (e *Env) Replacer(principal string) *strings.Replacer {
	return strings.NewReplacer(
		"${CFGDIR}", e.CfgDir,
		"${CFG}", e.Cfg,
		"${ROOT}", e.Root,
		"${OTHER2}", e.Other2,
		"${OTHER}", e.Other,
		"${LINKF}", e.LinkF,
		"${LINKSAME}", e.LinkSame,
		"${DIRLINK}", e.DirLink,
		"${RUN}", e.RunDir,
		"${FPID}", e.FPID,
		"${PID}", e.PID,
		"${PRINCIPAL}", principal,
		"${CONTENT_VALID_DOWN}", ConfigText(e.AdminDown, e.Log, true, e.Backend),
		"${CONTENT_VALID}", ConfigText(e.AdminUp, e.Log, true, e.Backend),
		"${CONTENT_NOPARSE}", ContentNoParse,
		"${CONTENT_NOCOMPILE}", ContentNoCompile,
	)
}

func copyFile(src, dst string) error {
	in, err := os.Open(src)
	if err != nil {
		return err
	}
	defer in.Close()
	out, err := os.OpenFile(dst, os.O_CREATE|os.O_WRONLY|os.O_TRUNC, 0o600)
	if err != nil {
		return err
	}
	if _, err := io.Copy(out, in); err != nil {
		out.Close()
		return err
	}
	return out.Close()
}

// TreeSnapshot describes every entry below the config directories and the
// symlinks next to them (everything a config-writing tool could wrongly touch),
// except the configured config file itself.
func (e *Env) TreeSnapshot() map[string]string {
	out := map[string]string{}
	add := func(p string) {
		fi, err := os.Lstat(p)
		if err != nil {
			return
		}
		rel, _ := filepath.Rel(e.Root, p)
		switch {
		case fi.Mode()&os.ModeSymlink != 0:
			t, _ := os.Readlink(p)
			out[rel] = "link:" + t
		case fi.IsDir():
			out[rel] = "dir"
		default:
			out[rel] = "file:" + FileSha(p)
		}
	}
	for _, top := range []string{e.CfgDir, e.OtherDir} {
		_ = filepath.Walk(top, func(p string, info os.FileInfo, err error) error {
			if err != nil {
				return nil
			}
			if p == e.Cfg {
				return nil
			}
			add(p)
			return nil
		})
	}
	ents, _ := os.ReadDir(e.Root)
	for _, de := range ents {
		p := filepath.Join(e.Root, de.Name())
		if p == e.CfgDir || p == e.OtherDir || p == e.RunDir {
			continue
		}
		add(p)
	}
	return out
}

func DiffSnapshots(a, b map[string]string) []string {
	out := []string{}
	for k, v := range a {
		if w, ok := b[k]; !ok || w != v {
			out = append(out, k)
		}
	}
	for k := range b {
		if _, ok := a[k]; !ok {
			out = append(out, k)
		}
	}
	sort.Strings(out)
	return out
}

// ---------------------------------------------------------------- queue database

// SeedIDs are the messages of the template database (all on route /r, target pull).
var SeedIDs = map[string][]string{
	"queued":    {"q1", "q2", "q3"},
	"leased":    {"l1"},
	"dead":      {"d1", "d2", "d3"},
	"canceled":  {"c1", "c2", "c3"},
	"delivered": {"v1"},
}

// MakeTemplateDB creates the seeded SQLite file with queue.NewSQLiteStore and
// returns the hash of its dump.
func MakeTemplateDB(path string) (string, error) {
	st, err := queue.NewSQLiteStore(path)
	if err != nil {
		return "", err
	}
	base := time.Now().UTC().Add(-10 * time.Minute).Truncate(time.Millisecond)
	n := 0
	put := func(id string, state queue.State) error {
		n++
		env := queue.Envelope{ID: id, Route: "/r", Target: "pull", State: state,
			ReceivedAt: base.Add(time.Duration(n) * time.Second), NextRunAt: base.Add(time.Duration(n) * time.Second),
			Payload: []byte(`{"n":"` + id + `"}`), Headers: map[string]string{"X-Seed": id}}
		if state == queue.StateDead {
			env.DeadReason = "seeded"
		}
		return st.Enqueue(env)
	}
	for _, id := range SeedIDs["leased"] { // first, so that the dequeue below leases exactly these
		if err := put(id, queue.StateQueued); err != nil {
			st.Close()
			return "", err
		}
	}
	resp, err := st.Dequeue(queue.DequeueRequest{Route: "/r", Target: "pull", Batch: len(SeedIDs["leased"]), LeaseTTL: 6 * time.Hour})
	if err != nil || len(resp.Items) != len(SeedIDs["leased"]) {
		st.Close()
		return "", fmt.Errorf("seed lease: %v (%d items)", err, len(resp.Items))
	}
	for _, s := range []queue.State{queue.StateQueued, queue.StateDead, queue.StateCanceled, queue.StateDelivered} {
		for _, id := range SeedIDs[string(s)] {
			if err := put(id, s); err != nil {
				st.Close()
				return "", err
			}
		}
	}
	if err := st.Close(); err != nil {
		return "", err
	}
	return DBDump(path)
}

// DBDump returns the hash of the complete message table (queue.VerifDump via a
// store opened afterwards) and of the queue counters.
func DBDump(path string) (string, error) {
	if _, err := os.Stat(path); err != nil {
		return "absent", nil
	}
	st, err := queue.NewSQLiteStore(path)
	if err != nil {
		return "", err
	}
	defer st.Close()
	rows, err := st.VerifDump()
	if err != nil {
		return "", err
	}
	q, l, err := st.VerifCounters()
	if err != nil {
		return "", err
	}
	att, err := st.ListAttempts(queue.AttemptListRequest{Limit: 1000})
	if err != nil {
		return "", err
	}
	b, err := json.Marshal(map[string]any{"rows": rows, "queued": q, "leased": l, "attempts": att.Items})
	if err != nil {
		return "", err
	}
	return Sha(b), nil
}

// ---------------------------------------------------------------- fake admin endpoint

// FakeAdmin stands in for the Admin API of a running instance: 200 with a JSON
// object on every path (health probe, queue reads, queue mutations), and a
// count of what it was asked since the last Reset.
type FakeAdmin struct {
	Up, Down string // address served / address of a closed port
	mu       sync.Mutex
	posts    int
	gets     int
	srv      *http.Server
}

func StartFakeAdmin() (*FakeAdmin, error) {
	ln, err := net.Listen("tcp", "127.0.0.1:0")
	if err != nil {
		return nil, err
	}
	fa := &FakeAdmin{Up: ln.Addr().String()}
	fa.srv = &http.Server{Handler: http.HandlerFunc(func(w http.ResponseWriter, r *http.Request) {
		_, _ = io.Copy(io.Discard, r.Body)
		if !strings.HasSuffix(r.URL.Path, "/healthz") {
			fa.mu.Lock()
			if r.Method == http.MethodGet {
				fa.gets++
			} else {
				fa.posts++
			}
			fa.mu.Unlock()
		}
		w.Header().Set("Content-Type", "application/json")
		_, _ = w.Write([]byte(`{"ok":true,"items":[],"canceled":1,"requeued":1,"resumed":1,"deleted":1,"published":1,"matched":1}`))
	})}
	go func() { _ = fa.srv.Serve(ln) }()
	ln2, err := net.Listen("tcp", "127.0.0.1:0")
	if err != nil {
		_ = fa.srv.Close()
		return nil, err
	}
	fa.Down = ln2.Addr().String()
	_ = ln2.Close()
	return fa, nil
}

func (fa *FakeAdmin) Reset() {
	fa.mu.Lock()
	fa.posts, fa.gets = 0, 0
	fa.mu.Unlock()
}

func (fa *FakeAdmin) Counts() (posts, gets int) {
	fa.mu.Lock()
	defer fa.mu.Unlock()
	return fa.posts, fa.gets
}

func (fa *FakeAdmin) Close() { _ = fa.srv.Close() }
