// Package mcpx binds the C20 gating table (spec/McpGate.tla) to the real MCP
// server: every abstract row is executed against a real mcp.Server, built the
// way internal/app/mcp.go builds it, over the stdio JSON-RPC framing, inside a
// private scratch environment (config file, seeded SQLite queue, pid files,
// stub processes, fake admin endpoint), and everything observable is recorded
// as one ndjson event for TLC (spec/McpGateTrace.tla).
package mcpx

// Lab describes the concrete arguments of a call in the vocabulary of
// McpGate.tla (see the comment on argument shapes there).
type Lab struct {
	Path  string `json:"path"`
	Pid   string `json:"pid"`
	Actor string `json:"actor"`
	Mode  string `json:"mode"`
	Wire  string `json:"wire"` // "object" | "absent" (no arguments member) | "nonobject" (arguments is a JSON string)
	// "sqlite" | "proxy" (queue backend memory in the config file: queue tools forward to the Admin API)
	Backend string `json:"backend"`
	// "all" | "nocfg" | "nopid" | "nodb": server started with an empty --config / --pid-file / --db
	Conf  string `json:"conf"`
	Extra bool   `json:"extra"`
	Valid bool   `json:"valid"`
}

// Row is one abstract input: a row of the gating table plus an argument shape.
// Rows printed by TLC carry no arguments (they are built from the shape name by
// the argument table); rows of the random generator carry an argument template.
type Row struct {
	ID   string `json:"id"`
	Tool string `json:"tool"`
	// spelling of the tool name on the wire: "exact" or a near miss of Tool (see WireName); Tool stays the tool whose
	// arguments and environment the call has
	Spell     string `json:"spell"`
	Role      string `json:"role"`
	Mut       bool   `json:"mut"`
	Rc        bool   `json:"rc"`
	Principal bool   `json:"principal"`
	Actor     string `json:"actor"`
	Shape     string `json:"shape"`
	Lab       Lab    `json:"lab"`
	// random rows only
	ArgsTpl string `json:"args_tpl,omitempty"` // JSON object with ${...} placeholders
	Health  string `json:"health,omitempty"`   // "up" (default) | "down": admin endpoint named by the config file
}

// Real is the ground truth about the concrete arguments, computed by the
// executor from what it actually sent (binding check against Row.Lab).
type Real struct {
	Path    string `json:"path"`
	Pid     string `json:"pid"`
	Actor   string `json:"actor"`
	Mode    string `json:"mode"`
	Wire    string `json:"wire"`
	Backend string `json:"backend"`
	Conf    string `json:"conf"`
	Extra   bool   `json:"extra"`
}

// Audit is one parsed audit record.
type Audit struct {
	Fields    []string `json:"fields"` // which of the seven required fields are present (sorted)
	Result    string   `json:"result"`
	Tool      string   `json:"tool"`
	Role      string   `json:"role"`
	Principal string   `json:"principal"`
	IHash     string   `json:"ihash"`
	TsOK      bool     `json:"ts_ok"`   // RFC 3339 timestamp inside the call window
	DurOK     bool     `json:"dur_ok"`  // numeric, >= 0, not longer than the call window
	HashOK    bool     `json:"hash_ok"` // non-empty hex string
	ParseOK   bool     `json:"parse_ok"`
}

// Write is a snapshot of the configured config file right after an atomic
// rename performed by the server (hook point mcpwrite.renamed).
type Write struct {
	Sha string `json:"sha"`
	OK  bool   `json:"ok"` // content parses and compiles
}

// Victim is the state of a stub process whose pid sits in a pid file.
type Victim struct {
	Present bool `json:"present"`
	Alive   bool `json:"alive"`
	Hups    int  `json:"hups"`
}

// Event is one executed call.
type Event struct {
	Ev       string `json:"ev"`    // "Call"
	Layer    string `json:"layer"` // "L1" in-process mcp.Server | "L2" real binary `hookaido mcp serve`
	ID       string `json:"id"`
	Row      Row    `json:"row"`
	WireName string `json:"wire_name"` // the name actually sent in tools/call
	Real     Real   `json:"real"`

	Listed      []string `json:"listed"`       // tools/list before the call
	ListedAfter []string `json:"listed_after"` // tools/list after the call

	RPCError  bool   `json:"rpc_error"`
	RPCCode   int    `json:"rpc_code"`
	IsError   bool   `json:"is_error"`
	HasOutput bool   `json:"has_output"` // structuredContent present
	Obs       string `json:"obs"`        // "ok" | "refused" (from isError / JSON-RPC error only)

	Audits     []Audit `json:"audits"`
	AuditLines int     `json:"audit_lines"`
	ArgsSha    string  `json:"args_sha"`

	CfgBefore   string   `json:"cfg_before"`
	CfgAfter    string   `json:"cfg_after"`
	CfgAfterOK  bool     `json:"cfg_after_ok"` // final content parses and compiles
	Writes      []Write  `json:"writes"`
	DBBefore    string   `json:"db_before"`
	DBAfter     string   `json:"db_after"`
	Foreign     []string `json:"foreign_changed"` // files other than the configured config file that changed / appeared / vanished in the config dirs
	ContentOK   bool     `json:"content_ok"`      // the submitted "content" argument parses and compiles
	ContentSha  string   `json:"content_sha"`     // sha256 of the submitted "content" ("" if none)
	AdminPosts  int      `json:"admin_posts"`     // non-GET requests the fake Admin API received during the call
	AdminGets   int      `json:"admin_gets"`      // GET requests other than the health probe
	Spawned     bool     `json:"spawned"`         // a child process was started by the server
	Victim      Victim   `json:"victim"`          // process named by the configured pid file
	FVictim     Victim   `json:"fvictim"`         // process named by the foreign pid file
	PidFileGone bool     `json:"pidfile_gone"`

	Effect   string `json:"effect"` // which effect was observed: "db" | "cfg" | "spawn" | "stop" | "hup" | "output" | "none"
	ArgsJSON string `json:"args_json"`
	Text     string `json:"text"` // first bytes of the result text, diagnostics only (never used for verdicts)
	Ms       int    `json:"ms"`
	Retried  string `json:"retried"` // infrastructure error of a first attempt at this row ("" = none); the row was then executed afresh
}
