package mcpx

import (
	"encoding/json"
	"fmt"
	"math/rand"
	"sort"
	"strings"
)

// Random argument shapes (thorough tier).  A random row is a known tool, a
// server configuration and the minimal arguments of the tool after one to
// three random perturbations.  No expectation is attached: the executor labels
// what was actually sent (Real) and McpGateTrace derives from the labels what
// must be refused; everything else is only subject to the universal clauses
// (no effect when refused, confinement, exactly one audit record).

var pathPool = []any{
	"${CFG}", "${OTHER}", "${OTHER2}", "${CFGDIR}/../other/Hookaidofile", "${LINKF}", "${LINKSAME}",
	"${DIRLINK}/../cfgdir/Hookaidofile", "${CFGDIR}/../cfgdir/Hookaidofile", "${CFGDIR}/./Hookaidofile",
	"${CFGDIR}//Hookaidofile", "Hookaidofile", "./Hookaidofile", "../Hookaidofile", "${CFG}/", "${CFG}/.",
	" ${CFG}", "${CFG} ", "${CFGDIR}/hookaidofile", "${CFGDIR}/HOOKAIDOFILE", "", " ", "${ROOT}/newdir/Hookaidofile",
	"${CFGDIR}/Hookaidofile.bak", "${CFGDIR}", "${ROOT}/linkf/../cfgdir/Hookaidofile", "${PID}", "${RUN}/hookaido.db",
	"file://${CFG}", "${CFG}\t", "${CFG}#frag", "${CFG}?x=1",
}

var pidPool = []any{
	"${PID}", "${FPID}", "${RUN}/../run/hookaido.pid", "${RUN}/./hookaido.pid", "${RUN}/other.pid", "hookaido.pid",
	" ${PID} ", "${CFG}", "${OTHER}", "${RUN}/hookaido.db", "", "${RUN}", "${PID}.bak", "${RUN}//hookaido.pid",
	"${RUN}/HOOKAIDO.PID", "${RUN}/../run/foreign.pid",
}

var actorPool = []any{
	"${PRINCIPAL}", "mallory@example.test", "OPS@EXAMPLE.TEST", "${PRINCIPAL}x", " ${PRINCIPAL}", "${PRINCIPAL} ", "",
	"${PRINCIPAL}\n", "οps@example.test", "ops@example.test.evil", "ops", "*", "admin", float64(5), nil, true,
	[]any{"${PRINCIPAL}"}, map[string]any{"name": "${PRINCIPAL}"}, strings.Repeat("a", 300),
}

var extraKeyPool = []string{
	"x_unknown", "Path", "PATH", "path ", "pidFile", "pid-file", "actor_override", "force_write", "dry_run", "__proto__",
	"principal", "role", "enable_mutations", "config", "db", "Actor", "ACTOR", "Mode", "unsafe", "sudo",
}

var anyPool = []any{
	float64(0), float64(1), 1.5, float64(-1), true, false, "x", "", []any{}, []any{"x"}, []any{float64(1)},
	map[string]any{"a": float64(1)}, nil, "true", "1", strings.Repeat("z", 600),
}

var modePool = []any{"preview_only", "write_only", "write_and_reload", "WRITE_ONLY", " write_only ", "Preview_Only", "bogus", "", float64(7), nil}

var contentPool = []any{"${CONTENT_VALID}", "${CONTENT_VALID}", "${CONTENT_VALID_DOWN}", "${CONTENT_NOPARSE}", "${CONTENT_NOCOMPILE}", "", "   ", "{", "}",
	"\"/only\" {\n  deliver \"https://example.org/hook\" {}\n}\n", "\"/x\" {\n  pull {\n    path \"/pull/x\"\n  }\n}\n", float64(5), nil}

var idPool = []any{"q1", "q2", "q3", "l1", "d1", "d2", "d3", "c1", "c2", "c3", "v1", "nope", "", " d1 ", "D1", float64(1), nil}

func pick[T any](rng *rand.Rand, pool []T) T { return pool[rng.Intn(len(pool))] }

func sortedKeys(m map[string]any) []string {
	ks := make([]string, 0, len(m))
	for k := range m {
		ks = append(ks, k)
	}
	sort.Strings(ks)
	return ks
}

func mutateContent(rng *rand.Rand) string {
	// mutate the rendered valid candidate textually: the placeholder is expanded at execution time, so
	// compose around it
	switch rng.Intn(5) {
	case 0:
		return "${CONTENT_VALID}\n}\n"
	case 1:
		return "${CONTENT_VALID}\n\"/dup\" {\n  pull {\n    path \"/pull/r\"\n  }\n}\n" // duplicate pull path
	case 2:
		return "${CONTENT_VALID}\n\"/extra\" {\n  pull {\n    path \"/pull/extra\"\n  }\n}\n"
	case 3:
		return "garbage ${CONTENT_VALID}"
	default:
		return "${CONTENT_VALID}\n\"/mixed\" {\n  queue memory\n  pull {\n    path \"/pull/mixed\"\n  }\n}\n"
	}
}

type rctx struct {
	role               string
	mut, rc, principal bool
}

func randomContext(rng *rand.Rand) rctx {
	switch p := rng.Intn(100); {
	case p < 40:
		return rctx{"admin", true, true, true}
	case p < 50:
		return rctx{"operate", true, true, true}
	case p < 60:
		return rctx{"read", true, true, true}
	case p < 68:
		return rctx{"admin", false, true, true}
	case p < 76:
		return rctx{"admin", true, false, true}
	case p < 86:
		return rctx{"admin", true, true, false}
	default:
		return rctx{pick(rng, []string{"read", "operate", "admin"}), rng.Intn(2) == 0, rng.Intn(2) == 0, rng.Intn(2) == 0}
	}
}

// toolWeights favours the tools with side effects.
func randomTool(rng *rand.Rand) string {
	switch p := rng.Intn(100); {
	case p < 30:
		return pick(rng, []string{"config_apply", "management_endpoint_upsert", "management_endpoint_delete"})
	case p < 60:
		return pick(rng, []string{"dlq_requeue", "dlq_delete", "messages_cancel", "messages_requeue", "messages_resume",
			"messages_publish", "messages_cancel_by_filter", "messages_requeue_by_filter", "messages_resume_by_filter"})
	case p < 72:
		return pick(rng, []string{"instance_stop", "instance_reload", "instance_status", "instance_logs_tail"})
	case p < 75:
		return "instance_start"
	case p < 88:
		return pick(rng, []string{"config_parse", "config_validate", "config_compile", "config_fmt_preview", "config_diff"})
	default:
		return pick(rng, ToolNames)
	}
}

// GenRandom produces n random rows from seed.
func GenRandom(seed int64, n int) []Row {
	rng := rand.New(rand.NewSource(seed))
	rows := make([]Row, 0, n)
	for i := 0; i < n; i++ {
		tool := randomTool(rng)
		c := randomContext(rng)
		a := MinimalArgs(tool)
		health := "up"
		lifecycle := tool == "config_apply" || tool == "management_endpoint_upsert" || tool == "management_endpoint_delete"
		if lifecycle && rng.Intn(100) < 15 {
			health = "down"
		}
		if lifecycle {
			// keep the health wait short whatever else happens
			a["reload_timeout"] = pick(rng, []any{"300ms", "250ms", "1s"})
			if health == "down" {
				a["reload_timeout"] = "300ms"
			}
		}
		protected := map[string]bool{"reload_timeout": lifecycle, "timeout": true}
		nper := 1 + rng.Intn(3)
		for k := 0; k < nper; k++ {
			switch rng.Intn(12) {
			case 0: // path
				if hasDocKey(tool, "path") || rng.Intn(6) == 0 {
					a["path"] = pick(rng, pathPool)
				}
			case 1: // pid file
				if hasDocKey(tool, "pid_file") || rng.Intn(6) == 0 {
					a["pid_file"] = pick(rng, pidPool)
				}
			case 2, 3: // actor
				a["actor"] = pick(rng, actorPool)
			case 4: // undocumented key
				a[pick(rng, extraKeyPool)] = pick(rng, anyPool)
			case 5: // wrong type / other value for an existing key
				ks := sortedKeys(a)
				if len(ks) > 0 {
					k := pick(rng, ks)
					if !protected[k] {
						a[k] = pick(rng, anyPool)
					}
				}
			case 6: // drop a key
				ks := sortedKeys(a)
				if len(ks) > 0 {
					k := pick(rng, ks)
					if !protected[k] {
						delete(a, k)
					}
				}
			case 7: // mode
				if hasDocKey(tool, "mode") {
					a["mode"] = pick(rng, modePool)
				}
			case 8: // content
				if hasDocKey(tool, "content") {
					if rng.Intn(3) == 0 {
						a["content"] = mutateContent(rng)
					} else {
						a["content"] = pick(rng, contentPool)
					}
				}
			case 9: // ids
				if hasDocKey(tool, "ids") {
					m := rng.Intn(5)
					ids := make([]any, 0, m)
					for j := 0; j < m; j++ {
						ids = append(ids, pick(rng, idPool))
					}
					a["ids"] = ids
				}
			case 10: // filter knobs
				if hasDocKey(tool, "preview_only") {
					a["preview_only"] = pick(rng, []any{true, false, "true", float64(1)})
					if rng.Intn(2) == 0 {
						a["state"] = pick(rng, []any{"queued", "leased", "dead", "canceled", "delivered", "bogus"})
					}
					if rng.Intn(3) == 0 {
						delete(a, "route")
					}
				}
			case 11: // management selectors
				if hasDocKey(tool, "application") && lifecycle {
					a["application"] = pick(rng, []any{"billing", "erp", "nope", "bad label", ""})
					a["endpoint_name"] = pick(rng, []any{"invoice.created", "order.created", "nope", ""})
					if tool == "management_endpoint_upsert" {
						a["route"] = pick(rng, []any{"/u", "/r", "/m", "/missing", "u"})
					}
				}
			}
		}
		if lifecycle && health == "down" {
			a["reload_timeout"] = "300ms"
		}
		if tool == "instance_start" || tool == "instance_stop" || tool == "instance_reload" || tool == "instance_status" {
			if _, ok := a["timeout"]; !ok {
				a["timeout"] = "2s"
			}
		}
		wire := "object"
		switch p := rng.Intn(100); {
		case p < 2:
			wire, a = "absent", map[string]any{}
		case p < 4:
			wire, a = "nonobject", map[string]any{}
		}
		backend := "sqlite"
		if (hasDocKey(tool, "ids") || hasDocKey(tool, "items") || hasDocKey(tool, "preview_only") || hasDocKey(tool, "limit")) && rng.Intn(100) < 15 {
			backend = "proxy"
		}
		conf := "all"
		switch p := rng.Intn(100); {
		case p < 4 && (hasDocKey(tool, "path") || lifecycle):
			conf = "nocfg"
		case p < 7 && hasDocKey(tool, "pid_file"):
			conf = "nopid"
		case p < 9 && backend == "sqlite":
			conf = "nodb"
		}
		spell := "exact"
		if rng.Intn(100) < 6 {
			spell = pick(rng, []string{"trail_space", "lead_space", "trail_tab", "trail_newline", "lead_newline", "both_space", "crlf", "nbsp",
				"upper", "title", "dash", "dot_prefix"})
		}
		b, _ := json.Marshal(a)
		rows = append(rows, Row{ID: fmt.Sprintf("rnd-%d-%05d", seed, i), Tool: tool, Spell: spell, Role: c.role, Mut: c.mut, Rc: c.rc, Principal: c.principal,
			Actor: "absent", Shape: "random", Lab: Lab{Path: "none", Pid: "none", Actor: "absent", Mode: "none", Wire: wire, Backend: backend, Conf: conf}, ArgsTpl: string(b), Health: health})
	}
	return rows
}
