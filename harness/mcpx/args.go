package mcpx

import (
	"fmt"
	"os"
	"path/filepath"
	"strings"
)

// DocKeys are the documented top-level arguments of every tool (argument
// lists of internal/mcp/spec.md).  Used only to label a call as carrying an
// undocumented key.
var DocKeys = map[string][]string{
	"config_parse":               {"path"},
	"config_validate":            {"path", "strict_secrets"},
	"config_compile":             {"path"},
	"config_fmt_preview":         {"path"},
	"config_diff":                {"path", "content", "context"},
	"config_apply":               {"path", "content", "mode", "reload_timeout"},
	"admin_health":               {},
	"management_model":           {},
	"backlog_top_queued":         {"route", "target", "limit"},
	"backlog_oldest_queued":      {"route", "target", "limit"},
	"backlog_aging_summary":      {"route", "target", "limit", "states"},
	"backlog_trends":             {"route", "target", "window", "step", "until"},
	"management_endpoint_upsert": {"path", "application", "endpoint_name", "route", "reason", "actor", "request_id", "mode", "reload_timeout"},
	"management_endpoint_delete": {"path", "application", "endpoint_name", "reason", "actor", "request_id", "mode", "reload_timeout"},
	"messages_list":              {"route", "application", "endpoint_name", "target", "state", "limit", "before", "include_payload", "include_headers", "include_trace"},
	"attempts_list":              {"route", "application", "endpoint_name", "target", "event_id", "outcome", "limit", "before"},
	"dlq_list":                   {"route", "limit", "before", "include_payload", "include_headers", "include_trace"},
	"dlq_requeue":                {"reason", "actor", "request_id", "ids"},
	"dlq_delete":                 {"reason", "actor", "request_id", "ids"},
	"messages_cancel":            {"reason", "actor", "request_id", "ids"},
	"messages_requeue":           {"reason", "actor", "request_id", "ids"},
	"messages_resume":            {"reason", "actor", "request_id", "ids"},
	"messages_publish":           {"reason", "actor", "request_id", "items"},
	"messages_cancel_by_filter":  {"reason", "actor", "request_id", "route", "application", "endpoint_name", "target", "state", "before", "limit", "preview_only"},
	"messages_requeue_by_filter": {"reason", "actor", "request_id", "route", "application", "endpoint_name", "target", "state", "before", "limit", "preview_only"},
	"messages_resume_by_filter":  {"reason", "actor", "request_id", "route", "application", "endpoint_name", "target", "state", "before", "limit", "preview_only"},
	"instance_start":             {"pid_file", "timeout"},
	"instance_status":            {"pid_file", "timeout"},
	"instance_logs_tail":         {"pid_file", "max_lines", "max_bytes"},
	"instance_stop":              {"pid_file", "timeout", "force"},
	"instance_reload":            {"pid_file", "timeout"},
}

func hasDocKey(tool, key string) bool {
	for _, k := range DocKeys[tool] {
		if k == key {
			return true
		}
	}
	return false
}

// ToolNames lists the documented tools in a fixed order.
var ToolNames = []string{
	"config_parse", "config_validate", "config_compile", "config_fmt_preview", "config_diff", "config_apply",
	"admin_health", "management_model", "backlog_top_queued", "backlog_oldest_queued", "backlog_aging_summary",
	"backlog_trends", "management_endpoint_upsert", "management_endpoint_delete", "messages_list", "attempts_list",
	"dlq_list", "dlq_requeue", "dlq_delete", "messages_cancel", "messages_requeue", "messages_resume",
	"messages_publish", "messages_cancel_by_filter", "messages_requeue_by_filter", "messages_resume_by_filter",
	"instance_start", "instance_status", "instance_logs_tail", "instance_stop", "instance_reload",
}

// MinimalArgs is the per-tool table of valid minimal arguments (templates with
// ${...} placeholders): an allowed call with these arguments succeeds in the
// scratch environment and has an observable effect.
func MinimalArgs(tool string) map[string]any {
	switch tool {
	case "config_parse", "config_compile", "config_fmt_preview":
		return map[string]any{"path": "${CFG}"}
	case "config_validate":
		return map[string]any{"path": "${CFG}", "strict_secrets": false}
	case "config_diff":
		return map[string]any{"path": "${CFG}", "content": "${CONTENT_VALID}", "context": float64(3)}
	case "config_apply":
		return map[string]any{"path": "${CFG}", "content": "${CONTENT_VALID}", "mode": "write_only"}
	case "admin_health", "management_model":
		return map[string]any{}
	case "backlog_top_queued", "backlog_oldest_queued":
		return map[string]any{"route": "/r", "limit": float64(10)}
	case "backlog_aging_summary":
		return map[string]any{"route": "/r", "limit": float64(10), "states": []any{"queued", "dead"}}
	case "backlog_trends":
		return map[string]any{"window": "1h", "step": "5m"}
	case "management_endpoint_upsert":
		return map[string]any{"path": "${CFG}", "application": "erp", "endpoint_name": "order.created", "route": "/u", "reason": "verif_upsert"}
	case "management_endpoint_delete":
		return map[string]any{"path": "${CFG}", "application": "billing", "endpoint_name": "invoice.created", "reason": "verif_delete"}
	case "messages_list":
		return map[string]any{"route": "/r", "state": "queued", "limit": float64(10)}
	case "attempts_list":
		return map[string]any{"limit": float64(10)}
	case "dlq_list":
		return map[string]any{"route": "/r", "limit": float64(10)}
	case "dlq_requeue":
		return map[string]any{"reason": "verif", "ids": []any{"d1"}}
	case "dlq_delete":
		return map[string]any{"reason": "verif", "ids": []any{"d2"}}
	case "messages_cancel":
		return map[string]any{"reason": "verif", "ids": []any{"q1"}}
	case "messages_requeue":
		return map[string]any{"reason": "verif", "ids": []any{"c1"}}
	case "messages_resume":
		return map[string]any{"reason": "verif", "ids": []any{"c2"}}
	case "messages_publish":
		return map[string]any{"reason": "verif", "items": []any{map[string]any{"id": "pub1", "route": "/r", "target": "pull", "payload_b64": "eyJvayI6dHJ1ZX0="}}}
	case "messages_cancel_by_filter":
		return map[string]any{"reason": "verif", "route": "/r", "state": "queued", "limit": float64(10)}
	case "messages_requeue_by_filter":
		return map[string]any{"reason": "verif", "route": "/r", "state": "dead", "limit": float64(10)}
	case "messages_resume_by_filter":
		return map[string]any{"reason": "verif", "route": "/r", "state": "canceled", "limit": float64(10)}
	case "instance_start":
		return map[string]any{"pid_file": "${PID}", "timeout": "5s"}
	case "instance_status":
		return map[string]any{"pid_file": "${PID}", "timeout": "2s"}
	case "instance_logs_tail":
		return map[string]any{"pid_file": "${PID}", "max_lines": float64(10)}
	case "instance_stop":
		return map[string]any{"pid_file": "${PID}", "timeout": "3s", "force": true}
	case "instance_reload":
		return map[string]any{"pid_file": "${PID}", "timeout": "2s"}
	}
	return map[string]any{} // unknown names
}

func wrongTypeKey(tool string) (string, any) {
	switch tool {
	case "dlq_requeue", "dlq_delete", "messages_cancel", "messages_requeue", "messages_resume":
		return "ids", "d1"
	case "messages_publish":
		return "items", "pub1"
	case "messages_cancel_by_filter", "messages_requeue_by_filter", "messages_resume_by_filter":
		return "limit", true
	case "config_apply":
		return "mode", float64(7)
	case "management_endpoint_upsert", "management_endpoint_delete":
		return "reason", float64(5)
	default: // instance_*
		return "timeout", float64(5)
	}
}

// WireName spells the tool name as the row says.
func WireName(tool, spell string) (string, error) {
	switch spell {
	case "", "exact":
		return tool, nil
	case "trail_space":
		return tool + " ", nil
	case "lead_space":
		return " " + tool, nil
	case "trail_tab":
		return tool + "\t", nil
	case "trail_newline":
		return tool + "\n", nil
	case "lead_newline":
		return "\n" + tool, nil
	case "both_space":
		return "  " + tool + "  ", nil
	case "crlf":
		return tool + "\r\n", nil
	case "nbsp":
		return tool + "\u00a0", nil
	case "upper":
		return strings.ToUpper(tool), nil
	case "title":
		return strings.ToUpper(tool[:1]) + tool[1:], nil
	case "dash":
		return strings.ReplaceAll(tool, "_", "-"), nil
	case "dot_prefix":
		return "tools." + tool, nil
	}
	return "", fmt.Errorf("unknown spelling %q", spell)
}

// ActorValue is the concrete actor for an abstract actor class.
func ActorValue(class string) (string, bool) {
	switch class {
	case "equal":
		return "${PRINCIPAL}", true
	case "different":
		return "mallory@example.test", true
	}
	return "", false
}

// BuildArgs turns an abstract row printed by TLC into an argument template.
// The second result is the health of the admin endpoint named by the config file.
func BuildArgs(r Row) (map[string]any, string, error) {
	a := MinimalArgs(r.Tool)
	health := "up"
	if v, ok := ActorValue(r.Lab.Actor); ok {
		a["actor"] = v
	}
	switch r.Shape {
	case "minimal":
	case "proxy_minimal", "proxy_actor", "nodb_minimal":
	case "nocfg_path_scratch":
		a["path"] = "${CFG}" // exists, but the server was not given it
	case "nocfg_path_foreign":
		a["path"] = "${OTHER}"
	case "nocfg_path_newdir":
		a["path"] = "${ROOT}/newdir/Hookaidofile"
	case "nocfg_path_absent":
		delete(a, "path")
	case "nopid_pid_scratch":
		a["pid_file"] = "${PID}"
	case "nopid_pid_foreign":
		a["pid_file"] = "${FPID}"
	case "nopid_pid_absent":
		delete(a, "pid_file")
	case "args_absent", "args_nonobject":
		a = map[string]any{}
	case "extra_key":
		a["x_verif_unknown"] = "1"
	case "wrongtype":
		k, v := wrongTypeKey(r.Tool)
		a[k] = v
	case "path_absent":
		delete(a, "path")
	case "path_case_base":
		a["path"] = "${CFGDIR}/hookaidofile"
	case "path_case_dir":
		a["path"] = "${ROOT}/CFGDIR/Hookaidofile"
	case "path_dot":
		a["path"] = "${CFGDIR}/./Hookaidofile"
	case "path_trailing_slash":
		a["path"] = "${CFG}/"
	case "path_double_slash":
		a["path"] = "${CFGDIR}//Hookaidofile"
	case "pid_case_base":
		a["pid_file"] = "${RUN}/HOOKAIDO.PID"
	case "pid_dot":
		a["pid_file"] = "${RUN}/./hookaido.pid"
	case "path_foreign":
		a["path"] = "${OTHER}"
	case "path_dotdot_foreign":
		a["path"] = "${CFGDIR}/../other/Hookaidofile"
	case "path_symlink_foreign":
		a["path"] = "${LINKF}"
	case "path_dirlink_dotdot":
		a["path"] = "${DIRLINK}/../cfgdir/Hookaidofile" // lexically the configured file, physically other/cfgdir/Hookaidofile
	case "path_relative":
		a["path"] = "Hookaidofile"
	case "path_alias_dotdot":
		a["path"] = "${CFGDIR}/../cfgdir/Hookaidofile"
	case "path_alias_symlink":
		a["path"] = "${LINKSAME}"
	case "path_badtype":
		a["path"] = float64(123)
	case "pid_absent":
		delete(a, "pid_file")
	case "pid_foreign":
		a["pid_file"] = "${FPID}"
	case "pid_alias_dotdot":
		a["pid_file"] = "${RUN}/../run/hookaido.pid"
	case "pid_badtype":
		a["pid_file"] = float64(123)
	case "actor_case":
		a["actor"] = strings.ToUpper(PrincipalName)
	case "actor_suffix":
		a["actor"] = PrincipalName + "x"
	case "content_noparse_preview", "content_noparse_write", "content_noparse_reload":
		a["content"] = "${CONTENT_NOPARSE}"
	case "content_nocompile_preview", "content_nocompile_write", "content_nocompile_reload":
		a["content"] = "${CONTENT_NOCOMPILE}"
	case "content_valid_preview", "content_valid_reload_up":
	case "content_valid_reload_down":
		a["content"] = "${CONTENT_VALID_DOWN}"
	case "content_badtype":
		a["content"] = float64(5)
	case "mode_bogus":
		a["mode"] = "write_everywhere"
	case "mode_preview":
		a["mode"] = "preview_only"
	case "mode_reload_up":
		a["mode"] = "write_and_reload"
		a["reload_timeout"] = "2s"
	case "mode_reload_down":
		a["mode"] = "write_and_reload"
		a["reload_timeout"] = "300ms"
		health = "down"
	default:
		return nil, "", fmt.Errorf("unknown shape %q", r.Shape)
	}
	switch {
	case strings.HasSuffix(r.Shape, "_preview") && r.Tool == "config_apply":
		a["mode"] = "preview_only"
	case strings.HasSuffix(r.Shape, "_write") && r.Tool == "config_apply":
		a["mode"] = "write_only"
	case strings.HasSuffix(r.Shape, "_reload") && r.Tool == "config_apply":
		a["mode"] = "write_and_reload"
		a["reload_timeout"] = "2s"
	case r.Shape == "content_valid_reload_up":
		a["mode"] = "write_and_reload"
		a["reload_timeout"] = "2s"
	case r.Shape == "content_valid_reload_down":
		a["mode"] = "write_and_reload"
		a["reload_timeout"] = "300ms"
	}
	return a, health, nil
}

// Subst replaces placeholders in every string of a decoded JSON value.
func Subst(v any, rep *strings.Replacer) any {
	switch x := v.(type) {
	case string:
		return rep.Replace(x)
	case []any:
		out := make([]any, len(x))
		for i := range x {
			out[i] = Subst(x[i], rep)
		}
		return out
	case map[string]any:
		out := make(map[string]any, len(x))
		for k, w := range x {
			out[rep.Replace(k)] = Subst(w, rep)
		}
		return out
	}
	return v
}

// classifyPath labels a path argument against the configured file: "none",
// "configured" (the configured string), "alias" (another spelling that
// resolves to the same file), "foreign" (anything else), "badtype".
func classifyPath(args map[string]any, key, configured string) string {
	raw, ok := args[key]
	if !ok {
		return "none"
	}
	s, ok := raw.(string)
	if !ok {
		return "badtype"
	}
	t := strings.TrimSpace(s)
	if configured == "" { // nothing configured: nothing is the configured path
		if t == "" {
			return "none"
		}
		return "foreign"
	}
	if t == "" {
		return "none"
	}
	if t == configured { // surrounding white space is trimmed from every string argument
		return "configured"
	}
	abs := t // never cleaned lexically: "link/.." must be resolved the way the kernel resolves it
	if !filepath.IsAbs(abs) {
		wd, err := os.Getwd()
		if err != nil {
			return "foreign"
		}
		abs = wd + string(filepath.Separator) + abs
	}
	want := resolvePath(configured)
	got := resolvePath(abs)
	if got != "" && got == want {
		return "alias"
	}
	return "foreign"
}

// resolvePath resolves symlinks of the directory part physically (the file
// itself may not exist, e.g. a pid file) and of the file when it exists.
func resolvePath(p string) string {
	if r, err := filepath.EvalSymlinks(p); err == nil {
		return r
	}
	i := strings.LastIndexByte(p, filepath.Separator)
	if i <= 0 || i == len(p)-1 {
		return ""
	}
	base := p[i+1:]
	if base == "." || base == ".." {
		return ""
	}
	dir, err := filepath.EvalSymlinks(p[:i])
	if err != nil {
		return ""
	}
	return filepath.Join(dir, base)
}

// Classify computes the ground-truth labels of concrete arguments.
func Classify(tool string, args map[string]any, env *Env, principal string) Real {
	r := Real{Path: "none", Pid: "none", Actor: "absent", Mode: "none"}
	_, known := DocKeys[tool]
	if known && hasDocKey(tool, "path") {
		r.Path = classifyPath(args, "path", env.ServerCfg())
	}
	if known && hasDocKey(tool, "pid_file") {
		r.Pid = classifyPath(args, "pid_file", env.ServerPID())
	}
	if raw, ok := args["actor"]; ok {
		if s, ok := raw.(string); !ok {
			r.Actor = "badtype"
		} else if t := strings.TrimSpace(s); t == "" {
			r.Actor = "absent"
		} else if principal != "" && t == principal {
			r.Actor = "equal"
		} else {
			r.Actor = "different"
		}
	}
	if known {
		for k := range args {
			if !hasDocKey(tool, k) {
				r.Extra = true
			}
		}
	}
	if known && hasDocKey(tool, "mode") {
		raw, ok := args["mode"]
		s, isStr := raw.(string)
		switch {
		case !ok || (isStr && strings.TrimSpace(s) == ""):
			r.Mode = "default" // management_endpoint_*: write_only
			if tool == "config_apply" {
				r.Mode = "preview_only" // documented default of config_apply
			}
		case !isStr:
			r.Mode = "other"
		default:
			switch m := strings.ToLower(strings.TrimSpace(s)); m {
			case "preview_only", "write_only", "write_and_reload":
				r.Mode = m
			default:
				r.Mode = "other"
			}
		}
	}
	return r
}
