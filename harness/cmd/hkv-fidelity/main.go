// hkv-fidelity executes TLC-generated journeys (FidelityGen) of one message
// through an in-process hookaido wired by app.VerifBoot and writes one ndjson
// event per observation (C07: end-to-end payload and header fidelity).
//
//	hkv-fidelity run -sched <file> -out <trace> [-shard i/n] [-seed s] [-scratch dir]
//
// The last line on stdout is a JSON summary.
package main

import (
	"bufio"
	"encoding/json"
	"flag"
	"fmt"
	"os"
	"strconv"
	"strings"

	"github.com/nuetzliches/hookaido/verif/fidelity"
)

func main() {
	if len(os.Args) < 2 || os.Args[1] != "run" {
		fmt.Fprintln(os.Stderr, "usage: hkv-fidelity run -sched file -out trace [-shard i/n] [-seed s] [-scratch dir]")
		os.Exit(2)
	}
	fs := flag.NewFlagSet("run", flag.ExitOnError)
	sched := fs.String("sched", "", "schedule file (ndjson: {name, ops})")
	out := fs.String("out", "", "trace file to write")
	shard := fs.String("shard", "0/1", "execute schedules with index % n == i")
	seed := fs.Int64("seed", 1, "seed for the choice of class representatives")
	scratch := fs.String("scratch", "", "scratch directory (config and database files)")
	_ = fs.Parse(os.Args[2:])
	if *sched == "" || *out == "" {
		fmt.Fprintln(os.Stderr, "-sched and -out are required")
		os.Exit(2)
	}
	si, sn := 0, 1
	if p := strings.SplitN(*shard, "/", 2); len(p) == 2 {
		si, _ = strconv.Atoi(p[0])
		sn, _ = strconv.Atoi(p[1])
	}
	if sn <= 0 || si < 0 || si >= sn {
		fmt.Fprintln(os.Stderr, "bad -shard")
		os.Exit(2)
	}
	dir := *scratch
	if dir == "" {
		dir = os.TempDir()
	}
	work, err := os.MkdirTemp(dir, "fid-")
	if err != nil {
		fmt.Fprintln(os.Stderr, err)
		os.Exit(2)
	}
	defer os.RemoveAll(work)

	in, err := os.Open(*sched)
	if err != nil {
		fmt.Fprintln(os.Stderr, err)
		os.Exit(2)
	}
	defer in.Close()
	of, err := os.Create(*out)
	if err != nil {
		fmt.Fprintln(os.Stderr, err)
		os.Exit(2)
	}
	w := bufio.NewWriterSize(of, 1<<20)

	aux := fidelity.NewAux()
	defer aux.Close()
	r := &fidelity.Runner{Aux: aux, Seed: *seed, Scratch: work, Out: w}

	sc := bufio.NewScanner(in)
	sc.Buffer(make([]byte, 1<<20), 64<<20)
	idx := 0
	for sc.Scan() {
		line := sc.Bytes()
		if len(line) == 0 {
			continue
		}
		mine := idx%sn == si
		idx++
		if !mine {
			continue
		}
		var s fidelity.Schedule
		if err := json.Unmarshal(line, &s); err != nil {
			fmt.Fprintln(os.Stderr, "bad schedule line:", err)
			os.Exit(2)
		}
		if err := r.Run(s); err != nil {
			_ = w.Flush()
			fmt.Fprintln(os.Stderr, "journey failed:", err)
			os.RemoveAll(work)
			os.Exit(3)
		}
	}
	if err := sc.Err(); err != nil {
		fmt.Fprintln(os.Stderr, err)
		os.Exit(2)
	}
	if err := w.Flush(); err != nil {
		fmt.Fprintln(os.Stderr, err)
		os.Exit(2)
	}
	_ = of.Close()
	sum, _ := json.Marshal(map[string]any{"journeys": r.Journeys, "events": r.Events, "shard": *shard})
	fmt.Println(string(sum))
}
