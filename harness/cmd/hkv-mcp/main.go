// Command hkv-mcp executes rows of the C20 gating table (spec/McpGate.tla) on
// a real mcp.Server over the stdio JSON-RPC framing and records one ndjson
// event per call for trace validation (spec/McpGateTrace.tla).
//
//	hkv-mcp exec -rows rows.ndjson -out trace -shards N [-scratch dir] [-binary hookaido]
//	    executes every row; shard i (a child process, rows are executed one
//	    after the other inside a shard because the write hook is process
//	    global) writes trace.i
//	hkv-mcp gen-random -seed S -n N -out rows.ndjson
//	    seeded random argument shapes
//	hkv-mcp run ... / hkv-mcp victim ...
//	    stub standing in for `hookaido run` (started by instance_start) or for
//	    the process named by a pid file
package main

import (
	"bufio"
	"encoding/json"
	"flag"
	"fmt"
	"os"
	"os/exec"
	"path/filepath"
	"strconv"
	"sync"
	"time"

	"github.com/nuetzliches/hookaido/verif/mcpx"
)

func main() {
	if len(os.Args) < 2 {
		fmt.Fprintln(os.Stderr, "usage: hkv-mcp exec|exec-shard|gen-random|run|victim ...")
		os.Exit(2)
	}
	var err error
	switch os.Args[1] {
	case "run":
		os.Exit(mcpx.StubMain(os.Args[2:], true))
	case "victim":
		os.Exit(mcpx.StubMain(os.Args[2:], false))
	case "exec":
		err = execAll(os.Args[2:])
	case "exec-shard":
		err = execShard(os.Args[2:])
	case "gen-random":
		err = genRandom(os.Args[2:])
	default:
		err = fmt.Errorf("unknown command %q", os.Args[1])
	}
	if err != nil {
		fmt.Fprintln(os.Stderr, "hkv-mcp:", err)
		os.Exit(2)
	}
}

func readRows(path string) ([]mcpx.Row, error) {
	f, err := os.Open(path)
	if err != nil {
		return nil, err
	}
	defer f.Close()
	var rows []mcpx.Row
	sc := bufio.NewScanner(f)
	sc.Buffer(make([]byte, 1<<20), 1<<26)
	for sc.Scan() {
		if len(sc.Bytes()) == 0 {
			continue
		}
		var r mcpx.Row
		if err := json.Unmarshal(sc.Bytes(), &r); err != nil {
			return nil, fmt.Errorf("%s: %w", path, err)
		}
		if r.ID == "" {
			r.ID = "row-" + strconv.Itoa(len(rows))
		}
		rows = append(rows, r)
	}
	return rows, sc.Err()
}

func execAll(args []string) error {
	fs := flag.NewFlagSet("exec", flag.ExitOnError)
	rowsPath := fs.String("rows", "", "rows (ndjson)")
	out := fs.String("out", "trace", "trace output prefix (out.0, out.1, ...)")
	shards := fs.Int("shards", 1, "number of shard processes")
	scratch := fs.String("scratch", "", "scratch directory")
	binary := fs.String("binary", "", "run every row against this hookaido binary (`hookaido mcp serve`) instead of the in-process server")
	_ = fs.Parse(args)
	for _, p := range []*string{rowsPath, out, scratch, binary} { // the shards change directory
		if *p != "" {
			if abs, err := filepath.Abs(*p); err == nil {
				*p = abs
			}
		}
	}
	rows, err := readRows(*rowsPath)
	if err != nil {
		return err
	}
	if *shards < 1 {
		*shards = 1
	}
	if *shards > len(rows) && len(rows) > 0 {
		*shards = len(rows)
	}
	exe, err := os.Executable()
	if err != nil {
		return err
	}
	sd := *scratch
	if sd == "" {
		if sd, err = os.MkdirTemp("", "hkv-mcp-"); err != nil {
			return err
		}
		defer os.RemoveAll(sd)
	}
	var wg sync.WaitGroup
	errs := make([]error, *shards)
	for i := 0; i < *shards; i++ {
		wg.Add(1)
		go func(i int) {
			defer wg.Done()
			cmd := exec.Command(exe, "exec-shard", "-rows", *rowsPath, "-out", fmt.Sprintf("%s.%d", *out, i),
				"-shard", strconv.Itoa(i), "-of", strconv.Itoa(*shards), "-scratch", filepath.Join(sd, "shard-"+strconv.Itoa(i)),
				"-binary", *binary)
			cmd.Stderr = os.Stderr
			if err := cmd.Run(); err != nil {
				errs[i] = fmt.Errorf("shard %d: %w", i, err)
			}
		}(i)
	}
	wg.Wait()
	for _, e := range errs {
		if e != nil {
			return e
		}
	}
	b, _ := json.Marshal(map[string]any{"rows": len(rows), "shards": *shards})
	fmt.Println(string(b))
	return nil
}

func execShard(args []string) error {
	fs := flag.NewFlagSet("exec-shard", flag.ExitOnError)
	rowsPath := fs.String("rows", "", "rows (ndjson)")
	out := fs.String("out", "trace.0", "trace output")
	shard := fs.Int("shard", 0, "shard index")
	of := fs.Int("of", 1, "number of shards")
	scratch := fs.String("scratch", "", "scratch directory")
	binary := fs.String("binary", "", "hookaido binary (layer L2)")
	_ = fs.Parse(args)
	rows, err := readRows(*rowsPath)
	if err != nil {
		return err
	}
	if err := os.MkdirAll(*scratch, 0o755); err != nil {
		return err
	}
	defer os.RemoveAll(*scratch)
	cwd := filepath.Join(*scratch, "cwd")
	if err := os.MkdirAll(cwd, 0o755); err != nil {
		return err
	}
	if err := os.Chdir(cwd); err != nil { // relative paths in arguments must never leave the scratch area
		return err
	}
	x, err := mcpx.NewExecutor(*scratch)
	if err != nil {
		return err
	}
	defer x.Close()
	x.Binary = *binary
	x.Cwd = cwd
	f, err := os.Create(*out)
	if err != nil {
		return err
	}
	defer f.Close()
	w := bufio.NewWriterSize(f, 1<<20)
	defer w.Flush()
	enc := json.NewEncoder(w)
	enc.SetEscapeHTML(false)
	for i, r := range rows {
		if i%*of != *shard {
			continue
		}
		ev, err := x.Run(r)
		if err != nil { // could not be executed (not an observation): once more, in a fresh environment
			first := err.Error()
			fmt.Fprintln(os.Stderr, "hkv-mcp: retrying after:", first)
			time.Sleep(500 * time.Millisecond)
			if ev, err = x.Run(r); err != nil {
				return fmt.Errorf("%w (first attempt: %s)", err, first)
			}
			if len(first) > 200 {
				first = first[:200]
			}
			ev.Retried = first
		}
		if err := enc.Encode(ev); err != nil {
			return err
		}
	}
	return nil
}

func genRandom(args []string) error {
	fs := flag.NewFlagSet("gen-random", flag.ExitOnError)
	seed := fs.Int64("seed", 1, "seed")
	n := fs.Int("n", 100, "number of rows")
	out := fs.String("out", "random.ndjson", "output")
	_ = fs.Parse(args)
	f, err := os.Create(*out)
	if err != nil {
		return err
	}
	defer f.Close()
	w := bufio.NewWriter(f)
	defer w.Flush()
	enc := json.NewEncoder(w)
	enc.SetEscapeHTML(false)
	for _, r := range mcpx.GenRandom(*seed, *n) {
		if err := enc.Encode(r); err != nil {
			return err
		}
	}
	return nil
}
