// Command hkv-dispatch executes dispatcher behaviours (C06) on the real
// PushDispatcher and writes their traces.
//
//	hkv-dispatch run -in runs.ndjson -out trace -shards N [-scratch dir] [-summary file]
//	hkv-dispatch compile -in directives.txt        (one `retry` directive per line -> accepted / rejected)
//
// Traces go to trace.0 .. trace.N-1 (trace if N = 1); the behaviours of one
// shard are contiguous, each started by a Reset event.  The last stdout line
// is a JSON summary.
package main

import (
	"bufio"
	"encoding/json"
	"flag"
	"fmt"
	"os"
	"strings"
	"sync"

	"github.com/nuetzliches/hookaido/verif/dsp"
)

func main() {
	if len(os.Args) < 2 {
		fmt.Fprintln(os.Stderr, "usage: hkv-dispatch run|compile [flags]")
		os.Exit(2)
	}
	var err error
	switch os.Args[1] {
	case "run":
		err = cmdRun(os.Args[2:])
	case "compile":
		err = cmdCompile(os.Args[2:])
	default:
		err = fmt.Errorf("unknown command %q", os.Args[1])
	}
	if err != nil {
		fmt.Fprintln(os.Stderr, "hkv-dispatch:", err)
		os.Exit(2)
	}
}

func shardName(out string, n, i int) string {
	if n == 1 {
		return out
	}
	return fmt.Sprintf("%s.%d", out, i)
}

func cmdRun(args []string) error {
	fs := flag.NewFlagSet("run", flag.ExitOnError)
	in := fs.String("in", "", "runs (ndjson)")
	out := fs.String("out", "trace.ndjson", "trace output prefix")
	shards := fs.Int("shards", 1, "trace files = parallel executors")
	scratch := fs.String("scratch", "", "scratch dir for sqlite files")
	summary := fs.String("summary", "", "per-run summaries (ndjson)")
	_ = fs.Parse(args)
	if *shards < 1 {
		*shards = 1
	}
	sd := *scratch
	if sd == "" {
		d, err := os.MkdirTemp("", "hkv-dispatch-")
		if err != nil {
			return err
		}
		defer os.RemoveAll(d)
		sd = d
	}
	f, err := os.Open(*in)
	if err != nil {
		return err
	}
	defer f.Close()
	var runs []*dsp.Run
	sc := bufio.NewScanner(f)
	sc.Buffer(make([]byte, 1<<20), 1<<26)
	for sc.Scan() {
		line := strings.TrimSpace(sc.Text())
		if line == "" {
			continue
		}
		var r dsp.Run
		if err := json.Unmarshal([]byte(line), &r); err != nil {
			return fmt.Errorf("bad run: %w", err)
		}
		runs = append(runs, &r)
	}
	if err := sc.Err(); err != nil {
		return err
	}

	type agg struct {
		Runs, Traces, Events, Delivers, Leases, BatchCalls, BatchMulti, Aborted, Rejected, MaxGated int
	}
	var mu sync.Mutex
	total := agg{Runs: len(runs)}
	var sums []dsp.Summary
	var firstErr error
	var wg sync.WaitGroup
	for s := 0; s < *shards; s++ {
		wg.Add(1)
		go func(s int) {
			defer wg.Done()
			of, err := os.Create(shardName(*out, *shards, s))
			if err != nil {
				mu.Lock()
				if firstErr == nil {
					firstErr = err
				}
				mu.Unlock()
				return
			}
			defer of.Close()
			w := bufio.NewWriterSize(of, 1<<20)
			defer w.Flush()
			for i := s; i < len(runs); i += *shards {
				mu.Lock()
				stop := firstErr != nil
				mu.Unlock()
				if stop {
					return
				}
				evs, sum, err := dsp.Execute(runs[i], sd, i)
				if err == nil {
					for _, ev := range evs {
						b, merr := json.Marshal(ev)
						if merr != nil {
							err = merr
							break
						}
						_, _ = w.Write(append(b, '\n'))
					}
				}
				mu.Lock()
				if err != nil && firstErr == nil {
					firstErr = err
				}
				sums = append(sums, sum)
				if sum.Rejected != "" {
					total.Rejected++
				} else if err == nil {
					total.Traces++
				}
				total.Events += sum.Events
				total.Delivers += sum.Delivers
				total.Leases += sum.Leases
				total.BatchCalls += sum.BatchCalls
				total.BatchMulti += sum.BatchMulti
				if sum.Aborted {
					total.Aborted++
				}
				if sum.MaxGated > total.MaxGated {
					total.MaxGated = sum.MaxGated
				}
				mu.Unlock()
			}
		}(s)
	}
	wg.Wait()
	if firstErr != nil {
		return firstErr
	}
	if *summary != "" {
		sf, err := os.Create(*summary)
		if err != nil {
			return err
		}
		w := bufio.NewWriter(sf)
		for _, s := range sums {
			b, _ := json.Marshal(s)
			_, _ = w.Write(append(b, '\n'))
		}
		_ = w.Flush()
		_ = sf.Close()
	}
	b, _ := json.Marshal(map[string]any{"runs": total.Runs, "traces": total.Traces, "events": total.Events, "delivers": total.Delivers,
		"leases": total.Leases, "batch_calls": total.BatchCalls, "batch_multi": total.BatchMulti, "aborted": total.Aborted,
		"rejected": total.Rejected, "max_gated": total.MaxGated})
	fmt.Println(string(b))
	return nil
}

func cmdCompile(args []string) error {
	fs := flag.NewFlagSet("compile", flag.ExitOnError)
	in := fs.String("in", "", "one retry directive per line")
	_ = fs.Parse(args)
	f, err := os.Open(*in)
	if err != nil {
		return err
	}
	defer f.Close()
	sc := bufio.NewScanner(f)
	for sc.Scan() {
		d := strings.TrimSpace(sc.Text())
		if d == "" {
			continue
		}
		rc, rej, err := dsp.CompileRetry(d)
		if err != nil {
			return err
		}
		b, _ := json.Marshal(map[string]any{"directive": d, "accepted": rej == "", "rejected": rej, "max": rc.Max, "base_ns": int64(rc.Base),
			"cap_ns": int64(rc.Cap), "jitter": rc.Jitter})
		fmt.Println(string(b))
	}
	return sc.Err()
}
