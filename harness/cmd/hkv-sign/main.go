// Command hkv-sign executes the abstract rows of spec/SigningMC.tla (property C17) on the real code.
//
// Outbound (kinds "out", "un"): real dispatcher.HTTPDeliverer.Deliver with its clock seam (Now) injected and a
// recording transport that looks at the request as the target would (serialised with Request.Write, parsed back
// with http.ReadRequest).  The signing configuration is what app.buildDispatchRoutes builds: a generated
// Hookaidofile (secrets block, sign hmac secret_ref ...) goes through config.Parse + config.Compile and the
// compiled deliver block is copied field by field.  Secret values are env: references the tool sets.  The tool
// recomputes HMAC-SHA256 for EVERY candidate secret and reports which version signed.
//
// Inbound (kind "in"): production wiring through app.VerifBoot with a generated configuration whose routes have
// auth hmac secret_ref ... for each version set, fake clock through VerifOptions.Now, requests signed by the tool.
//
//	hkv-sign run -rows rows.ndjson -out trace -shards 16 -per 3 -seed 1
//	hkv-sign one -event '<json event>' -out file
package main

import (
	"bufio"
	"bytes"
	"context"
	"crypto/hmac"
	"crypto/sha256"
	"encoding/hex"
	"encoding/json"
	"flag"
	"fmt"
	"hash/fnv"
	"io"
	"log/slog"
	"math/rand"
	"net/http"
	"net/http/httptest"
	"os"
	"path/filepath"
	"runtime/pprof"
	"sort"
	"strconv"
	"strings"
	"sync"
	"sync/atomic"
	"time"

	"github.com/nuetzliches/hookaido/internal/app"
	"github.com/nuetzliches/hookaido/internal/config"
	"github.com/nuetzliches/hookaido/internal/dispatcher"
	"github.com/nuetzliches/hookaido/internal/queue"
)

const (
	Base = 1767225600 // 2026-01-01T00:00:00Z
	Unit = 100        // seconds per abstract tick
	Open = 99
)

type window struct {
	From  int `json:"from"`
	Until int `json:"until"`
}

type row struct {
	Kind   string   `json:"kind"`
	Vs     []window `json:"vs"`
	Mode   string   `json:"mode"`
	T      int      `json:"t"`
	Un     int      `json:"un"`
	Signer int      `json:"signer"`
	Off    int      `json:"off"`
	Code   int      `json:"code"`
}

// conc: the concrete input; everything the trace specification needs to tie the concrete values to the abstract row
type conc struct {
	Variant int      `json:"variant"`
	IDs     []string `json:"ids"`   // id of version 1..n (ascending)
	Order   []int    `json:"order"` // order in which the versions are listed in the configuration (1-based)
	FromS   []int64  `json:"from_s"`
	UntilS  []int64  `json:"until_s"` // 0 = none
	NowS    int64    `json:"now_s"`   // injected clock / signed timestamp, unix seconds (floor)
	NowNS   int64    `json:"now_ns"`  // nanoseconds within the second
	Sub     int64    `json:"sub"`     // now_s - (Base + t*Unit)
	WallS   int64    `json:"wall_s"`  // inbound: the verifier's clock
	Method  string   `json:"method"`
	URL     string   `json:"url"`
	Path    string   `json:"path"` // the escaped path the target must see ("/" for an empty path)
	BodyK   string   `json:"body"`
	BodyLen int      `json:"bodylen"`
	SigHdr  string   `json:"sighdr"`
	TsHdr   string   `json:"tshdr"`
	Unset   []int    `json:"unset"` // versions whose env variable is unset
	Code    int      `json:"code"`  // redir: status the first hop answers with
	Via     string   `json:"via"`   // "deliverer" (HTTPDeliverer.Deliver called directly) | "dispatcher" (through PushDispatcher)
	Config  string   `json:"config"`
}

type obs struct {
	Sent    bool   `json:"sent"`
	N       int    `json:"n"`       // requests seen by the target
	Signer  int    `json:"signer"`  // version whose secret reproduces the signature header (0 none / nothing sent)
	Matches int    `json:"matches"` // number of candidate secrets reproducing it
	HasSig  bool   `json:"hassig"`
	HasTs   bool   `json:"hasts"`
	Ts      string `json:"ts"`      // timestamp header text
	Path    string `json:"path"`    // path of the request line (query cut off)
	Method  string `json:"method"`  // method of the request line
	BodyOK  bool   `json:"bodyok"`  // the target received exactly the delivery body
	SigBody bool   `json:"sigbody"` // the signature verifies over the body the target received
	Err     string `json:"err"`
	Status  int    `json:"status"`  // inbound: HTTP status
	Delta   int    `json:"delta"`   // inbound: messages added to the queue
	Route   string `json:"route"`   // inbound: route of the added message ("" if none)
	Payload bool   `json:"payload"` // inbound: the added message carries the request body
	Valid   []bool `json:"valid"`   // redir: per request sent, does its signature header verify over this very request
	Methods string `json:"methods"` // redir: methods of the requests sent
	State   string `json:"state"`   // via dispatcher: final state of the message
}

type event struct {
	Ev   string          `json:"ev"`
	ID   int             `json:"id"`
	Seed int64           `json:"seed"`
	Row  json.RawMessage `json:"row"`
	Conc *conc           `json:"conc"`
	Obs  obs             `json:"obs"`
}

func main() {
	if len(os.Args) < 2 {
		fmt.Fprintln(os.Stderr, "usage: hkv-sign run|one [flags]")
		os.Exit(2)
	}
	var err error
	switch os.Args[1] {
	case "run":
		err = run(os.Args[2:])
	case "one":
		err = one(os.Args[2:])
	case "probe-redirect":
		err = probeRedirect()
	default:
		err = fmt.Errorf("unknown command %q", os.Args[1])
	}
	if err != nil {
		fmt.Fprintln(os.Stderr, "hkv-sign:", err)
		os.Exit(2)
	}
}

// ---- concretisation ----------------------------------------------------------------------------------------------

var idSchemes = [][]string{
	{"S1", "S2", "S3"},
	{"key-a", "key-b", "key-c"},
	{"2026-01", "2026-02", "2026-03"},
	{"A", "B", "C"},
	{"rot_10", "rot_20", "rot_30"},
}

var perms = map[int][][]int{
	1: {{1}},
	2: {{1, 2}, {2, 1}},
	3: {{1, 2, 3}, {3, 2, 1}, {2, 3, 1}, {1, 3, 2}, {3, 1, 2}, {2, 1, 3}},
}

type pathCase struct{ raw, want string }

// raw: what follows the authority in the target URL; want: the escaped path the target must see in the request line
var pathCases = []pathCase{
	{"/hook", "/hook"},
	{"", "/"},
	{"/", "/"},
	{"/a%20b/c%2Fd", "/a%20b/c%2Fd"},
	{"/hook?x=1&y=%2F", "/hook"},
	{"?only=query", "/"},
	{"/v1/events/", "/v1/events/"},
	{"/caf%C3%A9/%E2%9C%93", "/caf%C3%A9/%E2%9C%93"},
	{"/a/../b/./c", "/a/../b/./c"},
	{"//double//slash", "//double//slash"},
	{"/semi;colon=1,comma:colon@at", "/semi;colon=1,comma:colon@at"},
	{"/plus+sign&amp=1", "/plus+sign&amp=1"},
	{"/café", "/caf%C3%A9"},
	{"/hook#frag", "/hook"},
	{"/%7Etilde~/$dollar'(x)*!", "/%7Etilde~/$dollar'(x)*!"},
	{"/lower%2fslash%3a", "/lower%2fslash%3a"},
}

var methods = []string{"", "POST", "PUT", "PATCH", "DELETE"}

var bodyKinds = []string{"json", "empty", "binary", "large", "text"}

func bodyFor(kind string, rng *rand.Rand) []byte {
	switch kind {
	case "empty":
		return []byte{}
	case "binary":
		b := make([]byte, 512)
		for i := range b {
			b[i] = byte(i)
		}
		rng.Shuffle(len(b), func(i, j int) { b[i], b[j] = b[j], b[i] })
		return b
	case "large":
		b := make([]byte, 256*1024+rng.Intn(1024))
		rng.Read(b)
		return b
	case "text":
		return []byte("line1\nline2\r\n\ttab ✓ end\n")
	}
	return []byte(fmt.Sprintf(`{"id":%d,"event":"push"}`, rng.Intn(1000000)))
}

func secretFor(k int, variant int, rng *rand.Rand) string {
	const alpha = "abcdefghijklmnopqrstuvwxyzABCDEFGHIJKLMNOPQRSTUVWXYZ0123456789-_=+/.:;,!#$%&*()[]{}<>?@^~|"
	n := 16 + rng.Intn(48)
	b := make([]byte, n)
	for i := range b {
		b[i] = alpha[rng.Intn(len(alpha))]
	}
	return fmt.Sprintf("v%d-", k) + string(b)
}

func rfc3339(sec int64, variant int) string {
	t := time.Unix(sec, 0).UTC()
	switch variant % 3 {
	case 1:
		return t.In(time.FixedZone("", 2*3600)).Format(time.RFC3339)
	case 2:
		return t.In(time.FixedZone("", -(5*3600 + 30*60))).Format(time.RFC3339)
	}
	return t.Format(time.RFC3339)
}

func tickToSec(k int) int64 { return Base + int64(k)*Unit }

type prepared struct {
	c       *conc
	secrets []string // value of version 1..n
	body    []byte
	envs    []string // env variable of version 1..n
}

// norm: TLC's JSON reader has no null
func (e *event) norm() *event {
	if e.Obs.Valid == nil {
		e.Obs.Valid = []bool{}
	}
	return e
}

func evName(r *row) string {
	if r.Kind == "redir" {
		return "Redir"
	}
	return "Out"
}

func rngFor(seed int64, id, variant int) *rand.Rand {
	return rand.New(rand.NewSource(seed*1000003 + int64(id)*131 + int64(variant)))
}

// prepare builds the concrete instance (without executing it).  envPrefix makes the env: references of concurrently
// running workers distinct.
func prepare(r *row, id, variant int, seed int64, envPrefix string) *prepared {
	rng := rngFor(seed, id, variant)
	n := len(r.Vs)
	c := &conc{Variant: variant, Unset: []int{}}
	// naming scheme and listing order depend on the version set only, so that the rows of one version set (all t)
	// share their generated configuration
	h := 0
	for _, w := range r.Vs {
		h = h*31 + w.From*7 + w.Until
	}
	c.IDs = append([]string{}, idSchemes[(variant+h)%len(idSchemes)][:n]...)
	c.Order = append([]int{}, perms[n][(variant+h/5)%len(perms[n])]...)
	p := &prepared{c: c}
	for k := 1; k <= n; k++ {
		w := r.Vs[k-1]
		c.FromS = append(c.FromS, tickToSec(w.From))
		if w.Until == Open {
			c.UntilS = append(c.UntilS, 0)
		} else {
			c.UntilS = append(c.UntilS, tickToSec(w.Until))
		}
		p.secrets = append(p.secrets, secretFor(k, variant, rng))
		p.envs = append(p.envs, fmt.Sprintf("%s_%d", envPrefix, k))
	}
	// position inside the tick: the boundary instant itself, just after it, the last nanosecond before the next tick
	switch variant % 3 {
	case 0:
		c.Sub, c.NowNS = 0, 0
	case 1:
		c.Sub, c.NowNS = Unit-1, 999999999
	default:
		c.Sub, c.NowNS = int64(1+rng.Intn(Unit-2)), int64(rng.Intn(1000000000))
	}
	c.NowS = tickToSec(r.T) + c.Sub
	if r.Un > 0 {
		c.Unset = []int{r.Un}
	}
	c.Code = r.Code
	c.Via = "deliverer"
	pc := pathCases[(id+variant*5)%len(pathCases)]
	c.Path = pc.want
	c.Method = methods[(id/3+variant)%len(methods)]
	c.BodyK = bodyKinds[(id/5+variant)%len(bodyKinds)]
	if c.BodyK == "large" && (id/5)%8 != 0 { // large bodies for a share of the rows only
		c.BodyK = "json"
	}
	p.body = bodyFor(c.BodyK, rng)
	c.BodyLen = len(p.body)
	c.SigHdr, c.TsHdr = "X-Hookaido-Signature", "X-Hookaido-Timestamp"
	if variant%3 == 2 {
		c.SigHdr, c.TsHdr = "X-Webhook-Sig", "X-Webhook-Time"
	}
	if r.Kind == "in" {
		c.SigHdr, c.TsHdr = "X-Signature", "X-Timestamp"
		c.WallS = c.NowS + int64(r.Off)*Unit
		c.Method = "POST"
		return p
	}
	host := []string{"target.example", "hooks.example.org:8080", "[2001:db8::1]:8443"}[variant%3]
	c.URL = "http://" + host + pc.raw

	// the generated Hookaidofile
	var sb strings.Builder
	sb.WriteString("secrets {\n")
	for _, k := range c.Order {
		fmt.Fprintf(&sb, "  secret %q {\n    value \"env:%s\"\n    valid_from %q\n", c.IDs[k-1], p.envs[k-1], rfc3339(c.FromS[k-1], variant+k))
		if c.UntilS[k-1] != 0 {
			fmt.Fprintf(&sb, "    valid_until %q\n", rfc3339(c.UntilS[k-1], variant+k+1))
		}
		sb.WriteString("  }\n")
	}
	sb.WriteString("}\n\npull_api { auth token \"raw:t\" }\n\n\"/x\" {\n")
	fmt.Fprintf(&sb, "  deliver %q {\n", "https://placeholder.example/hook")
	if variant%2 == 0 {
		for _, k := range c.Order {
			fmt.Fprintf(&sb, "    sign hmac secret_ref %q\n", c.IDs[k-1])
		}
	} else {
		sb.WriteString("    sign hmac secret_ref")
		for _, k := range c.Order {
			fmt.Fprintf(&sb, " %q", c.IDs[k-1])
		}
		sb.WriteString("\n")
	}
	if !(r.Mode == "newest_valid" && variant%3 == 0) { // newest_valid is also the default: leave it out sometimes
		fmt.Fprintf(&sb, "    sign secret_selection %s\n", r.Mode)
	}
	if variant%3 == 2 {
		fmt.Fprintf(&sb, "    sign signature_header %q\n    sign timestamp_header %q\n", c.SigHdr, c.TsHdr)
	}
	sb.WriteString("  }\n}\n")
	c.Config = sb.String()
	return p
}

// ---- outbound ------------------------------------------------------------------------------------------------

type wireReq struct {
	method, target string
	header         http.Header
	body           []byte
}

type wireRecorder struct {
	mu       sync.Mutex
	reqs     []wireReq
	redirect int // > 0: the first request is answered with this status and a Location
	location string
}

// RoundTrip looks at the request the way the target does: it is written in wire format and parsed back.
func (t *wireRecorder) RoundTrip(req *http.Request) (*http.Response, error) {
	var buf bytes.Buffer
	if err := req.Write(&buf); err != nil {
		return nil, err
	}
	sr, err := http.ReadRequest(bufio.NewReader(&buf))
	if err != nil {
		return nil, fmt.Errorf("target cannot parse the request: %w", err)
	}
	body, _ := io.ReadAll(sr.Body)
	t.mu.Lock()
	t.reqs = append(t.reqs, wireReq{method: sr.Method, target: sr.RequestURI, header: sr.Header, body: body})
	first := len(t.reqs) == 1
	t.mu.Unlock()
	if first && t.redirect > 0 {
		return &http.Response{StatusCode: t.redirect, Status: strconv.Itoa(t.redirect), Proto: "HTTP/1.1", ProtoMajor: 1, ProtoMinor: 1,
			Header: http.Header{"Location": []string{t.location}}, Body: io.NopCloser(bytes.NewReader(nil)), Request: req}, nil
	}
	return &http.Response{StatusCode: 200, Status: "200 OK", Proto: "HTTP/1.1", ProtoMajor: 1, ProtoMinor: 1, Header: http.Header{},
		Body: io.NopCloser(bytes.NewReader(nil)), Request: req}, nil
}

var (
	cfgMu    sync.Mutex
	cfgCache = map[string]*dispatcher.HMACSigningConfig{}
	warmed   atomic.Int64 // earlier deliveries made on a judged delivery's deliverer
)

// signingConfig = what app.buildDispatchRoutes hands to the dispatcher for the first deliver block of the first route.
func signingConfig(src string) (*dispatcher.HMACSigningConfig, error) {
	cfgMu.Lock()
	if s, ok := cfgCache[src]; ok {
		cfgMu.Unlock()
		return s, nil
	}
	cfgMu.Unlock()
	cfg, err := config.Parse([]byte(src))
	if err != nil {
		return nil, fmt.Errorf("parse generated config: %w\n%s", err, src)
	}
	compiled, res := config.Compile(cfg)
	if !res.OK {
		return nil, fmt.Errorf("compile generated config: %s\n%s", config.FormatValidationText(res), src)
	}
	var d *config.CompiledDeliver
	for i := range compiled.Routes {
		if len(compiled.Routes[i].Deliveries) > 0 {
			d = &compiled.Routes[i].Deliveries[0]
			break
		}
	}
	if d == nil || !d.SigningHMAC.Enabled {
		return nil, fmt.Errorf("generated config has no signed deliver block\n%s", src)
	}
	vs := make([]dispatcher.HMACSigningSecretVersion, 0, len(d.SigningHMAC.SecretVersions))
	for _, sv := range d.SigningHMAC.SecretVersions {
		vs = append(vs, dispatcher.HMACSigningSecretVersion{ID: sv.ID, Ref: sv.ValueRef, ValidFrom: sv.ValidFrom, ValidUntil: sv.ValidUntil, HasUntil: sv.HasUntil})
	}
	s := &dispatcher.HMACSigningConfig{SecretRef: d.SigningHMAC.SecretRef, SecretVersions: vs, SecretSelection: d.SigningHMAC.SecretSelection,
		SignatureHeader: d.SigningHMAC.SignatureHeader, TimestampHeader: d.SigningHMAC.TimestampHeader}
	cfgMu.Lock()
	if len(cfgCache) > 200000 {
		cfgCache = map[string]*dispatcher.HMACSigningConfig{}
	}
	cfgCache[src] = s
	cfgMu.Unlock()
	return s, nil
}

func macHex(secret []byte, msg string) string {
	m := hmac.New(sha256.New, secret)
	m.Write([]byte(msg))
	return hex.EncodeToString(m.Sum(nil))
}

func shaHex(b []byte) string {
	s := sha256.Sum256(b)
	return hex.EncodeToString(s[:])
}

func execOut(r *row, p *prepared) (obs, error) {
	c := p.c
	sign, err := signingConfig(c.Config)
	if err != nil {
		return obs{}, err
	}
	unset := map[int]bool{}
	for _, k := range c.Unset {
		unset[k] = true
	}
	for k := 1; k <= len(r.Vs); k++ {
		if unset[k] {
			os.Unsetenv(p.envs[k-1])
		} else {
			os.Setenv(p.envs[k-1], p.secrets[k-1])
		}
	}
	rec := &wireRecorder{}
	pol := dispatcher.EgressPolicy{}
	if r.Kind == "redir" {
		rec.redirect = c.Code
		rec.location = []string{"http://elsewhere.example/next/path?q=1", "/moved/here", "http://target.example/hook2"}[c.Variant%3]
		pol.Redirects = true
	}
	d := dispatcher.NewHTTPDeliverer(&http.Client{Transport: rec}, pol)
	loc := []*time.Location{time.UTC, time.FixedZone("IST", 5*3600+1800), time.FixedZone("PST", -8*3600)}[c.Variant%3]
	now := time.Unix(c.NowS, c.NowNS).In(loc)
	d.Now = func() time.Time { return now }
	var o obs
	if c.Via == "dispatcher" {
		// the real push dispatcher on a memory store: target configuration with SignHMAC, one message
		store := queue.NewMemoryStore(queue.WithDeliveredRetention(time.Hour))
		pd := &dispatcher.PushDispatcher{Store: store, Deliverer: d, Logger: slog.New(slog.NewTextHandler(io.Discard, nil)), MaxWait: 15 * time.Millisecond,
			Routes: []dispatcher.RouteConfig{{Route: "/r", Concurrency: 1, Targets: []dispatcher.TargetConfig{{URL: c.URL, Timeout: 10 * time.Second,
				Retry: dispatcher.RetryConfig{Type: "exponential", Max: 1, Base: time.Millisecond, Cap: time.Millisecond}, SignHMAC: sign}}}}}
		if err := store.Enqueue(queue.Envelope{ID: "m1", Route: "/r", Target: c.URL, Payload: p.body,
			Headers: map[string]string{"Content-Type": "application/octet-stream", "X-Other": "1"}}); err != nil {
			return obs{}, err
		}
		pd.Start()
		deadline := time.Now().Add(30 * time.Second)
		for {
			o.State = "gone"
			for _, row := range store.VerifDump() {
				if row.Env.ID == "m1" {
					o.State = string(row.Env.State)
				}
			}
			if o.State == "delivered" || o.State == "dead" || o.State == "gone" || time.Now().After(deadline) {
				break
			}
			time.Sleep(2 * time.Millisecond)
		}
		pd.Drain(3 * time.Second)
		att, err := store.ListAttempts(queue.AttemptListRequest{EventID: "m1", Limit: 10})
		if err != nil {
			return obs{}, err
		}
		for _, a := range att.Items {
			if a.Error != "" {
				o.Err = a.Error
			}
			if a.StatusCode != 0 {
				o.Status = a.StatusCode
			}
		}
	} else {
		ctx, cancel := context.WithTimeout(context.Background(), 10*time.Second)
		defer cancel()
		if r.Kind != "redir" && c.Variant%2 == 1 {
			// the running gateway keeps ONE deliverer and ONE signing configuration per target for its whole life: the
			// judged delivery is preceded by earlier deliveries of the same deliverer at instants around the window
			// boundaries that lie before it (in chronological order); whatever they did must not influence the choice
			// made at the judged instant
			var inst []int64
			for k := range c.FromS {
				inst = append(inst, c.FromS[k]-1, c.FromS[k])
				if c.UntilS[k] != 0 {
					inst = append(inst, c.UntilS[k]-1)
				}
			}
			sort.Slice(inst, func(i, j int) bool { return inst[i] < inst[j] })
			var warm []int64
			for _, t := range inst {
				if t < c.NowS && (len(warm) == 0 || warm[len(warm)-1] != t) {
					warm = append(warm, t)
				}
			}
			if len(warm) > 4 {
				warm = warm[len(warm)-4:]
			}
			for _, t := range warm {
				wt := time.Unix(t, 0).In(loc)
				d.Now = func() time.Time { return wt }
				_ = d.Deliver(ctx, dispatcher.Delivery{ID: "m0", Target: c.URL, URL: c.URL, Method: c.Method,
					Header: http.Header{"Content-Type": []string{"application/octet-stream"}}, Body: []byte("earlier"), Sign: sign})
			}
			d.Now = func() time.Time { return now }
			rec.mu.Lock()
			rec.reqs = nil
			rec.mu.Unlock()
			warmed.Add(int64(len(warm)))
		}
		res := d.Deliver(ctx, dispatcher.Delivery{ID: "m1", Target: c.URL, URL: c.URL, Method: c.Method,
			Header: http.Header{"Content-Type": []string{"application/octet-stream"}, "X-Other": []string{"1"}}, Body: p.body, Sign: sign})
		o.Status = res.StatusCode
		if res.Err != nil {
			o.Err = res.Err.Error()
		}
	}
	o.N = len(rec.reqs)
	if len(rec.reqs) == 0 {
		return o, nil
	}
	o.Sent = true
	w := rec.reqs[0]
	o.Method = w.method
	o.Path = w.target
	if i := strings.IndexByte(o.Path, '?'); i >= 0 {
		o.Path = o.Path[:i]
	}
	sig := w.header.Values(c.SigHdr)
	ts := w.header.Values(c.TsHdr)
	o.HasSig = len(sig) == 1
	o.HasTs = len(ts) == 1
	if o.HasTs {
		o.Ts = ts[0]
	}
	o.BodyOK = bytes.Equal(w.body, p.body)
	if o.HasSig && o.HasTs {
		// the statement's canonical string, from what the target sees
		canonical := strings.ToUpper(w.method) + "\n" + o.Path + "\n" + o.Ts + "\n" + shaHex(w.body)
		for k := 1; k <= len(r.Vs); k++ {
			if macHex([]byte(p.secrets[k-1]), canonical) == sig[0] {
				o.Matches++
				if o.Signer == 0 {
					o.Signer = k
				}
			}
		}
		o.SigBody = o.Signer != 0
	}
	if r.Kind == "redir" {
		// every request of the delivery: does its signature header verify over this very request, under the version
		// that signed the first one
		o.Valid = []bool{}
		for _, q := range rec.reqs {
			path := q.target
			if i := strings.IndexByte(path, '?'); i >= 0 {
				path = path[:i]
			}
			s1, t1 := q.header.Get(c.SigHdr), q.header.Get(c.TsHdr)
			ok := false
			if s1 != "" && t1 != "" && o.Signer != 0 {
				ok = macHex([]byte(p.secrets[o.Signer-1]), strings.ToUpper(q.method)+"\n"+path+"\n"+t1+"\n"+shaHex(q.body)) == s1
			}
			o.Valid = append(o.Valid, ok)
			o.Methods += q.method + " "
		}
	}
	return o, nil
}

// ---- probe: signature headers on redirect hops (outside the row table; informational) -------------------------

type redirectRecorder struct {
	wireRecorder
	code int
}

func (t *redirectRecorder) RoundTrip(req *http.Request) (*http.Response, error) {
	resp, err := t.wireRecorder.RoundTrip(req)
	if err != nil {
		return nil, err
	}
	if req.URL.Host == "first.example" {
		resp.StatusCode = t.code
		resp.Status = strconv.Itoa(t.code)
		resp.Header.Set("Location", "http://second.example/next/path?q=1")
	}
	return resp, nil
}

func probeRedirect() error {
	os.Setenv("HKV_PROBE_SECRET", "probe-secret")
	type res struct {
		Code          int    `json:"code"`
		Requests      int    `json:"requests"`
		Hop2Method    string `json:"hop2_method"`
		Hop2BodyLen   int    `json:"hop2_bodylen"`
		Hop2HasSig    bool   `json:"hop2_has_signature"`
		Hop2SigValid  bool   `json:"hop2_signature_valid_for_hop2"`
		Hop2SigIsHop1 bool   `json:"hop2_signature_is_hop1_signature"`
	}
	var out []res
	body := []byte(`{"probe":true}`)
	for _, code := range []int{301, 302, 303, 307, 308} {
		rec := &redirectRecorder{code: code}
		d := dispatcher.NewHTTPDeliverer(&http.Client{Transport: rec}, dispatcher.EgressPolicy{Redirects: true})
		d.Now = func() time.Time { return time.Unix(Base, 0) }
		sign := &dispatcher.HMACSigningConfig{SecretRef: "env:HKV_PROBE_SECRET", SignatureHeader: "X-Hookaido-Signature", TimestampHeader: "X-Hookaido-Timestamp"}
		d.Deliver(context.Background(), dispatcher.Delivery{ID: "p", URL: "http://first.example/orig/path", Method: "POST", Body: body, Sign: sign, Header: http.Header{}})
		r := res{Code: code, Requests: len(rec.reqs)}
		if len(rec.reqs) >= 2 {
			h1, h2 := rec.reqs[0], rec.reqs[1]
			r.Hop2Method = h2.method
			r.Hop2BodyLen = len(h2.body)
			sig := h2.header.Get("X-Hookaido-Signature")
			ts := h2.header.Get("X-Hookaido-Timestamp")
			r.Hop2HasSig = sig != ""
			path2 := h2.target
			if i := strings.IndexByte(path2, '?'); i >= 0 {
				path2 = path2[:i]
			}
			r.Hop2SigValid = sig != "" && macHex([]byte("probe-secret"), strings.ToUpper(h2.method)+"\n"+path2+"\n"+ts+"\n"+shaHex(h2.body)) == sig
			r.Hop2SigIsHop1 = sig != "" && sig == h1.header.Get("X-Hookaido-Signature")
		}
		out = append(out, r)
	}
	b, _ := json.Marshal(out)
	fmt.Println(string(b))
	return nil
}

// ---- inbound -------------------------------------------------------------------------------------------------

// inbound rows are grouped: one VerifBoot instance serves many version sets, one route each.
type inItem struct {
	id      int
	raw     json.RawMessage
	r       *row
	variant int
}

type inGroupKey struct {
	vs      string
	variant int
}

func vsKey(vs []window) string {
	b, _ := json.Marshal(vs)
	return string(b)
}

func execInbound(items []inItem, seed int64, shard int, scratch string, emit func(ev *event) error) error {
	// group by (version set, variant): one route per group
	groups := map[inGroupKey][]inItem{}
	var keys []inGroupKey
	for _, it := range items {
		k := inGroupKey{vsKey(it.r.Vs), it.variant}
		if _, ok := groups[k]; !ok {
			keys = append(keys, k)
		}
		groups[k] = append(groups[k], it)
	}
	const perInstance = 150
	for start := 0; start < len(keys); start += perInstance {
		end := start + perInstance
		if end > len(keys) {
			end = len(keys)
		}
		if err := inboundInstance(keys[start:end], groups, seed, shard, start, scratch, emit); err != nil {
			return err
		}
	}
	return nil
}

// traceStore is a tracing decorator around the real memory store: it notes every envelope the ingress stores.
type traceStore struct {
	*queue.MemoryStore
	mu   sync.Mutex
	envs []queue.Envelope
}

func (t *traceStore) Enqueue(env queue.Envelope) error {
	err := t.MemoryStore.Enqueue(env)
	if err == nil {
		t.mu.Lock()
		t.envs = append(t.envs, env)
		t.mu.Unlock()
	}
	return err
}

func (t *traceStore) EnqueueBatch(items []queue.Envelope) (int, error) {
	n, err := t.MemoryStore.EnqueueBatch(items)
	if err == nil {
		t.mu.Lock()
		t.envs = append(t.envs, items...)
		t.mu.Unlock()
	}
	return n, err
}

func (t *traceStore) take() []queue.Envelope {
	t.mu.Lock()
	defer t.mu.Unlock()
	out := t.envs
	t.envs = nil
	return out
}

type fakeClock struct {
	mu sync.Mutex
	t  time.Time
}

func (f *fakeClock) now() time.Time  { f.mu.Lock(); defer f.mu.Unlock(); return f.t }
func (f *fakeClock) set(t time.Time) { f.mu.Lock(); f.t = t; f.mu.Unlock() }

func inboundInstance(keys []inGroupKey, groups map[inGroupKey][]inItem, seed int64, shard, batch int, scratch string, emit func(ev *event) error) error {
	type routeInfo struct {
		path    string
		p       *prepared
		secrets []string
	}
	var sec, routes strings.Builder
	infos := make([]routeInfo, len(keys))
	sec.WriteString("secrets {\n")
	for gi, k := range keys {
		first := groups[k][0]
		envPrefix := fmt.Sprintf("HKVIN_%d_%d_%d", shard, batch, gi)
		p := prepare(first.r, first.id, first.variant, seed, envPrefix)
		n := len(first.r.Vs)
		ids := make([]string, n)
		for i := 0; i < n; i++ {
			ids[i] = fmt.Sprintf("g%d-%s", gi, p.c.IDs[i])
			os.Setenv(p.envs[i], p.secrets[i])
		}
		for _, v := range p.c.Order {
			fmt.Fprintf(&sec, "  secret %q {\n    value \"env:%s\"\n    valid_from %q\n", ids[v-1], p.envs[v-1], rfc3339(p.c.FromS[v-1], first.variant+v))
			if p.c.UntilS[v-1] != 0 {
				fmt.Fprintf(&sec, "    valid_until %q\n", rfc3339(p.c.UntilS[v-1], first.variant+v+1))
			}
			sec.WriteString("  }\n")
		}
		path := fmt.Sprintf("/in/g%d", gi)
		fmt.Fprintf(&routes, "%q {\n", path)
		if first.variant%3 == 2 {
			routes.WriteString("  auth hmac {\n")
			for _, v := range p.c.Order {
				fmt.Fprintf(&routes, "    secret_ref %q\n", ids[v-1])
			}
			routes.WriteString("    tolerance 5m\n  }\n")
		} else {
			for _, v := range p.c.Order {
				fmt.Fprintf(&routes, "  auth hmac secret_ref %q\n", ids[v-1])
			}
		}
		fmt.Fprintf(&routes, "  pull { path \"/e%d\" }\n}\n\n", gi)
		infos[gi] = routeInfo{path: path, p: p, secrets: p.secrets}
	}
	sec.WriteString("}\n\n")
	src := "ingress { listen \"127.0.0.1:0\" }\npull_api {\n  listen \"127.0.0.2:0\"\n  auth token \"raw:t\"\n}\nadmin_api { listen \"127.0.0.3:0\" }\n\n" + sec.String() + routes.String()
	cfgPath := filepath.Join(scratch, fmt.Sprintf("in-%d-%d.hookaido", shard, batch))
	if err := os.WriteFile(cfgPath, []byte(src), 0o600); err != nil {
		return err
	}
	defer os.Remove(cfgPath)
	clock := &fakeClock{t: time.Unix(Base, 0)}
	store := &traceStore{MemoryStore: queue.NewMemoryStore()}
	stored := 0
	inst, err := app.VerifBoot(app.VerifOptions{ConfigPath: cfgPath, Now: clock.now, Store: store})
	if err != nil {
		return fmt.Errorf("VerifBoot: %w\n%s", err, src[:min(len(src), 3000)])
	}
	defer inst.Stop()
	h := inst.Handlers["ingress"]
	if h == nil {
		return fmt.Errorf("VerifBoot published no ingress handler")
	}
	outsider := "not-a-configured-secret"
	nonce := 0
	for gi, k := range keys {
		info := infos[gi]
		for _, it := range groups[k] {
			p := prepare(it.r, it.id, it.variant, seed, "unused")
			c := p.c
			c.IDs = info.p.c.IDs
			c.Order = info.p.c.Order
			c.URL = info.path
			c.Path = info.path
			rng := rngFor(seed, it.id, it.variant+1000)
			body := bodyFor([]string{"json", "binary", "empty", "text"}[(it.id+it.variant)%4], rng)
			c.BodyLen = len(body)
			c.Config = fmt.Sprintf("route %s: auth hmac secret_ref x%d (instance of %d routes)", info.path, len(it.r.Vs), len(keys))
			secret := outsider
			if it.r.Signer > 0 {
				secret = info.secrets[it.r.Signer-1]
			}
			ts := strconv.FormatInt(c.NowS, 10)
			// ingress string-to-sign (hmac.go / property C08): timestamp, method, cleaned path, sha256 of the body
			sts := ts + "\n" + c.Method + "\n" + info.path + "\n" + shaHex(body)
			sig := macHex([]byte(secret), sts)
			store.take()
			clock.set(time.Unix(c.WallS, 123456789))
			req := httptest.NewRequest(c.Method, "http://ingress.test"+info.path, bytes.NewReader(body))
			req.Header.Set(c.SigHdr, sig)
			req.Header.Set(c.TsHdr, ts)
			nonce++
			req.Header.Set("X-Nonce", fmt.Sprintf("n-%d-%d-%d", shard, batch, nonce))
			rr := httptest.NewRecorder()
			h.ServeHTTP(rr, req)
			added := store.take()
			stored += len(added)
			o := obs{Status: rr.Code, Delta: len(added), N: 1}
			if o.Delta == 1 {
				o.Route = added[0].Route
				o.Payload = bytes.Equal(added[0].Payload, body)
			}
			ev := &event{Ev: "In", ID: it.id, Seed: seed, Row: it.raw, Conc: c, Obs: o}
			if err := emit(ev); err != nil {
				return err
			}
		}
	}
	// the decorator's account must agree with the store's own dump (queue dump delta over the whole instance)
	if got := len(store.VerifDump()); got != stored {
		return fmt.Errorf("store holds %d messages, %d enqueues were seen", got, stored)
	}
	return nil
}

// ---- driver --------------------------------------------------------------------------------------------------

type counters struct {
	mu sync.Mutex
	m  map[string]int
}

func (c *counters) add(local map[string]int) {
	c.mu.Lock()
	for k, v := range local {
		c.m[k] += v
	}
	c.mu.Unlock()
}

func relation(vs []window) []string {
	var out []string
	for i := 0; i < len(vs); i++ {
		for j := i + 1; j < len(vs); j++ {
			a, b := vs[i], vs[j]
			if a.From > b.From || (a.From == b.From && a.Until > b.Until) {
				a, b = b, a
			}
			switch {
			case a.From == b.From && a.Until == b.Until:
				out = append(out, "identical")
			case a.From == b.From:
				out = append(out, "equal_from")
			case a.Until == b.From:
				out = append(out, "adjacent")
			case a.Until < b.From:
				out = append(out, "gap")
			case b.Until <= a.Until:
				out = append(out, "nested")
			default:
				out = append(out, "overlapping")
			}
			if a.Until == Open || b.Until == Open {
				out = append(out, "open_ended")
			}
		}
	}
	return out
}

func count(local map[string]int, r *row, c *conc, o obs) {
	local["events"]++
	local["kind/"+r.Kind]++
	if r.Kind == "redir" {
		local[fmt.Sprintf("redir/code=%d/requests=%d", r.Code, o.N)]++
		return
	}
	if r.Kind == "in" {
		local[fmt.Sprintf("in/status=%d", o.Status)]++
		local[fmt.Sprintf("in/off=%d/status=%d", r.Off, o.Status)]++
		if r.Signer == 0 {
			local[fmt.Sprintf("in/outsider/status=%d", o.Status)]++
		}
		for k, w := range r.Vs {
			if r.T == w.From {
				local[fmt.Sprintf("in/at_from/signer_is_it=%v/status=%d", r.Signer == k+1, o.Status)]++
			}
			if r.T == w.Until {
				local[fmt.Sprintf("in/at_until/signer_is_it=%v/status=%d", r.Signer == k+1, o.Status)]++
			}
		}
		return
	}
	local[fmt.Sprintf("out/mode=%s/sent=%v", r.Mode, o.Sent)]++
	local[fmt.Sprintf("out/via=%s/sent=%v", c.Via, o.Sent)]++
	local[fmt.Sprintf("out/versions=%d/signer=%d", len(r.Vs), o.Signer)]++
	local["out/body="+c.BodyK]++
	local["out/path="+c.Path]++
	local["out/method="+c.Method]++
	local[fmt.Sprintf("out/sub=%d", map[bool]int{true: 0, false: 1}[c.Sub == 0])]++
	for _, rel := range relation(r.Vs) {
		local["out/rel="+rel]++
	}
	// ties: two versions valid at t with equal valid_from
	valid := []int{}
	for k, w := range r.Vs {
		if w.From <= r.T && r.T < w.Until {
			valid = append(valid, k)
		}
		if r.T == w.From {
			local[fmt.Sprintf("out/at_from/sent=%v", o.Sent)]++
		}
		if r.T == w.Until {
			local[fmt.Sprintf("out/at_until/sent=%v", o.Sent)]++
		}
	}
	tie := false
	for i := range valid {
		for j := i + 1; j < len(valid); j++ {
			if r.Vs[valid[i]].From == r.Vs[valid[j]].From {
				tie = true
			}
		}
	}
	if tie {
		local["out/tie/mode="+r.Mode]++
		// listed so that a larger id comes first?
		if len(c.Order) > 1 && c.Order[0] != 1 {
			local["out/tie/listed_out_of_id_order"]++
		}
	}
	if len(valid) > 1 && !tie {
		local["out/choice/mode="+r.Mode]++
	}
	if r.Un > 0 {
		local[fmt.Sprintf("un/sent=%v", o.Sent)]++
	}
}

func run(args []string) error {
	fs := flag.NewFlagSet("run", flag.ExitOnError)
	rowsFile := fs.String("rows", "", "rows (ndjson)")
	out := fs.String("out", "trace", "trace output prefix")
	shards := fs.Int("shards", 16, "trace files / workers")
	per := fs.Int("per", 3, "concrete instances per row")
	seed := fs.Int64("seed", 1, "seed")
	scratch := fs.String("scratch", os.TempDir(), "scratch directory for generated configurations")
	cpuprof := fs.String("cpuprofile", "", "write a CPU profile")
	dispEvery := fs.Int("dispatch-every", 9, "every k-th outbound row runs one of its instances through the push dispatcher (0 = never)")
	_ = fs.Parse(args)
	if *cpuprof != "" {
		pf, err := os.Create(*cpuprof)
		if err != nil {
			return err
		}
		defer pf.Close()
		if err := pprof.StartCPUProfile(pf); err != nil {
			return err
		}
		defer pprof.StopCPUProfile()
	}

	f, err := os.Open(*rowsFile)
	if err != nil {
		return err
	}
	defer f.Close()
	var lines [][]byte
	sc := bufio.NewScanner(f)
	sc.Buffer(make([]byte, 1<<20), 1<<26)
	for sc.Scan() {
		if len(sc.Bytes()) > 0 {
			lines = append(lines, append([]byte(nil), sc.Bytes()...))
		}
	}
	if err := sc.Err(); err != nil {
		return err
	}
	// rows of one version set go to one worker (they share the generated configuration)
	rows := make([]*row, len(lines))
	byShard := make([][]int, *shards)
	for i := range lines {
		var r row
		if err := json.Unmarshal(lines[i], &r); err != nil {
			return fmt.Errorf("row %d: %w", i, err)
		}
		rows[i] = &r
		h := fnv.New32a()
		h.Write([]byte(vsKey(r.Vs)))
		s := int(h.Sum32() % uint32(*shards))
		byShard[s] = append(byShard[s], i)
	}
	cnt := &counters{m: map[string]int{}}
	var wg sync.WaitGroup
	errs := make(chan error, *shards)
	base := int(*seed) * 7
	for s := 0; s < *shards; s++ {
		wg.Add(1)
		go func(s int) {
			defer wg.Done()
			name := *out
			if *shards > 1 {
				name = fmt.Sprintf("%s.%d", *out, s)
			}
			of, err := os.Create(name)
			if err != nil {
				errs <- err
				return
			}
			defer of.Close()
			w := bufio.NewWriterSize(of, 1<<20)
			defer w.Flush()
			enc := json.NewEncoder(w)
			local := map[string]int{}
			var inbound []inItem
			for _, i := range byShard[s] {
				r := *rows[i]
				for k := 0; k < *per; k++ {
					variant := k
					if k >= 3 {
						variant = base + k
					}
					if r.Kind == "in" {
						rc := r
						inbound = append(inbound, inItem{id: i, raw: lines[i], r: &rc, variant: variant})
						continue
					}
					p := prepare(&r, i, variant, *seed, fmt.Sprintf("HKVOUT_%d", s))
					if *dispEvery > 0 && r.Kind != "redir" && (i+int(*seed))%*dispEvery == 0 && k == i%*per {
						p.c.Via = "dispatcher"
						p.c.Method = "POST" // the dispatcher always posts
					}
					o, err := execOut(&r, p)
					if err != nil {
						errs <- fmt.Errorf("row %d variant %d: %w", i, variant, err)
						return
					}
					ev := event{Ev: evName(&r), ID: i, Seed: *seed, Row: lines[i], Conc: p.c, Obs: o}
					if err := enc.Encode(ev.norm()); err != nil {
						errs <- err
						return
					}
					count(local, &r, p.c, o)
				}
			}
			if len(inbound) > 0 {
				err := execInbound(inbound, *seed, s, *scratch, func(ev *event) error {
					var r row
					_ = json.Unmarshal(ev.Row, &r)
					count(local, &r, ev.Conc, ev.Obs)
					return enc.Encode(ev.norm())
				})
				if err != nil {
					errs <- err
					return
				}
			}
			cnt.add(local)
		}(s)
	}
	wg.Wait()
	close(errs)
	for e := range errs {
		return e
	}
	keys := make([]string, 0, len(cnt.m))
	for k := range cnt.m {
		keys = append(keys, k)
	}
	sort.Strings(keys)
	cnt.m["out_earlier_deliveries_same_deliverer"] = int(warmed.Load())
	b, _ := json.Marshal(map[string]any{"rows": len(lines), "events": cnt.m["events"], "counters": cnt.m})
	fmt.Println(string(b))
	return nil
}

// one: re-execute the row / variant of an event (reproduction and replay)
func one(args []string) error {
	fs := flag.NewFlagSet("one", flag.ExitOnError)
	rowJSON := fs.String("row", "", "abstract row (json)")
	variant := fs.Int("variant", 0, "variant")
	seed := fs.Int64("seed", 1, "seed")
	id := fs.Int("id", 0, "row index")
	out := fs.String("out", "", "trace output (default stdout)")
	scratch := fs.String("scratch", os.TempDir(), "scratch directory")
	via := fs.String("via", "deliverer", "deliverer | dispatcher")
	_ = fs.Parse(args)
	var r row
	if err := json.Unmarshal([]byte(*rowJSON), &r); err != nil {
		return err
	}
	w := os.Stdout
	if *out != "" {
		f, err := os.Create(*out)
		if err != nil {
			return err
		}
		defer f.Close()
		w = f
	}
	enc := json.NewEncoder(w)
	if r.Kind == "in" {
		return execInbound([]inItem{{id: *id, raw: json.RawMessage(*rowJSON), r: &r, variant: *variant}}, *seed, 0, *scratch,
			func(ev *event) error { return enc.Encode(ev.norm()) })
	}
	p := prepare(&r, *id, *variant, *seed, "HKVOUT_one")
	if *via == "dispatcher" {
		p.c.Via = "dispatcher"
		p.c.Method = "POST"
	}
	o, err := execOut(&r, p)
	if err != nil {
		return err
	}
	return enc.Encode((&event{Ev: evName(&r), ID: *id, Seed: *seed, Row: json.RawMessage(*rowJSON), Conc: p.c, Obs: o}).norm())
}
