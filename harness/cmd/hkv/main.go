// Command hkv is the Go side of the hookaido verification harness.
package main

import (
	"bufio"
	"encoding/json"
	"flag"
	"fmt"
	"math/rand"
	"os"
	"strings"
	"sync"
	"time"

	"github.com/nuetzliches/hookaido/verif/l0"
	"github.com/nuetzliches/hookaido/verif/l1"
	"github.com/nuetzliches/hookaido/verif/l2"
)

func main() {
	if len(os.Args) < 2 {
		fmt.Fprintln(os.Stderr, "usage: hkv <command> [flags]")
		os.Exit(2)
	}
	var err error
	switch os.Args[1] {
	case "l0-drive":
		err = l0Drive(os.Args[2:])
	case "l0-run":
		err = l0Run(os.Args[2:])
	case "l0-conc":
		err = l0Conc(os.Args[2:])
	case "l1-conc":
		err = l1Conc(os.Args[2:])
	case "l1-nonce":
		err = l1Nonce(os.Args[2:])
	case "pull-run":
		err = pullRun(os.Args[2:])
	case "adm-run":
		err = admRun(os.Args[2:])
	case "crash-run":
		err = crashRun(os.Args[2:])
	case "frozen-pairs":
		for _, p := range l1.FrozenPairs() {
			fmt.Println(p.Name)
		}
	case "reload-pilot":
		err = l1.ReloadPilot(os.Stdout, scratchDir(""), len(os.Args) > 2 && os.Args[2] == "-rev")
	case "reload-run":
		err = reloadRun(os.Args[2:])
	case "cfg-child":
		err = l1.CfgChild(os.Args[2], os.Args[3])
	case "print-managed-config":
		fmt.Print(l1.ManagedConfig)
	case "compiles":
		b, rerr := os.ReadFile(os.Args[2])
		fmt.Println(rerr == nil && l1.Compiles(b))
	default:
		err = dispatchExtra(os.Args[1], os.Args[2:])
	}
	if err != nil {
		fmt.Fprintln(os.Stderr, "hkv:", err)
		os.Exit(2)
	}
}

func scratchDir(s string) string {
	if s != "" {
		return s
	}
	if st, err := os.Stat("/dev/shm"); err == nil && st.IsDir() {
		d, err := os.MkdirTemp("/dev/shm", "hkv-")
		if err == nil {
			return d
		}
	}
	d, _ := os.MkdirTemp("", "hkv-")
	return d
}

// l0-drive: generate random schedules, execute each on the listed backends,
// write schedules and traces.
func l0Drive(args []string) error {
	fs := flag.NewFlagSet("l0-drive", flag.ExitOnError)
	seed := fs.Int64("seed", 1, "seed")
	n := fs.Int("n", 10, "number of schedules")
	ops := fs.Int("ops", 60, "operations per schedule")
	ids := fs.Int("ids", 6, "distinct ids")
	backends := fs.String("backends", "memory,sqlite", "backends")
	reference := fs.Bool("reference", false, "validate against the reference contract (no backend deviations)")
	out := fs.String("out", "trace.ndjson", "trace output")
	sched := fs.String("sched", "", "schedule output (ndjson)")
	bigEvery := fs.Int("big-every", 0, "every k-th schedule starts with a large population")
	churnEvery := fs.Int("churn-every", 0, "every k-th schedule starts with > 1024 enqueues of which most are consumed")
	scratch := fs.String("scratch", "", "scratch dir for sqlite files")
	profile := fs.String("profile", "all", "operation mix")
	shards := fs.Int("shards", 1, "number of trace files (out.0, out.1, ...)")
	_ = fs.Parse(args)

	sd := scratchDir(*scratch)
	if *scratch == "" {
		defer os.RemoveAll(sd)
	}
	runs, closeAll, err := openShards(*out, *shards, sd)
	if err != nil {
		return err
	}
	defer closeAll()
	var sw *bufio.Writer
	if *sched != "" {
		sf, err := os.Create(*sched)
		if err != nil {
			return err
		}
		defer sf.Close()
		sw = bufio.NewWriter(sf)
		defer sw.Flush()
	}
	r := rand.New(rand.NewSource(*seed))
	perShard := make([][]l0.Schedule, len(runs))
	for i := 0; i < *n; i++ {
		cfg := l0.ProfileCfg(r, l0.RandomCfg(r), *profile)
		o := l0.DriverOpts{Ops: *ops, IDs: *ids, Routes: 1 + r.Intn(3), Targets: 1 + r.Intn(3), Explicit: r.Intn(3) == 0, Profile: *profile}
		if *bigEvery > 0 && i%*bigEvery == *bigEvery-1 {
			o.BigPop = true
			o.Ops = 13 + 4 + 25
			cfg.MaxDepth = 0
			cfg.PressItems = 0
		}
		if *churnEvery > 0 && i%*churnEvery == *churnEvery/2 {
			o.Churn = true
			o.BigPop = false
			cfg.MaxDepth = 0
			cfg.PressItems = 0
			cfg.RetMaxAge, cfg.DlqMaxAge, cfg.DelivMaxAge = 0, 0, 0
		}
		s := l0.GenSchedule(r, fmt.Sprintf("drv-s%d-%04d", *seed, i), cfg, o)
		if sw != nil {
			b, _ := json.Marshal(s)
			sw.Write(append(b, '\n'))
		}
		perShard[i%len(runs)] = append(perShard[i%len(runs)], s)
	}
	bes := strings.Split(*backends, ",")
	counts := make([]int, len(runs))
	errs := make([]error, len(runs))
	var wg sync.WaitGroup
	for i := range runs {
		wg.Add(1)
		go func(i int) {
			defer wg.Done()
			for _, s := range perShard[i] {
				for _, be := range bes {
					c := l0.BackendCfg(s.Cfg, be, *reference)
					if err := runs[i].Run(s.Name+"/"+be, c, s.Ops); err != nil {
						errs[i] = err
						return
					}
					counts[i]++
				}
			}
		}(i)
	}
	wg.Wait()
	traces := 0
	for i := range runs {
		if errs[i] != nil {
			return errs[i]
		}
		traces += counts[i]
	}
	events := 0
	for _, run := range runs {
		if err := run.W.Flush(); err != nil {
			return err
		}
		events += run.Events
	}
	fmt.Printf("{\"traces\":%d,\"events\":%d}\n", traces, events)
	return nil
}

// openShards opens out (shards == 1) or out.0 .. out.(k-1).
func openShards(out string, shards int, scratch string) ([]*l0.Runner, func(), error) {
	if shards < 1 {
		shards = 1
	}
	var files []*os.File
	var runs []*l0.Runner
	for i := 0; i < shards; i++ {
		name := out
		if shards > 1 {
			name = fmt.Sprintf("%s.%d", out, i)
		}
		f, err := os.Create(name)
		if err != nil {
			return nil, nil, err
		}
		files = append(files, f)
		sub := fmt.Sprintf("%s/s%d", scratch, i)
		_ = os.MkdirAll(sub, 0o755)
		runs = append(runs, l0.NewRunner(f, sub))
	}
	return runs, func() {
		for _, f := range files {
			f.Close()
		}
	}, nil
}

// l0-run: execute schedules from a file.
func l0Run(args []string) error {
	fs := flag.NewFlagSet("l0-run", flag.ExitOnError)
	in := fs.String("sched", "sched.ndjson", "schedule input (ndjson)")
	backends := fs.String("backends", "memory,sqlite", "backends")
	reference := fs.Bool("reference", false, "reference contract")
	out := fs.String("out", "trace.ndjson", "trace output")
	scratch := fs.String("scratch", "", "scratch dir")
	sample := fs.Int("sqlite-sample", 1, "run every k-th schedule on sqlite")
	shards := fs.Int("shards", 1, "number of trace files")
	_ = fs.Parse(args)
	sd := scratchDir(*scratch)
	if *scratch == "" {
		defer os.RemoveAll(sd)
	}
	inf, err := os.Open(*in)
	if err != nil {
		return err
	}
	defer inf.Close()
	runs, closeAll, err := openShards(*out, *shards, sd)
	if err != nil {
		return err
	}
	defer closeAll()
	sc := bufio.NewScanner(inf)
	sc.Buffer(make([]byte, 1<<20), 1<<28)
	type job struct {
		s l0.Schedule
		k int
	}
	perShard := make([][]job, len(runs))
	k := 0
	for sc.Scan() {
		line := sc.Bytes()
		if len(line) == 0 {
			continue
		}
		var s l0.Schedule
		if err := json.Unmarshal(line, &s); err != nil {
			return err
		}
		k++
		perShard[k%len(runs)] = append(perShard[k%len(runs)], job{s, k})
	}
	if err := sc.Err(); err != nil {
		return err
	}
	bes := strings.Split(*backends, ",")
	counts := make([]int, len(runs))
	errs := make([]error, len(runs))
	var wg sync.WaitGroup
	for i := range runs {
		wg.Add(1)
		go func(i int) {
			defer wg.Done()
			for _, j := range perShard[i] {
				for _, be := range bes {
					if be == "sqlite" && *sample > 1 && j.k%*sample != 0 {
						continue
					}
					c := l0.BackendCfg(j.s.Cfg, be, *reference)
					if err := runs[i].Run(j.s.Name+"/"+be, c, j.s.Ops); err != nil {
						errs[i] = err
						return
					}
					counts[i]++
				}
			}
		}(i)
	}
	wg.Wait()
	traces := 0
	for i := range runs {
		if errs[i] != nil {
			return errs[i]
		}
		traces += counts[i]
	}
	events := 0
	for _, run := range runs {
		if err := run.W.Flush(); err != nil {
			return err
		}
		events += run.Events
	}
	fmt.Printf("{\"traces\":%d,\"events\":%d}\n", traces, events)
	return nil
}

// l0-conc: free-running concurrent histories (call/return traces for linearization checking).
func l0Conc(args []string) error {
	fs := flag.NewFlagSet("l0-conc", flag.ExitOnError)
	seed := fs.Int64("seed", 1, "seed")
	n := fs.Int("n", 10, "histories per backend")
	backends := fs.String("backends", "memory,sqlite", "backends")
	gor := fs.Int("g", 4, "goroutines")
	rounds := fs.Int("rounds", 12, "rounds per history")
	opsPerG := fs.Int("ops", 2, "operations per goroutine and round")
	out := fs.String("out", "conc", "output prefix (one file per history: <out>.<k>)")
	scratch := fs.String("scratch", "", "scratch dir")
	_ = fs.Parse(args)
	sd := scratchDir(*scratch)
	if *scratch == "" {
		defer os.RemoveAll(sd)
	}
	r := rand.New(rand.NewSource(*seed))
	k := 0
	events := 0
	for i := 0; i < *n; i++ {
		for _, be := range strings.Split(*backends, ",") {
			o := l0.ConcOpts{Backend: be, Seed: r.Int63(), Goroutines: *gor, Rounds: *rounds, OpsPerG: *opsPerG, IDs: 3 + r.Intn(3)}
			switch r.Intn(4) {
			case 0:
				o.MaxDepth, o.Drop = 2+r.Intn(3), "reject"
			case 1:
				o.MaxDepth, o.Drop = 2+r.Intn(3), "drop_oldest"
			}
			if r.Intn(4) == 0 {
				o.DelivAge = 1000000
			}
			f, err := os.Create(fmt.Sprintf("%s.%d", *out, k))
			if err != nil {
				return err
			}
			nl, err := l0.RunConc(f, sd, fmt.Sprintf("conc-s%d-%04d/%s", *seed, i, be), o)
			f.Close()
			if err != nil {
				return err
			}
			events += nl
			k++
		}
	}
	fmt.Printf("{\"traces\":%d,\"events\":%d}\n", k, events)
	return nil
}

// l1-conc: concurrent histories through the production wiring (pull HTTP, worker gRPC, ingress, push dispatcher).
func l1Conc(args []string) error {
	fs := flag.NewFlagSet("l1-conc", flag.ExitOnError)
	seed := fs.Int64("seed", 1, "seed")
	n := fs.Int("n", 4, "histories per backend")
	backends := fs.String("backends", "memory,sqlite", "backends")
	rounds := fs.Int("rounds", 10, "rounds")
	clients := fs.Int("clients", 4, "clients per round")
	out := fs.String("out", "l1conc", "output prefix")
	scratch := fs.String("scratch", "", "scratch dir")
	_ = fs.Parse(args)
	sd := scratchDir(*scratch)
	if *scratch == "" {
		defer os.RemoveAll(sd)
	}
	r := rand.New(rand.NewSource(*seed))
	k, events := 0, 0
	for i := 0; i < *n; i++ {
		for _, be := range strings.Split(*backends, ",") {
			f, err := os.Create(fmt.Sprintf("%s.%d", *out, k))
			if err != nil {
				return err
			}
			nl, err := l1.RunConc(f, sd, fmt.Sprintf("l1conc-s%d-%04d/%s", *seed, i, be), l1.ConcOpts{Backend: be, Seed: r.Int63(), Rounds: *rounds, Clients: *clients})
			f.Close()
			if err != nil {
				return err
			}
			events += nl
			k++
		}
	}
	fmt.Printf("{\"traces\":%d,\"events\":%d}\n", k, events)
	return nil
}

// l1-nonce: execute replay schedules (ndjson: {"name":..., "ops":[...]}) on production-wired instances.
func l1Nonce(args []string) error {
	fs := flag.NewFlagSet("l1-nonce", flag.ExitOnError)
	in := fs.String("sched", "sched.ndjson", "schedules")
	out := fs.String("out", "nonce-trace", "trace output prefix")
	shards := fs.Int("shards", 1, "trace files")
	scratch := fs.String("scratch", "", "scratch dir")
	_ = fs.Parse(args)
	sd := scratchDir(*scratch)
	if *scratch == "" {
		defer os.RemoveAll(sd)
	}
	inf, err := os.Open(*in)
	if err != nil {
		return err
	}
	defer inf.Close()
	type sched struct {
		Name string       `json:"name"`
		Ops  []l1.NonceOp `json:"ops"`
	}
	var all []sched
	sc := bufio.NewScanner(inf)
	sc.Buffer(make([]byte, 1<<20), 1<<26)
	for sc.Scan() {
		if len(sc.Bytes()) == 0 {
			continue
		}
		var s sched
		if err := json.Unmarshal(sc.Bytes(), &s); err != nil {
			return err
		}
		all = append(all, s)
	}
	files := make([]*os.File, *shards)
	for i := range files {
		name := *out
		if *shards > 1 {
			name = fmt.Sprintf("%s.%d", *out, i)
		}
		f, err := os.Create(name)
		if err != nil {
			return err
		}
		defer f.Close()
		files[i] = f
	}
	// instances listen on ephemeral loopback ports; run shards in parallel
	var wg sync.WaitGroup
	errs := make([]error, *shards)
	counts := make([]int, *shards)
	for i := 0; i < *shards; i++ {
		wg.Add(1)
		go func(i int) {
			defer wg.Done()
			for k := i; k < len(all); k += *shards {
				n, err := l1.RunNonce(files[i], sd, all[k].Name, all[k].Ops)
				if err != nil {
					errs[i] = fmt.Errorf("%s: %w", all[k].Name, err)
					return
				}
				counts[i] += n
			}
		}(i)
	}
	wg.Wait()
	events := 0
	for i := range errs {
		if errs[i] != nil {
			return errs[i]
		}
		events += counts[i]
	}
	fmt.Printf("{\"traces\":%d,\"events\":%d}\n", len(all), events)
	return nil
}

// reload-run: execute interleavings / failed reloads / rollback scenarios listed in a job file (ndjson) and write the trace.
func reloadRun(args []string) error {
	fs := flag.NewFlagSet("reload-run", flag.ExitOnError)
	in := fs.String("jobs", "jobs.ndjson", "jobs")
	out := fs.String("out", "reload-trace", "trace output")
	scratch := fs.String("scratch", "", "scratch dir")
	_ = fs.Parse(args)
	sd := scratchDir(*scratch)
	if *scratch == "" {
		defer os.RemoveAll(sd)
	}
	inf, err := os.Open(*in)
	if err != nil {
		return err
	}
	defer inf.Close()
	f, err := os.Create(*out)
	if err != nil {
		return err
	}
	defer f.Close()
	enc := json.NewEncoder(f)
	pairs := map[string]l1.ReloadPair{}
	for _, p := range l1.ReloadPairs() {
		pairs[p.Name] = p
	}
	type job struct {
		Kind     string   `json:"kind"` // interleave | failed | rollback
		Pair     string   `json:"pair"`
		Probe    string   `json:"probe"`
		Order    []string `json:"order"`
		Old      string   `json:"old"`
		New      string   `json:"new"`
		Class    string   `json:"class"`
		Scenario string   `json:"scenario"`
		Name     string   `json:"name"`
	}
	sc := bufio.NewScanner(inf)
	sc.Buffer(make([]byte, 1<<20), 1<<26)
	n := 0
	for sc.Scan() {
		if len(sc.Bytes()) == 0 {
			continue
		}
		var j job
		if err := json.Unmarshal(sc.Bytes(), &j); err != nil {
			return err
		}
		n++
		switch j.Kind {
		case "interleave":
			pair, ok := pairs[j.Pair]
			if !ok {
				return fmt.Errorf("unknown pair %q", j.Pair)
			}
			var probe *l1.ReloadProbe
			for i := range pair.Probes {
				if pair.Probes[i].Name == j.Probe {
					probe = &pair.Probes[i]
				}
			}
			if probe == nil {
				return fmt.Errorf("unknown probe %q", j.Probe)
			}
			obs, pseg, rseg, settled, ok2, err := l1.RunInterleaving(sd, pair, *probe, j.Order)
			if err != nil {
				return err
			}
			_ = enc.Encode(map[string]any{"ev": "Reset", "tr": j.Name})
			_ = enc.Encode(map[string]any{"ev": "Probe", "pair": j.Pair, "probe": j.Probe, "order": j.Order, "obs": obs, "old": j.Old, "new": j.New, "pseg": pseg, "rseg": rseg, "reload_ok": ok2})
			_ = enc.Encode(map[string]any{"ev": "Settled", "pair": j.Pair, "probe": j.Probe, "obs": settled, "old": j.Old, "new": j.New})
		case "failed":
			ev, err := l1.FailedReload(sd, pairs[j.Pair], j.Class)
			if err != nil {
				return err
			}
			_ = enc.Encode(map[string]any{"ev": "Reset", "tr": j.Name})
			_ = enc.Encode(ev)
		case "frozen":
			var fp *l1.ReloadPair
			for _, p := range l1.FrozenPairs() {
				if p.Name == j.Pair {
					q := p
					fp = &q
				}
			}
			if fp == nil {
				return fmt.Errorf("unknown frozen pair %q", j.Pair)
			}
			ev, err := l1.FrozenReload(sd, *fp)
			if err != nil {
				return err
			}
			_ = enc.Encode(map[string]any{"ev": "Reset", "tr": j.Name})
			_ = enc.Encode(ev)
		case "rollback":
			ev, err := l1.RollbackScenario(sd, j.Scenario)
			if err != nil {
				return err
			}
			_ = enc.Encode(map[string]any{"ev": "Reset", "tr": j.Name})
			_ = enc.Encode(ev)
		default:
			return fmt.Errorf("unknown job kind %q", j.Kind)
		}
	}
	fmt.Printf("{\"jobs\":%d}\n", n)
	return nil
}

// crash-run: jobs (ndjson: {"name","ops","crash","kill_at_ms","hitlog"}) -> kill-and-restart runs of the real binary.
func crashRun(args []string) error {
	fs := flag.NewFlagSet("crash-run", flag.ExitOnError)
	bin := fs.String("bin", "", "hookaido binary built with -tags verif")
	in := fs.String("jobs", "jobs.ndjson", "jobs")
	out := fs.String("out", "crash-trace", "trace output")
	hits := fs.String("hits", "", "write label hit counts of hitlog jobs here (ndjson)")
	scratch := fs.String("scratch", "", "scratch dir (on a real file system)")
	par := fs.Int("par", 8, "parallel runs")
	_ = fs.Parse(args)
	sd := *scratch
	if sd == "" {
		d, err := os.MkdirTemp("/var/tmp", "hkv-crash-")
		if err != nil {
			return err
		}
		sd = d
		defer os.RemoveAll(sd)
	}
	type job struct {
		Name   string      `json:"name"`
		Ops    []l2.WorkOp `json:"ops"`
		Crash  string      `json:"crash"`
		KillAt int         `json:"kill_at_ms"`
		CkptMs int         `json:"ckpt_ms"`
		Early  bool        `json:"early"`
		HitLog bool        `json:"hitlog"`
	}
	var jobs []job
	inf, err := os.Open(*in)
	if err != nil {
		return err
	}
	sc := bufio.NewScanner(inf)
	sc.Buffer(make([]byte, 1<<20), 1<<26)
	for sc.Scan() {
		if len(sc.Bytes()) == 0 {
			continue
		}
		var j job
		if err := json.Unmarshal(sc.Bytes(), &j); err != nil {
			return err
		}
		jobs = append(jobs, j)
	}
	inf.Close()
	type result struct {
		events []map[string]any
		hits   map[string]int
		err    error
	}
	results := make([]result, len(jobs))
	sem := make(chan struct{}, *par)
	var wg sync.WaitGroup
	for i := range jobs {
		wg.Add(1)
		sem <- struct{}{}
		go func(i int) {
			defer wg.Done()
			defer func() { <-sem }()
			j := jobs[i]
			dir, err := os.MkdirTemp(sd, "run-")
			if err != nil {
				results[i].err = err
				return
			}
			defer os.RemoveAll(dir)
			r := &l2.Run{Bin: *bin, Dir: dir, Name: j.Name, Ops: j.Ops, Crash: j.Crash, KillAt: time.Duration(j.KillAt) * time.Millisecond, HitLog: j.HitLog, CkptMs: j.CkptMs, Early: j.Early}
			ev, err := r.Execute()
			results[i] = result{events: ev, err: err}
			if j.HitLog {
				results[i].hits = l2.Hits(dir)
			}
		}(i)
	}
	wg.Wait()
	f, err := os.Create(*out)
	if err != nil {
		return err
	}
	defer f.Close()
	enc := json.NewEncoder(f)
	var hf *os.File
	if *hits != "" {
		hf, err = os.Create(*hits)
		if err != nil {
			return err
		}
		defer hf.Close()
	}
	nerr := 0
	firstErr := ""
	for i, r := range results {
		if r.err != nil {
			nerr++
			if firstErr == "" {
				firstErr = jobs[i].Name + ": " + r.err.Error()
			}
			fmt.Fprintln(os.Stderr, "crash-run:", r.err)
			continue
		}
		for _, e := range r.events {
			_ = enc.Encode(e)
		}
		if hf != nil && r.hits != nil {
			b, _ := json.Marshal(map[string]any{"name": jobs[i].Name, "hits": r.hits})
			hf.Write(append(b, '\n'))
		}
	}
	fe, _ := json.Marshal(firstErr)
	fmt.Printf("{\"runs\":%d,\"errors\":%d,\"first_error\":%s}\n", len(jobs), nerr, fe)
	return nil
}

// adm-run: ingress admission on the production wiring: arrival sequences (rate limiters), size limits, fan-out.
func admRun(args []string) error {
	fs := flag.NewFlagSet("adm-run", flag.ExitOnError)
	in := fs.String("arrivals", "", "arrival sequences (ndjson: {\"name\":..,\"arr\":[...]})")
	out := fs.String("out", "adm-trace", "trace output")
	scratch := fs.String("scratch", "", "scratch dir")
	_ = fs.Parse(args)
	sd := scratchDir(*scratch)
	if *scratch == "" {
		defer os.RemoveAll(sd)
	}
	f, err := os.Create(*out)
	if err != nil {
		return err
	}
	defer f.Close()
	events, traces := 0, 0
	if *in != "" {
		inf, err := os.Open(*in)
		if err != nil {
			return err
		}
		defer inf.Close()
		sc := bufio.NewScanner(inf)
		sc.Buffer(make([]byte, 1<<20), 1<<26)
		for sc.Scan() {
			if len(sc.Bytes()) == 0 {
				continue
			}
			var s struct {
				Name string       `json:"name"`
				Arr  []l1.Arrival `json:"arr"`
			}
			if err := json.Unmarshal(sc.Bytes(), &s); err != nil {
				return err
			}
			n, err := l1.RunRate(f, sd, s.Name, s.Arr)
			if err != nil {
				return err
			}
			events += n
			traces++
		}
	}
	n, err := l1.RunSizes(f, sd, "sizes")
	if err != nil {
		return err
	}
	events += n
	n, err = l1.RunFanout(f, sd, "fanout")
	if err != nil {
		return err
	}
	events += n
	n, err = l1.RunMCPPublish(f, sd, "mcppublish")
	if err != nil {
		return err
	}
	events += n
	fmt.Printf("{\"traces\":%d,\"events\":%d}\n", traces+3, events)
	return nil
}

// pull-run: lease-heavy driver schedules executed THROUGH the pull API (HTTP + gRPC) of production-wired instances.
func pullRun(args []string) error {
	fs := flag.NewFlagSet("pull-run", flag.ExitOnError)
	seed := fs.Int64("seed", 1, "seed")
	n := fs.Int("n", 20, "schedules")
	ops := fs.Int("ops", 60, "operations per schedule")
	out := fs.String("out", "pull-trace", "trace output prefix")
	shards := fs.Int("shards", 1, "trace files")
	bigEvery := fs.Int("big-every", 0, "every k-th schedule: max_batch 250 with a population of 300 ready messages")
	scratch := fs.String("scratch", "", "scratch dir")
	_ = fs.Parse(args)
	sd := scratchDir(*scratch)
	if *scratch == "" {
		defer os.RemoveAll(sd)
	}
	r := rand.New(rand.NewSource(*seed))
	type job struct {
		name string
		o    l1.PullOpts
		ops  []l0.Op
		seed int64
	}
	var jobs []job
	for i := 0; i < *n; i++ {
		o := l1.PullOpts{Backend: []string{"memory", "sqlite"}[i%2], MaxBatch: []int{1, 3, 7, 100}[r.Intn(4)], DefTTL: []int{20, 50, 30000}[r.Intn(3)],
			MaxTTL: []int{0, 0, 60}[r.Intn(3)], Cache: []string{"forever", "forever", "never"}[r.Intn(3)], GRPCPct: []int{0, 30, 100}[r.Intn(3)]}
		if o.MaxTTL > 0 && o.DefTTL > o.MaxTTL {
			o.DefTTL = o.MaxTTL
		}
		s := l0.GenSchedule(r, fmt.Sprintf("pull-s%d-%04d", *seed, i), l0.Cfg{}, l0.DriverOpts{Ops: *ops, IDs: 6, Routes: 2, Targets: 1, Profile: "lease"})
		opsList := s.Ops
		if *bigEvery > 0 && i%*bigEvery == *bigEvery-1 {
			// the configured cap must be honoured: try a cap above the stores' own limit first (Compile has to refuse it,
			// otherwise the run checks min(batch, ready) against it), then the largest accepted one
			o.MaxBatch = 250
			if !l1.PullConfigCompiles(o) {
				o.MaxBatch = 100
			}
			var envs []l0.EnvSpec
			for k := 0; k < 95; k++ {
				envs = append(envs, l0.EnvSpec{ID: fmt.Sprintf("b%03d", k), Rt: "/r1", Tg: "pull", Pl: "a"})
			}
			pre := []l0.Op{}
			for b := 0; b < 3; b++ {
				chunk := make([]l0.EnvSpec, len(envs))
				for k := range envs {
					chunk[k] = envs[k]
					chunk[k].ID = fmt.Sprintf("b%d-%03d", b, k)
				}
				pre = append(pre, l0.Op{Op: "EnqueueBatch", Envs: chunk})
			}
			pre = append(pre, l0.Op{Op: "Dequeue", Rt: "/r1", Batch: 250, TTL: 50}, l0.Op{Op: "Dequeue", Rt: "/r1", Batch: 120, TTL: 50})
			opsList = append(pre, opsList[:10]...)
		}
		jobs = append(jobs, job{s.Name + "/" + o.Backend, o, opsList, r.Int63()})
	}
	files := make([]*os.File, *shards)
	for i := range files {
		f, err := os.Create(fmt.Sprintf("%s.%d", *out, i))
		if err != nil {
			return err
		}
		defer f.Close()
		files[i] = f
	}
	var wg sync.WaitGroup
	errs := make([]error, *shards)
	counts := make([]int, *shards)
	for i := 0; i < *shards; i++ {
		wg.Add(1)
		go func(i int) {
			defer wg.Done()
			for k := i; k < len(jobs); k += *shards {
				nl, err := l1.RunPull(files[i], sd, jobs[k].name, jobs[k].o, jobs[k].ops, jobs[k].seed)
				if err != nil {
					errs[i] = fmt.Errorf("%s: %w", jobs[k].name, err)
					return
				}
				counts[i] += nl
			}
		}(i)
	}
	wg.Wait()
	events := 0
	for i := range errs {
		if errs[i] != nil {
			return errs[i]
		}
		events += counts[i]
	}
	fmt.Printf("{\"traces\":%d,\"events\":%d}\n", len(jobs), events)
	return nil
}
