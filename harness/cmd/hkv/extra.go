package main

import "fmt"

// dispatchExtra routes subcommands registered by other files.
var extraCmds = map[string]func([]string) error{}

func dispatchExtra(name string, args []string) error {
	if fn, ok := extraCmds[name]; ok {
		return fn(args)
	}
	return fmt.Errorf("unknown command %q", name)
}
