package main

import (
	"bytes"
	"context"
	"encoding/base64"
	"encoding/json"
	"fmt"
	"math/rand"
	"net/http"
	"net/http/httptest"
	"os"
	"path/filepath"
	"reflect"
	"sort"
	"strings"
	"sync/atomic"
	"time"
	"unicode"

	"github.com/nuetzliches/hookaido/internal/app"
	"github.com/nuetzliches/hookaido/internal/config"
	"github.com/nuetzliches/hookaido/internal/queue"
	workerapipb "github.com/nuetzliches/hookaido/internal/workerapi/proto"
	"github.com/nuetzliches/hookaido/verif/vfapp"
	"google.golang.org/grpc"
	"google.golang.org/grpc/credentials/insecure"
	"google.golang.org/grpc/metadata"
	"google.golang.org/grpc/status"
	"google.golang.org/protobuf/types/known/durationpb"
)

var (
	routePaths = []string{"/r1", "/r2", "/r3"}
	epPaths    = []string{"/e1", "/e2", "/e1/x"} // the third endpoint nests under the first
	unknownEp  = "/nope"
)

type tokens struct {
	G    []string   // global pull tokens
	O    [][]string // own tokens per route (nil = none)
	A    []string   // admin tokens
	None string     // configured nowhere
}

type instance struct {
	opt      options
	cfg      Cfg
	mount    string
	dir      string
	cfgPath  string
	tok      tokens
	inst     *app.VerifInstance
	store    *queue.MemoryStore
	pullH    http.Handler
	adminH   http.Handler
	pullPfx  string
	admPfx   string
	conn     *grpc.ClientConn
	cli      workerapipb.WorkerServiceClient
	seq      int
	adm      admSeed
	bootKind string
	watchCfg bool // admin calls: the configuration file is part of the observed state
}

func genToken(rng *rand.Rand) string {
	const al = "abcdefghijklmnopqrstuvwxyzABCDEFGHIJKLMNOPQRSTUVWXYZ0123456789"
	b := make([]byte, 20)
	for i := range b {
		b[i] = al[rng.Intn(len(al))]
	}
	b[0] = al[rng.Intn(26)]
	b[1] = al[26+rng.Intn(26)]
	b[18] = al[26+rng.Intn(26)]
	b[19] = al[rng.Intn(26)]
	return string(b)
}

func makeTokens(seed int64, c Cfg) tokens {
	rng := rand.New(rand.NewSource(seed*1000003 + int64(h32(c.ID()))))
	seen := map[string]bool{}
	next := func() string {
		for {
			t := genToken(rng)
			if !seen[t] {
				seen[t] = true
				return t
			}
		}
	}
	t := tokens{O: make([][]string, len(c.Own))}
	t.None = next()
	// token lists always drawn (so that the material is the same whether or not a list is configured)
	t.G = []string{next(), next()}
	t.A = []string{next(), next()}
	for i := range c.Own {
		n := 1 + i%2 // route 2 gets two own tokens
		l := []string{}
		for k := 0; k < n; k++ {
			l = append(l, next())
		}
		if c.Own[i] {
			t.O[i] = l
		}
	}
	if !c.Glob {
		t.G = nil
	}
	if !c.Adm {
		t.A = nil
	}
	return t
}

// configText renders the Hookaidofile of an abstract configuration; token refs are env: variables.
func configText(c Cfg, mount string, envPrefix string, t tokens, setenv bool) string {
	var sb strings.Builder
	env := func(name, val string) string {
		if setenv {
			os.Setenv(name, val)
		}
		return "env:" + name
	}
	sb.WriteString("ingress {\n  listen 127.0.0.1:0\n}\n")
	sb.WriteString("pull_api {\n  listen 127.0.0.2:0\n  grpc_listen 127.0.0.4:0\n")
	if mount != "bare" {
		sb.WriteString("  prefix /pull\n")
	}
	for i, g := range t.G {
		fmt.Fprintf(&sb, "  auth token %s\n", env(fmt.Sprintf("%s_G%d", envPrefix, i), g))
	}
	sb.WriteString("}\nadmin_api {\n")
	if mount == "shared" {
		sb.WriteString("  listen 127.0.0.2:0\n")
	} else {
		sb.WriteString("  listen 127.0.0.3:0\n")
	}
	if mount != "bare" {
		sb.WriteString("  prefix /adm\n")
	}
	for i, a := range t.A {
		fmt.Fprintf(&sb, "  auth token %s\n", env(fmt.Sprintf("%s_A%d", envPrefix, i), a))
	}
	sb.WriteString("}\n")
	for i := range c.Own {
		fmt.Fprintf(&sb, "%s {\n", routePaths[i])
		if i == 0 {
			sb.WriteString("  application app1\n  endpoint_name ep1\n")
		}
		sb.WriteString("  queue { backend memory }\n  pull {\n")
		fmt.Fprintf(&sb, "    path %s\n", epPaths[i])
		for k, o := range t.O[i] {
			fmt.Fprintf(&sb, "    auth token %s\n", env(fmt.Sprintf("%s_O%d_%d", envPrefix, i, k), o))
		}
		sb.WriteString("  }\n}\n")
	}
	return sb.String()
}

func compileEvent(opt options, r Row) Event {
	c := r.Cfg
	t := makeTokens(opt.seed, c)
	pfx := "VFPA_C_" + c.ID()
	text := configText(c, "bare", pfx, t, true)
	ev := Event{Ev: "Compile", Row: r, Mount: "bare", Boot: "direct", Auth: []string{}, Delta: []string{}}
	parsed, err := config.Parse([]byte(text))
	if err != nil {
		ev.Err = "parse: " + err.Error()
		return ev
	}
	_, res := config.Compile(parsed)
	ev.Accepted = res.OK
	if !res.OK {
		ev.Err = strings.Join(res.Errors, "; ")
	}
	// the production start-up sequence must agree with the compile verdict
	dir := filepath.Join(opt.scratch, "pa-compile-"+c.ID())
	inst, _, berr := vfapp.Boot(text, dir, "")
	if berr == nil {
		ev.Booted = true
		inst.Stop()
	}
	os.RemoveAll(dir)
	return ev
}

// predecessor is a different compile-accepted configuration of the same shape: every route's "own tokens" flag is
// flipped and global tokens exist.  Booting it and hot-reloading into the target exercises loadAuth on reload.
func predecessor(c Cfg) Cfg {
	p := Cfg{Own: make([]bool, len(c.Own)), Glob: true, Adm: c.Adm}
	for i, o := range c.Own {
		p.Own[i] = !o
	}
	return p
}

var bootCounter int64

func boot(opt options, c Cfg, mount string, viaReload bool) (*instance, error) {
	in := &instance{opt: opt, cfg: c, mount: mount, bootKind: "direct"}
	in.tok = makeTokens(opt.seed, c)
	pfx := "VFPA_" + c.ID() + "_" + mount
	if viaReload {
		pfx += "_R"
		in.bootKind = "reload"
	}
	in.dir = filepath.Join(opt.scratch, fmt.Sprintf("pa-%s-%s-%s-%d-%d", c.ID(), mount, in.bootKind, os.Getpid(), atomic.AddInt64(&bootCounter, 1)))
	text := configText(c, mount, pfx, in.tok, true)
	first := text
	if viaReload {
		pc := predecessor(c)
		pt := makeTokens(opt.seed+7919, pc)
		first = configText(pc, mount, pfx+"_P", pt, true)
		// a token that was valid before the reload and is configured nowhere afterwards
		in.tok.None = pt.G[0]
	}
	inst, p, err := vfapp.Boot(first, in.dir, "")
	if err != nil {
		return nil, fmt.Errorf("boot %s: %v\n%s", c.ID(), err, first)
	}
	if viaReload {
		if err := os.WriteFile(p, []byte(text), 0o644); err != nil {
			inst.Stop()
			return nil, err
		}
		if !inst.Reload("verif") {
			inst.Stop()
			return nil, fmt.Errorf("hot reload into %s refused\n--- from\n%s--- to\n%s", c.ID(), first, text)
		}
	}
	in.inst, in.cfgPath = inst, p
	ms, ok := inst.Store.(*queue.MemoryStore)
	if !ok {
		inst.Stop()
		return nil, fmt.Errorf("store is %T, want memory", inst.Store)
	}
	in.store = ms
	if mount == "shared" {
		in.pullH, in.adminH = inst.Handlers["pull+admin"], inst.Handlers["pull+admin"]
	} else {
		in.pullH, in.adminH = inst.Handlers["pull_api"], inst.Handlers["admin_api"]
	}
	if in.pullH == nil || in.adminH == nil {
		inst.Stop()
		return nil, fmt.Errorf("handlers missing (mount %s): %v", mount, inst.Handlers)
	}
	if mount != "bare" {
		in.pullPfx, in.admPfx = "/pull", "/adm"
	}
	if inst.Pull == nil {
		inst.Stop()
		return nil, fmt.Errorf("pull server not published")
	}
	// bound the lease idempotency cache so that dumping it before and after every call stays cheap
	inst.Pull.RecentLeaseOpCap = 128
	addr := inst.Addrs["grpc"]
	if addr == "" {
		inst.Stop()
		return nil, fmt.Errorf("no grpc listener")
	}
	conn, err := grpc.NewClient(addr, grpc.WithTransportCredentials(insecure.NewCredentials()))
	if err != nil {
		inst.Stop()
		return nil, err
	}
	in.conn = conn
	in.cli = workerapipb.NewWorkerServiceClient(conn)
	return in, nil
}

func (in *instance) stop() {
	if in.conn != nil {
		in.conn.Close()
	}
	if in.inst != nil {
		in.inst.Stop()
	}
	os.RemoveAll(in.dir)
}

func (in *instance) storeSize() int { return len(in.store.VerifDump()) }

// recentDump is a side-effect-free dump of the pull server's lease idempotency cache (unexported; read by reflection).
func (in *instance) recentDump() string {
	v := reflect.ValueOf(in.inst.Pull).Elem().FieldByName("recentLeaseOps")
	if !v.IsValid() {
		return "nofield"
	}
	keys := []string{}
	for _, k := range v.MapKeys() {
		keys = append(keys, k.Field(0).String()+"|"+k.Field(1).String())
	}
	sort.Strings(keys)
	return vfapp.Digest([]byte(strings.Join(keys, "\n")))
}

func (in *instance) nextID(p string) string {
	in.seq++
	return fmt.Sprintf("%s%06d", p, in.seq)
}

// topUp makes sure every route has at least n ready queued messages.
func (in *instance) topUp(n int) {
	cnt := map[string]int{}
	now := time.Now()
	for _, r := range in.store.VerifDump() {
		if r.Env.State == queue.StateQueued && !r.Env.NextRunAt.After(now) {
			cnt[r.Env.Route]++
		}
	}
	for i := range in.cfg.Own {
		rt := routePaths[i]
		for cnt[rt] < n {
			id := in.nextID("s")
			if err := in.store.Enqueue(queue.Envelope{ID: id, Route: rt, Target: "pull", Payload: []byte("payload-" + id),
				Headers: map[string]string{"X-Seed": id}}); err != nil {
				fatal("seed enqueue: %v", err)
			}
			cnt[rt]++
		}
	}
}

// lease takes k live leases on route (directly on the store, not through the API under test).
func (in *instance) lease(route string, k int) []string {
	if k == 0 {
		return nil
	}
	resp, err := in.store.Dequeue(queue.DequeueRequest{Route: route, Target: "pull", Batch: k, LeaseTTL: time.Hour})
	if err != nil || len(resp.Items) != k {
		fatal("seed lease on %s: %v (%d items)", route, err, len(resp.Items))
	}
	out := []string{}
	for _, it := range resp.Items {
		out = append(out, it.LeaseID)
	}
	return out
}

// cleanup returns the store to a small state: live leases are acked, dead messages deleted (directly on the store).
func (in *instance) cleanup() {
	var dead []string
	for _, r := range in.store.VerifDump() {
		switch r.Env.State {
		case queue.StateLeased:
			_ = in.store.Ack(r.Env.LeaseID)
		case queue.StateDead:
			dead = append(dead, r.Env.ID)
		}
	}
	if len(dead) > 0 {
		_, _ = in.store.DeleteDead(queue.DeadDeleteRequest{IDs: dead})
	}
}

type obs struct {
	msgs   []vfapp.Msg
	hash   string
	recent string
	cfgsum string
}

func (in *instance) observe() obs {
	m, err := vfapp.Dump(in.store)
	if err != nil {
		fatal("dump: %v", err)
	}
	o := obs{msgs: m, hash: vfapp.Hash(m), recent: in.recentDump(), cfgsum: "-"}
	if in.watchCfg {
		o.cfgsum = vfapp.FileSum(in.cfgPath)
	}
	return o
}

// ---------------------------------------------------------------- concretisation of credentials

func swapCase(s string) string {
	r := []rune(s)
	for i, c := range r {
		if unicode.IsLower(c) {
			r[i] = unicode.ToUpper(c)
		} else if unicode.IsUpper(c) {
			r[i] = unicode.ToLower(c)
		}
	}
	return string(r)
}

// sourceTokens returns the configured tokens a credential of class whose is derived from.
func (in *instance) sourceTokens(whose string, ep int) []string {
	switch whose {
	case "global":
		return in.tok.G
	case "admin":
		return in.tok.A
	case "own":
		if ep >= 1 && ep <= len(in.tok.O) {
			return in.tok.O[ep-1]
		}
	case "other":
		var out []string
		for i, l := range in.tok.O {
			if i != ep-1 {
				out = append(out, l...)
			}
		}
		return out
	case "none":
		return []string{in.tok.None}
	}
	return nil
}

// concretise turns an abstract credential (form, whose) into concrete Authorization value lists (nil = no header).
func (in *instance) concretise(form, whose string, ep int) [][]string {
	src := in.sourceTokens(whose, ep)
	if form == "absent" {
		return [][]string{nil}
	}
	if form == "empty" {
		return [][]string{{""}}
	}
	if form == "bearer_empty" {
		return [][]string{{"Bearer "}, {"Bearer     "}, {"Bearer"}}
	}
	if len(src) == 0 {
		return nil
	}
	t := src[0]
	wrong := in.tok.None
	n := len(t)
	var out [][]string
	one := func(v ...string) {
		for _, x := range v {
			out = append(out, []string{x})
		}
	}
	switch form {
	case "exact":
		for _, x := range src {
			one("Bearer " + x)
		}
	case "blanks":
		one("Bearer    "+t, "Bearer "+t+"   ", "Bearer   "+src[len(src)-1]+"  ")
	case "lower":
		one("bearer "+t, "BEARER "+t, "bEaReR "+src[len(src)-1])
	case "basic":
		one("Basic "+base64.StdEncoding.EncodeToString([]byte(t+":")), "Basic "+base64.StdEncoding.EncodeToString([]byte("x:"+t)), "Basic "+t)
	case "malformed":
		one(t, "Bearer"+t, "Token "+t, "Bearer\t"+t, "Bearer: "+t, "Bearer="+t)
	case "prefix":
		one("Bearer "+t[:n-1], "Bearer "+t[:n/2], "Bearer "+t[:1])
	case "suffix":
		one("Bearer "+t[1:], "Bearer "+t[n/2:], "Bearer "+t[n-1:])
	case "casevar":
		one("Bearer "+swapCase(t), "Bearer "+strings.ToUpper(t), "Bearer "+strings.ToLower(t))
	case "garbage":
		one("Bearer "+t+"x", "Bearer "+t+" x", "Bearer "+t+",x", "Bearer "+t+t, "Bearer "+t+";", "Bearer "+t+", Bearer "+wrong)
	case "two_first":
		out = append(out, []string{"Bearer " + t, "Bearer " + wrong})
	case "two_second":
		out = append(out, []string{"Bearer " + wrong, "Bearer " + t})
	case "two_invalid":
		out = append(out, []string{"Bearer " + t[:n-1], "Bearer " + t[1:]}, []string{"Bearer " + wrong, "Basic " + t})
	}
	return out
}

func printable(vals []string) bool {
	for _, v := range vals {
		for i := 0; i < len(v); i++ {
			if v[i] < 0x20 || v[i] > 0x7e {
				return false
			}
		}
	}
	return true
}

// ---------------------------------------------------------------- pull / worker calls

type variant struct {
	name   string
	kind   string // strict | norm | method
	method string
	path   string // HTTP path or gRPC endpoint
}

func opSegment(op string) string {
	switch op {
	case "dequeue", "dequeue_batch":
		return "dequeue"
	case "ack", "ack_batch":
		return "ack"
	case "extend":
		return "extend"
	}
	return "nack"
}

func (in *instance) epPath(ep int) string {
	if ep >= 1 && ep <= len(in.cfg.Own) {
		return epPaths[ep-1]
	}
	return unknownEp
}

func (in *instance) variantsFor(r Row) []variant {
	e := in.epPath(r.Ep)
	decoy := "/e2"
	if r.Ep == 2 {
		decoy = "/e1"
	}
	if r.Tr == "grpc" {
		vs := []variant{
			{"plain", "strict", "", e},
			{"blanks", "norm", "", "  " + e + " "},
			{"trailing", "norm", "", e + "/"},
			{"dotdot", "norm", "", decoy + "/.." + e},
			{"dslash", "norm", "", "/" + e},
		}
		if in.pullPfx != "" {
			vs = append(vs, variant{"prefixed", "norm", "", in.pullPfx + e})
		}
		return vs
	}
	seg := opSegment(r.Op)
	p := in.pullPfx
	vs := []variant{
		{"plain", "strict", "POST", p + e + "/" + seg},
		{"trailing", "norm", "POST", p + e + "/" + seg + "/"},
		{"dslash", "norm", "POST", p + "/" + e + "//" + seg},
		{"dot", "norm", "POST", p + e + "/./" + seg},
		{"dotdot", "norm", "POST", p + decoy + "/.." + e + "/" + seg},
		{"dotdot_op", "norm", "POST", p + e + "/zz/../" + seg},
		{"get", "method", "GET", p + e + "/" + seg},
		{"put", "method", "PUT", p + e + "/" + seg},
		{"delete", "method", "DELETE", p + e + "/" + seg},
	}
	if in.mount == "shared" {
		vs = append(vs, variant{"cross", "norm", "POST", in.admPfx + "/.." + p + e + "/" + seg})
	}
	if in.mount == "prefix" {
		vs = append(vs, variant{"noprefix", "norm", "POST", e + "/" + seg})
	}
	return vs
}

type selector struct {
	rotate  bool
	rotConc bool
	conc    int // -1 = all
	variant string
	adminEp string
	method  string
}

func (in *instance) execPull(r Row, sel selector, emit func(Event)) (int, int) {
	concs := in.concretise(r.Form, r.Whose, r.Ep)
	vars := in.variantsFor(r)
	n, skipped := 0, 0
	pickC := -1
	if sel.rotConc && r.Form != "exact" && len(concs) > 1 {
		pickC = int(h32(fmt.Sprintf("c|%s|%d|%s|%s|%s|%s|%d", r.Cfg.ID(), r.Ep, r.Form, r.Whose, r.Tr, r.Op, in.opt.seed)) % uint32(len(concs)))
		for r.Tr == "grpc" && !printable(concs[pickC]) {
			pickC = (pickC + 1) % len(concs)
		}
	}
	for ci, hv := range concs {
		if sel.conc >= 0 && ci != sel.conc {
			continue
		}
		if pickC >= 0 && ci != pickC {
			continue
		}
		if r.Tr == "grpc" && !printable(hv) {
			skipped++ // the gRPC client refuses to send non-printable metadata
			continue
		}
		pickV := -1
		// thinned mode: the canonical form always; one more spelling / method for every other (row, concretisation)
		if sel.rotate && len(vars) > 1 && h32(fmt.Sprintf("v|%s|%d|%s|%s|%s|%s|%d|%d", r.Cfg.ID(), r.Ep, r.Form, r.Whose, r.Tr, r.Op, ci, in.opt.seed))%2 == 0 {
			pickV = 1 + int(h32(fmt.Sprintf("%s|%d|%s|%s|%s|%s|%d|%d", r.Cfg.ID(), r.Ep, r.Form, r.Whose, r.Tr, r.Op, ci, in.opt.seed))%uint32(len(vars)-1))
		}
		for vi, v := range vars {
			if sel.variant != "" && v.name != sel.variant {
				continue
			}
			if sel.rotate && vi != 0 && vi != pickV {
				continue
			}
			emit(in.callPull(r, v, ci, hv))
			n++
		}
	}
	return n, skipped
}

func (in *instance) callPull(r Row, v variant, ci int, hv []string) Event {
	route := routePaths[0]
	if r.Ep >= 1 && r.Ep <= len(in.cfg.Own) {
		route = routePaths[r.Ep-1]
	}
	k := 1
	switch r.Op {
	case "dequeue", "dequeue_batch":
		k = 0
	case "ack_batch", "nack_batch":
		k = 2
	}
	in.topUp(4)
	leases := in.lease(route, k)
	pre := in.observe()
	ev := Event{Ev: "Call", Row: r, Mount: in.mount, Boot: in.bootKind, Variant: v.name, Kind: v.kind, Conc: ci, Method: v.method, Path: v.path,
		Auth: hv, Delta: []string{}}
	if ev.Auth == nil {
		ev.Auth = []string{}
	}
	if r.Tr == "grpc" {
		ev.Method = "grpc"
		ev.Status, ev.NItems = in.grpcCall(r.Op, v.path, hv, leases)
	} else {
		ev.Status, ev.NItems = in.httpPull(r.Op, v.method, v.path, hv, leases)
	}
	post := in.observe()
	ev.Pre, ev.Post, ev.RPre, ev.RPost, ev.CPre, ev.CPost = pre.hash, post.hash, pre.recent, post.recent, pre.cfgsum, post.cfgsum
	ev.NPre, ev.NPost = len(pre.msgs), len(post.msgs)
	if pre.hash != post.hash {
		ev.Delta = vfapp.Delta(pre.msgs, post.msgs)
	}
	in.cleanup()
	return ev
}

func pullBody(op string, leases []string) string {
	q := func(s string) string { b, _ := json.Marshal(s); return string(b) }
	switch op {
	case "dequeue":
		return `{"batch":1}`
	case "dequeue_batch":
		return `{"batch":2,"lease_ttl":"10m"}`
	case "ack":
		return `{"lease_id":` + q(leases[0]) + `}`
	case "ack_batch":
		return `{"lease_ids":[` + q(leases[0]) + `,` + q(leases[1]) + `]}`
	case "nack":
		return `{"lease_id":` + q(leases[0]) + `,"delay":"0s"}`
	case "nack_batch":
		return `{"lease_ids":[` + q(leases[0]) + `,` + q(leases[1]) + `],"delay":"0s"}`
	case "nack_dead":
		return `{"lease_id":` + q(leases[0]) + `,"dead":true,"reason":"verif"}`
	case "extend":
		return `{"lease_id":` + q(leases[0]) + `,"extend_by":"30s"}`
	}
	return `{}`
}

func (in *instance) httpDo(h http.Handler, method, path string, hv []string, hdr map[string]string, body string) (int, []byte) {
	return in.httpDoQuery(h, method, path, "", hv, hdr, body)
}

func (in *instance) httpDoQuery(h http.Handler, method, path, rawQuery string, hv []string, hdr map[string]string, body string) (int, []byte) {
	req := httptest.NewRequest(method, "http://verif.local/", bytes.NewReader([]byte(body)))
	req.URL.RawQuery = rawQuery
	// set the path verbatim: the production servers do not use ServeMux, so the handler sees the path as sent
	req.URL.Path = path
	req.URL.RawPath = ""
	req.RequestURI = path
	req.Header.Set("Content-Type", "application/json")
	if hv != nil {
		req.Header["Authorization"] = append([]string(nil), hv...)
	}
	for k, v := range hdr {
		req.Header.Set(k, v)
	}
	rec := httptest.NewRecorder()
	h.ServeHTTP(rec, req)
	return rec.Code, rec.Body.Bytes()
}

func (in *instance) httpPull(op, method, path string, hv []string, leases []string) (string, int) {
	code, body := in.httpDo(in.pullH, method, path, hv, nil, pullBody(op, leases))
	var resp struct {
		Items []json.RawMessage `json:"items"`
	}
	_ = json.Unmarshal(body, &resp)
	return fmt.Sprint(code), len(resp.Items)
}

func (in *instance) grpcCall(op, endpoint string, hv []string, leases []string) (string, int) {
	ctx, cancel := context.WithTimeout(context.Background(), 10*time.Second)
	defer cancel()
	if hv != nil {
		md := metadata.MD{}
		for _, v := range hv {
			md.Append("authorization", v)
		}
		ctx = metadata.NewOutgoingContext(ctx, md)
	}
	var err error
	n := 0
	switch op {
	case "dequeue":
		var resp *workerapipb.DequeueResponse
		resp, err = in.cli.Dequeue(ctx, &workerapipb.DequeueRequest{Endpoint: endpoint, Batch: 1})
		n = len(resp.GetItems())
	case "dequeue_batch":
		var resp *workerapipb.DequeueResponse
		resp, err = in.cli.Dequeue(ctx, &workerapipb.DequeueRequest{Endpoint: endpoint, Batch: 2, LeaseTtl: durationpb.New(10 * time.Minute)})
		n = len(resp.GetItems())
	case "ack":
		_, err = in.cli.Ack(ctx, &workerapipb.AckRequest{Endpoint: endpoint, LeaseId: leases[0]})
	case "ack_batch":
		_, err = in.cli.Ack(ctx, &workerapipb.AckRequest{Endpoint: endpoint, LeaseIds: leases})
	case "nack":
		_, err = in.cli.Nack(ctx, &workerapipb.NackRequest{Endpoint: endpoint, LeaseId: leases[0], Delay: durationpb.New(0)})
	case "nack_batch":
		_, err = in.cli.Nack(ctx, &workerapipb.NackRequest{Endpoint: endpoint, LeaseIds: leases, Delay: durationpb.New(0)})
	case "nack_dead":
		_, err = in.cli.Nack(ctx, &workerapipb.NackRequest{Endpoint: endpoint, LeaseId: leases[0], Dead: true, Reason: "verif"})
	case "extend":
		_, err = in.cli.Extend(ctx, &workerapipb.ExtendRequest{Endpoint: endpoint, LeaseId: leases[0], ExtendBy: durationpb.New(30 * time.Second)})
	}
	return status.Code(err).String(), n
}
