// hkv-pullauth executes the abstract rows of spec/PullAuth.tla (printed by TLC) on the real code:
// generated Hookaidofiles go through the real config.Parse / config.Compile and app.VerifBoot (production wiring,
// memory backend, tokens through env: refs), every pull operation is sent over HTTP (httptest against the
// production handler incl. prefix mounting / shared listener) and over gRPC (real client on the loopback
// listener), every admin endpoint x method over HTTP.  One ndjson event per call: abstract row, concrete request,
// status, digest of the complete queue dump and of the lease idempotency cache before and after.
// Expected results are not computed here: spec/PullAuthTrace.tla is the oracle.
package main

import (
	"bufio"
	"encoding/json"
	"flag"
	"fmt"
	"hash/fnv"
	"os"
	"sort"
	"sync"
	"sync/atomic"

	"github.com/nuetzliches/hookaido/verif/vfapp"
)

type Cfg struct {
	Own  []bool `json:"own"`
	Glob bool   `json:"glob"`
	Adm  bool   `json:"adm"`
}

func b01(b bool) string {
	if b {
		return "1"
	}
	return "0"
}

func (c Cfg) ID() string {
	s := "o"
	for _, o := range c.Own {
		s += b01(o)
	}
	return s + "g" + b01(c.Glob) + "a" + b01(c.Adm)
}

type Row struct {
	S     string `json:"s"`
	Cfg   Cfg    `json:"cfg"`
	Ep    int    `json:"ep"`
	Form  string `json:"form"`
	Whose string `json:"whose"`
	Tr    string `json:"tr"`
	Op    string `json:"op"`
}

type Event struct {
	Ev       string   `json:"ev"` // Call | Compile
	Row      Row      `json:"row"`
	Mount    string   `json:"mount"`
	Boot     string   `json:"boot"` // direct | reload
	Variant  string   `json:"variant"`
	Kind     string   `json:"kind"` // strict | norm | method
	Conc     int      `json:"conc"`
	Method   string   `json:"method"`
	Path     string   `json:"path"`
	Auth     []string `json:"auth"`
	Status   string   `json:"status"`
	NItems   int      `json:"nitems"`
	Pre      string   `json:"pre"`
	Post     string   `json:"post"`
	RPre     string   `json:"rpre"`
	RPost    string   `json:"rpost"`
	CPre     string   `json:"cpre"`
	CPost    string   `json:"cpost"`
	NPre     int      `json:"npre"`
	NPost    int      `json:"npost"`
	Delta    []string `json:"delta"`
	Good     bool     `json:"good"`
	AdminEp  string   `json:"adminep"`
	Accepted bool     `json:"accepted"`
	Booted   bool     `json:"booted"`
	Err      string   `json:"err"`
}

type options struct {
	seed     int64
	scratch  string
	mounts   string // all | rotate | bare | prefix | shared
	variants string // all | rotate
	concs    string // all | rotate
	reload   string // none | rotate | all : reach the configuration through a hot reload from a different one
	adminN   int    // number of configurations whose admin rows are executed (0 = all)
	adminOff int    // rotation offset of that choice
}

var allMounts = []string{"bare", "prefix", "shared"}

func h32(s string) uint32 {
	h := fnv.New32a()
	h.Write([]byte(s))
	return h.Sum32()
}

func main() {
	rowsPath := flag.String("rows", "", "ndjson file of abstract rows (TLC output)")
	out := flag.String("out", "", "trace file prefix")
	shards := flag.Int("shards", 1, "number of trace shards")
	seed := flag.Int64("seed", 1, "seed (token material)")
	scratch := flag.String("scratch", os.TempDir(), "scratch directory")
	mounts := flag.String("mounts", "rotate", "all | rotate | bare | prefix | shared")
	concs := flag.String("concs", "all", "all | rotate (one concretisation per row and call, rotating)")
	variants := flag.String("variants", "rotate", "all | rotate")
	reload := flag.String("reload", "none", "none | rotate | all")
	adminN := flag.Int("admin-cfgs", 0, "configurations whose admin rows are run (0 = all)")
	adminOff := flag.Int("admin-offset", 0, "rotation offset for -admin-cfgs")
	workers := flag.Int("workers", 8, "parallel instances")
	one := flag.String("one", "", "replay: JSON of one event (row, mount, variant, conc, adminep)")
	flag.Parse()
	opt := options{seed: *seed, scratch: *scratch, mounts: *mounts, variants: *variants, concs: *concs, reload: *reload, adminN: *adminN, adminOff: *adminOff}

	if *one != "" {
		var e Event
		if err := json.Unmarshal([]byte(*one), &e); err != nil {
			fatal("bad -one: %v", err)
		}
		replayOne(opt, e)
		return
	}
	if *rowsPath == "" || *out == "" {
		fatal("need -rows and -out")
	}
	rows := readRows(*rowsPath)
	sh, err := vfapp.OpenShards(*out, *shards)
	if err != nil {
		fatal("%v", err)
	}

	// group rows by configuration
	byCfg := map[string][]Row{}
	cfgOf := map[string]Cfg{}
	var compileRows []Row
	for _, r := range rows {
		if r.S == "compile" {
			compileRows = append(compileRows, r)
			continue
		}
		id := r.Cfg.ID()
		byCfg[id] = append(byCfg[id], r)
		cfgOf[id] = r.Cfg
	}
	ids := make([]string, 0, len(byCfg))
	for id := range byCfg {
		ids = append(ids, id)
	}
	sort.Strings(ids)

	// which configurations run their admin rows
	adminRun := map[string]bool{}
	withAdm, withoutAdm := []string{}, []string{}
	// configurations in which every credential class exists (global tokens and some route with own tokens) come first
	rich := func(c Cfg) bool {
		any := false
		for _, o := range c.Own {
			any = any || o
		}
		return c.Glob && any
	}
	var poorAdm []string
	for _, id := range ids {
		switch {
		case cfgOf[id].Adm && rich(cfgOf[id]):
			withAdm = append(withAdm, id)
		case cfgOf[id].Adm:
			poorAdm = append(poorAdm, id)
		default:
			withoutAdm = append(withoutAdm, id)
		}
	}
	nRich := len(withAdm)
	withAdm = append(withAdm, poorAdm...)
	pick := func(l []string, n int) {
		if n <= 0 || n > len(l) {
			n = len(l)
		}
		off := 0
		if len(l) > 0 {
			off = (int(opt.seed) + opt.adminOff) % len(l)
			if off < 0 {
				off = -off
			}
		}
		for i := 0; i < n; i++ {
			adminRun[l[(off+i)%len(l)]] = true
		}
	}
	if opt.adminN > 0 && opt.adminN <= nRich {
		pick(withAdm[:nRich], opt.adminN)
	} else {
		pick(withAdm, opt.adminN)
	}
	if opt.adminN > 0 {
		pick(withoutAdm, 1)
	} else {
		pick(withoutAdm, 0)
	}

	type group struct {
		id     string
		mount  string
		rows   []Row
		reload bool
	}
	var groups []group
	for gi, id := range ids {
		ms := allMounts
		if opt.mounts == "rotate" {
			ms = []string{allMounts[(gi+int(opt.seed))%3]}
		} else if opt.mounts != "all" {
			ms = []string{opt.mounts}
		}
		for _, m := range ms {
			var pr, ar []Row
			for _, r := range byCfg[id] {
				if r.S == "admin" {
					if adminRun[id] {
						ar = append(ar, r)
					}
					continue
				}
				pr = append(pr, r)
			}
			// admin rows run on their own instance (better balance, and pull seeding stays undisturbed)
			rl := opt.reload == "all" || (opt.reload == "rotate" && (gi+int(opt.seed))%2 == 0)
			if len(ar) > 0 {
				groups = append(groups, group{id, m, ar, rl})
			}
			if len(pr) > 0 {
				groups = append(groups, group{id, m, pr, rl})
			}
		}
	}

	var calls, skipped int64
	counters := map[string]int{}
	var cmu sync.Mutex
	addCounters := func(m map[string]int) {
		cmu.Lock()
		for k, v := range m {
			counters[k] += v
		}
		cmu.Unlock()
	}

	// compile verdicts (sequential, cheap)
	for _, r := range compileRows {
		ev := compileEvent(opt, r)
		sh.Write(0, ev)
		counters["compile."+fmt.Sprint(ev.Accepted)]++
	}

	var wg sync.WaitGroup
	ch := make(chan int)
	for w := 0; w < *workers; w++ {
		wg.Add(1)
		go func() {
			defer wg.Done()
			for gi := range ch {
				g := groups[gi]
				local := map[string]int{}
				n, sk, err := runGroup(opt, cfgOf[g.id], g.mount, g.reload, g.rows, func(e Event) {
					sh.Write(gi, e)
					countEvent(local, e)
				})
				if err != nil {
					fatal("group %s/%s: %v", g.id, g.mount, err)
				}
				atomic.AddInt64(&calls, int64(n))
				atomic.AddInt64(&skipped, int64(sk))
				addCounters(local)
			}
		}()
	}
	for gi := range groups {
		ch <- gi
	}
	close(ch)
	wg.Wait()
	sh.Close()
	info := map[string]any{"rows": len(rows), "groups": len(groups), "calls": calls, "skipped": skipped, "shard_events": sh.N, "counters": counters}
	b, _ := json.Marshal(info)
	fmt.Println(string(b))
}

// countEvent keeps the non-vacuity counters the check asserts on.
func countEvent(m map[string]int, e Event) {
	if e.Ev != "Call" {
		return
	}
	r := e.Row
	cls := "other"
	switch e.Status {
	case "401", "Unauthenticated":
		cls = "unauth"
	}
	if r.S == "pull" {
		m["pull."+r.Tr+"."+r.Op+"."+r.Form+"."+r.Whose]++
		m["pullcls."+r.Tr+"."+r.Op+"."+cls]++
		m["variant."+r.Tr+"."+e.Variant+"."+cls]++
		m["mount."+e.Mount]++
		m["boot."+e.Boot+"."+cls]++
		if e.Pre != e.Post {
			m["pull.changed."+r.Tr+"."+r.Op]++
		}
	} else {
		m["admin."+r.Form+"."+r.Whose]++
		m["adminep."+e.AdminEp+"."+cls]++
		m["admincls."+cls]++
		if e.Pre != e.Post {
			m["admin.changed"]++
		}
	}
}

func readRows(p string) []Row {
	f, err := os.Open(p)
	if err != nil {
		fatal("%v", err)
	}
	defer f.Close()
	var rows []Row
	sc := bufio.NewScanner(f)
	sc.Buffer(make([]byte, 1<<20), 1<<24)
	for sc.Scan() {
		if len(sc.Bytes()) == 0 {
			continue
		}
		var r Row
		if err := json.Unmarshal(sc.Bytes(), &r); err != nil {
			fatal("row: %v", err)
		}
		rows = append(rows, r)
	}
	return rows
}

func fatal(f string, a ...any) {
	fmt.Fprintf(os.Stderr, f+"\n", a...)
	os.Exit(3)
}

// runGroup boots one instance for (cfg, mount) and executes its rows.
func runGroup(opt options, c Cfg, mount string, viaReload bool, rows []Row, emit func(Event)) (int, int, error) {
	in, err := boot(opt, c, mount, viaReload)
	if err != nil {
		return 0, 0, err
	}
	defer func() { in.stop() }()
	n, sk := 0, 0
	for _, r := range rows {
		sel := selector{conc: -1, rotate: opt.variants == "rotate", rotConc: opt.concs == "rotate"}
		var a, b int
		if r.S == "pull" {
			a, b = in.execPull(r, sel, emit)
		} else {
			a, b = in.execAdmin(r, sel, emit)
			if in.storeSize() > 80 {
				// keep dumps small: restart on a fresh store (same configuration, same tokens)
				in.stop()
				in, err = boot(opt, c, mount, viaReload)
				if err != nil {
					return n, sk, err
				}
			}
		}
		n += a
		sk += b
	}
	return n, sk, nil
}

func replayOne(opt options, e Event) {
	if e.Ev == "Compile" || e.Row.S == "compile" {
		ev := compileEvent(opt, e.Row)
		b, _ := json.Marshal(ev)
		fmt.Println(string(b))
		return
	}
	in, err := boot(opt, e.Row.Cfg, e.Mount, e.Boot == "reload")
	if err != nil {
		fatal("boot: %v", err)
	}
	defer in.stop()
	sel := selector{conc: e.Conc, variant: e.Variant, adminEp: e.AdminEp, method: e.Method}
	emit := func(ev Event) {
		b, _ := json.Marshal(ev)
		fmt.Println(string(b))
	}
	if e.Row.S == "pull" {
		in.execPull(e.Row, sel, emit)
	} else {
		in.execAdmin(e.Row, sel, emit)
	}
}
