package main

import (
	"encoding/base64"
	"encoding/json"
	"fmt"

	"github.com/nuetzliches/hookaido/internal/queue"
	"github.com/nuetzliches/hookaido/verif/vfapp"
)

// admSeed names the messages the admin request bodies refer to (so that an unauthorized success would be visible).
type admSeed struct {
	q, d, c    string // queued / dead / canceled on the unmanaged route /r2
	mq, md, mc string // the same on the managed route /r1 (application app1, endpoint ep1)
}

func (in *instance) seedAdmin() {
	have := map[string]queue.State{}
	for _, r := range in.store.VerifDump() {
		have[r.Env.ID] = r.Env.State
	}
	mk := func(cur *string, route string, st queue.State) {
		if *cur != "" && have[*cur] == st {
			return
		}
		id := in.nextID("a")
		env := queue.Envelope{ID: id, Route: route, Target: "pull", Payload: []byte("adm-" + id)}
		if st == queue.StateDead {
			env.State = queue.StateDead
			env.DeadReason = "seed"
		}
		if err := in.store.Enqueue(env); err != nil {
			fatal("admin seed: %v", err)
		}
		if st == queue.StateCanceled {
			if _, err := in.store.CancelMessages(queue.MessageCancelRequest{IDs: []string{id}}); err != nil {
				fatal("admin seed cancel: %v", err)
			}
		}
		*cur = id
	}
	mk(&in.adm.q, "/r2", queue.StateQueued)
	mk(&in.adm.d, "/r2", queue.StateDead)
	mk(&in.adm.c, "/r2", queue.StateCanceled)
	mk(&in.adm.mq, "/r1", queue.StateQueued)
	mk(&in.adm.md, "/r1", queue.StateDead)
	mk(&in.adm.mc, "/r1", queue.StateCanceled)
}

type adminReq struct {
	name   string
	method string
	path   string
	body   func(in *instance) string
	good   bool // a valid request: an authorized caller gets 2xx
}

func ids(id string) string { b, _ := json.Marshal(map[string][]string{"ids": {id}}); return string(b) }

func none(*instance) string { return "" }

const scoped = "/applications/app1/endpoints/ep1"

// adminTable enumerates the routes of internal/admin/http.go (ServeHTTP and handleApplicationResource).
func adminTable() []adminReq {
	pl := base64.StdEncoding.EncodeToString([]byte("published"))
	return []adminReq{
		{"healthz", "GET", "/healthz", none, true},
		{"healthz_details", "GET", "/healthz?details=1", none, true},
		{"dlq", "GET", "/dlq", none, true},
		{"backlog_top_queued", "GET", "/backlog/top_queued", none, true},
		{"backlog_oldest_queued", "GET", "/backlog/oldest_queued", none, true},
		{"backlog_aging_summary", "GET", "/backlog/aging_summary", none, true},
		{"backlog_trends", "GET", "/backlog/trends", none, false},
		{"messages", "GET", "/messages?route=/r2&include_payload=1", none, true},
		{"attempts", "GET", "/attempts", none, true},
		{"management_model", "GET", "/management/model", none, true},
		{"applications", "GET", "/applications", none, true},
		{"app_endpoints", "GET", "/applications/app1/endpoints", none, true},
		{"app_endpoint", "GET", scoped, none, true},
		{"app_messages", "GET", scoped + "/messages", none, true},
		{"publish", "POST", "/messages/publish", func(in *instance) string {
			return fmt.Sprintf(`{"items":[{"id":%q,"route":"/r2","payload_b64":%q}]}`, in.nextID("p"), pl)
		}, true},
		{"dlq_requeue", "POST", "/dlq/requeue", func(in *instance) string { return ids(in.adm.d) }, true},
		{"dlq_delete", "POST", "/dlq/delete", func(in *instance) string { return ids(in.adm.d) }, true},
		{"cancel", "POST", "/messages/cancel", func(in *instance) string { return ids(in.adm.q) }, true},
		{"requeue", "POST", "/messages/requeue", func(in *instance) string { return ids(in.adm.d) }, true},
		{"resume", "POST", "/messages/resume", func(in *instance) string { return ids(in.adm.c) }, true},
		{"cancel_by_filter", "POST", "/messages/cancel_by_filter", func(*instance) string { return `{"route":"/r2","state":"queued","limit":1}` }, true},
		{"requeue_by_filter", "POST", "/messages/requeue_by_filter", func(*instance) string { return `{"route":"/r2","state":"dead","limit":1}` }, true},
		{"resume_by_filter", "POST", "/messages/resume_by_filter", func(*instance) string { return `{"route":"/r2","state":"canceled","limit":1}` }, true},
		{"scoped_publish", "POST", scoped + "/messages/publish", func(in *instance) string {
			return fmt.Sprintf(`{"items":[{"id":%q,"payload_b64":%q}]}`, in.nextID("p"), pl)
		}, true},
		{"scoped_cancel_by_filter", "POST", scoped + "/messages/cancel_by_filter", func(*instance) string { return `{"state":"queued","limit":1}` }, true},
		{"scoped_requeue_by_filter", "POST", scoped + "/messages/requeue_by_filter", func(*instance) string { return `{"state":"dead","limit":1}` }, true},
		{"scoped_resume_by_filter", "POST", scoped + "/messages/resume_by_filter", func(*instance) string { return `{"state":"canceled","limit":1}` }, true},
		// management mutations: bodies chosen so that an authorized call is refused without touching the config file
		{"endpoint_put", "PUT", "/applications/app9/endpoints/ep9", func(*instance) string { return `{"route":"/does-not-exist"}` }, false},
		{"endpoint_delete", "DELETE", "/applications/app9/endpoints/ep9", none, false},
		{"unknown", "GET", "/nope", none, false},
		{"root", "GET", "/", none, false},
	}
}

var wrongMethods = []string{"GET", "POST", "PUT", "DELETE", "PATCH", "HEAD", "OPTIONS"}

// adminCalls expands the table: every endpoint with its own method and a good body, every endpoint with every other
// method, and path variants (trailing slash, dot segments, missing prefix, cross-mount traversal).
type adminCall struct {
	ep      string
	variant string
	kind    string
	method  string
	path    string
	body    func(in *instance) string
	good    bool
}

func (in *instance) adminCalls(rotate bool, salt string) []adminCall {
	var out []adminCall
	p := in.admPfx
	for i, a := range adminTable() {
		out = append(out, adminCall{a.name, "plain", "strict", a.method, p + a.path, a.body, a.good})
		for k, m := range wrongMethods {
			if m == a.method {
				continue
			}
			if rotate && k != int(h32(salt+a.name)%uint32(len(wrongMethods))) {
				continue
			}
			out = append(out, adminCall{a.name, "m_" + m, "strict", m, p + a.path, a.body, false})
		}
		if rotate && i%4 != int(h32(salt)%4) {
			continue
		}
		base, query := a.path, ""
		for j := 0; j < len(a.path); j++ {
			if a.path[j] == '?' {
				base, query = a.path[:j], a.path[j:]
				break
			}
		}
		if base != "/" {
			out = append(out,
				adminCall{a.name, "trailing", "norm", a.method, p + base + "/" + query, a.body, false},
				adminCall{a.name, "dotdot", "norm", a.method, p + "/zz/.." + base + query, a.body, false},
				adminCall{a.name, "dslash", "norm", a.method, p + "/" + base + query, a.body, false})
		}
		if in.mount == "prefix" {
			out = append(out, adminCall{a.name, "noprefix", "norm", a.method, a.path, a.body, false})
		}
		if in.mount == "shared" {
			out = append(out, adminCall{a.name, "cross", "norm", a.method, in.pullPfx + "/.." + p + base + query, a.body, false})
		}
	}
	return out
}

var auditHeaders = map[string]string{"X-Hookaido-Audit-Reason": "verif", "X-Hookaido-Audit-Actor": "verif-bot", "X-Request-ID": "req-1"}

func (in *instance) execAdmin(r Row, sel selector, emit func(Event)) (int, int) {
	concs := in.concretise(r.Form, r.Whose, 0)
	n := 0
	for ci, hv := range concs {
		if sel.conc >= 0 && ci != sel.conc {
			continue
		}
		if sel.rotConc && ci > 1 {
			continue // two concretisations per abstract credential in the thinned mode
		}
		salt := fmt.Sprintf("%s|%s|%s|%d|%d", r.Cfg.ID(), r.Form, r.Whose, ci, in.opt.seed)
		for _, c := range in.adminCalls(sel.rotate, salt) {
			if sel.adminEp != "" && (c.ep != sel.adminEp || c.variant != sel.variant) {
				continue
			}
			emit(in.callAdmin(r, c, ci, hv))
			n++
		}
	}
	return n, 0
}

func (in *instance) callAdmin(r Row, c adminCall, ci int, hv []string) Event {
	in.watchCfg = true
	in.topUp(2)
	in.seedAdmin()
	// a live lease, so that lease-related state is part of what an unauthorized call could disturb
	in.lease("/r2", 1)
	body := c.body(in)
	pre := in.observe()
	ev := Event{Ev: "Call", Row: r, Mount: in.mount, Boot: in.bootKind, Variant: c.variant, Kind: c.kind, Conc: ci, Method: c.method, Path: c.path,
		Auth: hv, Delta: []string{}, Good: c.good, AdminEp: c.ep}
	if ev.Auth == nil {
		ev.Auth = []string{}
	}
	path, rawq := c.path, ""
	for j := 0; j < len(path); j++ {
		if path[j] == '?' {
			path, rawq = path[:j], path[j+1:]
			break
		}
	}
	code, _ := in.httpDoQuery(in.adminH, c.method, path, rawq, hv, auditHeaders, body)
	ev.Status = fmt.Sprint(code)
	post := in.observe()
	ev.Pre, ev.Post, ev.RPre, ev.RPost, ev.CPre, ev.CPost = pre.hash, post.hash, pre.recent, post.recent, pre.cfgsum, post.cfgsum
	ev.NPre, ev.NPost = len(pre.msgs), len(post.msgs)
	if pre.hash != post.hash {
		ev.Delta = vfapp.Delta(pre.msgs, post.msgs)
	}
	in.cleanupAdmin()
	return ev
}

// cleanupAdmin acks live leases; dead / canceled seed messages stay (they are what the requests refer to).
func (in *instance) cleanupAdmin() {
	for _, r := range in.store.VerifDump() {
		if r.Env.State == queue.StateLeased {
			_ = in.store.Ack(r.Env.LeaseID)
		}
	}
}
