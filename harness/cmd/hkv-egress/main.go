// Command hkv-egress executes the abstract rows of spec/EgressMC.tla (property C16) on the real
// dispatcher.HTTPDeliverer (stub resolver, recording transport) and, for a sample, through the real
// dispatcher.PushDispatcher on a queue.MemoryStore.  One ndjson event per execution.
//
//	hkv-egress run -rows rows.ndjson -out trace -shards 16 -per 3 -seed 1 -dispatch-every 11
//	hkv-egress one -row '<json>' -variant 0 [-dispatch|-prod]
//	hkv-egress prod -rows rows.ndjson -out trace.prod -every 97 -seed 1   (production wiring, app.VerifBoot, one row at a time)
package main

import (
	"bufio"
	"encoding/json"
	"flag"
	"fmt"
	"math/rand"
	"net"
	"os"
	"sort"
	"strings"
	"sync"

	"github.com/nuetzliches/hookaido/verif/c16"
)

type event struct {
	Ev   string          `json:"ev"`
	ID   int             `json:"id"`
	Seed int64           `json:"seed"`
	Row  json.RawMessage `json:"row"`
	Mode string          `json:"mode"`
	Conc *c16.Conc       `json:"conc"`
	Obs  c16.Obs         `json:"obs"`
	Disp c16.Disp        `json:"disp"`
}

func main() {
	if len(os.Args) < 2 {
		fmt.Fprintln(os.Stderr, "usage: hkv-egress run|one [flags]")
		os.Exit(2)
	}
	var err error
	switch os.Args[1] {
	case "run":
		err = run(os.Args[2:])
	case "one":
		err = one(os.Args[2:])
	case "prod":
		err = prod(os.Args[2:])
	default:
		err = fmt.Errorf("unknown command %q", os.Args[1])
	}
	if err != nil {
		fmt.Fprintln(os.Stderr, "hkv-egress:", err)
		os.Exit(2)
	}
}

func rngFor(seed int64, id, variant int) *rand.Rand {
	return rand.New(rand.NewSource(seed*1000003 + int64(id)*131 + int64(variant)))
}

type counters struct {
	mu sync.Mutex
	m  map[string]int
}

func (c *counters) add(local map[string]int) {
	c.mu.Lock()
	for k, v := range local {
		c.m[k] += v
	}
	c.mu.Unlock()
}

func sentWord(n int) string {
	if n > 0 {
		return "sent"
	}
	return "refused"
}

// non-vacuity counters from what was observed (no oracle involved)
var noteworthy = c16.Noteworthy()

func count(local map[string]int, row *c16.Row, conc *c16.Conc, mode string, o c16.Obs, d c16.Disp) {
	local["events"]++
	if row.Fam == "addr" && row.Pol.Rebind {
		// which concrete edge / just-outside addresses were used (under rebind protection: where the class decides)
		for _, h := range conc.Hops {
			for _, a := range h.Answers {
				if ip := net.ParseIP(a); ip != nil {
					if tag, ok := noteworthy[ip.String()]; ok {
						local["edge/"+tag+"/"+ip.String()+"/"+sentWord(o.N)]++
					} else if v4 := ip.To4(); v4 != nil {
						if tag, ok := noteworthy[v4.String()]; ok {
							local["edge/"+tag+"/"+v4.String()+"/"+sentWord(o.N)]++
						}
					}
				}
			}
			if h.Lookup == "" {
				if ip := net.ParseIP(strings.ToLower(h.Host)); ip != nil {
					key := ip.String()
					if v4 := ip.To4(); v4 != nil {
						key = v4.String()
					}
					if tag, ok := noteworthy[key]; ok {
						local["edge/"+tag+"/"+key+"/"+sentWord(o.N)]++
					}
				}
			}
		}
	}
	local["mode/"+mode]++
	local["fam/"+row.Fam]++
	local["cls/"+o.Cls]++
	w := sentWord(o.N)
	flags := fmt.Sprintf("flags/https=%v,redir=%v,rebind=%v/", row.Pol.HTTPS, row.Pol.Redir, row.Pol.Rebind)
	local[flags+w]++
	h := row.Hops[0]
	if len(row.Hops) == 1 {
		local["scheme/"+h.U.Scheme+"/"+w]++
		local["hostkind/"+h.U.H.K+"/"+w]++
		if h.U.UI {
			local["userinfo/"+w]++
		}
		if h.U.Dot {
			local["dot/"+w]++
		}
		if h.U.Up {
			local["upper/"+w]++
		}
		local["port/"+h.U.Port+"/"+w]++
		if row.Fam == "addr" {
			seen := map[string]bool{}
			if h.U.H.K == "lit" || h.U.H.K == "odd" {
				k := h.U.H.A.C
				if h.U.H.A.M {
					k = "mapped:" + k
				}
				if h.U.H.K == "odd" {
					k = "odd:" + k
				}
				seen[k] = true
			}
			if h.U.H.K == "name" {
				for _, a := range h.Ans.As {
					k := a.C
					if a.M {
						k = "mapped:" + k
					}
					seen[k] = true
				}
				if h.Ans.St == "err" || len(h.Ans.As) == 0 {
					local["lookupfail/"+w]++
				}
				if len(h.Ans.As) > 1 {
					local["mixedanswers/"+w]++
				}
			}
			for k := range seen {
				local["class/"+k+"/"+w]++
			}
		}
		if row.Fam == "rules" {
			if len(row.Pol.Allow) == 1 && len(row.Pol.Deny) == 0 && !row.Pol.Rebind && h.Ans.St == "ok" {
				local["allowrule/"+row.Pol.Allow[0].K+"/"+w]++
			}
			if len(row.Pol.Deny) == 1 && len(row.Pol.Allow) == 0 && !row.Pol.Rebind && h.Ans.St == "ok" {
				local["denyrule/"+row.Pol.Deny[0].K+"/"+w]++
			}
			if len(row.Pol.Deny) == 1 && len(row.Pol.Allow) == 1 {
				local["allow+deny/"+w]++
			}
		}
	} else {
		local[fmt.Sprintf("chain/len=%d/contacted=%d", len(row.Hops), o.N)]++
		local[fmt.Sprintf("chain/redir=%v/cls=%s", row.Pol.Redir, o.Cls)]++
	}
	if mode == "dispatch" {
		local["dispatch/"+d.State+"/"+d.Reason]++
		if d.Reason == "policy_denied" && d.Total == 0 {
			local["dispatch/policy_denied/zero_requests"]++
		}
	}
}

func run(args []string) error {
	fs := flag.NewFlagSet("run", flag.ExitOnError)
	rowsFile := fs.String("rows", "", "rows (ndjson, one abstract row per line)")
	out := fs.String("out", "trace", "trace output prefix (out.0 ... out.N-1)")
	shards := fs.Int("shards", 16, "number of trace files / workers")
	per := fs.Int("per", 3, "concrete instances per row")
	seed := fs.Int64("seed", 1, "seed")
	dispEvery := fs.Int("dispatch-every", 11, "every k-th row is also run through the push dispatcher (0 = never)")
	_ = fs.Parse(args)

	f, err := os.Open(*rowsFile)
	if err != nil {
		return err
	}
	defer f.Close()
	var lines [][]byte
	sc := bufio.NewScanner(f)
	sc.Buffer(make([]byte, 1<<20), 1<<26)
	for sc.Scan() {
		if len(sc.Bytes()) == 0 {
			continue
		}
		lines = append(lines, append([]byte(nil), sc.Bytes()...))
	}
	if err := sc.Err(); err != nil {
		return err
	}
	// the dispatcher sample is spread over the table by the seed
	off := 0
	if *dispEvery > 0 {
		off = int(*seed) % *dispEvery
	}

	cnt := &counters{m: map[string]int{}}
	var wg sync.WaitGroup
	errs := make(chan error, *shards)
	for s := 0; s < *shards; s++ {
		wg.Add(1)
		go func(s int) {
			defer wg.Done()
			name := *out
			if *shards > 1 {
				name = fmt.Sprintf("%s.%d", *out, s)
			}
			of, err := os.Create(name)
			if err != nil {
				errs <- err
				return
			}
			defer of.Close()
			w := bufio.NewWriterSize(of, 1<<20)
			defer w.Flush()
			enc := json.NewEncoder(w)
			local := map[string]int{}
			for i := s; i < len(lines); i += *shards {
				row, err := c16.ParseRow(lines[i])
				if err != nil {
					errs <- fmt.Errorf("row %d: %w", i, err)
					return
				}
				base := int(*seed) * 7 // different seeds start at different variants
				for k := 0; k < *per; k++ {
					variant := k
					if k >= 3 {
						variant = base + k
					}
					conc, err := c16.Concretise(row, variant, i, rngFor(*seed, i, variant))
					if err != nil {
						errs <- fmt.Errorf("row %d: %w", i, err)
						return
					}
					obs, err := c16.ExecDirect(conc)
					if err != nil {
						errs <- fmt.Errorf("row %d variant %d: %w", i, variant, err)
						return
					}
					ev := event{Ev: "Egress", ID: i, Seed: *seed, Row: lines[i], Mode: "direct", Conc: conc, Obs: obs, Disp: c16.Disp{Outcomes: []string{}}}
					if err := enc.Encode(&ev); err != nil {
						errs <- err
						return
					}
					count(local, row, conc, "direct", obs, ev.Disp)
					if *dispEvery > 0 && (i+off)%*dispEvery == 0 && k == i%*per {
						obs, disp, err := c16.ExecDispatch(conc)
						if err != nil {
							errs <- fmt.Errorf("row %d variant %d (dispatch): %w", i, variant, err)
							return
						}
						ev := event{Ev: "Egress", ID: i, Seed: *seed, Row: lines[i], Mode: "dispatch", Conc: conc, Obs: obs, Disp: disp}
						if err := enc.Encode(&ev); err != nil {
							errs <- err
							return
						}
						count(local, row, conc, "dispatch", obs, disp)
					}
				}
			}
			cnt.add(local)
		}(s)
	}
	wg.Wait()
	close(errs)
	for e := range errs {
		return e
	}
	keys := make([]string, 0, len(cnt.m))
	for k := range cnt.m {
		keys = append(keys, k)
	}
	sort.Strings(keys)
	edges := []string{}
	for ip, tag := range noteworthy {
		edges = append(edges, tag+"/"+ip)
	}
	sort.Strings(edges)
	sum := map[string]any{"rows": len(lines), "events": cnt.m["events"], "counters": cnt.m, "edges": edges}
	b, _ := json.Marshal(sum)
	fmt.Println(string(b))
	return nil
}

// one: re-execute a single row / variant (reproduction and replay)
func one(args []string) error {
	fs := flag.NewFlagSet("one", flag.ExitOnError)
	rowJSON := fs.String("row", "", "abstract row (json)")
	variant := fs.Int("variant", 0, "variant")
	seed := fs.Int64("seed", 1, "seed")
	id := fs.Int("id", 0, "row index (for the random stream)")
	disp := fs.Bool("dispatch", false, "run through the push dispatcher")
	viaProd := fs.Bool("prod", false, "run through the production wiring (app.VerifBoot)")
	out := fs.String("out", "", "trace output (default stdout)")
	_ = fs.Parse(args)
	row, err := c16.ParseRow([]byte(*rowJSON))
	if err != nil {
		return err
	}
	conc, err := c16.Concretise(row, *variant, *id, rngFor(*seed, *id, *variant))
	if err != nil {
		return err
	}
	ev := event{Ev: "Egress", ID: *id, Seed: *seed, Row: json.RawMessage(*rowJSON), Conc: conc}
	if *viaProd {
		ev.Mode = "prod"
		ev.Obs, ev.Disp, err = c16.ExecProd(conc, os.TempDir(), os.Getpid())
	} else if *disp {
		ev.Mode = "dispatch"
		ev.Obs, ev.Disp, err = c16.ExecDispatch(conc)
	} else {
		ev.Mode = "direct"
		ev.Disp = c16.Disp{Outcomes: []string{}}
		ev.Obs, err = c16.ExecDirect(conc)
	}
	if err != nil {
		return err
	}
	w := os.Stdout
	if *out != "" {
		f, err := os.Create(*out)
		if err != nil {
			return err
		}
		defer f.Close()
		w = f
	}
	return json.NewEncoder(w).Encode(&ev)
}

// prod: a sample of the rows through the production wiring, sequentially (process globals are replaced)
func prod(args []string) error {
	fs := flag.NewFlagSet("prod", flag.ExitOnError)
	rowsFile := fs.String("rows", "", "rows (ndjson)")
	out := fs.String("out", "trace.prod", "trace output")
	every := fs.Int("every", 97, "every k-th eligible row")
	seed := fs.Int64("seed", 1, "seed")
	scratch := fs.String("scratch", os.TempDir(), "scratch directory for generated configurations")
	max := fs.Int("max", 0, "stop after this many executions (0 = no limit)")
	_ = fs.Parse(args)
	f, err := os.Open(*rowsFile)
	if err != nil {
		return err
	}
	defer f.Close()
	of, err := os.Create(*out)
	if err != nil {
		return err
	}
	defer of.Close()
	w := bufio.NewWriterSize(of, 1<<20)
	defer w.Flush()
	enc := json.NewEncoder(w)
	sc := bufio.NewScanner(f)
	sc.Buffer(make([]byte, 1<<20), 1<<26)
	local := map[string]int{}
	i, n := -1, 0
	for sc.Scan() {
		if len(sc.Bytes()) == 0 {
			continue
		}
		i++
		if (i+int(*seed)*13)%*every != 0 {
			continue
		}
		line := append([]byte(nil), sc.Bytes()...)
		row, err := c16.ParseRow(line)
		if err != nil {
			return fmt.Errorf("row %d: %w", i, err)
		}
		variant := i % 3
		conc, err := c16.Concretise(row, variant, i, rngFor(*seed, i, variant))
		if err != nil {
			return err
		}
		if !c16.ProdEligible(row, conc) {
			local["prod/not_eligible"]++
			continue
		}
		obs, disp, err := c16.ExecProd(conc, *scratch, i)
		if err != nil {
			return fmt.Errorf("row %d (prod): %w", i, err)
		}
		ev := event{Ev: "Egress", ID: i, Seed: *seed, Row: line, Mode: "prod", Conc: conc, Obs: obs, Disp: disp}
		if err := enc.Encode(&ev); err != nil {
			return err
		}
		count(local, row, conc, "prod", obs, disp)
		local["prod/"+disp.State+"/"+disp.Reason]++
		n++
		if *max > 0 && n >= *max {
			break
		}
	}
	if err := sc.Err(); err != nil {
		return err
	}
	b, _ := json.Marshal(map[string]any{"events": local["events"], "counters": local})
	fmt.Println(string(b))
	return nil
}
