// hkv-oper: operator queue mutations and listings of C14 through the Admin
// HTTP API and the MCP tools (admin-proxy mode) of a production-wired
// instance, recorded in the trace format of layer L0 (see harness/operapi).
//
//	hkv-oper drive -seed S -n N -ops K -mix M -big B -sched OUT      write driver schedules (ndjson, l0.Schedule)
//	hkv-oper run -sched FILE -out PREFIX -shards N -surfaces a,b -backends memory,sqlite [-spread] [-only NAME]
//	                                                                 execute schedules, write traces PREFIX.<i>, print a JSON summary
package main

import (
	"bufio"
	"encoding/json"
	"flag"
	"fmt"
	"hash/fnv"
	"math/rand"
	"os"
	"strings"
	"sync"

	"github.com/nuetzliches/hookaido/verif/l0"
	"github.com/nuetzliches/hookaido/verif/operapi"
)

func main() {
	if len(os.Args) < 2 {
		fmt.Fprintln(os.Stderr, "usage: hkv-oper drive|run ...")
		os.Exit(2)
	}
	var err error
	switch os.Args[1] {
	case "drive":
		err = drive(os.Args[2:])
	case "run":
		err = run(os.Args[2:])
	default:
		err = fmt.Errorf("unknown command %q", os.Args[1])
	}
	if err != nil {
		fmt.Fprintln(os.Stderr, "hkv-oper:", err)
		os.Exit(2)
	}
}

func drive(args []string) error {
	fs := flag.NewFlagSet("drive", flag.ExitOnError)
	seed := fs.Int64("seed", 1, "seed")
	n := fs.Int("n", 20, "schedules of the l0 driver profile 'operator'")
	ops := fs.Int("ops", 50, "operations per 'operator' schedule")
	mix := fs.Int("mix", 20, "opermix schedules (mixed routes x targets, every criterion subset)")
	big := fs.Int("big", 2, "populations above the 100 / 1000 caps")
	out := fs.String("sched", "oper-sched.ndjson", "schedule output")
	_ = fs.Parse(args)
	f, err := os.Create(*out)
	if err != nil {
		return err
	}
	defer f.Close()
	w := bufio.NewWriter(f)
	defer w.Flush()
	r := rand.New(rand.NewSource(*seed))
	var small, large []l0.Schedule
	for i := 0; i < *mix; i++ {
		small = append(small, operapi.MixSchedule(r, fmt.Sprintf("mix-s%d-%04d", *seed, i), i))
	}
	for i := 0; i < *n; i++ {
		// the store-level driver profile, unchanged; limits / retention as it draws them
		cfg := l0.ProfileCfg(r, l0.RandomCfg(r), "operator")
		o := l0.DriverOpts{Ops: *ops, IDs: 6, Routes: 1 + r.Intn(3), Targets: 1 + r.Intn(3), Explicit: r.Intn(3) == 0, Profile: "operator"}
		small = append(small, l0.GenSchedule(r, fmt.Sprintf("drv-s%d-%04d", *seed, i), cfg, o))
	}
	for i := 0; i < *big; i++ {
		large = append(large, operapi.BigSchedule(r, fmt.Sprintf("big-s%d-%04d", *seed, i), i))
	}
	// the large populations are spread evenly over the file (the orchestrator executes it in chunks)
	put := func(s l0.Schedule) {
		b, _ := json.Marshal(s)
		w.Write(append(b, '\n'))
	}
	every := len(small) + 1
	if len(large) > 0 {
		every = len(small)/len(large) + 1
	}
	li := 0
	for i, s := range small {
		if i%every == 0 && li < len(large) {
			put(large[li])
			li++
		}
		put(s)
	}
	for ; li < len(large); li++ {
		put(large[li])
	}
	fmt.Printf("{\"schedules\": %d}\n", *mix+*n+*big)
	return nil
}

func variantOf(name string) int {
	h := fnv.New32a()
	h.Write([]byte(name))
	v := int(h.Sum32() % 1024)
	if strings.HasPrefix(name, "big-") && v%5 == 4 {
		v++ // the large populations exist for the limit caps: never under a configuration whose actor policy refuses the scoped calls
	}
	return v
}

type job struct {
	s       l0.Schedule
	surface string
	backend string
}

func run(args []string) error {
	fs := flag.NewFlagSet("run", flag.ExitOnError)
	in := fs.String("sched", "oper-sched.ndjson", "schedule input (ndjson)")
	out := fs.String("out", "oper-trace", "trace output prefix")
	shards := fs.Int("shards", 1, "trace files / worker goroutines")
	surfaces := fs.String("surfaces", strings.Join(operapi.Surfaces, ","), "surfaces")
	backends := fs.String("backends", "memory,sqlite", "backends")
	spread := fs.Bool("spread", false, "execute every schedule on ONE (surface, backend) pair, taken in rotation, instead of on all")
	only := fs.String("only", "", "execute only the schedule with this name")
	bigOne := fs.Bool("big-one-backend", false, "schedules named big-*: one backend per surface (in rotation) instead of all")
	scratch := fs.String("scratch", "", "scratch dir")
	selftest := fs.String("selftest", os.Getenv("HKV_OPER_SELFTEST"), "harness self-test (dropstate)")
	_ = fs.Parse(args)
	sd := *scratch
	if sd == "" {
		d, err := os.MkdirTemp("/dev/shm", "hkv-oper-")
		if err != nil {
			return err
		}
		sd = d
		defer os.RemoveAll(d)
	}
	inf, err := os.Open(*in)
	if err != nil {
		return err
	}
	defer inf.Close()
	sfs := strings.Split(*surfaces, ",")
	bes := strings.Split(*backends, ",")
	for _, s := range sfs {
		if !operapi.ValidSurface(s) {
			return fmt.Errorf("unknown surface %q", s)
		}
	}
	var pairs [][2]string // the (surface, backend) pairs that exist
	for _, be := range bes {
		for _, sf := range sfs {
			if operapi.BackendOK(sf, be) {
				pairs = append(pairs, [2]string{sf, be})
			}
		}
	}
	if len(pairs) == 0 {
		return fmt.Errorf("no surface can run on the given backends")
	}
	sc := bufio.NewScanner(inf)
	sc.Buffer(make([]byte, 1<<20), 1<<28)
	var jobs []job
	k := 0
	for sc.Scan() {
		line := sc.Bytes()
		if len(line) == 0 {
			continue
		}
		var s l0.Schedule
		if err := json.Unmarshal(line, &s); err != nil {
			return err
		}
		if *only != "" && s.Name != *only {
			continue
		}
		if *spread {
			p := pairs[k%len(pairs)]
			jobs = append(jobs, job{s, p[0], p[1]})
		} else {
			for si, sf := range sfs {
				for bi, be := range bes {
					if !operapi.BackendOK(sf, be) {
						continue
					}
					if *bigOne && strings.HasPrefix(s.Name, "big-") && operapi.BackendOK(sf, bes[(k+si)%len(bes)]) && (k+si)%len(bes) != bi {
						continue // large populations: one backend per surface, in rotation
					}
					jobs = append(jobs, job{s, sf, be})
				}
			}
		}
		k++
	}
	if err := sc.Err(); err != nil {
		return err
	}
	if *shards < 1 {
		*shards = 1
	}
	files := make([]*os.File, *shards)
	for i := range files {
		f, err := os.Create(fmt.Sprintf("%s.%d", *out, i))
		if err != nil {
			return err
		}
		defer f.Close()
		files[i] = f
	}
	var wg sync.WaitGroup
	errs := make([]error, *shards)
	events := make([]int, *shards)
	traces := make([]int, *shards)
	cnts := make([]operapi.Counters, *shards)
	for i := 0; i < *shards; i++ {
		cnts[i] = operapi.Counters{}
		wg.Add(1)
		go func(i int) {
			defer wg.Done()
			for j := i; j < len(jobs); j += *shards {
				jb := jobs[j]
				cfg := operapi.SurfaceCfg(jb.surface, l0.BackendCfg(jb.s.Cfg, jb.backend, false))
				name := jb.s.Name + "/" + jb.surface + "/" + jb.backend
				n, err := operapi.Run(files[i], sd, name, jb.surface, variantOf(jb.s.Name), cfg, operapi.Adapt(jb.s.Ops), operapi.Opts{SelfTest: *selftest}, cnts[i])
				if err != nil {
					errs[i] = err
					return
				}
				events[i] += n
				traces[i]++
			}
		}(i)
	}
	wg.Wait()
	for _, e := range errs {
		if e != nil {
			return e
		}
	}
	total := operapi.Counters{}
	ev, tr := 0, 0
	for i := range cnts {
		for k, v := range cnts[i] {
			total[k] += v
		}
		ev += events[i]
		tr += traces[i]
	}
	b, _ := json.Marshal(map[string]any{"traces": tr, "events": ev, "jobs": len(jobs), "counters": total})
	fmt.Println(string(b))
	return nil
}
