// hkv-publish executes the abstract (frame, batch) rows of spec/AdminPublish.tla (printed by TLC) on the real
// admin publish handlers: production wiring through app.VerifBoot on the memory and the SQLite backend, generated
// policy configurations (the route / policy tables come from the specification), pre-seeded queues (existing ids,
// near-full queues under both drop policies).  One ndjson event per request: frame, abstract items, what was sent
// for every item, status / code / item_index / published, and the difference of the complete queue dump before and
// after.  Expected results are not computed here: spec/AdminPublishTrace.tla is the oracle.
package main

import (
	"bufio"
	"encoding/json"
	"flag"
	"fmt"
	"os"
	"sort"
	"strings"
	"sync"
	"sync/atomic"

	"github.com/nuetzliches/hookaido/verif/vfapp"
)

type RouteRec struct {
	Mode    string   `json:"mode"`
	Targets []string `json:"targets"`
	App     string   `json:"app"`
	Ep      string   `json:"ep"`
	Pub     bool     `json:"pub"`
	Direct  bool     `json:"direct"`
	Managed bool     `json:"managed"`
	MB      int      `json:"mb"`
	MH      int      `json:"mh"`
}

type PolRec struct {
	Direct       bool `json:"direct"`
	Managed      bool `json:"managed"`
	AllowPull    bool `json:"allowPull"`
	AllowDeliver bool `json:"allowDeliver"`
	ReqActor     bool `json:"reqActor"`
	ReqReqID     bool `json:"reqReqID"`
	Actors       bool `json:"actors"`
}

type KindRec struct {
	GRoute string `json:"groute"`
	TSpec  string `json:"tspec"`
}

type Table struct {
	Routes        map[string]RouteRec `json:"routes"`
	Policies      map[string]PolRec   `json:"policies"`
	Scopes        map[string]string   `json:"scopes"`
	Kinds         map[string]KindRec  `json:"kinds"`
	DefMaxBody    int                 `json:"defMaxBody"`
	DefMaxHeaders int                 `json:"defMaxHeaders"`
}

type Frame struct {
	Pol    string `json:"pol"`
	Path   string `json:"path"`
	Scope  string `json:"scope"`
	Req    string `json:"req"`
	Pad    int    `json:"pad"`
	Tail   int    `json:"tail"`
	Lim    string `json:"lim"`
	Q      string `json:"q"`
	Sel    string `json:"sel"`
	MaxLen int    `json:"maxlen"`
	Depth  int    `json:"depth"`
	Room   int    `json:"room"`
}

type Row struct {
	Fr    Frame    `json:"fr"`
	Items []string `json:"items"`
}

// Want describes what was sent for one item (input, not expectation).
type Want struct {
	ID   string `json:"id"`
	PL   string `json:"pl"`
	PN   int    `json:"pn"`
	HD   string `json:"hd"`
	HN   int    `json:"hn"`
	Trc  string `json:"trc"`
	Recv string `json:"recv"` // ns, "" = not given
	Next string `json:"next"`
}

type Event struct {
	Ev        string      `json:"ev"`
	Fr        Frame       `json:"fr"`
	Items     []string    `json:"items"`
	Backend   string      `json:"backend"`
	Seq       int         `json:"seq"`
	Status    string      `json:"status"`
	Code      string      `json:"code"`
	Detail    bool        `json:"detail"`
	Index     int         `json:"index"`     // -1 = no item_index
	Published int         `json:"published"` // -1 = absent
	PreH      string      `json:"preh"`
	PostH     string      `json:"posth"`
	Added     []vfapp.Msg `json:"added"`
	Removed   []vfapp.Msg `json:"removed"`
	Changed   []string    `json:"changed"`
	Want      []Want      `json:"want"`
	Active    int         `json:"active"` // queued + leased before
	QueuedN   int         `json:"queuedn"`
	MaxDepth  int         `json:"maxdepth"`
	Drop      string      `json:"drop"`
	OldQ      []string    `json:"oldq"` // queued ids before, oldest first (first 12)
	NPre      int         `json:"npre"`
	NPost     int         `json:"npost"`
	BodyLen   int         `json:"bodylen"`
}

type options struct {
	seed    int64
	scratch string
	sqliteN int // run the SQLite backend for every n-th row of a group (1 = all)
	big     bool
}

func fatal(f string, a ...any) {
	fmt.Fprintf(os.Stderr, f+"\n", a...)
	os.Exit(3)
}

func main() {
	tablePath := flag.String("table", "", "JSON tables printed by TLC")
	rowsPath := flag.String("rows", "", "ndjson rows printed by TLC")
	out := flag.String("out", "", "trace prefix")
	shards := flag.Int("shards", 1, "")
	seed := flag.Int64("seed", 1, "")
	scratch := flag.String("scratch", os.TempDir(), "")
	backends := flag.String("backends", "memory,sqlite", "")
	sqliteN := flag.Int("sqlite-sample", 1, "SQLite runs every n-th row")
	big := flag.Bool("big", true, "run the 1000 / 1001 item frames")
	workers := flag.Int("workers", 8, "")
	one := flag.String("one", "", "replay: JSON {fr, items, backend}")
	flag.Parse()
	opt := options{seed: *seed, scratch: *scratch, sqliteN: *sqliteN, big: *big}
	var tab Table
	b, err := os.ReadFile(*tablePath)
	if err != nil {
		fatal("table: %v", err)
	}
	if err := json.Unmarshal(b, &tab); err != nil {
		fatal("table: %v", err)
	}
	if *one != "" {
		var e Event
		if err := json.Unmarshal([]byte(*one), &e); err != nil {
			fatal("-one: %v", err)
		}
		g, err := bootGroup(opt, &tab, e.Fr, e.Backend)
		if err != nil {
			fatal("boot: %v", err)
		}
		ev := g.exec(Row{Fr: e.Fr, Items: e.Items})
		g.stop()
		jb, _ := json.Marshal(ev)
		fmt.Println(string(jb))
		return
	}
	rows := readRows(*rowsPath)
	sh, err := vfapp.OpenShards(*out, *shards)
	if err != nil {
		fatal("%v", err)
	}
	// group by configuration and queue situation
	type gkey struct {
		pol, lim, q, backend string
		depth, room          int
	}
	groups := map[gkey][]Row{}
	var keys []gkey
	for _, r := range rows {
		if r.Fr.Sel == "pad" && !opt.big {
			continue
		}
		for _, be := range strings.Split(*backends, ",") {
			k := gkey{r.Fr.Pol, r.Fr.Lim, r.Fr.Q, be, r.Fr.Depth, r.Fr.Room}
			if _, ok := groups[k]; !ok {
				keys = append(keys, k)
			}
			groups[k] = append(groups[k], r)
		}
	}
	// split big groups so that the workers stay busy
	type job struct {
		k    gkey
		rows []Row
	}
	var jobs []job
	for _, k := range keys {
		rs := groups[k]
		if k.backend == "sqlite" && opt.sqliteN > 1 {
			var thin []Row
			for i, r := range rs {
				if (i+int(opt.seed))%opt.sqliteN == 0 || r.Fr.Sel != "full" {
					thin = append(thin, r)
				}
			}
			rs = thin
		}
		const chunk = 400
		for i := 0; i < len(rs); i += chunk {
			j := i + chunk
			if j > len(rs) {
				j = len(rs)
			}
			jobs = append(jobs, job{k, rs[i:j]})
		}
	}
	sort.SliceStable(jobs, func(i, j int) bool { return len(jobs[i].rows) > len(jobs[j].rows) })
	counters := map[string]int{}
	var cmu sync.Mutex
	var total int64
	var wg sync.WaitGroup
	ch := make(chan int)
	for w := 0; w < *workers; w++ {
		wg.Add(1)
		go func() {
			defer wg.Done()
			for ji := range ch {
				j := jobs[ji]
				g, err := bootGroup(opt, &tab, j.rows[0].Fr, j.k.backend)
				if err != nil {
					fatal("boot %v: %v", j.k, err)
				}
				local := map[string]int{}
				for _, r := range j.rows {
					if g.needReboot() {
						g.stop()
						g, err = bootGroup(opt, &tab, r.Fr, j.k.backend)
						if err != nil {
							fatal("reboot %v: %v", j.k, err)
						}
					}
					ev := g.exec(r)
					ev.Seq = int(atomic.AddInt64(&total, 1))
					sh.Write(ev.Seq, ev)
					count(local, ev)
				}
				g.stop()
				cmu.Lock()
				for k, v := range local {
					counters[k] += v
				}
				cmu.Unlock()
			}
		}()
	}
	for ji := range jobs {
		ch <- ji
	}
	close(ch)
	wg.Wait()
	sh.Close()
	info := map[string]any{"rows": len(rows), "requests": total, "jobs": len(jobs), "counters": counters, "shard_events": sh.N}
	jb, _ := json.Marshal(info)
	fmt.Println(string(jb))
}

func count(m map[string]int, e Event) {
	acc := "refused"
	if len(e.Status) > 0 && e.Status[0] == '2' {
		acc = "accepted"
	}
	m["backend."+e.Backend+"."+acc]++
	m["path."+e.Fr.Path+"."+acc]++
	m["pol."+e.Fr.Pol+"."+acc]++
	m["req."+e.Fr.Req+"."+acc]++
	m["sel."+e.Fr.Sel+"."+acc]++
	m["lim."+e.Fr.Lim+"."+e.Fr.Q+"."+acc]++
	m["code."+e.Code]++
	m["status."+e.Status]++
	if total := e.Fr.Pad + e.Fr.Tail + len(e.Items); total > 250 && e.Fr.Lim != "none" {
		m["bigq."+e.Backend+"."+e.Fr.Path+"."+e.Fr.Lim+"."+acc]++
		if e.Code == "queue_full" {
			m["bigfull."+e.Backend+"."+e.Fr.Path]++
		}
	}
	if len(e.Removed) > 0 {
		m["evicted."+e.Backend]++
	}
	n := len(e.Items)
	for i, k := range e.Items {
		pos := "middle"
		if i == 0 {
			pos = "first"
		} else if i == n-1 {
			pos = "last"
		}
		if n == 1 {
			pos = "only"
		}
		m["kind."+e.Fr.Path+"."+k+"."+pos]++
	}
	if e.Index >= 0 {
		m["indexed"]++
	}
	if e.Fr.Pad+e.Fr.Tail > 0 {
		m[fmt.Sprintf("pad.%d.%s", e.Fr.Pad+e.Fr.Tail+len(e.Items), acc)]++
	}
}

func readRows(p string) []Row {
	f, err := os.Open(p)
	if err != nil {
		fatal("%v", err)
	}
	defer f.Close()
	var rows []Row
	sc := bufio.NewScanner(f)
	sc.Buffer(make([]byte, 1<<20), 1<<24)
	for sc.Scan() {
		if len(sc.Bytes()) == 0 {
			continue
		}
		var r Row
		if err := json.Unmarshal(sc.Bytes(), &r); err != nil {
			fatal("row: %v", err)
		}
		rows = append(rows, r)
	}
	return rows
}
