package main

import (
	"bytes"
	"encoding/base64"
	"encoding/json"
	"fmt"
	"hash/fnv"
	"net/http"
	"net/http/httptest"
	"os"
	"path/filepath"
	"sort"
	"strings"
	"sync/atomic"
	"time"

	"github.com/nuetzliches/hookaido/internal/app"
	"github.com/nuetzliches/hookaido/internal/queue"
	"github.com/nuetzliches/hookaido/verif/vfapp"
)

var seedBase = time.Date(2026, 1, 1, 0, 0, 0, 0, time.UTC)
var givenBase = time.Date(2026, 9, 1, 0, 0, 0, 123456789, time.UTC)

type group struct {
	opt      options
	tab      *Table
	pol, lim string
	q        string
	backend  string
	dir      string
	inst     *app.VerifInstance
	store    queue.Store
	h        http.Handler
	seq      int
	reqs     int
	maxDepth int
	drop     string
	depth    int // queue_limits.max_depth of the frame (0 = default)
	room     int // free room the frame wants before every request
	added    int // messages stored (and cancelled again) on this instance
}

// representatives of the header classes (RFC 7230: a field name is a token; a field value has no control byte except tab)
var (
	badValueReps = func() []string {
		out := []string{"line\r\nbreak"}
		for b := 0; b < 0x20; b++ {
			if b != '\t' {
				out = append(out, "v"+string(rune(b))+"w")
			}
		}
		return append(out, "del\x7f", "\x7f", "end\n", "\rstart")
	}()
	badNameReps = func() []string {
		out := []string{"Bad Name", "", " ", " X-Lead", "X-Trail ", "X-Ünï"}
		for b := 0; b < 0x80; b++ {
			c := byte(b)
			tok := c >= '0' && c <= '9' || c >= 'A' && c <= 'Z' || c >= 'a' && c <= 'z' || strings.IndexByte("!#$%&'*+-.^_`|~", c) >= 0
			if !tok && c != ' ' {
				out = append(out, "X-A"+string(rune(b))+"b")
			}
		}
		return out
	}()
	okHeaderReps = []map[string]string{
		{"X-A": "1"}, {"X-A": "tab\there"}, {"X-Tok!#$%&'*+.^_`|~9": "v"}, {"X-A": "caf\u00e9 \u2603"}, {"X-A": ""}, {"X-A": " ~}|{"},
	}
)

func onoff(b bool) string {
	if b {
		return "on"
	}
	return "off"
}

func configText(tab *Table, pol, lim string, depth int, backend string) string {
	p := tab.Policies[pol]
	var sb strings.Builder
	sb.WriteString("ingress {\n  listen 127.0.0.1:0\n}\npull_api {\n  listen 127.0.0.2:0\n  auth token raw:verif-pull-token\n}\nadmin_api {\n  listen 127.0.0.3:0\n}\n")
	if lim != "none" {
		fmt.Fprintf(&sb, "queue_limits {\n  max_depth %d\n  drop_policy %s\n}\n", depth, lim)
	}
	fmt.Fprintf(&sb, "defaults {\n  max_body %d\n  max_headers %d\n  publish_policy {\n", tab.DefMaxBody, tab.DefMaxHeaders)
	fmt.Fprintf(&sb, "    direct %s\n    managed %s\n    allow_pull_routes %s\n    allow_deliver_routes %s\n    require_actor %s\n    require_request_id %s\n",
		onoff(p.Direct), onoff(p.Managed), onoff(p.AllowPull), onoff(p.AllowDeliver), onoff(p.ReqActor), onoff(p.ReqReqID))
	if p.Actors {
		sb.WriteString("    actor_allow \"ci-bot\"\n    actor_prefix \"deploy-\"\n")
	}
	sb.WriteString("  }\n}\n")
	names := make([]string, 0, len(tab.Routes))
	for n := range tab.Routes {
		names = append(names, n)
	}
	sort.Strings(names)
	for _, n := range names {
		r := tab.Routes[n]
		fmt.Fprintf(&sb, "%s {\n", n)
		if r.App != "" {
			fmt.Fprintf(&sb, "  application %s\n  endpoint_name %s\n", r.App, r.Ep)
		}
		if r.MB != tab.DefMaxBody {
			fmt.Fprintf(&sb, "  max_body %d\n", r.MB)
		}
		if r.MH != tab.DefMaxHeaders {
			fmt.Fprintf(&sb, "  max_headers %d\n", r.MH)
		}
		if !r.Pub || !r.Direct || !r.Managed {
			fmt.Fprintf(&sb, "  publish {\n    enabled %s\n    direct %s\n    managed %s\n  }\n", onoff(r.Pub), onoff(r.Direct), onoff(r.Managed))
		}
		fmt.Fprintf(&sb, "  queue { backend %s }\n", backend)
		if r.Mode == "pull" {
			fmt.Fprintf(&sb, "  pull { path /ep%s }\n", n)
		} else {
			for _, t := range r.Targets {
				fmt.Fprintf(&sb, "  deliver %q {\n    timeout 5s\n  }\n", t)
			}
		}
		sb.WriteString("}\n")
	}
	return sb.String()
}

var bootSeq int64

func bootGroup(opt options, tab *Table, fr Frame, backend string) (*group, error) {
	g := &group{opt: opt, tab: tab, pol: fr.Pol, lim: fr.Lim, q: fr.Q, backend: backend, depth: fr.Depth, room: fr.Room}
	g.dir = filepath.Join(opt.scratch, fmt.Sprintf("pub-%d-%s-%s-%s-%s-%d", os.Getpid(), fr.Pol, fr.Lim, fr.Q, backend, atomic.AddInt64(&bootSeq, 1)))
	text := configText(tab, fr.Pol, fr.Lim, fr.Depth, backend)
	db := ""
	if backend == "sqlite" {
		if err := os.MkdirAll(g.dir, 0o755); err != nil {
			return nil, err
		}
		db = filepath.Join(g.dir, "queue.db")
	}
	inst, _, err := vfapp.Boot(text, g.dir, db)
	if err != nil {
		return nil, fmt.Errorf("%v\n%s", err, text)
	}
	g.inst = inst
	g.store = inst.Store
	switch backend {
	case "memory":
		if _, ok := inst.Store.(*queue.MemoryStore); !ok {
			return nil, fmt.Errorf("store %T, want memory", inst.Store)
		}
	case "sqlite":
		if _, ok := inst.Store.(*queue.SQLiteStore); !ok {
			return nil, fmt.Errorf("store %T, want sqlite", inst.Store)
		}
	}
	g.h = inst.Handlers["admin_api"]
	if g.h == nil {
		return nil, fmt.Errorf("admin handler missing")
	}
	rc := inst.Running()
	g.maxDepth, g.drop = rc.QueueLimits.MaxDepth, rc.QueueLimits.DropPolicy
	return g, nil
}

func (g *group) stop() {
	if g.inst != nil {
		g.inst.Stop()
	}
	os.RemoveAll(g.dir)
}

// retained (cancelled) messages count towards the memory store's pressure limit (1000): start over well before
func (g *group) needReboot() bool { return g.reqs >= 150 || g.added >= 400 }

func (g *group) nextID(p string) string {
	g.seq++
	return fmt.Sprintf("%s%07d", p, g.seq)
}

func (g *group) dump() []vfapp.Msg {
	m, err := vfapp.Dump(g.store)
	if err != nil {
		fatal("dump: %v", err)
	}
	return m
}

// ensureSeeds establishes the pre-existing queue content of the frame:
//
//	x1 queued (/d1), x2 dead, x3 canceled, x4 leased (/p1); near-full frames: fillers up to max_depth-1 active messages
//	(queued, or leased in the *_leased situation), all older than anything a request publishes.
func (g *group) ensureSeeds() {
	cur := map[string]vfapp.Msg{}
	for _, m := range g.dump() {
		cur[m.ID] = m
	}
	t1 := g.tab.Routes["/d1"].Targets[0]
	enq := func(id, route, target string, st queue.State, at time.Time) {
		env := queue.Envelope{ID: id, Route: route, Target: target, ReceivedAt: at, NextRunAt: at, Payload: []byte("seed-" + id)}
		if st == queue.StateDead {
			env.State, env.DeadReason = queue.StateDead, "seed"
		}
		if err := g.store.Enqueue(env); err != nil {
			fatal("seed %s: %v", id, err)
		}
	}
	leaseOne := func(route string) {
		resp, err := g.store.Dequeue(queue.DequeueRequest{Route: route, Target: "pull", Batch: 1, LeaseTTL: 24 * time.Hour})
		if err != nil || len(resp.Items) != 1 {
			fatal("seed lease: %v %d", err, len(resp.Items))
		}
	}
	if m, ok := cur["x2"]; !ok || m.State != "dead" {
		if ok {
			fatal("seed x2 in state %s", m.State)
		}
		enq("x2", "/p1", "pull", queue.StateDead, seedBase.Add(2*time.Second))
	}
	if m, ok := cur["x3"]; !ok || m.State != "canceled" {
		if ok {
			fatal("seed x3 in state %s", m.State)
		}
		enq("x3", "/p1", "pull", queue.StateQueued, seedBase.Add(3*time.Second))
		if _, err := g.store.CancelMessages(queue.MessageCancelRequest{IDs: []string{"x3"}}); err != nil {
			fatal("seed cancel: %v", err)
		}
	}
	if m, ok := cur["x4"]; !ok || m.State != "leased" {
		if ok {
			fatal("seed x4 in state %s", m.State)
		}
		// x4 must be the only ready message of /p1 when it is leased
		for _, c := range cur {
			if c.Route == "/p1" && c.State == "queued" {
				fatal("cannot lease x4: %s is queued on /p1", c.ID)
			}
		}
		enq("x4", "/p1", "pull", queue.StateQueued, seedBase.Add(4*time.Second))
		leaseOne("/p1")
	}
	if m, ok := cur["x1"]; !ok || m.State != "queued" {
		if ok {
			fatal("seed x1 in state %s", m.State)
		}
		enq("x1", "/d1", t1, queue.StateQueued, seedBase.Add(1*time.Second))
	}
	if g.lim == "none" {
		return
	}
	active := 0
	for _, m := range g.dump() {
		if m.State == "queued" || m.State == "leased" {
			active++
		}
	}
	want := g.depth - g.room
	for ; active < want; active++ {
		g.seq++
		id := fmt.Sprintf("f%05d", g.seq)
		at := seedBase.Add(time.Duration(10+g.seq) * time.Second)
		if g.q == "near_full_leased" {
			enq(id, "/p1", "pull", queue.StateQueued, at)
			leaseOne("/p1")
		} else {
			// fillers sit on a deliver route so that later seed leases on /p1 do not catch them
			enq(id, "/d1", t1, queue.StateQueued, at)
		}
	}
	if active > want {
		fatal("seed state has %d active messages, want %d", active, want)
	}
}

// ---------------------------------------------------------------- request construction

type sentItem struct {
	fields map[string]any
	want   Want
}

func (g *group) scopeParts(scope string) (string, string) {
	p := strings.SplitN(scope, "/", 2)
	if len(p) != 2 {
		return "", ""
	}
	return p[0], p[1]
}

func (g *group) buildItem(fr Frame, kind string, prevIDs []string, dupq *int, nGiven *int, rep int) sentItem {
	rt := g.tab.Kinds[kind].GRoute
	if fr.Path == "scoped" {
		rt = g.tab.Scopes[fr.Scope]
	}
	rr, known := g.tab.Routes[rt]
	mb, mh := g.tab.DefMaxBody, g.tab.DefMaxHeaders
	if known {
		mb, mh = rr.MB, rr.MH
	}
	f := map[string]any{}
	id := g.nextID("i")
	switch kind {
	case "missing_id":
		id = ""
	case "dup_prev":
		if len(prevIDs) > 0 {
			id = prevIDs[len(prevIDs)-1]
		}
	case "dup_queue":
		*dupq++
		id = fmt.Sprintf("x%d", (*dupq-1)%4+1)
	}
	f["id"] = id
	if fr.Path == "global" {
		switch kind {
		case "managed_selector":
			f["application"], f["endpoint_name"] = "app1", "ep1"
		case "no_selector":
		case "route_no_slash":
			f["route"] = "p1"
		default:
			f["route"] = rt
		}
	} else {
		app, ep := g.scopeParts(fr.Scope)
		switch kind {
		case "hint_route":
			f["route"] = rt
			if rt == "" {
				f["route"] = "/m1"
			}
		case "hint_route_other":
			f["route"] = "/p1"
		case "hint_app":
			f["application"], f["endpoint_name"] = app, ep
		case "hint_app_other":
			f["application"], f["endpoint_name"] = "app1", "ep2"
			if fr.Scope == "app1/ep2" {
				f["endpoint_name"] = "ep1"
			}
		}
	}
	switch g.tab.Kinds[kind].TSpec {
	case "t1":
		if known {
			f["target"] = rr.Targets[0]
		}
	case "t2":
		if known && len(rr.Targets) > 1 {
			f["target"] = rr.Targets[1]
		}
	case "bad":
		f["target"] = "https://evil.example.test/x"
	}
	payload := []byte("hello-" + id)
	headers := map[string]string{"X-A": "1"}
	var trace map[string]string
	w := Want{ID: id}
	switch kind {
	case "payload_over":
		payload = bytes.Repeat([]byte("P"), mb+1)
	case "ok_full":
		payload = bytes.Repeat([]byte("F"), mb)
		headers = map[string]string{"X-Fill": strings.Repeat("h", mh-6)}
		trace = map[string]string{"traceparent": "00-0af7651916cd43dd8448eb211c80319c-b7ad6b7169203331-01"}
		*nGiven++
		at := givenBase.Add(time.Duration(*nGiven) * time.Second)
		f["received_at"] = at.Format(time.RFC3339Nano)
		f["next_run_at"] = at.Add(time.Hour).Format(time.RFC3339Nano)
		w.Recv, w.Next = fmt.Sprint(at.UnixNano()), fmt.Sprint(at.Add(time.Hour).UnixNano())
	case "headers_over":
		headers = map[string]string{"X-Fill": strings.Repeat("h", mh-6+1)}
	case "header_bad_name":
		headers = map[string]string{badNameReps[rep%len(badNameReps)]: "v"}
	case "header_bad_value":
		headers = map[string]string{"X-Ok": badValueReps[rep%len(badValueReps)]}
	case "ok", "ok_t":
		headers = okHeaderReps[rep%len(okHeaderReps)]
	case "bad_recv":
		f["received_at"] = "yesterday"
	case "bad_next":
		f["next_run_at"] = "2026-13-45T00:00:00Z"
	}
	if kind == "bad_b64" {
		f["payload_b64"] = "!!!not*base64!!!"
	} else {
		f["payload_b64"] = base64.StdEncoding.EncodeToString(payload)
	}
	f["headers"] = headers
	if trace != nil {
		f["trace"] = trace
	}
	hn := 0
	for k, v := range headers {
		hn += len(k) + len(v)
	}
	w.PL, w.PN, w.HD, w.HN, w.Trc = vfapp.Digest(payload), len(payload), vfapp.MapDigest(headers), hn, vfapp.MapDigest(trace)
	return sentItem{f, w}
}

func filler(fr Frame) string {
	if fr.Path == "scoped" && fr.Scope == "app1/ep2" {
		return "ok_t"
	}
	return "ok"
}

func (g *group) buildRequest(r Row) (string, map[string]string, []byte, []Want) {
	fr := r.Fr
	kinds := make([]string, 0, fr.Pad+len(r.Items)+fr.Tail)
	for i := 0; i < fr.Pad; i++ {
		kinds = append(kinds, filler(fr))
	}
	kinds = append(kinds, r.Items...)
	for i := 0; i < fr.Tail; i++ {
		kinds = append(kinds, filler(fr))
	}
	var items []map[string]any
	var wants []Want
	var prev []string
	dupq, nGiven := 0, 0
	// the representative of a header class is a function of the row and the position (re-execution picks the same one)
	hh := fnv.New32a()
	rowJSON, _ := json.Marshal(r)
	hh.Write(rowJSON)
	base := int(hh.Sum32() % 100003)
	for i, k := range kinds {
		it := g.buildItem(fr, k, prev, &dupq, &nGiven, base+i)
		items = append(items, it.fields)
		wants = append(wants, it.want)
		if it.want.ID != "" {
			prev = append(prev, it.want.ID)
		}
	}
	body, _ := json.Marshal(map[string]any{"items": items})
	switch fr.Req {
	case "bad_json":
		body = body[:len(body)-2]
	case "no_items":
		body = []byte(`{"items":[]}`)
	case "unknown_field":
		body, _ = json.Marshal(map[string]any{"items": items, "extra": 1})
	case "trailing_doc":
		body = append(body, []byte(" {}")...)
	case "huge_body":
		items[0]["trace"] = map[string]string{"pad": strings.Repeat("z", 2<<20)}
		body, _ = json.Marshal(map[string]any{"items": items})
	}
	hdr := map[string]string{"X-Hookaido-Audit-Reason": "verif publish", "X-Hookaido-Audit-Actor": "ci-bot", "X-Request-ID": fmt.Sprintf("req-%d", g.seq)}
	switch fr.Req {
	case "no_reason":
		delete(hdr, "X-Hookaido-Audit-Reason")
	case "long_reason":
		hdr["X-Hookaido-Audit-Reason"] = strings.Repeat("r", 513)
	case "no_actor":
		delete(hdr, "X-Hookaido-Audit-Actor")
	case "no_reqid":
		delete(hdr, "X-Request-ID")
	case "actor_bad":
		hdr["X-Hookaido-Audit-Actor"] = "intruder"
	case "actor_prefixed":
		hdr["X-Hookaido-Audit-Actor"] = "deploy-7"
	}
	path := "/messages/publish"
	if fr.Path == "scoped" {
		app, ep := g.scopeParts(fr.Scope)
		path = "/applications/" + app + "/endpoints/" + ep + "/messages/publish"
	}
	return path, hdr, body, wants
}

func (g *group) exec(r Row) Event {
	g.reqs++
	g.ensureSeeds()
	path, hdr, body, wants := g.buildRequest(r)
	pre := g.dump()
	req := httptest.NewRequest("POST", "http://verif.local"+path, bytes.NewReader(body))
	req.Header.Set("Content-Type", "application/json")
	for k, v := range hdr {
		req.Header.Set(k, v)
	}
	rec := httptest.NewRecorder()
	g.h.ServeHTTP(rec, req)
	post := g.dump()

	ev := Event{Ev: "Publish", Fr: r.Fr, Items: r.Items, Backend: g.backend, Status: fmt.Sprint(rec.Code), Index: -1, Published: -1,
		PreH: vfapp.Hash(pre), PostH: vfapp.Hash(post), Added: []vfapp.Msg{}, Removed: []vfapp.Msg{}, Changed: []string{}, Want: wants,
		MaxDepth: g.maxDepth, Drop: g.drop, OldQ: []string{}, NPre: len(pre), NPost: len(post), BodyLen: len(body)}
	if ev.Items == nil {
		ev.Items = []string{}
	}
	var resp struct {
		Code      string `json:"code"`
		Detail    string `json:"detail"`
		ItemIndex *int   `json:"item_index"`
		Published *int   `json:"published"`
	}
	_ = json.Unmarshal(rec.Body.Bytes(), &resp)
	ev.Code, ev.Detail = resp.Code, resp.Detail != ""
	if resp.ItemIndex != nil {
		ev.Index = *resp.ItemIndex
	}
	if resp.Published != nil {
		ev.Published = *resp.Published
	}
	pm := map[string]vfapp.Msg{}
	type qd struct {
		id   string
		recv string
	}
	var qs []qd
	for _, m := range pre {
		pm[m.ID] = m
		if m.State == "queued" || m.State == "leased" {
			ev.Active++
		}
		if m.State == "queued" {
			ev.QueuedN++
			qs = append(qs, qd{m.ID, m.Recv})
		}
	}
	sort.Slice(qs, func(i, j int) bool {
		if len(qs[i].recv) != len(qs[j].recv) {
			return len(qs[i].recv) < len(qs[j].recv)
		}
		if qs[i].recv != qs[j].recv {
			return qs[i].recv < qs[j].recv
		}
		return qs[i].id < qs[j].id
	})
	for i, q := range qs {
		if i < 64 {
			ev.OldQ = append(ev.OldQ, q.id)
		}
	}
	seen := map[string]bool{}
	var addedIDs []string
	for _, m := range post {
		seen[m.ID] = true
		p, ok := pm[m.ID]
		if !ok {
			ev.Added = append(ev.Added, m)
			addedIDs = append(addedIDs, m.ID)
		} else if p != m {
			ev.Changed = append(ev.Changed, m.ID)
		}
	}
	for _, m := range pre {
		if !seen[m.ID] {
			ev.Removed = append(ev.Removed, m)
		}
	}
	// take what the request stored out of the active set again (directly on the store), so that the next request
	// meets the frame's queue situation
	if len(addedIDs) > 0 {
		for i := 0; i < len(addedIDs); i += 500 {
			j := i + 500
			if j > len(addedIDs) {
				j = len(addedIDs)
			}
			if _, err := g.store.CancelMessages(queue.MessageCancelRequest{IDs: addedIDs[i:j]}); err != nil {
				fatal("cleanup cancel: %v", err)
			}
		}
		g.added += len(addedIDs)
	}
	return ev
}
