package l1

import (
	"sync/atomic"
	"errors"
	"bytes"
	"context"
	"encoding/json"
	"fmt"
	"io"
	"net/http"
	"net/http/httptest"
	"os"
	"path/filepath"
	"strings"
	"time"

	"google.golang.org/grpc"
	"google.golang.org/grpc/codes"
	"google.golang.org/grpc/credentials/insecure"
	"google.golang.org/grpc/metadata"
	"google.golang.org/grpc/status"
	"google.golang.org/protobuf/types/known/durationpb"

	"github.com/nuetzliches/hookaido/internal/app"
	"github.com/nuetzliches/hookaido/internal/queue"
	workerapipb "github.com/nuetzliches/hookaido/internal/workerapi/proto"
	"github.com/nuetzliches/hookaido/verif/l0"
)

// PullOpts configures one pull-API history.
type PullOpts struct {
	Backend  string
	MaxBatch int
	DefTTL   int // ms
	MaxTTL   int // ms, 0 = none
	Cache    string // forever | never
	GRPCPct  int    // share of lease / dequeue calls sent over gRPC
}

func pullConfig(o PullOpts) string {
	var b strings.Builder
	b.WriteString("ingress {\n  listen 127.0.0.1:0\n}\npull_api {\n  listen 127.0.0.2:0\n  grpc_listen 127.0.0.4:0\n  auth token raw:tok\n")
	fmt.Fprintf(&b, "  max_batch %d\n  default_lease_ttl %dms\n", o.MaxBatch, o.DefTTL)
	if o.MaxTTL > 0 {
		fmt.Fprintf(&b, "  max_lease_ttl %dms\n", o.MaxTTL)
	}
	b.WriteString("}\nadmin_api {\n  listen 127.0.0.3:0\n}\n/hook/a {\n  queue { backend memory }\n  pull { path /pull/a }\n}\n/hook/b {\n  queue { backend memory }\n  pull { path /pull/b }\n}\n")
	return b.String()
}

func grpcStatus(err error) int {
	if err == nil {
		return 200
	}
	switch status.Code(err) {
	case codes.FailedPrecondition:
		return 409
	case codes.InvalidArgument:
		return 400
	case codes.Unauthenticated:
		return 401
	case codes.NotFound:
		return 404
	case codes.Unavailable:
		return 503
	}
	return 500
}

// faultStore fails the next single-lease mutation once with a transient (non lease-conflict) error when armed, without
// touching the inner store: a busy database, an I/O error.  Everything else is delegated, including the optional batch
// interfaces the API looks for.
type faultStore struct {
	queue.Store
	armed atomic.Bool
}

var errTransient = errors.New("verif: transient store error (database is busy)")

func (f *faultStore) trip() bool { return f.armed.CompareAndSwap(true, false) }
func (f *faultStore) Ack(id string) error {
	if f.trip() {
		return errTransient
	}
	return f.Store.Ack(id)
}
func (f *faultStore) Nack(id string, d time.Duration) error {
	if f.trip() {
		return errTransient
	}
	return f.Store.Nack(id, d)
}
func (f *faultStore) MarkDead(id, reason string) error {
	if f.trip() {
		return errTransient
	}
	return f.Store.MarkDead(id, reason)
}
func (f *faultStore) Extend(id string, d time.Duration) error {
	if f.trip() {
		return errTransient
	}
	return f.Store.Extend(id, d)
}
func (f *faultStore) AckBatch(ids []string) (queue.LeaseBatchResult, error) {
	return f.Store.(queue.LeaseBatchStore).AckBatch(ids)
}
func (f *faultStore) NackBatch(ids []string, d time.Duration) (queue.LeaseBatchResult, error) {
	return f.Store.(queue.LeaseBatchStore).NackBatch(ids, d)
}
func (f *faultStore) MarkDeadBatch(ids []string, reason string) (queue.LeaseBatchResult, error) {
	return f.Store.(queue.LeaseBatchStore).MarkDeadBatch(ids, reason)
}
func (f *faultStore) EnqueueBatch(items []queue.Envelope) (int, error) {
	return f.Store.(queue.BatchEnqueuer).EnqueueBatch(items)
}

// RunPull executes a store-level schedule (l0.Op vocabulary) THROUGH the pull API of a production-wired instance:
// Enqueue / MutateIds / Tick act on the store directly (seeding, operator steps, clock), Dequeue / LeaseOp / LeaseBatch
// become HTTP or gRPC calls.
func RunPull(w io.Writer, scratch, name string, o PullOpts, ops []l0.Op, seed int64) (int, error) {
	dir, err := os.MkdirTemp(scratch, "pull-")
	if err != nil {
		return 0, err
	}
	defer os.RemoveAll(dir)
	cfgPath := filepath.Join(dir, "Hookaidofile")
	if err := os.WriteFile(cfgPath, []byte(pullConfig(o)), 0o600); err != nil {
		return 0, err
	}
	clk := &l0.Clock{}
	clk.Set(1000)
	scfg := l0.BackendCfg(l0.Cfg{}, o.Backend, false)
	store, dump, closeFn, err := l0.OpenStore(scfg, clk, filepath.Join(dir, "q.db"))
	if err != nil {
		return 0, err
	}
	defer closeFn()
	fs := &faultStore{Store: store}
	inst, err := app.VerifBoot(app.VerifOptions{ConfigPath: cfgPath, DBPath: filepath.Join(dir, "unused.db"), Store: fs})
	if err != nil {
		return 0, fmt.Errorf("boot: %w\n%s", err, pullConfig(o))
	}
	defer inst.Stop()
	if o.Cache == "never" {
		inst.Pull.RecentLeaseOpTTL = time.Nanosecond
	} else {
		inst.Pull.RecentLeaseOpTTL = time.Hour
	}
	h := inst.Handlers["pull_api"]
	conn, err := grpc.NewClient(inst.Addrs["grpc"], grpc.WithTransportCredentials(insecure.NewCredentials()))
	if err != nil {
		return 0, err
	}
	defer conn.Close()
	wc := workerapipb.NewWorkerServiceClient(conn)
	gctx := func() context.Context {
		return metadata.AppendToOutgoingContext(context.Background(), "authorization", "Bearer tok")
	}
	run := l0.NewRunner(w, dir)
	if scfg.Dev == nil {
		scfg.Dev = []string{}
	}
	if err := run.EmitRaw(l0.Event{"ev": "Reset", "tr": name, "cfg": scfg, "now": clk.Tick(),
		"pull": map[string]any{"maxBatch": o.MaxBatch, "defTTL": o.DefTTL, "maxTTL": o.MaxTTL, "cache": o.Cache}}); err != nil {
		return 0, err
	}
	book := l0.NewLeaseBook()
	rnd := seed
	next := func(n int) int {
		rnd = rnd*6364136223846793005 + 1442695040888963407
		return int((uint64(rnd) >> 33) % uint64(n))
	}
	post := func(path string, body any) (int, []byte) {
		b, _ := json.Marshal(body)
		req := httptest.NewRequest(http.MethodPost, path, bytes.NewReader(b))
		req.Header.Set("Authorization", "Bearer tok")
		req.Header.Set("Content-Type", "application/json")
		rec := httptest.NewRecorder()
		h.ServeHTTP(rec, req)
		return rec.Code, rec.Body.Bytes()
	}
	normalize := func(raws []string) []string {
		out := []string{}
		seen := map[string]bool{}
		for _, r := range raws {
			id := strings.TrimSpace(r)
			if id == "" || seen[id] {
				continue
			}
			seen[id] = true
			out = append(out, id)
		}
		return out
	}
	retrying := false
	for i := 0; i < len(ops); i++ {
		op := ops[i]
		useGRPC := next(100) < o.GRPCPct
		transport := "http"
		if useGRPC {
			transport = "grpc"
		}
		var ev l0.Event
		switch op.Op {
		case "Enqueue":
			e := *op.Env
			e.Rt, e.Tg = pick2(e.Rt), "pull"
			op.Env = &e
			ev, err = l0.ExecOp(store, clk, book, op)
		case "EnqueueBatch":
			envs := append([]l0.EnvSpec(nil), op.Envs...)
			for i := range envs {
				envs[i].Rt, envs[i].Tg = pick2(envs[i].Rt), "pull"
			}
			op.Envs = envs
			ev, err = l0.ExecOp(store, clk, book, op)
		case "Tick", "MutateIds", "Stats":
			ev, err = l0.ExecOp(store, clk, book, op)
		case "Dequeue":
			route := pick2(op.Rt)
			endpoint := "/pull/a"
			if route == "/hook/b" {
				endpoint = "/pull/b"
			}
			ttlArg := op.TTL
			if op.TTL <= 0 {
				ttlArg = -1
			}
			var statusCode int
			items := []any{}
			if useGRPC {
				req := &workerapipb.DequeueRequest{Endpoint: endpoint}
				if op.Batch > 0 {
					req.Batch = uint32(op.Batch)
				}
				if ttlArg > 0 {
					req.LeaseTtl = durationpb.New(time.Duration(ttlArg) * time.Millisecond)
				}
				resp, gerr := wc.Dequeue(gctx(), req)
				statusCode = grpcStatus(gerr)
				if gerr == nil {
					for _, it := range resp.Items {
						book.Add(it.Id, it.LeaseId)
						items = append(items, map[string]any{"id": it.Id, "lease": it.LeaseId, "att": int(it.Attempt), "rt": it.Route,
							"pl": l0.DigestBytes(it.Payload), "hd": l0.DigestMap(it.Headers)})
					}
				}
			} else {
				body := map[string]any{"batch": op.Batch}
				if ttlArg > 0 {
					body["lease_ttl"] = fmt.Sprintf("%dms", ttlArg)
				}
				var raw []byte
				statusCode, raw = post(endpoint+"/dequeue", body)
				if statusCode == 200 {
					var resp struct {
						Items []struct {
							ID         string            `json:"id"`
							LeaseID    string            `json:"lease_id"`
							Attempt    int               `json:"attempt"`
							Route      string            `json:"route"`
							PayloadB64 []byte            `json:"payload_b64"`
							Headers    map[string]string `json:"headers"`
						} `json:"items"`
					}
					if jerr := json.Unmarshal(raw, &resp); jerr != nil {
						return 0, jerr
					}
					for _, it := range resp.Items {
						book.Add(it.ID, it.LeaseID)
						items = append(items, map[string]any{"id": it.ID, "lease": it.LeaseID, "att": it.Attempt, "rt": it.Route,
							"pl": l0.DigestBytes(it.PayloadB64), "hd": l0.DigestMap(it.Headers)})
					}
				}
			}
			batchArg := op.Batch
			ev = l0.Event{"ev": "PullDequeue", "a": map[string]any{"route": route, "batch": batchArg, "ttl": ttlArg, "transport": transport},
				"r": map[string]any{"status": statusCode, "items": items}}
		case "LeaseOp", "LeaseBatch":
			var raws []string
			single := op.Op == "LeaseOp"
			if single {
				raws = []string{book.Resolve(*op.Lease)}
			} else {
				for _, lr := range op.Leases {
					raws = append(raws, book.Resolve(lr))
				}
			}
			lids := normalize(raws)
			kind := op.Kind
			if !single && kind == "extend" {
				kind = "ack"
			}
			var arg any = op.Arg
			argn := any(op.Arg)
			if kind == "nack" && op.Arg < 0 {
				arg, argn = 0, 0 // a negative duration is not expressible as a request; send 0
				op.Arg = 0
			}
			if kind == "dead" {
				arg = op.Reason
				argn = op.Reason
				if strings.TrimSpace(op.Reason) == "" {
					argn = ""
				}
			}
			bad := len(lids) == 0 || (single && strings.TrimSpace(raws[0]) == "")
			// now and then the store fails a single-lease mutation once with a transient error; the consumer then retries
			// the very same request (the step is executed again, without a fault)
			inject := single && !bad && !retrying && next(100) < 12
			retrying = false
			fs.armed.Store(inject)
			var statusCode, okCount int
			nf, ex := []any{}, []any{}
			endpoint := "/pull/a"
			if useGRPC {
				switch kind {
				case "ack":
					req := &workerapipb.AckRequest{Endpoint: endpoint}
					if single {
						req.LeaseId = raws[0]
					} else {
						req.LeaseIds = raws
					}
					resp, gerr := wc.Ack(gctx(), req)
					statusCode = grpcStatus(gerr)
					if gerr == nil {
						okCount = int(resp.Acked)
						for _, c := range resp.Conflicts {
							if c.Expired {
								ex = append(ex, strings.TrimSpace(c.LeaseId))
							} else {
								nf = append(nf, strings.TrimSpace(c.LeaseId))
							}
						}
						if single {
							statusCode = 204
						}
					}
				case "nack", "dead":
					req := &workerapipb.NackRequest{Endpoint: endpoint, Dead: kind == "dead", Reason: op.Reason, Delay: durationpb.New(time.Duration(op.Arg) * time.Millisecond)}
					if single {
						req.LeaseId = raws[0]
					} else {
						req.LeaseIds = raws
					}
					resp, gerr := wc.Nack(gctx(), req)
					statusCode = grpcStatus(gerr)
					if gerr == nil {
						okCount = int(resp.Succeeded)
						for _, c := range resp.Conflicts {
							if c.Expired {
								ex = append(ex, strings.TrimSpace(c.LeaseId))
							} else {
								nf = append(nf, strings.TrimSpace(c.LeaseId))
							}
						}
						if single {
							statusCode = 204
						}
					}
				case "extend":
					_, gerr := wc.Extend(gctx(), &workerapipb.ExtendRequest{Endpoint: endpoint, LeaseId: raws[0], ExtendBy: durationpb.New(time.Duration(op.Arg) * time.Millisecond)})
					statusCode = grpcStatus(gerr)
					if gerr == nil {
						statusCode = 204
					}
				}
			} else {
				body := map[string]any{}
				if single {
					body["lease_id"] = raws[0]
				} else {
					body["lease_ids"] = raws
				}
				path := endpoint + "/ack"
				switch kind {
				case "nack":
					path = endpoint + "/nack"
					body["delay"] = fmt.Sprintf("%dms", op.Arg)
				case "dead":
					path = endpoint + "/nack"
					body["dead"] = true
					body["reason"] = op.Reason
				case "extend":
					path = endpoint + "/extend"
					body["extend_by"] = fmt.Sprintf("%dms", op.Arg)
				}
				var raw []byte
				statusCode, raw = post(path, body)
				if !single {
					var resp struct {
						Acked     int `json:"acked"`
						Succeeded int `json:"succeeded"`
						Conflicts []struct {
							LeaseID string `json:"lease_id"`
							Reason  string `json:"reason"`
						} `json:"conflicts"`
					}
					_ = json.Unmarshal(raw, &resp)
					okCount = resp.Acked + resp.Succeeded
					for _, c := range resp.Conflicts {
						if c.Reason == "lease_expired" {
							ex = append(ex, strings.TrimSpace(c.LeaseID))
						} else {
							nf = append(nf, strings.TrimSpace(c.LeaseID))
						}
					}
				}
			}
			tripped := inject && !fs.armed.Load()
			fs.armed.Store(false)
			if tripped {
				ev = l0.Event{"ev": "PullFault", "a": map[string]any{"kind": kind, "single": single, "lids": []any{lids[0]}, "transport": transport, "raws": raws},
					"r": map[string]any{"status": statusCode}}
				retrying = true
				i--
			} else if bad || (kind == "extend" && useGRPC && op.Arg <= 0 && false) {
				ev = l0.Event{"ev": "PullBad", "a": map[string]any{"kind": kind, "raws": raws, "transport": transport}, "r": map[string]any{"status": statusCode}}
			} else {
				lidsAny := make([]any, 0, len(lids))
				for _, x := range lids {
					lidsAny = append(lidsAny, x)
				}
				ev = l0.Event{"ev": "PullLease", "a": map[string]any{"kind": kind, "single": single, "lids": lidsAny, "arg": arg, "argn": argn, "transport": transport, "raws": raws},
					"r": map[string]any{"status": statusCode, "ok": okCount, "nf": nf, "ex": ex}}
			}
		default:
			continue
		}
		if err != nil {
			return 0, err
		}
		if err := run.EmitWithPost(ev, dump, clk); err != nil {
			return 0, err
		}
	}
	if err := run.W.Flush(); err != nil {
		return 0, err
	}
	return run.Events, nil
}

func pick2(rt string) string {
	if strings.HasSuffix(rt, "2") || strings.HasSuffix(rt, "b") {
		return "/hook/b"
	}
	return "/hook/a"
}


// PullConfigCompiles reports whether the pull configuration for o is accepted by Parse + Compile.
func PullConfigCompiles(o PullOpts) bool { return compiles([]byte(pullConfig(o))) }
