package l1

import "github.com/nuetzliches/hookaido/internal/app"

func appBoot(cfgPath, dbPath string) (*app.VerifInstance, error) {
	return app.VerifBoot(app.VerifOptions{ConfigPath: cfgPath, DBPath: dbPath})
}
