package l1

import (
	"bytes"
	"context"
	"crypto/sha256"
	"encoding/hex"
	"encoding/json"
	"fmt"
	"io"
	"net/http"
	"net/http/httptest"
	"os"
	"path/filepath"
	"strings"

	"github.com/nuetzliches/hookaido/internal/admin"
	"github.com/nuetzliches/hookaido/internal/config"
	"github.com/nuetzliches/hookaido/internal/mcp"
	"github.com/nuetzliches/hookaido/internal/queue"
	"github.com/nuetzliches/hookaido/internal/verifhook"
)

// ManagedConfig is the configuration used by the file-replacement scenarios.
const ManagedConfig = reloadHeader + `/m1 {
  queue { backend memory }
  application "app1"
  endpoint_name "ep1"
  pull { path /pull/m1 }
}
/m2 {
  queue { backend memory }
  pull { path /pull/m2 }
}
`

func fileHash(path string) string {
	b, err := os.ReadFile(path)
	if err != nil {
		return "ERR:" + err.Error()
	}
	h := sha256.Sum256(b)
	return hex.EncodeToString(h[:8])
}

// Compiles reports whether data parses and compiles.
func Compiles(data []byte) bool { return compiles(data) }

func compiles(data []byte) bool {
	cfg, err := config.Parse(data)
	if err != nil {
		return false
	}
	_, res := config.Compile(cfg)
	return res.OK
}

// CfgChild performs one config-file mutation in THIS process (it may be killed at a labelled point through
// VERIF_CRASH).  mode: app-upsert | app-move-rollback | mcp-apply
func CfgChild(dir, mode string) error {
	cfgPath := filepath.Join(dir, "Hookaidofile")
	switch mode {
	case "app-upsert", "app-move-rollback":
		inst, err := bootAt(dir)
		if err != nil {
			return err
		}
		defer inst.Stop()
		if mode == "app-move-rollback" {
			// an edit on disk that needs a restart: the reload after the mutation is refused and the file rolled back
			b, _ := os.ReadFile(cfgPath)
			if err := os.WriteFile(cfgPath, []byte(strings.Replace(string(b), "listen 127.0.0.1:0", "listen 127.0.0.5:0", 1)), 0o600); err != nil {
				return err
			}
		}
		_, err = inst.UpsertManagedEndpoint(admin.ManagementEndpointUpsertRequest{Application: "app2", EndpointName: "ep2", Route: "/m2"})
		fmt.Printf("{\"mutation_err\":%q}\n", fmt.Sprint(err))
		return nil
	case "mcp-apply":
		old, err := os.ReadFile(cfgPath)
		if err != nil {
			return err
		}
		content := string(old) + "/added {\n  queue { backend memory }\n  pull { path /pull/added }\n}\n"
		req := map[string]any{"jsonrpc": "2.0", "id": 1, "method": "tools/call",
			"params": map[string]any{"name": "config_apply", "arguments": map[string]any{"content": content, "mode": "write_only"}}}
		payload, _ := json.Marshal(req)
		var in bytes.Buffer
		fmt.Fprintf(&in, "Content-Length: %d\r\n\r\n", len(payload))
		in.Write(payload)
		var out bytes.Buffer
		srv := mcp.NewServer(&in, &out, cfgPath, filepath.Join(dir, "q.db"), mcp.WithRole(mcp.RoleAdmin), mcp.WithPrincipal("verif"),
			mcp.WithMutationsEnabled(true), mcp.WithAuditWriter(io.Discard))
		if err := srv.Serve(context.Background()); err != nil {
			return err
		}
		s := out.String()
		if i := strings.Index(s, "{"); i >= 0 {
			s = s[i:]
		}
		fmt.Printf("{\"mcp_out\":%q}\n", s[:min(len(s), 300)])
		return nil
	}
	return fmt.Errorf("unknown child mode %q", mode)
}

func bootAt(dir string) (*reloadInst, error) {
	cfgPath := filepath.Join(dir, "Hookaidofile")
	r, err := bootReloadAt(dir, cfgPath)
	return r, err
}

func bootReloadAt(dir, cfgPath string) (*reloadInst, error) {
	inst, err := appBoot(cfgPath, filepath.Join(dir, "q.db"))
	if err != nil {
		return nil, err
	}
	mem, _ := inst.Store.(*queue.MemoryStore)
	return &reloadInst{inst: inst, mem: mem, dir: dir, cfgPath: cfgPath}, nil
}

func (r *reloadInst) Stop() { r.inst.Stop() }
func (r *reloadInst) UpsertManagedEndpoint(req admin.ManagementEndpointUpsertRequest) (admin.ManagementEndpointMutationResult, error) {
	return r.inst.UpsertManagedEndpoint(req)
}

// DirState lists the files of dir with their hashes (temporary files of the atomic write are named apart).
func DirState(dir string) map[string]string {
	out := map[string]string{}
	ents, _ := os.ReadDir(dir)
	for _, e := range ents {
		if e.IsDir() {
			continue
		}
		out[e.Name()] = fileHash(filepath.Join(dir, e.Name()))
	}
	return out
}

// Rollback scenarios (in-process, gated): the file must be put back and behaviour must not change.
func RollbackScenario(scratch, scenario string) (map[string]any, error) {
	dir, err := os.MkdirTemp(scratch, "rollback-")
	if err != nil {
		return nil, err
	}
	defer os.RemoveAll(dir)
	cfgPath := filepath.Join(dir, "Hookaidofile")
	if err := os.WriteFile(cfgPath, []byte(ManagedConfig), 0o600); err != nil {
		return nil, err
	}
	r, err := bootReloadAt(dir, cfgPath)
	if err != nil {
		return nil, err
	}
	defer r.inst.Stop()
	probeSeq := 0
	model := func() string {
		c := r.inst.Running()
		var parts []string
		for _, rt := range c.Routes {
			parts = append(parts, fmt.Sprintf("%s=(%s,%s)", rt.Path, rt.Application, rt.EndpointName))
		}
		// what the instance DOES (not what it says it runs): an endpoint-scoped publish for every managed label shows the
		// route the live mapping sends it to
		for _, lab := range [][2]string{{"app1", "ep1"}, {"app2", "ep2"}} {
			probeSeq++
			id := fmt.Sprintf("probe-%d", probeSeq)
			body := fmt.Sprintf(`{"items":[{"id":%q,"payload_b64":"eA=="}]}`, id)
			req := httptest.NewRequest(http.MethodPost, "/applications/"+lab[0]+"/endpoints/"+lab[1]+"/messages/publish", strings.NewReader(body))
			req.Header.Set("Content-Type", "application/json")
			req.Header.Set("X-Hookaido-Audit-Reason", "verif")
			rec := httptest.NewRecorder()
			r.inst.Handlers["admin_api"].ServeHTTP(rec, req)
			where := "-"
			for _, row := range r.mem.VerifDump() {
				if row.Env.ID == id {
					where = row.Env.Route
					_, _ = r.mem.CancelMessages(queue.MessageCancelRequest{IDs: []string{id}})
				}
			}
			parts = append(parts, fmt.Sprintf("publish(%s/%s)->%d@%s", lab[0], lab[1], rec.Code, where))
		}
		return strings.Join(parts, ";")
	}
	before := model()
	var mutErr error
	switch scenario {
	case "post_write_validation_fails":
		// move (app1, ep1) from /m1 to /m2; a message for /m1 arrives after the file was written
		fired := false
		verifhook.SetGate(func(label string) {
			if label == "cfgwrite.renamed" && !fired {
				fired = true
				_ = r.mem.Enqueue(queue.Envelope{ID: "late-1", Route: "/m1", Target: "pull", Payload: []byte("x")})
			}
		})
		_, mutErr = r.inst.UpsertManagedEndpoint(admin.ManagementEndpointUpsertRequest{Application: "app1", EndpointName: "ep1", Route: "/m2"})
		verifhook.SetGate(nil)
		if !fired {
			return nil, fmt.Errorf("gate cfgwrite.renamed never fired")
		}
	case "reload_refused":
		edited := strings.Replace(ManagedConfig, "listen 127.0.0.1:0", "listen 127.0.0.5:0", 1)
		if err := os.WriteFile(cfgPath, []byte(edited), 0o600); err != nil {
			return nil, err
		}
		_, mutErr = r.inst.UpsertManagedEndpoint(admin.ManagementEndpointUpsertRequest{Application: "app2", EndpointName: "ep2", Route: "/m2"})
	default:
		return nil, fmt.Errorf("unknown scenario %q", scenario)
	}
	oldBytes := []byte(ManagedConfig)
	if scenario == "reload_refused" {
		oldBytes = []byte(strings.Replace(ManagedConfig, "listen 127.0.0.1:0", "listen 127.0.0.5:0", 1))
	}
	now, _ := os.ReadFile(cfgPath)
	content := "other"
	if bytes.Equal(now, oldBytes) {
		content = "old"
	}
	return map[string]any{"ev": "Rollback", "scenario": scenario, "ok": mutErr == nil, "err": fmt.Sprint(mutErr), "content": content,
		"before": before, "after": model()}, nil
}
