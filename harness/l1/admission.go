package l1

import (
	"bytes"
	"encoding/json"
	"fmt"
	"io"
	"net/http"
	"net/http/httptest"
	"os"
	"path/filepath"
	"strings"
	"sync"

	"github.com/nuetzliches/hookaido/internal/app"
	"github.com/nuetzliches/hookaido/internal/queue"
	"github.com/nuetzliches/hookaido/verif/l0"
)

// Arrival is one step of an arrival sequence (spec/AdmissionGen.tla).
type Arrival struct {
	Gap int    `json:"gap"`
	To  string `json:"to"` // own | g1 | g2 | none
	M   int    `json:"m"`
}

const rateConfig = `ingress {
  listen 127.0.0.1:0
  rate_limit {
    rps 5
    burst 3
  }
}
pull_api {
  listen 127.0.0.2:0
  auth token raw:tok
}
admin_api {
  listen 127.0.0.3:0
}
/own {
  queue { backend memory }
  rate_limit {
    rps 2
    burst 1
  }
  pull { path /pull/own }
}
/g1 {
  queue { backend memory }
  pull { path /pull/g1 }
}
/g2 {
  queue { backend memory }
  pull { path /pull/g2 }
}
`

type admInst struct {
	inst *app.VerifInstance
	mem  *queue.MemoryStore
	clk  *l0.Clock
	dir  string
}

func bootAdm(scratch, text string) (*admInst, error) {
	dir, err := os.MkdirTemp(scratch, "adm-")
	if err != nil {
		return nil, err
	}
	cfgPath := filepath.Join(dir, "Hookaidofile")
	if err := os.WriteFile(cfgPath, []byte(text), 0o600); err != nil {
		return nil, err
	}
	clk := &l0.Clock{}
	clk.Set(50_000)
	inst, err := app.VerifBoot(app.VerifOptions{ConfigPath: cfgPath, DBPath: filepath.Join(dir, "q.db"), Now: clk.Now})
	if err != nil {
		os.RemoveAll(dir)
		return nil, fmt.Errorf("boot: %w\n%s", err, text)
	}
	mem, ok := inst.Store.(*queue.MemoryStore)
	if !ok {
		inst.Stop()
		os.RemoveAll(dir)
		return nil, fmt.Errorf("store is %T", inst.Store)
	}
	return &admInst{inst: inst, mem: mem, clk: clk, dir: dir}, nil
}

func (a *admInst) close() { a.inst.Stop(); os.RemoveAll(a.dir) }

func (a *admInst) post(path string, body []byte, hdr map[string]string) int {
	req := httptest.NewRequest(http.MethodPost, path, bytes.NewReader(body))
	for k, v := range hdr {
		req.Header.Set(k, v)
	}
	rec := httptest.NewRecorder()
	a.inst.Handlers["ingress"].ServeHTTP(rec, req)
	return rec.Code
}

// RunRate executes one arrival sequence and writes Rate / NoRoute events.
func RunRate(w io.Writer, scratch, name string, arr []Arrival) (int, error) {
	a, err := bootAdm(scratch, rateConfig)
	if err != nil {
		return 0, err
	}
	defer a.close()
	enc := json.NewEncoder(w)
	n := 0
	emit := func(ev map[string]any) { _ = enc.Encode(ev); n++ }
	emit(map[string]any{"ev": "Reset", "tr": name, "now": a.clk.Tick(),
		"limiters": map[string]any{"own": map[string]any{"rps": 2, "burst": 1}, "global": map[string]any{"rps": 5, "burst": 3}}})
	serial := 0
	for _, ar := range arr {
		a.clk.Advance(ar.Gap)
		path := "/" + ar.To
		if ar.To == "none" {
			path = "/nowhere"
		}
		before := len(a.mem.VerifDump())
		m := ar.M
		if m < 1 {
			m = 1
		}
		statuses := make([]int, m)
		var wg sync.WaitGroup
		start := make(chan struct{})
		for i := 0; i < m; i++ {
			wg.Add(1)
			serial++
			body := []byte(fmt.Sprintf(`{"tok":"%s-%d"}`, name, serial))
			go func(i int, body []byte) {
				defer wg.Done()
				<-start
				statuses[i] = a.post(path, body, nil)
			}(i, body)
		}
		close(start)
		wg.Wait()
		enq := len(a.mem.VerifDump()) - before
		if ar.To == "none" {
			for _, s := range statuses {
				emit(map[string]any{"ev": "NoRoute", "status": s, "enq": enq, "now": a.clk.Tick()})
			}
			continue
		}
		admitted, accepted := 0, 0
		for _, s := range statuses {
			if s != http.StatusTooManyRequests {
				admitted++
			}
			if s == http.StatusAccepted {
				accepted++
			}
		}
		lim := "global"
		if ar.To == "own" {
			lim = "own"
		}
		emit(map[string]any{"ev": "Rate", "now": a.clk.Tick(), "limiter": lim, "to": ar.To, "m": m, "admitted": admitted, "accepted": accepted, "enq": enq, "statuses": statuses})
	}
	return n, nil
}

const sizeConfig = `ingress {
  listen 127.0.0.1:0
}
pull_api {
  listen 127.0.0.2:0
  auth token raw:tok
}
admin_api {
  listen 127.0.0.3:0
}
defaults {
  max_body 300
  max_headers 150
}
/small {
  queue { backend memory }
  max_body 100
  max_headers 90
  pull { path /pull/small }
}
/dflt {
  queue { backend memory }
  pull { path /pull/dflt }
}
`

// RunSizes probes body and header sizes around the limits of a route with its own limits and one with the defaults.
func RunSizes(w io.Writer, scratch, name string) (int, error) {
	a, err := bootAdm(scratch, sizeConfig)
	if err != nil {
		return 0, err
	}
	defer a.close()
	enc := json.NewEncoder(w)
	n := 0
	_ = enc.Encode(map[string]any{"ev": "Reset", "tr": name, "now": a.clk.Tick(), "limiters": map[string]any{}})
	n++
	for _, rt := range []struct {
		path     string
		mb, mh   int
	}{{"/small", 100, 90}, {"/dflt", 300, 150}} {
		for _, bs := range []int{0, 1, rt.mb - 1, rt.mb, rt.mb + 1, rt.mb * 3} {
			for _, hs := range []int{0, rt.mh - 1, rt.mh, rt.mh + 1} {
				hdr := map[string]string{}
				hsz := 0
				if hs > 0 {
					// one header X-Pad whose name+value make exactly hs bytes
					name := "X-Pad"
					hdr[name] = strings.Repeat("h", hs-len(name))
					hsz = hs
				}
				before := len(a.mem.VerifDump())
				status := a.post(rt.path, bytes.Repeat([]byte("b"), bs), hdr)
				_ = enc.Encode(map[string]any{"ev": "Size", "route": rt.path, "body": bs, "headers": hsz, "max_body": rt.mb, "max_headers": rt.mh,
					"status": status, "enq": len(a.mem.VerifDump()) - before, "targets": 1})
				n++
			}
		}
	}
	return n, nil
}

func fanConfig(depth int) string {
	return fmt.Sprintf(`ingress {
  listen 127.0.0.1:0
}
pull_api {
  listen 127.0.0.2:0
  auth token raw:tok
}
admin_api {
  listen 127.0.0.3:0
}
queue_limits {
  max_depth %d
  drop_policy reject
}
/fill {
  queue { backend memory }
  pull { path /pull/fill }
}
/fan {
  queue { backend memory }
  deliver "https://t1.invalid/a" { timeout 1s }
  deliver "https://t2.invalid/b" { timeout 1s }
  deliver "https://t3.invalid/c" { timeout 1s }
}
`, depth)
}

// RunFanout: a fan-out request into a queue with room for 0..4 more messages.
func RunFanout(w io.Writer, scratch, name string) (int, error) {
	enc := json.NewEncoder(w)
	n := 0
	want := []string{"https://t1.invalid/a", "https://t2.invalid/b", "https://t3.invalid/c"}
	for room := 0; room <= 4; room++ {
		a, err := bootAdm(scratch, fanConfig(5))
		if err != nil {
			return n, err
		}
		_ = enc.Encode(map[string]any{"ev": "Reset", "tr": fmt.Sprintf("%s-room%d", name, room), "now": a.clk.Tick(), "limiters": map[string]any{}})
		n++
		for i := 0; i < 5-room; i++ {
			if s := a.post("/fill", []byte(fmt.Sprintf(`{"fill":%d}`, i)), nil); s != 202 {
				a.close()
				return n, fmt.Errorf("fill request got %d", s)
			}
		}
		before := map[string]string{}
		for _, r := range a.mem.VerifDump() {
			before[r.Env.ID] = string(r.Env.State) + r.Env.Route + r.Env.Target
		}
		status := a.post("/fan", []byte(`{"tok":"fan"}`), nil)
		stored := []string{}
		after := a.mem.VerifDump()
		othersOK := true
		seen := 0
		byTarget := map[string]bool{}
		for _, r := range after {
			if b, ok := before[r.Env.ID]; ok {
				seen++
				if b != string(r.Env.State)+r.Env.Route+r.Env.Target {
					othersOK = false
				}
				continue
			}
			byTarget[r.Env.Target] = true
		}
		if seen != len(before) {
			othersOK = false
		}
		for _, t := range want {
			if byTarget[t] {
				stored = append(stored, t)
			}
		}
		if len(stored) != len(byTarget) {
			othersOK = false
		}
		_ = enc.Encode(map[string]any{"ev": "Fanout", "room": room, "targets": 3, "status": status, "want": want, "stored": stored, "others_unchanged": othersOK})
		n++
		a.close()
	}
	return n, nil
}
