// Package l1 drives production-wired hookaido instances (app.VerifBoot) in-process.
package l1

import (
	"bytes"
	"context"
	"encoding/json"
	"fmt"
	"io"
	mrand "math/rand"
	"net/http"
	"net/http/httptest"
	"os"
	"path/filepath"
	"sync"
	"time"

	"google.golang.org/grpc"
	"google.golang.org/grpc/credentials/insecure"
	"google.golang.org/grpc/metadata"
	"google.golang.org/protobuf/types/known/durationpb"

	"github.com/nuetzliches/hookaido/internal/app"
	"github.com/nuetzliches/hookaido/internal/dispatcher"
	workerapipb "github.com/nuetzliches/hookaido/internal/workerapi/proto"
	"github.com/nuetzliches/hookaido/verif/l0"
)

// stubDeliverer plays random outcomes and records every invocation.
type stubDeliverer struct {
	mu   sync.Mutex
	rng  *mrand.Rand
	Seen []string
}

func (s *stubDeliverer) Deliver(ctx context.Context, d dispatcher.Delivery) dispatcher.Result {
	s.mu.Lock()
	x := s.rng.Intn(100)
	s.Seen = append(s.Seen, d.URL)
	s.mu.Unlock()
	switch {
	case x < 60:
		return dispatcher.Result{StatusCode: 200}
	case x < 82:
		return dispatcher.Result{StatusCode: 500}
	case x < 92:
		return dispatcher.Result{StatusCode: 404}
	default:
		return dispatcher.Result{Err: fmt.Errorf("connection reset")}
	}
}

const concConfig = `
ingress {
  listen 127.0.0.1:0
}
pull_api {
  listen 127.0.0.2:0
  grpc_listen 127.0.0.4:0
  auth token raw:tok-pull
  max_batch 10
}
admin_api {
  listen 127.0.0.3:0
}
/hook/a {
  queue { backend memory }
  pull { path /pull/a }
}
/hook/b {
  queue { backend memory }
  deliver "https://target.invalid/b" {
    retry exponential max 2 base 1s cap 2s jitter 0
    timeout 1s
  }
  deliver_concurrency 2
}
`

// ConcOpts configures one concurrent L1 history.
type ConcOpts struct {
	Backend string
	Seed    int64
	Rounds  int
	Clients int
	Config  string
}

// RunConc boots a production-wired instance whose store is wrapped by the
// tracing decorator, lets HTTP pull workers, gRPC workers, ingress clients and
// the push dispatcher run concurrently in rounds separated by quiescent
// barriers, and writes the call/return trace of every store operation.
func RunConc(w io.Writer, scratch, name string, o ConcOpts) (int, error) {
	dir, err := os.MkdirTemp(scratch, "l1conc-")
	if err != nil {
		return 0, err
	}
	defer os.RemoveAll(dir)
	cfgText := o.Config
	if cfgText == "" {
		cfgText = concConfig
	}
	cfgPath := filepath.Join(dir, "Hookaidofile")
	if err := os.WriteFile(cfgPath, []byte(cfgText), 0o600); err != nil {
		return 0, err
	}
	clk := &l0.Clock{}
	clk.Set(1000)
	scfg := l0.BackendCfg(l0.Cfg{}, o.Backend, false)
	store, dump, closeFn, err := l0.OpenStore(scfg, clk, filepath.Join(dir, "q.db"))
	if err != nil {
		return 0, err
	}
	defer closeFn()
	ts := l0.NewTraceStore(store, dump, clk)
	ts.EmptyWait = 2 * time.Millisecond
	ts.Reset(name, scfg)
	stub := &stubDeliverer{rng: mrand.New(mrand.NewSource(o.Seed + 7))}
	inst, err := app.VerifBoot(app.VerifOptions{ConfigPath: cfgPath, DBPath: filepath.Join(dir, "unused.db"), Now: clk.Now, Store: ts, Deliverer: stub})
	if err != nil {
		return 0, fmt.Errorf("boot: %w", err)
	}
	defer inst.Stop()

	ingress := inst.Handlers["ingress"]
	pull := inst.Handlers["pull_api"]
	if ingress == nil || pull == nil {
		return 0, fmt.Errorf("handlers missing: %v", inst.Handlers)
	}
	conn, err := grpc.NewClient(inst.Addrs["grpc"], grpc.WithTransportCredentials(insecure.NewCredentials()))
	if err != nil {
		return 0, err
	}
	defer conn.Close()
	wc := workerapipb.NewWorkerServiceClient(conn)

	post := func(h http.Handler, path string, body any, auth bool) (int, []byte) {
		b, _ := json.Marshal(body)
		req := httptest.NewRequest(http.MethodPost, path, bytes.NewReader(b))
		req.Header.Set("Content-Type", "application/json")
		if auth {
			req.Header.Set("Authorization", "Bearer tok-pull")
		}
		rec := httptest.NewRecorder()
		h.ServeHTTP(rec, req)
		return rec.Code, rec.Body.Bytes()
	}
	var lmu sync.Mutex
	var leases []string
	add := func(ids ...string) {
		lmu.Lock()
		leases = append(leases, ids...)
		lmu.Unlock()
	}
	pickLease := func(r *mrand.Rand) string {
		lmu.Lock()
		defer lmu.Unlock()
		if len(leases) == 0 {
			return "lease_none"
		}
		return leases[len(leases)-1-r.Intn(min(len(leases), 5))]
	}
	rng := mrand.New(mrand.NewSource(o.Seed))
	n := 0
	for round := 0; round < o.Rounds; round++ {
		var wg sync.WaitGroup
		for c := 0; c < o.Clients; c++ {
			wg.Add(1)
			r := mrand.New(mrand.NewSource(rng.Int63()))
			n++
			tok := fmt.Sprintf("%s-%d", name, n)
			go func(r *mrand.Rand, tok string) {
				defer wg.Done()
				for k := 0; k < 2; k++ {
					switch x := r.Intn(100); {
					case x < 20:
						post(ingress, "/hook/a", map[string]any{"tok": tok, "k": k}, false)
					case x < 32:
						post(ingress, "/hook/b", map[string]any{"tok": tok, "k": k}, false)
					case x < 50:
						code, body := post(pull, "/pull/a/dequeue", map[string]any{"batch": 1 + r.Intn(3), "lease_ttl": fmt.Sprintf("%dms", 20+r.Intn(3)*40)}, true)
						if code == 200 {
							var resp struct {
								Items []struct {
									LeaseID string `json:"lease_id"`
								} `json:"items"`
							}
							if json.Unmarshal(body, &resp) == nil {
								for _, it := range resp.Items {
									add(it.LeaseID)
								}
							}
						}
					case x < 62:
						ctx := metadata.AppendToOutgoingContext(context.Background(), "authorization", "Bearer tok-pull")
						resp, err := wc.Dequeue(ctx, &workerapipb.DequeueRequest{Endpoint: "/pull/a", Batch: uint32(1 + r.Intn(2)), LeaseTtl: durationpb.New(50 * time.Millisecond)})
						if err == nil {
							for _, it := range resp.Items {
								add(it.LeaseId)
							}
						}
					case x < 74:
						post(pull, "/pull/a/ack", map[string]any{"lease_id": pickLease(r)}, true)
					case x < 82:
						ctx := metadata.AppendToOutgoingContext(context.Background(), "authorization", "Bearer tok-pull")
						_, _ = wc.Ack(ctx, &workerapipb.AckRequest{Endpoint: "/pull/a", LeaseId: pickLease(r)})
					case x < 90:
						post(pull, "/pull/a/nack", map[string]any{"lease_id": pickLease(r), "delay": "0s"}, true)
					case x < 95:
						post(pull, "/pull/a/extend", map[string]any{"lease_id": pickLease(r), "extend_by": "30ms"}, true)
					default:
						post(pull, "/pull/a/ack", map[string]any{"lease_ids": []string{pickLease(r), pickLease(r)}}, true)
					}
				}
			}(r, tok)
		}
		wg.Wait()
		// let the dispatcher work on what was enqueued for the deliver route
		time.Sleep(5 * time.Millisecond)
		if err := ts.Barrier(); err != nil {
			return 0, err
		}
		ts.Tick([]int{10, 50, 100, 1000, 2000, 31000}[rng.Intn(6)])
	}
	inst.Drain(2 * time.Second)
	if err := ts.Barrier(); err != nil {
		return 0, err
	}
	stub.mu.Lock()
	deliveries := len(stub.Seen)
	stub.mu.Unlock()
	nl, err := ts.WriteTrace(w)
	if err != nil {
		return 0, err
	}
	_ = deliveries
	return nl, nil
}
