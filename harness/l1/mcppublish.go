package l1

import (
	"bytes"
	"context"
	"encoding/base64"
	"encoding/json"
	"fmt"
	"io"
	"os"
	"path/filepath"
	"strings"

	"github.com/nuetzliches/hookaido/internal/mcp"
	"github.com/nuetzliches/hookaido/internal/queue"
)

func mcpPublishConfig(depth int, policy string) string {
	return fmt.Sprintf(`ingress {
  listen 127.0.0.1:0
}
pull_api {
  listen 127.0.0.2:0
  auth token raw:tok
}
admin_api {
  listen 127.0.0.3:0
}
queue_limits {
  max_depth %d
  drop_policy %s
}
/jobs {
  pull { path /pull/jobs }
}
`, depth, policy)
}

// RunMCPPublish: the MCP tool messages_publish (direct SQLite mode) against a queue with room for `room` more
// messages (reject policy): a batch of 2 is admitted iff room >= 2, otherwise refused and nothing is stored.
// Emits Fanout-style events understood by AdmissionTrace ("McpPublish").
func RunMCPPublish(w io.Writer, scratch, name string) (int, error) {
	enc := json.NewEncoder(w)
	n := 0
	for room := 0; room <= 3; room++ {
		dir, err := os.MkdirTemp(scratch, "mcppub-")
		if err != nil {
			return n, err
		}
		cfgPath := filepath.Join(dir, "Hookaidofile")
		dbPath := filepath.Join(dir, "q.db")
		const depth = 4
		if err := os.WriteFile(cfgPath, []byte(mcpPublishConfig(depth, "reject")), 0o600); err != nil {
			return n, err
		}
		st, err := queue.NewSQLiteStore(dbPath, queue.WithSQLiteCheckpointInterval(0))
		if err != nil {
			return n, err
		}
		for i := 0; i < depth-room; i++ {
			if err := st.Enqueue(queue.Envelope{ID: fmt.Sprintf("pre-%d", i), Route: "/jobs", Target: "pull", Payload: []byte("x")}); err != nil {
				return n, err
			}
		}
		_ = st.Close()
		items := []map[string]any{}
		for i := 0; i < 2; i++ {
			items = append(items, map[string]any{"id": fmt.Sprintf("pub-%d-%d", room, i), "route": "/jobs", "target": "pull",
				"payload_b64": base64.StdEncoding.EncodeToString([]byte("payload"))})
		}
		req := map[string]any{"jsonrpc": "2.0", "id": 1, "method": "tools/call",
			"params": map[string]any{"name": "messages_publish", "arguments": map[string]any{"items": items, "reason": "verif"}}}
		payload, _ := json.Marshal(req)
		var in bytes.Buffer
		fmt.Fprintf(&in, "Content-Length: %d\r\n\r\n", len(payload))
		in.Write(payload)
		var out bytes.Buffer
		srv := mcp.NewServer(&in, &out, cfgPath, dbPath, mcp.WithRole(mcp.RoleOperate), mcp.WithPrincipal("verif"),
			mcp.WithMutationsEnabled(true), mcp.WithAuditWriter(io.Discard))
		if err := srv.Serve(context.Background()); err != nil {
			return n, err
		}
		resp := out.String()
		isErr := strings.Contains(resp, `"isError":true`) || strings.Contains(resp, `"error":{`)
		st2, err := queue.NewSQLiteStore(dbPath, queue.WithSQLiteCheckpointInterval(0))
		if err != nil {
			return n, err
		}
		rows, _ := st2.VerifDump()
		_ = st2.Close()
		stored, pre := 0, 0
		for _, r := range rows {
			if strings.HasPrefix(r.Env.ID, "pub-") {
				stored++
			} else {
				pre++
			}
		}
		_ = enc.Encode(map[string]any{"ev": "Reset", "tr": fmt.Sprintf("%s-room%d", name, room), "now": 0, "limiters": map[string]any{}})
		_ = enc.Encode(map[string]any{"ev": "McpPublish", "room": room, "items": 2, "refused": isErr, "stored": stored, "pre_kept": pre == depth-room, "depth": depth,
			"resp": resp[max(0, len(resp)-200):]})
		n += 2
		os.RemoveAll(dir)
	}
	return n, nil
}
