package l1

import (
	"bytes"
	"crypto/hmac"
	"crypto/sha256"
	"encoding/hex"
	"encoding/json"
	"fmt"
	"io"
	"net/http"
	"net/http/httptest"
	"os"
	"path/filepath"
	"strconv"
	"strings"
	"sync"

	"github.com/nuetzliches/hookaido/internal/admin"
	"github.com/nuetzliches/hookaido/internal/app"
	"github.com/nuetzliches/hookaido/internal/queue"
	"github.com/nuetzliches/hookaido/verif/l0"
)

// NonceOp is one step of a replay schedule (see spec/NonceGen.tla).
type NonceOp struct {
	Op   string `json:"op"`
	K    int    `json:"k,omitempty"`
	Dts  int    `json:"dts,omitempty"`
	M    int    `json:"m,omitempty"`
	D    int    `json:"d,omitempty"`
	Kind string `json:"kind,omitempty"`
}

type nonceCfg struct {
	tolSec    int
	secrets   []string
	extra     bool // an unrelated extra route
	hookGone  bool // the HMAC route is absent
	noAuth    bool // the route exists but has no auth hmac
	managed   bool // a managed endpoint exists on another route
	sigHeader string
}

func (c nonceCfg) text() string {
	var b bytes.Buffer
	b.WriteString("ingress {\n  listen 127.0.0.1:0\n}\npull_api {\n  listen 127.0.0.2:0\n  auth token raw:tok\n}\nadmin_api {\n  listen 127.0.0.3:0\n}\n")
	if !c.hookGone {
		b.WriteString("/hook {\n  queue { backend memory }\n")
		if !c.noAuth {
			b.WriteString("  auth hmac {\n")
			for _, s := range c.secrets {
				fmt.Fprintf(&b, "    secret raw:%s\n", s)
			}
			fmt.Fprintf(&b, "    tolerance %ds\n", c.tolSec)
			if c.sigHeader != "" {
				fmt.Fprintf(&b, "    signature_header %q\n", c.sigHeader)
			}
			b.WriteString("  }\n")
		}
		b.WriteString("  pull { path /pull/h }\n}\n")
	}
	b.WriteString("/keep {\n  queue { backend memory }\n  pull { path /pull/keep }\n}\n")
	if c.extra {
		b.WriteString("/extra {\n  queue { backend memory }\n  pull { path /pull/extra }\n}\n")
	}
	if c.managed {
		b.WriteString("/managed {\n  queue { backend memory }\n  application \"app1\"\n  endpoint_name \"ep1\"\n  pull { path /pull/managed }\n}\n")
	}
	return b.String()
}

type capturedReq struct {
	nonce string
	ts    int64
	body  []byte
	sig   string
}

// RunNonce executes one replay schedule on a production-wired instance with a
// fake clock and writes one event per request / burst.
func RunNonce(w io.Writer, scratch, name string, ops []NonceOp) (int, error) {
	dir, err := os.MkdirTemp(scratch, "nonce-")
	if err != nil {
		return 0, err
	}
	defer os.RemoveAll(dir)
	cfg := nonceCfg{tolSec: 3, secrets: []string{"s1"}}
	cfgPath := filepath.Join(dir, "Hookaidofile")
	write := func() error { return os.WriteFile(cfgPath, []byte(cfg.text()), 0o600) }
	if err := write(); err != nil {
		return 0, err
	}
	clk := &l0.Clock{}
	// l0 tick = 1 ms since l0.Base; keep the clock on a whole second initially
	clk.Set(10_000)
	inst, err := app.VerifBoot(app.VerifOptions{ConfigPath: cfgPath, DBPath: filepath.Join(dir, "q.db"), Now: clk.Now})
	if err != nil {
		return 0, fmt.Errorf("boot: %w", err)
	}
	defer inst.Stop()
	h := inst.Handlers["ingress"]
	mem, ok := inst.Store.(*queue.MemoryStore)
	if !ok {
		return 0, fmt.Errorf("store is %T, want *queue.MemoryStore", inst.Store)
	}
	count := func() int { return len(mem.VerifDump()) }
	baseSec := l0.Base.Unix()
	nowMs := func() int { return clk.Tick() } // ms since l0.Base
	nowSec := func() int64 { return baseSec + int64(clk.Tick()/1000) }

	events := 0
	emit := func(ev map[string]any) error {
		b, err := json.Marshal(ev)
		if err != nil {
			return err
		}
		events++
		_, err = w.Write(append(b, '\n'))
		return err
	}
	if err := emit(map[string]any{"ev": "Reset", "tr": name}); err != nil {
		return 0, err
	}
	sign := func(secret string, ts int64, body []byte) string {
		sum := sha256.Sum256(body)
		msg := fmt.Sprintf("%d\n%s\n%s\n%s", ts, "POST", "/hook", hex.EncodeToString(sum[:]))
		mac := hmac.New(sha256.New, []byte(secret))
		mac.Write([]byte(msg))
		return hex.EncodeToString(mac.Sum(nil))
	}
	send := func(c capturedReq) int {
		req := httptest.NewRequest(http.MethodPost, "/hook", bytes.NewReader(c.body))
		sigH := "X-Signature"
		if cfg.sigHeader != "" {
			sigH = cfg.sigHeader
		}
		req.Header.Set(sigH, c.sig)
		req.Header.Set("X-Timestamp", strconv.FormatInt(c.ts, 10))
		req.Header.Set("X-Nonce", c.nonce)
		rec := httptest.NewRecorder()
		h.ServeHTTP(rec, req)
		return rec.Code
	}
	captured := map[int]capturedReq{}
	serial := 0
	mk := func(nonce string, ts int64) capturedReq {
		serial++
		body := []byte(fmt.Sprintf(`{"tok":"%s-%d","pad":"%s"}`, name, serial, strings.Repeat("p", 96*1024)))
		return capturedReq{nonce: nonce, ts: ts, body: body, sig: sign("s1", ts, body)}
	}
	// the abstract timestamp handed to TLC is in seconds relative to l0.Base so that it fits 32 bits
	relTs := func(ts int64) int { return int(ts - baseSec) }
	reqEvent := func(kind string, c capturedReq) error {
		before := count()
		status := send(c)
		return emit(map[string]any{"ev": "Req", "kind": kind, "now": nowMs(), "n": c.nonce, "ts": relTs(c.ts), "tol": cfg.tolSec * 1000,
			"status": status, "enq": count() - before, "route_present": !cfg.hookGone})
	}
	reload := func(kind string) error {
		ok := true
		switch kind {
		case "noop":
		case "unrelated":
			cfg.extra = !cfg.extra
		case "hmac_changed":
			if len(cfg.secrets) == 1 {
				cfg.secrets = []string{"s1", "s2"}
			} else {
				cfg.secrets = []string{"s1"}
			}
		case "header_changed":
			if cfg.sigHeader == "" {
				cfg.sigHeader = "X-Sig2"
			} else {
				cfg.sigHeader = ""
			}
		case "route_removed_readded":
			cfg.hookGone = true
			if err := write(); err != nil {
				return err
			}
			ok = inst.Reload("verif") && ok
			cfg.hookGone = false
		case "auth_removed_readded":
			// the route stays, its auth hmac block goes and comes back
			cfg.noAuth = true
			if err := write(); err != nil {
				return err
			}
			ok = inst.Reload("verif") && ok
			cfg.noAuth = false
		case "widen":
			cfg.tolSec = 6
		case "narrow":
			cfg.tolSec = 2
		case "mgmt":
			// management mutation path: mutateManagedEndpointConfig rewrites the file and reloads
			if err := write(); err != nil {
				return err
			}
			_, err := inst.UpsertManagedEndpoint(admin.ManagementEndpointUpsertRequest{Application: "app1", EndpointName: "ep1", Route: "/keep"})
			return emit(map[string]any{"ev": "Reload", "kind": kind, "ok": err == nil, "now": nowMs(), "err": fmt.Sprint(err)})
		default:
			return fmt.Errorf("unknown reload kind %q", kind)
		}
		if err := write(); err != nil {
			return err
		}
		ok = inst.Reload("verif") && ok
		return emit(map[string]any{"ev": "Reload", "kind": kind, "ok": ok, "now": nowMs()})
	}
	for _, op := range ops {
		switch op.Op {
		case "orig":
			c := mk(fmt.Sprintf("n%d-%s", op.K, name), nowSec()+int64(op.Dts))
			captured[op.K] = c
			if err := reqEvent("orig", c); err != nil {
				return 0, err
			}
		case "replay":
			c, ok := captured[op.K]
			if !ok {
				continue
			}
			if err := reqEvent("replay", c); err != nil {
				return 0, err
			}
		case "samenonce":
			c, ok := captured[op.K]
			if !ok {
				continue
			}
			if err := reqEvent("samenonce", mk(c.nonce, nowSec()+int64(op.Dts))); err != nil {
				return 0, err
			}
		case "other":
			for i := 0; i < op.M; i++ {
				send(mk(fmt.Sprintf("o%d-%d-%s", serial, i, name), nowSec()))
			}
			if err := emit(map[string]any{"ev": "OtherTraffic", "m": op.M, "now": nowMs()}); err != nil {
				return 0, err
			}
		case "burst":
			c, ok := captured[op.K]
			if !ok {
				c = mk(fmt.Sprintf("n%d-%s", op.K, name), nowSec())
				captured[op.K] = c
			}
			before := count()
			var wg sync.WaitGroup
			var mu sync.Mutex
			accepted := 0
			start := make(chan struct{})
			for i := 0; i < op.M; i++ {
				wg.Add(1)
				go func() {
					defer wg.Done()
					<-start
					if send(c) == http.StatusAccepted {
						mu.Lock()
						accepted++
						mu.Unlock()
					}
				}()
			}
			close(start)
			wg.Wait()
			if err := emit(map[string]any{"ev": "Burst", "now": nowMs(), "n": c.nonce, "ts": relTs(c.ts), "tol": cfg.tolSec * 1000, "m": op.M,
				"accepted": accepted, "enq": count() - before}); err != nil {
				return 0, err
			}
		case "tick":
			clk.Advance(op.D)
			if err := emit(map[string]any{"ev": "Tick", "d": op.D, "now": nowMs()}); err != nil {
				return 0, err
			}
		case "reload":
			if err := reload(op.Kind); err != nil {
				return 0, err
			}
		default:
			return 0, fmt.Errorf("unknown op %q", op.Op)
		}
	}
	return events, nil
}
