package l1

import (
	"encoding/base64"
	"bytes"
	"crypto/hmac"
	"crypto/sha256"
	"encoding/hex"
	"encoding/json"
	"fmt"
	"io"
	"net/http"
	"net/http/httptest"
	"os"
	"path/filepath"
	"sort"
	"strconv"
	"strings"
	"sync"
	"time"

	"github.com/nuetzliches/hookaido/internal/app"
	"github.com/nuetzliches/hookaido/internal/queue"
	"github.com/nuetzliches/hookaido/internal/verifhook"
)

const reloadHeader = `ingress {
  listen 127.0.0.1:0
}
pull_api {
  listen 127.0.0.2:0
  auth token raw:tok-global
}
admin_api {
  listen 127.0.0.3:0
}
/keep {
  queue { backend memory }
  pull { path /pull/keep }
}
`

// ReloadProbe is one request whose answer depends on the configuration only.
type ReloadProbe struct {
	Name    string
	Kind    string // "ingress" | "pull"
	Method  string
	Path    string
	Body    string
	Token   string // pull bearer token
	SignKey string // HMAC secret to sign with ("" = unsigned)
	User    string // basic auth
	Pass    string
	Keys    map[string]string // deliver probes: candidate signing keys by name
	Header  map[string]string // ingress probes: extra request headers
	Host    string            // ingress probes: request Host ("" = httptest's default)
	Remote  string            // ingress probes: remote address ("" = 192.0.2.10:4000)
}

// ReloadPair is an (old, new) configuration pair with probes that tell them apart.
type ReloadPair struct {
	Name   string
	Old    string
	New    string
	Probes []ReloadProbe
}

func route(path string, lines ...string) string {
	return path + " {\n  queue { backend memory }\n  " + strings.Join(lines, "\n  ") + "\n}\n"
}

// ReloadPairs is the catalogue of configuration pairs (DESIGN.md C18 b).
func ReloadPairs() []ReloadPair {
	fw := forwardPairs()
	out := append([]ReloadPair{}, fw...)
	// every pair also in the other direction (thorough tier)
	for _, p := range fw {
		out = append(out, ReloadPair{Name: p.Name + "_rev", Old: p.New, New: p.Old, Probes: p.Probes})
	}
	return out
}

func forwardPairs() []ReloadPair {
	hm := func(s string) string { return "auth hmac {\n    secret raw:" + s + "\n    tolerance 1h\n  }" }
	big := strings.Repeat("x", 200)
	return []ReloadPair{
		{Name: "hmac_route_removed",
			Old:    reloadHeader + route("/a", hm("s1"), "pull { path /pull/a }"),
			New:    reloadHeader,
			Probes: []ReloadProbe{{Name: "unsigned", Kind: "ingress", Method: "POST", Path: "/a", Body: "{}"}, {Name: "signed", Kind: "ingress", Method: "POST", Path: "/a", Body: "{}", SignKey: "s1"}}},
		{Name: "hmac_added",
			Old:    reloadHeader + route("/a", "pull { path /pull/a }"),
			New:    reloadHeader + route("/a", hm("s1"), "pull { path /pull/a }"),
			Probes: []ReloadProbe{{Name: "unsigned", Kind: "ingress", Method: "POST", Path: "/a", Body: "{}"}, {Name: "signed", Kind: "ingress", Method: "POST", Path: "/a", Body: "{}", SignKey: "s1"}}},
		{Name: "hmac_secret_changed",
			Old:    reloadHeader + route("/a", hm("s1"), "pull { path /pull/a }"),
			New:    reloadHeader + route("/a", hm("s2"), "pull { path /pull/a }"),
			Probes: []ReloadProbe{{Name: "signed_old", Kind: "ingress", Method: "POST", Path: "/a", Body: "{}", SignKey: "s1"}, {Name: "signed_new", Kind: "ingress", Method: "POST", Path: "/a", Body: "{}", SignKey: "s2"}}},
		{Name: "basic_route_replaced",
			Old:    reloadHeader + route("/a", `auth basic "u" "p1"`, "pull { path /pull/a }"),
			New:    reloadHeader + route("/b", `auth basic "u" "p2"`, "pull { path /pull/b }"),
			Probes: []ReloadProbe{{Name: "a_p1", Kind: "ingress", Method: "POST", Path: "/a", Body: "{}", User: "u", Pass: "p1"}, {Name: "a_none", Kind: "ingress", Method: "POST", Path: "/a", Body: "{}"}, {Name: "b_p2", Kind: "ingress", Method: "POST", Path: "/b", Body: "{}", User: "u", Pass: "p2"}}},
		{Name: "max_body_raised",
			Old:    reloadHeader + route("/a", "max_body 64", "pull { path /pull/a }"),
			New:    reloadHeader + route("/a", "max_body 4kb", "pull { path /pull/a }"),
			Probes: []ReloadProbe{{Name: "big", Kind: "ingress", Method: "POST", Path: "/a", Body: big}, {Name: "small", Kind: "ingress", Method: "POST", Path: "/a", Body: "{}"}}},
		{Name: "max_body_lowered",
			Old:    reloadHeader + route("/a", "max_body 4kb", "pull { path /pull/a }"),
			New:    reloadHeader + route("/a", "max_body 64", "pull { path /pull/a }"),
			Probes: []ReloadProbe{{Name: "big", Kind: "ingress", Method: "POST", Path: "/a", Body: big}, {Name: "pub_big", Kind: "publish", Path: "/a", Body: big},
				{Name: "pub_small", Kind: "publish", Path: "/a", Body: "{}"}}},
		// the first matcher of a KIND appears with the reload (nothing of that kind existed at start-up)
		{Name: "first_query_matcher_added",
			Old:    reloadHeader + route("/a", "pull { path /pull/a }"),
			New:    reloadHeader + route("/a/b", "match { query \"env\" \"prod\" }", "pull { path /pull/ab }") + route("/a", "pull { path /pull/a }"),
			Probes: []ReloadProbe{{Name: "with_query", Kind: "ingress", Method: "POST", Path: "/a/b?env=prod", Body: "{}"}, {Name: "without_query", Kind: "ingress", Method: "POST", Path: "/a/b", Body: "{}"}}},
		{Name: "first_header_matcher_added",
			Old:    reloadHeader + route("/a", "pull { path /pull/a }"),
			New:    reloadHeader + route("/a/b", "match { header \"X-Env\" \"prod\" }", "pull { path /pull/ab }") + route("/a", "pull { path /pull/a }"),
			Probes: []ReloadProbe{{Name: "with_header", Kind: "ingress", Method: "POST", Path: "/a/b", Body: "{}", Header: map[string]string{"X-Env": "prod"}}}},
		{Name: "first_host_matcher_added",
			Old:    reloadHeader + route("/a", "pull { path /pull/a }"),
			New:    reloadHeader + route("/a/b", "match { host \"hooks.example.com\" }", "pull { path /pull/ab }") + route("/a", "pull { path /pull/a }"),
			Probes: []ReloadProbe{{Name: "with_host", Kind: "ingress", Method: "POST", Path: "/a/b", Body: "{}", Host: "hooks.example.com"}}},
		{Name: "first_remote_ip_matcher_added",
			Old:    reloadHeader + route("/a", "pull { path /pull/a }"),
			New:    reloadHeader + route("/a/b", "match { remote_ip \"203.0.113.0/24\" }", "pull { path /pull/ab }") + route("/a", "pull { path /pull/a }"),
			Probes: []ReloadProbe{{Name: "from_net", Kind: "ingress", Method: "POST", Path: "/a/b", Body: "{}", Remote: "203.0.113.7:5555"}}},
		{Name: "method_changed",
			Old:    reloadHeader + route("/a", "match { method PUT }", "pull { path /pull/a }"),
			New:    reloadHeader + route("/a", "match { method POST }", hm("s1"), "pull { path /pull/a }"),
			Probes: []ReloadProbe{{Name: "put", Kind: "ingress", Method: "PUT", Path: "/a", Body: "{}"}, {Name: "post", Kind: "ingress", Method: "POST", Path: "/a", Body: "{}"}}},
		{Name: "route_order_prefix",
			Old:    reloadHeader + route("/a", "pull { path /pull/a }") + route("/a/b", hm("s1"), "pull { path /pull/ab }"),
			New:    reloadHeader + route("/a/b", hm("s1"), "pull { path /pull/ab }") + route("/a", "pull { path /pull/a }"),
			Probes: []ReloadProbe{{Name: "unsigned_ab", Kind: "ingress", Method: "POST", Path: "/a/b", Body: "{}"}}},
		{Name: "pull_endpoints_swapped",
			Old: reloadHeader + route("/a", "pull {\n    path /pull/x\n    auth token raw:tok-a\n  }") + route("/b", "pull {\n    path /pull/y\n    auth token raw:tok-b\n  }"),
			New: reloadHeader + route("/a", "pull {\n    path /pull/y\n    auth token raw:tok-a\n  }") + route("/b", "pull {\n    path /pull/x\n    auth token raw:tok-b\n  }"),
			Probes: []ReloadProbe{{Name: "x_tok_a", Kind: "pull", Path: "/pull/x/dequeue", Token: "tok-a"}, {Name: "x_tok_b", Kind: "pull", Path: "/pull/x/dequeue", Token: "tok-b"},
				{Name: "y_tok_a", Kind: "pull", Path: "/pull/y/dequeue", Token: "tok-a"}}},
		{Name: "global_rate_limit_removed",
			Old:    strings.Replace(reloadHeader, "listen 127.0.0.1:0\n", "listen 127.0.0.1:0\n  rate_limit {\n    rps 1\n    burst 1\n  }\n", 1) + route("/a", "pull { path /pull/a }"),
			New:    reloadHeader + route("/a", "pull { path /pull/a }"),
			Probes: []ReloadProbe{{Name: "two_posts", Kind: "ingress2", Method: "POST", Path: "/a", Body: "{}"}}},
		{Name: "route_rate_limit_removed",
			Old:    reloadHeader + route("/a", "rate_limit {\n    rps 1\n    burst 1\n  }", "pull { path /pull/a }"),
			New:    reloadHeader + route("/a", "pull { path /pull/a }"),
			Probes: []ReloadProbe{{Name: "two_posts", Kind: "ingress2", Method: "POST", Path: "/a", Body: "{}"}}},
		// a limit that CHANGES (both configurations limit the same route / the listener): the limiter in force afterwards must be the new one
		{Name: "route_rate_limit_changed",
			Old:    reloadHeader + route("/a", "rate_limit {\n    rps 1\n    burst 1\n  }", "pull { path /pull/a }"),
			New:    reloadHeader + route("/a", "rate_limit {\n    rps 1\n    burst 2\n  }", "pull { path /pull/a }"),
			Probes: []ReloadProbe{{Name: "three_posts", Kind: "ingress3", Method: "POST", Path: "/a", Body: "{}"}}},
		{Name: "global_rate_limit_changed",
			Old:    strings.Replace(reloadHeader, "listen 127.0.0.1:0\n", "listen 127.0.0.1:0\n  rate_limit {\n    rps 1\n    burst 2\n  }\n", 1) + route("/a", "pull { path /pull/a }"),
			New:    strings.Replace(reloadHeader, "listen 127.0.0.1:0\n", "listen 127.0.0.1:0\n  rate_limit {\n    rps 1\n    burst 1\n  }\n", 1) + route("/a", "pull { path /pull/a }"),
			Probes: []ReloadProbe{{Name: "three_posts", Kind: "ingress3", Method: "POST", Path: "/a", Body: "{}"}}},
		{Name: "pull_token_override_removed",
			Old:    reloadHeader + route("/a", "pull {\n    path /pull/x\n    auth token raw:tok-a\n  }"),
			New:    reloadHeader + route("/a", "pull { path /pull/x }"),
			Probes: []ReloadProbe{{Name: "x_tok_a", Kind: "pull", Path: "/pull/x/dequeue", Token: "tok-a"}, {Name: "x_tok_global", Kind: "pull", Path: "/pull/x/dequeue", Token: "tok-global"}}},
	}
}

type reloadInst struct {
	inst    *app.VerifInstance
	mem     *queue.MemoryStore
	dir     string
	cfgPath string
}

func bootReload(scratch, text string) (*reloadInst, error) {
	dir, err := os.MkdirTemp(scratch, "reload-")
	if err != nil {
		return nil, err
	}
	cfgPath := filepath.Join(dir, "Hookaidofile")
	if strings.Contains(text, "SINK") {
		text = strings.ReplaceAll(text, "SINK", sinkURL())
	}
	if err := os.WriteFile(cfgPath, []byte(text), 0o600); err != nil {
		return nil, err
	}
	inst, err := app.VerifBoot(app.VerifOptions{ConfigPath: cfgPath, DBPath: filepath.Join(dir, "q.db"), HTTPDispatcher: strings.Contains(text, "deliver \"")})
	if err != nil {
		os.RemoveAll(dir)
		return nil, fmt.Errorf("boot: %w\n%s", err, text)
	}
	mem, ok := inst.Store.(*queue.MemoryStore)
	if !ok {
		inst.Stop()
		os.RemoveAll(dir)
		return nil, fmt.Errorf("store is %T", inst.Store)
	}
	return &reloadInst{inst: inst, mem: mem, dir: dir, cfgPath: cfgPath}, nil
}

func (r *reloadInst) close() {
	r.inst.Stop()
	os.RemoveAll(r.dir)
}

// seed puts one ready message into every pull route so that a dequeue shows which route it was served from.
func (r *reloadInst) seed(serial int) {
	for _, rt := range r.inst.Running().Routes {
		if rt.Pull == nil {
			continue
		}
		_ = r.mem.Enqueue(queue.Envelope{ID: fmt.Sprintf("seed-%d-%s", serial, strings.ReplaceAll(rt.Path, "/", "_")), Route: rt.Path, Target: "pull", Payload: []byte("seed")})
	}
}

var probeSerial int

// answer runs the probe and returns its observable answer as a canonical string.
func (r *reloadInst) answer(p ReloadProbe) string {
	probeSerial++
	switch p.Kind {
	case "ingress2":
		// two requests in immediate succession: tells an exhausted rate limiter from none
		q := p
		q.Kind = "ingress"
		first := r.answer(q)
		second := r.answer(q)
		return first + " ; " + second
	case "ingress3":
		// three requests in immediate succession: tells burst 1 from burst 2
		q := p
		q.Kind = "ingress"
		a1 := r.answer(q)
		a2 := r.answer(q)
		a3 := r.answer(q)
		return a1 + " ; " + a2 + " ; " + a3
	case "deliver":
		return r.deliverAnswer(p)
	case "pulln":
		// four ready messages, one dequeue asking for four: the answer shows the batch cap in force
		rt := "/" + strings.Split(strings.TrimPrefix(p.Path, "/pull/"), "/")[0]
		for i := 0; i < 4; i++ {
			_ = r.mem.Enqueue(queue.Envelope{ID: fmt.Sprintf("n-%d-%d", probeSerial, i), Route: rt, Target: "pull", Payload: []byte("n")})
		}
		req := httptest.NewRequest(http.MethodPost, p.Path, strings.NewReader(`{"batch":4,"lease_ttl":"1s"}`))
		req.Header.Set("Authorization", "Bearer "+p.Token)
		req.Header.Set("Content-Type", "application/json")
		rec := httptest.NewRecorder()
		r.inst.Handlers["pull_api"].ServeHTTP(rec, req)
		var resp struct {
			Items []struct {
				LeaseID string `json:"lease_id"`
			} `json:"items"`
		}
		_ = json.Unmarshal(rec.Body.Bytes(), &resp)
		ids := []string{}
		for _, it := range resp.Items {
			ids = append(ids, it.LeaseID)
		}
		b, _ := json.Marshal(map[string]any{"lease_ids": ids})
		areq := httptest.NewRequest(http.MethodPost, strings.TrimSuffix(p.Path, "dequeue")+"ack", bytes.NewReader(b))
		areq.Header.Set("Authorization", "Bearer "+p.Token)
		r.inst.Handlers["pull_api"].ServeHTTP(httptest.NewRecorder(), areq)
		// drop whatever is left so that the next probe starts from the same backlog
		for {
			rr, err := r.mem.Dequeue(queue.DequeueRequest{Route: rt, Target: "pull", Batch: 50, LeaseTTL: time.Second})
			if err != nil || len(rr.Items) == 0 {
				break
			}
			for _, it := range rr.Items {
				_ = r.mem.Ack(it.LeaseID)
			}
		}
		return fmt.Sprintf("status=%d items=%d", rec.Code, len(resp.Items))
	case "publish":
		// Admin API publish of one item to the route: the route's limits in force decide (413 / stored)
		before := map[string]bool{}
		for _, row := range r.mem.VerifDump() {
			before[row.Env.ID] = true
		}
		item := map[string]any{"id": fmt.Sprintf("pub-%d-%d", os.Getpid(), probeSerial), "route": p.Path, "target": "pull",
			"payload_b64": base64.StdEncoding.EncodeToString([]byte(p.Body))}
		b, _ := json.Marshal(map[string]any{"items": []any{item}})
		req := httptest.NewRequest(http.MethodPost, "/messages/publish", bytes.NewReader(b))
		req.Header.Set("Content-Type", "application/json")
		req.Header.Set("X-Hookaido-Audit-Reason", "verif reload probe")
		req.Header.Set("X-Hookaido-Audit-Actor", "ci-bot")
		req.Header.Set("X-Request-ID", fmt.Sprintf("req-%d", probeSerial))
		rec := httptest.NewRecorder()
		h := r.inst.Handlers["admin_api"]
		if h == nil {
			h = r.inst.Handlers["pull+admin"]
		}
		h.ServeHTTP(rec, req)
		var added []string
		for _, row := range r.mem.VerifDump() {
			if !before[row.Env.ID] {
				added = append(added, row.Env.Route+">"+row.Env.Target)
			}
		}
		sort.Strings(added)
		var er struct {
			Code string `json:"code"`
		}
		_ = json.Unmarshal(rec.Body.Bytes(), &er)
		return fmt.Sprintf("status=%d code=%s stored=%s", rec.Code, er.Code, strings.Join(added, ","))
	case "ingress":
		before := map[string]bool{}
		for _, row := range r.mem.VerifDump() {
			before[row.Env.ID] = true
		}
		body := []byte(p.Body)
		req := httptest.NewRequest(p.Method, p.Path, bytes.NewReader(body))
		req.RemoteAddr = "192.0.2.10:4000"
		if p.Remote != "" {
			req.RemoteAddr = p.Remote
		}
		if p.Host != "" {
			req.Host = p.Host
		}
		for k, v := range p.Header {
			req.Header.Set(k, v)
		}
		if p.SignKey != "" {
			ts := time.Now().Unix()
			sum := sha256.Sum256(body)
			msg := fmt.Sprintf("%d\n%s\n%s\n%s", ts, p.Method, p.Path, hex.EncodeToString(sum[:]))
			mac := hmac.New(sha256.New, []byte(p.SignKey))
			mac.Write([]byte(msg))
			req.Header.Set("X-Signature", hex.EncodeToString(mac.Sum(nil)))
			req.Header.Set("X-Timestamp", strconv.FormatInt(ts, 10))
			req.Header.Set("X-Nonce", fmt.Sprintf("nonce-%d-%d", os.Getpid(), probeSerial))
		}
		if p.User != "" {
			req.SetBasicAuth(p.User, p.Pass)
		}
		rec := httptest.NewRecorder()
		r.inst.Handlers["ingress"].ServeHTTP(rec, req)
		var added []string
		for _, row := range r.mem.VerifDump() {
			if !before[row.Env.ID] {
				added = append(added, row.Env.Route+">"+row.Env.Target)
			}
		}
		sort.Strings(added)
		return fmt.Sprintf("status=%d allow=%q stored=%s", rec.Code, rec.Header().Get("Allow"), strings.Join(added, ","))
	case "pull":
		req := httptest.NewRequest(http.MethodPost, p.Path, strings.NewReader(`{"batch":5,"lease_ttl":"1s"}`))
		req.Header.Set("Authorization", "Bearer "+p.Token)
		req.Header.Set("Content-Type", "application/json")
		rec := httptest.NewRecorder()
		h := r.inst.Handlers["pull_api"]
		if h == nil {
			h = r.inst.Handlers["pull+admin"]
		}
		h.ServeHTTP(rec, req)
		var resp struct {
			Items []struct {
				Route string `json:"route"`
			} `json:"items"`
		}
		_ = json.Unmarshal(rec.Body.Bytes(), &resp)
		routes := map[string]bool{}
		for _, it := range resp.Items {
			routes[it.Route] = true
		}
		var rs []string
		for k := range routes {
			rs = append(rs, k)
		}
		sort.Strings(rs)
		return fmt.Sprintf("status=%d routes=%s", rec.Code, strings.Join(rs, ","))
	}
	return "?"
}

// staticAnswer measures the probe's answer on a fresh instance that runs text only.
func staticAnswer(scratch, text string, p ReloadProbe) (string, error) {
	r, err := bootReload(scratch, text)
	if err != nil {
		return "", err
	}
	defer r.close()
	r.seed(0)
	return r.answer(p), nil
}

// gated scheduler ---------------------------------------------------------

type proc struct {
	started bool
	done    chan struct{}
	arrive  chan string
	release chan struct{}
	fin     bool
	result  string
}

func who(label string) string {
	switch {
	case strings.HasPrefix(label, "ingress."), strings.HasPrefix(label, "pull."):
		return "p"
	case strings.HasPrefix(label, "reload."):
		return "r"
	}
	return ""
}

// RunInterleaving executes one interleaving (sequence of "p"/"r": which of probe and reload advances by one
// segment) on a fresh instance and returns the probe's answer, the segments each side actually had, and the
// answer of a second probe sent after everything finished.
func RunInterleaving(scratch string, pair ReloadPair, p ReloadProbe, order []string) (obs string, pseg, rseg int, settled string, reloadOK bool, err error) {
	r, err := bootReload(scratch, pair.Old)
	if err != nil {
		return "", 0, 0, "", false, err
	}
	defer r.close()
	r.seed(1)
	if err := os.WriteFile(r.cfgPath, []byte(pair.New), 0o600); err != nil {
		return "", 0, 0, "", false, err
	}
	procs := map[string]*proc{"p": {done: make(chan struct{}), arrive: make(chan string), release: make(chan struct{})},
		"r": {done: make(chan struct{}), arrive: make(chan string), release: make(chan struct{})}}
	verifhook.SetGate(func(label string) {
		w := who(label)
		if w == "" {
			return
		}
		pr := procs[w]
		pr.arrive <- label
		<-pr.release
	})
	defer verifhook.SetGate(nil)
	start := func(w string) {
		pr := procs[w]
		pr.started = true
		go func() {
			if w == "p" {
				pr.result = r.answer(p)
			} else {
				if r.inst.Reload("verif") {
					pr.result = "ok"
				} else {
					pr.result = "failed"
				}
			}
			close(pr.done)
		}()
	}
	wait := func(w string) {
		pr := procs[w]
		select {
		case <-pr.arrive:
		case <-pr.done:
			pr.fin = true
		case <-time.After(10 * time.Second):
			pr.fin = true
			pr.result = "TIMEOUT"
		}
	}
	segs := map[string]int{}
	step := func(w string) {
		pr := procs[w]
		if pr.fin {
			return
		}
		if !pr.started {
			start(w)
		} else {
			pr.release <- struct{}{}
		}
		segs[w]++
		wait(w)
	}
	for _, w := range order {
		step(w)
	}
	// run both to completion (reload first if it is still pending, then the probe)
	for _, w := range []string{"r", "p"} {
		for !procs[w].fin {
			step(w)
		}
	}
	verifhook.SetGate(nil)
	r.seed(2) // fresh ready messages in the routes as they are now
	if d := refillWait(p); d > 0 {
		time.Sleep(d) // the probe above may have used the new limiter's tokens: let it refill
	}
	settled = r.answer(p)
	return procs["p"].result, segs["p"], segs["r"], settled, procs["r"].result == "ok", nil
}

// refillWait: how long a stateful (several-request) probe has to wait until the limiter it exhausted is full again
// (rps 1; burst 1 for the two-request probes, at most burst 2 for the three-request ones).
func refillWait(p ReloadProbe) time.Duration {
	switch p.Kind {
	case "ingress2":
		return 1100 * time.Millisecond
	case "ingress3":
		return 2200 * time.Millisecond
	}
	return 0
}

// FailedReload runs a reload that must be refused and compares all probes before and after.
func FailedReload(scratch string, pair ReloadPair, class string) (map[string]any, error) {
	r, err := bootReload(scratch, pair.Old)
	if err != nil {
		return nil, err
	}
	defer r.close()
	r.seed(1)
	ans := func() string {
		var parts []string
		for _, p := range pair.Probes {
			if d := refillWait(p); d > 0 {
				time.Sleep(d) // let the token bucket of the previous round refill
			}
			r.seed(probeSerial + 1000)
			parts = append(parts, p.Name+":"+r.answer(p))
		}
		return strings.Join(parts, " | ")
	}
	oldAns := []string{}
	for _, p := range pair.Probes {
		a, err := staticAnswer(scratch, pair.Old, p)
		if err != nil {
			return nil, err
		}
		oldAns = append(oldAns, p.Name+":"+a)
	}
	before := ans()
	bad := pair.New
	switch class {
	case "unreadable":
		if err := os.Remove(r.cfgPath); err != nil {
			return nil, err
		}
		if err := os.Mkdir(r.cfgPath, 0o700); err != nil { // a directory cannot be read as a file
			return nil, err
		}
		bad = ""
	case "parse_error":
		bad = pair.New + "\n/broken {{{\n"
	case "compile_error":
		bad = pair.New + "\n" + route("/dup", "pull { path /pull/keep }") // duplicate pull path
	case "missing_secret":
		bad = pair.New + "\n" + route("/sec", "auth hmac env:VERIF_UNSET_SECRET_"+strconv.Itoa(os.Getpid()), "pull { path /pull/sec }")
	case "missing_secret_basic":
		bad = pair.New + "\n" + route("/sec", "auth basic \"u\" \"env:VERIF_UNSET_SECRET_"+strconv.Itoa(os.Getpid())+"\"", "pull { path /pull/sec }")
	case "missing_secret_pull_token":
		bad = pair.New + "\n" + route("/sec", "pull {\n    path /pull/sec\n    auth token env:VERIF_UNSET_SECRET_"+strconv.Itoa(os.Getpid())+"\n  }")
	case "missing_secret_admin_token":
		bad = strings.Replace(pair.New, "listen 127.0.0.3:0\n", "listen 127.0.0.3:0\n  auth token env:VERIF_UNSET_SECRET_"+strconv.Itoa(os.Getpid())+"\n", 1)
	case "missing_secret_ref":
		bad = pair.New + "\nsecrets {\n  secret \"S9\" {\n    value env:VERIF_UNSET_SECRET_" + strconv.Itoa(os.Getpid()) + "\n    valid_from \"2020-01-01T00:00:00Z\"\n  }\n}\n" + route("/sec", "auth hmac secret_ref \"S9\"", "pull { path /pull/sec }")
	case "restart_required":
		bad = strings.Replace(pair.New, "listen 127.0.0.1:0", "listen 127.0.0.5:0", 1)
	default:
		return nil, fmt.Errorf("unknown failure class %q", class)
	}
	if bad != "" {
		if err := os.WriteFile(r.cfgPath, []byte(bad), 0o600); err != nil {
			return nil, err
		}
	}
	ok := r.inst.Reload("verif")
	after := ans()
	return map[string]any{"ev": "FailedReload", "pair": pair.Name, "class": class, "ok": ok, "before": before, "after": after, "old": strings.Join(oldAns, " | ")}, nil
}

// ReloadPilot measures, for every probe of every pair, the pure-old and pure-new answers and the number of
// probe / reload segments (gate hits + 1) under the old configuration.
func ReloadPilot(w io.Writer, scratch string, rev bool) error {
	enc := json.NewEncoder(w)
	for _, pair := range ReloadPairs() {
		if !rev && strings.HasSuffix(pair.Name, "_rev") {
			continue
		}
		for _, p := range pair.Probes {
			oldA, err := staticAnswer(scratch, pair.Old, p)
			if err != nil {
				return err
			}
			newA, err := staticAnswer(scratch, pair.New, p)
			if err != nil {
				return err
			}
			_, pseg, rseg, _, ok, err := RunInterleaving(scratch, pair, p, []string{"p", "p", "p", "p", "p", "p", "p", "p", "p", "p", "p", "p", "r", "r", "r", "r"})
			if err != nil {
				return err
			}
			if err := enc.Encode(map[string]any{"pair": pair.Name, "probe": p.Name, "old": oldA, "new": newA, "pseg": pseg, "rseg": rseg, "reload_ok": ok}); err != nil {
				return err
			}
		}
	}
	return nil
}

// frozen settings -----------------------------------------------------------
//
// docs/configuration.md "Restart Required": a reload that touches one of these settings is refused as a whole.
// The oracle is the same differential one: whatever the reload answers, afterwards every probe must be served
// purely by the configuration the instance claims to run (old when refused, new when applied).

type sinkHit struct {
	Path   string
	Header http.Header
	Body   []byte
}

var (
	sinkOnce sync.Once
	sinkSrv  *httptest.Server
	sinkMu   sync.Mutex
	sinkHits = map[string]sinkHit{}
)

func sinkURL() string {
	sinkOnce.Do(func() {
		sinkSrv = httptest.NewServer(http.HandlerFunc(func(w http.ResponseWriter, r *http.Request) {
			b, _ := io.ReadAll(r.Body)
			sinkMu.Lock()
			sinkHits[string(b)] = sinkHit{Path: r.URL.Path, Header: r.Header.Clone(), Body: b}
			sinkMu.Unlock()
			w.WriteHeader(204)
		}))
	})
	return sinkSrv.URL
}

const frozenDefaults = `defaults {
  egress {
    https_only off
    dns_rebind_protection off
  }
}
`

func secretsBlock(until1, from2, val1 string) string {
	u := ""
	if until1 != "" {
		u = "\n    valid_until \"" + until1 + "\""
	}
	return "secrets {\n  secret \"S1\" {\n    value raw:" + val1 + "\n    valid_from \"2020-01-01T00:00:00Z\"" + u + "\n  }\n  secret \"S2\" {\n    value raw:k2\n    valid_from \"" + from2 + "\"\n  }\n}\n"
}

func pushRoute(urlPath string, lines ...string) string {
	return "/push {\n  queue { backend memory }\n  deliver \"SINK" + urlPath + "\" {\n    retry exponential max 3 base 1s cap 2s\n    timeout 2s\n    " + strings.Join(lines, "\n    ") + "\n  }\n}\n"
}

// FrozenPairs edit exactly one restart-required setting.
func FrozenPairs() []ReloadPair {
	keys := map[string]string{"S1": "k1", "S2": "k2", "S1b": "k3"}
	dl := []ReloadProbe{{Name: "deliver", Kind: "deliver", Method: "POST", Path: "/push", Keys: keys}}
	refs := []string{`sign hmac secret_ref "S1"`, `sign hmac secret_ref "S2"`}
	hdr := reloadHeader + frozenDefaults
	big := strings.Repeat("x", 200)
	withDefaults := func(line string) string { return reloadHeader + "defaults {\n  " + line + "\n}\n" }
	return []ReloadPair{
		{Name: "sign_valid_until_moved", Probes: dl,
			Old: hdr + secretsBlock("2021-06-01T00:00:00Z", "2021-01-01T00:00:00Z", "k1") + pushRoute("/hook/a", append(refs, "sign secret_selection oldest_valid")...),
			New: hdr + secretsBlock("2099-06-01T00:00:00Z", "2021-01-01T00:00:00Z", "k1") + pushRoute("/hook/a", append(refs, "sign secret_selection oldest_valid")...)},
		{Name: "sign_valid_until_removed", Probes: dl,
			Old: hdr + secretsBlock("2021-06-01T00:00:00Z", "2021-01-01T00:00:00Z", "k1") + pushRoute("/hook/a", append(refs, "sign secret_selection oldest_valid")...),
			New: hdr + secretsBlock("", "2021-01-01T00:00:00Z", "k1") + pushRoute("/hook/a", append(refs, "sign secret_selection oldest_valid")...)},
		{Name: "sign_valid_from_moved", Probes: dl,
			Old: hdr + secretsBlock("", "2021-01-01T00:00:00Z", "k1") + pushRoute("/hook/a", refs...),
			New: hdr + secretsBlock("", "2098-01-01T00:00:00Z", "k1") + pushRoute("/hook/a", refs...)},
		{Name: "sign_value_changed", Probes: dl,
			Old: hdr + secretsBlock("", "2021-01-01T00:00:00Z", "k1") + pushRoute("/hook/a", refs[0]),
			New: hdr + secretsBlock("", "2021-01-01T00:00:00Z", "k3") + pushRoute("/hook/a", refs[0])},
		{Name: "sign_selection_changed", Probes: dl,
			Old: hdr + secretsBlock("", "2021-01-01T00:00:00Z", "k1") + pushRoute("/hook/a", append(refs, "sign secret_selection newest_valid")...),
			New: hdr + secretsBlock("", "2021-01-01T00:00:00Z", "k1") + pushRoute("/hook/a", append(refs, "sign secret_selection oldest_valid")...)},
		{Name: "sign_header_renamed", Probes: dl,
			Old: hdr + pushRoute("/hook/a", "sign hmac raw:k1"),
			New: hdr + pushRoute("/hook/a", "sign hmac raw:k1", `sign signature_header "X-Sig-B"`)},
		{Name: "sign_inline_secret_changed", Probes: dl,
			Old: hdr + pushRoute("/hook/a", "sign hmac raw:k1"),
			New: hdr + pushRoute("/hook/a", "sign hmac raw:k2")},
		{Name: "sign_removed", Probes: dl,
			Old: hdr + pushRoute("/hook/a", "sign hmac raw:k1"),
			New: hdr + pushRoute("/hook/a")},
		{Name: "deliver_url_changed", Probes: dl,
			Old: hdr + pushRoute("/hook/a"),
			New: hdr + pushRoute("/hook/b")},
		{Name: "egress_deny_added", Probes: dl,
			Old: hdr + pushRoute("/hook/a"),
			New: reloadHeader + "defaults {\n  egress {\n    https_only off\n    dns_rebind_protection off\n    deny \"127.0.0.0/8\"\n  }\n}\n" + pushRoute("/hook/a")},
		{Name: "default_max_body_raised",
			Old:    withDefaults("max_body 64") + route("/a", "pull { path /pull/a }"),
			New:    withDefaults("max_body 4kb") + route("/a", "pull { path /pull/a }"),
			Probes: []ReloadProbe{{Name: "big", Kind: "ingress", Method: "POST", Path: "/a", Body: big}}},
		{Name: "max_batch_lowered",
			Old:    strings.Replace(reloadHeader, "auth token raw:tok-global\n", "auth token raw:tok-global\n  max_batch 4\n", 1) + route("/a", "pull { path /pull/a }"),
			New:    strings.Replace(reloadHeader, "auth token raw:tok-global\n", "auth token raw:tok-global\n  max_batch 2\n", 1) + route("/a", "pull { path /pull/a }"),
			Probes: []ReloadProbe{{Name: "batch4", Kind: "pulln", Path: "/pull/a/dequeue", Token: "tok-global"}}},
		{Name: "max_depth_raised",
			Old:    reloadHeader + "queue_limits {\n  max_depth 1\n}\n" + route("/a", "pull { path /pull/a }"),
			New:    reloadHeader + "queue_limits {\n  max_depth 100\n}\n" + route("/a", "pull { path /pull/a }"),
			Probes: []ReloadProbe{{Name: "post", Kind: "ingress", Method: "POST", Path: "/a", Body: "{}"}}},
	}
}

// deliverAnswer sends one message into the push route and reports how it arrived at the sink.
func (r *reloadInst) deliverAnswer(p ReloadProbe) string {
	tok := fmt.Sprintf("tok-%d-%d", os.Getpid(), probeSerial)
	req := httptest.NewRequest(p.Method, p.Path, strings.NewReader(tok))
	req.RemoteAddr = "192.0.2.10:4000"
	rec := httptest.NewRecorder()
	r.inst.Handlers["ingress"].ServeHTTP(rec, req)
	if rec.Code != 202 {
		return fmt.Sprintf("status=%d", rec.Code)
	}
	deadline := time.Now().Add(6 * time.Second) // "undelivered" is an answer only after a generous wait (busy machines)
	for time.Now().Before(deadline) {
		sinkMu.Lock()
		h, ok := sinkHits[tok]
		sinkMu.Unlock()
		if ok {
			var custom []string
			var ts string
			for k, v := range h.Header {
				if strings.HasPrefix(k, "X-") && len(v) > 0 {
					if strings.Contains(strings.ToLower(k), "timestamp") {
						ts = v[0]
					}
					if strings.Contains(strings.ToLower(k), "sig") || strings.Contains(strings.ToLower(k), "timestamp") {
						custom = append(custom, k)
					}
				}
			}
			sort.Strings(custom)
			by := "none"
			sum := sha256.Sum256(h.Body)
			var names []string
			for name := range p.Keys {
				names = append(names, name)
			}
			sort.Strings(names)
			for _, name := range names {
				mac := hmac.New(sha256.New, []byte(p.Keys[name]))
				mac.Write([]byte(fmt.Sprintf("POST\n%s\n%s\n%s", h.Path, ts, hex.EncodeToString(sum[:]))))
				want := hex.EncodeToString(mac.Sum(nil))
				for _, v := range h.Header {
					if len(v) > 0 && strings.Contains(v[0], want) {
						by = name
					}
				}
			}
			return fmt.Sprintf("delivered path=%s headers=%s signed_by=%s", h.Path, strings.Join(custom, ","), by)
		}
		time.Sleep(20 * time.Millisecond)
	}
	return "undelivered"
}

// FrozenReload reloads from Old to New and compares every probe before and after with the measured answers.
func FrozenReload(scratch string, pair ReloadPair) (map[string]any, error) {
	all := func(f func(p ReloadProbe) (string, error)) (string, error) {
		var parts []string
		for _, p := range pair.Probes {
			a, err := f(p)
			if err != nil {
				return "", err
			}
			parts = append(parts, p.Name+":"+a)
		}
		return strings.Join(parts, " | "), nil
	}
	oldA, err := all(func(p ReloadProbe) (string, error) { return staticAnswer(scratch, pair.Old, p) })
	if err != nil {
		return nil, err
	}
	newA, err := all(func(p ReloadProbe) (string, error) { return staticAnswer(scratch, pair.New, p) })
	if err != nil {
		return nil, err
	}
	r, err := bootReload(scratch, pair.Old)
	if err != nil {
		return nil, err
	}
	defer r.close()
	r.seed(0)
	before, _ := all(func(p ReloadProbe) (string, error) { return r.answer(p), nil })
	if err := os.WriteFile(r.cfgPath, []byte(strings.ReplaceAll(pair.New, "SINK", sinkURL())), 0o600); err != nil {
		return nil, err
	}
	ok := r.inst.Reload("verif")
	r.seed(1)
	after, _ := all(func(p ReloadProbe) (string, error) { return r.answer(p), nil })
	return map[string]any{"ev": "FrozenReload", "pair": pair.Name, "ok": ok, "before": before, "after": after, "old": oldA, "new": newA}, nil
}
