package cfglang

import (
	"fmt"
	"math/rand"
	"sort"
	"strings"
)

// node is one directive (leaf) or block of the concrete syntax tree being rendered.
type node struct {
	toks    []string
	block   bool
	kids    []*node
	after   *node // must appear after this sibling
	noShuf  bool  // keep the order of kids
	valLast bool  // the last header token is a value (keep a blank before '{')
	top     string
}

type itemKey struct {
	r int
	f string
	i int
}

// Renderer turns one abstract program into text.
type Renderer struct {
	T        *Table
	P        Program
	rng      *rand.Rand
	items    map[itemKey]*Item
	kidsOf   map[itemKey][]*Item
	usedVars map[string]string
	alts     map[*Item]int
	nmItem   *Item  // near-miss: the extra instance
	nmPos    string // "before" | "after" the instance it repeats
	nmDone   bool
	kidsOver map[*Item][]*Item // children of synthetic items
	Emitted  int
	cmt      struct{ pre, between, inblock, eol, trail bool }
	preN     int
	st       style
	cmtCount int
}

type style struct {
	indent, sep, nl       string
	oneLine, tight        bool
	blank                 int // 1 in n chance of an extra blank line
	finalNL, bom, oneFile bool
}

var valueBlocks = map[string]bool{"r.auth_forward": true, "r.deliver": true, "secrets.secret": true}

func (t *Table) usesV(f, sp string) bool {
	ft := t.ByID[f]
	return ft.Kind != "none" && (!has(ft.Blk, sp) || valueBlocks[f])
}

// Render renders program p with the given seed; variant selects the layout family.
func Render(t *Table, p Program, seed int64, variant int) (text string, emitted int, err error) {
	defer func() {
		if r := recover(); r != nil {
			err = fmt.Errorf("render: %v", r)
		}
	}()
	rd := &Renderer{T: t, P: p, rng: rand.New(rand.NewSource(seed*1000003 + int64(variant)*7919 + 17)),
		items: map[itemKey]*Item{}, kidsOf: map[itemKey][]*Item{}, usedVars: map[string]string{}, alts: map[*Item]int{}}
	for k := range p.Items {
		it := &p.Items[k]
		ft := t.ByID[it.F]
		if ft == nil {
			return "", 0, fmt.Errorf("unknown feature %q", it.F)
		}
		key := itemKey{it.R, it.F, it.I}
		if rd.items[key] != nil {
			return "", 0, fmt.Errorf("duplicate slot %v", key)
		}
		rd.items[key] = it
	}
	for k := range p.Items {
		it := &p.Items[k]
		ft := t.ByID[it.F]
		pi := 1
		if ft.Par != "top" && ft.Par != "route" && t.IdxRoot(ft.Par) != "" {
			pi = it.I
		}
		pk := itemKey{it.R, ft.Par, pi}
		if ft.Par == "top" || ft.Par == "route" {
			pk = itemKey{it.R, ft.Par, 1}
		} else if rd.items[pk] == nil {
			return "", 0, fmt.Errorf("item %v has no parent %v", *it, pk)
		}
		rd.kidsOf[pk] = append(rd.kidsOf[pk], it)
	}
	if len(p.Nm) > 1 {
		return "", 0, fmt.Errorf("more than one near-miss instance")
	}
	rd.kidsOver = map[*Item][]*Item{}
	if len(p.Nm) == 1 {
		x := p.Nm[0]
		if t.ByID[x.F] == nil {
			return "", 0, fmt.Errorf("unknown near-miss feature %q", x.F)
		}
		rd.nmItem = &Item{R: x.R, F: x.F, I: x.I, Sp: x.Sp, V: x.V, V2: x.V2, N: x.N}
		rd.nmPos = x.Pos
		rd.kidsOver[rd.nmItem] = []*Item{}
		if x.Kf != "-" && x.Kf != "" {
			if t.ByID[x.Kf] == nil || t.ByID[x.Kf].Par != x.F {
				return "", 0, fmt.Errorf("near-miss child %q is no child of %q", x.Kf, x.F)
			}
			ki := 1
			if t.IdxRoot(x.Kf) != "" {
				ki = x.I
			}
			rd.kidsOver[rd.nmItem] = []*Item{{R: x.R, F: x.Kf, I: ki, Sp: "-", V: x.Kv, V2: "-", N: 1}}
		}
	}
	rd.pickStyle(variant)
	units := rd.topUnits()
	if rd.nmItem != nil && !rd.nmDone {
		return "", 0, fmt.Errorf("near-miss instance %v was not placed", p.Nm[0])
	}
	var b strings.Builder
	rd.printFile(&b, units)
	text = b.String()
	if rd.st.oneFile && p.Cm == "none" {
		// newlines are plain whitespace for the lexer (quoted values never contain a raw newline here)
		text = strings.ReplaceAll(text, "\n", " ")
	}
	if rd.st.nl != "\n" {
		text = strings.ReplaceAll(text, "\n", rd.st.nl)
	}
	if rd.st.bom {
		text = "\xEF\xBB\xBF" + text
	}
	return text, rd.Emitted, nil
}

func (rd *Renderer) pickStyle(variant int) {
	r := rd.rng
	st := style{indent: "  ", sep: " ", nl: "\n", finalNL: true}
	switch variant % 4 {
	case 0: // conventional layout
	case 1: // compact
		st.oneLine = true
		st.tight = r.Intn(2) == 0
		st.indent = []string{"", " ", "\t"}[r.Intn(3)]
		st.finalNL = r.Intn(2) == 0
		st.oneFile = r.Intn(3) == 0
	case 2: // noisy whitespace
		st.indent = []string{"\t", "    ", "   \t"}[r.Intn(3)]
		st.sep = []string{"  ", "\t", " \t "}[r.Intn(3)]
		st.blank = 3
		st.nl = []string{"\n", "\r\n", "\r"}[r.Intn(3)]
		st.bom = r.Intn(4) == 0
	default: // random mixture
		st.oneLine = r.Intn(2) == 0
		st.tight = r.Intn(3) == 0
		st.indent = []string{"  ", "\t", "", "      "}[r.Intn(4)]
		st.sep = []string{" ", "  ", "\t"}[r.Intn(3)]
		st.blank = 2 + r.Intn(4)
		st.finalNL = r.Intn(3) != 0
		if r.Intn(3) == 0 {
			st.nl = "\r\n"
		}
	}
	rd.st = st
	c := rd.P.Cm
	rd.cmt.pre = c == "pre" || c == "pre2" || c == "all"
	rd.preN = 1
	if c == "pre2" || c == "all" {
		rd.preN = 2 + r.Intn(2)
	}
	rd.cmt.between = c == "between" || c == "all"
	rd.cmt.inblock = c == "inblock" || c == "all"
	rd.cmt.eol = c == "eol" || c == "all"
	rd.cmt.trail = c == "trail" || c == "all"
}

var commentTexts = []string{"# note", "#", "#no-space", "# braces { } and \"quotes\"", "# trailing blanks   ", "#\ttab", "## double", "# ünïcode ✓", "# path /x { pull { path /y } }", "#!hookaido"}

func (rd *Renderer) comment() string {
	rd.cmtCount++
	return commentTexts[rd.rng.Intn(len(commentTexts))]
}

// ---------------------------------------------------------------- values

func (rd *Renderer) siblingKw(f string) string {
	ft := rd.T.ByID[f]
	sibs := rd.T.Kids[ft.Par]
	for k := len(sibs) - 1; k >= 0; k-- {
		if sibs[k] == f {
			continue
		}
		kw := Keyword(sibs[k])
		if len(kw) == 0 || kw[0] == "secret_ref" {
			continue
		}
		return kw[0]
	}
	if kw := Keyword(f); len(kw) > 0 {
		return kw[0]
	}
	return "vars"
}

func (rd *Renderer) val(it *Item, pos int, vc string) string {
	ft := rd.T.ByID[it.F]
	kind := ft.Kind
	if k2 := pairKind2[it.F]; k2 != "" && pos%2 == 1 {
		kind = k2
	}
	return rd.valKind(it, pos, vc, kind)
}

func (rd *Renderer) valKind(it *Item, pos int, vc, kind string) string {
	if vc == "-" || vc == "" {
		panic(fmt.Sprintf("item %v: value class missing for position %d", *it, pos))
	}
	alt, ok := rd.alts[it]
	if !ok {
		// placeholders resolve to the primary value of their position: keep the whole directive on it
		if !resolved(it.V) && !resolved(it.V2) {
			if kind == "bool" {
				alt = rd.rng.Intn(6) // on / off / true / false / 1 / 0 alike: dropping a default-valued line would not show
			} else if rd.rng.Intn(3) == 0 {
				alt = rd.rng.Intn(4)
			}
		}
		rd.alts[it] = alt
	}
	s, err := spell(valueCtx{f: it.F, kind: kind, r: it.R, i: it.I, pos: pos, alt: alt}, vc, rd.rng, rd.siblingKw(it.F), rd.usedVars)
	if err != nil {
		panic(err)
	}
	return s
}

func resolved(vc string) bool { return strings.HasPrefix(vc, "ph_") || vc == "vars" }

func cat(a []string, b ...string) []string {
	out := make([]string, 0, len(a)+len(b))
	out = append(out, a...)
	return append(out, b...)
}

// ---------------------------------------------------------------- items -> nodes

func (rd *Renderer) children(it *Item) []*Item {
	if ov, ok := rd.kidsOver[it]; ok {
		return ov
	}
	return rd.kidsOf[itemKey{it.R, it.F, it.I}]
}

// nodesNM renders item it and, when the near-miss instance repeats its slot, that instance next to it
// (ordered before / after it by the `after` links, which shuffling respects).
func (rd *Renderer) nodesNM(it *Item) []*node {
	nodes := rd.itemNodes(it)
	x := rd.nmItem
	if x == nil || rd.nmDone || it == x || x.R != it.R || x.F != it.F || x.I != it.I {
		return nodes
	}
	rd.nmDone = true
	extra := rd.itemNodes(x)
	if len(nodes) > 0 && len(extra) > 0 {
		if rd.nmPos == "after" {
			for _, e := range extra {
				if e.after == nil {
					e.after = nodes[len(nodes)-1]
				}
			}
		} else {
			for _, n := range nodes {
				if n.after == nil {
					n.after = extra[len(extra)-1]
				}
			}
		}
	}
	if rd.nmPos == "after" {
		return append(nodes, extra...)
	}
	return append(extra, nodes...)
}

// orphanNM renders the near-miss instance inside its parent (r, par, pi) when the program has no item in
// its own slot (it is the exclusive alternative of a sibling).
func (rd *Renderer) orphanNM(r int, par string, pi int, sibs []*node) []*node {
	x := rd.nmItem
	if x == nil || rd.nmDone || x.R != r || rd.T.ByID[x.F].Par != par {
		return nil
	}
	xi := 1
	if par != "top" && par != "route" && rd.T.IdxRoot(par) != "" {
		xi = x.I
	}
	if xi != pi || rd.items[itemKey{x.R, x.F, x.I}] != nil {
		return nil
	}
	rd.nmDone = true
	extra := rd.itemNodes(x)
	if len(sibs) > 0 && len(extra) > 0 {
		if rd.nmPos == "after" {
			for _, e := range extra {
				if e.after == nil {
					e.after = sibs[len(sibs)-1]
				}
			}
		} else {
			for _, n := range sibs {
				if n.after == nil {
					n.after = extra[len(extra)-1]
				}
			}
		}
	}
	return extra
}

func (rd *Renderer) kidNodes(it *Item) []*node {
	var out []*node
	for _, c := range rd.children(it) {
		out = append(out, rd.nodesNM(c)...)
	}
	if _, synthetic := rd.kidsOver[it]; !synthetic {
		out = append(out, rd.orphanNM(it.R, it.F, it.I, out)...)
	}
	return out
}

func (rd *Renderer) itemNodes(it *Item) []*node {
	rd.Emitted++
	ft := rd.T.ByID[it.F]
	kw := Keyword(it.F)
	switch {
	case it.F == "r.auth_hmac":
		return rd.hmacNodes(it)
	case it.F == "r.auth_hmac.secret" || it.F == "r.auth_hmac.secret_ref":
		panic("hmac secret outside auth_hmac")
	case it.F == "r.publish" && it.Sp == "dot":
		var out []*node
		for _, c := range rd.children(it) {
			rd.Emitted++
			name := Keyword(c.F)[0]
			out = append(out, &node{toks: []string{"publish." + name, rd.val(c, 0, c.V)}})
			if x := rd.nmItem; x != nil && !rd.nmDone && x != c && x.R == c.R && x.F == c.F { // the dotted directive twice
				rd.nmDone = true
				rd.Emitted++
				out = append(out, &node{toks: []string{"publish." + name, rd.val(x, 0, x.V)}})
			}
		}
		return out
	case it.F == "r.publish_mix":
		n1 := &node{toks: []string{"publish"}, block: true, kids: []*node{{toks: []string{"direct", rd.val(it, 0, it.V)}}}}
		n2 := &node{toks: []string{"publish.managed", rd.val(it, 1, it.V2)}, after: n1}
		return []*node{n1, n2}
	case it.F == "r.match_ref":
		if it.Sp == "line" || it.N == 1 {
			toks := []string{"match"}
			for k := 0; k < it.N; k++ {
				toks = append(toks, "@"+plain(valueCtx{f: it.F, kind: "mref", pos: k}, 0))
			}
			return []*node{{toks: toks}}
		}
		var out []*node
		for k := 0; k < it.N; k++ {
			out = append(out, &node{toks: []string{"match", "@" + plain(valueCtx{f: it.F, kind: "mref", pos: k}, 0)}})
		}
		return out
	case it.F == "matcher":
		return []*node{{toks: []string{fmt.Sprintf("@m%d", it.I)}, block: true, kids: rd.kidNodes(it)}}
	case it.F == "vars.item":
		return []*node{{toks: []string{rd.val(it, 0, it.V), rd.val(it, 1, it.V2)}}}
	case ft.Kind == "retrytype":
		toks := cat(kw, rd.val(it, 0, it.V))
		opts := []byte(strings.TrimPrefix(it.Sp, "t"))
		rd.rng.Shuffle(len(opts), func(a, b int) { opts[a], opts[b] = opts[b], opts[a] })
		for _, o := range opts {
			name, kind, pos := "max", "rmax", 1
			switch o {
			case 'b':
				name, kind, pos = "base", "rbase", 2
			case 'c':
				name, kind, pos = "cap", "rcap", 3
			case 'j':
				name, kind, pos = "jitter", "rjit", 4
			}
			toks = append(toks, name, rd.valKind(it, pos, it.V2, kind))
		}
		return []*node{{toks: toks}}
	}
	// generic shapes
	if has(ft.Blk, it.Sp) { // block (possibly with a value before the brace)
		toks := cat(kw)
		valLast := false
		if rd.T.usesV(it.F, it.Sp) {
			toks = append(toks, rd.val(it, 0, it.V))
			valLast = true
		}
		return []*node{{toks: toks, block: true, kids: rd.kidNodes(it), valLast: valLast}}
	}
	if len(rd.children(it)) > 0 {
		panic(fmt.Sprintf("item %v spelled %q cannot carry children", *it, it.Sp))
	}
	if ft.Pair {
		pair := func(k int) []string {
			if k == 0 {
				return []string{rd.val(it, 0, it.V), rd.val(it, 1, it.V2)}
			}
			return []string{rd.val(it, 2*k, "bare"), rd.val(it, 2*k+1, it.V2)}
		}
		if it.Sp == "rep" {
			var out []*node
			for k := 0; k < it.N; k++ {
				out = append(out, &node{toks: cat(kw, pair(k)...)})
			}
			return out
		}
		toks := cat(kw)
		for k := 0; k < it.N; k++ {
			toks = append(toks, pair(k)...)
		}
		return []*node{{toks: toks}}
	}
	vc := func(k int) string {
		if k == 0 {
			return it.V
		}
		return it.V2
	}
	if it.Sp == "rep" {
		var out []*node
		for k := 0; k < it.N; k++ {
			out = append(out, &node{toks: cat(kw, rd.val(it, k, vc(k)))})
		}
		return out
	}
	toks := cat(kw)
	for k := 0; k < it.N; k++ {
		toks = append(toks, rd.val(it, k, vc(k)))
	}
	return []*node{{toks: toks}}
}

// auth hmac in its four spellings
func (rd *Renderer) hmacNodes(it *Item) []*node {
	type entry struct {
		ref bool
		tok string
		src *Item
	}
	var entries []entry
	var opts []*node
	for _, c := range rd.children(it) {
		switch c.F {
		case "r.auth_hmac.secret", "r.auth_hmac.secret_ref":
			rd.Emitted++
			for k := 0; k < c.N; k++ {
				vc := c.V
				if k > 0 {
					vc = c.V2
				}
				entries = append(entries, entry{ref: c.F == "r.auth_hmac.secret_ref", tok: rd.val(c, k, vc), src: c})
			}
		default:
			opts = append(opts, rd.nodesNM(c)...)
		}
	}
	if _, synthetic := rd.kidsOver[it]; !synthetic {
		opts = append(opts, rd.orphanNM(it.R, it.F, it.I, opts)...)
	}
	inline := func(e entry) *node {
		if e.ref {
			return &node{toks: []string{"auth", "hmac", "secret_ref", e.tok}}
		}
		return &node{toks: []string{"auth", "hmac", e.tok}}
	}
	// directives inside the block for a run of entries of one source item
	inBlock := func(es []entry) []*node {
		var out []*node
		for k := 0; k < len(es); {
			j := k
			for j < len(es) && es[j].src == es[k].src {
				j++
			}
			name := "secret"
			if es[k].ref {
				name = "secret_ref"
			}
			if es[k].src.Sp == "line" {
				toks := []string{name}
				for _, e := range es[k:j] {
					toks = append(toks, e.tok)
				}
				out = append(out, &node{toks: toks})
			} else {
				for _, e := range es[k:j] {
					out = append(out, &node{toks: []string{name, e.tok}})
				}
			}
			k = j
		}
		return out
	}
	switch it.Sp {
	case "inline":
		if len(opts) > 0 {
			panic("auth hmac inline with options")
		}
		var out []*node
		for _, e := range entries {
			out = append(out, inline(e))
		}
		return out
	case "inline_blk":
		if len(entries) == 0 {
			panic("auth hmac inline_blk without secret")
		}
		h := inline(entries[0])
		h.block = true
		h.valLast = true
		h.kids = append(inBlock(entries[1:]), opts...)
		return []*node{h}
	case "mixed":
		var out []*node
		for _, e := range entries {
			out = append(out, inline(e))
		}
		return append(out, &node{toks: []string{"auth", "hmac"}, block: true, kids: opts})
	default:
		return []*node{{toks: []string{"auth", "hmac"}, block: true, kids: append(inBlock(entries), opts...)}}
	}
}

// ---------------------------------------------------------------- file structure

func (rd *Renderer) routePath(rt Route) string {
	base := "/hooks/" + rt.Path
	switch rt.Pq {
	case "bare":
		return base
	case "quoted":
		return `"` + base + `"`
	case "qspace":
		return `"` + base + ` x"`
	case "qph":
		setEnv("HKV_ROUTE_"+strings.ToUpper(rt.Path), base)
		return `"{$HKV_ROUTE_` + strings.ToUpper(rt.Path) + `}"`
	case "qhash":
		return `"` + base + `#frag"`
	case "qesc":
		return `"` + base + `\"q\\"`
	case "qctrl":
		sp := []string{"\u00a0", "\u200b", "\ufeff", "\u2028", "\u00ad", "\x1b", "\a", "\x7f"}
		return `"` + base + sp[rd.rng.Intn(len(sp))] + "z" + sp[rd.rng.Intn(len(sp))] + `"`
	case "qbad":
		if rd.rng.Intn(3) == 0 {
			return `""`
		}
		return `"hooks/` + rt.Path + `"`
	}
	panic("unknown path spelling " + rt.Pq)
}

func (rd *Renderer) routeNode(k int) *node {
	rt := rd.P.Routes[k]
	var kids []*node
	for _, it := range rd.kidsOf[itemKey{k + 1, "route", 1}] {
		kids = append(kids, rd.nodesNM(it)...)
	}
	kids = append(kids, rd.orphanNM(k+1, "route", 1, kids)...)
	return &node{toks: []string{rd.routePath(rt)}, block: true, kids: kids, valLast: true}
}

var canonOrder = []string{"ingress", "pull_api", "admin_api", "observability", "queue_retention", "delivered_retention",
	"dlq_retention", "queue_limits", "defaults", "vars", "secrets", "matcher"}

func (rd *Renderer) topUnits() []*node {
	// routes, grouped into channel wrappers
	var routeUnits []*node
	for k := 0; k < len(rd.P.Routes); k++ {
		rt := rd.P.Routes[k]
		n := rd.routeNode(k)
		switch rt.Form {
		case "bare":
			n.top = "route"
			routeUnits = append(routeUnits, n)
		case "single":
			n.toks = cat([]string{rt.Ch}, n.toks...)
			n.top = "route"
			routeUnits = append(routeUnits, n)
		case "wrapper":
			routeUnits = append(routeUnits, &node{toks: []string{rt.Ch}, block: true, kids: []*node{n}, noShuf: true, top: "route"})
		case "wrapjoin":
			if len(routeUnits) == 0 || !routeUnits[len(routeUnits)-1].noShuf {
				panic("wrapjoin without wrapper")
			}
			w := routeUnits[len(routeUnits)-1]
			w.kids = append(w.kids, n)
		default:
			panic("unknown route form " + rt.Form)
		}
	}
	// top-level blocks except vars (rendered last: it binds every {vars.NAME} used)
	var blocks []*node
	var varsItem *Item
	tops := rd.kidsOf[itemKey{0, "top", 1}]
	sort.SliceStable(tops, func(a, b int) bool {
		if rd.T.Pos[tops[a].F] != rd.T.Pos[tops[b].F] {
			return rd.T.Pos[tops[a].F] < rd.T.Pos[tops[b].F]
		}
		return tops[a].I < tops[b].I
	})
	varsAt := -1
	for _, it := range tops {
		if it.F == "vars" {
			varsItem = it
			varsAt = len(blocks)
			blocks = append(blocks, nil)
			continue
		}
		for _, n := range rd.nodesNM(it) {
			n.top = it.F
			blocks = append(blocks, n)
		}
	}
	for _, n := range rd.orphanNM(0, "top", 1, nil) {
		n.top = "nm"
		blocks = append(blocks, n)
	}
	if varsItem != nil {
		rd.Emitted++
		vn := &node{toks: []string{"vars"}, block: true, top: "vars"}
		vn.kids = rd.kidNodes(varsItem)
		names := make([]string, 0, len(rd.usedVars))
		for name := range rd.usedVars {
			names = append(names, name)
		}
		sort.Strings(names)
		for _, name := range names {
			v := rd.usedVars[name]
			if rd.rng.Intn(2) == 0 {
				v = `"` + v + `"`
			}
			vn.kids = append(vn.kids, &node{toks: []string{name, v}})
		}
		blocks[varsAt] = vn
		if x := rd.nmItem; x != nil && !rd.nmDone && x.F == "vars" { // a second vars block
			rd.nmDone = true
			extra := rd.itemNodes(x)
			for _, e := range extra {
				e.top = "vars"
				if rd.nmPos == "after" {
					e.after = vn
				} else {
					vn.after = e
				}
			}
			rest := append([]*node{}, blocks[varsAt+1:]...)
			blocks = append(append(blocks[:varsAt+1], extra...), rest...)
		}
	}
	var units []*node
	switch rd.P.Order {
	case "canon":
		units = append(blocks, routeUnits...)
	case "reverse":
		for k := len(blocks) - 1; k >= 0; k-- {
			units = append(units, blocks[k])
		}
		units = append(routeUnits, units...)
	case "routes_first":
		units = append(append(units, routeUnits...), blocks...)
	case "interleave":
		a, b := 0, 0
		for a < len(blocks) || b < len(routeUnits) {
			if b < len(routeUnits) {
				units = append(units, routeUnits[b])
				b++
			}
			if a < len(blocks) {
				units = append(units, blocks[a])
				a++
			}
		}
	case "shuffle":
		// random merge keeping the relative order of the routes
		rd.rng.Shuffle(len(blocks), func(x, y int) { blocks[x], blocks[y] = blocks[y], blocks[x] })
		a, b := 0, 0
		for a < len(blocks) || b < len(routeUnits) {
			if b < len(routeUnits) && (a >= len(blocks) || rd.rng.Intn(2) == 0) {
				units = append(units, routeUnits[b])
				b++
			} else {
				units = append(units, blocks[a])
				a++
			}
		}
	default:
		panic("unknown order " + rd.P.Order)
	}
	rd.fixOrder(units)
	return units
}

// ---------------------------------------------------------------- printing

func (rd *Renderer) shuffle(n *node) {
	if n.noShuf || len(n.kids) < 2 {
		return
	}
	rd.rng.Shuffle(len(n.kids), func(a, b int) { n.kids[a], n.kids[b] = n.kids[b], n.kids[a] })
	rd.fixOrder(n.kids)
}

// fixOrder re-establishes the `after` links in list.
func (rd *Renderer) fixOrder(list []*node) {
	for pass := 0; pass < len(list); pass++ {
		for k, c := range list {
			if c.after == nil {
				continue
			}
			for j := k + 1; j < len(list); j++ {
				if list[j] == c.after {
					list[k], list[j] = list[j], list[k]
				}
			}
		}
	}
}

func (rd *Renderer) printFile(b *strings.Builder, units []*node) {
	if rd.cmt.pre {
		for k := 0; k < rd.preN; k++ {
			b.WriteString(rd.comment())
			b.WriteString("\n")
			if rd.rng.Intn(3) == 0 {
				b.WriteString("\n")
			}
		}
	}
	first := true
	for _, u := range units {
		if !first {
			if rd.cmt.between && (rd.cmtCount == 0 || rd.rng.Intn(2) == 0 || rd.P.Cm == "between") {
				b.WriteString(rd.comment() + "\n")
			}
			if !rd.st.oneLine || rd.rng.Intn(2) == 0 {
				b.WriteString("\n")
			}
		}
		first = false
		rd.printNode(b, u, 0)
	}
	if rd.cmt.trail {
		b.WriteString(rd.comment() + "\n")
	}
	if !rd.st.finalNL && !rd.cmt.trail {
		s := strings.TrimRight(b.String(), "\n")
		b.Reset()
		b.WriteString(s)
	}
}

func (rd *Renderer) hasBlockKid(n *node) bool {
	for _, c := range n.kids {
		if c.block {
			return true
		}
	}
	return false
}

func (rd *Renderer) printNode(b *strings.Builder, n *node, depth int) {
	ind := strings.Repeat(rd.st.indent, depth)
	head := strings.Join(n.toks, rd.st.sep)
	if !n.block {
		b.WriteString(ind + head)
		if rd.cmt.eol && rd.rng.Intn(2) == 0 {
			b.WriteString(rd.st.sep + rd.comment())
		}
		b.WriteString("\n")
		return
	}
	rd.shuffle(n)
	open := " {"
	if rd.st.tight && !n.valLast {
		open = "{"
	}
	wantCmt := (rd.cmt.inblock || rd.cmt.eol || (rd.cmt.between && n.noShuf))
	if rd.st.oneLine && !wantCmt && !rd.hasBlockKid(n) && rd.rng.Intn(4) != 0 {
		b.WriteString(ind + head + open)
		for _, c := range n.kids {
			b.WriteString(" " + strings.Join(c.toks, rd.st.sep))
		}
		if rd.st.tight && len(n.kids) > 0 {
			b.WriteString("}\n")
		} else {
			b.WriteString(" }\n")
		}
		return
	}
	b.WriteString(ind + head + open)
	if rd.cmt.eol && rd.rng.Intn(3) == 0 {
		b.WriteString(" " + rd.comment())
	}
	b.WriteString("\n")
	kind := ind + rd.st.indent
	for k, c := range n.kids {
		if rd.cmt.inblock && (rd.cmtCount == 0 || rd.rng.Intn(3) == 0) {
			b.WriteString(kind + rd.comment() + "\n")
		}
		if n.noShuf && k > 0 && rd.cmt.between && rd.rng.Intn(2) == 0 {
			b.WriteString(kind + rd.comment() + "\n")
		}
		if rd.st.blank > 0 && rd.rng.Intn(rd.st.blank) == 0 {
			b.WriteString("\n")
		}
		rd.printNode(b, c, depth+1)
	}
	if rd.cmt.inblock && (rd.cmtCount == 0 || rd.rng.Intn(4) == 0) {
		b.WriteString(kind + rd.comment() + "\n")
	}
	b.WriteString(ind + "}")
	if rd.cmt.eol && rd.rng.Intn(3) == 0 {
		b.WriteString(" " + rd.comment())
	}
	b.WriteString("\n")
}
