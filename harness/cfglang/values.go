package cfglang

import (
	"fmt"
	"math/rand"
	"os"
	"strings"
	"sync"
)

// plain (lexically bare-safe, semantically valid) values per value kind; alternative k is
// used for value position k of a multi-value directive, so positions stay distinct.
var kindPlain = map[string][]string{
	"addr":        {"127.0.0.1:18080", ":18081"},
	"prefix":      {"/api", "/v2/api"},
	"file":        {"/etc/hookaido/tls/a.pem", "/etc/hookaido/tls/b.pem"},
	"clientauth":  {"request", "none"},
	"num":         {"50", "2.5"},
	"int":         {"7", "12"},
	"int0":        {"100", "0"},
	"dur":         {"5s", "2m"},
	"dur0":        {"30s", "off", "7d", "0"},
	"size":        {"64kb", "2mb"},
	"size0":       {"64kb", "off"},
	"bool":        {"on", "off", "true", "false", "1", "0"},
	"logout":      {"stdout", "stderr"},
	"logfmt":      {"json"},
	"loglevel":    {"debug", "info", "warn", "error", "off"},
	"url":         {"https://example.org/hook", "http://example.net:8080/in?x=1"},
	"path":        {"/v1/traces", "/otlp"},
	"compression": {"gzip", "none"},
	"droppolicy":  {"drop_oldest", "reject"},
	"hostrule":    {"*.example.com", "10.0.0.0/8", "example.org", "192.0.2.7"},
	"str":         {"alpha", "beta-2"},
	"label":       {"app-1", "app-2"},
	"hname":       {"X-Custom-Id", "X-Other-Id"},
	"method":      {"POST", "get", "PUT"},
	"host":        {"hooks.example.com", "*.example.org", "Example.NET:8443"},
	"ip":          {"203.0.113.0/24", "10.1.2.3", "2001:db8::/32"},
	"tokref":      {"env:HKV_TOKEN_A", "raw:tok-2", "file:/run/secrets/t3"},
	"backend":     {"sqlite", "memory"},
	"selection":   {"oldest_valid", "newest_valid"},
	"retrytype":   {"exponential"},
	"ts":          {"2026-01-01T00:00:00Z", "2026-02-01T00:00:00+02:00"},
	"ts2":         {"2027-01-01T00:00:00Z", "2027-06-01T12:00:00.5Z"},
	// second values of pairs / retry options
	"hval":   {"v1", "v2"},
	"qval":   {"q1", "q2"},
	"pass":   {"pw-1", "pw-2"},
	"varval": {"val1", "val2"},
	"rmax":   {"5", "3"},
	"rbase":  {"1s", "500ms"},
	"rcap":   {"30s", "1m"},
	"rjit":   {"0.3", "0"},
}

// semantically wrong but lexically plain values
var kindBad = map[string]string{
	"addr": "nowhere", "prefix": "noslash", "file": "relative.pem", "clientauth": "maybe", "num": "abc", "int": "-3",
	"int0": "-1", "dur": "5x", "dur0": "-5s", "size": "12zz", "size0": "12zz", "bool": "maybe", "logout": "syslog",
	"logfmt": "text", "loglevel": "verbose", "url": "ftp://example.org/x", "path": "nopath", "compression": "zip",
	"droppolicy": "drop_newest", "hostrule": "http://x", "str": "x:y", "label": "-bad", "hname": "Bad:Header",
	"method": "GE/T", "host": "http://x", "ip": "999.1.1.1", "tokref": "plainsecret", "backend": "redis",
	"selection": "random", "retrytype": "linear", "ts": "yesterday", "ts2": "2020-01-01T00:00:00Z", "hval": "v:bad",
	"qval": "q:bad", "pass": "p:bad", "varval": "v:bad", "rmax": "0", "rbase": "5x", "rcap": "1ms", "rjit": "7",
	"sid": "S/x", "sidref": "NOPE", "mref": "nomatcher", "varname": "1bad",
}

var featPlain = map[string][]string{
	"ingress.listen":                                 {"127.0.0.1:18080", ":18088"},
	"pull_api.listen":                                {"127.0.0.2:19443", ":19444"},
	"pull_api.grpc_listen":                           {"127.0.0.5:19943"},
	"admin_api.listen":                               {"127.0.0.3:12019", ":12020"},
	"obs.metrics.listen":                             {"127.0.0.4:19900"},
	"pull_api.prefix":                                {"/pull"},
	"admin_api.prefix":                               {"/admin"},
	"obs.metrics.prefix":                             {"/metrics", "/m"},
	"r.auth_hmac.signature_header":                   {"X-Sig", "X-Hub-Signature-256"},
	"r.auth_hmac.timestamp_header":                   {"X-Ts", "X-Request-Timestamp"},
	"r.auth_hmac.nonce_header":                       {"X-Nonce-Id"},
	"r.deliver.sig_header":                           {"X-Out-Sig"},
	"r.deliver.ts_header":                            {"X-Out-Ts"},
	"r.auth_forward":                                 {"https://auth.example.org/check", "http://127.0.0.1:9000/a"},
	"obs.tracing.retry.initial_interval":             {"2s"},
	"obs.tracing.retry.max_interval":                 {"20s"},
	"obs.tracing.retry.max_elapsed_time":             {"2m", "off"},
	"pull_api.default_lease_ttl":                     {"20s"},
	"pull_api.max_lease_ttl":                         {"5m", "off"},
	"pull_api.default_max_wait":                      {"2s", "0"},
	"pull_api.max_wait":                              {"30s", "off"},
	"defaults.trend_signals.dead_share_high_percent": {"25"},
	"defaults.trend_signals.queued_pressure_percent": {"70"},
	"defaults.adaptive_backpressure.queued_percent":  {"85"},
	"defaults.trend_signals.stale_grace_factor":      {"4"},
	"obs.tracing.tls.server_name":                    {"otel.example.org"},
	"ingress.tls.client_auth":                        {"request", "none"},
	"queue_retention.prune_interval":                 {"1m", "10m"},
}

// kind of the second value of pair features
var pairKind2 = map[string]string{
	"matcher.header": "hval", "r.match.header": "hval", "obs.tracing.header": "hval",
	"matcher.query": "qval", "r.match.query": "qval",
	"r.auth_basic": "pass", "vars.item": "varval", "r.publish_mix": "bool",
}

func sanitize(s string) string {
	var b strings.Builder
	for _, c := range strings.ToUpper(s) {
		if (c >= 'A' && c <= 'Z') || (c >= '0' && c <= '9') {
			b.WriteRune(c)
		} else {
			b.WriteByte('_')
		}
	}
	return b.String()
}

// valueCtx identifies one value slot of a program.
type valueCtx struct {
	f    string // feature id
	kind string
	r, i int
	pos  int // value position within the directive (pairs: 2k name, 2k+1 value)
	alt  int // which plain alternative the directive uses (one choice per directive, so its values stay distinct)
}

// plain returns the valid plain value of a slot; alt selects among alternatives
// (alt = 0 is the primary value that placeholders resolve to).
func plain(c valueCtx, alt int) string {
	k := c.pos
	switch c.kind {
	case "sid":
		return fmt.Sprintf("S%d", c.i)
	case "sidref":
		return fmt.Sprintf("S%d", k+1)
	case "mref":
		return fmt.Sprintf("m%d", k+1)
	case "varname":
		return fmt.Sprintf("V%d", c.i)
	case "varval":
		return fmt.Sprintf("val%d", c.i)
	}
	switch c.f {
	case "r.pull.path":
		return fmt.Sprintf("/pull/r%d", c.r)
	case "r.deliver":
		if alt%2 == 1 {
			return fmt.Sprintf("http://10.0.%d.%d:8080/hook?x=1", c.r, c.i)
		}
		return fmt.Sprintf("https://example.org/r%d/d%d", c.r, c.i)
	case "r.application":
		return fmt.Sprintf("app-%d", c.r)
	case "r.endpoint_name":
		return fmt.Sprintf("ep-%d", c.r)
	case "r.auth_basic":
		if c.pos%2 == 0 {
			return fmt.Sprintf("user%d", c.i)
		}
	}
	alts := featPlain[c.f]
	if c.pos > 0 && pairKind2[c.f] != "" && c.pos%2 == 1 {
		alts = nil
	}
	if alts == nil {
		alts = kindPlain[c.kind]
	}
	if len(alts) == 0 {
		return "x" + c.kind
	}
	if pairKind2[c.f] != "" {
		k = c.pos / 2
	}
	return alts[(k+alt)%len(alts)]
}

var (
	pubMu    sync.Mutex
	envDone  = map[string]bool{}
	fileDone = map[string]bool{}
)

// setEnv publishes name=val before the caller goes on (the value is a pure function of the
// name, so concurrent renderers agree; the lock makes sure nobody compiles before it is set).
func setEnv(name, val string) {
	pubMu.Lock()
	defer pubMu.Unlock()
	if !envDone[name] {
		os.Setenv(name, val)
		envDone[name] = true
	}
}

func setFile(name, val string) {
	pubMu.Lock()
	defer pubMu.Unlock()
	if !fileDone[name] {
		if err := os.WriteFile(name, []byte(val), 0o600); err != nil {
			panic(err)
		}
		fileDone[name] = true
	}
}

func quote(s string) string {
	var b strings.Builder
	b.WriteByte('"')
	for _, c := range s {
		switch c {
		case '"':
			b.WriteString("\\\"")
		case '\\':
			b.WriteString("\\\\")
		case '\n':
			b.WriteString("\\n")
		default:
			b.WriteRune(c)
		}
	}
	b.WriteByte('"')
	return b.String()
}

// spell writes the value of slot c in lexical class vc.  kw is the sibling keyword used
// by the keyword-like classes; usedVars collects {vars.NAME} references.
func spell(c valueCtx, vc string, rng *rand.Rand, kw string, usedVars map[string]string) (string, error) {
	pl := plain(c, c.alt)
	prim := plain(c, 0)
	slot := fmt.Sprintf("%s_%d_%d_%d", sanitize(c.f), c.r, c.i, c.pos)
	mid := len(pl) / 2
	switch vc {
	case "bare":
		return pl, nil
	case "quoted":
		return `"` + pl + `"`, nil
	case "space":
		switch rng.Intn(3) {
		case 0:
			return `"` + pl + ` x"`, nil
		case 1:
			return `"` + pl[:mid] + ` ` + pl[mid:] + `"`, nil
		default:
			return `" ` + pl + `  "`, nil // only outer blanks: most directives trim them
		}
	case "hash":
		if rng.Intn(2) == 0 {
			return `"` + pl + `#frag"`, nil
		}
		return `"#` + pl + `"`, nil
	case "brace":
		switch rng.Intn(5) {
		case 0, 1:
			return `"{` + pl + `}"`, nil
		case 2:
			return `"` + pl + `}{"`, nil
		case 3:
			return `"{$UNTERMINATED` + pl + `"`, nil // placeholder look-alike: Compile reports it, before and after fmt
		default:
			return `"{}"`, nil
		}
	case "dquote":
		switch rng.Intn(3) {
		case 0:
			return `"` + pl[:mid] + `\"` + pl[mid:] + `"`, nil
		case 1:
			return `"` + pl + `\\"`, nil
		default:
			return `"\"` + pl + `\" \\ "`, nil
		}
	case "esc":
		switch rng.Intn(4) {
		case 0:
			return `"\t` + pl + `\n"`, nil // trimmed by most directives
		case 1:
			return `"` + pl + `\r\n"`, nil
		case 2:
			return `"` + pl[:mid] + `\n` + pl[mid:] + `"`, nil
		default:
			return `"` + pl[:mid] + `\t` + pl[mid:] + `\r"`, nil
		}
	case "unkesc":
		if rng.Intn(2) == 0 && len(pl) > 0 && pl[0] < 0x80 && pl[0] != 'n' && pl[0] != 't' && pl[0] != 'r' {
			return `"\` + pl + `"`, nil // unknown escape of the value's own first character
		}
		return `"` + pl[:mid] + `\q` + pl[mid:] + `\/"`, nil
	case "empty":
		return `""`, nil
	case "blank":
		return []string{`" "`, `"  "`, "\"\t\"", `"\t"`, `" \n"`}[rng.Intn(5)], nil
	case "ph_env":
		setEnv("HKV_"+slot, prim)
		return "{$HKV_" + slot + "}", nil
	case "ph_envq":
		setEnv("HKV_"+slot, prim)
		return `"{$HKV_` + slot + `}"`, nil
	case "ph_def":
		if rng.Intn(2) == 0 {
			return "{$HKV_UNSET_D:" + prim + "}", nil
		}
		setEnv("HKV_"+slot, prim)
		return "{$HKV_" + slot + ":fallback}", nil
	case "ph_unset":
		return "{$HKV_UNSET_U}", nil
	case "ph_rt":
		setEnv("HKV_"+slot, prim)
		return "{env.HKV_" + slot + "}", nil
	case "ph_file":
		fn := "hkvf_" + strings.ToLower(slot) + ".txt"
		setFile(fn, prim+"\n")
		if rng.Intn(2) == 0 {
			return `"{file.` + fn + `}"`, nil
		}
		return "{file." + fn + "}", nil
	case "ph_embed":
		h := len(prim) / 2
		setEnv("HKV_P_"+slot, prim[h:])
		return `"` + prim[:h] + `{$HKV_P_` + slot + `}"`, nil
	case "vars":
		name := "HV_" + slot
		usedVars[name] = prim
		return `"{vars.` + name + `}"`, nil
	case "kw":
		return kw, nil
	case "kwq":
		return `"` + kw + `"`, nil
	case "uni":
		switch rng.Intn(4) {
		case 0:
			return pl + "é✓", nil
		case 1:
			return "ü" + pl, nil
		case 2:
			return pl + `\'x;=` + "ñ", nil // bare tokens may carry any character but blank { } " #
		default:
			return `"` + pl + ` → ß"`, nil
		}
	case "slash":
		return "/" + strings.TrimLeft(pl, "/"), nil
	case "at":
		return "@" + pl, nil
	case "ctrl":
		// runes a formatter must write back verbatim (or with an escape the lexer inverts): invisible or
		// non-printable ones, and control bytes other than \n \t \r
		specials := []string{"\u00a0", "\u200b", "\ufeff", "\u2028", "\u00ad", "\ue000", "\x1b", "\a", "\x7f", "\x01", "\u0085", "\u202e", "\U000e0001"}
		a, b := specials[rng.Intn(len(specials))], specials[rng.Intn(len(specials))]
		switch rng.Intn(5) {
		case 0:
			return pl[:mid] + a + pl[mid:], nil // bare: any rune but blank { } " # may stand in a token
		case 1:
			return `"` + a + pl + b + `"`, nil
		case 2:
			return `"` + pl + a + `"`, nil
		default:
			return `"` + pl[:mid] + a + pl[mid:] + b + `"`, nil
		}
	case "bad":
		b, ok := kindBad[c.kind]
		if !ok {
			b = "bad:" + c.kind
		}
		return b, nil
	}
	return "", fmt.Errorf("unknown value class %q", vc)
}
