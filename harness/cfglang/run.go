package cfglang

import (
	"crypto/sha256"
	"encoding/hex"
	"fmt"
	"hash/fnv"
	"strings"
)

// Event is one ndjson line: an abstract program, one concrete rendering and what the real code did with it.
type Event struct {
	Ev      string  `json:"ev"`
	ID      string  `json:"id"`
	Variant int     `json:"variant"`
	Seed    int64   `json:"seed"`
	Tag     string  `json:"tag"`
	P       Program `json:"p"`
	Text    string  `json:"text"`
	Sha     string  `json:"sha"`
	Emitted int     `json:"emitted"`
	Render  string  `json:"render_err"`
	Obs
}

// Checks are the named requirements of ConfigLangTrace.tla that concern the real code.
var Checks = []string{"reparsed", "same_ok", "same_errors", "same_warnings", "same_compiled", "idempotent"}

// Failed returns the names of the checks an event violates (empty when the text did not parse).
func (e *Event) Failed() []string {
	if !e.Parsed {
		return nil
	}
	var out []string
	for _, c := range Checks {
		if !e.check(c) {
			out = append(out, c)
		}
	}
	return out
}

func (e *Event) check(name string) bool {
	switch name {
	case "reparsed":
		return e.Reparsed
	case "same_ok":
		return e.SameOK
	case "same_errors":
		return e.SameErrors
	case "same_warnings":
		return e.SameWarnings
	case "same_compiled":
		return e.SameCompiled
	case "idempotent":
		return e.Idempotent
	}
	return true
}

// ProgSeed derives the rendering seed of a program from the run seed and the program itself,
// so that a program renders the same way wherever it is executed.
func ProgSeed(seed int64, p Program) int64 {
	h := fnv.New64a()
	h.Write([]byte(p.Canonical()))
	return int64(h.Sum64()>>1) ^ (seed * 0x9E3779B97F4A7C)
}

// Execute renders p (variant, seed) and observes the real code.
func Execute(t *Table, id, tag string, p Program, seed int64, variant int, keepFormatted bool) Event {
	e := Event{Ev: "Fmt", ID: id, Variant: variant, Seed: seed, Tag: tag, P: p}
	if e.P.Routes == nil {
		e.P.Routes = []Route{}
	}
	if e.P.Items == nil {
		e.P.Items = []Item{}
	}
	if e.P.Nm == nil {
		e.P.Nm = []NM{}
	}
	text, emitted, err := Render(t, p, ProgSeed(seed, p), variant)
	if err != nil {
		e.Render = err.Error()
		e.Errs = []string{}
		return e
	}
	e.Text, e.Emitted = text, emitted
	sum := sha256.Sum256([]byte(text))
	e.Sha = hex.EncodeToString(sum[:8])
	e.Obs = Observe([]byte(text), keepFormatted)
	return e
}

// Signature builds the stable signature fmt/<check>/<directive>[_blank] of a failed check.
func Signature(check string, e *Event) string {
	attr := e.Attr
	if attr == "" || attr == "no_ast_diff" {
		// no second AST to compare with (formatted text does not parse) or identical ASTs:
		// fall back to the last feature of the (shrunk) program
		attr = "no_ast_diff"
		if n := len(e.P.Items); n > 0 {
			it := e.P.Items[n-1]
			attr = strings.NewReplacer(".", "_", "r_", "").Replace(strings.TrimPrefix(it.F, "r.")) + "_" + it.V
		}
	} else if e.AttrBlank {
		attr += "_blank"
	}
	return fmt.Sprintf("fmt/%s/%s", check, attr)
}
