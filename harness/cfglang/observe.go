package cfglang

import (
	"bytes"
	"fmt"
	"reflect"
	"sort"
	"strings"
	"time"
	"unicode"

	"github.com/nuetzliches/hookaido/internal/config"
)

// Obs is everything observed when one text goes through Parse / Format / Compile of the real code.
type Obs struct {
	Parsed       bool     `json:"parsed"`
	ParseErr     string   `json:"parse_err"`
	Reparsed     bool     `json:"reparsed"`
	ReparseErr   string   `json:"reparse_err"`
	SameOK       bool     `json:"same_ok"`
	SameErrors   bool     `json:"same_errors"`
	SameWarnings bool     `json:"same_warnings"`
	SameCompiled bool     `json:"same_compiled"`
	Idempotent   bool     `json:"idempotent"`
	OK           bool     `json:"ok"`   // validation result of the original
	OK2          bool     `json:"ok2"`  // validation result of the formatted text
	Errs         []string `json:"errs"` // first validation errors of the original (for reading; not compared)
	NErr         int      `json:"nerr"`
	NWarn        int      `json:"nwarn"`
	Nondet       bool     `json:"nondet"`      // Compile of the same AST gave two different answers
	DeepEqual    bool     `json:"deep_equal"`  // reflect.DeepEqual(Compiled, Compiled') before nil/empty normalisation
	FuncFields   int      `json:"func_fields"` // function-typed fields met inside Compiled (excluded from comparison)
	Diff         string   `json:"diff"`        // short description when something differs
	Attr         string   `json:"attr"`        // AST path of the first difference between Parse(t) and Parse(Format(t))
	AttrBlank    bool     `json:"attr_blank"`  // the value lost at Attr was blank
	Formatted    string   `json:"formatted,omitempty"`
}

func setOf(xs []string) map[string]bool {
	m := map[string]bool{}
	for _, x := range xs {
		m[x] = true
	}
	return m
}

func setDiff(a, b []string) (onlyA, onlyB []string) {
	sa, sb := setOf(a), setOf(b)
	for x := range sa {
		if !sb[x] {
			onlyA = append(onlyA, x)
		}
	}
	for x := range sb {
		if !sa[x] {
			onlyB = append(onlyB, x)
		}
	}
	sort.Strings(onlyA)
	sort.Strings(onlyB)
	return
}

func clip(s string, n int) string {
	if len(s) > n {
		return s[:n] + "..."
	}
	return s
}

// Observe runs the C19 observations on text.  keepFormatted stores the formatter output in the result.
func Observe(text []byte, keepFormatted bool) (o Obs) {
	defer func() {
		if r := recover(); r != nil {
			o.Diff = fmt.Sprintf("panic: %v", r)
			o.Reparsed, o.SameOK, o.SameErrors, o.SameWarnings, o.SameCompiled, o.Idempotent = false, false, false, false, false, false
		}
	}()
	o.Errs = []string{}
	cfg, err := config.Parse(text)
	if err != nil {
		o.ParseErr = err.Error()
		return o
	}
	o.Parsed = true
	c1, r1 := config.Compile(cfg)
	c1b, r1b := config.Compile(cfg)
	o.OK, o.NErr, o.NWarn = r1.OK, len(r1.Errors), len(r1.Warnings)
	o.Errs = []string{}
	for k := 0; k < len(r1.Errors) && k < 3; k++ {
		o.Errs = append(o.Errs, clip(r1.Errors[k], 160))
	}
	if d, _ := deepDiff(reflect.ValueOf(c1), reflect.ValueOf(c1b)); len(d) > 0 || r1.OK != r1b.OK {
		o.Nondet = true
	}
	if a, b := setDiff(r1.Errors, r1b.Errors); len(a)+len(b) > 0 {
		o.Nondet = true
	}
	f, err := config.Format(cfg)
	if err != nil {
		o.ReparseErr = "format: " + err.Error()
		o.Diff = o.ReparseErr
		return o
	}
	if keepFormatted {
		o.Formatted = string(f)
	}
	cfg2, err := config.Parse(f)
	if err != nil {
		o.ReparseErr = err.Error()
		o.Diff = "formatted text does not parse: " + err.Error()
		o.Formatted = string(f)
		return o
	}
	o.Reparsed = true
	c2, r2 := config.Compile(cfg2)
	o.OK2 = r2.OK
	var notes []string
	o.SameOK = r1.OK == r2.OK
	if !o.SameOK {
		notes = append(notes, fmt.Sprintf("ok %v -> %v", r1.OK, r2.OK))
	}
	ea, eb := setDiff(r1.Errors, r2.Errors)
	o.SameErrors = len(ea)+len(eb) == 0
	if !o.SameErrors {
		notes = append(notes, fmt.Sprintf("errors only before fmt %q, only after %q", ea, eb))
	}
	wa, wb := setDiff(r1.Warnings, r2.Warnings)
	o.SameWarnings = len(wa)+len(wb) == 0
	if !o.SameWarnings {
		notes = append(notes, fmt.Sprintf("warnings only before fmt %q, only after %q", wa, wb))
	}
	o.DeepEqual = reflect.DeepEqual(c1, c2)
	dd, funcs := deepDiff(reflect.ValueOf(c1), reflect.ValueOf(c2))
	o.FuncFields = funcs
	o.SameCompiled = o.DeepEqual || len(dd) == 0
	if o.DeepEqual && len(dd) > 0 {
		notes = append(notes, "comparison walker disagrees with reflect.DeepEqual: "+dd[0])
	}
	if !o.SameCompiled {
		notes = append(notes, "compiled differs at "+dd[0])
	}
	f2, err := config.Format(cfg2)
	o.Idempotent = err == nil && bytes.Equal(f, f2)
	if !o.Idempotent {
		notes = append(notes, "second format changes the text: "+firstLineDiff(string(f), string(f2)))
	}
	if len(notes) > 0 {
		o.Diff = clip(strings.Join(notes, "; "), 900)
		o.Formatted = string(f)
		o.Attr, o.AttrBlank = astDiff(cfg, cfg2)
	}
	return o
}

func firstLineDiff(a, b string) string {
	la, lb := strings.Split(a, "\n"), strings.Split(b, "\n")
	for k := 0; k < len(la) || k < len(lb); k++ {
		x, y := "<eof>", "<eof>"
		if k < len(la) {
			x = la[k]
		}
		if k < len(lb) {
			y = lb[k]
		}
		if x != y {
			return fmt.Sprintf("line %d: %q vs %q", k+1, x, y)
		}
	}
	return "(same lines)"
}

// ---------------------------------------------------------------- deep comparison of Compiled

var timeType = reflect.TypeOf(time.Time{})

// deepDiff lists the paths at which a and b differ.  nil and empty slices / maps are equal;
// function values are not compared (counted in funcs).
func deepDiff(a, b reflect.Value) (diffs []string, funcs int) {
	walkDiff(a, b, "Compiled", &diffs, &funcs, 0)
	return
}

func scalar(v reflect.Value) string {
	switch v.Kind() {
	case reflect.Bool:
		return fmt.Sprint(v.Bool())
	case reflect.Int, reflect.Int8, reflect.Int16, reflect.Int32, reflect.Int64:
		return fmt.Sprint(v.Int())
	case reflect.Uint, reflect.Uint8, reflect.Uint16, reflect.Uint32, reflect.Uint64, reflect.Uintptr:
		return fmt.Sprint(v.Uint())
	case reflect.Float32, reflect.Float64:
		return fmt.Sprint(v.Float())
	case reflect.String:
		return fmt.Sprintf("%q", v.String())
	case reflect.Complex64, reflect.Complex128:
		return fmt.Sprint(v.Complex())
	}
	return "<" + v.Kind().String() + ">"
}

func walkDiff(a, b reflect.Value, path string, out *[]string, funcs *int, depth int) {
	if len(*out) >= 8 || depth > 40 {
		return
	}
	if a.IsValid() != b.IsValid() {
		*out = append(*out, path+": one side invalid")
		return
	}
	if !a.IsValid() {
		return
	}
	if a.Type() != b.Type() {
		*out = append(*out, fmt.Sprintf("%s: type %s vs %s", path, a.Type(), b.Type()))
		return
	}
	if a.Type() == timeType && a.CanInterface() && b.CanInterface() {
		ta, tb := a.Interface().(time.Time), b.Interface().(time.Time)
		_, oa := ta.Zone()
		_, ob := tb.Zone()
		if !ta.Equal(tb) || oa != ob {
			*out = append(*out, fmt.Sprintf("%s: %s vs %s", path, ta.Format(time.RFC3339Nano), tb.Format(time.RFC3339Nano)))
		}
		return
	}
	switch a.Kind() {
	case reflect.Func:
		*funcs++
	case reflect.Pointer, reflect.Interface:
		if a.IsNil() != b.IsNil() {
			*out = append(*out, fmt.Sprintf("%s: nil=%v vs nil=%v", path, a.IsNil(), b.IsNil()))
			return
		}
		if a.IsNil() || (a.Kind() == reflect.Pointer && a.Pointer() == b.Pointer()) {
			return
		}
		walkDiff(a.Elem(), b.Elem(), path, out, funcs, depth+1)
	case reflect.Struct:
		for k := 0; k < a.NumField(); k++ {
			walkDiff(a.Field(k), b.Field(k), path+"."+a.Type().Field(k).Name, out, funcs, depth+1)
		}
	case reflect.Slice, reflect.Array:
		if a.Len() != b.Len() {
			*out = append(*out, fmt.Sprintf("%s: length %d vs %d", path, a.Len(), b.Len()))
			return
		}
		for k := 0; k < a.Len(); k++ {
			walkDiff(a.Index(k), b.Index(k), fmt.Sprintf("%s[%d]", path, k), out, funcs, depth+1)
		}
	case reflect.Map:
		if a.Len() != b.Len() {
			*out = append(*out, fmt.Sprintf("%s: map size %d vs %d", path, a.Len(), b.Len()))
			return
		}
		keys := a.MapKeys()
		sort.Slice(keys, func(x, y int) bool { return fmt.Sprint(keys[x]) < fmt.Sprint(keys[y]) })
		for _, k := range keys {
			bv := b.MapIndex(k)
			if !bv.IsValid() {
				*out = append(*out, fmt.Sprintf("%s[%v]: missing after fmt", path, k))
				continue
			}
			walkDiff(a.MapIndex(k), bv, fmt.Sprintf("%s[%v]", path, k), out, funcs, depth+1)
		}
	case reflect.Chan, reflect.UnsafePointer:
		if a.Pointer() != b.Pointer() {
			*out = append(*out, path+": pointer differs")
		}
	default:
		if sa, sb := scalar(a), scalar(b); sa != sb {
			*out = append(*out, fmt.Sprintf("%s: %s vs %s", path, clip(sa, 80), clip(sb, 80)))
		}
	}
}

// ---------------------------------------------------------------- attribution: first AST difference

func isBlankStr(s string) bool { return strings.TrimSpace(s) == "" }

// blankish: a string that is whitespace only, or a struct / pointer to struct whose first string field is.
func blankish(v reflect.Value) bool {
	switch v.Kind() {
	case reflect.String:
		return isBlankStr(v.String())
	case reflect.Pointer:
		if v.IsNil() {
			return false
		}
		return blankish(v.Elem())
	case reflect.Struct:
		for k := 0; k < v.NumField(); k++ {
			if v.Field(k).Kind() == reflect.String {
				return isBlankStr(v.Field(k).String())
			}
		}
	}
	return false
}

// astDiff returns the path (indices removed, snake case) of the first difference between two
// parsed configurations and whether what was lost there is a blank value.
func astDiff(a, b *config.Config) (string, bool) {
	p, blank, found := astWalk(reflect.ValueOf(a), reflect.ValueOf(b), nil)
	if !found {
		return "no_ast_diff", false
	}
	return p, blank
}

func snake(name string) string {
	rs := []rune(strings.ReplaceAll(name, "IPs", "Ips"))
	var b strings.Builder
	for k, c := range rs {
		if unicode.IsUpper(c) {
			prevLower := k > 0 && (unicode.IsLower(rs[k-1]) || unicode.IsDigit(rs[k-1]))
			nextLower := k+1 < len(rs) && unicode.IsLower(rs[k+1])
			if k > 0 && (prevLower || (nextLower && unicode.IsUpper(rs[k-1]))) {
				b.WriteByte('_')
			}
			b.WriteRune(unicode.ToLower(c))
		} else {
			b.WriteRune(c)
		}
	}
	return b.String()
}

func attrPath(path []string) string {
	if len(path) > 1 && path[0] == "Routes" {
		path = path[1:]
	}
	out := make([]string, len(path))
	for k, p := range path {
		out[k] = snake(p)
	}
	return strings.Join(out, "_")
}

func astWalk(a, b reflect.Value, path []string) (string, bool, bool) {
	switch a.Kind() {
	case reflect.Pointer:
		if a.IsNil() != b.IsNil() {
			if b.IsNil() {
				return attrPath(path), blankish(a), true
			}
			return attrPath(path), false, true
		}
		if a.IsNil() {
			return "", false, false
		}
		return astWalk(a.Elem(), b.Elem(), path)
	case reflect.Struct:
		for k := 0; k < a.NumField(); k++ {
			if p, bl, ok := astWalk(a.Field(k), b.Field(k), append(path, a.Type().Field(k).Name)); ok {
				return p, bl, true
			}
		}
	case reflect.Slice:
		if a.Len() != b.Len() {
			// which elements of a are missing in b (greedy subsequence match)
			allBlank, lost := true, 0
			j := 0
			for k := 0; k < a.Len(); k++ {
				if j < b.Len() {
					if _, _, diff := astWalk(a.Index(k), b.Index(j), nil); !diff {
						j++
						continue
					}
				}
				lost++
				if !blankish(a.Index(k)) {
					allBlank = false
				}
			}
			return attrPath(path), lost > 0 && allBlank, true
		}
		for k := 0; k < a.Len(); k++ {
			if p, bl, ok := astWalk(a.Index(k), b.Index(k), path); ok {
				return p, bl, true
			}
		}
	case reflect.String:
		if a.String() != b.String() {
			return attrPath(path), isBlankStr(a.String()), true
		}
	case reflect.Bool:
		if a.Bool() != b.Bool() {
			return attrPath(path), false, true
		}
	default:
		if scalar(a) != scalar(b) {
			return attrPath(path), false, true
		}
	}
	return "", false, false
}
