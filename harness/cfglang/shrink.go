package cfglang

// Shrinking of a failing abstract program: greedily remove routes, feature subtrees and
// non-default spellings / value classes while the same check keeps failing on the real code.
// The result is only a smaller reproducer: it goes through trace validation like any other
// program (which also re-checks that it is a well-formed member of the feature model).

func (t *Table) isAncestor(anc, f string) bool {
	for f != "top" && f != "route" {
		ft := t.ByID[f]
		if ft == nil {
			return false
		}
		if ft.Par == anc {
			return true
		}
		f = ft.Par
	}
	return false
}

var partners = map[string]string{"r.deliver.sign_hmac": "r.deliver.sign_ref", "r.deliver.sign_ref": "r.deliver.sign_hmac",
	"r.publish": "r.publish_mix", "r.publish_mix": "r.publish"}

// fixNm drops the near-miss instance when what it repeats (or its parent) is gone.
func (t *Table) fixNm(p Program) Program {
	if len(p.Nm) == 0 {
		return p
	}
	x := p.Nm[0]
	has := func(r int, f string, i int) bool {
		for _, it := range p.Items {
			if it.R == r && it.F == f && it.I == i {
				return true
			}
		}
		return false
	}
	ok := x.R <= len(p.Routes)
	if par := t.ByID[x.F].Par; ok && par != "top" && par != "route" {
		pi := 1
		if t.IdxRoot(par) != "" {
			pi = x.I
		}
		ok = has(x.R, par, pi)
	}
	if ok && !has(x.R, x.F, x.I) {
		pi := 1
		if t.IdxRoot(partners[x.F]) != "" {
			pi = x.I
		}
		ok = partners[x.F] != "" && has(x.R, partners[x.F], pi)
	}
	if !ok {
		p.Nm = []NM{}
	}
	return p
}

// dropItem removes item k and its descendants; higher instances of an indexed feature move down.
func (t *Table) dropItem(p Program, k int) Program {
	it := p.Items[k]
	idx := t.IdxRoot(it.F)
	q := p.Clone()
	q.Items = q.Items[:0]
	for j, x := range p.Items {
		if j == k {
			continue
		}
		if x.R == it.R && t.isAncestor(it.F, x.F) && (idx == "" || x.I == it.I) {
			continue
		}
		if t.ByID[it.F].Idx && x.R == it.R && x.I > it.I && t.IdxRoot(x.F) == it.F {
			x.I--
		}
		q.Items = append(q.Items, x)
	}
	if len(q.Nm) == 1 && t.ByID[it.F].Idx && q.Nm[0].R == it.R && t.IdxRoot(q.Nm[0].F) == it.F {
		if q.Nm[0].I == it.I {
			q.Nm = []NM{}
		} else if q.Nm[0].I > it.I {
			q.Nm[0].I--
		}
	}
	return t.fixNm(q)
}

func (t *Table) dropRoute(p Program, k int) Program {
	q := p.Clone()
	q.Routes = append(append([]Route(nil), p.Routes[:k]...), p.Routes[k+1:]...)
	q.Items = q.Items[:0]
	for _, x := range p.Items {
		if x.R == k+1 {
			continue
		}
		if x.R > k+1 {
			x.R--
		}
		q.Items = append(q.Items, x)
	}
	if len(q.Nm) == 1 {
		if q.Nm[0].R == k+1 {
			q.Nm = []NM{}
		} else if q.Nm[0].R > k+1 {
			q.Nm[0].R--
		}
	}
	// repair wrapper joins
	for j := range q.Routes {
		if q.Routes[j].Form == "wrapjoin" {
			if j == 0 || q.Routes[j-1].Ch != q.Routes[j].Ch || (q.Routes[j-1].Form != "wrapper" && q.Routes[j-1].Form != "wrapjoin") {
				q.Routes[j].Form = "wrapper"
			}
		}
	}
	if q.Err == "dup_path" {
		dup := false
		for a := range q.Routes {
			for b := range q.Routes {
				if a != b && q.Routes[a].Path == q.Routes[b].Path {
					dup = true
				}
			}
		}
		if !dup {
			q.Err = "none"
		}
	}
	return q
}

func (t *Table) hasKids(p Program, it Item) bool {
	for _, x := range p.Items {
		if x.R == it.R && t.ByID[x.F].Par == it.F && (t.IdxRoot(it.F) == "" || x.I == it.I) {
			return true
		}
	}
	return false
}

// simpler variants of item k
func (t *Table) simplify(p Program, k int) []Program {
	var out []Program
	it := p.Items[k]
	ft := t.ByID[it.F]
	set := func(f func(x *Item)) {
		q := p.Clone()
		f(&q.Items[k])
		out = append(out, q)
	}
	if it.N > 1 && it.N > ft.Nmin {
		set(func(x *Item) {
			x.N = 1
			if has(ft.Sps, "line") {
				x.Sp = "line"
			}
			if !ft.Pair && ft.Kind != "retrytype" {
				x.V2 = "-"
			}
		})
	}
	if it.V != "-" && it.V != "bare" {
		set(func(x *Item) { x.V = "bare" })
	}
	if it.V2 != "-" && it.V2 != "bare" {
		set(func(x *Item) { x.V2 = "bare" })
	}
	if ft.Kind == "retrytype" && it.Sp != "t" {
		set(func(x *Item) { x.Sp = "t"; x.V2 = "-" })
	}
	if it.Sp != ft.Dsp && ft.Kind != "retrytype" && !(ft.Nmax > 1 && it.N > 1) {
		kids := t.hasKids(p, it)
		if !kids || has(ft.Blk, ft.Dsp) {
			set(func(x *Item) {
				was := t.usesV(x.F, x.Sp)
				x.Sp = ft.Dsp
				now := t.usesV(x.F, x.Sp)
				if was && !now {
					x.V = "-"
				}
				if !was && now {
					x.V = "bare"
				}
			})
		}
	}
	return out
}

// Shrink minimises p while fails(p) stays true.  budget bounds the number of executions.
func (t *Table) Shrink(p Program, fails func(Program) bool, budget int) Program {
	try := func(q Program) bool {
		if budget <= 0 {
			return false
		}
		budget--
		return fails(q)
	}
	for changed := true; changed && budget > 0; {
		changed = false
		if len(p.Nm) == 1 {
			q := p.Clone()
			q.Nm = []NM{}
			if try(q) {
				p, changed = q, true
			} else if p.Nm[0].Kf != "-" && !(p.Nm[0].F == "r.publish" && p.Nm[0].Sp == "dot") {
				q = p.Clone()
				q.Nm[0].Kf, q.Nm[0].Kv = "-", "-"
				if try(q) {
					p, changed = q, true
				}
			}
		}
		for k := len(p.Routes) - 1; k >= 0; k-- {
			if q := t.dropRoute(p, k); try(q) {
				p, changed = q, true
			}
		}
		for k := len(p.Items) - 1; k >= 0; k-- {
			if k >= len(p.Items) {
				continue
			}
			if q := t.dropItem(p, k); try(q) {
				p, changed = q, true
			}
		}
		for k := len(p.Items) - 1; k >= 0; k-- {
			for _, q := range t.simplify(p, k) {
				if try(q) {
					p, changed = q, true
					break
				}
			}
		}
		if p.Cm != "none" {
			q := p.Clone()
			q.Cm = "none"
			if try(q) {
				p, changed = q, true
			}
		}
		if p.Order != "canon" {
			q := p.Clone()
			q.Order = "canon"
			if try(q) {
				p, changed = q, true
			}
		}
		for k := range p.Routes {
			if p.Routes[k].Pq != "bare" {
				q := p.Clone()
				q.Routes[k].Pq = "bare"
				if try(q) {
					p, changed = q, true
				}
			}
			last := k+1 >= len(p.Routes) || p.Routes[k+1].Form != "wrapjoin"
			if p.Routes[k].Form != "bare" && p.Routes[k].Form != "single" && last && p.Routes[k].Form != "wrapjoin" {
				q := p.Clone()
				q.Routes[k].Form = "single"
				if try(q) {
					p, changed = q, true
				}
			}
		}
	}
	return p
}
