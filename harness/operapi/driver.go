package operapi

import (
	"fmt"
	"math/rand"

	"github.com/nuetzliches/hookaido/verif/l0"
)

var defined = map[string][]string{"cancel": {"queued", "leased", "dead"}, "requeue": {"dead", "canceled"}, "resume": {"canceled"}}

func pick[T any](r *rand.Rand, xs ...T) T { return xs[r.Intn(len(xs))] }

// MixSchedule generates one "opermix" schedule: a population spread over
// mixed routes AND mixed targets on each route, with explicit received_at
// values that tie, brought into every source state (queued, leased, dead,
// canceled, delivered), followed by operator calls whose filters take every
// subset of the four criteria (route, target, state, received-before) in
// turn, with limits 0 / 1 / 2 / above the matches / 1000 / 1001 / -1, a
// preview immediately followed by the real call with the same filter, by-id
// lists with unknown / duplicate / padded ids, and listings in between.
// Like l0.GenSchedule it exports inputs only.
func MixSchedule(r *rand.Rand, name string, k int) l0.Schedule {
	cfg := l0.Cfg{Drop: "reject"}
	delivered := k%2 == 0
	if delivered {
		cfg.DelivMaxAge = 100000 // acked messages stay as "delivered"
	}
	routes := []string{"/r1", "/r2"}
	if k%3 == 2 {
		routes = append(routes, "/r3")
	}
	targets := []string{"t1", "t2"}
	if k%4 == 3 {
		targets = append(targets, "t3")
	}
	now := 1000
	recvs := []int{880, 900, 900, 900, 940, 940, 960, 0, 0} // ties; 0 = stamped by the store (now)
	var ops []l0.Op
	var ids []string
	n := 10 + r.Intn(8)
	for i := 0; i < n; i++ {
		id := fmt.Sprintf("x%02d", i+1)
		// the first messages fill the route x target grid twice (every route carries every target), the rest is random
		rt, tg := routes[i%len(routes)], targets[(i/len(routes))%len(targets)]
		if i >= 2*len(routes)*len(targets) {
			rt, tg = pick(r, routes...), pick(r, targets...)
		}
		e := l0.EnvSpec{ID: id, Rt: rt, Tg: tg, Recv: pick(r, recvs...), Pl: pick(r, "a", "b", "", "bin1"), Hd: pick(r, "", "h1"), Tr: pick(r, "", "t1")}
		ops = append(ops, l0.Op{Op: "Enqueue", Env: &e})
		ids = append(ids, id)
	}
	rid := func() string { return ids[r.Intn(len(ids))] }
	// states: dead and delivered need a lease first
	ops = append(ops, l0.Op{Op: "Dequeue", Batch: 4 + r.Intn(3), TTL: 50000})
	// which messages the dequeue took depends on the backend's pick order: settle a random half of ALL ids (a reference
	// to a message that was not leased is a no-op "notfound")
	for _, i := range r.Perm(len(ids))[:len(ids)/2] {
		kind := pick(r, "dead", "dead", "ack")
		op := l0.Op{Op: "LeaseOp", Kind: kind, Lease: &l0.LeaseRef{Msg: ids[i]}}
		if kind == "dead" {
			op.Reason = pick(r, "no_retry", "max_retries")
		}
		ops = append(ops, op)
	}
	ops = append(ops, l0.Op{Op: "MutateIds", MOp: "cancel", IDs: []string{rid(), rid(), rid()}})
	ops = append(ops, l0.Op{Op: "Tick", D: pick(r, 1, 7, 30)})
	now += 30

	filter := func(j int) *l0.Filter {
		f := &l0.Filter{}
		mask := (k*5 + j) % 16 // every subset of the criteria in turn
		if mask&1 != 0 {
			f.Rt = pick(r, routes...)
		}
		if mask&2 != 0 {
			f.Tg = pick(r, targets...)
		}
		if mask&4 != 0 {
			f.St = pick(r, "queued", "leased", "dead", "canceled", "delivered")
		}
		if mask&8 != 0 {
			f.Before = pick(r, 900, 901, 940, 941, 960, 1001, 5000)
		}
		f.Limit = pick(r, 0, 0, 1, 1, 2, 3, 50, 1000, 1001, 5000, -1)
		return f
	}
	idList := func() []string {
		m := 1 + r.Intn(4)
		out := make([]string, 0, m+1)
		for i := 0; i < m; i++ {
			switch x := r.Intn(100); {
			case x < 70:
				out = append(out, rid())
			case x < 82:
				out = append(out, " "+rid()+"\t")
			case x < 94:
				out = append(out, "nope")
			default:
				out = append(out, "")
			}
		}
		if r.Intn(4) == 0 {
			out = append(out, out[0])
		}
		return out
	}
	steps := 22 + r.Intn(8)
	for j := 0; j < steps; j++ {
		switch x := r.Intn(100); {
		case x < 46:
			mop := []string{"cancel", "requeue", "resume"}[(k+j)%3]
			f := filter(j)
			if f.St != "" && r.Intn(4) != 0 {
				// mostly a state the operation is defined for (the API refuses the others outright)
				f.St = pick(r, defined[mop]...)
			}
			if r.Intn(3) == 0 {
				ops = append(ops, l0.Op{Op: "MutateFilter", MOp: mop, F: f, Preview: true})
			}
			ops = append(ops, l0.Op{Op: "MutateFilter", MOp: mop, F: f})
		case x < 66:
			ops = append(ops, l0.Op{Op: "MutateIds", MOp: pick(r, "cancel", "requeue", "resume", "requeuedead", "deletedead"), IDs: idList()})
		case x < 76:
			f := filter(j)
			f.Limit = pick(r, 0, 1, 2, 1000, 1001, -1)
			ops = append(ops, l0.Op{Op: "ListMessages", F: f, Inc: r.Intn(2) == 0})
		case x < 82:
			ops = append(ops, l0.Op{Op: "ListDead", F: &l0.Filter{Rt: pick(r, "", "", routes[0], routes[1]), Before: pick(r, 0, 0, 901, 941, now+1), Limit: pick(r, 0, 1, 2, 1001)}, Inc: r.Intn(2) == 0})
		case x < 90:
			ops = append(ops, l0.Op{Op: "Dequeue", Rt: pick(r, "", routes[0]), Batch: pick(r, 1, 2, 3), TTL: pick(r, 20, 50000)})
		case x < 95:
			kind := pick(r, "dead", "nack", "ack")
			op := l0.Op{Op: "LeaseOp", Kind: kind, Lease: &l0.LeaseRef{Msg: rid()}}
			if kind == "dead" {
				op.Reason = "no_retry"
			}
			ops = append(ops, op)
		default:
			d := pick(r, 1, 5, 25, 60)
			now += d
			ops = append(ops, l0.Op{Op: "Tick", D: d})
		}
	}
	return l0.Schedule{Name: name, Cfg: cfg, Ops: ops}
}

// BigSchedule: populations above the 100 / 1000 caps on ONE route with TWO
// targets, so that the default and the maximum limit bind while a target
// criterion excludes half of the route; with preview / real pairs.
func BigSchedule(r *rand.Rand, name string, k int) l0.Schedule {
	var ops []l0.Op
	n := 0
	total := 212 // 106 per target: the default limit binds on one target
	if k%2 == 1 {
		total = 1060 // > 1000 on the route, 530 per target
	}
	for n < total {
		envs := make([]l0.EnvSpec, 0, 95)
		for i := 0; i < 95 && n < total; i++ {
			n++
			envs = append(envs, l0.EnvSpec{ID: fmt.Sprintf("b%04d", n), Rt: "/r1", Tg: []string{"t1", "t2"}[n%2], Recv: pick(r, 0, 0, 900, 950), Pl: "a"})
		}
		ops = append(ops, l0.Op{Op: "EnqueueBatch", Envs: envs})
		if len(ops)%4 == 3 {
			ops = append(ops, l0.Op{Op: "Tick", D: 1})
		}
	}
	ops = append(ops, l0.Op{Op: "Enqueue", Env: &l0.EnvSpec{ID: "other", Rt: "/r2", Tg: "t1", Pl: "b"}})
	// the default limit (100) binds on one target of the route (>= 120 messages each); on the large population the
	// maximum (1000) binds on the whole route, asked for as 1001 / 5000 / 1000
	lim := func() int { return pick(r, 0, 0, 1000, 1001, 5000, 150) }
	all := &l0.Filter{Rt: "/r1", Limit: pick(r, 1001, 5000, 1000)}
	t1 := &l0.Filter{Rt: "/r1", Tg: "t1", Limit: 0}
	t2 := &l0.Filter{Rt: "/r1", Tg: "t2", Limit: lim()}
	ops = append(ops,
		l0.Op{Op: "MutateFilter", MOp: "cancel", F: t1, Preview: true},
		l0.Op{Op: "MutateFilter", MOp: "cancel", F: t1},
		l0.Op{Op: "ListMessages", F: &l0.Filter{Rt: "/r1", St: "canceled", Limit: 1001}},
		l0.Op{Op: "Tick", D: 3},
		l0.Op{Op: "MutateFilter", MOp: "requeue", F: &l0.Filter{Rt: "/r1", Tg: "t1", St: "canceled", Limit: lim()}},
		l0.Op{Op: "MutateFilter", MOp: "cancel", F: all, Preview: true},
		l0.Op{Op: "MutateFilter", MOp: "cancel", F: all},
		l0.Op{Op: "MutateFilter", MOp: "resume", F: t2},
		l0.Op{Op: "Tick", D: 2},
		l0.Op{Op: "MutateFilter", MOp: "resume", F: &l0.Filter{Limit: lim()}},
		l0.Op{Op: "MutateIds", MOp: "cancel", IDs: []string{"b0001", "b0002", "other", "b0001"}},
		l0.Op{Op: "ListMessages", F: &l0.Filter{Rt: "/r1", Tg: "https-not-a-target", Limit: 0}},
		l0.Op{Op: "ListMessages", F: &l0.Filter{Limit: 0}},
	)
	return l0.Schedule{Name: name, Cfg: l0.Cfg{Drop: "reject"}, Ops: ops}
}
