// Package operapi drives the operator queue mutations and listings of C14
// THROUGH the Admin HTTP API and THROUGH the MCP tools (admin-proxy mode) of
// a production-wired in-process instance, while the schedule executor, the
// event format and the trace specification stay those of layer L0
// (harness/l0, spec/QueueTrace.tla).
//
// The binding is a queue.Store decorator (Store): every operator method is
// answered by a surface - a real Admin API request or a real MCP tool call -
// and the answer is mapped back into the store's response type; every other
// method is the inner real store.  The Admin API of the instance serves the
// very store object whose dump the events carry (app.VerifOptions.Store).
package operapi

import (
	"fmt"
	"strings"

	"github.com/nuetzliches/hookaido/verif/l0"
)

// Surfaces: how an operator call reaches the store.
const (
	HTTPGlobal   = "admin-http-global"   // Admin API, global endpoints, configuration without managed routes
	HTTPSelector = "admin-http-selector" // Admin API, global endpoints with application+endpoint_name in the body / query (managed routes)
	HTTPScoped   = "admin-http-scoped"   // Admin API, /applications/{app}/endpoints/{ep}/messages/... (managed routes)
	MCPGlobal    = "mcp-proxy-global"    // MCP tools in admin-proxy mode, route selector, configuration without managed routes
	MCPScoped    = "mcp-proxy-scoped"    // MCP tools in admin-proxy mode, application+endpoint_name selector (managed routes)
	// MCP tools in direct mode: the server is started with --db naming the SAME SQLite file the harness store object has
	// open and a configuration whose queue backend is sqlite (no admin proxy); every tool call opens its own SQLiteStore
	// on that file.  SQLite only.  The configuration has no managed routes in every third schedule, /r1 (and /r2) managed
	// otherwise (route selector / application+endpoint_name selector).
	MCPDirect = "mcp-direct"
)

var Surfaces = []string{HTTPGlobal, HTTPSelector, HTTPScoped, MCPGlobal, MCPScoped, MCPDirect}

// BackendOK: which backends a surface can run on.
func BackendOK(surface, backend string) bool { return surface != MCPDirect || backend == "sqlite" }

// SurfaceCfg adapts the store configuration of a schedule to a surface.  In direct mode every tool call runs on a
// fresh SQLiteStore object WITHOUT any retention setting (Server.openSQLiteStore passes none) and with zeroed throttle
// state, while listings on the harness object would run the configured prune first: the two objects agree exactly when
// there is no prune step, so this surface runs retention-free (prune interval 0; delivered retention stays, it only
// decides whether an ack keeps the row).  Depth limits and the drop policy stay (they act on the harness object).
func SurfaceCfg(surface string, cfg l0.Cfg) l0.Cfg {
	if surface == MCPDirect {
		cfg.PruneInt, cfg.RetMaxAge, cfg.DlqMaxAge, cfg.DlqMaxDepth = 0, 0, 0, 0
	}
	return cfg
}

func IsMCP(surface string) bool { return strings.HasPrefix(surface, "mcp-") }

// managedSurface: the configuration of the instance has managed routes.
func managedSurface(surface string) bool {
	return surface == HTTPSelector || surface == HTTPScoped || surface == MCPScoped || surface == MCPDirect
}

func ValidSurface(s string) bool {
	for _, x := range Surfaces {
		if x == s {
			return true
		}
	}
	return false
}

// The schedules of layer L0 name routes /r1../r3 and targets t1..t3.  The
// instance is configured with exactly these routes as push routes with three
// delivery targets each; the abstract target names are renamed to the
// configured target URLs (a pure renaming applied to the whole schedule).
var (
	Routes  = []string{"/r1", "/r2", "/r3"}
	Targets = []string{"t1", "t2", "t3"}
)

func TargetURL(t string) string {
	if t == "" {
		return ""
	}
	return "https://" + t + ".example.test/hook?x=1&y=2"
}

// Label is the management label pair of a managed route.
type Label struct{ App, Ep string }

// ManagedRoutes returns the managed routes of a surface configuration:
// none for the global surfaces; /r1 always and /r2 in every second schedule
// for the managed ones (so that a route-less global filter and a filter on an
// unmanaged route both occur next to managed ones).
func ManagedRoutes(surface string, variant int) map[string]Label {
	if !managedSurface(surface) || (surface == MCPDirect && variant%3 == 0) {
		return map[string]Label{}
	}
	m := map[string]Label{"/r1": {"billing", "r1.events"}}
	if variant%2 == 1 {
		m["/r2"] = Label{"erp-2", "r2_events"}
	}
	return m
}

// ActorDenied: in every fifth schedule of a configuration with managed routes the actor policy of scoped managed
// operations (defaults.publish_policy actor_allow / actor_prefix) does not admit the harness's actor.
func ActorDenied(surface string, variant int) bool {
	return len(ManagedRoutes(surface, variant)) > 0 && variant%5 == 4
}

const (
	Principal = "ops@example.test"
	AdminTok  = "operapi-admin-token"
)

// ConfigText renders the Hookaidofile of the instance.  adminListen is
// "127.0.0.3:0" for the instance itself and the bound address in the copy the
// MCP server reads (it finds the Admin API through the configuration file).
// backend "memory" makes the MCP queue tools forward to the Admin API, "sqlite"
// makes them open the database file themselves.
func ConfigText(adminListen string, managed map[string]Label, backend string, actorDenied bool) string {
	var b strings.Builder
	if actorDenied {
		// scoped managed operations are restricted to actors the harness is not
		b.WriteString("defaults {\n  publish_policy {\n    actor_allow \"release-bot\"\n    actor_prefix \"deploy-\"\n  }\n}\n")
	}
	b.WriteString("ingress {\n  listen 127.0.0.1:0\n}\n")
	fmt.Fprintf(&b, "admin_api {\n  listen %q\n  auth token %q\n}\n", adminListen, "raw:"+AdminTok)
	for _, rt := range Routes {
		fmt.Fprintf(&b, "%q {\n", rt)
		if l, ok := managed[rt]; ok {
			fmt.Fprintf(&b, "  application %q\n  endpoint_name %q\n", l.App, l.Ep)
		}
		fmt.Fprintf(&b, "  queue { backend %s }\n", backend)
		for _, t := range Targets {
			fmt.Fprintf(&b, "  deliver %q {\n    timeout 5s\n  }\n", TargetURL(t))
		}
		b.WriteString("}\n")
	}
	return b.String()
}
