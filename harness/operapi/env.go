package operapi

import (
	"bufio"
	"bytes"
	"context"
	"encoding/json"
	"errors"
	"fmt"
	"io"
	"net/http"
	"net/http/httptest"
	"os"
	"path/filepath"
	"strconv"
	"strings"
	"sync"
	"sync/atomic"
	"time"

	"github.com/nuetzliches/hookaido/internal/app"
	"github.com/nuetzliches/hookaido/internal/mcp"
	"github.com/nuetzliches/hookaido/internal/queue"
	"github.com/nuetzliches/hookaido/internal/verifhook"
	"github.com/nuetzliches/hookaido/verif/l0"
)

// Env is one production-wired instance around one L0 store, plus (for the MCP
// surfaces) one in-process mcp.Server in admin-proxy mode pointed at the
// instance's admin listener.
type Env struct {
	Surface string
	Managed map[string]Label
	// ActorDenied: the configured actor policy of scoped managed operations does not admit the harness's actor
	ActorDenied bool
	Dir         string
	Clk         *l0.Clock
	Inner       queue.Store
	Dump        l0.Dumper
	Inst        *app.VerifInstance
	Admin       http.Handler // the production admin handler incl. prefix mounting

	mcpIn   io.WriteCloser
	mcpOut  *bufio.Reader
	mcpOutC io.Closer
	mcpDone chan error
	mcpAud  *lockedBuf
	mcpID   int

	closeStore func()
}

type lockedBuf struct {
	mu sync.Mutex
	b  bytes.Buffer
}

func (l *lockedBuf) Write(p []byte) (int, error) {
	l.mu.Lock()
	defer l.mu.Unlock()
	return l.b.Write(p)
}

// take returns what was written since the last call.
func (l *lockedBuf) take() string {
	l.mu.Lock()
	defer l.mu.Unlock()
	s := l.b.String()
	l.b.Reset()
	return s
}

// Boot opens the L0 store of cfg on a fresh fake clock, boots the production
// wiring around that very store object (app.VerifBoot, as `hookaido run`), and
// for the MCP surfaces starts an mcp.Server built the way internal/app/mcp.go
// builds it, in admin-proxy mode (queue backend memory in its configuration
// file) with the admin listen address of the instance.
func Boot(scratch, surface string, variant int, cfg l0.Cfg) (*Env, error) {
	if !ValidSurface(surface) {
		return nil, fmt.Errorf("unknown surface %q", surface)
	}
	dir, err := os.MkdirTemp(scratch, "oper-")
	if err != nil {
		return nil, err
	}
	e := &Env{Surface: surface, Managed: ManagedRoutes(surface, variant), ActorDenied: ActorDenied(surface, variant), Dir: dir, Clk: &l0.Clock{}}
	e.Clk.Set(1000)
	fail := func(err error) (*Env, error) {
		e.Close()
		return nil, err
	}
	cfgPath := filepath.Join(dir, "Hookaidofile")
	cfgBackend := "memory"
	if surface == MCPDirect {
		cfgBackend = "sqlite"
	}
	if err := os.WriteFile(cfgPath, []byte(ConfigText("127.0.0.3:0", e.Managed, cfgBackend, e.ActorDenied)), 0o600); err != nil {
		return fail(err)
	}
	dbPath := filepath.Join(dir, "q.db")
	store, dump, closeFn, err := l0.OpenStore(cfg, e.Clk, dbPath)
	if err != nil {
		return fail(err)
	}
	e.Inner, e.Dump, e.closeStore = store, dump, closeFn
	if surface == MCPDirect {
		// no instance: the MCP server works on the database file itself
		if cfg.Backend != "sqlite" {
			return fail(errors.New("mcp-direct needs the sqlite backend"))
		}
		publishDirectClock()
		if err := e.startMCP(cfgPath, dbPath); err != nil {
			return fail(err)
		}
		return e, nil
	}
	inst, err := app.VerifBoot(app.VerifOptions{ConfigPath: cfgPath, DBPath: filepath.Join(dir, "unused.db"), Store: store, Now: e.Clk.Now})
	if err != nil {
		return fail(fmt.Errorf("boot: %w", err))
	}
	e.Inst = inst
	e.Admin = inst.Handlers["admin_api"]
	if e.Admin == nil {
		return fail(errors.New("instance has no admin_api handler"))
	}
	if inst.Store != store {
		return fail(errors.New("instance does not serve the harness store"))
	}
	if IsMCP(surface) {
		addr := inst.Addrs["admin_api"]
		if addr == "" {
			return fail(errors.New("instance has no admin_api listener address"))
		}
		mcpCfg := filepath.Join(dir, "Hookaidofile.mcp")
		if err := os.WriteFile(mcpCfg, []byte(ConfigText(addr, e.Managed, "memory", e.ActorDenied)), 0o600); err != nil {
			return fail(err)
		}
		if err := e.startMCP(mcpCfg, ""); err != nil {
			return fail(err)
		}
	}
	return e, nil
}

// startMCP starts an in-process mcp.Server the way internal/app/mcp.go builds
// it (role operate, mutations enabled, principal, audit sink) and performs the
// initialize handshake.
func (e *Env) startMCP(cfgPath, dbPath string) error {
	pinR, pinW := io.Pipe()
	poutR, poutW := io.Pipe()
	e.mcpAud = &lockedBuf{}
	srv := mcp.NewServer(pinR, poutW, cfgPath, dbPath,
		mcp.WithRole(mcp.RoleOperate),
		mcp.WithPrincipal(Principal),
		mcp.WithAuditWriter(e.mcpAud),
		mcp.WithMutationsEnabled(true),
		mcp.WithRuntimeControlEnabled(false),
		mcp.WithAdminProxyEndpointAllowlist(nil),
	)
	e.mcpIn, e.mcpOut, e.mcpOutC = pinW, bufio.NewReaderSize(poutR, 1<<16), poutR
	e.mcpDone = make(chan error, 1)
	go func() {
		err := srv.Serve(context.Background())
		_ = poutW.Close()
		e.mcpDone <- err
	}()
	rep, err := e.rpc("initialize", map[string]any{"protocolVersion": "2024-11-05", "capabilities": map[string]any{},
		"clientInfo": map[string]any{"name": "hkv-oper", "version": "0"}})
	if err != nil || rep.Error != nil {
		return fmt.Errorf("mcp initialize failed: %v %+v", err, rep)
	}
	return e.send("notifications/initialized", nil, true)
}

// The clock seam of direct mode (verifhook "mcp.sqlite_now", /repo 35ea3c1) is one process-global function, while every
// Env has its own fake clock and several run side by side in one process: direct-mode tool calls are serialised by
// directMu, and the published function reads the clock of the call that holds the lock.
var (
	directMu    sync.Mutex
	directClock atomic.Pointer[l0.Clock]
	directOnce  sync.Once
)

func publishDirectClock() {
	directOnce.Do(func() {
		verifhook.Publish("mcp.sqlite_now", func() time.Time {
			if c := directClock.Load(); c != nil {
				return c.Now()
			}
			return time.Now()
		})
	})
}

func (e *Env) Close() {
	if e.mcpIn != nil {
		_ = e.mcpIn.Close()
		select {
		case <-e.mcpDone:
		case <-time.After(5 * time.Second):
		}
		_ = e.mcpOutC.Close()
	}
	if e.Inst != nil {
		e.Inst.Stop()
	}
	if e.closeStore != nil {
		e.closeStore()
	}
	if e.Dir != "" {
		_ = os.RemoveAll(e.Dir)
	}
}

// ---------------------------------------------------------------- Admin API, in-process

// HTTPAnswer is what the admin handler answered.
type HTTPAnswer struct {
	Status int
	Body   []byte
}

// adminCall sends one request to the production admin handler.
func (e *Env) adminCall(method, target string, body []byte, headers map[string]string) HTTPAnswer {
	var rd io.Reader
	if body != nil {
		rd = bytes.NewReader(body)
	}
	req := httptest.NewRequest(method, target, rd)
	req.RemoteAddr = "127.0.0.1:40000"
	if body != nil {
		req.Header.Set("Content-Type", "application/json")
	}
	req.Header.Set("Authorization", "Bearer "+AdminTok)
	for k, v := range headers {
		req.Header.Set(k, v)
	}
	rec := httptest.NewRecorder()
	e.Admin.ServeHTTP(rec, req)
	return HTTPAnswer{Status: rec.Code, Body: rec.Body.Bytes()}
}

// ---------------------------------------------------------------- MCP, JSON-RPC over the stdio framing

type rpcReply struct {
	ID     any             `json:"id"`
	Result json.RawMessage `json:"result"`
	Error  *struct {
		Code    int    `json:"code"`
		Message string `json:"message"`
	} `json:"error"`
}

func (e *Env) send(method string, params any, notify bool) error {
	msg := map[string]any{"jsonrpc": "2.0", "method": method}
	if !notify {
		e.mcpID++
		msg["id"] = e.mcpID
	}
	if params != nil {
		msg["params"] = params
	}
	b, err := json.Marshal(msg)
	if err != nil {
		return err
	}
	_, err = fmt.Fprintf(e.mcpIn, "Content-Length: %d\r\n\r\n%s", len(b), b)
	return err
}

func (e *Env) recv() (*rpcReply, error) {
	n := -1
	for {
		line, err := e.mcpOut.ReadString('\n')
		if err != nil {
			return nil, err
		}
		line = strings.TrimRight(line, "\r\n")
		if line == "" {
			break
		}
		if i := strings.IndexByte(line, ':'); i > 0 && strings.EqualFold(strings.TrimSpace(line[:i]), "Content-Length") {
			n, err = strconv.Atoi(strings.TrimSpace(line[i+1:]))
			if err != nil {
				return nil, err
			}
		}
	}
	if n < 0 {
		return nil, errors.New("reply without Content-Length")
	}
	buf := make([]byte, n)
	if _, err := io.ReadFull(e.mcpOut, buf); err != nil {
		return nil, err
	}
	var rep rpcReply
	if err := json.Unmarshal(buf, &rep); err != nil {
		return nil, err
	}
	return &rep, nil
}

func (e *Env) rpc(method string, params any) (*rpcReply, error) {
	type res struct {
		r   *rpcReply
		err error
	}
	ch := make(chan res, 1)
	go func() {
		if err := e.send(method, params, false); err != nil {
			ch <- res{nil, err}
			return
		}
		r, err := e.recv()
		ch <- res{r, err}
	}()
	select {
	case x := <-ch:
		return x.r, x.err
	case <-time.After(60 * time.Second):
		return nil, fmt.Errorf("timeout waiting for the MCP reply to %s", method)
	}
}

// ToolAnswer is the result of one tools/call.
type ToolAnswer struct {
	IsError bool
	Text    string
	Out     map[string]any // structuredContent
	// the audit record the server wrote for this call (mutating tools), parsed
	AuditResult  string
	AuditChanged int // -1 = not in the record
	AuditMatched int
}

func numField(m map[string]any, k string) int {
	if v, ok := m[k]; ok {
		if f, ok := v.(float64); ok {
			return int(f)
		}
	}
	return -1
}

// toolCall performs one tools/call on the MCP server.  A JSON-RPC level error
// is an infrastructure error (the tool names and the framing are the harness's).
func (e *Env) toolCall(name string, args map[string]any) (*ToolAnswer, error) {
	if e.Surface == MCPDirect {
		directMu.Lock()
		directClock.Store(e.Clk)
		defer func() {
			directClock.Store(nil)
			directMu.Unlock()
		}()
	}
	_ = e.mcpAud.take()
	rep, err := e.rpc("tools/call", map[string]any{"name": name, "arguments": args})
	if err != nil {
		return nil, err
	}
	if rep.Error != nil {
		return nil, fmt.Errorf("tools/call %s: rpc error %d %s", name, rep.Error.Code, rep.Error.Message)
	}
	var res struct {
		Content []struct {
			Type string `json:"type"`
			Text string `json:"text"`
		} `json:"content"`
		StructuredContent map[string]any `json:"structuredContent"`
		IsError           bool           `json:"isError"`
	}
	if err := json.Unmarshal(rep.Result, &res); err != nil {
		return nil, fmt.Errorf("tools/call %s: %w", name, err)
	}
	a := &ToolAnswer{IsError: res.IsError, Out: res.StructuredContent, AuditChanged: -1, AuditMatched: -1}
	if len(res.Content) > 0 {
		a.Text = res.Content[0].Text
	}
	if !a.IsError && a.Out == nil {
		return nil, fmt.Errorf("tools/call %s: success without structuredContent", name)
	}
	// the audit line of this call (written before the reply)
	for _, line := range strings.Split(strings.TrimSpace(e.mcpAud.take()), "\n") {
		if strings.TrimSpace(line) == "" {
			continue
		}
		var rec map[string]any
		if json.Unmarshal([]byte(line), &rec) != nil {
			continue
		}
		if t, _ := rec["tool"].(string); t != name {
			continue
		}
		a.AuditResult, _ = rec["result"].(string)
		if md, ok := rec["metadata"].(map[string]any); ok {
			for _, k := range []string{"filter_mutation", "id_mutation"} {
				if fm, ok := md[k].(map[string]any); ok {
					a.AuditChanged = numField(fm, "changed")
					a.AuditMatched = numField(fm, "matched")
				}
			}
		}
	}
	return a, nil
}
