package operapi

import (
	"encoding/base64"
	"encoding/json"
	"fmt"
	"net/url"
	"sort"
	"strconv"
	"strings"
	"time"

	"github.com/nuetzliches/hookaido/internal/queue"
)

// Wire selects the concrete spelling of the NEXT operator call.  The zero
// value is the faithful spelling of the abstract operation.
type Wire struct {
	NoAudit      bool `json:"no_audit,omitempty"`       // omit the audit reason (header / `reason` argument)
	ZeroLiteral  bool `json:"zero_literal,omitempty"`   // abstract limit 0 is sent as the literal 0 instead of being omitted
	ExtraBlankID bool `json:"extra_blank_id,omitempty"` // append a blank entry to the id list
	PadIDsTo     int  `json:"pad_ids_to,omitempty"`     // repeat the id list until it has this many entries (1000 accepted, 1001 refused)
	// DropState makes the DECORATOR forget the state criterion (harness self-test: the trace must then be rejected)
	DropState bool `json:"-"`
}

// Call describes one operator call as it went over the surface.
type Call struct {
	Surface     string   `json:"surface"`
	Kind        string   `json:"kind"` // ids | filter | list | dlq
	Form        string   `json:"form"` // global | selector | path
	Via         string   `json:"via"`  // request line / tool name (diagnostics)
	Audit       bool     `json:"audit"`
	LimitAbsent bool     `json:"limit_absent"`
	LimitWire   int      `json:"limit_wire"`
	TIDs        []string `json:"tids"`     // id list as sent, trimmed (blank entries and repetitions kept)
	Managed     []string `json:"managed"`  // managed routes of the instance configuration
	ActorOK     bool     `json:"actor_ok"` // the configured actor policy of scoped managed operations admits the actor sent
	Refused     bool     `json:"refused"`
	Status      int      `json:"status"` // HTTP status; MCP: 200 / 0
	Code        string   `json:"code"`
	Detail      string   `json:"detail"`
	AudChanged  int      `json:"aud_changed"` // MCP audit record of the call: -1 = not present
	AudMatched  int      `json:"aud_matched"`
	Req         string   `json:"req"` // the request body / arguments, clipped (diagnostics)
}

// Refusal is returned by an operator method of the decorator when the API
// layer refused the request.
type Refusal struct{ Call *Call }

func (r *Refusal) Error() string {
	return fmt.Sprintf("api-refused %d %s %s", r.Call.Status, r.Call.Code, r.Call.Detail)
}

// Store is the queue.Store decorator: operator methods go through the surface
// of Env, every other method is the inner real store.
type Store struct {
	queue.Store // inner
	env         *Env
	wire        Wire
	last        *Call
	infra       error // first infrastructure problem (transport, undecodable answer)
}

func NewStore(env *Env) *Store { return &Store{Store: env.Inner, env: env} }

// SetWire selects the spelling of the next operator call.
func (s *Store) SetWire(w Wire) { s.wire = w }

// Take returns the description of the last operator call (nil if the last
// call was not an operator call) and forgets it.
func (s *Store) Take() *Call {
	c := s.last
	s.last = nil
	return c
}

// Infra returns the first infrastructure problem met (never a verdict).
func (s *Store) Infra() error { return s.infra }

// optional interfaces of the inner store, passed through
func (s *Store) EnqueueBatch(items []queue.Envelope) (int, error) {
	be, ok := s.Store.(queue.BatchEnqueuer)
	if !ok {
		return 0, fmt.Errorf("inner store is not a BatchEnqueuer")
	}
	return be.EnqueueBatch(items)
}
func (s *Store) AckBatch(ids []string) (queue.LeaseBatchResult, error) {
	return s.Store.(queue.LeaseBatchStore).AckBatch(ids)
}
func (s *Store) NackBatch(ids []string, d time.Duration) (queue.LeaseBatchResult, error) {
	return s.Store.(queue.LeaseBatchStore).NackBatch(ids, d)
}
func (s *Store) MarkDeadBatch(ids []string, reason string) (queue.LeaseBatchResult, error) {
	return s.Store.(queue.LeaseBatchStore).MarkDeadBatch(ids, reason)
}

func (s *Store) begin(kind string) (*Call, Wire) {
	w := s.wire
	s.wire = Wire{}
	managed := make([]string, 0, len(s.env.Managed))
	for rt := range s.env.Managed {
		managed = append(managed, rt)
	}
	sort.Strings(managed)
	c := &Call{Surface: s.env.Surface, Kind: kind, Form: "global", Audit: !w.NoAudit, LimitAbsent: true, TIDs: []string{}, Managed: managed, ActorOK: !s.env.ActorDenied,
		AudChanged: -1, AudMatched: -1}
	s.last = c
	return c, w
}

func clip(b string) string {
	if len(b) > 400 {
		return b[:400] + "..."
	}
	return b
}

func (s *Store) fail(c *Call, err error) error {
	if s.infra == nil {
		s.infra = fmt.Errorf("%s %s: %w", c.Surface, c.Via, err)
	}
	return s.infra
}

func auditHeaders(w Wire) map[string]string {
	h := map[string]string{"X-Hookaido-Audit-Actor": Principal, "X-Request-ID": "hkv-oper"}
	if !w.NoAudit {
		h["X-Hookaido-Audit-Reason"] = "verif operator schedule"
	}
	return h
}

func auditArgs(w Wire, args map[string]any) {
	args["request_id"] = "hkv-oper"
	if !w.NoAudit {
		args["reason"] = "verif operator schedule"
	}
}

// httpDo performs an Admin API request and decodes the answer: a 2xx body into
// out, anything else into the refusal fields of c.
func (s *Store) httpDo(c *Call, method, target string, body map[string]any, headers map[string]string, out any) error {
	var raw []byte
	if body != nil {
		var err error
		raw, err = json.Marshal(body)
		if err != nil {
			return s.fail(c, err)
		}
		c.Req = clip(string(raw))
	} else {
		c.Req = clip(target)
	}
	c.Via = method + " " + strings.SplitN(target, "?", 2)[0]
	ans := s.env.adminCall(method, target, raw, headers)
	c.Status = ans.Status
	if ans.Status >= 200 && ans.Status < 300 {
		if err := json.Unmarshal(ans.Body, out); err != nil {
			return s.fail(c, fmt.Errorf("undecodable %d answer: %v: %s", ans.Status, err, clip(string(ans.Body))))
		}
		return nil
	}
	var e struct {
		Code   string `json:"code"`
		Detail string `json:"detail"`
	}
	_ = json.Unmarshal(ans.Body, &e)
	c.Refused, c.Code, c.Detail = true, e.Code, clip(e.Detail)
	if c.Code == "" {
		c.Detail = clip(string(ans.Body))
	}
	return &Refusal{c}
}

// mcpDo performs a tool call and decodes structuredContent into out.
func (s *Store) mcpDo(c *Call, tool string, args map[string]any, out any) error {
	raw, _ := json.Marshal(args)
	c.Req = clip(string(raw))
	c.Via = "tool " + tool
	ans, err := s.env.toolCall(tool, args)
	if err != nil {
		return s.fail(c, err)
	}
	c.AudChanged, c.AudMatched = ans.AuditChanged, ans.AuditMatched
	if ans.IsError {
		c.Refused, c.Status, c.Code, c.Detail = true, 0, "tool_error", clip(ans.Text)
		return &Refusal{c}
	}
	c.Status = 200
	b, err := json.Marshal(ans.Out)
	if err != nil {
		return s.fail(c, err)
	}
	if err := json.Unmarshal(b, out); err != nil {
		return s.fail(c, fmt.Errorf("undecodable tool output: %v: %s", err, clip(string(b))))
	}
	return nil
}

// ---------------------------------------------------------------- by-id mutations

type idAnswer struct {
	Canceled *int `json:"canceled"`
	Requeued *int `json:"requeued"`
	Resumed  *int `json:"resumed"`
	Deleted  *int `json:"deleted"`
}

var idPaths = map[string][3]string{ // op -> HTTP path, tool, count field
	"cancel":      {"/messages/cancel", "messages_cancel", "canceled"},
	"requeue":     {"/messages/requeue", "messages_requeue", "requeued"},
	"resume":      {"/messages/resume", "messages_resume", "resumed"},
	"requeuedead": {"/dlq/requeue", "dlq_requeue", "requeued"},
	"deletedead":  {"/dlq/delete", "dlq_delete", "deleted"},
}

// mutateIDs sends the id list as given (the API layer trims, refuses blank
// entries and de-duplicates).  The by-id answers carry one number - the count
// of changed messages.
func (s *Store) mutateIDs(op string, ids []string) (int, error) {
	c, w := s.begin("ids")
	wire := append([]string{}, ids...)
	if w.PadIDsTo > 0 && len(wire) > 0 {
		for i := 0; len(wire) < w.PadIDsTo; i++ {
			wire = append(wire, ids[i%len(ids)])
		}
	}
	if w.ExtraBlankID {
		wire = append(wire, " ")
	}
	for _, id := range wire {
		c.TIDs = append(c.TIDs, strings.TrimSpace(id))
	}
	p := idPaths[op]
	var ans idAnswer
	var err error
	if IsMCP(s.env.Surface) {
		args := map[string]any{"ids": wire}
		auditArgs(w, args)
		err = s.mcpDo(c, p[1], args, &ans)
	} else {
		err = s.httpDo(c, "POST", p[0], map[string]any{"ids": wire}, auditHeaders(w), &ans)
	}
	if len(c.Req) >= 400 {
		c.Req = fmt.Sprintf("{\"ids\": [%d entries]}", len(wire))
	}
	if err != nil {
		return 0, err
	}
	var n *int
	switch p[2] {
	case "canceled":
		n = ans.Canceled
	case "requeued":
		n = ans.Requeued
	case "resumed":
		n = ans.Resumed
	case "deleted":
		n = ans.Deleted
	}
	if n == nil {
		return 0, s.fail(c, fmt.Errorf("answer has no %q count", p[2]))
	}
	return *n, nil
}

func (s *Store) CancelMessages(req queue.MessageCancelRequest) (queue.MessageCancelResponse, error) {
	n, err := s.mutateIDs("cancel", req.IDs)
	return queue.MessageCancelResponse{Canceled: n, Matched: n}, err
}
func (s *Store) RequeueMessages(req queue.MessageRequeueRequest) (queue.MessageRequeueResponse, error) {
	n, err := s.mutateIDs("requeue", req.IDs)
	return queue.MessageRequeueResponse{Requeued: n, Matched: n}, err
}
func (s *Store) ResumeMessages(req queue.MessageResumeRequest) (queue.MessageResumeResponse, error) {
	n, err := s.mutateIDs("resume", req.IDs)
	return queue.MessageResumeResponse{Resumed: n, Matched: n}, err
}
func (s *Store) RequeueDead(req queue.DeadRequeueRequest) (queue.DeadRequeueResponse, error) {
	n, err := s.mutateIDs("requeuedead", req.IDs)
	return queue.DeadRequeueResponse{Requeued: n}, err
}
func (s *Store) DeleteDead(req queue.DeadDeleteRequest) (queue.DeadDeleteResponse, error) {
	n, err := s.mutateIDs("deletedead", req.IDs)
	return queue.DeadDeleteResponse{Deleted: n}, err
}

// ---------------------------------------------------------------- by-filter mutations

type filterAnswer struct {
	Matched     *int  `json:"matched"`
	Canceled    int   `json:"canceled"`
	Requeued    int   `json:"requeued"`
	Resumed     int   `json:"resumed"`
	PreviewOnly *bool `json:"preview_only"`
}

func rfc(t time.Time) string { return t.UTC().Format(time.RFC3339Nano) }

// selector decides the form of a route-scoped request on this surface.
func (s *Store) selector(route string) (form string, l Label) {
	l, managed := s.env.Managed[route]
	if !managed {
		return "global", Label{}
	}
	switch s.env.Surface {
	case HTTPSelector, MCPDirect:
		return "selector", l
	case HTTPScoped, MCPScoped:
		return "path", l
	}
	return "global", Label{}
}

func scopedPath(l Label, action string) string {
	p := "/applications/" + url.PathEscape(l.App) + "/endpoints/" + url.PathEscape(l.Ep) + "/messages"
	if action != "" {
		p += "/" + action
	}
	return p
}

// setLimit puts the abstract limit on the wire: 0 (unspecified) is omitted
// unless the variant asks for the literal, everything else is sent as is.
func setLimit(c *Call, w Wire, limit int, put func(int)) {
	if limit == 0 && !w.ZeroLiteral {
		c.LimitAbsent = true
		return
	}
	c.LimitAbsent, c.LimitWire = false, limit
	put(limit)
}

func (s *Store) mutateFilter(op string, req queue.MessageManageFilterRequest) (n, matched int, preview bool, err error) {
	c, w := s.begin("filter")
	form, lab := s.selector(req.Route)
	c.Form = form
	action := op + "_by_filter"
	state := string(req.State)
	if w.DropState {
		state = ""
	}
	var ans filterAnswer
	if IsMCP(s.env.Surface) {
		args := map[string]any{}
		auditArgs(w, args)
		if form != "global" {
			args["application"], args["endpoint_name"] = lab.App, lab.Ep
		} else if req.Route != "" {
			args["route"] = req.Route
		}
		if req.Target != "" {
			args["target"] = req.Target
		}
		if state != "" {
			args["state"] = state
		}
		if !req.Before.IsZero() {
			args["before"] = rfc(req.Before)
		}
		if req.PreviewOnly {
			args["preview_only"] = true
		}
		setLimit(c, w, req.Limit, func(l int) { args["limit"] = l })
		err = s.mcpDo(c, "messages_"+action, args, &ans)
	} else {
		body := map[string]any{}
		path := "/messages/" + action
		switch form {
		case "path":
			path = scopedPath(lab, action)
		case "selector":
			body["application"], body["endpoint_name"] = lab.App, lab.Ep
		default:
			if req.Route != "" {
				body["route"] = req.Route
			}
		}
		if req.Target != "" {
			body["target"] = req.Target
		}
		if state != "" {
			body["state"] = state
		}
		if !req.Before.IsZero() {
			body["before"] = rfc(req.Before)
		}
		if req.PreviewOnly {
			body["preview_only"] = true
		}
		setLimit(c, w, req.Limit, func(l int) { body["limit"] = l })
		err = s.httpDo(c, "POST", path, body, auditHeaders(w), &ans)
	}
	if err != nil {
		return 0, 0, false, err
	}
	if ans.Matched == nil || ans.PreviewOnly == nil {
		return 0, 0, false, s.fail(c, fmt.Errorf("answer lacks matched / preview_only"))
	}
	switch op {
	case "cancel":
		n = ans.Canceled
	case "requeue":
		n = ans.Requeued
	case "resume":
		n = ans.Resumed
	}
	return n, *ans.Matched, *ans.PreviewOnly, nil
}

func (s *Store) CancelMessagesByFilter(req queue.MessageManageFilterRequest) (queue.MessageCancelResponse, error) {
	n, m, p, err := s.mutateFilter("cancel", req)
	return queue.MessageCancelResponse{Canceled: n, Matched: m, PreviewOnly: p}, err
}
func (s *Store) RequeueMessagesByFilter(req queue.MessageManageFilterRequest) (queue.MessageRequeueResponse, error) {
	n, m, p, err := s.mutateFilter("requeue", req)
	return queue.MessageRequeueResponse{Requeued: n, Matched: m, PreviewOnly: p}, err
}
func (s *Store) ResumeMessagesByFilter(req queue.MessageManageFilterRequest) (queue.MessageResumeResponse, error) {
	n, m, p, err := s.mutateFilter("resume", req)
	return queue.MessageResumeResponse{Resumed: n, Matched: m, PreviewOnly: p}, err
}

// ---------------------------------------------------------------- listings

type listItem struct {
	ID         string            `json:"id"`
	Route      string            `json:"route"`
	Target     string            `json:"target"`
	State      string            `json:"state"`
	ReceivedAt string            `json:"received_at"`
	Attempt    int               `json:"attempt"`
	NextRunAt  string            `json:"next_run_at"`
	DeadReason string            `json:"dead_reason"`
	PayloadB64 string            `json:"payload_b64"`
	Headers    map[string]string `json:"headers"`
	Trace      map[string]string `json:"trace"`
}

type listAnswer struct {
	Items *[]listItem `json:"items"`
}

func parseT(s string) (time.Time, error) {
	if s == "" {
		return time.Time{}, nil
	}
	t, err := time.Parse(time.RFC3339Nano, s)
	if err != nil {
		return time.Time{}, err
	}
	if t.Year() <= 1 {
		return time.Time{}, nil
	}
	return t.UTC(), nil
}

func (s *Store) envelopes(c *Call, items []listItem) ([]queue.Envelope, error) {
	out := make([]queue.Envelope, 0, len(items))
	for _, it := range items {
		recv, err := parseT(it.ReceivedAt)
		if err != nil {
			return nil, s.fail(c, fmt.Errorf("received_at of %s: %v", it.ID, err))
		}
		next, err := parseT(it.NextRunAt)
		if err != nil {
			return nil, s.fail(c, fmt.Errorf("next_run_at of %s: %v", it.ID, err))
		}
		var pl []byte
		if it.PayloadB64 != "" {
			pl, err = base64.StdEncoding.DecodeString(it.PayloadB64)
			if err != nil {
				return nil, s.fail(c, fmt.Errorf("payload_b64 of %s: %v", it.ID, err))
			}
		}
		out = append(out, queue.Envelope{ID: it.ID, Route: it.Route, Target: it.Target, State: queue.State(it.State), ReceivedAt: recv,
			Attempt: it.Attempt, NextRunAt: next, DeadReason: it.DeadReason, Payload: pl, Headers: it.Headers, Trace: it.Trace})
	}
	return out, nil
}

// ListMessages: GET /messages (or the endpoint-scoped listing) / tool
// messages_list.  The API has no order parameter (always newest first); the
// executor never asks the decorator for another order.
func (s *Store) ListMessages(req queue.MessageListRequest) (queue.MessageListResponse, error) {
	c, w := s.begin("list")
	if o := strings.ToLower(strings.TrimSpace(req.Order)); o != "" && o != "desc" {
		return queue.MessageListResponse{}, s.fail(c, fmt.Errorf("order %q cannot be expressed on the API", req.Order))
	}
	form, lab := s.selector(req.Route)
	c.Form = form
	var ans listAnswer
	var err error
	if IsMCP(s.env.Surface) {
		args := map[string]any{}
		if form != "global" {
			args["application"], args["endpoint_name"] = lab.App, lab.Ep
		} else if req.Route != "" {
			args["route"] = req.Route
		}
		if req.Target != "" {
			args["target"] = req.Target
		}
		if req.State != "" {
			args["state"] = string(req.State)
		}
		if !req.Before.IsZero() {
			args["before"] = rfc(req.Before)
		}
		if req.IncludePayload {
			args["include_payload"] = true
		}
		if req.IncludeHeaders {
			args["include_headers"] = true
		}
		if req.IncludeTrace {
			args["include_trace"] = true
		}
		setLimit(c, w, req.Limit, func(l int) { args["limit"] = l })
		err = s.mcpDo(c, "messages_list", args, &ans)
	} else {
		q := url.Values{}
		path := "/messages"
		switch form {
		case "path":
			path = scopedPath(lab, "")
		case "selector":
			q.Set("application", lab.App)
			q.Set("endpoint_name", lab.Ep)
		default:
			if req.Route != "" {
				q.Set("route", req.Route)
			}
		}
		if req.Target != "" {
			q.Set("target", req.Target)
		}
		if req.State != "" {
			q.Set("state", string(req.State))
		}
		if !req.Before.IsZero() {
			q.Set("before", rfc(req.Before))
		}
		if req.IncludePayload {
			q.Set("include_payload", "true")
		}
		if req.IncludeHeaders {
			q.Set("include_headers", "1")
		}
		if req.IncludeTrace {
			q.Set("include_trace", "yes")
		}
		setLimit(c, w, req.Limit, func(l int) { q.Set("limit", strconv.Itoa(l)) })
		target := path
		if len(q) > 0 {
			target += "?" + q.Encode()
		}
		err = s.httpDo(c, "GET", target, nil, nil, &ans)
	}
	if err != nil {
		return queue.MessageListResponse{}, err
	}
	if ans.Items == nil {
		return queue.MessageListResponse{}, s.fail(c, fmt.Errorf("answer has no items"))
	}
	items, err := s.envelopes(c, *ans.Items)
	return queue.MessageListResponse{Items: items}, err
}

// ListDead: GET /dlq / tool dlq_list.  The DLQ listing does not carry state
// and next_run_at; they are completed from the store dump by id (so the field
// checks of these two columns are vacuous on the API surfaces; they are
// checked at L0).
func (s *Store) ListDead(req queue.DeadListRequest) (queue.DeadListResponse, error) {
	c, w := s.begin("dlq")
	var ans listAnswer
	var err error
	if IsMCP(s.env.Surface) {
		args := map[string]any{}
		if req.Route != "" {
			args["route"] = req.Route
		}
		if !req.Before.IsZero() {
			args["before"] = rfc(req.Before)
		}
		if req.IncludePayload {
			args["include_payload"] = true
		}
		if req.IncludeHeaders {
			args["include_headers"] = true
		}
		if req.IncludeTrace {
			args["include_trace"] = true
		}
		setLimit(c, w, req.Limit, func(l int) { args["limit"] = l })
		err = s.mcpDo(c, "dlq_list", args, &ans)
	} else {
		q := url.Values{}
		if req.Route != "" {
			q.Set("route", req.Route)
		}
		if !req.Before.IsZero() {
			q.Set("before", rfc(req.Before))
		}
		if req.IncludePayload {
			q.Set("include_payload", "on")
		}
		if req.IncludeHeaders {
			q.Set("include_headers", "true")
		}
		if req.IncludeTrace {
			q.Set("include_trace", "true")
		}
		setLimit(c, w, req.Limit, func(l int) { q.Set("limit", strconv.Itoa(l)) })
		target := "/dlq"
		if len(q) > 0 {
			target += "?" + q.Encode()
		}
		err = s.httpDo(c, "GET", target, nil, nil, &ans)
	}
	if err != nil {
		return queue.DeadListResponse{}, err
	}
	if ans.Items == nil {
		return queue.DeadListResponse{}, s.fail(c, fmt.Errorf("answer has no items"))
	}
	items, err := s.envelopes(c, *ans.Items)
	if err != nil {
		return queue.DeadListResponse{}, err
	}
	rows, derr := s.env.Dump.Dump()
	if derr != nil {
		return queue.DeadListResponse{}, s.fail(c, derr)
	}
	byID := make(map[string]queue.Envelope, len(rows))
	for _, r := range rows {
		byID[r.Env.ID] = r.Env
	}
	for i := range items {
		if m, ok := byID[items[i].ID]; ok {
			items[i].State, items[i].NextRunAt = m.State, m.NextRunAt
		}
	}
	return queue.DeadListResponse{Items: items}, nil
}

var _ queue.Store = (*Store)(nil)
