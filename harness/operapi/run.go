package operapi

import (
	"errors"
	"fmt"
	"hash/fnv"
	"io"
	"strings"

	"github.com/nuetzliches/hookaido/internal/queue"
	"github.com/nuetzliches/hookaido/verif/l0"
)

// Counters are the non-vacuity counters of a run (keys are
// "<what>|<surface>|..." strings; see c14api.py).
type Counters map[string]int

func (c Counters) add(parts ...string) { c[strings.Join(parts, "|")]++ }

// Opts tunes an execution.
type Opts struct {
	// SelfTest "dropstate": the decorator forgets the state criterion of every by-filter mutation (the trace must be rejected).
	SelfTest string
	// NoHostile switches the refusal-provoking spellings off (replays of a recorded wire plan do not need it: the plan is
	// a function of the schedule name).
	NoHostile bool
}

// Adapt rewrites a store-level schedule into what the API surfaces can
// express, without changing what it means for the trace specification:
//   - targets t<k> are renamed to the configured delivery URLs (everywhere);
//   - a listing's order argument is dropped (the API lists newest first only);
//   - FilterRace (a by-filter mutation paused between its two statements) becomes the plain mutation followed by the
//     inner operations - the pause is a store-level hook, exercised at L0; HandleRace likewise becomes its two calls in
//     sequence, Reopen is dropped.
func Adapt(ops []l0.Op) []l0.Op {
	out := make([]l0.Op, 0, len(ops))
	var one func(op l0.Op)
	one = func(op l0.Op) {
		if op.Op == "FilterRace" {
			one(l0.Op{Op: "MutateFilter", MOp: op.MOp, F: op.F})
			for _, in := range op.Inner {
				one(in)
			}
			return
		}
		if op.Op == "HandleRace" {
			// a second handle on the database is a store-level scenario (L0): here the two calls run one after the other
			for _, in := range op.Inner {
				one(in)
			}
			return
		}
		if op.Op == "Reopen" {
			return // restart of the store: L0 (and L2 on the real binary)
		}
		if op.Env != nil {
			e := *op.Env
			e.Tg = TargetURL(e.Tg)
			op.Env = &e
		}
		if op.Envs != nil {
			envs := make([]l0.EnvSpec, len(op.Envs))
			for i, e := range op.Envs {
				e.Tg = TargetURL(e.Tg)
				envs[i] = e
			}
			op.Envs = envs
		}
		op.Tg = TargetURL(op.Tg)
		if op.F != nil {
			f := *op.F
			f.Tg = TargetURL(f.Tg)
			op.F = &f
		}
		if op.Op == "ListMessages" {
			op.Order = ""
		}
		out = append(out, op)
	}
	for _, op := range ops {
		one(op)
	}
	return out
}

func hashOf(name string, idx int) uint32 {
	h := fnv.New32a()
	fmt.Fprintf(h, "%s#%d", name, idx)
	return h.Sum32()
}

// wirePlan: the spellings tried for one operation, in order.  The last entry
// is the spelling that stands for the abstract operation; the ones before it
// are refusal-provoking spellings of the same operation (the API layer must
// refuse them and change nothing), so the schedule continues on its intended
// path afterwards.
func wirePlan(op l0.Op, surface string, h uint32, hostile bool) []Wire {
	mcp := IsMCP(surface)
	var plan []Wire
	base := Wire{}
	switch op.Op {
	case "MutateIds":
		if hostile {
			switch h % 12 {
			case 0:
				plan = append(plan, Wire{NoAudit: true})
			case 1:
				plan = append(plan, Wire{ExtraBlankID: true})
			case 2:
				plan = append(plan, Wire{PadIDsTo: 1001})
			case 3:
				base = Wire{PadIDsTo: 1000} // the cap itself: accepted
			}
		}
	case "MutateFilter":
		if hostile && h%10 == 0 {
			plan = append(plan, Wire{NoAudit: true})
		}
		if op.F == nil || op.F.Limit == 0 {
			if mcp {
				if hostile && (h>>4)%4 == 0 {
					plan = append(plan, Wire{ZeroLiteral: true}) // the tools refuse a literal 0
				}
			} else if (h>>4)%2 == 0 {
				base = Wire{ZeroLiteral: true} // POST body: a literal 0 means the default
			}
		}
	case "ListMessages", "ListDead":
		if (op.F == nil || op.F.Limit == 0) && hostile && (h>>4)%4 == 0 {
			plan = append(plan, Wire{ZeroLiteral: true}) // GET ?limit=0 and the tools refuse a literal 0
		}
	}
	return append(plan, base)
}

// allowedFrom: the states an operation is defined for (used for the coverage
// counters only, never for a verdict).
var allowedFrom = map[string]map[string]bool{
	"cancel":  {"queued": true, "leased": true, "dead": true},
	"requeue": {"dead": true, "canceled": true},
	"resume":  {"canceled": true},
}

// filterCoverage inspects the table before a by-filter mutation: how many
// messages match every criterion, and whether the target criterion alone
// excluded a message of the same route that matches all the others.
func filterCoverage(rows []queue.VerifRow, mop string, f *l0.Filter) (matches int, targetExcluded bool, states map[string]bool) {
	states = map[string]bool{}
	if f == nil {
		f = &l0.Filter{}
	}
	for _, r := range rows {
		m := r.Env
		if !allowedFrom[mop][string(m.State)] {
			continue
		}
		if f.St != "" && string(m.State) != f.St {
			continue
		}
		if f.Rt != "" && m.Route != f.Rt {
			continue
		}
		if f.Before != 0 && !(l0.TimeTick(m.ReceivedAt) < f.Before) {
			continue
		}
		if f.Tg != "" && m.Target != f.Tg {
			if f.Rt != "" {
				targetExcluded = true
			}
			continue
		}
		matches++
		states[string(m.State)] = true
	}
	return
}

func critKey(f *l0.Filter) string {
	if f == nil {
		return "none"
	}
	var k []string
	if f.Rt != "" {
		k = append(k, "rt")
	}
	if f.Tg != "" {
		k = append(k, "tg")
	}
	if f.St != "" {
		k = append(k, "st")
	}
	if f.Before != 0 {
		k = append(k, "before")
	}
	if len(k) == 0 {
		return "none"
	}
	return strings.Join(k, "+")
}

func limitClass(l int) string {
	switch {
	case l < 0:
		return "neg"
	case l == 0:
		return "0"
	case l == 1:
		return "1"
	case l > 1000:
		return "gt1000"
	case l == 1000:
		return "1000"
	}
	return "mid"
}

// Run executes one schedule (already adapted) through one surface on one
// backend configuration and appends the trace.  The events are those of
// l0.ExecOp completed by the post-state dump (l0.Runner.EmitWithPost); events
// of operator calls additionally carry `api` (Call); a refused call is logged
// as ev = "ApiRefused" with the name of the refused event in a.orig.
func Run(w io.Writer, scratch, name, surface string, variant int, cfg l0.Cfg, ops []l0.Op, o Opts, cnt Counters) (events int, err error) {
	env, err := Boot(scratch, surface, variant, cfg)
	if err != nil {
		return 0, err
	}
	defer env.Close()
	dec := NewStore(env)
	run := l0.NewRunner(w, env.Dir)
	defer func() {
		if ferr := run.W.Flush(); err == nil {
			err = ferr
		}
		events = run.Events
	}()
	if cfg.Dev == nil {
		cfg.Dev = []string{}
	}
	managed := []string{}
	for _, rt := range Routes {
		if _, ok := env.Managed[rt]; ok {
			managed = append(managed, rt)
		}
	}
	if err := run.EmitRaw(l0.Event{"ev": "Reset", "tr": name, "cfg": cfg, "now": env.Clk.Tick(), "surface": surface, "managed": managed}); err != nil {
		return 0, err
	}
	book := l0.NewLeaseBook()
	ops = append([]l0.Op{}, ops...)
	for idx := 0; idx < len(ops); idx++ {
		depth := 0
	again:
		op := ops[idx]
		refusedLast := false
		h := hashOf(name, idx) + uint32(depth)*7919
		for _, wire := range wirePlan(op, surface, h, !o.NoHostile && depth == 0) {
			if o.SelfTest == "dropstate" {
				wire.DropState = true
			}
			var rows []queue.VerifRow
			if op.Op == "MutateFilter" {
				if rows, err = env.Dump.Dump(); err != nil {
					return 0, err
				}
			}
			dec.SetWire(wire)
			ev, xerr := l0.ExecOp(dec, env.Clk, book, op)
			if ierr := dec.Infra(); ierr != nil {
				return 0, fmt.Errorf("%s step %d (%s): %w", name, idx, op.Op, ierr)
			}
			if xerr != nil {
				return 0, fmt.Errorf("%s step %d (%s): %w", name, idx, op.Op, xerr)
			}
			call := dec.Take()
			if call != nil {
				ev["api"] = call
				count(cnt, surface, op, call, rows)
				if call.Refused {
					ev = refusedEvent(ev, op, call)
				}
			} else if r, ok := ev["r"].(map[string]any); ok {
				if s, _ := r["err"].(string); strings.HasPrefix(s, "other:api-refused") {
					return 0, errors.New("refusal without a call record")
				}
			}
			if err := run.EmitWithPost(ev, env.Dump, env.Clk); err != nil {
				return 0, err
			}
			refusedLast = call != nil && call.Refused
		}
		// the operation itself was refused for its spelling of the limit / a blank id: the operator's next move is the
		// nearest request the layer accepts (limit clamped into 0..1000, blank ids left out) - a NEW abstract operation with
		// its own event, which keeps the schedule on the path the store-level generator meant it to take
		if fb, ok := fallback(op); ok && refusedLast && depth == 0 {
			depth = 1
			ops[idx] = fb
			goto again
		}
	}
	return run.Events, nil
}

// fallback: the nearest operation without a refusable limit spelling / blank ids.
func fallback(op l0.Op) (l0.Op, bool) {
	switch op.Op {
	case "MutateFilter", "ListMessages", "ListDead":
		if op.F != nil && (op.F.Limit < 0 || op.F.Limit > 1000) {
			f := *op.F
			if f.Limit < 0 {
				f.Limit = 0
			} else {
				f.Limit = 1000
			}
			op.F = &f
			return op, true
		}
	case "MutateIds":
		var ids []string
		for _, id := range op.IDs {
			if strings.TrimSpace(id) != "" {
				ids = append(ids, id)
			}
		}
		if len(ids) > 0 && len(ids) < len(op.IDs) {
			op.IDs = ids
			return op, true
		}
	}
	return op, false
}

// refusedEvent turns the executor's event of a refused call into the
// ApiRefused event: same arguments, the refused event's name in a.orig, the
// refusal in r.  Every field the trace specification reads is present.
func refusedEvent(ev l0.Event, op l0.Op, c *Call) l0.Event {
	f := op.F
	if f == nil {
		f = &l0.Filter{}
	}
	mop := op.MOp
	if mop == "" {
		mop = "list"
	}
	return l0.Event{"ev": "ApiRefused",
		"a": map[string]any{"orig": ev["ev"], "op": mop, "preview": op.Preview,
			"f": map[string]any{"rt": f.Rt, "tg": f.Tg, "st": f.St, "before": f.Before, "limit": f.Limit}},
		"r":   map[string]any{"status": c.Status, "code": c.Code, "detail": c.Detail},
		"api": c}
}

func count(cnt Counters, surface string, op l0.Op, c *Call, rows []queue.VerifRow) {
	if cnt == nil {
		return
	}
	res := "ok"
	if c.Refused {
		res = "refused"
	}
	switch op.Op {
	case "MutateIds":
		cnt.add("op", surface, op.MOp, "byid", res)
		if !c.ActorOK && !c.Refused {
			cnt.add("actor_denied_pass_unmanaged", surface)
		}
		if !c.Refused {
			seen := map[string]bool{}
			for _, id := range c.TIDs {
				if seen[id] {
					cnt.add("ids_duplicate", surface)
					break
				}
				seen[id] = true
			}
			for _, id := range c.TIDs {
				if id == "nope" {
					cnt.add("ids_unknown", surface)
					break
				}
			}
			if len(c.TIDs) == 1000 {
				cnt.add("ids_1000", surface)
			}
		}
	case "MutateFilter":
		cnt.add("op", surface, op.MOp, "byfilter", res)
		cnt.add("form", surface, c.Form, res)
		f := op.F
		if f == nil {
			f = &l0.Filter{}
		}
		if !c.Refused {
			cnt.add("crit", surface, critKey(f))
			cnt.add("limit", surface, limitClass(f.Limit))
			if op.Preview {
				cnt.add("preview", surface)
			}
			matches, excl, states := filterCoverage(rows, op.MOp, f)
			if matches > 0 {
				cnt.add("filter_matched_some", surface)
			}
			if excl && matches > 0 {
				cnt.add("target_excluded", surface)
			}
			if excl && matches > 0 && c.Form != "global" {
				cnt.add("target_excluded_scoped", surface)
			}
			eff := f.Limit
			if eff <= 0 {
				eff = 100
			}
			if eff > 1000 {
				eff = 1000
			}
			if matches > eff {
				cnt.add("limit_binding", surface)
				if f.Limit == 0 {
					cnt.add("cap_default_100", surface)
				}
				if eff == 1000 {
					cnt.add("cap_max_1000", surface)
				}
			}
			if f.Limit > 0 && matches < f.Limit && matches > 0 {
				cnt.add("limit_above_matches", surface)
			}
			for st := range states {
				cnt.add("from_state", surface, op.MOp, st)
			}
		}
	case "ListMessages":
		cnt.add("op", surface, "list", "messages", res)
	case "ListDead":
		cnt.add("op", surface, "list", "dlq", res)
	}
	if c.Refused {
		why := "other"
		switch {
		case !c.Audit:
			why = "no_audit"
		case !c.ActorOK && (c.Kind == "ids" || (c.Kind == "filter" && c.Form != "global")):
			why = "actor"
		case c.Kind == "ids":
			why = "ids"
		case !c.LimitAbsent && (c.LimitWire <= 0 || c.LimitWire > 1000):
			why = "limit"
		case c.Kind == "filter" && op.F != nil && op.F.St != "" && !allowedFrom[op.MOp][op.F.St]:
			why = "state"
		case c.Kind == "filter" && c.Form == "global" && len(c.Managed) > 0:
			why = "selector"
		}
		cnt.add("refused", surface, why)
	}
}
