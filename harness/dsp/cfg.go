package dsp

import (
	"fmt"
	"math"
	"time"

	"github.com/nuetzliches/hookaido/internal/config"
	"github.com/nuetzliches/hookaido/internal/dispatcher"
)

// CompileRetry pushes a `retry` directive through the real configuration
// pipeline (config.Parse + config.Compile of a minimal outbound route) and
// returns the retry configuration the dispatcher would be started with
// (field by field as app.buildDispatchRoutes copies it).  rejected is the
// validation text when the configuration is not accepted.
func CompileRetry(directive string) (rc dispatcher.RetryConfig, rejected string, err error) {
	text := fmt.Sprintf("outbound /r1 {\n  deliver \"https://t1.verif.test/hook\" {\n    retry %s\n    timeout 1s\n  }\n}\n", directive)
	cfg, perr := config.Parse([]byte(text))
	if perr != nil {
		return rc, "parse: " + perr.Error(), nil
	}
	compiled, res := config.Compile(cfg)
	if !res.OK {
		return rc, "compile: " + config.FormatValidationText(res), nil
	}
	for _, rt := range compiled.Routes {
		if rt.Path != "/r1" || len(rt.Deliveries) != 1 {
			continue
		}
		d := rt.Deliveries[0]
		return dispatcher.RetryConfig{Type: d.Retry.Type, Max: d.Retry.Max, Base: d.Retry.Base, Cap: d.Retry.Cap, Jitter: d.Retry.Jitter}, "", nil
	}
	return rc, "", fmt.Errorf("compiled configuration has no route /r1 with one delivery")
}

// retryBox expresses a retry configuration in the integer vocabulary of
// Dispatch.tla (microseconds, jitter as jn/jd) and refuses configurations
// outside the box in which the specification's arithmetic is exact.
func retryBox(rc dispatcher.RetryConfig) (map[string]any, error) {
	if rc.Base%time.Microsecond != 0 || rc.Cap%time.Microsecond != 0 {
		return nil, fmt.Errorf("base/cap not whole microseconds: %s %s", rc.Base, rc.Cap)
	}
	base, cp := int64(rc.Base/time.Microsecond), int64(rc.Cap/time.Microsecond)
	if base < 1 || base > cp || cp > 1000000000 {
		return nil, fmt.Errorf("base/cap outside the supported box: %s %s", rc.Base, rc.Cap)
	}
	const jd = 10000
	jn := math.Round(rc.Jitter * jd)
	if math.Abs(rc.Jitter-jn/jd) > 1e-12 || jn < 0 || jn > jd {
		return nil, fmt.Errorf("jitter %v is not a multiple of 1/%d in [0,1]", rc.Jitter, jd)
	}
	if rc.Max < 1 {
		return nil, fmt.Errorf("max %d", rc.Max)
	}
	return map[string]any{"max": rc.Max, "base": base, "cap": cp, "jn": int(jn), "jd": jd}, nil
}
