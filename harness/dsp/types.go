// Package dsp runs the real dispatcher.PushDispatcher (Start / Drain) on a
// real queue store behind a tracing decorator, on a fake clock, with a gated
// stub Deliverer (or the real HTTPDeliverer against a loopback server), and
// records one ndjson event per observable step for TLC (spec/DispatchTrace.tla).
//
// Nothing in this package decides whether the dispatcher behaved correctly:
// it only imposes inputs (target behaviour scripts, operator requeues, release
// order of blocked deliveries, clock jumps) and records observations.
package dsp

import (
	"time"
)

// Base is second 0 of the fake clock.
var Base = time.Date(2025, 1, 1, 0, 0, 0, 0, time.UTC)

// TS is a point in time as (whole seconds since Base, nanoseconds within the
// second).  TLC integers are 32 bit, so absolute times are never a single
// number in the trace; the specification computes delays from two TS values.
// The zero time is {-1, 0}.
type TS struct {
	S int `json:"s"`
	N int `json:"n"`
}

func ToTS(t time.Time) TS {
	if t.IsZero() {
		return TS{S: -1}
	}
	d := t.Sub(Base)
	return TS{S: int(d / time.Second), N: int(d % time.Second)}
}

// ResSpec is one element of a target script: either an abstract result class
// (Cls, made concrete by the runner with the run's seed) or a concrete result
// (Kind/Code).
//
// Via (real HTTPDeliverer only) asks for a redirect: the first hop passes the
// egress policy and answers Code (301/302/307/308) with a Location that the
// policy of that delivery denies - by deny rule ("deny"), by CIDR deny rule
// ("denycidr"), by scheme ("scheme"), by allowlist miss ("allow"), by DNS
// rebind protection ("rebind") - or allows ("follow", the control case: the
// redirect is followed and the second host answers 200).
type ResSpec struct {
	Cls  string `json:"cls,omitempty"`
	Kind string `json:"kind,omitempty"` // status | neterr | timeout | denied
	Code int    `json:"code,omitempty"`
	Via  string `json:"via,omitempty"`
}

// TargetSpec describes one deliver target of the route under test.  Either
// Retry (a `retry` directive, compiled through config.Parse + config.Compile)
// or the explicit numbers are given.
type TargetSpec struct {
	Name   string `json:"name"`
	Retry  string `json:"retry,omitempty"`
	Max    int    `json:"max,omitempty"`
	BaseUs int64  `json:"base_us,omitempty"`
	CapUs  int64  `json:"cap_us,omitempty"`
	Jn     int    `json:"jn,omitempty"`
	Jd     int    `json:"jd,omitempty"`
}

type MsgSpec struct {
	ID   string `json:"id"`
	Tg   string `json:"tg"`
	Att0 int    `json:"att0"` // Envelope.Attempt at enqueue
}

// Run is one behaviour to execute.
type Run struct {
	Name     string               `json:"name"`
	Kind     string               `json:"kind"`    // table | script | delay | http
	Backend  string               `json:"backend"` // memory | sqlite
	Conc     int                  `json:"conc"`
	Retain   bool                 `json:"retain"`  // delivered retention on: acked messages stay as "delivered"
	NoBatch  bool                 `json:"nobatch"` // hide the store's LeaseBatchStore methods from the dispatcher
	Gated    bool                 `json:"gated"`
	HTTP     bool                 `json:"http"`   // real HTTPDeliverer against a loopback server
	Inject   string               `json:"inject"` // "", batcherr, batcherr-applied, singleerr
	Eager    bool                 `json:"eager"`  // requeue a dead message as soon as it is seen (else at quiescence)
	Targets  []TargetSpec         `json:"targets"`
	Msgs     []MsgSpec            `json:"msgs"`
	Scripts  map[string][]ResSpec `json:"scripts"`
	Requeue  map[string]int       `json:"requeue"` // message id -> operator requeues when found dead
	Order    []string             `json:"order"`   // release order hint (message ids)
	Seed     int64                `json:"seed"`
	MaxSteps int                  `json:"max_steps"`
}

// Event is one trace line.
type Event map[string]any
