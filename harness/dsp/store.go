package dsp

import (
	"errors"
	"fmt"
	"strings"
	"sync"
	"time"

	"github.com/nuetzliches/hookaido/internal/queue"
)

// Clock is the fake clock shared by harness and store (nanosecond precision).
type Clock struct {
	mu sync.Mutex
	t  time.Time
}

func NewClock() *Clock               { return &Clock{t: Base.Add(1000 * time.Second)} }
func (c *Clock) Now() time.Time      { c.mu.Lock(); defer c.mu.Unlock(); return c.t }
func (c *Clock) Set(t time.Time)     { c.mu.Lock(); c.t = t; c.mu.Unlock() }
func (c *Clock) Add(d time.Duration) { c.mu.Lock(); c.t = c.t.Add(d); c.mu.Unlock() }

// Dumper is the side-effect-free raw view of a store (verif build tag).
type Dumper interface {
	Dump() ([]queue.VerifRow, error)
}

type memDump struct{ *queue.MemoryStore }

func (m memDump) Dump() ([]queue.VerifRow, error) { return m.VerifDump(), nil }

type sqlDump struct{ *queue.SQLiteStore }

func (s sqlDump) Dump() ([]queue.VerifRow, error) { return s.VerifDump() }

const longRetention = 100000 * time.Hour

// OpenStore builds a real store on the fake clock.  No retention pruning is
// configured (prune interval 0), so nothing is ever removed behind the
// dispatcher's back; with retain, acknowledged messages stay as "delivered".
func OpenStore(backend string, clk *Clock, dbPath string, retain bool) (queue.Store, Dumper, func(), error) {
	switch backend {
	case "memory":
		opts := []queue.MemoryOption{queue.WithNowFunc(clk.Now)}
		if retain {
			opts = append(opts, queue.WithDeliveredRetention(longRetention))
		}
		s := queue.NewMemoryStore(opts...)
		return s, memDump{s}, func() {}, nil
	case "sqlite":
		opts := []queue.SQLiteOption{queue.WithSQLiteNowFunc(clk.Now), queue.WithSQLiteCheckpointInterval(0)}
		if retain {
			opts = append(opts, queue.WithSQLiteDeliveredRetention(longRetention))
		}
		s, err := queue.NewSQLiteStore(dbPath, opts...)
		if err != nil {
			return nil, nil, nil, err
		}
		return s, sqlDump{s}, func() { _ = s.Close() }, nil
	}
	return nil, nil, nil, fmt.Errorf("unknown backend %q", backend)
}

func errClass(err error) string {
	switch {
	case err == nil:
		return ""
	case errors.Is(err, queue.ErrLeaseNotFound):
		return "notfound"
	case errors.Is(err, queue.ErrLeaseExpired):
		return "expired"
	case errors.Is(err, errInjected):
		return "injected"
	}
	return "other:" + err.Error()
}

var errInjected = errors.New("injected store error")

// dec is the tracing decorator the dispatcher sees as its queue.Store.  Every
// call runs under the runner's lock, so the dump taken right after a lease
// mutation is the state that mutation produced.  The embedded interface
// forwards everything that is not overridden.
type dec struct {
	queue.Store
	r *runner
}

// decBatch adds the optional LeaseBatchStore methods.
type decBatch struct {
	*dec
	lb queue.LeaseBatchStore
}

// Dequeue never long-polls in real time: the store is asked once (MaxWait 0)
// and an empty-handed worker parks until the harness or another worker
// changes something (enqueue, requeue, clock jump, lease mutation).
func (d *dec) Dequeue(req queue.DequeueRequest) (queue.DequeueResponse, error) {
	r := d.r
	r.mu.Lock()
	if r.stopping {
		r.mu.Unlock()
		time.Sleep(200 * time.Microsecond)
		return queue.DequeueResponse{}, nil
	}
	req.MaxWait = 0
	resp, err := d.Store.Dequeue(req)
	if err != nil {
		r.fail(fmt.Errorf("store dequeue: %w", err))
		r.mu.Unlock()
		return resp, err
	}
	if len(resp.Items) > 0 {
		items := make([]any, 0, len(resp.Items))
		for _, it := range resp.Items {
			r.leaseOwner[it.LeaseID] = it.ID
			items = append(items, map[string]any{"id": it.ID, "lease": it.LeaseID, "att": it.Attempt, "tg": r.targetName(it.Target),
				"until": ToTS(it.LeaseUntil)})
		}
		r.nLeases += len(resp.Items)
		r.emit(Event{"ev": "Lease", "items": items, "batch": req.Batch, "rt": req.Route, "ttl_ms": int(req.LeaseTTL / time.Millisecond)})
		r.mu.Unlock()
		return resp, nil
	}
	wake := r.wake
	r.parked++
	r.notify()
	r.mu.Unlock()
	select {
	case <-wake:
	case <-r.stopCh:
	}
	return queue.DequeueResponse{}, nil
}

func (d *dec) RecordAttempt(a queue.DeliveryAttempt) error {
	r := d.r
	r.mu.Lock()
	defer r.mu.Unlock()
	err := d.Store.RecordAttempt(a)
	r.emit(Event{"ev": "Record", "id": a.EventID, "rt": a.Route, "tg": r.targetName(a.Target), "att": a.Attempt, "code": a.StatusCode,
		"iserr": strings.TrimSpace(a.Error) != "", "outcome": string(a.Outcome), "dr": a.DeadReason, "rerr": errClass(err)})
	return err
}

func (d *dec) single(call string, leaseID string, arg string, fn func() error) error {
	r := d.r
	r.mu.Lock()
	defer r.mu.Unlock()
	var err error
	if r.spec.Inject == "singleerr" && !r.injected {
		r.injected = true
		err = errInjected
	} else {
		err = fn()
	}
	r.settleEvent(call, false, 1, leaseID, arg, errClass(err))
	r.bump()
	return err
}

func (d *dec) Ack(leaseID string) error {
	return d.single("ack", leaseID, "", func() error { return d.Store.Ack(leaseID) })
}

func (d *dec) Nack(leaseID string, delay time.Duration) error {
	return d.single("nack", leaseID, delay.String(), func() error { return d.Store.Nack(leaseID, delay) })
}

func (d *dec) MarkDead(leaseID string, reason string) error {
	return d.single("dead", leaseID, reason, func() error { return d.Store.MarkDead(leaseID, reason) })
}

func (d *decBatch) batch(call string, leaseIDs []string, arg string, fn func() (queue.LeaseBatchResult, error)) (queue.LeaseBatchResult, error) {
	r := d.r
	r.mu.Lock()
	defer r.mu.Unlock()
	var res queue.LeaseBatchResult
	var err error
	switch {
	case r.spec.Inject == "batcherr" && !r.injected:
		r.injected = true
		err = errInjected
	case r.spec.Inject == "batcherr-applied" && !r.injected:
		r.injected = true
		res, err = fn()
		if err == nil {
			res, err = queue.LeaseBatchResult{}, errInjected
		}
	default:
		res, err = fn()
	}
	conflict := map[string]string{}
	for _, c := range res.Conflicts {
		if c.Expired {
			conflict[strings.TrimSpace(c.LeaseID)] = "expired"
		} else {
			conflict[strings.TrimSpace(c.LeaseID)] = "notfound"
		}
	}
	r.nBatchCalls++
	if len(leaseIDs) > 1 {
		r.nBatchMulti++
	}
	for _, id := range leaseIDs {
		e := errClass(err)
		if err == nil {
			e = conflict[strings.TrimSpace(id)]
		}
		r.settleEvent(call, true, len(leaseIDs), id, arg, e)
	}
	r.bump()
	return res, err
}

func (d *decBatch) AckBatch(ids []string) (queue.LeaseBatchResult, error) {
	return d.batch("ack", ids, "", func() (queue.LeaseBatchResult, error) { return d.lb.AckBatch(ids) })
}

func (d *decBatch) NackBatch(ids []string, delay time.Duration) (queue.LeaseBatchResult, error) {
	return d.batch("nack", ids, delay.String(), func() (queue.LeaseBatchResult, error) { return d.lb.NackBatch(ids, delay) })
}

func (d *decBatch) MarkDeadBatch(ids []string, reason string) (queue.LeaseBatchResult, error) {
	return d.batch("dead", ids, reason, func() (queue.LeaseBatchResult, error) { return d.lb.MarkDeadBatch(ids, reason) })
}
