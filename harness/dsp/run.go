package dsp

import (
	"context"
	"errors"
	"fmt"
	"io"
	"log/slog"
	"math/rand"
	"net"
	"net/http"
	"net/http/httptest"
	"net/netip"
	"net/url"
	"os"
	"sort"
	"strings"
	"sync"
	"time"

	"github.com/nuetzliches/hookaido/internal/dispatcher"
	"github.com/nuetzliches/hookaido/internal/queue"
)

const routePath = "/r1"

func targetURL(name string) string { return "http://" + name + ".verif.test/hook" }

// Summary is what a run reports besides its trace.
type Summary struct {
	Name       string `json:"name"`
	Events     int    `json:"events"`
	Delivers   int    `json:"delivers"`
	Leases     int    `json:"leases"`
	BatchCalls int    `json:"batch_calls"`
	BatchMulti int    `json:"batch_multi"` // batch lease calls with more than one lease
	MaxGated   int    `json:"max_gated"`   // most deliveries blocked at the same time
	Steps      int    `json:"steps"`
	Aborted    bool   `json:"aborted"`
	Rejected   string `json:"rejected,omitempty"` // retry directive refused by config.Compile
}

type gate struct {
	id    string
	tg    string
	lease string
	att   int
	ch    chan dispatcher.Result
}

type target struct {
	spec TargetSpec
	url  string
	cfg  dispatcher.TargetConfig
	pos  int // next script element
	wire int // requests that reached the transport (http mode: seen by the loopback server)
}

type runner struct {
	spec  *Run
	clk   *Clock
	inner queue.Store
	dump  Dumper
	rng   *rand.Rand

	mu          sync.Mutex
	evs         []Event
	err         error
	stopping    bool
	stopCh      chan struct{}
	wake        chan struct{}
	evCh        chan struct{}
	parked      int
	gates       []*gate
	leaseOwner  map[string]string
	injected    bool
	overrun     bool
	maxDelivers int
	targets     map[string]*target // by name
	byURL       map[string]*target
	requeue     map[string]int
	orderPos    int

	nLeases, nDelivers, nBatchCalls, nBatchMulti, maxGated int

	// http mode
	srv       *httptest.Server
	srvNext   ResSpec
	dsrv      *httptest.Server
	dwire     int
	redirDels map[string]*dispatcher.HTTPDeliverer
	allowDel  *dispatcher.HTTPDeliverer
	denyDels  []*dispatcher.HTTPDeliverer
}

func (r *runner) emit(ev Event) {
	ev["now"] = ToTS(r.clk.Now())
	r.evs = append(r.evs, ev)
}

func (r *runner) fail(err error) {
	if r.err == nil {
		r.err = err
	}
}

func (r *runner) notify() {
	select {
	case r.evCh <- struct{}{}:
	default:
	}
}

// bump wakes every parked worker (lock held).
func (r *runner) bump() {
	r.parked = 0
	close(r.wake)
	r.wake = make(chan struct{})
}

func (r *runner) targetName(url string) string {
	if t, ok := r.byURL[url]; ok {
		return t.spec.Name
	}
	return "?" + url
}

func postOf(e *queue.Envelope) map[string]any {
	if e == nil {
		return map[string]any{"st": "gone", "dr": "", "att": 0, "next": TS{S: -1}, "lease": "", "until": TS{S: -1}}
	}
	return map[string]any{"st": string(e.State), "dr": e.DeadReason, "att": e.Attempt, "next": ToTS(e.NextRunAt), "lease": e.LeaseID,
		"until": ToTS(e.LeaseUntil)}
}

// rows returns the raw message table by id (lock held).
func (r *runner) rows() map[string]*queue.Envelope {
	rows, err := r.dump.Dump()
	if err != nil {
		r.fail(fmt.Errorf("dump: %w", err))
		return map[string]*queue.Envelope{}
	}
	out := make(map[string]*queue.Envelope, len(rows))
	for i := range rows {
		out[rows[i].Env.ID] = &rows[i].Env
	}
	return out
}

// settleEvent records one lease mutation issued by the dispatcher and the
// state of the message right after it (lock held).
func (r *runner) settleEvent(call string, batch bool, bsize int, leaseID string, arg string, errc string) {
	id := r.leaseOwner[strings.TrimSpace(leaseID)]
	ev := Event{"ev": "Settle", "call": call, "batch": batch, "bsize": bsize, "lease": strings.TrimSpace(leaseID), "id": id, "arg": arg, "err": errc}
	if id != "" {
		ev["post"] = postOf(r.rows()[id])
	} else {
		ev["post"] = postOf(nil)
	}
	r.emit(ev)
}

func (r *runner) concrete(s ResSpec) ResSpec {
	if s.Kind != "" {
		return ResSpec{Kind: s.Kind, Code: s.Code, Via: s.Via}
	}
	pick := func(lo, hi int, not ...int) int {
		for {
			c := lo + r.rng.Intn(hi-lo+1)
			ok := true
			for _, n := range not {
				if c == n {
					ok = false
				}
			}
			if ok {
				return c
			}
		}
	}
	switch s.Cls {
	case "2xx":
		return ResSpec{Kind: "status", Code: pick(200, 299)}
	case "1xx":
		return ResSpec{Kind: "status", Code: pick(100, 199)}
	case "3xx":
		return ResSpec{Kind: "status", Code: pick(300, 399)}
	case "4xx":
		return ResSpec{Kind: "status", Code: pick(400, 499, 408, 429)}
	case "5xx":
		return ResSpec{Kind: "status", Code: pick(500, 599)}
	case "408":
		return ResSpec{Kind: "status", Code: 408}
	case "429":
		return ResSpec{Kind: "status", Code: 429}
	case "neterr", "timeout", "denied":
		return ResSpec{Kind: s.Cls}
	}
	return ResSpec{Kind: "status", Code: 200}
}

// nextSpec is the next element of the target's script; the last one repeats,
// an empty script answers 200 (lock held).
func (r *runner) nextSpec(t *target) ResSpec {
	sc := r.spec.Scripts[t.spec.Name]
	if len(sc) == 0 {
		return ResSpec{Kind: "status", Code: 200}
	}
	i := t.pos
	if i >= len(sc) {
		i = len(sc) - 1
	}
	t.pos++
	return r.concrete(sc[i])
}

// stubResult turns a script element into what a Deliverer returns.  Errors come
// in the shapes the production deliverer produces: bare, wrapped with %w, and
// inside the *url.Error net/http's client puts around transport and redirect
// errors.
func stubResult(s ResSpec, n int) dispatcher.Result {
	inURLError := func(err error) error { return &url.Error{Op: "Post", URL: "http://t.verif.test/hook", Err: err} }
	switch s.Kind {
	case "status":
		return dispatcher.Result{StatusCode: s.Code}
	case "neterr":
		switch n % 3 {
		case 0:
			return dispatcher.Result{Err: &net.OpError{Op: "dial", Net: "tcp", Err: errors.New("connection refused")}}
		case 1:
			return dispatcher.Result{Err: io.ErrUnexpectedEOF}
		}
		return dispatcher.Result{Err: inURLError(&net.OpError{Op: "read", Net: "tcp", Err: errors.New("connection reset by peer")})}
	case "timeout":
		switch n % 3 {
		case 0:
			return dispatcher.Result{Err: context.DeadlineExceeded}
		case 1:
			return dispatcher.Result{Err: fmt.Errorf("Post %q: %w", "http://x", context.DeadlineExceeded)}
		}
		return dispatcher.Result{Err: inURLError(context.DeadlineExceeded)}
	case "denied":
		switch n % 3 {
		case 0:
			return dispatcher.Result{Err: dispatcher.ErrPolicyDenied}
		case 1:
			return dispatcher.Result{Err: fmt.Errorf("%w: host %q denied by egress policy", dispatcher.ErrPolicyDenied, "x")}
		}
		// a denial of a redirect hop as it leaves http.Client.Do
		return dispatcher.Result{Err: inURLError(fmt.Errorf("%w: host %q denied by egress policy", dispatcher.ErrPolicyDenied, "x"))}
	}
	return dispatcher.Result{Err: errors.New("bad script element")}
}

func observed(res dispatcher.Result) map[string]any {
	switch {
	case res.Err == nil:
		return map[string]any{"kind": "status", "code": res.StatusCode}
	case errors.Is(res.Err, dispatcher.ErrPolicyDenied):
		return map[string]any{"kind": "denied", "code": 0}
	case errors.Is(res.Err, context.DeadlineExceeded) || os.IsTimeout(res.Err):
		return map[string]any{"kind": "timeout", "code": 0}
	}
	return map[string]any{"kind": "neterr", "code": 0}
}

// deliverEvent records one invocation of the Deliverer (lock held).
//
//	res    the delivery result.  Normally it is read off what the Deliverer
//	       returned (errors.Is ErrPolicyDenied / deadline / other error /
//	       status).  Where the behaviour arranged an egress-policy denial
//	       (want.Kind = denied) the transport observation decides instead:
//	       the call failed, it did not time out, and no request reached the
//	       denied destination (and, for a denied redirect hop, exactly one
//	       reached the first hop) - that IS a policy denial, whatever the
//	       returned error's chain looks like.  seen keeps the errors.Is view.
//	wire   requests that reached the first hop;  dwire  requests that reached
//	       the destination the policy denies;  redir  a redirect hop was denied.
func (r *runner) deliverEvent(g *gate, want ResSpec, res dispatcher.Result, wire int, dwire int) {
	r.nDelivers++
	errText := ""
	if res.Err != nil {
		errText = res.Err.Error()
	}
	seen := observed(res)
	truth := seen
	redir := want.Kind == "denied" && want.Via != ""
	if want.Kind == "denied" && res.Err != nil && seen["kind"] != "timeout" && dwire == 0 && ((redir && wire == 1) || (!redir && wire == 0)) {
		truth = map[string]any{"kind": "denied", "code": 0}
	}
	r.emit(Event{"ev": "Deliver", "id": g.id, "tg": g.tg, "lease": g.lease, "att": g.att, "res": truth, "seen": seen,
		"want": map[string]any{"kind": want.Kind, "code": want.Code}, "via": want.Via, "redir": redir, "wire": wire, "dwire": dwire,
		"errtext": errText})
}

type stubDeliverer struct{ r *runner }

func (s stubDeliverer) Deliver(ctx context.Context, dl dispatcher.Delivery) dispatcher.Result {
	r := s.r
	r.mu.Lock()
	g := &gate{id: dl.ID, tg: r.targetName(dl.URL), ch: make(chan dispatcher.Result, 1)}
	if e := r.rows()[dl.ID]; e != nil {
		g.lease, g.att = e.LeaseID, e.Attempt
	}
	if (r.spec.HTTP || !r.spec.Gated) && r.nDelivers >= r.maxDelivers {
		// a free-running behaviour that sends far more often than any bound allows (e.g. a success that is
		// nacked and re-sent for ever): stop feeding it, let the harness end the behaviour as aborted
		r.overrun = true
		r.gates = append(r.gates, g)
		r.notify()
		r.mu.Unlock()
		return <-g.ch
	}
	if r.spec.HTTP {
		r.mu.Unlock()
		return r.httpDeliver(ctx, dl, g)
	}
	if !r.spec.Gated {
		res := r.release(g)
		r.mu.Unlock()
		return res
	}
	r.gates = append(r.gates, g)
	if len(r.gates) > r.maxGated {
		r.maxGated = len(r.gates)
	}
	r.notify()
	r.mu.Unlock()
	return <-g.ch
}

// release plays the next script element for g's target (lock held).
func (r *runner) release(g *gate) dispatcher.Result {
	t := r.targets[g.tg]
	if t == nil {
		res := dispatcher.Result{Err: errors.New("unknown target")}
		r.deliverEvent(g, ResSpec{Kind: "neterr"}, res, 0, 0)
		return res
	}
	want := r.nextSpec(t)
	res := stubResult(want, r.nDelivers+int(r.spec.Seed%3))
	wire := 1
	if want.Kind == "denied" {
		wire = 0 // the stub stands for policy check + transport: a denial is decided before the transport
	}
	t.wire += wire
	r.deliverEvent(g, want, res, wire, 0)
	return res
}

// httpDeliver sends through the production HTTPDeliverer: an allow-all policy
// against the loopback server for everything but "denied"; one of several
// denying policies for a denial of the target itself; and, for a denied (or
// followed) REDIRECT hop, a policy with redirects on that admits the first hop
// and denies (admits) the Location the first hop answers with.  wire counts
// what the first-hop server saw, dwire what the second server - which stands
// for every other destination - saw.
func (r *runner) httpDeliver(ctx context.Context, dl dispatcher.Delivery, g *gate) dispatcher.Result {
	r.mu.Lock()
	t := r.targets[g.tg]
	want := r.nextSpec(t)
	before, dbefore := t.wire, r.dwire
	r.srvNext = want
	del := r.allowDel
	switch {
	case want.Via != "":
		if d, ok := r.redirDels[want.Via]; ok {
			del = d
		}
	case want.Kind == "denied":
		del = r.denyDels[r.nDelivers%len(r.denyDels)]
	}
	if want.Kind == "neterr" && r.nDelivers%2 == 1 {
		dl.URL = "http://127.0.0.1:1/closed" // nothing listens on port 1
	}
	r.mu.Unlock()
	res := del.Deliver(ctx, dl)
	r.mu.Lock()
	r.deliverEvent(g, want, res, t.wire-before, r.dwire-dbefore)
	r.mu.Unlock()
	return res
}

const firstHopHost = "first.verif.test"

// redirect Locations per way of denial
var redirLocation = map[string]string{
	"deny":     "http://denied.verif.test/landing",
	"denycidr": "http://10.1.2.3/landing",
	"scheme":   "ftp://files.verif.test/landing",
	"allow":    "http://other.verif.test/landing",
	"rebind":   "http://internal.verif.test/landing",
	"follow":   "http://allowed.verif.test/landing",
}

// fakeResolver answers the policy's DNS look-ups (no real DNS in the sandbox).
type fakeResolver map[string]string

func (f fakeResolver) LookupIPAddr(_ context.Context, host string) ([]net.IPAddr, error) {
	if ip, ok := f[host]; ok {
		return []net.IPAddr{{IP: net.ParseIP(ip)}}, nil
	}
	return nil, fmt.Errorf("fake resolver: no such host %q", host)
}

func (r *runner) startHTTP() {
	r.srv = httptest.NewServer(http.HandlerFunc(func(w http.ResponseWriter, req *http.Request) {
		_, _ = io.Copy(io.Discard, req.Body)
		r.mu.Lock()
		for _, t := range r.targets {
			if strings.HasSuffix(req.URL.Path, "/"+t.spec.Name) {
				t.wire++
			}
		}
		next := r.srvNext
		r.mu.Unlock()
		switch {
		case next.Via != "":
			w.Header().Set("Location", redirLocation[next.Via])
			w.WriteHeader(next.Code)
		case next.Kind == "status":
			if next.Code >= 300 && next.Code < 400 {
				w.Header().Set("Location", "http://127.0.0.1:1/elsewhere")
			}
			w.WriteHeader(next.Code)
		case next.Kind == "timeout":
			select {
			case <-req.Context().Done():
			case <-time.After(2 * time.Second):
			}
		default: // neterr: drop the connection without an answer
			if hj, ok := w.(http.Hijacker); ok {
				if c, _, err := hj.Hijack(); err == nil {
					_ = c.Close()
				}
			}
		}
	}))
	// every destination other than the first hop ends here
	r.dsrv = httptest.NewServer(http.HandlerFunc(func(w http.ResponseWriter, req *http.Request) {
		_, _ = io.Copy(io.Discard, req.Body)
		r.mu.Lock()
		r.dwire++
		r.mu.Unlock()
		w.WriteHeader(http.StatusOK)
	}))
	first, other := r.srv.Listener.Addr().String(), r.dsrv.Listener.Addr().String()
	dial := func(ctx context.Context, network, addr string) (net.Conn, error) {
		host, _, _ := net.SplitHostPort(addr)
		switch {
		case host == firstHopHost:
			addr = first
		case strings.HasSuffix(host, ".verif.test") || strings.HasPrefix(host, "10."):
			addr = other
		}
		var d net.Dialer
		return d.DialContext(ctx, network, addr)
	}
	// a private transport per run: httptest.Server.Close closes the idle connections of http.DefaultTransport,
	// which would break deliveries of behaviours running in parallel in this process
	client := func() *http.Client {
		return &http.Client{Transport: &http.Transport{DisableKeepAlives: true, DialContext: dial}}
	}
	r.allowDel = dispatcher.NewHTTPDeliverer(client(), dispatcher.EgressPolicy{})
	r.denyDels = []*dispatcher.HTTPDeliverer{
		dispatcher.NewHTTPDeliverer(client(), dispatcher.EgressPolicy{Deny: []dispatcher.EgressRule{{Host: "*"}}}),
		dispatcher.NewHTTPDeliverer(client(), dispatcher.EgressPolicy{HTTPSOnly: true}),
		dispatcher.NewHTTPDeliverer(client(), dispatcher.EgressPolicy{Allow: []dispatcher.EgressRule{{Host: "only.example.org"}}}),
		dispatcher.NewHTTPDeliverer(client(), dispatcher.EgressPolicy{DNSRebindProtection: true}),
		dispatcher.NewHTTPDeliverer(client(), dispatcher.EgressPolicy{Deny: []dispatcher.EgressRule{{Host: "127.0.0.1"}}}),
	}
	res := fakeResolver{firstHopHost: "93.184.216.34", "internal.verif.test": "10.0.0.7", "allowed.verif.test": "93.184.216.35",
		"denied.verif.test": "93.184.216.36", "other.verif.test": "93.184.216.37"}
	mk := func(p dispatcher.EgressPolicy) *dispatcher.HTTPDeliverer {
		p.Redirects = true
		d := dispatcher.NewHTTPDeliverer(client(), p)
		d.Resolver = res
		return d
	}
	r.redirDels = map[string]*dispatcher.HTTPDeliverer{
		"deny":     mk(dispatcher.EgressPolicy{Deny: []dispatcher.EgressRule{{Host: "denied.verif.test"}}}),
		"denycidr": mk(dispatcher.EgressPolicy{Deny: []dispatcher.EgressRule{{IsCIDR: true, CIDR: netip.MustParsePrefix("10.0.0.0/8")}}}),
		"scheme":   mk(dispatcher.EgressPolicy{}),
		"allow":    mk(dispatcher.EgressPolicy{Allow: []dispatcher.EgressRule{{Host: "127.0.0.1"}, {Host: firstHopHost}}}),
		"rebind":   mk(dispatcher.EgressPolicy{DNSRebindProtection: true}),
		"follow":   mk(dispatcher.EgressPolicy{Deny: []dispatcher.EgressRule{{Host: "denied.verif.test"}}}),
	}
}

// Execute runs one behaviour and returns its trace.
func Execute(spec *Run, scratch string, seq int) ([]Event, Summary, error) {
	sum := Summary{Name: spec.Name}
	r := &runner{spec: spec, clk: NewClock(), rng: rand.New(rand.NewSource(spec.Seed)), stopCh: make(chan struct{}), wake: make(chan struct{}),
		evCh: make(chan struct{}, 1), leaseOwner: map[string]string{}, targets: map[string]*target{}, byURL: map[string]*target{}, requeue: map[string]int{}}
	for k, v := range spec.Requeue {
		r.requeue[k] = v
	}
	conc := spec.Conc
	if conc <= 0 {
		conc = 1
	}

	// targets: compile `retry` directives through the real configuration pipeline
	tcfgs := make([]dispatcher.TargetConfig, 0, len(spec.Targets))
	tjson := map[string]any{}
	if spec.HTTP {
		r.startHTTP()
		defer r.srv.Close()
		defer r.dsrv.Close()
	}
	for i := range spec.Targets {
		ts := spec.Targets[i]
		t := &target{spec: ts, url: targetURL(ts.Name)}
		if spec.HTTP {
			t.url = r.srv.URL + "/hook/" + ts.Name
			for _, el := range spec.Scripts[ts.Name] {
				if el.Via == "rebind" {
					// rebind protection refuses a loopback first hop: name it, let the fake resolver call it public,
					// and let the transport's dial override reach the loopback server all the same
					t.url = "http://" + firstHopHost + "/hook/" + ts.Name
				}
			}
		}
		var rc dispatcher.RetryConfig
		if ts.Retry != "" {
			c, rej, err := CompileRetry(ts.Retry)
			if err != nil {
				return nil, sum, err
			}
			if rej != "" {
				sum.Rejected = rej
				return nil, sum, nil
			}
			rc = c
		} else {
			rc = dispatcher.RetryConfig{Type: "exponential", Max: ts.Max, Base: time.Duration(ts.BaseUs) * time.Microsecond,
				Cap: time.Duration(ts.CapUs) * time.Microsecond, Jitter: float64(ts.Jn) / float64(ts.Jd)}
		}
		box, err := retryBox(rc)
		if err != nil {
			return nil, sum, fmt.Errorf("%s: target %s: %w", spec.Name, ts.Name, err)
		}
		tjson[ts.Name] = box
		timeout := time.Second
		if spec.HTTP {
			// real time only matters for behaviours that ask for a hanging target; whatever result is
			// observed is what the trace carries
			timeout = 10 * time.Second
			for _, el := range spec.Scripts[ts.Name] {
				if el.Kind == "timeout" || el.Cls == "timeout" {
					timeout = 150 * time.Millisecond
				}
			}
		}
		t.cfg = dispatcher.TargetConfig{URL: t.url, Timeout: timeout, Retry: rc}
		tcfgs = append(tcfgs, t.cfg)
		r.targets[ts.Name] = t
		r.byURL[t.url] = t
	}

	dbPath := ""
	if spec.Backend == "sqlite" {
		dbPath = fmt.Sprintf("%s/dsp-%d-%d.db", scratch, os.Getpid(), seq)
		defer func() {
			for _, suf := range []string{"", "-wal", "-shm"} {
				_ = os.Remove(dbPath + suf)
			}
		}()
	}
	inner, dump, closeFn, err := OpenStore(spec.Backend, r.clk, dbPath, spec.Retain)
	if err != nil {
		return nil, sum, err
	}
	defer closeFn()
	r.inner, r.dump = inner, dump

	base := &dec{Store: inner, r: r}
	var store queue.Store = base
	lb, hasBatch := inner.(queue.LeaseBatchStore)
	if hasBatch && !spec.NoBatch {
		store = &decBatch{dec: base, lb: lb}
	}

	msgs := map[string]any{}
	for _, m := range spec.Msgs {
		msgs[m.ID] = map[string]any{"tg": m.Tg, "att0": m.Att0}
	}
	finite := true
	r.mu.Lock()
	r.emit(Event{"ev": "Reset", "tr": spec.Name, "cfg": map[string]any{"kind": spec.Kind, "backend": spec.Backend, "conc": conc, "gated": spec.Gated,
		"http": spec.HTTP, "inject": spec.Inject, "nobatch": spec.NoBatch || !hasBatch, "retain": spec.Retain, "finite": finite,
		"targets": tjson, "msgs": msgs}})
	for _, m := range spec.Msgs {
		t := r.targets[m.Tg]
		if t == nil {
			r.mu.Unlock()
			return nil, sum, fmt.Errorf("%s: message %s names unknown target %s", spec.Name, m.ID, m.Tg)
		}
		err := inner.Enqueue(queue.Envelope{ID: m.ID, Route: routePath, Target: t.url, Attempt: m.Att0, Payload: []byte("payload-" + m.ID),
			Headers: map[string]string{"Content-Type": "application/json"}})
		if err != nil {
			r.mu.Unlock()
			return nil, sum, fmt.Errorf("%s: enqueue %s: %w", spec.Name, m.ID, err)
		}
		r.emit(Event{"ev": "Enqueue", "id": m.ID, "tg": m.Tg, "att0": m.Att0, "post": postOf(r.rows()[m.ID])})
	}
	r.mu.Unlock()

	maxMax := 1
	for _, t := range r.targets {
		if t.cfg.Retry.Max > maxMax {
			maxMax = t.cfg.Retry.Max
		}
	}
	nrq := 0
	for _, n := range spec.Requeue {
		nrq += n
	}
	r.mu.Lock()
	r.maxDelivers = 2*(len(spec.Msgs)*(maxMax+2)+nrq) + 20
	r.mu.Unlock()
	pd := &dispatcher.PushDispatcher{
		Store:     store,
		Deliverer: stubDeliverer{r},
		Routes:    []dispatcher.RouteConfig{{Route: routePath, Targets: tcfgs, Concurrency: conc}},
		Logger:    slog.New(slog.NewTextHandler(io.Discard, nil)),
		MaxWait:   time.Millisecond,
	}
	pd.Start()

	maxSteps := spec.MaxSteps
	if maxSteps <= 0 {
		maxSteps = 400 + 60*len(spec.Msgs)
	}
	steps := 0
	aborted := false
	var runErr error
loop:
	for {
		if err := r.waitBlocked(conc); err != nil {
			runErr = err
			break
		}
		steps++
		if steps > maxSteps {
			aborted = true
			break
		}
		r.mu.Lock()
		if r.err != nil {
			runErr = r.err
			r.mu.Unlock()
			break
		}
		if r.overrun {
			aborted = true
			r.mu.Unlock()
			break
		}
		rows := r.rows()
		if spec.Eager && r.requeueDead(rows) {
			r.bump()
			r.mu.Unlock()
			continue
		}
		if len(r.gates) > 0 {
			g := r.pickGate()
			res := r.release(g)
			g.ch <- res
			r.mu.Unlock()
			continue
		}
		// quiescent: every worker is parked
		now := r.clk.Now()
		var next time.Time
		why := ""
		for _, e := range rows {
			switch e.State {
			case queue.StateQueued:
				if e.NextRunAt.After(now) && (next.IsZero() || e.NextRunAt.Before(next)) {
					next, why = e.NextRunAt, "retry"
				}
			case queue.StateLeased: // only after an injected store error: nobody holds this lease any more
				if next.IsZero() || e.LeaseUntil.Before(next) {
					next, why = e.LeaseUntil, "lease-expiry"
				}
			}
		}
		if !next.IsZero() {
			r.clk.Set(next)
			r.emit(Event{"ev": "Tick", "why": why})
			r.bump()
			r.mu.Unlock()
			continue
		}
		if r.requeueDead(rows) {
			r.bump()
			r.mu.Unlock()
			continue
		}
		r.mu.Unlock()
		break loop
	}

	r.mu.Lock()
	if runErr == nil {
		rows := r.rows()
		att := []any{}
		ids := make([]string, 0, len(spec.Msgs))
		for _, m := range spec.Msgs {
			ids = append(ids, m.ID)
		}
		sort.Strings(ids)
		for _, id := range ids {
			resp, err := inner.ListAttempts(queue.AttemptListRequest{EventID: id, Limit: 1000})
			if err != nil {
				runErr = fmt.Errorf("list attempts: %w", err)
				break
			}
			for _, a := range resp.Items {
				att = append(att, map[string]any{"id": a.EventID, "rt": a.Route, "tg": r.targetName(a.Target), "att": a.Attempt, "code": a.StatusCode,
					"iserr": a.Error != "", "outcome": string(a.Outcome), "dr": a.DeadReason, "at": ToTS(a.CreatedAt)})
			}
		}
		r.emit(Event{"ev": "Attempts", "rows": att})
		fin := map[string]any{}
		for _, id := range ids {
			fin[id] = postOf(rows[id])
		}
		wire := map[string]any{}
		for n, t := range r.targets {
			wire[n] = t.wire
		}
		r.emit(Event{"ev": "Final", "msgs": fin, "aborted": aborted, "gates": len(r.gates), "wire": wire, "extra": len(rows) - countKnown(rows, ids)})
	}
	// stop: release anything still blocked, wake everybody, drain
	r.stopping = true
	for _, g := range r.gates {
		g.ch <- dispatcher.Result{Err: errors.New("harness stop")}
	}
	r.gates = nil
	close(r.stopCh)
	r.bump()
	evs := r.evs
	r.mu.Unlock()
	if !pd.Drain(10 * time.Second) {
		if runErr == nil {
			runErr = errors.New("dispatcher did not drain")
		}
	}
	sum.Events, sum.Delivers, sum.Leases, sum.BatchCalls, sum.BatchMulti, sum.MaxGated, sum.Steps, sum.Aborted =
		len(evs), r.nDelivers, r.nLeases, r.nBatchCalls, r.nBatchMulti, r.maxGated, steps, aborted
	if runErr != nil {
		return nil, sum, fmt.Errorf("%s: %w", spec.Name, runErr)
	}
	return evs, sum, nil
}

func countKnown(rows map[string]*queue.Envelope, ids []string) int {
	n := 0
	for _, id := range ids {
		if rows[id] != nil {
			n++
		}
	}
	return n
}

// waitBlocked returns when every worker is either parked in Dequeue or
// blocked in the stub Deliverer.  Real time is only a liveness guard here.
func (r *runner) waitBlocked(workers int) error {
	deadline := time.Now().Add(20 * time.Second)
	for {
		r.mu.Lock()
		ok := r.parked+len(r.gates) >= workers
		err := r.err
		r.mu.Unlock()
		if err != nil {
			return err
		}
		if ok {
			return nil
		}
		select {
		case <-r.evCh:
		case <-time.After(50 * time.Millisecond):
		}
		if time.Now().After(deadline) {
			r.mu.Lock()
			defer r.mu.Unlock()
			return fmt.Errorf("harness stuck: parked=%d gated=%d workers=%d", r.parked, len(r.gates), workers)
		}
	}
}

// pickGate chooses the blocked delivery to release next: the schedule's order
// hint if it names a blocked message, else a seeded random one (lock held).
func (r *runner) pickGate() *gate {
	idx := -1
	if r.orderPos < len(r.spec.Order) {
		want := r.spec.Order[r.orderPos]
		for i, g := range r.gates {
			if g.id == want {
				idx = i
				break
			}
		}
		r.orderPos++
	}
	if idx < 0 {
		idx = r.rng.Intn(len(r.gates))
	}
	g := r.gates[idx]
	r.gates = append(r.gates[:idx], r.gates[idx+1:]...)
	return g
}

// requeueDead performs one operator requeue of a dead message that still has
// requeue budget (lock held).  Alternates between the two admin operations.
func (r *runner) requeueDead(rows map[string]*queue.Envelope) bool {
	ids := make([]string, 0, len(rows))
	for id := range rows {
		ids = append(ids, id)
	}
	sort.Strings(ids)
	for _, id := range ids {
		e := rows[id]
		if e.State != queue.StateDead || r.requeue[id] <= 0 {
			continue
		}
		r.requeue[id]--
		how := "dlq"
		n := 0
		var err error
		if r.requeue[id]%2 == 0 {
			var resp queue.DeadRequeueResponse
			resp, err = r.inner.RequeueDead(queue.DeadRequeueRequest{IDs: []string{id}})
			n = resp.Requeued
		} else {
			how = "messages"
			var resp queue.MessageRequeueResponse
			resp, err = r.inner.RequeueMessages(queue.MessageRequeueRequest{IDs: []string{id}})
			n = resp.Requeued
		}
		if err != nil {
			r.fail(fmt.Errorf("requeue: %w", err))
			return false
		}
		r.emit(Event{"ev": "Requeue", "id": id, "how": how, "n": n, "post": postOf(r.rows()[id])})
		return true
	}
	return false
}
