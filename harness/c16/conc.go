package c16

import (
	"encoding/json"
	"fmt"
	"math/rand"
	"net"
	"strings"
)

// ---- abstract rows (JSON printed by TLC from spec/EgressMC.tla) ------------------------------------------------

type Addr struct {
	C string `json:"c"`
	M bool   `json:"m"`
	P string `json:"p"`
}
type Host struct {
	K string   `json:"k"`
	N []string `json:"n"`
	A Addr     `json:"a"`
}
type URL struct {
	Scheme string `json:"scheme"`
	UI     bool   `json:"ui"`
	Port   string `json:"port"`
	H      Host   `json:"h"`
	Dot    bool   `json:"dot"`
	Up     bool   `json:"up"`
}
type Ans struct {
	St string `json:"st"`
	As []Addr `json:"as"`
}
type Hop struct {
	U   URL `json:"u"`
	Ans Ans `json:"ans"`
}
type Rule struct {
	K string   `json:"k"`
	N []string `json:"n"`
	A Addr     `json:"a"`
	C string   `json:"c"`
}
type Pol struct {
	HTTPS  bool   `json:"https"`
	Redir  bool   `json:"redir"`
	Rebind bool   `json:"rebind"`
	Allow  []Rule `json:"allow"`
	Deny   []Rule `json:"deny"`
}
type Row struct {
	Fam  string `json:"fam"`
	Pol  Pol    `json:"pol"`
	Hops []Hop  `json:"hops"`
}

// ---- concrete inputs -------------------------------------------------------------------------------------------

type ConcHop struct {
	URL     string   `json:"url"`
	Host    string   `json:"host"`    // host text as written in the URL (brackets removed)
	Lookup  string   `json:"lookup"`  // key of the stub resolver (lower case, no trailing dot); "" for literals
	Answers []string `json:"answers"` // resolver answers as text
	Forms   []int    `json:"forms"`   // byte length of every answer handed to the code (4 or 16)
	Err     bool     `json:"err"`     // resolver error
	Code    int      `json:"code"`    // status this hop answers with
	ips     []net.IP
}

type Conc struct {
	Variant int       `json:"variant"`
	Policy  string    `json:"policy"` // the egress block of the generated Hookaidofile
	Allow   []string  `json:"allow"`
	Deny    []string  `json:"deny"`
	Hops    []ConcHop `json:"hops"`
}

func onoff(b bool) string {
	if b {
		return "on"
	}
	return "off"
}

func upperIf(s string, up bool) string {
	if up {
		return strings.ToUpper(s)
	}
	return s
}

// addrIP: the concrete address for an abstract one.  variant is shared by the whole row so that the same abstract
// address (class, position) is the same concrete address everywhere in the row (rules, literals, answers).
func addrIP(a Addr, variant int, rng *rand.Rand, memo map[string]net.IP) net.IP {
	key := a.C + "/" + a.P
	if ip, ok := memo[key]; ok {
		return ip
	}
	ip := PickAddr(a.C, a.P, variant, rng)
	memo[key] = ip
	return ip
}

func ruleText(r Rule, variant, av int, rng *rand.Rand, memo map[string]net.IP) string {
	switch r.K {
	case "star":
		return "*"
	case "exact", "sub":
		n := NameText(r.N, variant)
		switch variant % 3 {
		case 1:
			n = strings.ToUpper(n)
		case 2:
			n = n + "."
		}
		if r.K == "sub" {
			return "*." + n
		}
		return n
	case "ip":
		ip := addrIP(r.A, av, rng, memo)
		if Blocks[r.A.C].V6 {
			return v6Text(ip, variant)
		}
		if r.A.M {
			return mappedText(ip, variant)
		}
		return v4Text(ip)
	case "cidr":
		b := Blocks[r.C]
		if b.CIDR == "" {
			panic("class " + r.C + " is not a CIDR block")
		}
		if variant%2 == 1 && !b.V6 && strings.Contains(b.CIDR, "/") && !strings.HasSuffix(b.CIDR, "/32") {
			// non-canonical spelling: an inside address with the block's prefix length
			bits := b.CIDR[strings.Index(b.CIDR, "/"):]
			return b.Mids[0] + bits
		}
		return b.CIDR
	}
	panic("unknown rule kind " + r.K)
}

var otherSchemes = []string{"ftp", "file", "ws", "gopher", "wss", "javascript"}
var redirectCodes = []int{302, 307, 301, 308, 303}

// Concretise builds the variant-th concrete instance of a row.  salt (the row's index) spreads the choice of inside
// addresses over the table; everything else depends on the variant only.
func Concretise(row *Row, variant, salt int, rng *rand.Rand) (*Conc, error) {
	memo := map[string]net.IP{}
	av := variant + 3*salt // address variant
	c := &Conc{Variant: variant, Allow: []string{}, Deny: []string{}}
	for _, r := range row.Pol.Allow {
		c.Allow = append(c.Allow, ruleText(r, variant, av, rng, memo))
	}
	for _, r := range row.Pol.Deny {
		c.Deny = append(c.Deny, ruleText(r, variant, av, rng, memo))
	}
	var sb strings.Builder
	sb.WriteString("defaults {\n  egress {\n")
	fmt.Fprintf(&sb, "    https_only %s\n    redirects %s\n    dns_rebind_protection %s\n", onoff(row.Pol.HTTPS), onoff(row.Pol.Redir), onoff(row.Pol.Rebind))
	for _, a := range c.Allow {
		fmt.Fprintf(&sb, "    allow %q\n", a)
	}
	for _, d := range c.Deny {
		fmt.Fprintf(&sb, "    deny %q\n", d)
	}
	sb.WriteString("  }\n}\n")
	c.Policy = sb.String()

	allowedName := ""
	for _, r := range row.Pol.Allow {
		if r.K == "exact" {
			allowedName = NameText(r.N, variant)
		}
	}

	for i, h := range row.Hops {
		ch := ConcHop{Answers: []string{}, Forms: []int{}}
		// host text
		var host, lookup string
		bracket := false
		switch h.U.H.K {
		case "name":
			host = NameText(h.U.H.N, variant)
			lookup = host
		case "lit":
			ip := addrIP(h.U.H.A, av, rng, memo)
			switch {
			case Blocks[h.U.H.A.C].V6:
				host = v6Text(ip, variant)
				bracket = true
			case h.U.H.A.M:
				host = mappedText(ip, variant)
				bracket = true
			default:
				host = v4Text(ip)
			}
		case "odd":
			ip := addrIP(h.U.H.A, av, rng, memo)
			host = OddV4(ip, av+i)
			lookup = strings.ToLower(host)
		case "empty":
			host = ""
		default:
			return nil, fmt.Errorf("unknown host kind %q", h.U.H.K)
		}
		if h.U.Dot && !bracket && host != "" {
			host += "."
		}
		host = upperIf(host, h.U.Up)
		ch.Host = host
		ch.Lookup = strings.TrimSuffix(strings.ToLower(lookup), ".")
		// scheme
		scheme := h.U.Scheme
		switch scheme {
		case "other":
			scheme = otherSchemes[(variant+i)%len(otherSchemes)]
		case "empty":
			scheme = ""
		}
		scheme = upperIf(scheme, h.U.Up)
		// authority
		auth := host
		if bracket {
			auth = "[" + host + "]"
		}
		switch h.U.Port {
		case "default":
			switch strings.ToLower(scheme) {
			case "https", "wss":
				auth += ":443"
			case "ftp":
				auth += ":21"
			default:
				auth += ":80"
			}
		case "other":
			auth += []string{":8443", ":8080", ":1"}[variant%3]
		case "empty":
			auth += ":"
		}
		if h.U.UI {
			ui := []string{"user", "user:p%40ss", "admin:secret"}[variant%3]
			if allowedName != "" {
				ui = []string{allowedName, allowedName + ":443", strings.ToUpper(allowedName)}[variant%3]
			}
			auth = ui + "@" + auth
		}
		path := fmt.Sprintf("/hook/h%d", i)
		if variant%2 == 1 {
			path += "?x=1&u=http://127.0.0.1/"
		}
		switch {
		case scheme == "" && variant%2 == 0:
			ch.URL = "//" + auth + path
		case scheme == "":
			ch.URL = strings.TrimSuffix(auth, ":") + path // "host/path": no scheme, no authority marker
			if h.U.Port == "other" || h.U.Port == "default" || h.U.UI {
				ch.URL = "//" + auth + path
			}
		default:
			ch.URL = scheme + "://" + auth + path
		}
		// answers
		if h.U.H.K != "lit" && h.U.H.K != "empty" {
			if h.Ans.St == "err" {
				ch.Err = true
			}
			for _, a := range h.Ans.As {
				ip := addrIP(a, av, rng, memo)
				form := ip
				if !Blocks[a.C].V6 {
					if a.M {
						form = ip.To16() // 16-byte form: exactly how an IPv4-mapped AAAA answer looks
					} else if variant%3 == 2 {
						form = ip.To16() // Go resolvers also hand out IPv4 answers in 16-byte form
					} else {
						form = ip.To4()
					}
				}
				ch.ips = append(ch.ips, form)
				ch.Forms = append(ch.Forms, len(form))
				if !Blocks[a.C].V6 && a.M {
					ch.Answers = append(ch.Answers, "::ffff:"+v4Text(ip))
				} else {
					ch.Answers = append(ch.Answers, ip.String())
				}
			}
		}
		if i < len(row.Hops)-1 {
			ch.Code = redirectCodes[(variant+i)%len(redirectCodes)]
		} else {
			ch.Code = []int{200, 204, 202}[variant%3]
		}
		c.Hops = append(c.Hops, ch)
	}
	return c, nil
}

// ParseRow decodes one line of the rows file.
func ParseRow(line []byte) (*Row, error) {
	var r Row
	if err := json.Unmarshal(line, &r); err != nil {
		return nil, err
	}
	if len(r.Hops) == 0 {
		return nil, fmt.Errorf("row without hops")
	}
	return &r, nil
}
