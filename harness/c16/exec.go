package c16

import (
	"bytes"
	"context"
	"crypto/sha256"
	"encoding/hex"
	"errors"
	"fmt"
	"io"
	"log/slog"
	"net"
	"net/http"
	"net/netip"
	"regexp"
	"strconv"
	"strings"
	"sync"
	"time"

	"github.com/nuetzliches/hookaido/internal/config"
	"github.com/nuetzliches/hookaido/internal/dispatcher"
	"github.com/nuetzliches/hookaido/internal/queue"
)

// ---- policy from a generated Hookaidofile (config.Parse + config.Compile, then the field copy of app.mapEgressRules) ----

var (
	polMu    sync.Mutex
	polCache = map[string]dispatcher.EgressPolicy{}
)

func BuildPolicy(egressBlock string) (dispatcher.EgressPolicy, error) {
	polMu.Lock()
	if p, ok := polCache[egressBlock]; ok {
		polMu.Unlock()
		return p, nil
	}
	polMu.Unlock()
	src := egressBlock + "\npull_api { auth token \"raw:t\" }\n\n\"/x\" { pull { path \"/e\" } }\n"
	cfg, err := config.Parse([]byte(src))
	if err != nil {
		return dispatcher.EgressPolicy{}, fmt.Errorf("parse generated config: %w\n%s", err, src)
	}
	compiled, res := config.Compile(cfg)
	if !res.OK {
		return dispatcher.EgressPolicy{}, fmt.Errorf("compile generated config: %s\n%s", config.FormatValidationText(res), src)
	}
	ep := compiled.Defaults.EgressPolicy
	mapRules := func(in []config.EgressRule) []dispatcher.EgressRule { // = app.mapEgressRules (unexported there)
		if len(in) == 0 {
			return nil
		}
		out := make([]dispatcher.EgressRule, 0, len(in))
		for _, r := range in {
			out = append(out, dispatcher.EgressRule{Host: r.Host, Subdomains: r.Subdomains, CIDR: r.CIDR, IsCIDR: r.IsCIDR})
		}
		return out
	}
	p := dispatcher.EgressPolicy{HTTPSOnly: ep.HTTPSOnly, Redirects: ep.Redirects, DNSRebindProtection: ep.DNSRebindProtection,
		Allow: mapRules(ep.Allow), Deny: mapRules(ep.Deny)}
	polMu.Lock()
	polCache[egressBlock] = p
	polMu.Unlock()
	return p, nil
}

// ---- stub resolver -------------------------------------------------------------------------------------------

// StubResolver answers from the row's script.  The answer for a host is the one scripted for the hop that is being
// checked at this moment - hop k is checked after exactly k requests have been sent - so the same host name may
// resolve differently at different hops of a redirect chain (DNS rebinding between hops).
type StubResolver struct {
	mu      sync.Mutex
	Chain   []ConcHop
	Rec     *Recorder
	Lookups []string
}

func (r *StubResolver) script(key string) *ConcHop {
	r.Rec.mu.Lock()
	k := len(r.Rec.Sent) - r.Rec.Base
	r.Rec.mu.Unlock()
	if k >= 0 && k < len(r.Chain) && r.Chain[k].Lookup == key {
		return &r.Chain[k]
	}
	for i := range r.Chain {
		if r.Chain[i].Lookup == key {
			return &r.Chain[i]
		}
	}
	return nil
}

func (r *StubResolver) LookupIPAddr(_ context.Context, host string) ([]net.IPAddr, error) {
	key := strings.TrimSuffix(strings.ToLower(strings.TrimSpace(host)), ".")
	r.mu.Lock()
	r.Lookups = append(r.Lookups, host)
	r.mu.Unlock()
	if a, err := netip.ParseAddr(key); err == nil { // a real resolver answers an IP literal with itself
		return []net.IPAddr{{IP: net.IP(a.AsSlice())}}, nil
	}
	h := r.script(key)
	if h == nil || h.Err {
		return nil, &net.DNSError{Err: "no such host", Name: host, IsNotFound: true}
	}
	out := make([]net.IPAddr, 0, len(h.ips))
	for _, ip := range h.ips {
		out = append(out, net.IPAddr{IP: ip})
	}
	return out, nil
}

// ---- recording transport -------------------------------------------------------------------------------------

type SentReq struct {
	Hop     int    `json:"hop"` // index of the chain hop this request went to (-1: not a hop of the chain)
	URL     string `json:"url"`
	Host    string `json:"host"`
	Method  string `json:"method"`
	BodyLen int    `json:"bodylen"`
	BodySHA string `json:"bodysha"`
	Hdr     int    `json:"hdr"` // number of header lines
}

type Recorder struct {
	mu    sync.Mutex
	Chain []ConcHop
	Sent  []SentReq
	Base  int // requests sent before the current delivery attempt started
}

var reHop = regexp.MustCompile(`/hook/h(\d+)`)

func (t *Recorder) RoundTrip(req *http.Request) (*http.Response, error) {
	var body []byte
	if req.Body != nil {
		body, _ = io.ReadAll(req.Body)
		req.Body.Close()
	}
	sum := sha256.Sum256(body)
	idx := -1
	if m := reHop.FindStringSubmatch(req.URL.Path); m != nil {
		if k, err := strconv.Atoi(m[1]); err == nil && k < len(t.Chain) {
			// the request must really be addressed to that hop: compare the authority's host with the hop's host
			want := strings.TrimSuffix(strings.ToLower(t.Chain[k].Host), ".")
			got := strings.TrimSuffix(strings.ToLower(req.URL.Hostname()), ".")
			if want == got {
				idx = k
			}
		}
	}
	t.mu.Lock()
	t.Sent = append(t.Sent, SentReq{Hop: idx, URL: req.URL.String(), Host: req.Host, Method: req.Method, BodyLen: len(body),
		BodySHA: hex.EncodeToString(sum[:8]), Hdr: len(req.Header)})
	t.mu.Unlock()
	code := 200
	hdr := http.Header{}
	if idx >= 0 {
		code = t.Chain[idx].Code
		if code >= 300 && code < 400 && idx+1 < len(t.Chain) {
			hdr.Set("Location", t.Chain[idx+1].URL)
		}
	}
	return &http.Response{StatusCode: code, Status: strconv.Itoa(code) + " " + http.StatusText(code), Proto: "HTTP/1.1", ProtoMajor: 1, ProtoMinor: 1,
		Header: hdr, Body: io.NopCloser(bytes.NewReader(nil)), Request: req}, nil
}

// ---- observation ---------------------------------------------------------------------------------------------

type Obs struct {
	N       int       `json:"n"`      // requests sent (first attempt)
	HopIdx  []int     `json:"hopidx"` // hop index of every request of the first attempt, in order
	Cls     string    `json:"cls"`    // ok | redirect | policy_denied | error | status
	Status  int       `json:"status"`
	Err     string    `json:"err"`
	Lookups []string  `json:"lookups"`
	Sent    []SentReq `json:"sent"`
}

type Disp struct {
	State    string   `json:"state"`    // delivered | dead | queued | leased | gone
	Reason   string   `json:"reason"`   // dead reason
	Attempts int      `json:"attempts"` // delivery attempts recorded in the store
	Outcomes []string `json:"outcomes"` // outcome of every recorded attempt
	Calls    int      `json:"calls"`    // Deliver calls
	Total    int      `json:"total"`    // requests sent over all attempts
	RetryMax int      `json:"retrymax"`
	Attempt  int      `json:"attempt"` // attempt counter of the stored message
}

func classify(res dispatcher.Result) (string, int, string) {
	if res.Err != nil {
		if errors.Is(res.Err, dispatcher.ErrPolicyDenied) {
			return "policy_denied", res.StatusCode, res.Err.Error()
		}
		return "error", res.StatusCode, res.Err.Error()
	}
	switch {
	case res.StatusCode >= 200 && res.StatusCode < 300:
		return "ok", res.StatusCode, ""
	case res.StatusCode >= 300 && res.StatusCode < 400:
		return "redirect", res.StatusCode, ""
	}
	return "status", res.StatusCode, ""
}

func newDeliverer(c *Conc) (*dispatcher.HTTPDeliverer, *Recorder, *StubResolver, error) {
	pol, err := BuildPolicy(c.Policy)
	if err != nil {
		return nil, nil, nil, err
	}
	rec := &Recorder{Chain: c.Hops}
	stub := &StubResolver{Chain: c.Hops, Rec: rec}
	d := dispatcher.NewHTTPDeliverer(&http.Client{Transport: rec}, pol)
	d.Resolver = stub
	return d, rec, stub, nil
}

func obsFrom(rec *Recorder, stub *StubResolver, res dispatcher.Result, firstN int) Obs {
	cls, st, es := classify(res)
	o := Obs{Cls: cls, Status: st, Err: es, HopIdx: []int{}, Lookups: []string{}, Sent: []SentReq{}}
	rec.mu.Lock()
	sent := append([]SentReq(nil), rec.Sent...)
	rec.mu.Unlock()
	if firstN >= 0 && firstN < len(sent) {
		sent = sent[:firstN]
	}
	if sent == nil {
		sent = []SentReq{}
	}
	o.Sent = sent
	o.N = len(sent)
	for _, s := range sent {
		o.HopIdx = append(o.HopIdx, s.Hop)
	}
	stub.mu.Lock()
	o.Lookups = append(o.Lookups, stub.Lookups...)
	stub.mu.Unlock()
	return o
}

var payload = []byte(`{"event":"verif","n":1}`)

// ExecDirect runs one concrete instance through HTTPDeliverer.Deliver.
func ExecDirect(c *Conc) (Obs, error) {
	d, rec, stub, err := newDeliverer(c)
	if err != nil {
		return Obs{}, err
	}
	ctx, cancel := context.WithTimeout(context.Background(), 5*time.Second)
	defer cancel()
	res := d.Deliver(ctx, dispatcher.Delivery{ID: "m1", Target: c.Hops[0].URL, URL: c.Hops[0].URL, Method: http.MethodPost,
		Header: http.Header{"Content-Type": []string{"application/json"}}, Body: payload})
	return obsFrom(rec, stub, res, -1), nil
}

// recDeliverer wraps the real deliverer to see every Result the dispatcher gets.
type recDeliverer struct {
	inner   *dispatcher.HTTPDeliverer
	rec     *Recorder
	mu      sync.Mutex
	results []dispatcher.Result
	sentAt  []int // requests sent after each call
}

func (w *recDeliverer) Deliver(ctx context.Context, d dispatcher.Delivery) dispatcher.Result {
	w.rec.mu.Lock()
	w.rec.Base = len(w.rec.Sent)
	w.rec.mu.Unlock()
	res := w.inner.Deliver(ctx, d)
	w.rec.mu.Lock()
	n := len(w.rec.Sent)
	w.rec.mu.Unlock()
	w.mu.Lock()
	w.results = append(w.results, res)
	w.sentAt = append(w.sentAt, n)
	w.mu.Unlock()
	return res
}

const RetryMax = 2

// ExecDispatch runs one concrete instance through the real PushDispatcher on a MemoryStore.
func ExecDispatch(c *Conc) (Obs, Disp, error) {
	d, rec, stub, err := newDeliverer(c)
	if err != nil {
		return Obs{}, Disp{}, err
	}
	store := queue.NewMemoryStore(queue.WithDeliveredRetention(time.Hour))
	wrap := &recDeliverer{inner: d, rec: rec}
	target := c.Hops[0].URL
	pd := &dispatcher.PushDispatcher{
		Store:     store,
		Deliverer: wrap,
		Routes: []dispatcher.RouteConfig{{Route: "/r", Concurrency: 1, Targets: []dispatcher.TargetConfig{{URL: target, Timeout: 5 * time.Second,
			Retry: dispatcher.RetryConfig{Type: "exponential", Max: RetryMax, Base: time.Millisecond, Cap: 2 * time.Millisecond}}}}},
		Logger:  slog.New(slog.NewTextHandler(io.Discard, nil)),
		MaxWait: 15 * time.Millisecond,
	}
	if err := store.Enqueue(queue.Envelope{ID: "m1", Route: "/r", Target: target, Payload: payload, Headers: map[string]string{"Content-Type": "application/json"}}); err != nil {
		return Obs{}, Disp{}, err
	}
	pd.Start()
	deadline := time.Now().Add(30 * time.Second)
	state, reason, attempt := "gone", "", 0
	for {
		rows := store.VerifDump()
		state, reason, attempt = "gone", "", 0
		for _, r := range rows {
			if r.Env.ID == "m1" {
				state, reason, attempt = string(r.Env.State), r.Env.DeadReason, r.Env.Attempt
			}
		}
		if state == "delivered" || state == "dead" || state == "gone" || time.Now().After(deadline) {
			break
		}
		time.Sleep(2 * time.Millisecond)
	}
	// give a wrong extra retry a chance to show up before stopping
	time.Sleep(8 * time.Millisecond)
	pd.Drain(3 * time.Second)
	rows := store.VerifDump()
	for _, r := range rows {
		if r.Env.ID == "m1" {
			state, reason, attempt = string(r.Env.State), r.Env.DeadReason, r.Env.Attempt
		}
	}
	att, err := store.ListAttempts(queue.AttemptListRequest{EventID: "m1", Limit: 100})
	if err != nil {
		return Obs{}, Disp{}, err
	}
	wrap.mu.Lock()
	results := append([]dispatcher.Result(nil), wrap.results...)
	sentAt := append([]int(nil), wrap.sentAt...)
	wrap.mu.Unlock()
	disp := Disp{State: state, Reason: reason, Attempts: len(att.Items), Outcomes: []string{}, Calls: len(results), RetryMax: RetryMax, Attempt: attempt}
	for _, a := range att.Items {
		disp.Outcomes = append(disp.Outcomes, string(a.Outcome)+"/"+a.DeadReason)
	}
	rec.mu.Lock()
	disp.Total = len(rec.Sent)
	rec.mu.Unlock()
	var first dispatcher.Result
	firstN := 0
	if len(results) > 0 {
		first = results[0]
		firstN = sentAt[0]
	} else {
		first = dispatcher.Result{Err: errors.New("dispatcher never called the deliverer")}
	}
	return obsFrom(rec, stub, first, firstN), disp, nil
}
