// Package c16 concretises the abstract rows of spec/EgressMC.tla and executes them on the real
// dispatcher.HTTPDeliverer / dispatcher.PushDispatcher (property C16).
//
// The address table below is written from the RFCs, not from net.IP's classification helpers:
//
//	RFC 1122 / 6890  127.0.0.0/8 loopback, 0.0.0.0/8 "this network", 0.0.0.0 unspecified
//	RFC 1918         10.0.0.0/8, 172.16.0.0/12, 192.168.0.0/16
//	RFC 3927         169.254.0.0/16 link-local
//	RFC 5771         224.0.0.0/4 multicast
//	RFC 1112 / 919   240.0.0.0/4 reserved, 255.255.255.255 limited broadcast
//	RFC 6598         100.64.0.0/10 shared address space
//	RFC 4291         ::1 loopback, :: unspecified, fe80::/10 link-local, ff00::/8 multicast, ::ffff:0:0/96 IPv4-mapped
//	RFC 4193         fc00::/7 unique local
//	RFC 3879         fec0::/10 (deprecated site-local)
//	RFC 3513 / 4291  2000::/3 global unicast
package c16

import (
	"encoding/binary"
	"fmt"
	"math/big"
	"math/rand"
	"net"
	"net/netip"
	"strings"
)

// Block is one address class of the abstract table.
type Block struct {
	Class string
	V6    bool
	CIDR  string   // rule text of the whole block ("" when the class is not one CIDR block)
	Lo    string   // lowest address of the class
	Hi    string   // highest address of the class
	Mids  []string // inside addresses: first the plain middle, then noteworthy ones (incl. the addresses just outside OTHER blocks)
	Rand  bool     // further inside addresses may be drawn at random between Lo and Hi
}

// Blocks is the harness's own classification table.
var Blocks = map[string]*Block{
	"loop4":    {Class: "loop4", CIDR: "127.0.0.0/8", Lo: "127.0.0.0", Hi: "127.255.255.255", Mids: []string{"127.0.0.1", "127.0.0.53", "127.1.2.3", "127.128.0.1"}, Rand: true},
	"priv10":   {Class: "priv10", CIDR: "10.0.0.0/8", Lo: "10.0.0.0", Hi: "10.255.255.255", Mids: []string{"10.0.0.1", "10.96.0.10", "10.128.0.2"}, Rand: true},
	"priv172":  {Class: "priv172", CIDR: "172.16.0.0/12", Lo: "172.16.0.0", Hi: "172.31.255.255", Mids: []string{"172.17.0.1", "172.24.0.5", "172.31.0.1"}, Rand: true},
	"priv192":  {Class: "priv192", CIDR: "192.168.0.0/16", Lo: "192.168.0.0", Hi: "192.168.255.255", Mids: []string{"192.168.1.1", "192.168.178.1"}, Rand: true},
	"ll4":      {Class: "ll4", CIDR: "169.254.0.0/16", Lo: "169.254.0.0", Hi: "169.254.255.255", Mids: []string{"169.254.169.254", "169.254.1.1"}, Rand: true},
	"mc4":      {Class: "mc4", CIDR: "224.0.0.0/4", Lo: "224.0.0.0", Hi: "239.255.255.255", Mids: []string{"224.0.0.251", "232.1.1.1", "239.0.0.1"}, Rand: true},
	"unspec4":  {Class: "unspec4", CIDR: "0.0.0.0/32", Lo: "0.0.0.0", Hi: "0.0.0.0", Mids: []string{"0.0.0.0"}},
	"bcast4":   {Class: "bcast4", CIDR: "255.255.255.255/32", Lo: "255.255.255.255", Hi: "255.255.255.255", Mids: []string{"255.255.255.255"}},
	"resv4":    {Class: "resv4", Lo: "240.0.0.0", Hi: "255.255.255.254", Mids: []string{"240.0.0.1", "250.1.2.3"}, Rand: true},
	"thisnet4": {Class: "thisnet4", Lo: "0.0.0.1", Hi: "0.255.255.255", Mids: []string{"0.1.2.3", "0.0.1.0"}, Rand: true},
	"cgnat4":   {Class: "cgnat4", CIDR: "100.64.0.0/10", Lo: "100.64.0.0", Hi: "100.127.255.255", Mids: []string{"100.64.0.1", "100.100.100.100"}, Rand: true},
	"pubA4":    {Class: "pubA4", CIDR: "93.184.216.0/24", Lo: "93.184.216.0", Hi: "93.184.216.255", Mids: []string{"93.184.216.34", "93.184.216.1", "93.184.216.254"}, Rand: true},
	// ordinary public space; the inside list is every address just outside one of the blocks above
	"pub4": {Class: "pub4", Lo: "1.0.0.0", Hi: "223.255.255.255", Mids: []string{"8.8.8.8",
		"126.255.255.255", "128.0.0.0", "9.255.255.255", "11.0.0.0", "172.15.255.255", "172.32.0.0", "192.167.255.255", "192.169.0.0",
		"169.253.255.255", "169.255.0.0", "100.63.255.255", "100.128.0.0", "93.184.215.255", "93.184.217.0", "1.1.1.1", "151.101.1.140"}},

	"loop6":   {Class: "loop6", V6: true, CIDR: "::1/128", Lo: "::1", Hi: "::1", Mids: []string{"::1"}},
	"unspec6": {Class: "unspec6", V6: true, CIDR: "::/128", Lo: "::", Hi: "::", Mids: []string{"::"}},
	"ula6":    {Class: "ula6", V6: true, CIDR: "fc00::/7", Lo: "fc00::", Hi: "fdff:ffff:ffff:ffff:ffff:ffff:ffff:ffff", Mids: []string{"fd00::1", "fc00::1", "fd12:3456:789a:1::1"}, Rand: true},
	"ll6":     {Class: "ll6", V6: true, CIDR: "fe80::/10", Lo: "fe80::", Hi: "febf:ffff:ffff:ffff:ffff:ffff:ffff:ffff", Mids: []string{"fe80::1", "fe80::a00:27ff:fe4e:66a1", "fea0::1"}, Rand: true},
	"mc6":     {Class: "mc6", V6: true, CIDR: "ff00::/8", Lo: "ff00::", Hi: "ffff:ffff:ffff:ffff:ffff:ffff:ffff:ffff", Mids: []string{"ff02::1", "ff05::1:3", "ff0e::101"}, Rand: true},
	"site6":   {Class: "site6", V6: true, CIDR: "fec0::/10", Lo: "fec0::", Hi: "feff:ffff:ffff:ffff:ffff:ffff:ffff:ffff", Mids: []string{"fec0::1", "fed0::5"}, Rand: true},
	// outside 2000::/3 and none of the above (incl. the addresses just outside fc00::/7, fe80::/10, ::1 and NAT64 of loopback)
	"resv6": {Class: "resv6", V6: true, Lo: "::2", Hi: "fe7f:ffff:ffff:ffff:ffff:ffff:ffff:ffff", Mids: []string{"100::1",
		"fbff:ffff:ffff:ffff:ffff:ffff:ffff:ffff", "fe00::", "64:ff9b::7f00:1", "4000::1", "e000::1", "1fff:ffff:ffff:ffff:ffff:ffff:ffff:ffff"}},
	"pubA6": {Class: "pubA6", V6: true, CIDR: "2606:2800:220::/48", Lo: "2606:2800:220::", Hi: "2606:2800:220:ffff:ffff:ffff:ffff:ffff", Mids: []string{"2606:2800:220:1:248:1893:25c8:1946", "2606:2800:220:8000::1"}, Rand: true},
	"pub6": {Class: "pub6", V6: true, Lo: "2000::", Hi: "3fff:ffff:ffff:ffff:ffff:ffff:ffff:ffff", Mids: []string{"2001:4860:4860::8888",
		"2606:2800:21f:ffff:ffff:ffff:ffff:ffff", "2606:2800:221::", "2a00:1450:4001:81b::200e", "2620:fe::fe"}},
}

// ForbiddenClasses are the classes the property statement lists (loopback, private, link-local, multicast, unspecified).
var ForbiddenClasses = map[string]bool{"loop4": true, "priv10": true, "priv172": true, "priv192": true, "ll4": true, "mc4": true, "unspec4": true,
	"loop6": true, "ula6": true, "ll6": true, "mc6": true, "unspec6": true}

func mustIP(s string) net.IP {
	ip := net.ParseIP(s)
	if ip == nil {
		panic("bad ip in table: " + s)
	}
	return ip
}

func ipToBig(ip net.IP, v6 bool) *big.Int {
	if v6 {
		return new(big.Int).SetBytes(ip.To16())
	}
	return new(big.Int).SetBytes(ip.To4())
}

func bigToIP(b *big.Int, v6 bool) net.IP {
	n := 4
	if v6 {
		n = 16
	}
	out := make([]byte, n)
	bs := b.Bytes()
	copy(out[n-len(bs):], bs)
	return net.IP(out)
}

// classifyOwn is the harness's own classifier (longest / most specific match over the table); used to self-check
// every concrete address against the class it was drawn for.
func classifyOwn(ip net.IP) string {
	v4 := ip.To4()
	if v4 != nil {
		n := binary.BigEndian.Uint32(v4)
		in := func(lo, hi string) bool {
			return n >= binary.BigEndian.Uint32(mustIP(lo).To4()) && n <= binary.BigEndian.Uint32(mustIP(hi).To4())
		}
		for _, c := range []string{"unspec4", "bcast4", "pubA4", "loop4", "priv10", "priv172", "priv192", "ll4", "mc4", "cgnat4", "thisnet4", "resv4"} {
			if in(Blocks[c].Lo, Blocks[c].Hi) {
				return c
			}
		}
		return "pub4"
	}
	x := ipToBig(ip, true)
	in := func(lo, hi string) bool {
		return x.Cmp(ipToBig(mustIP(lo), true)) >= 0 && x.Cmp(ipToBig(mustIP(hi), true)) <= 0
	}
	for _, c := range []string{"unspec6", "loop6", "pubA6", "ula6", "ll6", "site6", "mc6"} {
		if in(Blocks[c].Lo, Blocks[c].Hi) {
			return c
		}
	}
	if in("2000::", "3fff:ffff:ffff:ffff:ffff:ffff:ffff:ffff") {
		return "pub6"
	}
	return "resv6"
}

// PickAddr returns a concrete address of class / position; variant selects among the inside addresses.
func PickAddr(class, pos string, variant int, rng *rand.Rand) net.IP {
	b := Blocks[class]
	if b == nil {
		panic("unknown class " + class)
	}
	var ip net.IP
	switch pos {
	case "lo":
		ip = mustIP(b.Lo)
	case "hi":
		ip = mustIP(b.Hi)
	default:
		// variant already carries the row's salt: the noteworthy inside addresses (among them every address just outside
		// another block) are spread over the rows; blocks marked Rand mix them with seeded random inside addresses
		k := variant % (len(b.Mids) + 2)
		if !b.Rand {
			ip = mustIP(b.Mids[variant%len(b.Mids)])
		} else if k < len(b.Mids) {
			ip = mustIP(b.Mids[k])
		} else {
			lo, hi := ipToBig(mustIP(b.Lo), b.V6), ipToBig(mustIP(b.Hi), b.V6)
			// strictly between the edges, so that "mid" never coincides with "lo" / "hi"
			span := new(big.Int).Sub(hi, lo)
			span.Sub(span, big.NewInt(1))
			off := new(big.Int).Rand(rng, span)
			off.Add(off, big.NewInt(1))
			ip = bigToIP(new(big.Int).Add(lo, off), b.V6)
		}
	}
	if got := classifyOwn(ip); got != class {
		panic(fmt.Sprintf("concretiser self-check: %s drawn for %s/%s classifies as %s", ip, class, pos, got))
	}
	if b.V6 {
		return ip.To16()
	}
	return ip.To4()
}

// ---- textual forms -------------------------------------------------------------------------------------------

func v4Text(ip net.IP) string {
	v := ip.To4()
	return fmt.Sprintf("%d.%d.%d.%d", v[0], v[1], v[2], v[3])
}

// mappedText writes an IPv4 address as an IPv4-mapped IPv6 address in one of several spellings.
func mappedText(ip net.IP, variant int) string {
	v := ip.To4()
	switch variant % 4 {
	case 0:
		return "::ffff:" + v4Text(ip)
	case 1:
		return fmt.Sprintf("::ffff:%x:%x", uint16(v[0])<<8|uint16(v[1]), uint16(v[2])<<8|uint16(v[3]))
	case 2:
		return fmt.Sprintf("0:0:0:0:0:ffff:%x:%x", uint16(v[0])<<8|uint16(v[1]), uint16(v[2])<<8|uint16(v[3]))
	default:
		return "0000:0000:0000:0000:0000:FFFF:" + v4Text(ip)
	}
}

// v6Text writes an IPv6 address compressed, fully expanded, or upper case.
func v6Text(ip net.IP, variant int) string {
	v := ip.To16()
	switch variant % 3 {
	case 1:
		parts := make([]string, 8)
		for i := 0; i < 8; i++ {
			parts[i] = fmt.Sprintf("%04x", uint16(v[2*i])<<8|uint16(v[2*i+1]))
		}
		return strings.Join(parts, ":")
	case 2:
		return strings.ToUpper(compress6(v))
	default:
		return compress6(v)
	}
}

// compress6: RFC 5952 text without relying on net.IP.String for mapped addresses (never called with mapped ones).
func compress6(v net.IP) string {
	return v.String()
}

// OddV4 writes an IPv4 address in a notation inet_aton accepts but the dotted-quad grammar does not.
func OddV4(ip net.IP, variant int) string {
	s := oddV4(ip, variant)
	// some notations coincide with the canonical dotted quad for some addresses (223.255.255.255 zero-padded to three
	// digits is itself): the plain decimal number never does
	if _, err := netip.ParseAddr(s); err == nil {
		return oddV4(ip, 0)
	}
	return s
}

func oddV4(ip net.IP, variant int) string {
	v := ip.To4()
	n := binary.BigEndian.Uint32(v)
	switch variant % 7 {
	case 0:
		return fmt.Sprintf("%d", n) // 2130706433
	case 1:
		return fmt.Sprintf("0x%08x", n) // 0x7f000001
	case 2:
		return fmt.Sprintf("0%o.0%o.0%o.0%o", v[0], v[1], v[2], v[3]) // 0177.00.00.01
	case 3:
		return fmt.Sprintf("0x%x.0x%x.0x%x.0x%x", v[0], v[1], v[2], v[3])
	case 4:
		return fmt.Sprintf("%d.%d", v[0], n&0xffffff) // 127.1
	case 5:
		return fmt.Sprintf("%03d.%03d.%03d.%03d", v[0], v[1], v[2], v[3]) // 127.000.000.001
	default:
		return fmt.Sprintf("%d.%d.%d", v[0], v[1], uint32(v[2])<<8|uint32(v[3])) // 127.0.1
	}
}

// ---- names ---------------------------------------------------------------------------------------------------

// label alphabets: "xd" must END with the text of "d"
var labelMaps = []map[string]string{
	{"t": "com", "d": "example", "s": "api", "a": "eu", "xd": "evil-example", "u": "net", "o": "other"},
	{"t": "io", "d": "hooks", "s": "a", "a": "b", "xd": "xhooks", "u": "org", "o": "partner-site"},
	{"t": "internal", "d": "svc-1", "s": "x--y", "a": "0", "xd": "notsvc-1", "u": "example", "o": "cdn"},
	{"t": "co.uk", "d": "shop", "s": "www", "a": "eu-west-1", "xd": "workshop", "u": "dev", "o": "t"},
}

// NameText turns a label sequence (top-level label first) into a host name.
func NameText(labels []string, variant int) string {
	m := labelMaps[variant%len(labelMaps)]
	parts := make([]string, len(labels))
	for i, l := range labels {
		t, ok := m[l]
		if !ok {
			panic("unknown label " + l)
		}
		parts[len(labels)-1-i] = t
	}
	return strings.Join(parts, ".")
}

// Noteworthy lists the concrete addresses whose use is counted: both edges of every block and every listed inside
// address of the classes that are not one block (where the addresses just outside the blocks live).
func Noteworthy() map[string]string {
	out := map[string]string{}
	for c, b := range Blocks {
		out[mustIP(b.Lo).String()] = c + "@lo"
		out[mustIP(b.Hi).String()] = c + "@hi"
		if !b.Rand {
			for _, m := range b.Mids {
				if _, ok := out[mustIP(m).String()]; !ok {
					out[mustIP(m).String()] = c + "@in"
				}
			}
		}
	}
	return out
}
