package c16

import (
	"context"
	"encoding/binary"
	"fmt"
	"io"
	"net"
	"net/http"
	"net/url"
	"os"
	"path/filepath"
	"strings"
	"sync"
	"sync/atomic"
	"time"

	"github.com/nuetzliches/hookaido/internal/app"
	"github.com/nuetzliches/hookaido/internal/queue"
)

// Production wiring: app.VerifBoot{HTTPDispatcher: true} builds the policy, the HTTP deliverer and the dispatch routes
// exactly as `hookaido run` does (compiled.Defaults.EgressPolicy, mapEgressRules, buildDispatchRoutes,
// NewHTTPDeliverer(nil client)).  The deliverer made that way has no injected resolver or transport, so the two process
// globals it ends up using are replaced for the lifetime of the tool run: http.DefaultTransport (recording transport)
// and net.DefaultResolver (a pure-Go resolver whose "connection" is an in-process DNS responder backed by the row's
// script).  Rows therefore run one at a time in this mode.

var (
	prodMu   sync.Mutex
	prodOnce sync.Once
	curRec   atomic.Pointer[Recorder]
	curDNS   atomic.Pointer[dnsResponder]
)

type switchTransport struct{}

func (switchTransport) RoundTrip(req *http.Request) (*http.Response, error) {
	r := curRec.Load()
	if r == nil {
		return nil, fmt.Errorf("no recorder installed")
	}
	return r.RoundTrip(req)
}

// installProdGlobals replaces the two process globals once; every execution then installs its own recorder / script.
func installProdGlobals() {
	prodOnce.Do(func() {
		http.DefaultTransport = switchTransport{}
		net.DefaultResolver = &net.Resolver{PreferGo: true, Dial: func(ctx context.Context, network, address string) (net.Conn, error) {
			d := curDNS.Load()
			if d == nil {
				return nil, fmt.Errorf("no dns script installed")
			}
			return d.dial(ctx, network, address)
		}}
	})
}

// dnsConn is the client side of an in-memory DNS-over-TCP exchange (2-byte length framing).
type dnsResponder struct {
	stub *StubResolver
}

func (d *dnsResponder) dial(ctx context.Context, network, address string) (net.Conn, error) {
	c1, c2 := net.Pipe()
	go d.serve(c2)
	return c1, nil
}

func (d *dnsResponder) serve(c net.Conn) {
	defer c.Close()
	for {
		var lb [2]byte
		if _, err := io.ReadFull(c, lb[:]); err != nil {
			return
		}
		q := make([]byte, binary.BigEndian.Uint16(lb[:]))
		if _, err := io.ReadFull(c, q); err != nil {
			return
		}
		resp := d.answer(q)
		out := make([]byte, 2+len(resp))
		binary.BigEndian.PutUint16(out, uint16(len(resp)))
		copy(out[2:], resp)
		if _, err := c.Write(out); err != nil {
			return
		}
	}
}

// answer builds the DNS response for one query message (RFC 1035 wire format; one question).
func (d *dnsResponder) answer(q []byte) []byte {
	if len(q) < 12 {
		return q
	}
	// parse the question name
	pos := 12
	var labels []string
	for pos < len(q) {
		n := int(q[pos])
		pos++
		if n == 0 {
			break
		}
		if pos+n > len(q) {
			return q[:12]
		}
		labels = append(labels, string(q[pos:pos+n]))
		pos += n
	}
	if pos+4 > len(q) {
		return q[:12]
	}
	qtype := binary.BigEndian.Uint16(q[pos:])
	qend := pos + 4
	name := strings.ToLower(strings.Join(labels, "."))
	d.stub.mu.Lock()
	d.stub.Lookups = append(d.stub.Lookups, fmt.Sprintf("%s/%d", name, qtype))
	d.stub.mu.Unlock()
	h := d.stub.script(name)
	resp := make([]byte, 0, 512)
	resp = append(resp, q[0], q[1]) // id
	rcode := byte(0)
	var rrs [][]byte
	if h == nil {
		rcode = 3 // NXDOMAIN
	} else if h.Err {
		rcode = 2 // SERVFAIL
	} else {
		for _, ip := range h.ips {
			switch {
			case qtype == 1 && len(ip) == 4:
				rrs = append(rrs, rr(1, ip))
			case qtype == 28 && len(ip) == 16:
				rrs = append(rrs, rr(28, ip)) // also ::ffff:a.b.c.d answers: exactly an IPv4-mapped AAAA record
			}
		}
	}
	resp = append(resp, 0x81, 0x80|rcode) // QR, RD, RA
	resp = append(resp, 0, 1)             // QDCOUNT
	resp = append(resp, byte(len(rrs)>>8), byte(len(rrs)))
	resp = append(resp, 0, 0, 0, 0)
	resp = append(resp, q[12:qend]...)
	for _, r := range rrs {
		resp = append(resp, r...)
	}
	return resp
}

func rr(typ uint16, data []byte) []byte {
	out := []byte{0xc0, 0x0c, byte(typ >> 8), byte(typ), 0, 1, 0, 0, 0, 30, byte(len(data) >> 8), byte(len(data))}
	return append(out, data...)
}

// ProdEligible: the target must be acceptable to config.Compile as a deliver URL (http / https, a host, parseable).
func ProdEligible(row *Row, c *Conc) bool {
	s := row.Hops[0].U.Scheme
	if s != "http" && s != "https" {
		return false
	}
	if row.Hops[0].U.H.K == "empty" {
		return false
	}
	u, err := url.Parse(c.Hops[0].URL)
	if err != nil || u.Host == "" || (u.Scheme != "http" && u.Scheme != "https") {
		return false
	}
	if strings.ContainsAny(c.Hops[0].URL, "\"\\{}") {
		return false
	}
	// Go's own resolver does not query all-numeric names ("2130706433", "0177.0.0.1"): it fails them locally, whatever the
	// row scripts as answer.  Only odd notations with a letter (hex forms) reach the scripted DNS responder.
	for i := range row.Hops {
		if row.Hops[i].U.H.K == "odd" && !row.Hops[i].Ans.isErr() && !strings.ContainsAny(strings.ToLower(c.Hops[i].Host), "abcdefx") {
			return false
		}
	}
	return true
}

// ExecProd runs one concrete instance through the production wiring.
func ExecProd(c *Conc, scratch string, seq int) (Obs, Disp, error) {
	prodMu.Lock()
	defer prodMu.Unlock()
	rec := &Recorder{Chain: c.Hops}
	stub := &StubResolver{Chain: c.Hops, Rec: rec}
	installProdGlobals()
	curRec.Store(rec)
	curDNS.Store(&dnsResponder{stub: stub})

	target := c.Hops[0].URL
	src := "ingress { listen \"127.0.0.1:0\" }\npull_api {\n  listen \"127.0.0.2:0\"\n  auth token \"raw:t\"\n}\nadmin_api { listen \"127.0.0.3:0\" }\n\n" +
		c.Policy + "\n\"/p\" {\n  deliver " + fmt.Sprintf("%q", target) + " {\n    retry exponential max 1 base 30s cap 30s jitter 0\n    timeout 5s\n  }\n}\n"
	cfgPath := filepath.Join(scratch, fmt.Sprintf("prod-%d.hookaido", seq))
	if err := os.WriteFile(cfgPath, []byte(src), 0o600); err != nil {
		return Obs{}, Disp{}, err
	}
	defer os.Remove(cfgPath)
	store := queue.NewMemoryStore(queue.WithDeliveredRetention(time.Hour))
	if err := store.Enqueue(queue.Envelope{ID: "m1", Route: "/p", Target: target, Payload: payload, Headers: map[string]string{"Content-Type": "application/json"}}); err != nil {
		return Obs{}, Disp{}, err
	}
	inst, err := app.VerifBoot(app.VerifOptions{ConfigPath: cfgPath, Store: store, HTTPDispatcher: true})
	if err != nil {
		return Obs{}, Disp{}, fmt.Errorf("VerifBoot: %w\n%s", err, src)
	}
	deadline := time.Now().Add(30 * time.Second)
	state, reason, attempt := "gone", "", 0
	for {
		state, reason, attempt = "gone", "", 0
		for _, r := range store.VerifDump() {
			if r.Env.ID == "m1" {
				state, reason, attempt = string(r.Env.State), r.Env.DeadReason, r.Env.Attempt
			}
		}
		if state == "delivered" || state == "dead" || state == "gone" || time.Now().After(deadline) {
			break
		}
		// a failed attempt that will be retried (in 30 s): the message is queued again with its attempt counted; the
		// retry is not awaited - one attempt is what this mode observes
		if state == "queued" && attempt >= 1 {
			state = "retrying"
			break
		}
		time.Sleep(2 * time.Millisecond)
	}
	time.Sleep(10 * time.Millisecond)
	// Stop waits for the dispatcher's workers to come back from their (2 s) dequeue wait; the message is terminal, so the
	// instance is shut down in the background
	go inst.Stop()
	for _, r := range store.VerifDump() {
		if r.Env.ID == "m1" && state != "retrying" {
			state, reason, attempt = string(r.Env.State), r.Env.DeadReason, r.Env.Attempt
		}
	}
	att, err := store.ListAttempts(queue.AttemptListRequest{EventID: "m1", Limit: 100})
	if err != nil {
		return Obs{}, Disp{}, err
	}
	disp := Disp{State: state, Reason: reason, Attempts: len(att.Items), Calls: len(att.Items), Outcomes: []string{}, RetryMax: 1, Attempt: attempt}
	// the first attempt (ListAttempts is newest first)
	o := Obs{HopIdx: []int{}, Lookups: []string{}, Sent: []SentReq{}, Cls: "error", Err: "no attempt recorded"}
	for i, a := range att.Items {
		disp.Outcomes = append(disp.Outcomes, string(a.Outcome)+"/"+a.DeadReason)
		if i == len(att.Items)-1 || a.Attempt == 1 {
			o.Status, o.Err = a.StatusCode, a.Error
			switch {
			case a.Error == "" && a.StatusCode >= 200 && a.StatusCode < 300:
				o.Cls = "ok"
			case a.Error == "" && a.StatusCode >= 300 && a.StatusCode < 400:
				o.Cls = "redirect"
			case a.Error == "":
				o.Cls = "status"
			case a.DeadReason == "policy_denied":
				o.Cls = "policy_denied"
			default:
				o.Cls = "error"
			}
		}
	}
	rec.mu.Lock()
	sent := append([]SentReq{}, rec.Sent...)
	rec.mu.Unlock()
	disp.Total = len(sent)
	per := len(sent)
	if disp.Calls > 1 && len(sent)%disp.Calls == 0 {
		per = len(sent) / disp.Calls
	}
	o.Sent = sent[:per]
	o.N = per
	for _, s := range o.Sent {
		o.HopIdx = append(o.HopIdx, s.Hop)
	}
	stub.mu.Lock()
	o.Lookups = append(o.Lookups, stub.Lookups...)
	stub.mu.Unlock()
	return o, disp, nil
}

func (a Ans) isErr() bool { return a.St == "err" }
