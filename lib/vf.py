"""Common machinery of the hookaido verification framework.

Exit codes of a check: 0 = held on everything explored (KNOWN-FINDING lines
allowed), 1 = VIOLATION printed, 2 = infrastructure problem (never a verdict).
"""
import atexit
import concurrent.futures as cf
import hashlib
import json
import os
import re
import shutil
import subprocess
import sys
import tempfile
import time

VERIF = os.path.dirname(os.path.dirname(os.path.abspath(__file__)))
REPO = os.environ.get("VERIF_REPO", "/repo")
SPEC = os.path.join(VERIF, "spec")
BUILD = os.path.join(VERIF, ".build")
HKV = os.path.join(BUILD, "hkv")
TLA_CP = "/opt/veriftools/tla/tla2tools.jar:/opt/veriftools/tla/CommunityModules-deps.jar"
NCPU = os.cpu_count() or 4


class Infra(Exception):
    """Infrastructure failure: exit 2, never a verdict."""


def goenv():
    env = dict(os.environ)
    env["GOFLAGS"] = "-mod=mod"
    env["GOPROXY"] = "off"
    env.pop("GOSUMDB", None)
    env.pop("GOTOOLCHAIN", None)
    return env


_built = False


def build_hkv(force=False):
    """Rebuild the Go harness against /repo's current working tree (tag verif)."""
    global _built
    if _built and not force:
        return HKV
    os.makedirs(BUILD, exist_ok=True)
    hdir = os.path.join(VERIF, "harness")
    shutil.copyfile(os.path.join(REPO, "go.sum"), os.path.join(hdir, "go.sum"))
    p = subprocess.run(["go", "build", "-tags", "verif", "-o", HKV, "./cmd/hkv"], cwd=hdir, env=goenv(),
                       stdout=subprocess.PIPE, stderr=subprocess.STDOUT, text=True)
    if p.returncode != 0:
        raise Infra("harness build failed:\n" + p.stdout[-4000:])
    _built = True
    return HKV


_tools_built = set()


def build_tool(name):
    """Build harness/cmd/<name> (its own main package) to .build/<name> against /repo's working tree."""
    out = os.path.join(BUILD, name)
    if name in _tools_built:
        return out
    os.makedirs(BUILD, exist_ok=True)
    hdir = os.path.join(VERIF, "harness")
    shutil.copyfile(os.path.join(REPO, "go.sum"), os.path.join(hdir, "go.sum"))
    p = subprocess.run(["go", "build", "-tags", "verif", "-o", out, "./cmd/" + name], cwd=hdir, env=goenv(),
                       stdout=subprocess.PIPE, stderr=subprocess.STDOUT, text=True)
    if p.returncode != 0:
        raise Infra("build of harness tool %s failed:\n%s" % (name, p.stdout[-4000:]))
    _tools_built.add(name)
    return out


def tool(name, args, timeout=1800, env=None, cwd=None, check=True):
    """Run a harness tool built by build_tool; returns stdout.  Non-zero exit is an infrastructure failure."""
    exe = build_tool(name)
    e = goenv()
    if env:
        e.update(env)
    try:
        p = subprocess.run([exe] + list(args), stdout=subprocess.PIPE, stderr=subprocess.PIPE, text=True, timeout=timeout, env=e, cwd=cwd)
    except subprocess.TimeoutExpired:
        raise Infra("%s timeout: %s" % (name, " ".join(args)))
    if check and p.returncode != 0:
        raise Infra("%s %s failed (%d): %s" % (name, " ".join(args[:2]), p.returncode, p.stderr[-3000:]))
    return p.stdout


def build_repo_binary(out, tags="verif"):
    p = subprocess.run(["go", "build", "-tags", tags, "-o", out, "./cmd/hookaido"], cwd=REPO, env=goenv(),
                       stdout=subprocess.PIPE, stderr=subprocess.STDOUT, text=True)
    if p.returncode != 0:
        raise Infra("hookaido build failed:\n" + p.stdout[-4000:])
    return out


class Ctx:
    def __init__(self, prop, tier, seed):
        self.prop = prop
        self.tier = tier
        self.seed = seed
        self.t0 = time.time()
        base = "/var/tmp"
        self.scratch = tempfile.mkdtemp(prefix="verif-%s-" % prop, dir=base)
        atexit.register(lambda: shutil.rmtree(self.scratch, ignore_errors=True))
        shm = "/dev/shm" if os.path.isdir("/dev/shm") else base
        self.shm = tempfile.mkdtemp(prefix="verif-%s-" % prop, dir=shm)
        atexit.register(lambda: shutil.rmtree(self.shm, ignore_errors=True))
        self.cov = {"states": 0, "transitions": 0, "traces_validated_against_impl": 0, "samples": [],
                    "mc_runs": [], "tv_events": 0, "schedules_executed": 0, "counters": {}}
        self.assumptions = []
        self.violations = []   # list of dict(sig, replay, text)
        self.known = []        # KNOWN-FINDING lines printed
        self.notes = []

    def sub(self, name):
        d = os.path.join(self.scratch, name)
        os.makedirs(d, exist_ok=True)
        return d

    def count(self, key, n=1):
        self.cov["counters"][key] = self.cov["counters"].get(key, 0) + n

    def sample(self, s):
        if len(self.cov["samples"]) < 6:
            self.cov["samples"].append(s)

    @property
    def quick(self):
        return self.tier == "quick"


# ---------------------------------------------------------------- TLC

def run_java_tlc(workdir, module, cfg, workers=1, timeout=600, heap="3g", extra=(), props=(), line_sink=None):
    """line_sink(line) -> True when it consumed the line (generator output): such lines are not kept in the returned text,
    so that a generator run with millions of printed schedules is parsed as a stream."""
    # TLC leaves an empty tlc-<n> directory in java.io.tmpdir per run: keep them inside the scratch directory of the check
    jtmp = os.path.join(workdir, "jtmp")
    os.makedirs(jtmp, exist_ok=True)
    cmd = ["java", "-XX:+UseParallelGC", "-Xmx" + heap, "-Xss64m", "-Djava.io.tmpdir=" + jtmp]
    cmd += ["-D" + p for p in props]
    cmd += ["-cp", TLA_CP, "tlc2.TLC", "-workers", str(workers), "-metadir", os.path.join(workdir, "md-" + cfg.replace(".cfg", "")),
            "-config", cfg] + list(extra) + [module]
    t0 = time.time()
    outp = os.path.join(workdir, "tlc-%s.out" % cfg.replace(".cfg", ""))
    with open(outp, "w") as of:
        try:
            p = subprocess.run(cmd, cwd=workdir, stdout=of, stderr=subprocess.STDOUT, timeout=timeout)
        except subprocess.TimeoutExpired:
            last = ""
            try:
                prog = [ln for ln in open(outp, errors="replace") if ln.startswith("Progress(")]
                last = prog[-1].strip() if prog else ""
            except OSError:
                pass
            raise Infra("TLC timeout after %ds: %s %s %s" % (timeout, module, cfg, last))
    if line_sink is None:
        out = open(outp, errors="replace").read()
    else:
        kept = []
        with open(outp, errors="replace") as f:
            for ln in f:
                if not line_sink(ln.rstrip("\n")):
                    kept.append(ln)
        out = "".join(kept)
        try:
            os.remove(outp)
        except OSError:
            pass
    return p.returncode, out, time.time() - t0


def spec_dir(ctx, name):
    """A scratch copy of /verif/spec (TLC litters its working directory)."""
    d = ctx.sub(name)
    for f in os.listdir(SPEC):
        if f.endswith(".tla"):
            shutil.copyfile(os.path.join(SPEC, f), os.path.join(d, f))
    return d


RE_STATES = re.compile(r"(\d+) states generated, (\d+) distinct states found")
RE_FAIL = re.compile(r'<<"FAIL", (\d+), "([^"]*)", "([^"]*)">>')
RE_DEPTH = re.compile(r"The depth of the complete state graph search is (\d+)")


def parse_tlc(out):
    r = {"generated": 0, "distinct": 0, "depth": 0, "error": None, "violated": []}
    m = RE_STATES.search(out)
    if m:
        r["generated"], r["distinct"] = int(m.group(1)), int(m.group(2))
    m = RE_DEPTH.search(out)
    if m:
        r["depth"] = int(m.group(1))
    for line in out.splitlines():
        if "is violated" in line or line.startswith("Error: Action property") or line.startswith("Error: Temporal properties were violated"):
            r["violated"].append(line.strip())
        elif line.startswith("Error:") and r["error"] is None and "is violated" not in line:
            r["error"] = line.strip()
    r["ok"] = ("Model checking completed. No error has been found." in out) or ("No error has been found" in out)
    return r


def tla_val(v):
    """Python -> TLA+ literal."""
    if isinstance(v, bool):
        return "TRUE" if v else "FALSE"
    if isinstance(v, int):
        return str(v)
    if isinstance(v, str):
        return json.dumps(v)
    if isinstance(v, (set, frozenset)):
        return "{" + ", ".join(tla_val(x) for x in sorted(v, key=str)) + "}"
    if isinstance(v, (list, tuple)):
        return "<<" + ", ".join(tla_val(x) for x in v) + ">>"
    if isinstance(v, dict):
        return "[" + ", ".join("%s |-> %s" % (k, tla_val(x)) for k, x in v.items()) + "]"
    raise ValueError(v)


def mc_run(ctx, name, base_module, consts, plain, invariants=(), properties=(), view=None, spec="Spec",
           workers=None, timeout=900, heap="12g", extra_defs="", extra=(), constraint=None, deadlock=False, line_sink=None):
    """Model-check base_module with constants given as definitions (consts) or cfg literals (plain)."""
    d = spec_dir(ctx, "mc-" + name)
    mod = "MC_" + re.sub(r"[^A-Za-z0-9_]", "_", name)
    lines = ["---- MODULE %s ----" % mod, "EXTENDS " + base_module]
    cfg = ["SPECIFICATION " + spec, "CONSTANTS"]
    for k, v in consts.items():
        lines.append("%s_val == %s" % (k, tla_val(v)))
        cfg.append("  %s <- %s_val" % (k, k))
    for k, v in plain.items():
        cfg.append("  %s = %s" % (k, tla_val(v)))
    if extra_defs:
        lines.append(extra_defs)
    lines.append("====")
    if view:
        cfg.append("VIEW " + view)
    if constraint:
        cfg.append("CONSTRAINT " + constraint)
    for i in invariants:
        cfg.append("INVARIANT " + i)
    if properties:
        cfg.append("PROPERTIES " + " ".join(properties))
    cfg.append("CHECK_DEADLOCK " + ("TRUE" if deadlock else "FALSE"))
    open(os.path.join(d, mod + ".tla"), "w").write("\n".join(lines) + "\n")
    open(os.path.join(d, mod + ".cfg"), "w").write("\n".join(cfg) + "\n")
    rc, out, secs = run_java_tlc(d, mod + ".tla", mod + ".cfg", workers=workers or NCPU, timeout=timeout, heap=heap, extra=extra, line_sink=line_sink)
    r = parse_tlc(out)
    r["name"], r["secs"], r["out"], r["dir"] = name, round(secs, 1), out, d
    return r


def mc_expect_ok(ctx, r, what):
    """A design-level model-checking run must succeed; otherwise it is an infrastructure/spec problem (exit 2):
    a TLC counterexample on the SPEC is not behaviour of the code."""
    if not r["ok"] or r["violated"] or r["error"]:
        tail = "\n".join(r["out"].splitlines()[-60:])
        raise Infra("%s: model checking of the specification failed (%s)\n%s" % (what, r["violated"] or r["error"], tail))
    ctx.cov["states"] += r["distinct"]
    ctx.cov["transitions"] += r["generated"]
    ctx.cov["mc_runs"].append({"name": r["name"], "distinct": r["distinct"], "generated": r["generated"], "depth": r["depth"], "secs": r["secs"]})


# ---------------------------------------------------------------- trace validation

def tv_run(ctx, trace_files, module="QueueTrace", name="tv", timeout=900, heap="3g", props=(), workers=1, spec="Spec"):
    """Validate trace files in parallel (one TLC process each).  Returns list of results
    {file, fails:[(line, ev, check)], matched, total, error}."""
    d = spec_dir(ctx, name)
    jobs = []
    for i, tf in enumerate(trace_files):
        cfgname = "%s_%d.cfg" % (module, i)
        open(os.path.join(d, cfgname), "w").write(
            "SPECIFICATION %s\nCONSTANT TraceFile = %s\nPOSTCONDITION TraceAccepted\nCHECK_DEADLOCK FALSE\n" % (spec, json.dumps(tf)))
        jobs.append((tf, cfgname))

    def one(job):
        tf, cfgname = job
        total = sum(1 for _ in open(tf))
        if total == 0:
            return {"file": tf, "fails": [], "matched": 0, "total": 0, "error": None, "generated": 0}
        rc, out, secs = run_java_tlc(d, module + ".tla", cfgname, workers=workers, timeout=timeout, heap=heap, props=props)
        r = parse_tlc(out)
        fails = [(int(a), b, c) for a, b, c in RE_FAIL.findall(out)]
        matched = max(0, r["depth"] - 1)
        err = None
        if not r["ok"] and matched >= total:
            err = r["error"] or "tlc failed"
        elif r["error"] and "REJECTED" not in out and matched < total:
            err = r["error"]
        return {"file": tf, "fails": fails, "matched": matched, "total": total, "error": err, "generated": r["generated"],
                "out_tail": "\n".join(out.splitlines()[-25:])}

    with cf.ThreadPoolExecutor(max_workers=min(len(jobs), NCPU) or 1) as ex:
        res = list(ex.map(one, jobs))
    for r in res:
        ctx.cov["tv_events"] += r["matched"]
        ctx.cov["transitions"] += r["matched"]
        ctx.cov["states"] += r["matched"]
    return res


def load_trace(path):
    return [json.loads(x) for x in open(path)]


def trace_of_line(events, line):
    """Name and Reset index (1-based) of the behaviour that contains 1-based line."""
    j = line
    while j >= 1 and events[j - 1].get("ev") != "Reset":
        j -= 1
    return (events[j - 1].get("tr") if j >= 1 else "?"), j


# ---------------------------------------------------------------- findings / verdict

def load_known(prop):
    out = []
    p = os.path.join(VERIF, "known_findings.txt")
    if not os.path.exists(p):
        return out
    for line in open(p):
        line = line.strip()
        m = re.match(r"finding:\s+property=(\S+)\s+sig=(\S+)\s+(.*)", line)
        if m and m.group(1) == prop:
            out.append({"sig": m.group(2), "text": m.group(3)})
    return out


def sig_matches(pattern, sig):
    # '*' wildcard inside a signature component
    rx = "^" + re.escape(pattern).replace("\\*", ".*") + "$"
    return re.match(rx, sig) is not None


def report(ctx, sig, text, replay_obj):
    """Record a reproduced divergence: KNOWN-FINDING if listed, else VIOLATION."""
    for k in load_known(ctx.prop):
        if sig_matches(k["sig"], sig):
            # one line per LISTED finding (the first matching signature is shown), however many divergences match it
            if not any(x.startswith("KNOWN-FINDING: property=%s %s [" % (ctx.prop, k["text"])) for x in ctx.known):
                line = "KNOWN-FINDING: property=%s %s [%s]" % (ctx.prop, k["text"], sig)
                ctx.known.append(line)
                print(line, flush=True)
            ctx.count("known_finding_matches", 1)
            return False
    h = hashlib.sha256((sig + json.dumps(replay_obj, sort_keys=True, default=str)).encode()).hexdigest()[:10]
    rdir = os.path.join(VERIF, "replays")
    os.makedirs(rdir, exist_ok=True)
    path = os.path.join(rdir, "%s-%s.json" % (ctx.prop, h))
    replay_obj = dict(replay_obj)
    replay_obj.update({"property": ctx.prop, "sig": sig, "text": text})
    json.dump(replay_obj, open(path, "w"), indent=1, default=str)
    if not any(v["sig"] == sig for v in ctx.violations):
        print("VIOLATION property=%s replay=%s" % (ctx.prop, path), flush=True)
        print("  " + sig + ": " + text, flush=True)
    ctx.violations.append({"sig": sig, "replay": path, "text": text})
    return True


def write_evidence(ctx, level, rule, extra=None, exhaustive=None):
    cov = dict(ctx.cov)
    cov["rule"] = rule
    if not cov["samples"]:
        cov["samples"] = ["(no sample recorded)"]
    cov["states"] = max(1, cov["states"])
    cov["transitions"] = max(1, cov["transitions"])
    cov["evaluations"] = max(1, cov.get("evaluations", cov["schedules_executed"] + cov["tv_events"]))
    cov["distinct_nontrivial"] = max(2, cov.get("distinct_nontrivial", cov["tv_events"]))
    if exhaustive is not None:
        cov["exhaustive"] = exhaustive
    if extra:
        cov.update(extra)
    ev = {"property_id": ctx.prop, "tier": ctx.tier, "seed": ctx.seed, "level": level, "coverage": cov,
          "assumptions": ctx.assumptions, "wall_s": round(time.time() - ctx.t0, 1), "violations": len(ctx.violations),
          "known_findings": ctx.known, "notes": ctx.notes}
    os.makedirs(os.path.join(VERIF, "evidence"), exist_ok=True)
    json.dump(ev, open(os.path.join(VERIF, "evidence", ctx.prop + ".json"), "w"), indent=1, default=str)


def hkv(args, timeout=1800, env=None, cwd=None):
    build_hkv()
    e = goenv()
    if env:
        e.update(env)
    try:
        p = subprocess.run([HKV] + list(args), stdout=subprocess.PIPE, stderr=subprocess.PIPE, text=True, timeout=timeout, env=e, cwd=cwd)
    except subprocess.TimeoutExpired:
        raise Infra("hkv timeout: " + " ".join(args))
    if p.returncode != 0:
        raise Infra("hkv %s failed (%d): %s" % (args[0], p.returncode, p.stderr[-3000:]))
    return p.stdout
