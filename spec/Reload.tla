------------------------------- MODULE Reload -------------------------------
(***************************************************************************)
(* Atomic visibility of a configuration reload (C18, second clause).       *)
(*                                                                         *)
(* The running configuration lives in cells (groups of per-request state   *)
(* that are replaced together under one write lock).  A reload is a        *)
(* sequence of write segments, each replacing a set of cells; a request    *)
(* ("probe") is a sequence of read segments, each reading one cell.        *)
(*   ReloadWrites = <<{"auth"}, {"routes"}>>   two critical sections       *)
(*   ReloadWrites = <<{"auth", "routes"}>>     one swap                    *)
(*   Snapshot = TRUE: the probe binds to the version it saw first (per-    *)
(*   request snapshot); FALSE: every segment reads the live cell.          *)
(* NoMixture: a finished probe has read one version only.                  *)
(* The same module enumerates all interleavings of read and write          *)
(* segments for the real code (GEN): the harness pauses the real request   *)
(* and the real reload at the corresponding hook points.                   *)
(***************************************************************************)
EXTENDS Integers, Sequences, FiniteSets, TLC, Json

CONSTANTS ProbeReads,    \* sequence of cell names, one per read segment
          ReloadWrites,  \* sequence of sets of cell names, one per write segment
          Snapshot,      \* BOOLEAN
          Emit           \* BOOLEAN: print complete interleavings (GEN)

Cells == {"auth", "routes"}

VARIABLES ver,    \* cell -> "old" | "new"
          pp, rp, \* next read / write segment
          seen,   \* versions read so far
          order   \* the interleaving so far: sequence of "p" / "r"
vars == <<ver, pp, rp, seen, order>>

Init == ver = [c \in Cells |-> "old"] /\ pp = 1 /\ rp = 1 /\ seen = <<>> /\ order = <<>>

ProbeStep ==
  /\ pp <= Len(ProbeReads)
  /\ LET live == ver[ProbeReads[pp]]
         v    == IF Snapshot /\ seen # <<>> THEN seen[1] ELSE live
     IN seen' = Append(seen, v)
  /\ pp' = pp + 1 /\ order' = Append(order, "p") /\ UNCHANGED <<ver, rp>>

ReloadStep ==
  /\ rp <= Len(ReloadWrites)
  /\ ver' = [c \in Cells |-> IF c \in ReloadWrites[rp] THEN "new" ELSE ver[c]]
  /\ rp' = rp + 1 /\ order' = Append(order, "r") /\ UNCHANGED <<pp, seen>>

Done == pp > Len(ProbeReads) /\ rp > Len(ReloadWrites)

Next == (ProbeStep \/ ReloadStep) /\ (Emit /\ Done' => PrintT(<<"ORDER", ToJson(order')>>))
Spec == Init /\ [][Next]_vars

NoMixture == pp > Len(ProbeReads) => \A i, j \in DOMAIN seen : seen[i] = seen[j]
=============================================================================
