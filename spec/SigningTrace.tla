---------------------------- MODULE SigningTrace ----------------------------
(***************************************************************************)
(* Trace validation of the real outbound signer (dispatcher.HTTPDeliverer  *)
(* with an injected clock) and of the real inbound verifier (production    *)
(* wiring, app.VerifBoot) against Signing.tla ("follow mode").             *)
(* Every line is one execution of one concrete instance of an abstract row *)
(* of SigningMC:                                                           *)
(*   row  : the abstract row exactly as TLC generated it                   *)
(*   conc : concrete instants (unix seconds), ids, listing order, method,  *)
(*          path, body kind, unset secrets                                 *)
(*   obs  : Out - what the push target received: was anything sent, which  *)
(*          candidate secret reproduces the signature header over          *)
(*          METHOD \n path-of-the-request-line \n timestamp-header \n      *)
(*          hex(sha256(received body)) (recomputed by the harness for      *)
(*          EVERY configured version), the timestamp header text, the path *)
(*          and method of the request line, whether the received body is   *)
(*          the delivery body;                                             *)
(*          In  - HTTP status of the ingress and what was added to the     *)
(*          queue.                                                         *)
(* A failed requirement prints <<"FAIL", line, event, check>> and          *)
(* validation goes on; the run is accepted iff every line was consumed and *)
(* no FAIL was printed.                                                    *)
(***************************************************************************)
EXTENDS Signing, Json, TLC

CONSTANT TraceFile
Trace == ndJsonDeserialize(TraceFile)

Base == 1767225600    \* 2026-01-01T00:00:00Z
Unit == 100           \* seconds per tick

VARIABLE l
vars == <<l>>

Chk(name, b) == IF b THEN TRUE ELSE PrintT(<<"FAIL", l, Trace[l].ev, name>>)

Init == l = 1

SeqSet(s) == {s[i] : i \in DOMAIN s}

\* the concrete instants really are instances of the abstract ticks
Bound(e) ==
  LET r == e.row
      c == e.conc
  IN /\ Len(c.from_s) = Len(r.vs) /\ Len(c.until_s) = Len(r.vs)
     /\ \A k \in DOMAIN r.vs :
           /\ c.from_s[k] = Base + r.vs[k].from * Unit
           /\ c.until_s[k] = (IF r.vs[k].until = Open THEN 0 ELSE Base + r.vs[k].until * Unit)
     /\ c.sub >= 0 /\ c.sub < Unit
     /\ c.now_s = Base + r.t * Unit + c.sub
     /\ SeqSet(c.order) = DOMAIN r.vs
     /\ SeqSet(c.unset) = (IF r.un = 0 THEN {} ELSE {r.un})

Out(e) ==
  LET r    == e.row
      c    == e.conc
      o    == e.obs
      want == OutboundSigner(r.vs, r.t, r.mode, SeqSet(c.unset))
  IN /\ Chk("bind", Bound(e) /\ r.kind \in {"out", "un"})
     \* no valid version, or the selected one cannot be loaded  =>  nothing is sent (and the failure is reported)
     /\ Chk("sent_iff_signable", o.sent <=> (want # 0))
     /\ Chk("request_count", o.n = (IF o.sent THEN 1 ELSE 0))
     /\ Chk("failure_reported", ~o.sent => o.err # "")
     \* both headers, once each
     /\ Chk("headers_present", o.sent => (o.hassig /\ o.hasts))
     \* the signature is hex HMAC-SHA256 of the canonical string over what the target received, under a configured secret
     /\ Chk("signature_valid", o.sent => (o.signer # 0 /\ o.sigbody))
     \* ... namely the one the selection rule picks at the signing instant
     /\ Chk("signer_selected", (o.sent /\ o.signer # 0 /\ want # 0) => o.signer = want)
     \* timestamp header = unix seconds of the injected clock
     /\ Chk("timestamp_seconds", o.sent => o.ts = ToString(c.now_s))
     \* the escaped path the target sees is the target URL's path, "/" when empty, query excluded
     /\ Chk("escaped_path", o.sent => o.path = c.path)
     /\ Chk("method", o.sent => o.method = (IF c.method = "" THEN "POST" ELSE c.method))
     /\ Chk("body_as_sent", o.sent => o.bodyok)
     \* through the real push dispatcher: a signable delivery is delivered (signed, once); an unsignable one is never
     \* sent however often it is retried, and ends dead
     /\ Chk("dispatcher_outcome", c.via = "dispatcher" => (o.state = (IF want # 0 THEN "delivered" ELSE "dead")))

\* redirects enabled: the request that follows the 30x answer is a push request too
Redir(e) ==
  LET r == e.row
      o == e.obs
  IN /\ Chk("bind", Bound(e) /\ r.kind = "redir" /\ e.conc.code = r.code)
     /\ Chk("redirect_followed", o.n = 2 /\ Len(o.valid) = 2)
     /\ Chk("first_hop_signature", Len(o.valid) >= 1 => o.valid[1])
     /\ Chk("redirect_hop_signature", EveryRequestSigned(o.valid))

In(e) ==
  LET r   == e.row
      c   == e.conc
      o   == e.obs
      acc == InboundAccepts(r.vs, r.t, r.signer)
  IN /\ Chk("bind", Bound(e) /\ r.kind = "in" /\ c.wall_s = c.now_s + r.off * Unit /\ r.signer \in 0 .. Len(r.vs))
     \* a secret valid at the SIGNED timestamp is never rejected ...
     /\ Chk("valid_secret_accepted", acc => (o.status = 202 /\ o.delta = 1 /\ o.route = c.path /\ o.payload))
     \* ... and an expired, not-yet-valid or unconfigured one never accepted; a rejected request leaves the queue alone
     /\ Chk("invalid_secret_rejected", ~acc => (o.status = 401 /\ o.delta = 0))

Step ==
  /\ l <= Len(Trace)
  /\ LET e == Trace[l]
     IN CASE e.ev = "Out" -> Out(e)
          [] e.ev = "In"  -> In(e)
          [] e.ev = "Redir" -> Redir(e)
          [] OTHER        -> Chk("event", FALSE)
  /\ l' = l + 1

Next == Step
Spec == Init /\ [][Next]_vars

TraceAccepted ==
  LET d == TLCGet("stats").diameter
  IN IF d - 1 = Len(Trace) THEN TRUE
     ELSE PrintT(<<"REJECTED", "matched", d - 1, "of", Len(Trace)>>) /\ FALSE
=============================================================================
