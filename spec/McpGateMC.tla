----------------------------- MODULE McpGateMC -----------------------------
(***************************************************************************)
(* Design-level model checking of the gating table: every abstract row is  *)
(* an initial state (behaviours of length one); the invariants are facts   *)
(* the documentation promises about the table as a whole.  A failure here  *)
(* is a problem of the specification, never a verdict about the code.      *)
(***************************************************************************)
EXTENDS McpGate, TLC

CONSTANT UnknownNames    \* tool names that are not tools (incl. near misses)

VARIABLE row

Names == AllTools \cup UnknownNames

\* the complete gating table
TableRows ==
  {[tool |-> t, spell |-> "exact", role |-> r, mut |-> m, rc |-> c, principal |-> p, actor |-> a, shape |-> "minimal",
    lab |-> ShapeLab(t, a, "minimal")] :
     t \in Names, r \in Roles, m \in BOOLEAN, c \in BOOLEAN, p \in BOOLEAN, a \in Actors}

\* the tool-NAME spelling dimension: every tool under every near-miss spelling of its name, with the tool's own valid
\* arguments, under every server configuration (if the misspelled name were taken for the tool, the tool would act)
SpellRows ==
  {[tool |-> t, spell |-> sp, role |-> r, mut |-> m, rc |-> c, principal |-> p, actor |-> "absent", shape |-> "minimal",
    lab |-> ShapeLab(t, "absent", "minimal")] :
     t \in AllTools, sp \in Spellings \ {"exact"}, r \in Roles, m \in BOOLEAN, c \in BOOLEAN, p \in BOOLEAN}

\* server configurations under which the argument shapes are tried: everything on, and one of each denial
Contexts == {[role |-> "admin", mut |-> TRUE,  rc |-> TRUE,  principal |-> TRUE],
             [role |-> "read",  mut |-> TRUE,  rc |-> TRUE,  principal |-> TRUE],
             [role |-> "admin", mut |-> FALSE, rc |-> FALSE, principal |-> TRUE],
             [role |-> "admin", mut |-> TRUE,  rc |-> TRUE,  principal |-> FALSE]}

ShapeRowsOf(t) ==
  {[tool |-> t, spell |-> "exact", role |-> c.role, mut |-> c.mut, rc |-> c.rc, principal |-> c.principal,
    actor |-> (IF s \in ActorShapes \cup {"proxy_actor"} THEN "different" ELSE "absent"), shape |-> s,
    lab |-> ShapeLab(t, IF s \in ActorShapes \cup {"proxy_actor"} THEN "different" ELSE "absent", s)] :
     s \in {x \in Shapes \ {"minimal"} : ShapeApplies(t, x)}, c \in Contexts}
ShapeRows == UNION {ShapeRowsOf(t) : t \in AllTools}

Rows == TableRows \cup SpellRows \cup ShapeRows

Init == row \in Rows
Next == UNCHANGED row
Spec == Init /\ [][Next]_row

(***************************************************************************)
(* Facts about the families (the counts are those of the documentation:    *)
(* 31 tools, 14 read, 11 operate, 6 admin; 12 need --enable-mutations,     *)
(* 5 need --enable-runtime-control, 15 are mutating).                      *)
(***************************************************************************)
ASSUME /\ Cardinality(AllTools) = 31
       /\ Cardinality(ReadTools) = 14 /\ Cardinality(OperateTools) = 11 /\ Cardinality(AdminTools) = 6
       /\ ReadTools \cap OperateTools = {} /\ ReadTools \cap AdminTools = {} /\ OperateTools \cap AdminTools = {}
       /\ Cardinality(MutationFlagTools) = 12 /\ Cardinality(RuntimeFlagTools) = 5
       /\ MutationFlagTools \cap RuntimeFlagTools = {}
       /\ Cardinality(MutatingTools) = 15
       /\ MutatingTools \subseteq MutationFlagTools \cup RuntimeFlagTools   \* no mutating tool without a feature flag
       /\ ReadTools \cap (MutationFlagTools \cup RuntimeFlagTools) = {}      \* "Default mode is read-only"
       /\ ActorTools \subseteq MutatingTools /\ StrictTools \subseteq MutatingTools
       /\ UnknownNames \cap AllTools = {} /\ NotATool \notin AllTools

TypeOK ==
  /\ row.role \in Roles /\ row.mut \in BOOLEAN /\ row.rc \in BOOLEAN /\ row.principal \in BOOLEAN
  /\ row.actor \in Actors /\ row.shape \in Shapes /\ ShapeApplies(row.tool, row.shape) /\ row.spell \in Spellings
  /\ row.lab.path \in PathClasses /\ row.lab.pid \in PathClasses /\ row.lab.actor \in Actors
  /\ row.lab.mode \in Modes /\ row.lab.extra \in BOOLEAN /\ row.lab.valid \in BOOLEAN
  /\ row.lab.wire \in {"object", "absent", "nonobject"} /\ row.lab.backend \in {"sqlite", "proxy"}
  /\ row.lab.conf \in {"all", "nocfg", "nopid", "nodb"}
  /\ (row.lab.conf = "nocfg" => row.lab.path \in {"none", "foreign", "badtype"})     \* nothing configured: nothing is "the configured path"
  /\ (row.lab.conf = "nopid" => row.lab.pid \in {"none", "foreign", "badtype"})

\* the name the server sees (a misspelled name is not a tool)
T == WireTool(row)
A(r, role, mut, rc, p, a) == Allowed(WireTool(r), role, mut, rc, p, a)
Here(r) == A(r, r.role, r.mut, r.rc, r.principal, r.actor)

\* a higher role never loses a tool
MonotoneRole == \A r2 \in Roles : (Rank(r2) >= Rank(row.role) /\ Here(row)) => A(row, r2, row.mut, row.rc, row.principal, row.actor)

\* switching a flag on, or configuring a principal, never loses a tool
MonotoneFlags == Here(row) => /\ A(row, row.role, TRUE, row.rc, row.principal, row.actor)
                              /\ A(row, row.role, row.mut, TRUE, row.principal, row.actor)
                              /\ A(row, row.role, row.mut, row.rc, TRUE, row.actor)

\* with its flag off a flagged tool is never allowed, whatever the role
FlagOffDenies ==
  /\ (T \in MutationFlagTools /\ ~row.mut) => ~Here(row)
  /\ (T \in RuntimeFlagTools /\ ~row.rc) => ~Here(row)

\* every mutating tool needs a principal; a mismatching actor is refused
MutatingNeedsPrincipal == (T \in MutatingTools /\ ~row.principal) => ~Here(row)
ActorMismatchRefused   == (T \in ActorTools /\ row.actor = "different") => ~Here(row)

\* the advertised list is exactly the set of tools a call without (or with the matching) actor may run
ListedConsistent ==
  LET L == Listed(row.role, row.mut, row.rc, row.principal)
  IN /\ (T \in L) <=> A(row, row.role, row.mut, row.rc, row.principal, "absent")
     /\ (T \in L) <=> A(row, row.role, row.mut, row.rc, row.principal, "equal")
     /\ (T \in L) <=> (\E a \in Actors : A(row, row.role, row.mut, row.rc, row.principal, a))
     /\ L \subseteq AllTools

\* the default server (role read, no flags, no principal) offers exactly the inspect tools;
\* the fully enabled admin server offers everything
Defaults == /\ Listed("read", FALSE, FALSE, FALSE) = ReadTools
            /\ Listed("read", TRUE, TRUE, TRUE) = ReadTools
            /\ Listed("admin", TRUE, TRUE, TRUE) = AllTools
            /\ Listed("operate", TRUE, TRUE, TRUE) = ReadTools \cup OperateTools
            /\ Listed("admin", TRUE, TRUE, FALSE) = AllTools \ MutatingTools

UnknownNeverRuns == T \notin AllTools => (~Here(row) /\ Class(T, row.role, row.mut, row.rc, row.principal, row.actor) = "unknown_tool")

\* class, denial reasons and the per-call expectation agree
ClassConsistent ==
  LET c  == Class(T, row.role, row.mut, row.rc, row.principal, row.actor)
      dr == DenyReasons(T, row.role, row.mut, row.rc, row.principal, row.actor)
  IN /\ c \in {"allowed", "denied", "unknown_tool"}
     /\ (c = "allowed") <=> (dr = {})
     /\ row.shape = "minimal" => /\ (c = "allowed") <=> (ExpectObs(row) = "ok")
                                 /\ (c # "allowed") <=> (ExpectObs(row) = "refused")
     /\ ~GateR(row) => ExpectObs(row) = "refused"

\* a near miss of a tool name never runs, is never advertised, is never audited, under any role / flag combination
MisspelledNeverRuns ==
  row.spell # "exact" => /\ ~Here(row) /\ Refuse(row) /\ ExpectObs(row) = "refused"
                         /\ \A r2 \in Roles, m \in BOOLEAN, c \in BOOLEAN, p \in BOOLEAN, a \in Actors : ~A(row, r2, m, c, p, a)
                         /\ T \notin Listed(row.role, row.mut, row.rc, row.principal) /\ AuditExpected(T) = 0

AuditOnlyMutating == (AuditExpected(T) = 1) <=> (T \in MutatingTools)

Invariants == /\ TypeOK /\ MonotoneRole /\ MonotoneFlags /\ FlagOffDenies /\ MutatingNeedsPrincipal
              /\ ActorMismatchRefused /\ ListedConsistent /\ Defaults /\ UnknownNeverRuns /\ ClassConsistent
              /\ AuditOnlyMutating /\ MisspelledNeverRuns
=============================================================================
