----------------------------- MODULE PullAuthGen -----------------------------
(* TLC as generator: prints every abstract row (inputs only) as JSON. *)
EXTENDS PullAuthMC, Json, TLC
Emit == row.s = "start" \/ PrintT(<<"ROW", ToJson(row)>>)
=============================================================================
