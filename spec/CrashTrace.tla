----------------------------- MODULE CrashTrace -----------------------------
(***************************************************************************)
(* Trace validation (follow mode) of kill-and-restart runs of the real     *)
(* hookaido binary on SQLite (C01).  Client-side events only: what the     *)
(* client sent and what it was told; a crash; the raw table read from the  *)
(* database file after the crash, whether the database opens, its          *)
(* integrity check, and what a dequeue after restart offers.               *)
(*                                                                         *)
(* A message is identified by key = payload token | target.                *)
(*   must   acknowledged to the client and not settled: must be there      *)
(*   gone   acknowledged ack: must not be there                            *)
(*   deadk  acknowledged dead-letter: must be there, state dead            *)
(*   qd     acknowledged nack (not dequeued since): must be there, queued  *)
(*   mayb   sent but never acknowledged (or an unacknowledged settlement): *)
(*          may or may not be there                                        *)
(*   fans   groups of keys sent by one unacknowledged request: what is     *)
(*          stored is a prefix (ingress fan-out) or all / nothing (publish)*)
(***************************************************************************)
EXTENDS Integers, Sequences, FiniteSets, TLC, Json

CONSTANT TraceFile
Trace == ndJsonDeserialize(TraceFile)
SeqRange(s) == {s[i] : i \in DOMAIN s}
StatesOK == {"queued", "leased", "delivered", "dead", "canceled"}

VARIABLES l, sent, must, gone, deadk, maydead, qd, mayb, fans
vars == <<l, sent, must, gone, deadk, maydead, qd, mayb, fans>>
Chk(name, b) == IF b THEN TRUE ELSE PrintT(<<"FAIL", l, Trace[l].ev, name>>)
Init == l = 1 /\ sent = {} /\ must = {} /\ gone = {} /\ deadk = {} /\ maydead = {} /\ qd = {} /\ mayb = {} /\ fans = {}
IsEvent(name) == l <= Len(Trace) /\ Trace[l].ev = name /\ l' = l + 1

Reset == IsEvent("Reset") /\ sent' = {} /\ must' = {} /\ gone' = {} /\ deadk' = {} /\ maydead' = {} /\ qd' = {} /\ mayb' = {} /\ fans' = {}

\* an ingress request or a publish batch: e.keys in target / item order, e.acked = the client saw 202 / 200
Enq ==
  /\ IsEvent("Enq")
  /\ LET e == Trace[l] K == SeqRange(e.keys)
     IN /\ sent' = sent \cup K
        /\ IF e.acked THEN must' = must \cup K /\ UNCHANGED <<mayb, fans>>
           ELSE IF e.refused THEN UNCHANGED <<must, mayb, fans>>     \* an explicit refusal (4xx/5xx): see C12 / C15
           ELSE mayb' = mayb \cup K /\ fans' = fans \cup {[keys |-> e.keys, atomic |-> e.atomic]} /\ UNCHANGED must
  /\ UNCHANGED <<gone, deadk, maydead, qd>>

Deq ==
  /\ IsEvent("Deq")
  \* an unanswered dequeue (killed before the reply) may have leased anything that was ready
  /\ qd' = IF Trace[l].status = 200 THEN qd \ SeqRange(Trace[l].keys) ELSE {}
  /\ UNCHANGED <<sent, must, gone, deadk, maydead, mayb, fans>>

\* ack / nack / dead of a held lease: status 204 (done), 409 (conflict, nothing happened), -1 (no answer: killed)
Settle ==
  /\ IsEvent("Settle")
  /\ LET e == Trace[l] k == e.key
     IN CASE e.status = 204 /\ e.kind = "ack"  -> must' = must \ {k} /\ gone' = gone \cup {k} /\ UNCHANGED <<deadk, qd, mayb>>
          [] e.status = 204 /\ e.kind = "nack" -> qd' = qd \cup {k} /\ UNCHANGED <<must, gone, deadk, mayb>>
          [] e.status = 204 /\ e.kind = "dead" -> deadk' = deadk \cup {k} /\ UNCHANGED <<must, gone, qd, mayb>>
          [] e.status = -1 /\ e.kind = "ack"   -> must' = must \ {k} /\ mayb' = mayb \cup {k} /\ UNCHANGED <<gone, deadk, qd>>
          [] OTHER -> UNCHANGED <<must, gone, deadk, qd, mayb>>
  \* a dead-letter request that was never answered may or may not have taken effect
  /\ maydead' = IF Trace[l].status = -1 /\ Trace[l].kind = "dead" THEN maydead \cup {Trace[l].key} ELSE maydead
  /\ UNCHANGED <<sent, fans>>

Crash == IsEvent("Crash") /\ UNCHANGED <<sent, must, gone, deadk, maydead, qd, mayb, fans>>

\* the table read from the file after the crash: rows[key] = [state, ok (all fields as sent, payload digest equal), count]
Restart ==
  /\ IsEvent("Restart")
  /\ LET e == Trace[l] R == e.rows D == DOMAIN e.rows
         prefixOK(f) ==
           LET present == {i \in DOMAIN f.keys : f.keys[i] \in D}
           IN IF f.atomic THEN present = {} \/ present = DOMAIN f.keys
              ELSE \A i \in present : \A j \in 1..i : j \in present
     IN /\ Chk("queue_opens", e.opened)
        /\ Chk("integrity", e.integrity = "ok")
        /\ Chk("counters_consistent", e.counters_ok)
        /\ Chk("nobody_sent", e.unknown_rows = 0 /\ D \subseteq sent)
        /\ Chk("exactly_once", \A k \in D : R[k].count = 1)
        /\ Chk("acknowledged_present", must \subseteq D)
        /\ Chk("acknowledged_ack_not_undone", gone \cap D = {})
        /\ Chk("acknowledged_dead_not_undone", \A k \in deadk : k \in D /\ R[k].state = "dead")
        /\ Chk("acknowledged_nack_not_undone", \A k \in qd : k \in D /\ R[k].state = "queued")
        /\ Chk("no_half_written", \A k \in D : R[k].ok /\ R[k].state \in StatesOK)
        /\ Chk("unacknowledged_all_or_prefix", \A f \in fans : prefixOK(f))
        /\ Chk("restart_succeeds", e.restarted)
        /\ Chk("settled_not_offered", (gone \cup deadk) \cap SeqRange(e.offered) = {})
        \* C03: a lease the consumer still holds (unexpired when the early poll after the restart was answered) is still
        \* exclusive - the restart neither ended it nor handed the message to somebody else
        /\ Chk("lease_survives_restart", e.live_offered = <<>>)
        /\ Chk("offered_again", \A k \in (must \ (deadk \cup maydead)) \cap SeqRange(e.pullkeys) : k \in SeqRange(e.offered))
  /\ UNCHANGED <<sent, must, gone, deadk, maydead, qd, mayb, fans>>

Next == Reset \/ Enq \/ Deq \/ Settle \/ Crash \/ Restart
Spec == Init /\ [][Next]_vars
TraceAccepted ==
  LET d == TLCGet("stats").diameter
  IN IF d - 1 = Len(Trace) THEN TRUE ELSE PrintT(<<"REJECTED", "matched", d - 1, "of", Len(Trace)>>) /\ FALSE
=============================================================================
