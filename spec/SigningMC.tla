------------------------------ MODULE SigningMC ------------------------------
(***************************************************************************)
(* MC and GEN for Signing.tla.  The abstract input table is finite:        *)
(*   out : every sequence of MinV..MaxV windows over ticks 0..MaxT         *)
(*         (adjacent, overlapping, nested, equal valid_from, open-ended -  *)
(*         all of them), both selection modes, every tick t in 0..MaxT     *)
(*         (each boundary instant is a tick); all secrets loadable         *)
(*   un  : the same over 0..UnMaxT with at most UnMaxV versions, and one   *)
(*         version whose secret cannot be loaded                           *)
(*   in  : inbound - every sequence of 1..InMaxV windows over 0..InMaxT,   *)
(*         every signed timestamp tick, every signing version (0 = a       *)
(*         secret that is not configured), verifier wall clock one tick    *)
(*         before / at / one tick after the signed timestamp               *)
(*   redir: one open-ended version, every redirect status code: the       *)
(*         requests that follow a redirect are push requests too           *)
(* Behaviours have length two: a seed state (vs = <<>>) per combination of *)
(* the scalar fields, whose successors are the rows (this only lets TLC's  *)
(* workers share the table; seeds are not rows).                           *)
(*   MC : the invariants below are design-level facts about Select/ValidAt.*)
(*   GEN: Emit = TRUE prints every row as JSON (inputs only).              *)
(***************************************************************************)
EXTENDS Signing, TLC, Json

CONSTANTS Kinds,              \* subset of {"out", "un", "in", "redir"}
          MaxT, MaxV, MinV,   \* family out
          UnMaxT, UnMaxV,     \* family un
          InMaxT, InMaxV,     \* family in
          Emit

VARIABLE row
vars == <<row>>

VersionSets(maxT, minV, maxV) == UNION {[1 .. n -> Window(maxT)] : n \in minV .. maxV}

R(kind, vs, mode, t, un, signer, off) ==
  [kind |-> kind, vs |-> vs, mode |-> mode, t |-> t, un |-> un, signer |-> signer, off |-> off, code |-> 0]

RedirectCodes == {301, 302, 303, 307, 308}

Seeds ==
       (IF "out" \in Kinds THEN {R("out", <<>>, m, t, 0, 0, 0) : m \in Modes, t \in 0 .. MaxT} ELSE {})
  \cup (IF "un" \in Kinds THEN {R("un", <<>>, m, t, u, 0, 0) : m \in Modes, t \in 0 .. UnMaxT, u \in 1 .. UnMaxV} ELSE {})
  \cup (IF "in" \in Kinds THEN {R("in", <<>>, "", t, 0, s, o) : t \in 0 .. InMaxT, s \in 0 .. InMaxV, o \in {-1, 0, 1}} ELSE {})
  \cup (IF "redir" \in Kinds THEN {[R("redir", <<>>, m, 1, 0, 0, 0) EXCEPT !.code = c] : m \in Modes, c \in RedirectCodes} ELSE {})

IsSeed == row.vs = <<>>
IsRow  == row.vs # <<>>

RowsOf(s) ==
  CASE s.kind = "out" -> {[s EXCEPT !.vs = v] : v \in VersionSets(MaxT, MinV, MaxV)}
    [] s.kind = "un"  -> {[s EXCEPT !.vs = v] : v \in {x \in VersionSets(UnMaxT, 1, UnMaxV) : Len(x) >= s.un}}
    [] s.kind = "in"  -> {[s EXCEPT !.vs = v] : v \in {x \in VersionSets(InMaxT, 1, InMaxV) : Len(x) >= s.signer}}
    [] s.kind = "redir" -> {[s EXCEPT !.vs = <<[from |-> 0, until |-> Open]>>]}

Init == row \in Seeds
Next == IsSeed /\ row' \in RowsOf(row)
Spec == Init /\ [][Next]_vars

(******************************** invariants *******************************)
IsOut == IsRow /\ row.kind \in {"out", "un", "redir"}
IsIn  == IsRow /\ row.kind = "in"

sel == Select(row.vs, row.t, row.mode)
V   == ValidAt(row.vs, row.t)
unl == IF row.un = 0 THEN {} ELSE {row.un}
out == OutboundSigner(row.vs, row.t, row.mode, unl)

TypeOK == IsOut => sel \in 0 .. Len(row.vs) /\ out \in 0 .. Len(row.vs)

\* exactly one of {a version is selected, nothing}
ExactlyOne == IsOut => ((sel = 0) <=> (V = {}))

SelectedIsValid == (IsOut /\ sel # 0) => IsValid(row.vs[sel], row.t)

NewestHasMaxFrom ==
  (IsOut /\ sel # 0 /\ row.mode = "newest_valid") => \A j \in V : row.vs[j].from <= row.vs[sel].from

OldestHasMinFrom ==
  (IsOut /\ sel # 0 /\ row.mode = "oldest_valid") => \A j \in V : row.vs[j].from >= row.vs[sel].from

TieById == (IsOut /\ sel # 0) => \A j \in V : row.vs[j].from = row.vs[sel].from => sel <= j

\* the CHOOSE in Select is well defined: exactly one candidate beats all others
SelectUnique ==
  (IsOut /\ V # {}) => Cardinality({i \in V : \A j \in V \ {i} : Better(row.vs, row.mode, i, j)}) = 1

\* what the dispatcher signs with is always accepted by a verifier that has the same version set
OwnSignatureAccepted == (IsOut /\ out # 0) => InboundAccepts(row.vs, row.t, out)

\* half-open windows: the boundary instants
BoundaryFrom  == IsRow => \A i \in DOMAIN row.vs : row.t = row.vs[i].from => i \in V
BoundaryUntil == IsRow => \A i \in DOMAIN row.vs : row.t = row.vs[i].until => i \notin V

\* a version that is not loadable never signs; when the selected one is unloadable nothing is sent (no fallback)
Unloadable ==
  IsOut => /\ out \notin unl
           /\ (out = 0 <=> (sel = 0 \/ sel \in unl))
           /\ (out # 0 => out = sel)

\* inbound: never an expired or not-yet-valid or unconfigured secret, never a valid one rejected; the verifier's
\* wall clock (off) is not an input of the decision
InboundExact ==
  IsIn => LET acc == InboundAccepts(row.vs, row.t, row.signer)
          IN /\ (acc => row.signer # 0 /\ row.vs[row.signer].from <= row.t /\ row.t < row.vs[row.signer].until)
             /\ ((row.signer # 0 /\ IsValid(row.vs[row.signer], row.t)) => acc)
             /\ (row.signer = 0 => ~acc)

EmitRow == IF Emit /\ IsRow THEN PrintT(<<"ROW", ToJson(row)>>) ELSE TRUE
=============================================================================
