------------------------------- MODULE Nonce -------------------------------
(***************************************************************************)
(* Replay protection of HMAC-authenticated ingress routes (C09).           *)
(*                                                                         *)
(* Time is in milliseconds; signed timestamps are whole seconds (ts * 1000 *)
(* in ms).  A request is the pair (nonce, signed timestamp); its signature *)
(* is valid by construction in this model (forgeries are C08).             *)
(*                                                                         *)
(* Honoured == the set of requests accepted so far on the route, each with *)
(* the tolerance in force when it was accepted.                            *)
(*                                                                         *)
(* Reading of the statement (DESIGN.md C09): a request MUST be rejected    *)
(* when an honoured request has the same nonce and                         *)
(*   (a) the same signed timestamp (it is the captured request itself: it  *)
(*       can never cause a second enqueue), or                             *)
(*   (b) a signed timestamp that still passes the tolerance check now.     *)
(* A same-nonce request with another timestamp after that window closed is *)
(* a new request (nothing is demanded for it).                             *)
(***************************************************************************)
EXTENDS Integers, Sequences, FiniteSets, TLC

Abs(x) == IF x < 0 THEN -x ELSE x
Within(nowMs, tsSec, tolMs) == Abs(nowMs - tsSec * 1000) <= tolMs

\* does the statement force the rejection of request (n, ts) at nowMs ?
MustReject(H, n, ts, nowMs, tolMs) ==
  \E h \in H : h.n = n /\ (h.ts = ts \/ Within(nowMs, h.ts, tolMs))

\* "captured request" sub-case in which only a WIDENED tolerance lets the replay through the timestamp
\* check again (the honoured request's own window had already closed): reported under its own name
WidenedOnly(H, n, ts, nowMs, tolMs) ==
  /\ Within(nowMs, ts, tolMs)
  /\ \A h \in H : (h.n = n /\ (h.ts = ts \/ Within(nowMs, h.ts, tolMs))) => ~Within(nowMs, h.ts, h.tol)

(***************************************************************************)
(* Design-level model: the nonce cache the code is meant to implement.     *)
(* cache: nonce -> expiry instant (ms).  Parameters select the variant:    *)
(*   ExpiryInclusive  an entry is live while now <= expiry (else now < )   *)
(*   ReloadKeeps      a reload keeps the cache (else it is emptied)        *)
(***************************************************************************)
CONSTANTS Nonces, TolMs, MaxNow, ExpiryInclusive, ReloadKeeps, Steps

VARIABLES now, cache, H, last
vars == <<now, cache, H, last>>

Live(exp) == IF ExpiryInclusive THEN now <= exp ELSE now < exp

Init == now = 10000 /\ cache = <<>> /\ H = {} /\ last = [ev |-> "init"]

\* a request with nonce n signed at second ts arrives
Req(n, ts) ==
  LET fresh  == Within(now, ts, TolMs)
      c1     == [k \in {x \in DOMAIN cache : Live(cache[x])} |-> cache[k]]      \* opportunistic cleanup
      seen   == n \in DOMAIN c1
      accept == fresh /\ ~seen
  IN /\ cache' = IF fresh /\ ~seen THEN [k \in DOMAIN c1 \cup {n} |-> IF k = n THEN ts * 1000 + TolMs ELSE c1[k]]
                 ELSE IF fresh THEN c1 ELSE cache
     /\ H' = IF accept THEN H \cup {[n |-> n, ts |-> ts, tol |-> TolMs]} ELSE H
     /\ last' = [ev |-> "req", n |-> n, ts |-> ts, accepted |-> accept, must |-> MustReject(H, n, ts, now, TolMs)]
     /\ UNCHANGED now

Reload ==
  /\ cache' = IF ReloadKeeps THEN cache ELSE <<>>
  /\ last' = [ev |-> "reload"] /\ UNCHANGED <<now, H>>

Tick ==
  \E d \in Steps : now + d <= MaxNow /\ now' = now + d /\ last' = [ev |-> "tick"] /\ UNCHANGED <<cache, H>>

Next == (\E n \in Nonces, ts \in {(10000 \div 1000) + k : k \in -1..1} : Req(n, ts)) \/ Reload \/ Tick
Spec == Init /\ [][Next]_vars

\* C09 on the design: a request the statement forces to be rejected is never accepted
NonceOnce == [][last'.ev = "req" /\ last'.must => ~last'.accepted]_vars
View == <<now, cache, H>>
=============================================================================
