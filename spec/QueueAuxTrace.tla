---------------------------- MODULE QueueAuxTrace ----------------------------
(***************************************************************************)
(* Trace validation of the auxiliary logs (QueueAux.tla) on top of the     *)
(* store trace specification: every QueueTrace action applies unchanged    *)
(* and leaves the logs alone; the four new actions check that a log call   *)
(* answers from the log as specified and touches no message (SQLite's      *)
(* capture may run the retention prune first).                             *)
(***************************************************************************)
EXTENDS QueueTrace, QueueAux

VARIABLE aux
avars == <<vars, aux>>

AuxInit == Init /\ aux = EmptyAux

StoreStep == Next /\ aux' = (IF Trace[l].ev = "Reset" THEN EmptyAux ELSE aux)

Untouched(e) ==
  /\ Chk("post", e.post = S.msgs)
  /\ Chk("vol", e.vol.lp = S.lp /\ e.vol.ls = S.ls)

TraceRecordAttempt ==
  /\ IsEvent("RecordAttempt")
  /\ LET e == Trace[l]
     IN /\ Chk("err", e.r.err = "")
        /\ Untouched(e)
        /\ Generic(e, "read", <<>>)
        /\ Follow(e, <<>>)
        /\ aux' = RecordAttempt(aux, e.a, e.now)
  /\ UNCHANGED <<C, issued>>

TraceListAttempts ==
  /\ IsEvent("ListAttempts")
  /\ LET e == Trace[l]
     IN /\ Chk("err", e.r.err = "")
        /\ Untouched(e)
        /\ Chk("listing", AttListingOK(aux.att, e.a, e.r.items))
        /\ Generic(e, "read", <<>>)
        /\ Follow(e, <<>>)
  /\ UNCHANGED <<C, issued, aux>>

TraceCaptureTrend ==
  /\ IsEvent("CaptureTrend")
  /\ LET e == Trace[l]
         t == IF e.a.at = 0 THEN e.now ELSE e.a.at
     IN /\ Chk("err", e.r.err = "")
        /\ Chk("instant", t = e.now /\ \A k \in DOMAIN aux.tr : aux.tr[k].at < t)   \* driver assumption, see QueueAux
        /\ IF C.backend = "sqlite" THEN PruneStep(e) ELSE Untouched(e)
        /\ Generic(e, "read", <<>>)
        /\ Follow(e, <<>>)
        /\ aux' = CaptureTrend(aux, e.post, t)
  /\ UNCHANGED <<C, issued>>

TraceListTrend ==
  /\ IsEvent("ListTrend")
  /\ LET e == Trace[l]
     IN /\ Chk("err", e.r.err = "")
        /\ Untouched(e)
        /\ Chk("listing", TrendListingOK(aux.tr, e.a, e.r.items, e.r.trunc))
        /\ Generic(e, "read", <<>>)
        /\ Follow(e, <<>>)
  /\ UNCHANGED <<C, issued, aux>>

AuxNext == StoreStep \/ TraceRecordAttempt \/ TraceListAttempts \/ TraceCaptureTrend \/ TraceListTrend
AuxSpec == AuxInit /\ [][AuxNext]_avars
=============================================================================
