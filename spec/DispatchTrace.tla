---------------------------- MODULE DispatchTrace ----------------------------
(***************************************************************************)
(* Trace validation of the real dispatcher.PushDispatcher against          *)
(* Dispatch.tla ("follow mode", as QueueTrace).  The trace is a            *)
(* concatenation of behaviours, each started by a Reset event carrying the *)
(* configuration (targets with their compiled retry configuration in us,   *)
(* messages, concurrency, fault injection).  Events, in the order the      *)
(* harness observed them under one lock:                                   *)
(*   Enqueue   a message was stored (Envelope.Attempt preset = att0)       *)
(*   Lease     the dispatcher's Dequeue returned these (id, lease, att)    *)
(*   Deliver   the Deliverer was invoked for (id, lease, att) and returned *)
(*             res; wire = requests that reached the first hop, dwire =    *)
(*             requests that reached a destination the policy denies,      *)
(*             redir = a redirect hop (not the target itself) was denied.  *)
(*             Only the OBSERVED result counts (through the real           *)
(*             HTTPDeliverer a loaded machine may turn an intended answer  *)
(*             into a timeout).  A policy denial is observed at the        *)
(*             transport (the call failed although nothing reached the     *)
(*             denied destination), not read off the returned error chain: *)
(*             whether the dispatcher recognises it is what is checked.    *)
(*   Record    the dispatcher called RecordAttempt                         *)
(*   Settle    the dispatcher issued a lease mutation (single or as part   *)
(*             of a batch); post = the message as dumped right after it    *)
(*   Requeue   operator requeue of a dead message; Tick  clock jump        *)
(*   Attempts  the attempt log as ListAttempts returns it                  *)
(*   Final     the message table when nothing is left to do                *)
(* For every event the specification computes what Dispatch.tla admits     *)
(* from the state reached by the PREVIOUS events and requires the logged   *)
(* observation to be admissible.  A failed requirement prints              *)
(* <<"FAIL", line, event, check>> and the state then follows the log.      *)
(* Times are [s, n] = (seconds, nanoseconds in the second); delays are     *)
(* computed here, in microseconds, rounded down and up.                    *)
(***************************************************************************)
EXTENDS Dispatch, Json

CONSTANT TraceFile
Trace == ndJsonDeserialize(TraceFile)

VARIABLES l,      \* next trace line
          C,      \* configuration of the current behaviour
          M,      \* id -> abstract message (Dispatch.tla record + lease, target, pending result, attempt record)
          xlog    \* attempt-log entries the store must hold: one per settled delivery
vars == <<l, C, M, xlog>>

Chk(name, b) == IF b THEN TRUE ELSE PrintT(<<"FAIL", l, Trace[l].ev, name>>)

NoCfg  == [kind |-> "none"]
NoRes  == [kind |-> "none", code |-> 0]
NoRec  == [outcome |-> "", dr |-> ""]
NoTime == [s |-> -1, n |-> 0]
Unknown == [st |-> "unknown", next |-> NoTime, att |-> -1, sends |-> 0, dr |-> "", lease |-> "?", tg |-> "?", res |-> NoRes,
            nrec |-> 0, rec |-> NoRec]

Get(id) == IF id \in DOMAIN M THEN M[id] ELSE Unknown
RetryCfg(tg) == IF tg \in DOMAIN C.targets THEN C.targets[tg] ELSE [max |-> 1, base |-> 1, cap |-> 1, jn |-> 0, jd |-> 1]
MaxOfT(tg) == RetryCfg(tg).max
Faulty == C.inject # ""

TLe(a, b) == a.s < b.s \/ (a.s = b.s /\ a.n <= b.n)
\* floor / ceil of (b - a) in microseconds; only evaluated when 0 <= b.s - a.s <= 2100 (TLC integers are 32 bit)
DelayRangeOK(a, b) == b.s - a.s >= 0 /\ b.s - a.s <= 2100
DelayFloorUs(a, b) == (b.s - a.s) * 1000000 + ((b.n - a.n) \div 1000)
DelayCeilUs(a, b)  == (b.s - a.s) * 1000000 - ((a.n - b.n) \div 1000)
ASSUME (-1) \div 1000 = -1 /\ 1 \div 1000 = 0 /\ (-1000) \div 1000 = -1      \* \div rounds down

Init == l = 1 /\ C = NoCfg /\ M = <<>> /\ xlog = <<>>

IsEvent(name) == l <= Len(Trace) /\ Trace[l].ev = name /\ l' = l + 1

Upd(id, rec) == [i \in DOMAIN M \cup {id} |-> IF i = id THEN rec ELSE M[i]]

\* the abstract message after a lease mutation / requeue, as dumped
Follow(m, post, sends) ==
  [m EXCEPT !.st = post.st, !.next = post.next, !.att = post.att, !.dr = post.dr, !.lease = post.lease,
            !.sends = sends, !.res = NoRes, !.nrec = 0, !.rec = NoRec]

RecName(o) == IF o = "ack" THEN "acked" ELSE IF o = "retry" THEN "retry" ELSE IF IsDead(o) THEN "dead" ELSE "?"

TraceReset ==
  /\ IsEvent("Reset")
  /\ C' = Trace[l].cfg
  /\ Chk("config", \A tg \in DOMAIN Trace[l].cfg.targets : RetryOK(Trace[l].cfg.targets[tg]))
  /\ M' = <<>> /\ xlog' = <<>>

TraceEnqueue ==
  /\ IsEvent("Enqueue")
  /\ LET e == Trace[l]
     IN /\ Chk("enqueue", e.id \notin DOMAIN M /\ e.post.st = "queued" /\ e.post.att = e.att0 /\ e.tg \in DOMAIN C.targets)
        /\ M' = Upd(e.id, [st |-> "queued", next |-> e.post.next, att |-> e.post.att, sends |-> 0, dr |-> "", lease |-> "",
                           tg |-> e.tg, res |-> NoRes, nrec |-> 0, rec |-> NoRec])
  /\ UNCHANGED <<C, xlog>>

TraceLease ==
  /\ IsEvent("Lease")
  /\ LET e     == Trace[l]
         items == e.items
         ids   == {items[k].id : k \in DOMAIN items}
         itemOf(i) == items[CHOOSE k \in DOMAIN items : items[k].id = i]
     IN /\ Chk("lease-known", ids \subseteq DOMAIN M /\ Cardinality(ids) = Len(items))
        \* only a queued message whose time has come is sent again: nothing terminal is revived, nothing is sent twice at once
        \* (after an injected store fault the message is still leased here and comes back when that lease expired)
        /\ Chk("lease-queued", \A i \in ids : Get(i).st = "queued" \/ (Faulty /\ Get(i).st = "leased"))
        /\ Chk("not-early", \A i \in ids : Get(i).st = "queued" => TLe(Get(i).next, e.now))
        /\ Chk("attempt-inc", \A i \in ids : itemOf(i).att = Get(i).att + 1)
        /\ M' = [i \in DOMAIN M |-> IF i \in ids
                                    THEN [M[i] EXCEPT !.st = "leased", !.att = itemOf(i).att, !.lease = itemOf(i).lease,
                                                      !.res = NoRes, !.nrec = 0, !.rec = NoRec]
                                    ELSE M[i]]
  /\ UNCHANGED <<C, xlog>>

TraceDeliver ==
  /\ IsEvent("Deliver")
  /\ LET e == Trace[l]
         m == Get(e.id)
     IN /\ Chk("deliver-leased", m.st = "leased" /\ m.lease = e.lease /\ m.att = e.att /\ m.tg = e.tg)
        /\ Chk("one-send-per-lease", m.res = NoRes)
        \* at most retry.max+1 sends per enqueue/requeue cycle (not claimed under injected store faults)
        /\ Chk("sendbound", Faulty \/ m.sends + 1 <= MaxOfT(m.tg) + 1)
        /\ Chk("result-domain", ClassOf(e.res) \in Classes)
        \* a denial means the denied destination saw nothing: no request at all when the target itself is denied,
        \* exactly the one request to the (admitted) first hop when a later redirect hop is denied
        /\ Chk("denied-nothing-sent", e.res.kind = "denied" => (e.dwire = 0 /\ e.wire = (IF e.redir THEN 1 ELSE 0)))
        /\ M' = IF e.id \in DOMAIN M THEN Upd(e.id, [m EXCEPT !.sends = @ + 1, !.res = e.res]) ELSE M
  /\ UNCHANGED <<C, xlog>>

TraceRecord ==
  /\ IsEvent("Record")
  /\ LET e == Trace[l]
         m == Get(e.id)
     IN /\ Chk("record-pending", m.st = "leased" /\ m.res # NoRes /\ e.att = m.att /\ e.tg = m.tg /\ e.rerr = "")
        /\ Chk("record-once", m.nrec = 0)
        /\ Chk("record-result", e.code = m.res.code /\ e.iserr = (m.res.kind # "status"))
        /\ Chk("record-outcome", \E o \in Admissible(m.res, m.att, MaxOfT(m.tg)) : RecName(o) = e.outcome /\ ReasonOf(o) = e.dr)
        /\ M' = IF e.id \in DOMAIN M THEN Upd(e.id, [m EXCEPT !.nrec = @ + 1, !.rec = [outcome |-> e.outcome, dr |-> e.dr]]) ELSE M
  /\ UNCHANGED <<C, xlog>>

\* what a lease mutation did, read from the call and the dump after it
Observed(e) ==
  CASE e.call = "ack"  /\ e.post.st \in {"delivered", "gone"} -> "ack"
    [] e.call = "nack" /\ e.post.st = "queued"                -> "retry"
    [] e.call = "dead" /\ e.post.st = "dead" /\ e.post.dr \in Reasons -> DeadOutcome(e.post.dr)
    [] OTHER -> "?"

TraceSettle ==
  /\ IsEvent("Settle")
  /\ LET e       == Trace[l]
         m       == Get(e.id)
         applied == e.err = "" \/ (e.err = "injected" /\ e.post.lease # m.lease)
         obs     == Observed(e)
         R       == RetryCfg(m.tg)
     IN IF applied
        THEN /\ Chk("settle-pending", e.id \in DOMAIN M /\ m.st = "leased" /\ m.lease = e.lease /\ m.res # NoRes)
             \* the decision table
             /\ Chk("settle-class", obs \in Admissible(m.res, m.att, R.max))
             /\ Chk("retry-keeps-attempt", obs = "retry" => e.post.att = m.att)
             \* the retry window of the failed attempt, measured from the failure (= now: the clock stands still in between)
             /\ IF obs = "retry"
                THEN IF DelayRangeOK(e.now, e.post.next)
                     THEN /\ Chk("delay-lo", DelayLo(m.att, R) <= DelayCeilUs(e.now, e.post.next))
                          /\ Chk("delay-hi", DelayFloorUs(e.now, e.post.next) <= DelayHi(m.att, R))
                     ELSE Chk(IF TLe(e.now, e.post.next) THEN "delay-hi" ELSE "delay-lo", FALSE)
                ELSE TRUE
             \* the attempt was recorded, once, with the outcome that was applied
             /\ Chk("record-matches", m.nrec = 1 /\ m.rec = [outcome |-> RecName(obs), dr |-> ReasonOf(obs)])
             /\ xlog' = IF obs # "?" /\ m.res # NoRes
                        THEN Append(xlog, AttemptRec(e.id, m.tg, m.att, m.res, obs))
                        ELSE xlog
             /\ M' = IF e.id \in DOMAIN M THEN Upd(e.id, Follow(m, e.post, m.sends)) ELSE M
        ELSE \* the store refused the mutation: only expected where the harness injected a fault
             /\ Chk("settle-ok", Faulty)
             /\ xlog' = xlog
             /\ M' = IF e.id \in DOMAIN M /\ ~(e.post.st = "leased" /\ e.post.lease = m.lease)
                     THEN Upd(e.id, Follow(m, e.post, m.sends)) ELSE M
  /\ UNCHANGED C

TraceRequeue ==
  /\ IsEvent("Requeue")
  /\ LET e == Trace[l]
         m == Get(e.id)
     IN /\ Chk("requeue", m.st = "dead" /\ e.n = 1 /\ e.post.st = "queued" /\ e.post.dr = "")
        /\ M' = IF e.id \in DOMAIN M THEN Upd(e.id, Follow(m, e.post, 0)) ELSE M     \* a new cycle
  /\ UNCHANGED <<C, xlog>>

TraceTick ==
  /\ IsEvent("Tick")
  \* the harness only has to jump to a lease expiry when nobody holds the lease any more
  /\ Chk("orphan-lease", Trace[l].why = "retry" \/ Faulty)
  /\ UNCHANGED <<C, M, xlog>>

Proj(r) == [id |-> r.id, tg |-> r.tg, att |-> r.att, code |-> r.code, iserr |-> r.iserr, outcome |-> r.outcome, dr |-> r.dr]
Count(s, x) == Cardinality({k \in DOMAIN s : s[k] = x})

TraceAttempts ==
  /\ IsEvent("Attempts")
  /\ LET e    == Trace[l]
         rows == [k \in DOMAIN e.rows |-> Proj(e.rows[k])]
     IN \* every attempt is recorded with its outcome - and nothing else is
        /\ Chk("attempt-missing", \A k \in DOMAIN xlog : Count(rows, xlog[k]) >= Count(xlog, xlog[k]))
        /\ Chk("attempt-spurious", Faulty \/ \A k \in DOMAIN rows : Count(rows, rows[k]) <= Count(xlog, rows[k]))
        /\ Chk("attempt-route", \A k \in DOMAIN e.rows : e.rows[k].rt = "/r1")
  /\ UNCHANGED <<C, M, xlog>>

TraceFinal ==
  /\ IsEvent("Final")
  /\ LET e == Trace[l]
     IN \* always ends delivered or in the DLQ with a reason - never dropped, never retried for ever
        /\ Chk("terminal", Faulty \/ (~e.aborted /\ \A i \in DOMAIN M : M[i].st \in {"delivered", "gone", "dead"}))
        /\ Chk("dead-reason", \A i \in DOMAIN M : M[i].st = "dead" => M[i].dr \in Reasons)
        /\ Chk("never-dropped", DOMAIN e.msgs = DOMAIN M /\ e.extra = 0
                                /\ \A i \in DOMAIN M : i \in DOMAIN e.msgs => (e.msgs[i].st = M[i].st /\ e.msgs[i].dr = M[i].dr))
        /\ Chk("no-pending", e.gates = 0 /\ (Faulty \/ \A i \in DOMAIN M : M[i].res = NoRes))
  /\ UNCHANGED <<C, M, xlog>>

Next ==
  \/ TraceReset \/ TraceEnqueue \/ TraceLease \/ TraceDeliver \/ TraceRecord \/ TraceSettle
  \/ TraceRequeue \/ TraceTick \/ TraceAttempts \/ TraceFinal

Spec == Init /\ [][Next]_vars

\* every line consumed: one state per line plus the initial state
TraceAccepted ==
  LET d == TLCGet("stats").diameter
  IN IF d - 1 = Len(Trace) THEN TRUE
     ELSE PrintT(<<"REJECTED", "matched", d - 1, "of", Len(Trace)>>) /\ FALSE
=============================================================================
