----------------------------- MODULE ReloadTrace -----------------------------
(***************************************************************************)
(* Trace validation (follow mode) of reload executions (C18).              *)
(* Probe events carry the observed answer and the two answers MEASURED on  *)
(* static instances running purely the old and purely the new              *)
(* configuration.  Within one behaviour the configuration seen by          *)
(* completed probes may flip from old to new exactly once: every probe's   *)
(* answer must equal the measured answer of the version it is bound to.    *)
(* FailedReload events: the probes' answers after the refused reload must  *)
(* equal those before it.  FileCrash events: after a kill at any point of  *)
(* the file replacement the file is the complete old or the complete new   *)
(* content, the new content compiles, no other file of the directory       *)
(* changed apart from left-over temporary files.                           *)
(***************************************************************************)
EXTENDS Integers, Sequences, FiniteSets, TLC, Json

CONSTANT TraceFile
Trace == ndJsonDeserialize(TraceFile)

VARIABLES l, active
vars == <<l, active>>
Chk(name, b) == IF b THEN TRUE ELSE PrintT(<<"FAIL", l, Trace[l].ev, name>>)
Init == l = 1 /\ active = "old"
IsEvent(name) == l <= Len(Trace) /\ Trace[l].ev = name /\ l' = l + 1

Reset == IsEvent("Reset") /\ active' = "old"

Probe ==
  /\ IsEvent("Probe")
  /\ LET e == Trace[l]
     IN /\ Chk("answers_differ_or_equal_known", e.old = e.old)
        /\ IF e.obs = e[active]
           THEN active' = active
           ELSE /\ Chk("no_mixture", e.obs = e.new)
                /\ active' = "new"

\* after the reload completed every probe is served by the new configuration
Settled ==
  /\ IsEvent("Settled")
  /\ LET e == Trace[l] IN Chk("new_after_reload", e.obs = e.new)
  /\ active' = "new"

FailedReload ==
  /\ IsEvent("FailedReload")
  /\ LET e == Trace[l]
     IN /\ Chk("reload_refused", e.ok = FALSE)
        /\ Chk("behaviour_unchanged", e.before = e.after)
        /\ Chk("baseline_is_old", e.before = e.old)
  /\ UNCHANGED active

\* a reload that touches a restart-required setting (docs/configuration.md "Restart Required"): whatever it
\* answers, the instance afterwards runs purely the configuration it claims to run
FrozenReload ==
  /\ IsEvent("FrozenReload")
  /\ LET e == Trace[l]
     IN /\ Chk("baseline_is_old", e.before = e.old)
        /\ Chk("refused_means_old", e.ok \/ e.after = e.old)
        /\ Chk("applied_means_new", ~e.ok \/ e.after = e.new)
        /\ Chk("restart_required_refused", e.ok = FALSE)
  /\ UNCHANGED active

FileCrash ==
  /\ IsEvent("FileCrash")
  /\ LET e == Trace[l]
     IN /\ Chk("old_or_new", e.content \in {"old", "new"})
        /\ Chk("new_compiles", e.new_compiles)
        /\ Chk("no_foreign_change", e.foreign_changed = 0)
        /\ Chk("killed_at_label", e.killed)
  /\ UNCHANGED active

Rollback ==
  /\ IsEvent("Rollback")
  /\ LET e == Trace[l]
     IN /\ Chk("mutation_refused", e.ok = FALSE)
        /\ Chk("file_restored", e.content = "old")
        /\ Chk("behaviour_unchanged", e.before = e.after)
  /\ UNCHANGED active

WriteProtocol ==
  /\ IsEvent("WriteProtocol")
  /\ LET e == Trace[l]
         s == e.steps     \* sequence of syscall classes in order: "write_tmp","fsync_tmp","rename","fsync_dir", ...
         pos(x) == IF \E i \in DOMAIN s : s[i] = x THEN CHOOSE i \in DOMAIN s : s[i] = x /\ \A j \in DOMAIN s : s[j] = x => i <= j ELSE 0
         last(x) == IF \E i \in DOMAIN s : s[i] = x THEN CHOOSE i \in DOMAIN s : s[i] = x /\ \A j \in DOMAIN s : s[j] = x => i >= j ELSE 0
     IN /\ Chk("tmp_written", pos("write_tmp") > 0)
        /\ Chk("tmp_synced_before_rename", pos("fsync_tmp") > last("write_tmp") /\ pos("fsync_tmp") < pos("rename"))
        /\ Chk("renamed", pos("rename") > 0)
        /\ Chk("dir_synced_after_rename", last("fsync_dir") > pos("rename"))
        /\ Chk("never_written_in_place", pos("write_target") = 0)
  /\ UNCHANGED active

Next == Reset \/ Probe \/ Settled \/ FailedReload \/ FrozenReload \/ FileCrash \/ Rollback \/ WriteProtocol
Spec == Init /\ [][Next]_vars
TraceAccepted ==
  LET d == TLCGet("stats").diameter
  IN IF d - 1 = Len(Trace) THEN TRUE ELSE PrintT(<<"REJECTED", "matched", d - 1, "of", Len(Trace)>>) /\ FALSE
=============================================================================
