SPECIFICATION Spec
CONSTANT UnknownNames = {"no_such_tool", "CONFIG_APPLY", "instance_restart", ""}
INVARIANT Invariants
CHECK_DEADLOCK FALSE
