--------------------------- MODULE ConfigLangTable ---------------------------
(* Exports the feature table of ConfigLang.tla as JSON for the Go renderer   *)
(* (harness/cfglang): the harness takes parents, spellings, kinds and        *)
(* multiplicities from the specification instead of keeping a second copy.   *)
EXTENDS ConfigLang, Json
ASSUME PrintT(<<"TABLE", ToJson(FeatSeq)>>)
ASSUME PrintT(<<"CLASSES", ToJson([vc |-> VCAll, vc2 |-> VC2All, cm |-> CmClasses, order |-> OrderClasses,
                                   err |-> ErrClasses, ch |-> Chs, form |-> Forms, pq |-> Pqs])>>)
=============================================================================
