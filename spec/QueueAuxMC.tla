----------------------------- MODULE QueueAuxMC -----------------------------
(***************************************************************************)
(* Design-level model checking of the auxiliary-log contract (QueueAux).   *)
(* A small world: messages that change state, appear and disappear; the    *)
(* four log operations; a clock.  Checked:                                 *)
(*   ListingExists / ListingTight - for every filter of a finite set the   *)
(*      constructive listing satisfies AttListingOK, and every sequence    *)
(*      that drops an item or swaps two of them does not (the predicate    *)
(*      the trace specification uses is neither contradictory nor lax);    *)
(*   TrendPartition - a sample's global counts are the sum of its          *)
(*      per-(route, target) counts, a route-only count is the sum over     *)
(*      that route's targets;                                              *)
(*   TrendListingExists - the constructive trend listing satisfies         *)
(*      TrendListingOK, and is tight in the same sense;                    *)
(*   AppendOnly - no step removes or rewrites a log entry, message steps   *)
(*      leave the logs alone, log steps leave the messages alone.          *)
(***************************************************************************)
EXTENDS QueueAux, SequencesExt

CONSTANTS Ids, Routes, Targets, MaxAtt, MaxCap, MaxNow

VARIABLES M, aux, now
mvars == <<M, aux, now>>

Msg(rt, tg, st) == [st |-> st, rt |-> rt, tg |-> tg, recv |-> 0, att |-> 0, next |-> 0, lease |-> "", until |-> 0,
                    pl |-> "", hd |-> "", tr |-> "", dr |-> ""]

MCInit == M = <<>> /\ aux = EmptyAux /\ now = 1

Put == \E i \in Ids, rt \in Routes, tg \in Targets, st \in {"queued", "leased", "dead", "canceled", "delivered"} :
          /\ M' = (i :> Msg(rt, tg, st)) @@ M
          /\ UNCHANGED <<aux, now>>
Drop == \E i \in DOMAIN M : M' = Keep(M, DOMAIN M \ {i}) /\ UNCHANGED <<aux, now>>

AttIds == {"a1", "a2", "a3", "a4"}
IdN(id) == CASE id = "a1" -> 1 [] id = "a2" -> 2 [] id = "a3" -> 3 [] id = "a4" -> 4 [] OTHER -> 0
Rec == /\ Len(aux.att) < MaxAtt
       /\ \E id \in (AttIds \ {aux.att[k].id : k \in DOMAIN aux.att}) \cup {""}, rt \in Routes, out \in {"", "acked"}, at \in {0, now - 1} :
            /\ id = "" => (at # 0 /\ \A k \in DOMAIN aux.att : aux.att[k].at # at)     \* caller assumption: blank id, unique instant
            /\ aux' = RecordAttempt(aux, [id |-> id, idn |-> IdN(id), blank |-> id = "", ev |-> "m1", rt |-> rt, tg |-> "t1", n |-> 1,
                                          code |-> 0, errn |-> "", out |-> out, drn |-> "", at |-> at], now)
       /\ UNCHANGED <<M, now>>
Cap == /\ Len(aux.tr) < MaxCap
       /\ \A k \in DOMAIN aux.tr : aux.tr[k].at < now
       /\ aux' = CaptureTrend(aux, M, now)
       /\ UNCHANGED <<M, now>>
Tick == now < MaxNow /\ now' = now + 1 /\ UNCHANGED <<M, aux>>

MCNext == Put \/ Drop \/ Rec \/ Cap \/ Tick
MCSpec == MCInit /\ [][MCNext]_mvars

(* ---- constructive listings ---- *)
SortedBy(S, before(_, _)) ==     \* the sequence of the elements of S in the strict order `before`
  CHOOSE s \in [1 .. Cardinality(S) -> S] : /\ \A a, b \in 1 .. Cardinality(S) : a < b => before(s[a], s[b])

AttListing(log, f) ==
  LET cand == {k \in DOMAIN log : AttMatches(log[k], f)}
      ord  == SortedBy(cand, LAMBDA a, b : AttNewer(log[a], log[b]))
      n    == Min2(AttLimit(f.limit), Cardinality(cand))
  IN [j \in 1 .. n |-> [id |-> log[ord[j]].id, gen |-> log[ord[j]].gen, ev |-> log[ord[j]].ev, rt |-> log[ord[j]].rt, tg |-> log[ord[j]].tg,
                        n |-> log[ord[j]].n, code |-> log[ord[j]].code, err |-> log[ord[j]].err, out |-> log[ord[j]].out,
                        dr |-> log[ord[j]].dr, at |-> log[ord[j]].at]]

AttFilters == {[rt |-> rt, tg |-> "", ev |-> "", out |-> out, before |-> b, limit |-> lim] :
                  rt \in Routes \cup {""}, out \in {"", "acked", "retry"}, b \in {0, MaxNow - 1}, lim \in {0, 1, 2}}

Swapped(s, j) == [s EXCEPT ![j] = s[j + 1], ![j + 1] = s[j]]
DropAt(s, j) == SubSeq(s, 1, j - 1) \o SubSeq(s, j + 1, Len(s))

ListingExists == \A f \in AttFilters : AttListingOK(aux.att, f, AttListing(aux.att, f))
ListingTight ==
  \A f \in AttFilters :
     LET s == AttListing(aux.att, f)
     IN /\ \A j \in DOMAIN s : ~AttListingOK(aux.att, f, DropAt(s, j))
        /\ \A j \in DOMAIN s : j < Len(s) => ~AttListingOK(aux.att, f, Swapped(s, j))

TrendQueries == {[rtn |-> rt, tgn |-> tg, since |-> s, until |-> u, limit |-> lim] :
                    rt \in Routes \cup {""}, tg \in Targets \cup {""}, s \in {0, 2}, u \in {0, MaxNow}, lim \in {0, 1}}

TrendListing(tr, q) ==
  LET vis  == TrendVisible(tr, q)
      n    == Min2(TrendLimit(q.limit), Cardinality(vis))
      kept == {k \in vis : Cardinality({j \in vis : tr[j].at > tr[k].at}) < n}
      ord  == SortedBy(kept, LAMBDA a, b : tr[a].at < tr[b].at)
  IN [j \in 1 .. n |-> [at |-> tr[ord[j]].at, q |-> TrendCount(tr[ord[j]], q, "queued"), l |-> TrendCount(tr[ord[j]], q, "leased"),
                        d |-> TrendCount(tr[ord[j]], q, "dead")]]

TrendListingExists ==
  \A q \in TrendQueries :
     LET s == TrendListing(aux.tr, q)
         t == Cardinality(TrendVisible(aux.tr, q)) > TrendLimit(q.limit)
     IN /\ TrendListingOK(aux.tr, q, s, t)
        /\ ~TrendListingOK(aux.tr, q, s, ~t)
        /\ \A j \in DOMAIN s : ~TrendListingOK(aux.tr, q, DropAt(s, j), t)
        /\ \A j \in DOMAIN s : ~TrendListingOK(aux.tr, q, [s EXCEPT ![j].q = @ + 1], t)

Q(rt, tg) == [rtn |-> rt, tgn |-> tg, since |-> 0, until |-> 0, limit |-> 0]
SumOver(S, f(_)) == FoldSet(LAMBDA x, acc : f(x) + acc, 0, S)
TrendPartition ==
  \A k \in DOMAIN aux.tr : \A st \in TrendStates :
     /\ TrendCount(aux.tr[k], Q("", ""), st) = SumOver(Routes \X Targets, LAMBDA p : TrendCount(aux.tr[k], Q(p[1], p[2]), st))
     /\ \A rt \in Routes : TrendCount(aux.tr[k], Q(rt, ""), st) = SumOver(Targets, LAMBDA tg : TrendCount(aux.tr[k], Q(rt, tg), st))
     /\ TrendCount(aux.tr[k], Q("", ""), st) <= Cardinality(Ids)

AppendOnly ==
  [][/\ IsPrefix(aux.att, aux'.att) /\ IsPrefix(aux.tr, aux'.tr)
     /\ (M' # M => aux' = aux)
     /\ (aux' # aux => M' = M)]_mvars

View == <<M, aux, now>>
=============================================================================
