--------------------------- MODULE AdmissionTrace ---------------------------
(***************************************************************************)
(* Trace validation (follow mode) of ingress admission on the production   *)
(* wiring (C12): every request event carries the fake clock (ms), the      *)
(* limiter it belongs to (route override, else global, or none), the HTTP  *)
(* status and how many messages it added, and for size / fan-out requests  *)
(* the sizes and the configured limits.                                    *)
(***************************************************************************)
EXTENDS Integers, Sequences, FiniteSets, TLC, Json

CONSTANT TraceFile
Trace == ndJsonDeserialize(TraceFile)
Min2(a, b) == IF a < b THEN a ELSE b
Max2(a, b) == IF a > b THEN a ELSE b
Refill(T, rps, burst, dt) == Min2(burst * 1000, T + rps * dt)

VARIABLES l, B     \* B: limiter name -> [T, last, rps, burst]
vars == <<l, B>>
Chk(name, b) == IF b THEN TRUE ELSE PrintT(<<"FAIL", l, Trace[l].ev, name>>)
Init == l = 1 /\ B = <<>>
IsEvent(name) == l <= Len(Trace) /\ Trace[l].ev = name /\ l' = l + 1

\* limiters: e.limiters = [name |-> [rps, burst]], all full at e.now
Reset ==
  /\ IsEvent("Reset")
  /\ LET e == Trace[l]
     IN B' = [n \in DOMAIN e.limiters |-> [T |-> e.limiters[n].burst * 1000, last |-> e.now, rps |-> e.limiters[n].rps, burst |-> e.limiters[n].burst]]

\* m requests arriving at the same instant for one limiter (m = 1: a single request); admitted = how many were not 429
Rate ==
  /\ IsEvent("Rate")
  /\ LET e == Trace[l]
     IN IF e.limiter = ""
        THEN /\ Chk("unlimited_never_429", e.admitted = e.m)
             /\ UNCHANGED B
        ELSE LET b  == B[e.limiter]
                 \* a timestamp older than the newest one the bucket has seen (a request that read the clock and was
                 \* overtaken before it reached the limiter) earns no refill and does not move the reference back
                 T1 == Refill(b.T, b.rps, b.burst, Max2(0, e.now - b.last))
             IN /\ Chk("admit_only_with_token", e.admitted * 1000 <= T1)
                /\ Chk("refuse_only_when_empty", e.admitted < e.m => T1 - e.admitted * 1000 < 2000)
                /\ Chk("refused_are_429_and_store_nothing", e.enq = e.accepted /\ e.accepted <= e.admitted)
                /\ B' = [B EXCEPT ![e.limiter] = [b EXCEPT !.T = IF e.admitted * 1000 <= T1 THEN T1 - e.admitted * 1000 ELSE 0, !.last = Max2(b.last, e.now)]]

\* a request to an unknown path consumes no token and stores nothing
NoRoute ==
  /\ IsEvent("NoRoute")
  /\ LET e == Trace[l] IN Chk("404_no_effect", e.status \in {404, 405} /\ e.enq = 0)
  /\ UNCHANGED B

\* body / header size limits: size <= limit => accepted; size > limit => 413 and nothing stored
Size ==
  /\ IsEvent("Size")
  /\ LET e == Trace[l]
     IN /\ Chk("within_limit_accepted", (e.body <= e.max_body /\ e.headers <= e.max_headers) => (e.status = 202 /\ e.enq = e.targets))
        /\ Chk("over_limit_413", (e.body > e.max_body \/ e.headers > e.max_headers) => (e.status = 413 /\ e.enq = 0))
  /\ UNCHANGED B

\* fan-out into a queue with room for `room` more messages: accepted iff all targets fit; otherwise 503 and exactly
\* the copies for the first `room` targets are kept (reject policy)
Fanout ==
  /\ IsEvent("Fanout")
  /\ LET e == Trace[l]
     IN /\ Chk("fits_accepted", e.room >= e.targets => (e.status = 202 /\ e.stored = e.want))
        /\ Chk("partial_503_prefix", e.room < e.targets => (e.status = 503 /\ e.stored = SubSeq(e.want, 1, e.room)))
        /\ Chk("others_untouched", e.others_unchanged)
  /\ UNCHANGED B

\* publish through the MCP tool messages_publish (direct database mode): the same admission rule as every other
\* enqueue - with the reject policy a batch is admitted only if it fits under max_depth, and a refusal stores nothing
McpPublish ==
  /\ IsEvent("McpPublish")
  /\ LET e == Trace[l]
     IN /\ Chk("mcp_publish_fits_accepted", e.room >= e.items => (~e.refused /\ e.stored = e.items))
        /\ Chk("mcp_publish_over_depth_refused", e.room < e.items => (e.refused /\ e.stored = 0))
        /\ Chk("mcp_publish_others_untouched", e.pre_kept)
  /\ UNCHANGED B

Next == Reset \/ Rate \/ NoRoute \/ Size \/ Fanout \/ McpPublish
Spec == Init /\ [][Next]_vars
TraceAccepted ==
  LET d == TLCGet("stats").diameter
  IN IF d - 1 = Len(Trace) THEN TRUE ELSE PrintT(<<"REJECTED", "matched", d - 1, "of", Len(Trace)>>) /\ FALSE
=============================================================================
