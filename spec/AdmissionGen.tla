---------------------------- MODULE AdmissionGen ----------------------------
(***************************************************************************)
(* TLC as generator of arrival sequences for the ingress rate limiters     *)
(* (C12): gaps that land exactly on, just before and just after a refill   *)
(* instant, bursts at one instant, idle gaps, traffic alternating between  *)
(* the route with its own limiter, routes under the global limiter and an  *)
(* unknown path.  Inputs only.                                             *)
(***************************************************************************)
EXTENDS Integers, Sequences, FiniteSets, TLC, Json
CONSTANTS Depth, Gaps, Targets
VARIABLE hist
Init == hist = <<>>
Next ==
  /\ Len(hist) < Depth
  /\ \E g \in Gaps, t \in Targets, m \in {1, 1, 4} :
       hist' = Append(hist, [gap |-> g, to |-> t, m |-> m])
  /\ (Len(hist') = Depth => PrintT(<<"ARRIVALS", ToJson(hist')>>))
Spec == Init /\ [][Next]_hist
=============================================================================
