------------------------------- MODULE Queue -------------------------------
(***************************************************************************)
(* hookaido message store: the contract of queue.Store as a set of pure    *)
(* "outcome" operators.  Every operator takes the configuration C, the     *)
(* abstract store state S and the call's arguments and returns the SET of  *)
(* admissible outcomes (a singleton except at the named choice points).    *)
(* QueueMC (design-level model checking), QueueGen (schedule generation)   *)
(* and QueueTrace (trace validation of the real stores) all use exactly    *)
(* these definitions.                                                      *)
(*                                                                         *)
(* Abstract state S:                                                       *)
(*   msgs  : id -> [st, rt, tg, recv, att, next, lease, until, pl, hd, tr, *)
(*                  dr]   (the envelope; payload/headers/trace are opaque  *)
(*                  tokens, times are integer ticks, 0 = zero time)        *)
(*   ord   : id -> insertion ordinal (spec-internal, for "oldest")         *)
(*   oc    : insertion counter                                             *)
(*   lp    : time of the last retention prune (0 = never)   -- volatile    *)
(*   ls    : time of the last expired-lease sweep (0=never) -- volatile    *)
(*                                                                         *)
(* Configuration C: backend, maxDepth, drop, retMaxAge, pruneInt,          *)
(*   delivMaxAge, dlqMaxAge, dlqMaxDepth, sweepGran, pressItems, delivGuard,*)
(*   dev (set of enabled backend deviations, see Dev below)                *)
(***************************************************************************)
EXTENDS Integers, Sequences, FiniteSets, FiniteSetsExt, TLC

Max2(a, b) == IF a > b THEN a ELSE b
Min2(a, b) == IF a < b THEN a ELSE b
SeqRange(s) == {s[i] : i \in DOMAIN s}

States       == {"queued", "leased", "delivered", "dead", "canceled"}
ActiveStates == {"queued", "leased"}
DefaultLimit == 100
MaxLimit     == 1000
MaxBatch     == 100
DefaultTTL   == 30000

(***************************************************************************)
(* Backend deviations (finding names).  A deviation that is enabled in     *)
(* C.dev selects the as-is behaviour of one backend where the two runnable *)
(* backends are observed to differ beyond the documented choice points.    *)
(* The C13 check runs with C.dev = {} on both backends.  The four          *)
(* deviations found on the pinned tree (sweep/prune order in dequeue,      *)
(* single-enqueue eviction count above the limit, lease-id trimming in     *)
(* single lease operations, blank dead reason) were repaired in the        *)
(* repository (known_findings.txt, "fixed:"), so no deviation is defined   *)
(* at present; the mechanism stays for future findings.                    *)
(***************************************************************************)
Dev(C, name) == name \in C.dev

Keep(M, K) == [i \in K |-> M[i]]
IdsIn(M, S)    == {i \in DOMAIN M : M[i].st \in S}
Active(M)      == Cardinality(IdsIn(M, ActiveStates))
ActiveDeliv(M) == Cardinality(IdsIn(M, {"queued", "leased", "delivered"}))
Retained(M)    == Cardinality(IdsIn(M, {"delivered", "dead", "canceled"}))

Requeued(m, t) == [m EXCEPT !.st = "queued", !.lease = "", !.until = 0, !.next = t, !.dr = ""]
Expired(m, t)  == m.st = "leased" /\ m.until # 0 /\ t >= m.until

(***************************************************************************)
(* OldestSets(S, key, k): the sets T of k elements of S that are "oldest"  *)
(* by key: nothing kept is strictly older than something removed.  Ties    *)
(* are a choice point.                                                     *)
(***************************************************************************)
OldestSets(S, key, k) ==
  IF k <= 0 THEN {{}}
  ELSE IF k >= Cardinality(S) THEN {S}
  ELSE LET le(a) == Cardinality({b \in S : key[b] <= key[a]})
           lt(a) == Cardinality({b \in S : key[b] < key[a]})
           must  == {a \in S : le(a) <= k}
           tied  == {a \in S : lt(a) < k /\ le(a) > k}
       IN {must \cup T : T \in kSubset(k - Cardinality(must), tied)}

(***************************************************************************)
(* Expired-lease sweep                                                     *)
(***************************************************************************)
SweepDue(C, ls, t) == C.sweepGran = 0 \/ t - ls >= C.sweepGran
Sweep(M, t) == [i \in DOMAIN M |-> IF Expired(M[i], t) THEN Requeued(M[i], t) ELSE M[i]]
NewSweep(C, ls, t) == IF C.sweepGran = 0 THEN ls ELSE IF SweepDue(C, ls, t) THEN t ELSE ls

(***************************************************************************)
(* Retention prune.  Runs at the start of Enqueue, EnqueueBatch, Dequeue,  *)
(* ListDead, ListMessages, Stats when due.  Never removes leased or        *)
(* canceled messages.                                                      *)
(***************************************************************************)
AnyRetention(C) == C.retMaxAge > 0 \/ C.delivMaxAge > 0 \/ C.dlqMaxAge > 0 \/ C.dlqMaxDepth > 0
PruneDue(C, lp, t) == C.pruneInt > 0 /\ AnyRetention(C) /\ (lp = 0 \/ t - lp >= C.pruneInt)

AgePruned(C, M, t) ==
  {i \in DOMAIN M :
     \/ M[i].st = "queued"    /\ C.retMaxAge > 0   /\ M[i].recv <= t - C.retMaxAge
     \/ M[i].st = "dead"      /\ C.dlqMaxAge > 0   /\ M[i].recv <= t - C.dlqMaxAge
     \/ M[i].st = "delivered" /\ C.delivMaxAge > 0 /\ M[i].next <= t - C.delivMaxAge}

\* set of [msgs, lp, gone] outcomes; gone = ids removed with their reason
PruneOutcomes(C, M, lp, t) ==
  IF ~PruneDue(C, lp, t) THEN {[msgs |-> M, lp |-> lp, gone |-> {}]}
  ELSE LET A    == AgePruned(C, M, t)
           M1   == Keep(M, DOMAIN M \ A)
           dead == IdsIn(M1, {"dead"})
           k    == IF C.dlqMaxDepth > 0 THEN Max2(0, Cardinality(dead) - C.dlqMaxDepth) ELSE 0
           key  == [i \in dead |-> M1[i].recv]
       IN {[msgs |-> Keep(M1, DOMAIN M1 \ D), lp |-> t, gone |-> A \cup D] : D \in OldestSets(dead, key, k)}

(***************************************************************************)
(* Enqueue / EnqueueBatch.                                                 *)
(* envs: sequence of [id, rt, tg, recv, next, att, pl, hd, tr] (recv/next  *)
(* 0 = default).  All-or-nothing: a refused call changes nothing (apart    *)
(* from the prune step that precedes it).                                  *)
(***************************************************************************)
PressureLimit(C) ==
  IF ~C.pressure THEN 0
  ELSE IF C.pressItems > 0 THEN C.pressItems
  ELSE IF C.maxDepth <= 0 THEN 0
  ELSE Max2(C.maxDepth, 1000)
PressureActive(C, M) == PressureLimit(C) > 0 /\ Retained(M) >= PressureLimit(C)

\* number of queued messages that must be evicted to store n more
NeedEvict(C, M, n, single) ==
  IF C.maxDepth <= 0 THEN 0
  ELSE LET over(x) == Max2(0, x + n - C.maxDepth)
           kAct    == over(Active(M))
           kDel    == IF C.delivGuard /\ C.delivMaxAge > 0 THEN over(ActiveDeliv(M)) ELSE 0
       IN Max2(kAct, kDel)

\* victims: k oldest queued messages, "oldest" by received_at or by insertion
VictimSets(S, k) ==
  LET Q == IdsIn(S.msgs, {"queued"})
  IN OldestSets(Q, [i \in Q |-> S.msgs[i].recv], k) \cup OldestSets(Q, [i \in Q |-> S.ord[i]], k)

NewMsg(env, t) ==
  LET rv == IF env.recv = 0 THEN t ELSE env.recv
  IN [st |-> "queued", rt |-> env.rt, tg |-> env.tg, recv |-> rv, att |-> env.att,
      next |-> IF env.next = 0 THEN rv ELSE env.next,
      lease |-> "", until |-> 0, pl |-> env.pl, hd |-> env.hd, tr |-> env.tr, dr |-> ""]

DupInSeq(ids) == \E i, j \in DOMAIN ids : i < j /\ ids[i] = ids[j]

\* outcomes after the prune step; S already pruned.  Each outcome is
\* [S, err, victims].  The reported error is a choice point when several
\* refusal reasons apply at once.
EnqAfterPrune(C, S, envs, t, single) ==
  LET M    == S.msgs
      n    == Len(envs)
      ids  == [i \in DOMAIN envs |-> envs[i].id]
      k    == NeedEvict(C, M, n, single)
      Q    == IdsIn(M, {"queued"})
      full == k > 0 /\ (C.drop # "drop_oldest" \/ k > Cardinality(Q))
      fail(e) == [S |-> S, err |-> e, victims |-> {}]
      VS   == IF full THEN {{}} ELSE VictimSets(S, k)
      \* an id that is still stored refuses the call - unless that message is one of the victims: then it is replaced
      exists(V) == DupInSeq(ids) \/ \E i \in DOMAIN ids : ids[i] \in DOMAIN M \ V
      store(V) ==
        LET keep == DOMAIN M \ V
            newIds == SeqRange(ids)
            idx(id) == CHOOSE i \in DOMAIN ids : ids[i] = id
        IN [S |-> [S EXCEPT
                    !.msgs = [i \in keep \cup newIds |-> IF i \in newIds THEN NewMsg(envs[idx(i)], t) ELSE M[i]],
                    !.ord  = [i \in keep \cup newIds |-> IF i \in newIds THEN S.oc + idx(i) ELSE S.ord[i]],
                    !.oc   = S.oc + n],
            err |-> "", victims |-> V]
  IN UNION { (IF full THEN {fail("full")} ELSE {})
             \cup (IF PressureActive(C, M) THEN {fail("pressure")} ELSE {})
             \cup (IF exists(V) THEN {fail("exists")} ELSE {})
             \cup (IF ~full /\ ~PressureActive(C, M) /\ ~exists(V) THEN {store(V)} ELSE {})
             : V \in VS }

EnqueueOutcomes(C, S, envs, t, single) ==
  UNION { {[S |-> o.S, err |-> o.err, victims |-> o.victims, pruned |-> p.gone]
            : o \in EnqAfterPrune(C, [S EXCEPT !.msgs = p.msgs, !.lp = p.lp,
                                                 !.ord = Keep(S.ord, DOMAIN p.msgs)], envs, t, single)}
          : p \in PruneOutcomes(C, S.msgs, S.lp, t) }

(***************************************************************************)
(* Dequeue.  got = the set of messages the call leased (choice point: any  *)
(* min(batch', |Ready|) ready messages), leaseOf = lease id per message.   *)
(***************************************************************************)
EffBatch(b) == IF b <= 0 THEN 1 ELSE Min2(b, MaxBatch)
EffTTL(ttl) == IF ttl <= 0 THEN DefaultTTL ELSE ttl

Ready(M, rt, tg, t) ==
  {i \in DOMAIN M : /\ M[i].st = "queued"
                    /\ (rt = "" \/ M[i].rt = rt)
                    /\ (tg = "" \/ M[i].tg = tg)
                    /\ M[i].next <= t}

\* the state just before candidate selection: retention prune, then the
\* expired-lease sweep (if due).  A message whose lease just ran out is
\* therefore offered again, not pruned in the same call.  Set of [msgs, lp, ls, gone].
DeqPre(C, S, t) ==
  LET sw(M) == IF SweepDue(C, S.ls, t) THEN Sweep(M, t) ELSE M
      ls2   == NewSweep(C, S.ls, t)
  IN {[msgs |-> sw(p.msgs), lp |-> p.lp, ls |-> ls2, gone |-> p.gone] : p \in PruneOutcomes(C, S.msgs, S.lp, t)}

Lease(m, lid, t, ttl) == [m EXCEPT !.st = "leased", !.att = m.att + 1, !.lease = lid,
                                    !.until = t + ttl, !.next = t + ttl]

\* outcome for a given pre-state p, chosen set got and lease assignment
DeqApply(S, p, got, leaseOf, t, ttl) ==
  [S EXCEPT !.msgs = [i \in DOMAIN p.msgs |-> IF i \in got THEN Lease(p.msgs[i], leaseOf[i], t, ttl) ELSE p.msgs[i]],
            !.ord  = Keep(S.ord, DOMAIN p.msgs),
            !.lp = p.lp, !.ls = p.ls]

DeqAdmissible(p, rt, tg, batch, t, got) ==
  LET rdy == Ready(p.msgs, rt, tg, t)
  IN got \subseteq rdy /\ Cardinality(got) = Min2(EffBatch(batch), Cardinality(rdy))

(***************************************************************************)
(* Lease operations.  kind \in {"ack","nack","extend","dead"}; lid is the  *)
(* lease id after the normalisation the operation applies; arg = delay /   *)
(* extension / reason.  Outcome [msgs, err], err \in {"", "notfound",      *)
(* "expired"}.                                                             *)
(***************************************************************************)
HolderOf(M, lid) == {i \in DOMAIN M : M[i].st = "leased" /\ M[i].lease = lid}

ApplyLease(C, M, i, kind, arg, t) ==
  CASE kind = "ack" ->
         IF C.delivMaxAge > 0
         THEN [M EXCEPT ![i] = [@ EXCEPT !.st = "delivered", !.lease = "", !.until = 0, !.next = t, !.dr = ""]]
         ELSE Keep(M, DOMAIN M \ {i})
    [] kind = "nack" ->
         [M EXCEPT ![i] = [@ EXCEPT !.st = "queued", !.lease = "", !.until = 0, !.next = t + Max2(arg, 0), !.dr = ""]]
    [] kind = "extend" ->
         [M EXCEPT ![i] = [@ EXCEPT !.until = @ + arg, !.next = M[i].until + arg]]
    [] kind = "dead" ->
         [M EXCEPT ![i] = [@ EXCEPT !.st = "dead", !.lease = "", !.until = 0, !.next = t, !.dr = arg]]

LeaseOp(C, M, kind, lid, arg, t) ==
  IF kind = "extend" /\ arg <= 0 THEN [msgs |-> M, err |-> ""]
  ELSE IF lid = "" \/ HolderOf(M, lid) = {} THEN [msgs |-> M, err |-> "notfound"]
  ELSE LET i == CHOOSE x \in HolderOf(M, lid) : TRUE
       IN IF Expired(M[i], t)
          THEN [msgs |-> [M EXCEPT ![i] = Requeued(@, t)], err |-> "expired"]
          ELSE [msgs |-> ApplyLease(C, M, i, kind, arg, t), err |-> ""]

\* Batch form over a sequence of (already trimmed) lease ids; blank ids and
\* repeated ids conflict as "notfound".  Result [msgs, ok, nf, ex] where nf
\* and ex are the bags (as sequences) of conflicting ids.
RECURSIVE LeaseBatchFold(_, _, _, _, _, _, _)
LeaseBatchFold(C, acc, kind, lids, arg, t, k) ==
  IF k > Len(lids) THEN acc
  ELSE LET lid == lids[k]
           seen == \E j \in 1..(k-1) : lids[j] = lid
       IN IF lid = "" \/ seen
          THEN LeaseBatchFold(C, [acc EXCEPT !.nf = Append(@, lid)], kind, lids, arg, t, k + 1)
          ELSE LET r == LeaseOp(C, acc.msgs, kind, lid, arg, t)
               IN LeaseBatchFold(C,
                    [msgs |-> r.msgs,
                     ok   |-> IF r.err = "" THEN acc.ok + 1 ELSE acc.ok,
                     nf   |-> IF r.err = "notfound" THEN Append(acc.nf, lid) ELSE acc.nf,
                     ex   |-> IF r.err = "expired" THEN Append(acc.ex, lid) ELSE acc.ex],
                    kind, lids, arg, t, k + 1)

LeaseBatch(C, M, kind, lids, arg, t) ==
  LeaseBatchFold(C, [msgs |-> M, ok |-> 0, nf |-> <<>>, ex |-> <<>>], kind, lids, arg, t, 1)

(***************************************************************************)
(* Operator mutations                                                      *)
(***************************************************************************)
AllowedFrom(op) ==
  CASE op = "cancel"      -> {"queued", "leased", "dead"}
    [] op = "requeue"     -> {"dead", "canceled"}
    [] op = "resume"      -> {"canceled"}
    [] op = "requeuedead" -> {"dead"}
    [] op = "deletedead"  -> {"dead"}
TargetState(op) == IF op = "cancel" THEN "canceled" ELSE "queued"

Mutated(m, op, t) == [m EXCEPT !.st = TargetState(op), !.lease = "", !.until = 0, !.next = t, !.dr = ""]

\* ids: SET of (trimmed, non-blank) ids.  Result [msgs, n].
MutateIds(M, op, ids, t) ==
  LET hit == {i \in ids \cap DOMAIN M : M[i].st \in AllowedFrom(op)}
  IN IF op = "deletedead"
     THEN [msgs |-> Keep(M, DOMAIN M \ hit), n |-> Cardinality(hit)]
     ELSE [msgs |-> [i \in DOMAIN M |-> IF i \in hit THEN Mutated(M[i], op, t) ELSE M[i]], n |-> Cardinality(hit)]

EffLimit(l) == IF l <= 0 THEN DefaultLimit ELSE Min2(l, MaxLimit)

\* filter f = [rt, tg, st, before, limit]; "" / 0 = absent.  rk = id rank
\* (lexicographic order of ids, supplied by the environment).
Matches(m, f) ==
  /\ (f.rt = "" \/ m.rt = f.rt)
  /\ (f.tg = "" \/ m.tg = f.tg)
  /\ (f.st = "" \/ m.st = f.st)
  /\ (f.before = 0 \/ m.recv < f.before)

\* newer-first: received_at DESC, id DESC
Newer(M, rk, a, b) == M[a].recv > M[b].recv \/ (M[a].recv = M[b].recv /\ rk[a] > rk[b])

TopNewest(M, rk, cand, lim) ==
  {a \in cand : Cardinality({b \in cand : Newer(M, rk, b, a)}) < lim}

Select(M, rk, op, f) ==
  IF f.st # "" /\ f.st \notin AllowedFrom(op) THEN {}
  ELSE TopNewest(M, rk, {i \in DOMAIN M : M[i].st \in AllowedFrom(op) /\ Matches(M[i], f)}, EffLimit(f.limit))

\* Linear-time characterisation of the same selection, for large tables: Sel is
\* the set of the k newest (desc) / oldest (asc) candidates, k = min(lim, |cand|).
SelKey(M, rk, a) == M[a].recv * 2000 + rk[a]       \* (received_at, id) as one integer; rk < 2000
FilterCand(M, op, f) ==
  IF f.st # "" /\ f.st \notin AllowedFrom(op) THEN {}
  ELSE {i \in DOMAIN M : M[i].st \in AllowedFrom(op) /\ Matches(M[i], f)}
IsTopK(M, rk, cand, Sel, lim, desc) ==
  LET k    == Min2(lim, Cardinality(cand))
      rest == cand \ Sel
      keys(X) == {SelKey(M, rk, a) : a \in X}
  IN /\ Sel \subseteq cand /\ Cardinality(Sel) = k
     /\ (Sel = {} \/ rest = {} \/
         (IF desc THEN Min(keys(Sel)) > Max(keys(rest)) ELSE Max(keys(Sel)) < Min(keys(rest))))

(***************************************************************************)
(* Listings (pure reads after the prune step)                              *)
(***************************************************************************)
\* the set listed and the order predicate; seq is the returned id sequence
ListedSet(M, rk, f, desc) ==
  LET cand == {i \in DOMAIN M : Matches(M[i], f)}
      lim  == EffLimit(f.limit)
  IN IF desc THEN TopNewest(M, rk, cand, lim)
     ELSE {a \in cand : Cardinality({b \in cand : Newer(M, rk, a, b)}) < lim}

OrderedBy(M, rk, seq, desc, strictIds) ==
  \A k \in 1..(Len(seq) - 1) :
     LET a == seq[k] b == seq[k + 1]
     IN IF desc
        THEN M[a].recv > M[b].recv \/ (M[a].recv = M[b].recv /\ (~strictIds \/ rk[a] > rk[b]))
        ELSE M[a].recv < M[b].recv \/ (M[a].recv = M[b].recv /\ (~strictIds \/ rk[a] < rk[b]))

CountBy(M) == [s \in States |-> Cardinality(IdsIn(M, {s}))]

(***************************************************************************)
(* State invariants of the abstract store (checked in MC on every state    *)
(* and on every state of every validated trace)                            *)
(***************************************************************************)
MsgOK(m) ==
  /\ m.st \in States
  /\ (m.st = "leased") <=> (m.lease # "")
  /\ (m.st = "leased") <=> (m.until # 0)
  /\ m.st = "leased" => m.next = m.until
  /\ m.att >= 0
  /\ (m.dr # "" => m.st = "dead")

StoreOK(M) ==
  /\ \A i \in DOMAIN M : MsgOK(M[i])
  /\ LET L == {i \in DOMAIN M : M[i].lease # ""}      \* lease ids are unique
     IN Cardinality({M[i].lease : i \in L}) = Cardinality(L)

(***************************************************************************)
(* Step properties (C02 / C03): relate the message table before (M) and    *)
(* after (M2) ANY store call of class cls.  newIds = ids named by a        *)
(* successful enqueue of this step.  Checked as an action property in MC   *)
(* and on every step of every validated trace, independently of the        *)
(* per-operation outcome operators above.                                  *)
(***************************************************************************)
\* state edges a call of class cls may take, besides staying put
LegalEdges(cls) ==
  LET expiry == {<<"leased", "queued">>}
  IN CASE cls = "enqueue" -> {}
       [] cls = "dequeue" -> {<<"queued", "leased">>} \cup expiry
       [] cls = "lease"   -> {<<"leased", "queued">>, <<"leased", "delivered">>, <<"leased", "dead">>}
       [] cls = "cancel"  -> {<<"queued", "canceled">>, <<"leased", "canceled">>, <<"dead", "canceled">>}
       [] cls = "requeue" -> {<<"dead", "queued">>, <<"canceled", "queued">>}
       [] cls = "resume"  -> {<<"canceled", "queued">>}
       [] cls = "requeuedead" -> {<<"dead", "queued">>}
       [] cls = "deletedead"  -> {}
       [] cls = "read"    -> {}
       [] cls = "tick"    -> {}

\* states from which a message may disappear in a call of class cls
VanishFrom(cls) ==
  CASE cls = "enqueue" -> {"queued", "dead", "delivered"}       \* prune, drop_oldest (queued only)
    [] cls = "dequeue" -> {"queued", "dead", "delivered"}       \* prune
    [] cls = "lease"   -> {"leased"}                             \* ack without delivered retention
    [] cls = "deletedead" -> {"dead"}
    [] cls = "read"    -> {"queued", "dead", "delivered"}        \* prune
    [] OTHER -> {}

StepLegal(cls, M, M2, newIds, t) ==
  /\ \A i \in (DOMAIN M2 \ DOMAIN M) : i \in newIds                        \* nothing revived or invented
  /\ \A i \in (DOMAIN M \ DOMAIN M2) :
        /\ M[i].st \in VanishFrom(cls)
  /\ \A i \in (DOMAIN M \cap DOMAIN M2) \ newIds :
        LET a == M[i] b == M2[i]
        IN /\ a.rt = b.rt /\ a.tg = b.tg /\ a.pl = b.pl /\ a.hd = b.hd /\ a.tr = b.tr /\ a.recv = b.recv
           /\ (a.st = b.st \/ <<a.st, b.st>> \in LegalEdges(cls))
           /\ b.att \in {a.att, a.att + 1}
           /\ (b.att = a.att + 1) <=> (b.st = "leased" /\ b.lease # a.lease)
           /\ (b.st = "leased" /\ b.lease # a.lease) => cls = "dequeue" /\ a.st \in {"queued", "leased"}
           /\ (a.st = "leased" /\ b.st = "leased" /\ a.lease = b.lease /\ cls # "lease") => a.until = b.until

=============================================================================
