----------------------------- MODULE McpGateGen -----------------------------
(***************************************************************************)
(* TLC as generator of the C20 table: every abstract row (the complete     *)
(* gating table and the argument-shape rows) is an initial state and is    *)
(* printed as JSON.  Inputs only - the expected outcome is NOT exported;   *)
(* the executed trace is judged by McpGateTrace.                           *)
(***************************************************************************)
EXTENDS McpGateMC, Json

Emit == PrintT(<<"ROW", ToJson(row)>>)
=============================================================================
