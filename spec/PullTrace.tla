------------------------------ MODULE PullTrace ------------------------------
(***************************************************************************)
(* Trace validation (follow mode) of the Pull API (HTTP) and Worker API    *)
(* (gRPC) on the production wiring against Queue.tla plus the API layer:   *)
(*   - dequeue: batch' = min(max(batch, 1), max_batch), lease TTL default  *)
(*     and cap, exactly min(batch', |ready of the endpoint's route|) items *)
(*     (C05: "batch capped at the configured maximum");                    *)
(*   - ack / nack / dead / extend, single and batch: effect iff the lease  *)
(*     is the message's current, unexpired lease; otherwise nothing but    *)
(*     the requeue of the named expired lease, and 409 (HTTP single and    *)
(*     batch) / FailedPrecondition (gRPC single) / conflicts in the body   *)
(*     (gRPC batch) (C04);                                                 *)
(*   - the only success a stale call may get: the idempotent answer to a   *)
(*     duplicate of an ack, or of a nack / dead-letter, that itself        *)
(*     succeeded - and then nothing changes (recent: the set of completed  *)
(*     (lease, kind) pairs; kind "dead" shares "nack").                    *)
(* Seeding and operator steps reuse the store-level trace actions.         *)
(***************************************************************************)
EXTENDS QueueTrace

VARIABLES recent,  \* completed lease operations: set of <<lease id, "ack" | "nack">>
          P        \* API configuration: [maxBatch, defTTL, maxTTL, cache]
pvars == <<l, C, S, rank, issued, recent, P>>

PullInit == Init /\ recent = {} /\ P = [maxBatch |-> 100, defTTL |-> 30000, maxTTL |-> 0, cache |-> "forever"]

PullReset ==
  /\ TraceReset
  /\ recent' = {}
  /\ P' = [maxBatch |-> Trace[l].pull.maxBatch, defTTL |-> Trace[l].pull.defTTL, maxTTL |-> Trace[l].pull.maxTTL, cache |-> Trace[l].pull.cache]

StoreStep == (TraceTick \/ TraceEnqueue \/ TraceMutateIds \/ TraceStats) /\ UNCHANGED <<recent, P>>

CacheKind(kind) == IF kind = "ack" THEN "ack" ELSE "nack"
Cached(lid, kind) == P.cache = "forever" /\ <<lid, CacheKind(kind)>> \in recent

PullDequeue ==
  /\ IsEvent("PullDequeue")
  /\ LET e       == Trace[l]
         items   == e.r.items
         got     == {items[k].id : k \in DOMAIN items}
         leaseOf == [i \in got |-> items[CHOOSE k \in DOMAIN items : items[k].id = i].lease]
         leases  == {items[k].lease : k \in DOMAIN items}
         b0      == IF e.a.batch <= 0 THEN 1 ELSE e.a.batch
         b       == IF P.maxBatch > 0 /\ b0 > P.maxBatch THEN P.maxBatch ELSE b0
         ttl0    == IF e.a.ttl < 0 THEN P.defTTL ELSE e.a.ttl            \* -1 = not given
         ttl1    == IF P.maxTTL > 0 /\ ttl0 > P.maxTTL THEN P.maxTTL ELSE ttl0
         ttl     == EffTTL(ttl1)
         pres    == DeqPre(C, S, e.now)
         rdy(p)  == Ready(p.msgs, e.a.route, "pull", e.now)
         \* the API promises the configured cap, not the store's internal one
         adm(p)  == got \subseteq rdy(p) /\ Cardinality(got) = Min2(b, Cardinality(rdy(p)))
     IN /\ Chk("status", e.r.status = 200)
        /\ Chk("nodup", Cardinality(got) = Len(items) /\ Cardinality(leases) = Len(items))
        /\ Chk("fresh", leases \cap issued = {} /\ "" \notin leases)
        /\ Chk("exactly_min_batch_ready", \E p \in pres : adm(p))
        /\ Chk("post", \E p \in pres : got \subseteq rdy(p) /\ DeqApply(S, p, got, leaseOf, e.now, ttl).msgs = e.post)
        /\ Chk("items", \A k \in DOMAIN items :
                           /\ items[k].id \in DOMAIN e.post
                           /\ items[k].att = e.post[items[k].id].att
                           /\ items[k].pl = e.post[items[k].id].pl /\ items[k].hd = e.post[items[k].id].hd
                           /\ items[k].rt = e.a.route)
        /\ Generic(e, "dequeue", <<>>)
        /\ issued' = issued \cup leases
        /\ Follow(e, <<>>)
  /\ UNCHANGED <<C, recent, P>>

\* expected status by transport: HTTP single 204/409, HTTP batch 200/409; gRPC single OK(204)/FailedPrecondition(409),
\* gRPC batch always OK(200) with the conflicts in the body
Expect(transport, single, conflict) ==
  IF single THEN (IF conflict THEN 409 ELSE 204)
  ELSE IF transport = "grpc" THEN 200 ELSE (IF conflict THEN 409 ELSE 200)

PullLease ==
  /\ IsEvent("PullLease")
  /\ LET e    == Trace[l]
         kind == e.a.kind
         arg  == IF kind = "dead" THEN e.a.argn ELSE e.a.arg
         \* a lease batch is limited to 100 ids over HTTP and to max_batch ids over gRPC
         cap  == IF e.a.transport = "grpc" THEN P.maxBatch ELSE 100
     IN IF ~e.a.single /\ Len(e.a.lids) > cap
        THEN /\ Chk("oversized_batch_400", e.r.status = 400)
             /\ Chk("oversized_batch_no_effect", e.post = S.msgs)
             /\ recent' = recent
             /\ Follow(e, <<>>)
        ELSE IF e.a.single
        THEN LET lid == e.a.lids[1]
                 hit == kind # "extend" /\ Cached(lid, kind)
                 r   == LeaseOp(C, S.msgs, kind, lid, arg, e.now)
             IN /\ IF hit
                   THEN /\ Chk("idempotent_answer", e.r.status = 204)
                        /\ Chk("idempotent_no_effect", e.post = S.msgs)
                        /\ recent' = recent
                   ELSE /\ Chk("status", e.r.status = Expect(e.a.transport, TRUE, r.err # ""))
                        /\ Chk("post", r.msgs = e.post)
                        /\ recent' = IF r.err = "" /\ kind # "extend" /\ e.r.status = 204 THEN recent \cup {<<lid, CacheKind(kind)>>} ELSE recent
                /\ Generic(e, "lease", <<>>)
                /\ Follow(e, <<>>)
        ELSE LET lids      == e.a.lids
                 completed == SelectSeq(lids, LAMBDA x : Cached(x, kind))
                 pending   == SelectSeq(lids, LAMBDA x : ~Cached(x, kind))
                 r         == LeaseBatch(C, S.msgs, kind, pending, arg, e.now)
                 conflict  == Len(r.nf) + Len(r.ex) > 0
                 okIds     == {pending[k] : k \in DOMAIN pending} \ (SeqRange(r.nf) \cup SeqRange(r.ex))
             IN /\ Chk("status", e.r.status = Expect(e.a.transport, FALSE, conflict))
                /\ Chk("count", e.r.ok = Len(completed) + r.ok)
                /\ Chk("conflicts_notfound", BagEq(r.nf, e.r.nf))
                /\ Chk("conflicts_expired", BagEq(r.ex, e.r.ex))
                /\ Chk("post", r.msgs = e.post)
                /\ recent' = recent \cup {<<x, CacheKind(kind)>> : x \in okIds}
                /\ Generic(e, "lease", <<>>)
                /\ Follow(e, <<>>)
  /\ UNCHANGED <<C, issued, P>>

\* requests the API refuses before touching anything: 400 and no effect
PullBad ==
  /\ IsEvent("PullBad")
  /\ LET e == Trace[l]
     IN /\ Chk("bad_request_400", e.r.status = 400)
        /\ Chk("bad_request_no_effect", e.post = S.msgs)
        /\ Follow(e, <<>>)
  /\ UNCHANGED <<C, issued, recent, P>>

\* the store failed a single-lease mutation with a transient error (busy database, I/O error): the API reports a server
\* error, nothing changed, and the operation is NOT remembered as completed - the consumer's retry (the next event) is
\* judged by PullLease against the unchanged state, so it has to reach the store
PullFault ==
  /\ IsEvent("PullFault")
  /\ LET e == Trace[l]
     IN /\ Chk("store_fault_5xx", e.r.status >= 500)
        /\ Chk("store_fault_no_effect", e.post = S.msgs)
        /\ Follow(e, <<>>)
  /\ UNCHANGED <<C, issued, recent, P>>

PullNext == PullReset \/ StoreStep \/ PullDequeue \/ PullLease \/ PullBad \/ PullFault
PullSpec == PullInit /\ [][PullNext]_pvars
=============================================================================
