---------------------------- MODULE DispatchTable ----------------------------
(***************************************************************************)
(* The complete C06 decision table as a state space of behaviours of       *)
(* length one: every initial state is one row                              *)
(*     (result, attempt, Max)   result = status 100..599 | neterr |        *)
(*                              timeout | denied;  attempt 1..Max+2;       *)
(*                              Max in MaxSet.                             *)
(*  MC : TableOK holds on every row - Classify is total, admissible, and   *)
(*       agrees with the statement's clauses written on raw status codes.  *)
(*  GEN: EmitRow prints every row as JSON (inputs only - the expected      *)
(*       outcome is NOT exported; DispatchTrace decides).                  *)
(* The ASSUMEs cross-check the overflow-free window arithmetic of          *)
(* Dispatch.tla against the direct formula on small values and at the      *)
(* edge of the supported box.                                              *)
(***************************************************************************)
EXTENDS Dispatch, Json

CONSTANTS MaxSet, CodeLo, CodeHi

VARIABLE row

MaxMax  == CHOOSE m \in MaxSet : \A k \in MaxSet : k <= m
Results == {Status(c) : c \in CodeLo..CodeHi} \cup {ErrRes(k) : k \in {"neterr", "timeout", "denied"}}
Rows    == {x \in {[res |-> r, att |-> a, max |-> M] : r \in Results, a \in 1..(MaxMax + 2), M \in MaxSet} : x.att <= x.max + 2}

Init == row \in Rows
Next == UNCHANGED row
Spec == Init /\ [][Next]_row

TableOK ==
  LET o   == Classify(row.res, row.att, row.max)
      adm == Admissible(row.res, row.att, row.max)
  IN /\ ClassOf(row.res) \in Classes
     /\ o \in Outcomes
     /\ adm # {} /\ adm \subseteq Outcomes /\ o \in adm
     /\ StatementClauses(row.res, row.att, row.max, o)
     \* whatever is admissible: success only for 2xx, retries bounded, reasons truthful
     /\ \A a \in adm :
          /\ a = "ack" <=> ClassOf(row.res) = "2xx"
          /\ a = "retry" => row.att <= row.max
          /\ a = "dead:policy_denied" <=> row.res.kind = "denied"
          /\ ClassOf(row.res) \notin {"1xx", "3xx"} => a = o
     \* at most retry.max+1 sends: attempt Max+1 is never retried
     /\ row.att > row.max => "retry" \notin adm

EmitRow == PrintT(<<"ROW", ToJson(row)>>)

(***************************************************************************)
(* Window arithmetic                                                       *)
(***************************************************************************)
MinI(a, b) == IF a < b THEN a ELSE b
CeilDiv(a, b) == (a + b - 1) \div b

ASSUME \A b \in 1..5, cp \in 1..11, a \in 1..6, jd \in {1, 2, 3, 4, 10} :
         \A jn \in 0..jd :
           b <= cp =>
             LET R == [max |-> 3, base |-> b, cap |-> cp, jn |-> jn, jd |-> jd]
                 v == MinI(b * 2^(a - 1), cp)
             IN /\ RetryOK(R)
                /\ Nominal(a, R) = v
                /\ DelayLo(a, R) = (v * (jd - jn)) \div jd
                /\ DelayHi(a, R) = CeilDiv(v * (jd + jn), jd)
                /\ DelayLo(a, R) >= 0 /\ DelayLo(a, R) <= v /\ v <= DelayHi(a, R) /\ DelayHi(a, R) <= 2 * v

\* edge of the box: cap = 1000 s, jitter 1, large attempt numbers (saturation, no overflow)
ASSUME LET R == [max |-> 50, base |-> 1, cap |-> MaxCapUs, jn |-> MaxJd, jd |-> MaxJd]
       IN /\ RetryOK(R)
          /\ Nominal(1, R) = 1 /\ Nominal(11, R) = 1024 /\ Nominal(30, R) = 536870912
          /\ Nominal(31, R) = MaxCapUs /\ Nominal(52, R) = MaxCapUs
          /\ DelayLo(52, R) = 0 /\ DelayHi(52, R) = 2 * MaxCapUs
ASSUME LET R == [max |-> 8, base |-> 2000000, cap |-> 120000000, jn |-> 2000, jd |-> 10000]   \* the documented default
       IN /\ Nominal(1, R) = 2000000 /\ DelayLo(1, R) = 1600000 /\ DelayHi(1, R) = 2400000
          /\ Nominal(6, R) = 64000000 /\ Nominal(7, R) = 120000000 /\ DelayHi(9, R) = 144000000
ASSUME LET R == [max |-> 3, base |-> 333333, cap |-> 999999999, jn |-> 3333, jd |-> 10000]
       IN /\ Nominal(2, R) = 666666
          /\ DelayLo(2, R) = 444466   \* floor(666666 * 0.6667) = floor(444466.2...)
          /\ DelayHi(2, R) = 888866   \* ceil (666666 * 1.3333) = ceil (888865.7...)
=============================================================================
