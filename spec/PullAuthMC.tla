----------------------------- MODULE PullAuthMC -----------------------------
(***************************************************************************)
(* Design-level model checking of the C11 decision table: every abstract   *)
(* row is a state (a successor of one start state - TLC's workers share    *)
(* next-state generation, not initial states); the invariants are the      *)
(* rules the statement spells out.  A failure here is a specification      *)
(* problem.  The row sets are not named as constants on purpose: TLC       *)
(* evaluates constant definitions eagerly.                                 *)
(***************************************************************************)
EXTENDS PullAuth

VARIABLE row

Accepted == {x \in Cfgs : CompileAccepts(x)}

Pick(r) ==
  \/ \E cc \in Accepted, ep \in 0..3, f \in Forms, w \in Whose, tr \in Transports, op \in Ops :
        /\ ep <= NRoutes(cc) /\ Applicable(cc, ep, f, w)
        /\ r = [s |-> "pull", cfg |-> cc, ep |-> ep, form |-> f, whose |-> w, tr |-> tr, op |-> op]
  \/ \E cc \in Accepted, f \in Forms, w \in Whose :
        /\ Applicable(cc, 0, f, w)
        /\ r = [s |-> "admin", cfg |-> cc, ep |-> 0, form |-> f, whose |-> w, tr |-> "http", op |-> "admin"]
  \/ \E cc \in Cfgs :
        r = [s |-> "compile", cfg |-> cc, ep |-> 0, form |-> "absent", whose |-> "none", tr |-> "http", op |-> "compile"]
Init == row = [s |-> "start"]
Next == row.s = "start" /\ Pick(row')
Spec == Init /\ [][Next]_row

IsPull  == row.s = "pull" /\ row.ep >= 1
c       == row.cfg

TypeOK == Decision(row) \in {"allow", "deny", "either", "noroute", "n/a"}

\* a route override REPLACES the global list: a global token does not open a route with its own list
OverrideReplaces == (IsPull /\ c.own[row.ep] /\ row.whose = "global") => Decision(row) = "deny"

\* an empty allow-list is never "open": every compiled route has a non-empty list, and a request that carries
\* no well-formed token is refused whatever the configuration
NeverOpen ==
  /\ IsPull => Effective(c, row.ep) # {}
  /\ (IsPull /\ Shape(row.form, row.tr) = "no") => Decision(row) = "deny"
  /\ (row.s = "admin" /\ c.adm /\ Shape(row.form, "http") = "no") => Decision(row) = "deny"

\* a token of route A never opens route B (in particular when B has its own list)
Isolation == (IsPull /\ row.whose = "other") => Decision(row) = "deny"

\* acting requires a member of the effective list
AllowNeedsMember ==
  /\ (row.s = "pull" /\ Decision(row) \in {"allow", "either"}) => (row.ep >= 1 /\ row.whose \in Effective(c, row.ep))
  /\ (row.s = "admin" /\ c.adm /\ Decision(row) \in {"allow", "either"}) => row.whose = "admin"

\* the list is usable: its own well-formed token opens the route
MemberOpens ==
  (IsPull /\ row.form = "exact" /\ row.whose \in Effective(c, row.ep)) => Decision(row) = "allow"

\* pull and admin credentials are separate
Separate ==
  /\ (row.s = "pull" /\ row.whose = "admin") => Decision(row) \in {"deny", "noroute"}
  /\ (row.s = "admin" /\ c.adm /\ row.whose \in {"global", "own", "other"}) => Decision(row) = "deny"

\* near-misses are refused on both transports
NearMiss == (row.s \in {"pull", "admin"} /\ (row.s = "admin" => c.adm) /\ row.form \in {"prefix", "suffix", "casevar", "garbage", "two_invalid"})
              => Decision(row) \in {"deny", "noroute"}

CompileRule == row.s = "compile" => (CompileAccepts(c) <=> \A i \in 1..NRoutes(c) : c.own[i] \/ c.glob)
=============================================================================
