------------------------------ MODULE Ingress ------------------------------
(***************************************************************************)
(* Ingress decision specification (properties C10 and C08).                *)
(*                                                                         *)
(* An abstract CONFIGURATION is a short sequence of route records, an      *)
(* abstract REQUEST a record of attributes.  Nothing here is a string of   *)
(* the wire format: a path is a sequence of segments, a host a sequence of *)
(* DNS labels, a header / query attribute the sequence of values carried   *)
(* for the one header name / query key that match blocks of the table      *)
(* use, a remote address a (family, position) pair on an abstract address  *)
(* line on which the listed prefixes are intervals, auth material a record *)
(* of facts (well-formedness, which key signed, what was altered, where    *)
(* the clock stands relative to the signed timestamp, what the auth        *)
(* service does).  Case, port, trailing dot, dot-segments, doubled         *)
(* slashes, percent-encoding, comma lists, address notation are NOT in the *)
(* abstract request: the statement says they do not matter, so the         *)
(* harness varies them freely per row ("concretisation").                  *)
(*                                                                         *)
(* The operators are written from the statements of C10 / C08 and the      *)
(* repository documentation (docs/ingress.md, docs/configuration.md,       *)
(* DESIGN.md "Routing Semantics"), not from the resolver's code.           *)
(***************************************************************************)
EXTENDS Integers, Sequences, FiniteSets, TLC

Range(s)  == {s[i] : i \in DOMAIN s}
MinOf(S)  == CHOOSE x \in S : \A y \in S : x <= y
IsPrefixSeq(p, s) == Len(p) <= Len(s) /\ \A i \in 1..Len(p) : p[i] = s[i]
IsSuffixSeq(p, s) == Len(p) <= Len(s) /\ \A i \in 1..Len(p) : p[i] = s[Len(s) - Len(p) + i]
Abs(x) == IF x < 0 THEN -x ELSE x

NoEnd == -1          \* "valid_until" omitted
OKStatus == 200..299 \* the statement does not fix the success code (code: 202, docs: 200)

(***************************************************************************)
(* Vocabulary of the abstract records (all collections are sequences so   *)
(* that the JSON round trip through the harness preserves them).           *)
(*                                                                         *)
(* route == [ch    : "inbound" | "outbound" | "internal",                  *)
(*           path  : Seq(segment)                  (<<>> is "/"),          *)
(*           m     : [methods : Seq(STRING)        (<<>> = not declared),  *)
(*                    hosts   : Seq([k : "exact"|"any"|"sub", l : labels]),*)
(*                    hdr     : [k : "none"|"exists"|"value", v : value],  *)
(*                    q       : [k : "none"|"exists"|"value", v : value],  *)
(*                    ips     : Seq(prefix name)],                         *)
(*           auth  : [k : "none"|"basic"|"hmac"|"forward", ...],           *)
(*           tg    : number of deliver targets (0 = pull route)]           *)
(* request == [path, method, host : labels, hdr : Seq(value),              *)
(*             q : Seq(value), ip : [fam, pos, form], cred : [...]]        *)
(***************************************************************************)

(* ------------------------------------------------------------ addresses *)
\* Listed prefixes are intervals of an abstract address line per family.
\* pos 2 / 7 are the addresses directly below / above the interval A,
\* 3 / 6 its first / last address, 8 the single listed address S.
Prefix == [A4 |-> [fam |-> 4, lo |-> 3, hi |-> 6], S4 |-> [fam |-> 4, lo |-> 8, hi |-> 8],
           A6 |-> [fam |-> 6, lo |-> 3, hi |-> 6], S6 |-> [fam |-> 6, lo |-> 8, hi |-> 8]]
\* ip.fam is the family of the ADDRESS; form "mapped" is the same IPv4
\* address written as ::ffff:a.b.c.d and denotes the same address.
IpInside(ip, pn) == /\ ip.fam = Prefix[pn].fam
                    /\ Prefix[pn].lo <= ip.pos /\ ip.pos <= Prefix[pn].hi

(* ------------------------------------------------------------- criteria *)
Criteria == {"path", "method", "host", "hdr", "q", "ip"}

EffMethods(rt) == IF rt.m.methods = <<>> THEN {"POST"} ELSE Range(rt.m.methods)

HostPatHolds(p, h) ==
  CASE p.k = "any"   -> TRUE
    [] p.k = "exact" -> h = p.l
    [] p.k = "sub"   -> Len(h) > Len(p.l) /\ IsSuffixSeq(p.l, h)   \* sub-domains only, never the apex

ValReqHolds(rq, vals) ==
  CASE rq.k = "none"   -> TRUE
    [] rq.k = "exists" -> vals # <<>>
    [] rq.k = "value"  -> rq.v \in Range(vals)

Declared(c, rt) ==
  CASE c = "path"   -> TRUE
    [] c = "method" -> TRUE             \* POST when none: always a constraint
    [] c = "host"   -> rt.m.hosts # <<>>
    [] c = "hdr"    -> rt.m.hdr.k # "none"
    [] c = "q"      -> rt.m.q.k # "none"
    [] c = "ip"     -> rt.m.ips # <<>>

Holds(c, rt, rq) ==
  CASE c = "path"   -> IsPrefixSeq(rt.path, rq.path)       \* equal or prefix on a segment boundary; "/" matches all
    [] c = "method" -> rq.method \in EffMethods(rt)
    [] c = "host"   -> rt.m.hosts = <<>> \/ \E i \in DOMAIN rt.m.hosts : HostPatHolds(rt.m.hosts[i], rq.host)
    [] c = "hdr"    -> ValReqHolds(rt.m.hdr, rq.hdr)
    [] c = "q"      -> ValReqHolds(rt.m.q, rq.q)
    [] c = "ip"     -> rt.m.ips = <<>> \/ \E i \in DOMAIN rt.m.ips : IpInside(rq.ip, rt.m.ips[i])

HoldsAllBut(rt, rq, X) == \A c \in Criteria \ X : Holds(c, rt, rq)

Serving(cfg) == {i \in DOMAIN cfg : cfg[i].ch = "inbound"}     \* only inbound routes are reachable from ingress

\* index of the first inbound route whose criteria all hold, 0 if none
ResolveFirstInbound(cfg, rq) ==
  LET S == {i \in Serving(cfg) : HoldsAllBut(cfg[i], rq, {})}
  IN IF S = {} THEN 0 ELSE MinOf(S)

\* methods of the inbound routes that match on everything but the method
AllowSet(cfg, rq) ==
  UNION {EffMethods(cfg[i]) : i \in {j \in Serving(cfg) : HoldsAllBut(cfg[j], rq, {"method"})}}

NTargets(rt) == IF rt.tg = 0 THEN 1 ELSE rt.tg      \* a pull route stores one copy, a deliver route one per target

(* ------------------------------------------------------- authentication *)
\* 0 = authenticated, otherwise the status of the rejection
BasicOutcome(a, c) ==
  \* the password sent is described as (pwof, pwrel): the password of token pwof, sent exactly ("eq") or
  \* shortened / lengthened / changed in one character / emptied
  IF /\ c.k = "basic" /\ c.wf = "ok" /\ c.pwrel = "eq"
     /\ \E i \in DOMAIN a.users : a.users[i].u = c.user /\ a.users[i].p = c.pwof   \* a configured user with exactly its password
  THEN 0 ELSE 401

KeyValidAt(a, key, ts) ==
  \/ key \in Range(a.st)                                             \* directly configured secret: no window
  \/ \E i \in DOMAIN a.vs : /\ a.vs[i].id = key
                            /\ a.vs[i].from <= ts                     \* valid_from inclusive
                            /\ (a.vs[i].until = NoEnd \/ ts < a.vs[i].until)   \* valid_until exclusive

\* now in ms, ts in s, tol in s (both relative to the same base instant)
WithinTolerance(a, c) == Abs(c.now - c.ts * 1000) <= a.tol * 1000

HmacAuthentic(a, c) ==
  /\ c.k = "hmac"
  /\ c.ps = "present" /\ c.pt = "present" /\ c.pn = "present"        \* all three headers present (non-blank)
  /\ c.tsf = "int"                                                    \* the timestamp is a timestamp
  /\ WithinTolerance(a, c)
  /\ c.sigc = "ok"                                                    \* hex HMAC-SHA256 over exactly what was sent
  /\ KeyValidAt(a, c.key, c.ts)                                       \* under a secret valid at the SIGNED timestamp
HmacOutcome(a, c) == IF HmacAuthentic(a, c) THEN 0 ELSE 401

ForwardOutcome(a, c) ==
  IF c.k # "forward" THEN 503
  ELSE IF c.fk = "status" /\ c.code \in 200..299 THEN 0
  ELSE IF c.fk = "status" /\ c.code \in {401, 403} THEN c.code       \* passed through
  ELSE 503                                                            \* other status, timeout, unreachable: fail closed

AuthOutcome(rt, rq) ==
  CASE rt.auth.k = "none"    -> 0
    [] rt.auth.k = "basic"   -> BasicOutcome(rt.auth, rq.cred)
    [] rt.auth.k = "hmac"    -> HmacOutcome(rt.auth, rq.cred)
    [] rt.auth.k = "forward" -> ForwardOutcome(rt.auth, rq.cred)

(* -------------------------------------------------------------- outcome *)
\* status : set of admissible status codes;  allow : set of methods (405 only);
\* route  : index of the route whose queue receives the message (0 = none);
\* n      : number of messages enqueued (one per target of the route)
Outcome(cfg, rq) ==
  LET r == ResolveFirstInbound(cfg, rq)
  IN IF r = 0
     THEN IF AllowSet(cfg, rq) # {}
          THEN [status |-> {405}, allow |-> AllowSet(cfg, rq), route |-> 0, n |-> 0]
          ELSE [status |-> {404}, allow |-> {}, route |-> 0, n |-> 0]
     ELSE LET a == AuthOutcome(cfg[r], rq)
          IN IF a = 0
             THEN [status |-> OKStatus, allow |-> {}, route |-> r, n |-> NTargets(cfg[r])]
             ELSE [status |-> {a}, allow |-> {}, route |-> 0, n |-> 0]

\* the same table read as if the channel declaration did not exist (used only
\* to NAME a divergence, never to accept one)
AsInbound(cfg) == [i \in DOMAIN cfg |-> [cfg[i] EXCEPT !.ch = "inbound"]]
FirstAnyChannel(cfg, rq) ==
  LET S == {i \in DOMAIN cfg : HoldsAllBut(cfg[i], rq, {})}
  IN IF S = {} THEN 0 ELSE MinOf(S)

(***************************************************************************)
(* Design-level facts about the table (checked by TLC over every row in    *)
(* MC mode).  They are formulated without Outcome's case structure.        *)
(***************************************************************************)
Accepted(o) == o.status \subseteq OKStatus

FactRejectedNoEffect(cfg, rq) ==
  LET o == Outcome(cfg, rq) IN ~Accepted(o) => (o.n = 0 /\ o.route = 0)

FactOnlyInbound(cfg, rq) ==
  LET o == Outcome(cfg, rq) IN o.route # 0 => cfg[o.route].ch = "inbound"

FactFirstMatch(cfg, rq) ==
  LET o == Outcome(cfg, rq)
  IN /\ o.route # 0 => /\ \A c \in Criteria : Holds(c, cfg[o.route], rq)
                       /\ \A j \in 1..(o.route - 1) : cfg[j].ch # "inbound" \/ \E c \in Criteria : ~Holds(c, cfg[j], rq)
     \* and conversely: if some inbound route matches, the request is not answered 404 / 405
     /\ (\E i \in DOMAIN cfg : cfg[i].ch = "inbound" /\ \A c \in Criteria : Holds(c, cfg[i], rq))
           => o.status \cap {404, 405} = {}

FactAllowSound(cfg, rq) ==
  LET o == Outcome(cfg, rq)
  IN /\ o.status = {405} =>
          /\ o.allow # {} /\ rq.method \notin o.allow
          /\ \A mth \in o.allow : \E i \in DOMAIN cfg :
                 /\ cfg[i].ch = "inbound" /\ mth \in EffMethods(cfg[i])
                 /\ \A c \in Criteria \ {"method"} : Holds(c, cfg[i], rq)
     /\ o.status = {404} =>
          ~\E i \in DOMAIN cfg : cfg[i].ch = "inbound" /\ \A c \in Criteria \ {"method"} : Holds(c, cfg[i], rq)
     /\ o.status # {405} => o.allow = {}

FactAcceptedAuthentic(cfg, rq) ==
  LET o == Outcome(cfg, rq)
  IN Accepted(o) =>
       LET a == cfg[o.route].auth
           c == rq.cred
       IN /\ o.n = NTargets(cfg[o.route]) /\ o.n >= 1
          /\ a.k = "basic" => (c.wf = "ok" /\ c.pwrel = "eq" /\ [u |-> c.user, p |-> c.pwof] \in Range(a.users))
          /\ a.k = "hmac" =>
                /\ c.sigc = "ok" /\ c.tsf = "int"
                /\ <<c.ps, c.pt, c.pn>> = <<"present", "present", "present">>
                /\ c.now - c.ts * 1000 <= a.tol * 1000 /\ c.ts * 1000 - c.now <= a.tol * 1000
                /\ \/ c.key \in Range(a.st)
                   \/ \E i \in DOMAIN a.vs : a.vs[i].id = c.key /\ a.vs[i].from <= c.ts
                                              /\ (a.vs[i].until = NoEnd \/ a.vs[i].until > c.ts)
          /\ a.k = "forward" => (c.fk = "status" /\ c.code >= 200 /\ c.code < 300)

FactAuthStatus(cfg, rq) ==
  LET o == Outcome(cfg, rq)
      r == ResolveFirstInbound(cfg, rq)
  IN (r # 0 /\ ~Accepted(o)) =>
       /\ cfg[r].auth.k \in {"basic", "hmac"} => o.status = {401}
       /\ cfg[r].auth.k = "forward" => (o.status \subseteq {401, 403, 503} /\ Cardinality(o.status) = 1)
       /\ cfg[r].auth.k # "none"

DesignFacts(cfg, rq) ==
  /\ FactRejectedNoEffect(cfg, rq) /\ FactOnlyInbound(cfg, rq) /\ FactFirstMatch(cfg, rq)
  /\ FactAllowSound(cfg, rq) /\ FactAcceptedAuthentic(cfg, rq) /\ FactAuthStatus(cfg, rq)

(***************************************************************************)
(* Classification of a row (for coverage accounting and for naming a       *)
(* divergence; derived from the abstract input only).                      *)
(***************************************************************************)
\* criterion c DECIDES route i for rq when every other criterion of the route holds
Decides(c, rt, rq) == Declared(c, rt) /\ HoldsAllBut(rt, rq, {c})

AuthRowClass(rt, rq) ==
  LET a == rt.auth
      c == rq.cred
  IN CASE a.k = "none"  -> "none"
       [] c.k # a.k     -> a.k \o "/material_of_" \o c.k         \* the material of another auth kind (or none at all)
       [] a.k = "basic" -> LET pre == IF a.pwform = "ref" THEN "basic_pwref/" ELSE "basic/"   \* password given as a secret reference
                           IN IF c.wf # "ok" THEN pre \o c.wf
                              ELSE IF BasicOutcome(a, c) = 0 THEN pre \o "right"
                              ELSE IF ~\E i \in DOMAIN a.users : a.users[i].u = c.user THEN pre \o "unknown_user"
                              ELSE IF c.pwrel = "eq" THEN pre \o "wrong_password_other_users"
                              ELSE pre \o "wrong_password_" \o c.pwrel
       [] a.k = "hmac"  -> IF c.ps # "present" THEN "hmac/signature_" \o c.ps
                           ELSE IF c.pt # "present" THEN "hmac/timestamp_" \o c.pt
                           ELSE IF c.pn # "present" THEN "hmac/nonce_" \o c.pn
                           ELSE IF c.tsf # "int" THEN "hmac/timestamp_unparsable"
                           ELSE IF ~WithinTolerance(a, c) THEN "hmac/outside_tolerance"
                           ELSE IF c.sigc # "ok" THEN "hmac/signature_" \o c.sigc
                           ELSE IF KeyValidAt(a, c.key, c.ts) THEN "hmac/valid"
                           ELSE IF c.key \in Range(a.st) \cup {a.vs[i].id : i \in DOMAIN a.vs} THEN "hmac/secret_not_valid_at_ts"
                           ELSE "hmac/unconfigured_secret"
       [] a.k = "forward" -> IF c.fk # "status" THEN "forward/" \o c.fk
                             ELSE IF c.code \in 200..299 THEN "forward/2xx"
                             ELSE IF c.code \in {401, 403} THEN "forward/" \o ToString(c.code)
                             ELSE IF c.code \in 300..399 THEN "forward/3xx"
                             ELSE IF c.code \in 400..499 THEN "forward/4xx_other"
                             ELSE IF c.code \in 500..599 THEN "forward/5xx"
                             ELSE "forward/other_status"
=============================================================================
