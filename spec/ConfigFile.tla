----------------------------- MODULE ConfigFile -----------------------------
(***************************************************************************)
(* Crash-atomic replacement of the configuration file (C18, third clause): *)
(* a tiny file-system model (directory entries, per-file volatile and      *)
(* durable content, fsync, rename, directory fsync; a crash drops what is  *)
(* volatile) and the write protocol temp + write + fsync + rename + dir    *)
(* fsync.  Invariant: whatever the crash point, the path holds the         *)
(* complete old or the complete new content.  Variants of the protocol     *)
(* (no fsync before rename, write in place) are rejected by TLC.           *)
(***************************************************************************)
EXTENDS Integers, Sequences, FiniteSets, TLC

CONSTANTS Protocol   \* sequence of steps: "create_tmp","write_tmp","fsync_tmp","rename","fsync_dir","write_target"

VARIABLES pc,        \* next protocol step
          vol, dur,  \* file id -> content ("", "half", "new", "old"): volatile (page cache) and durable
          dirVol, dirDur, \* directory: name -> file id, volatile and durable
          crashed
vars == <<pc, vol, dur, dirVol, dirDur, crashed>>

Init ==
  /\ pc = 1 /\ crashed = FALSE
  /\ vol = [f \in {"F0"} |-> "old"] /\ dur = [f \in {"F0"} |-> "old"]
  /\ dirVol = [n \in {"cfg"} |-> "F0"] /\ dirDur = [n \in {"cfg"} |-> "F0"]

Step ==
  /\ ~crashed /\ pc <= Len(Protocol)
  /\ LET s == Protocol[pc]
     IN CASE s = "create_tmp" ->
               /\ vol' = [f \in DOMAIN vol \cup {"F1"} |-> IF f = "F1" THEN "" ELSE vol[f]]
               /\ dur' = [f \in DOMAIN dur \cup {"F1"} |-> IF f = "F1" THEN "" ELSE dur[f]]
               /\ dirVol' = [n \in DOMAIN dirVol \cup {"tmp"} |-> IF n = "tmp" THEN "F1" ELSE dirVol[n]]
               /\ UNCHANGED dirDur
          [] s = "write_tmp" ->
               \* a write reaches the page cache at once, the disk at any later time (possibly partially)
               /\ vol' = [vol EXCEPT !["F1"] = "new"] /\ UNCHANGED <<dur, dirVol, dirDur>>
          [] s = "fsync_tmp" ->
               /\ dur' = [dur EXCEPT !["F1"] = vol["F1"]] /\ UNCHANGED <<vol, dirVol, dirDur>>
          [] s = "rename" ->
               /\ dirVol' = [n \in DOMAIN dirVol \ {"tmp"} |-> IF n = "cfg" THEN dirVol["tmp"] ELSE dirVol[n]]
               /\ UNCHANGED <<vol, dur, dirDur>>
          [] s = "fsync_dir" ->
               /\ dirDur' = dirVol /\ UNCHANGED <<vol, dur, dirVol>>
          [] s = "write_target" ->
               /\ vol' = [vol EXCEPT ![dirVol["cfg"]] = "new"] /\ UNCHANGED <<dur, dirVol, dirDur>>
  /\ pc' = pc + 1 /\ UNCHANGED crashed

\* the disk may pick up volatile state at any time: file data (possibly half of it) or the directory
Writeback ==
  /\ ~crashed
  /\ \/ \E f \in DOMAIN vol : vol[f] # dur[f] /\ \E c \in {vol[f], "half"} : dur' = [dur EXCEPT ![f] = c] /\ UNCHANGED <<vol, dirVol, dirDur>>
     \/ dirDur # dirVol /\ dirDur' = dirVol /\ UNCHANGED <<vol, dur, dirVol>>
  /\ UNCHANGED <<pc, crashed>>

\* power loss: volatile state is gone
PowerLoss == ~crashed /\ crashed' = TRUE /\ vol' = dur /\ dirVol' = dirDur /\ UNCHANGED <<pc, dur, dirDur>>
\* process kill: the page cache survives, the protocol just stops
Kill == ~crashed /\ crashed' = TRUE /\ UNCHANGED <<pc, vol, dur, dirVol, dirDur>>

Next == Step \/ Writeback \/ PowerLoss \/ Kill
Spec == Init /\ [][Next]_vars

Content == vol[dirVol["cfg"]]
\* at every point, and after every crash, the path holds the complete old or the complete new content
AtomicReplace == Content \in {"old", "new"}
\* once the protocol has finished, a later power loss keeps the new content
DurableWhenDone == (pc > Len(Protocol) /\ ~crashed) => (dur[dirDur["cfg"]] = "new")
=============================================================================
