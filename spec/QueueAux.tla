------------------------------ MODULE QueueAux ------------------------------
(***************************************************************************)
(* The auxiliary logs of the store contract: the delivery-attempt log      *)
(* (Store.RecordAttempt / ListAttempts) and the backlog-trend samples      *)
(* (BacklogTrendStore.CaptureBacklogTrendSample / ListBacklogTrend).       *)
(* Both are append-only side tables: no message operation changes them,    *)
(* and they change no message - with one documented exception: on SQLite   *)
(* a capture runs the retention prune first (Queue.tla, PruneOutcomes).    *)
(*                                                                         *)
(* Attempt log: sequence of records                                        *)
(*   [id, idn, gen, ev, rt, tg, n, code, err, out, dr, at]                 *)
(* gen = the id was blank and the store made one up (then `at` identifies  *)
(* the record); idn = numeric order of an explicit id (ids are compared    *)
(* lexicographically by the stores; the drivers use ids whose numeric and  *)
(* lexicographic orders agree).                                            *)
(* Trend samples: sequence of [at, snap] where snap is the (route, target, *)
(* state) of every queued / leased / dead message at the capture.          *)
(*                                                                         *)
(* Assumptions on callers (stated in the evidence): explicit attempt ids   *)
(* are unique, blank-id attempts carry unique instants, status codes are   *)
(* >= 0, at most one capture per instant, captures are made at the store's *)
(* current time.                                                           *)
(***************************************************************************)
EXTENDS Queue

EmptyAux == [att |-> <<>>, tr |-> <<>>]

(* ---------------- attempts ---------------- *)
AttemptRec(a, now) ==
  [id   |-> IF a.blank THEN "" ELSE a.id, idn |-> a.idn, gen |-> a.blank,
   ev   |-> a.ev, rt |-> a.rt, tg |-> a.tg, n |-> a.n, code |-> a.code,
   err  |-> a.errn,                                   \* error text and dead reason are stored trimmed
   out  |-> IF a.out = "" THEN "retry" ELSE a.out,    \* no outcome = retry
   dr   |-> a.drn,
   at   |-> IF a.at = 0 THEN now ELSE a.at]           \* no instant = the store's clock

RecordAttempt(aux, a, now) == [aux EXCEPT !.att = Append(@, AttemptRec(a, now))]

AttLimit(l) == IF l <= 0 THEN 100 ELSE Min2(l, 1000)

AttMatches(rec, f) ==
  /\ f.rt = "" \/ rec.rt = f.rt
  /\ f.tg = "" \/ rec.tg = f.tg
  /\ f.ev = "" \/ rec.ev = f.ev
  /\ f.out = "" \/ rec.out = f.out
  /\ f.before = 0 \/ rec.at < f.before

\* newest first: created_at descending, ties by id descending
AttNewer(x, y) == x.at > y.at \/ (x.at = y.at /\ x.idn > y.idn)

\* index of the log record a listed item stands for (0 = none)
AttIndexOf(log, it) ==
  LET K == {k \in DOMAIN log : IF it.gen THEN log[k].gen /\ log[k].at = it.at ELSE ~log[k].gen /\ log[k].id = it.id}
  IN IF Cardinality(K) = 1 THEN CHOOSE k \in K : TRUE ELSE 0

AttItemEq(it, rec) ==
  /\ it.ev = rec.ev /\ it.rt = rec.rt /\ it.tg = rec.tg /\ it.n = rec.n /\ it.code = rec.code
  /\ it.err = rec.err /\ it.out = rec.out /\ it.dr = rec.dr /\ it.at = rec.at /\ it.gen = rec.gen

\* the listing is exactly the newest AttLimit matching records, newest first, every field as recorded
AttListingOK(log, f, items) ==
  LET cand == {k \in DOMAIN log : AttMatches(log[k], f)}
      idx  == [j \in DOMAIN items |-> AttIndexOf(log, items[j])]
      got  == {idx[j] : j \in DOMAIN items}
  IN /\ Len(items) = Min2(AttLimit(f.limit), Cardinality(cand))
     /\ 0 \notin got /\ Cardinality(got) = Len(items) /\ got \subseteq cand
     /\ \A j \in DOMAIN items : AttItemEq(items[j], log[idx[j]])
     /\ \A j \in DOMAIN items : j > 1 => AttNewer(log[idx[j - 1]], log[idx[j]])
     /\ \A g \in got, c \in cand \ got : AttNewer(log[g], log[c])

(* ---------------- backlog trend ---------------- *)
TrendStates == {"queued", "leased", "dead"}
Snapshot(M) == [i \in IdsIn(M, TrendStates) |-> [rt |-> M[i].rt, tg |-> M[i].tg, st |-> M[i].st]]

CaptureTrend(aux, M, t) == [aux EXCEPT !.tr = Append(@, [at |-> t, snap |-> Snapshot(M)])]

TrendLimit(l) == IF l <= 0 THEN 1000 ELSE Min2(l, 20000)

\* q: [rtn, tgn, since, until, limit] (route and target trimmed)
TrendSel(snap, q) == {i \in DOMAIN snap : (q.rtn = "" \/ snap[i].rt = q.rtn) /\ (q.tgn = "" \/ snap[i].tg = q.tgn)}
TrendGlobal(q) == q.rtn = "" /\ q.tgn = ""
InRange(t, q) == (q.since = 0 \/ t >= q.since) /\ (q.until = 0 \/ t < q.until)

\* a filtered listing has an entry only for captures that saw at least one matching message
TrendVisible(tr, q) == {k \in DOMAIN tr : InRange(tr[k].at, q) /\ (TrendGlobal(q) \/ TrendSel(tr[k].snap, q) # {})}

TrendCount(s, q, st) == Cardinality({i \in TrendSel(s.snap, q) : s.snap[i].st = st})

\* the listing: the newest TrendLimit visible samples in ascending time order; truncated says whether there were more
TrendListingOK(tr, q, items, trunc) ==
  LET vis  == TrendVisible(tr, q)
      lim  == TrendLimit(q.limit)
      n    == Min2(lim, Cardinality(vis))
      kept == {k \in vis : Cardinality({j \in vis : tr[j].at > tr[k].at}) < n}
  IN /\ Len(items) = n
     /\ trunc = (Cardinality(vis) > lim)
     /\ \A j \in DOMAIN items :
           \E k \in kept : /\ tr[k].at = items[j].at
                           /\ items[j].q = TrendCount(tr[k], q, "queued")
                           /\ items[j].l = TrendCount(tr[k], q, "leased")
                           /\ items[j].d = TrendCount(tr[k], q, "dead")
     /\ \A j \in DOMAIN items : j > 1 => items[j - 1].at < items[j].at
=============================================================================
