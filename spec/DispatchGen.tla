----------------------------- MODULE DispatchGen -----------------------------
(***************************************************************************)
(* TLC as generator of dispatcher schedules.  DispatchMC plus a history    *)
(* variable with the operations taken so far.  The inputs the harness can  *)
(* impose on the real dispatcher are                                       *)
(*   - the script of every target: the result classes of the Deliver ops   *)
(*     of that target, in order (the last one repeats afterwards),         *)
(*   - the operator requeues (Requeue ops) and where they happen,          *)
(*   - the order in which blocked deliveries are released (order of the    *)
(*     Deliver ops).                                                       *)
(* Exhaustive mode (GenDepth = 0, VIEW View): TLC visits every abstract    *)
(* state once and prints one schedule per generated Deliver / Requeue      *)
(* transition: the BFS path to the state followed by the operation - every *)
(* reachable abstract state x every result class the target may answer.    *)
(* Simulation mode (GenDepth > 0, -simulate): a schedule is printed        *)
(* whenever every message is terminal, and when the depth is reached.      *)
(* Expected outcomes are NOT exported: the executed trace is judged by     *)
(* DispatchTrace only.                                                     *)
(***************************************************************************)
EXTENDS DispatchMC, Json

CONSTANT GenDepth

VARIABLE hist
gvars == <<msgs, wk, sc, log, wire, tot, rq, now, hist>>

View == vars

GenInit == Init /\ hist = <<>>

AllTerminal == \A m \in Msgs : Terminal(msgs[m])

Emit(h, input) ==
  IF GenDepth = 0
  THEN (IF input THEN PrintT(<<"EDGE", 0, ToJson(h)>>) ELSE TRUE)
  ELSE (IF Len(h) = GenDepth \/ AllTerminal' THEN PrintT(<<"EDGE", 0, ToJson(h)>>) ELSE TRUE)

GenNext ==
  /\ (GenDepth = 0 \/ Len(hist) < GenDepth)
  /\ \/ \E w \in Workers : \E q \in DequeueChoices :
          /\ Dequeue(w, q)
          /\ hist' = Append(hist, [op |-> "Lease", w |-> w, ids |-> q])
          /\ Emit(hist', FALSE)
     \/ \E w \in Workers : \E c \in Classes :
          /\ Deliver(w, c)
          /\ hist' = Append(hist, [op |-> "Deliver", w |-> w, id |-> wk[w][NextUnsent(w)].id,
                                   tg |-> TargetOf[wk[w][NextUnsent(w)].id], cls |-> c])
          /\ Emit(hist', TRUE)
     \/ \E w \in Workers : \E d \in SettleDelays :
          /\ SettleHead(w, d)
          /\ hist' = Append(hist, [op |-> "Settle", w |-> w, id |-> wk[w][1].id, d |-> d])
          /\ Emit(hist', FALSE)
     \/ /\ Tick
        /\ hist' = Append(hist, [op |-> "Tick"])
        /\ Emit(hist', FALSE)
     \/ \E m \in Msgs :
          /\ OpRequeue(m)
          /\ hist' = Append(hist, [op |-> "Requeue", id |-> m])
          /\ Emit(hist', TRUE)

GenSpec == GenInit /\ [][GenNext]_gvars
=============================================================================
