----------------------------- MODULE FidelityMC -----------------------------
(***************************************************************************)
(* Design-level model of one message's journey through hookaido.           *)
(*  (MC)  exhaustive over all valid inputs and all bounded paths: the       *)
(*        journey never changes payload or headers, every observation      *)
(*        point sees the accepted payload token and Stored(...), sensitive *)
(*        headers are never stored or shown, oversize is never stored.     *)
(*  (GEN) FidelityGen adds a history variable and prints the operation     *)
(*        sequences (inputs only) for the Go harness.                      *)
(*                                                                         *)
(* Route kinds: a pull route (consumers: pull HTTP, worker gRPC, the       *)
(* worker server called in-process with the returned slices mutated) or a  *)
(* deliver route (push dispatcher -> HTTP deliverer -> target).            *)
(* Besides the consumers the operator acts on the message: cancel, resume, *)
(* requeue (by id and by filter), requeue from the DLQ; consumers extend   *)
(* leases and use the single and the batch form of ack / nack / dead.      *)
(***************************************************************************)
EXTENDS Fidelity

CONSTANTS
  Srcs, PCs, HCs, Bes, ModesC, Vias, Shapes,   \* input dimensions to enumerate (Shapes: publish request shapes)
  Feats,       \* values of the deliver-route features fan / sg to enumerate: {FALSE} or BOOLEAN
  Star,        \* TRUE: vary one content dimension at a time around (CentrePC, CentreHC)
  CentrePC, CentreHC,
  FreeRoute,   \* TRUE: lim / fwd of the route are free (else minimal)
  MaxDeq,      \* dequeues per journey
  MaxAtt,      \* push attempts per journey
  MaxRs,       \* restarts per journey
  MinEnd,      \* a terminal step (ack / successful delivery) needs this many dequeues / attempts first
  MaxOther,    \* steps of unrelated traffic per journey
  OKinds, OSizes,   \* how the unrelated traffic arrives / how long its bodies are relative to the message's
  UseTour      \* TRUE: follow the fixed tour (one long path through every channel) instead of all paths

VARIABLES in,     \* the input
          st,     \* "new" | "refused" | "queued" | "leased" | "dead" | "canceled" | "delivered"
          ttl,    \* lease kind of a leased message: "long" | "short" | "-"
          store,  \* what the store holds: Nothing or [pl, hd]
          obs,    \* the last observation: None or [ch, pl, hd]
          nd, na, rs, no,   \* dequeues, push attempts, restarts, steps of other traffic so far
          n,      \* steps after Submit (tour position)
          last    \* the last operation (JSON vocabulary of the harness)
vars == <<in, st, ttl, store, obs, nd, na, rs, no, n, last>>
View == <<in, st, ttl, store, nd, na, rs, no>>
ViewT == <<in, st, ttl, store, nd, na, rs, no, n>>   \* tour mode: the position in the tour is part of the state

Nothing == [pl |-> "-", hd |-> <<>>, none |-> TRUE]
None    == [ch |-> "-"]
Hold(p, h) == [pl |-> p, hd |-> h, none |-> FALSE]

NeedLim(pc, hc) == pc \in LimPCs \/ hc \in LimHCs
NeedFwd(hc)     == hc \in CopyHCs

Inputs ==
  {i \in [src : Srcs, pc : PCs, hc : HCs, be : Bes, mode : ModesC, via : Vias \cup {"api"}, lim : BOOLEAN, fwd : BOOLEAN,
          pb : Shapes \cup {"single"}, fan : Feats, sg : Feats] :
     /\ ValidInput(i)
     /\ ~FreeRoute => (i.lim = NeedLim(i.pc, i.hc) /\ i.fwd = NeedFwd(i.hc))
     /\ i.fwd => i.src = "ingress"
     /\ Star => /\ \/ /\ i.hc = CentreHC /\ i.pb = "single"
                      /\ (i.via \in {"handler", "api"} \/ i.pc \in FramePCs)
                      /\ i.src \in {"mpublish", "mcp"} => i.pc \in FramePCs \cup {CentrePC}
                   \/ /\ i.pc = CentrePC
                      /\ (i.via \in {"handler", "wire", "api"} \/ i.hc \in {"none", "hmax", "hmaxp1"})
                      /\ (i.pb = "single" \/ i.hc \in {"none", "plain"})
                      /\ i.src \in {"mpublish", "mcp"} => i.hc \in {"none", "plain", "values", "sigcol"}
                /\ (i.fan \/ i.sg) => /\ i.via \in {"handler", "api", "chunked"}
                                      /\ i.pc \in {CentrePC, "all256", "big"} /\ i.hc \in {CentreHC, "sigcol"}
                                      /\ i.pb = "single" /\ i.src \in {"ingress", "publish"}}

(* ---------------------------------------------------------------- operations *)
OpSubmit(i) == [op |-> "Submit", src |-> i.src, pc |-> i.pc, hc |-> i.hc, be |-> i.be, mode |-> i.mode, via |-> i.via,
                lim |-> i.lim, fwd |-> i.fwd, pb |-> i.pb, fan |-> i.fan, sg |-> i.sg, recv |-> Fields(i.hc),
                auth |-> IF i.fwd THEN AuthFields(i.hc) ELSE <<>>]
\* b: how the store is asked - "one" (batch 1), "alone" (batch > 1, only this message is ready), "pair" (batch > 1 and a
\* companion message of the harness is ready on the same route): three different read paths of the SQLite store
OpDeq(ch, t, b)  == [op |-> "Deq", ch |-> ch, ttl |-> t, b |-> b]
OpLease(k, ch, f) == [op |-> "LeaseOp", kind |-> k, ch |-> ch, form |-> f]   \* form: lease_id | lease_ids
OpExtend(ch)     == [op |-> "Extend", ch |-> ch]
OpExpire         == [op |-> "Expire"]
\* requeue from the DLQ by the Admin API (/dlq/requeue) or by the MCP tool dlq_requeue; outcome: first attempt after it
\* (deliver routes), "-" on pull routes
OpRequeue(o, b, by) == [op |-> "Requeue", outcome |-> o, b |-> b, by |-> by]
OpPush(o, b)     == [op |-> "Push", outcome |-> o, b |-> b]     \* the dispatcher always asks for a batch: "alone" | "pair"
OpRestart        == [op |-> "Restart"]
OpList(w)        == [op |-> "List", which |-> w]   \* messages | dlq (Admin API), mcp | mcpdlq (MCP tools messages_list / dlq_list)
OpCancel(f)      == [op |-> "Cancel", form |-> f]       \* operator: /messages/cancel | cancel_by_filter
OpResume(f)      == [op |-> "Resume", form |-> f]       \* operator: /messages/resume | resume_by_filter
OpRequeueMsg(f)  == [op |-> "RequeueMsg", form |-> f]   \* operator: /messages/requeue | requeue_by_filter (dead or canceled)
\* Traffic that has nothing to do with the message, through the same instance: a few requests to another route over
\* framing k (handler | wire | stream | chunked) or a publish batch (publish), with bodies as long as / longer than /
\* shorter than the message's and the same header names with other values.
OpOther(k, z)    == [op |-> "Other", k |-> k, sz |-> z]

\* The tour: one long path that takes the message through every channel,
\* redelivery by nack and by lease expiry, the DLQ and back, operator cancel /
\* resume / requeue in both forms, and restarts.
PullTourAll ==
  << OpList("messages"), OpOther("handler", "longer"), OpList("mcp"),
     OpDeq("http", "long", "one"),  OpOther("stream", "same"), OpLease("nack", "http", "single"),
     OpOther("wire", "shorter"),
     OpDeq("grpc", "long", "pair"),  OpRestart, OpLease("nack", "grpc", "batch"),
     OpCancel("id"), OpOther("publish", "same"), OpList("messages"), OpResume("id"),
     OpDeq("inproc", "long", "alone"), OpOther("chunked", "longer"), OpExtend("http"), OpLease("nack", "http", "batch"),
     OpDeq("http", "short", "pair"), OpExpire, OpOther("handler", "same"),
     OpCancel("filter"), OpRestart, OpRequeueMsg("filter"),
     OpDeq("grpc", "long", "one"),  OpExtend("grpc"), OpLease("dead", "grpc", "single"), OpOther("stream", "longer"), OpList("dlq"), OpList("mcpdlq"),
     OpRestart, OpRequeue("-", "-", "mcp"),
     OpDeq("inproc", "long", "pair"), OpLease("dead", "http", "batch"), OpRequeueMsg("id"), OpOther("chunked", "shorter"),
     OpDeq("http", "long", "alone"), OpCancel("id"), OpResume("filter"), OpOther("wire", "longer"),
     OpDeq("grpc", "long", "alone"), OpLease("ack", "http", "single"), OpOther("handler", "shorter"), OpList("messages") >>
PushTourAll ==
  << OpList("messages"), OpOther("handler", "longer"), OpList("mcp"),
     OpPush("retry", "alone"), OpOther("stream", "same"), OpRestart, OpCancel("id"), OpOther("publish", "longer"), OpResume("id"),
     OpPush("retry", "pair"), OpOther("wire", "shorter"), OpCancel("filter"), OpRequeueMsg("filter"),
     OpPush("fatal", "alone"), OpOther("chunked", "same"), OpList("dlq"), OpList("mcpdlq"), OpRestart,
     OpRequeue("retry", "pair", "admin"),
     OpOther("handler", "same"),
     OpPush("fatal", "alone"), OpRequeueMsg("id"),
     OpCancel("id"), OpResume("filter"), OpOther("chunked", "longer"),
     OpPush("ok", "alone"), OpOther("stream", "shorter"), OpList("messages") >>
Tour(i) ==
  SelectSeq(IF i.mode = "pull" THEN PullTourAll ELSE PushTourAll, LAMBDA o : o.op # "Restart" \/ i.be = "sqlite")

Go(o) == ~UseTour \/ (n + 1 \in DOMAIN Tour(in) /\ Tour(in)[n + 1] = o)

Init ==
  /\ in \in Inputs
  /\ st = "new" /\ ttl = "-" /\ store = Nothing /\ obs = None
  /\ nd = 0 /\ na = 0 /\ rs = 0 /\ no = 0 /\ n = 0
  /\ last = [op |-> "Init"]

Step(o) == last' = o /\ n' = (IF o.op = "Submit" THEN 0 ELSE n + 1) /\ in' = in

See(ch) == IF store.none THEN None ELSE [ch |-> ch, pl |-> store.pl, hd |-> store.hd]

\* hookaido answers 202 / 200 and stores, or answers 413 and stores nothing
Submit ==
  /\ st = "new"
  /\ IF Over(in)
     THEN st' = "refused" /\ store' = Nothing
     ELSE st' = "queued" /\ store' = Hold(in.pc, ExpectedStored(in))
  /\ obs' = None
  /\ Step(OpSubmit(in))
  /\ UNCHANGED <<ttl, nd, na, rs, no>>

Deq ==
  \E ch \in {"http", "grpc", "inproc"}, t \in {"long", "short"}, b \in {"one", "alone", "pair"} :
    /\ in.mode = "pull" /\ st = "queued" /\ nd < MaxDeq /\ Go(OpDeq(ch, t, b))
    /\ st' = "leased" /\ ttl' = t /\ nd' = nd + 1
    /\ obs' = See(ch)
    /\ Step(OpDeq(ch, t, b))
    /\ UNCHANGED <<store, na, rs, no>>

LeaseOp ==
  \E k \in {"nack", "dead", "ack"}, ch \in {"http", "grpc"}, f \in {"single", "batch"} :
    /\ st = "leased" /\ ttl = "long" /\ Go(OpLease(k, ch, f))
    /\ k = "ack" => nd >= MinEnd
    /\ st' = (CASE k = "nack" -> "queued" [] k = "dead" -> "dead" [] k = "ack" -> "delivered")
    /\ ttl' = "-" /\ obs' = None
    /\ Step(OpLease(k, ch, f))
    /\ UNCHANGED <<store, nd, na, rs, no>>

Extend ==
  \E ch \in {"http", "grpc"} :
    /\ st = "leased" /\ ttl = "long" /\ Go(OpExtend(ch))
    /\ obs' = None
    /\ Step(OpExtend(ch))
    /\ UNCHANGED <<st, ttl, store, nd, na, rs, no>>

Expire ==
  /\ st = "leased" /\ ttl = "short" /\ Go(OpExpire)
  /\ st' = "queued" /\ ttl' = "-" /\ obs' = None
  /\ Step(OpExpire)
  /\ UNCHANGED <<store, nd, na, rs, no>>

After(o) == CASE o = "ok" -> "delivered" [] o = "retry" -> "queued" [] o = "fatal" -> "dead"

Push ==
  \E o \in {"ok", "retry", "fatal"}, b \in {"alone", "pair"} :
    /\ in.mode = "push" /\ st = "queued" /\ na < MaxAtt /\ Go(OpPush(o, b))
    /\ o = "ok" => na + 1 >= MinEnd
    /\ st' = After(o) /\ na' = na + 1
    /\ obs' = See("push")
    /\ Step(OpPush(o, b))
    /\ UNCHANGED <<ttl, store, nd, rs, no>>

\* operator requeue from the DLQ; on a deliver route the next attempt follows at once
Requeue ==
  \/ \E by \in {"admin", "mcp"} :
       /\ in.mode = "pull" /\ st = "dead" /\ Go(OpRequeue("-", "-", by))
       /\ st' = "queued" /\ obs' = None
       /\ Step(OpRequeue("-", "-", by))
       /\ UNCHANGED <<ttl, store, nd, na, rs, no>>
  \/ \E o \in {"ok", "retry", "fatal"}, b \in {"alone", "pair"}, by \in {"admin", "mcp"} :
       /\ in.mode = "push" /\ st = "dead" /\ na < MaxAtt /\ Go(OpRequeue(o, b, by))
       /\ st' = After(o) /\ na' = na + 1
       /\ obs' = See("push")
       /\ Step(OpRequeue(o, b, by))
       /\ UNCHANGED <<ttl, store, nd, rs, no>>

\* operator: cancel a queued, leased or dead message (a lease is dropped), by id or by filter
Cancel ==
  \E f \in {"id", "filter"} :
    /\ (st \in {"queued", "dead"} \/ (st = "leased" /\ ttl = "long")) /\ Go(OpCancel(f))
    /\ st' = "canceled" /\ ttl' = "-" /\ obs' = None
    /\ Step(OpCancel(f))
    /\ UNCHANGED <<store, nd, na, rs, no>>

\* operator: a canceled message becomes deliverable again
Resume ==
  \E f \in {"id", "filter"} :
    /\ st = "canceled" /\ Go(OpResume(f))
    /\ st' = "queued" /\ obs' = None
    /\ Step(OpResume(f))
    /\ UNCHANGED <<ttl, store, nd, na, rs, no>>

\* operator: /messages/requeue takes dead and canceled messages
RequeueMsg ==
  \E f \in {"id", "filter"} :
    /\ st \in {"dead", "canceled"} /\ Go(OpRequeueMsg(f))
    /\ st' = "queued" /\ obs' = None
    /\ Step(OpRequeueMsg(f))
    /\ UNCHANGED <<ttl, store, nd, na, rs, no>>

\* stop the instance, open the same database again (SQLite); a valid long lease survives
Restart ==
  /\ in.be = "sqlite" /\ st # "new" /\ rs < MaxRs /\ ~(st = "leased" /\ ttl = "short") /\ Go(OpRestart)
  /\ rs' = rs + 1 /\ obs' = None
  /\ Step(OpRestart)
  /\ UNCHANGED <<st, ttl, store, nd, na, no>>

\* admin listing with include_payload / include_headers
List ==
  \E w \in {"messages", "dlq", "mcp", "mcpdlq"} :
    /\ st # "new" /\ (w \in {"dlq", "mcpdlq"} => st = "dead") /\ Go(OpList(w))
    /\ obs' = See(w)
    /\ Step(OpList(w))
    /\ UNCHANGED <<st, ttl, store, nd, na, rs, no>>

\* unrelated traffic on the same instance: whatever it is, the message is untouched
Other ==
  \E k \in OKinds, z \in OSizes :
    /\ st \in {"queued", "leased", "dead", "canceled", "delivered"} /\ no < MaxOther /\ Go(OpOther(k, z))
    /\ no' = no + 1 /\ obs' = None
    /\ Step(OpOther(k, z))
    /\ UNCHANGED <<st, ttl, store, nd, na, rs>>

Next == Other \/ Submit \/ Deq \/ LeaseOp \/ Extend \/ Expire \/ Push \/ Requeue \/ Cancel \/ Resume \/ RequeueMsg \/ Restart \/ List

Spec == Init /\ [][Next]_vars

(* ---------------------------------------------------------------- properties *)
TypeOK ==
  /\ st \in {"new", "refused", "queued", "leased", "dead", "canceled", "delivered"}
  /\ ttl \in {"long", "short", "-"}
  /\ (st = "leased") = (ttl # "-")
  /\ nd \in 0..MaxDeq /\ na \in 0..MaxAtt /\ rs \in 0..MaxRs /\ no \in 0..MaxOther

\* payload and headers never change along any path once the message is stored
Immutable == [][~store.none => store' = store]_vars

\* whatever any channel shows is the accepted payload and Stored(...) of the input
ObsFaithful ==
  obs # None => /\ obs.pl = in.pc
                /\ obs.hd = ExpectedStored(in)

\* Authorization / Proxy-Authorization / Cookie received at ingress are never stored or shown
\* (none of the generated classes configures one of them as a copy_headers name)
SensitiveNeverStored ==
  in.src = "ingress" =>
    /\ ~store.none => (DOMAIN store.hd) \cap Sensitive = {}
    /\ obs # None => (DOMAIN obs.hd) \cap Sensitive = {}

\* their values are not smuggled in under another name either
SecretTokens == {"s1", "s2", "s3", "s4"}
NoSecretValue ==
  in.src = "ingress" /\ ~store.none => \A k \in DOMAIN store.hd : SeqRange(store.hd[k]) \cap SecretTokens = {}

OversizeNeverStored == Over(in) => store.none /\ st \in {"new", "refused"}

\* every other received name survives, with all its values in order
OthersKept ==
  in.src = "ingress" /\ ~store.none =>
    \A k \in NameIds(Fields(in.hc)) \ (Sensitive \cup CopyNames) :
       k \in DOMAIN store.hd /\ store.hd[k] = ValuesOf(Fields(in.hc), k)

\* a copied header wins over a received one of the same name; absent from the auth response, the received one stays
CopyWins ==
  in.src = "ingress" /\ in.fwd /\ ~store.none =>
    \A k \in CopyNames :
       IF k \in NameIds(AuthFields(in.hc)) THEN k \in DOMAIN store.hd /\ store.hd[k] = ValuesOf(AuthFields(in.hc), k)
       ELSE (k \in DOMAIN store.hd) = (k \in NameIds(Fields(in.hc)))

\* nothing that was not sent is stored
NothingInvented ==
  ~store.none => DOMAIN store.hd \subseteq NameIds(Fields(in.hc)) \cup (IF in.fwd THEN CopyNames \cap NameIds(AuthFields(in.hc)) ELSE {})
=============================================================================
