------------------------------ MODULE QueueMC ------------------------------
(***************************************************************************)
(* Design-level model of the message store: a generative Next over the     *)
(* outcome operators of Queue.tla with small constants.  Used                *)
(*  (MC)  exhaustively, to show that the contract itself satisfies the      *)
(*        listed properties (C02-C05, C12, C14) written as invariants and   *)
(*        action properties that do NOT refer to the outcome operators;     *)
(*  (GEN) by QueueGen, to enumerate operation schedules for the real code.  *)
(***************************************************************************)
EXTENDS Queue

CONSTANTS
  Ids,        \* message ids, e.g. {"m1","m2","m3"}
  Cfg,        \* configuration record (Queue.tla, C)
  Horizon,    \* clock bound
  MaxEp,      \* leases per message id
  MaxIns,     \* total inserts
  Family,     \* set of enabled action families: "lease","leasebatch","deqvar","operator","filter","admission","read","restart"
  PickRule,   \* "any" | "insertion" | "nextrun"
  Ticks,      \* clock steps
  Delays,     \* enqueue / nack delays (0 = none)
  TTLs        \* lease TTLs

VARIABLES S, now, ep, last
vars == <<S, now, ep, last>>

T0 == 1000
RouteOf(i)  == IF i = "m3" THEN "/r2" ELSE "/r1"
TargetOf(i) == IF i = "m2" THEN "t2" ELSE "t1"
LeaseId(m, e) == m \o "#" \o ToString(e)
\* ids are "m1" < "m2" < "m3": rank = trailing digit (ids are constants of the cfg)
Rk == [i \in Ids |-> IF i = "m1" THEN 1 ELSE IF i = "m2" THEN 2 ELSE 3]

EnvOf(i, nextAt) == [id |-> i, rt |-> RouteOf(i), tg |-> TargetOf(i), recv |-> 0, next |-> nextAt, att |-> 0,
                     pl |-> "p" \o i, hd |-> "", tr |-> ""]
\* the same envelope as the Go harness wants it (payload token instead of digest)
EnvJson(i, nextAt) == [id |-> i, rt |-> RouteOf(i), tg |-> TargetOf(i), recv |-> 0, next |-> nextAt, att |-> 0,
                       pl |-> "p" \o i, hd |-> "", tr |-> ""]

NoLast == [cls |-> "init", newIds |-> {}, err |-> "", lids |-> {}, sel |-> {}, n |-> 0, batch |-> 0, rt |-> "", tg |-> "", got |-> {}, op |-> [op |-> "Init"]]

Init == /\ S = [msgs |-> <<>>, ord |-> <<>>, oc |-> 0, lp |-> 0, ls |-> 0]
        /\ now = T0
        /\ ep = [i \in Ids |-> 0]
        /\ last = NoLast

On(f) == f \in Family

(* ---------------------------------------------------------------- enqueue *)
DoEnqueue(envs, single, opj) ==
  /\ S.oc + Len(envs) <= MaxIns
  /\ \E o \in EnqueueOutcomes(Cfg, S, envs, now, single) :
        /\ S' = o.S
        /\ last' = [NoLast EXCEPT !.cls = "enqueue", !.err = o.err,
                                  !.newIds = IF o.err = "" THEN {envs[k].id : k \in DOMAIN envs} ELSE {},
                                  !.sel = o.victims \cup o.pruned, !.n = Len(envs), !.op = opj]
  /\ UNCHANGED <<now, ep>>

Enq ==
  \E i \in Ids, d \in Delays :
    LET nx == IF d = 0 THEN 0 ELSE now + d
    IN DoEnqueue(<<EnvOf(i, nx)>>, TRUE, [op |-> "Enqueue", env |-> EnvJson(i, nx)])

BatchSeqs == {<<a, b>> : a, b \in Ids} \cup {<<a>> : a \in Ids}
EnqBatch ==
  /\ On("admission")
  /\ \E q \in BatchSeqs :
       DoEnqueue([k \in DOMAIN q |-> EnvOf(q[k], 0)], FALSE,
                 [op |-> "EnqueueBatch", envs |-> [k \in DOMAIN q |-> EnvJson(q[k], 0)]])

(* ---------------------------------------------------------------- dequeue *)
Picks(p, rt, tg, b) ==
  LET rdy == Ready(p.msgs, rt, tg, now)
      k   == Min2(EffBatch(b), Cardinality(rdy))
  IN CASE PickRule = "any" -> kSubset(k, rdy)
       [] PickRule = "insertion" -> OldestSets(rdy, [i \in rdy |-> S.ord[i]], k)
       [] PickRule = "nextrun" ->
            \* next_run_at, received_at, then insertion (rowid) order
            \* (the key is the lexicographic rank: a numeric encoding of the triple overflows TLC's 32-bit integers)
            LET less(j, i) == \/ p.msgs[j].next < p.msgs[i].next
                              \/ p.msgs[j].next = p.msgs[i].next /\ p.msgs[j].recv < p.msgs[i].recv
                              \/ p.msgs[j].next = p.msgs[i].next /\ p.msgs[j].recv = p.msgs[i].recv /\ S.ord[j] < S.ord[i]
            IN OldestSets(rdy, [i \in rdy |-> Cardinality({j \in rdy : less(j, i)})], k)

Deq ==
  \E rt \in {"", "/r1"}, tg \in {"", "t1"}, b \in {1, 2}, ttl \in TTLs :
    /\ (tg = "" \/ rt # "")
    /\ (On("deqvar") \/ (rt = "" /\ tg = "" /\ b = 2 /\ ttl = CHOOSE x \in TTLs : \A y \in TTLs : x <= y))
    /\ \E p \in DeqPre(Cfg, S, now) :
         \E got \in Picks(p, rt, tg, b) :
           /\ \A i \in got : ep[i] < MaxEp
           /\ LET leaseOf == [i \in got |-> LeaseId(i, ep[i] + 1)]
              IN /\ S' = DeqApply(S, p, got, leaseOf, now, ttl)
                 /\ ep' = [i \in Ids |-> IF i \in got THEN ep[i] + 1 ELSE ep[i]]
                 /\ last' = [NoLast EXCEPT !.cls = "dequeue", !.batch = b, !.rt = rt, !.tg = tg, !.got = got,
                                           !.sel = p.gone,
                                           !.op = [op |-> "Dequeue", rt |-> rt, tg |-> tg, batch |-> b, ttl |-> ttl]]
    /\ UNCHANGED now

(* -------------------------------------------------------------- lease ops *)
\* symbolic lease references: epoch e of message m (issued or not), unknown, blank
LeaseRefs == {[msg |-> m, epoch |-> e] : m \in Ids, e \in 1..MaxEp}
BlankRef  == [msg |-> "", epoch |-> 0]
RefId(r)  == IF r.epoch <= ep[r.msg] THEN LeaseId(r.msg, r.epoch) ELSE "none-" \o LeaseId(r.msg, r.epoch)

LeaseArgs(kind) == CASE kind = "nack" -> Delays [] kind = "extend" -> {0, 10} [] OTHER -> {0}

LeaseSingle ==
  /\ On("lease")
  /\ \E kind \in {"ack", "nack", "extend", "dead"}, r \in {x \in LeaseRefs : x.epoch <= ep[x.msg] + 1} :
       \E a \in LeaseArgs(kind) :
         LET arg == IF kind = "dead" THEN "no_retry" ELSE a
             res == LeaseOp(Cfg, S.msgs, kind, RefId(r), arg, now)
             opj == IF kind = "dead"
                    THEN [op |-> "LeaseOp", kind |-> kind, lease |-> r, reason |-> "no_retry"]
                    ELSE [op |-> "LeaseOp", kind |-> kind, lease |-> r, arg |-> a]
         IN /\ \A i \in DOMAIN res.msgs : res.msgs[i].until <= T0 + Horizon + 40   \* bound repeated extends
            /\ S' = [S EXCEPT !.msgs = res.msgs, !.ord = Keep(S.ord, DOMAIN res.msgs)]
            /\ last' = [NoLast EXCEPT !.cls = "lease", !.err = res.err, !.lids = {RefId(r)}, !.op = opj]
  /\ UNCHANGED <<now, ep>>

LeaseSingleLit ==
  /\ On("lease")
  /\ \E kind \in {"ack", "nack"}, lit \in {"", "unknown"} :
       LET res == LeaseOp(Cfg, S.msgs, kind, lit, 0, now)
       IN /\ S' = [S EXCEPT !.msgs = res.msgs]
          /\ last' = [NoLast EXCEPT !.cls = "lease", !.err = res.err, !.lids = {lit},
                                    !.op = [op |-> "LeaseOp", kind |-> kind, lease |-> [islit |-> TRUE, lit |-> lit], arg |-> 0]]
  /\ UNCHANGED <<now, ep>>

\* batch of two references, possibly the same one twice, possibly blank
LeaseBatchAct ==
  /\ On("leasebatch")
  /\ \E kind \in {"ack", "nack", "dead"}, r1 \in LeaseRefs, r2 \in {x \in LeaseRefs : x.epoch = ep[x.msg]} \cup {BlankRef} :
       LET id2  == IF r2 = BlankRef THEN "" ELSE RefId(r2)
           j2   == IF r2 = BlankRef THEN [islit |-> TRUE, lit |-> ""] ELSE r2
           arg  == IF kind = "dead" THEN "max_retries" ELSE 0
           res  == LeaseBatch(Cfg, S.msgs, kind, <<RefId(r1), id2>>, arg, now)
           opj  == IF kind = "dead"
                   THEN [op |-> "LeaseBatch", kind |-> kind, leases |-> <<r1, j2>>, reason |-> "max_retries"]
                   ELSE [op |-> "LeaseBatch", kind |-> kind, leases |-> <<r1, j2>>, arg |-> 0]
       IN /\ r1.epoch <= ep[r1.msg]    \* at least one issued lease, else the batch is trivial
          /\ S' = [S EXCEPT !.msgs = res.msgs, !.ord = Keep(S.ord, DOMAIN res.msgs)]
          /\ last' = [NoLast EXCEPT !.cls = "lease", !.lids = {RefId(r1), id2} \ {""}, !.n = res.ok, !.op = opj]
  /\ UNCHANGED <<now, ep>>

(* --------------------------------------------------------- operator ops *)
IdSets == {{i} : i \in Ids} \cup {Ids}
SetSeq(X) == CHOOSE q \in [1..Cardinality(X) -> X] : {q[k] : k \in DOMAIN q} = X

MutIds ==
  /\ On("operator")
  /\ \E op \in {"cancel", "requeue", "resume", "requeuedead", "deletedead"}, X \in IdSets :
       LET res == MutateIds(S.msgs, op, X, now)
       IN /\ S' = [S EXCEPT !.msgs = res.msgs, !.ord = Keep(S.ord, DOMAIN res.msgs)]
          /\ last' = [NoLast EXCEPT !.cls = op, !.sel = X, !.n = res.n,
                                    !.op = [op |-> "MutateIds", mop |-> op, ids |-> SetSeq(X)]]
  /\ UNCHANGED <<now, ep>>

Filters == {[rt |-> rt, tg |-> "", st |-> st, before |-> bf, limit |-> lim] :
              rt \in {"", "/r1"}, st \in {"", "dead", "queued"}, bf \in {0}, lim \in {0, 1}}
           \cup {[rt |-> "", tg |-> "t1", st |-> "", before |-> now, limit |-> 1]}

MutFilter ==
  /\ On("filter")
  /\ \E op \in {"cancel", "requeue", "resume"}, f \in Filters, pv \in BOOLEAN :
       LET sel == Select(S.msgs, Rk, op, f)
           res == MutateIds(S.msgs, op, sel, now)
       IN /\ S' = IF pv THEN S ELSE [S EXCEPT !.msgs = res.msgs]
          /\ last' = [NoLast EXCEPT !.cls = op, !.sel = IF pv THEN {} ELSE sel, !.n = IF pv THEN 0 ELSE res.n,
                                    !.op = [op |-> "MutateFilter", mop |-> op, f |-> f, preview |-> pv]]
  /\ UNCHANGED <<now, ep>>

(* ------------------------------------------------------------------ reads *)
Read ==
  /\ On("read")
  /\ \E which \in {"Stats", "ListMessages", "ListDead"} :
       \E p \in PruneOutcomes(Cfg, S.msgs, S.lp, now) :
         /\ S' = [S EXCEPT !.msgs = p.msgs, !.lp = p.lp, !.ord = Keep(S.ord, DOMAIN p.msgs)]
         /\ last' = [NoLast EXCEPT !.cls = "read", !.sel = p.gone, !.op = [op |-> which]]
  /\ UNCHANGED <<now, ep>>

(* ---------------------------------------------------------------- restart *)
\* the process that owns the queue is restarted on the same database: every message - and every lease that has
\* not run out - is as it was; only the volatile throttles (last prune, last sweep) start afresh
Reopen ==
  /\ On("restart")
  /\ S' = [S EXCEPT !.lp = 0, !.ls = 0]
  /\ last' = [NoLast EXCEPT !.cls = "read", !.op = [op |-> "Reopen"]]
  /\ UNCHANGED <<now, ep>>

(* ------------------------------------------------------------------ clock *)
Tick ==
  \E d \in Ticks :
    /\ now + d <= T0 + Horizon
    /\ now' = now + d
    /\ last' = [NoLast EXCEPT !.cls = "tick", !.op = [op |-> "Tick", d |-> d]]
    /\ UNCHANGED <<S, ep>>

Next == Enq \/ EnqBatch \/ Deq \/ LeaseSingle \/ LeaseSingleLit \/ LeaseBatchAct \/ MutIds \/ MutFilter \/ Read \/ Reopen \/ Tick

Spec == Init /\ [][Next]_vars

View == <<S, now, ep>>

(***************************************************************************)
(* Properties.  None of them mentions an outcome operator: they restate    *)
(* the listed properties over (state, state') and the description of the   *)
(* step in last'.                                                          *)
(***************************************************************************)
TypeOK ==
  /\ DOMAIN S.msgs \subseteq Ids
  /\ DOMAIN S.ord = DOMAIN S.msgs
  /\ StoreOK(S.msgs)

\* C02: conservation, legal transitions, immutability, no revival
Conservation == [][StepLegal(last'.cls, S.msgs, S'.msgs, last'.newIds, now')]_vars

\* C02 / C12: a refused call changes nothing beyond the sanctioned prune and
\* the release of an expired lease it named
FailureIsNoop ==
  [][last'.err # "" =>
       \/ /\ last'.cls = "enqueue"
          /\ \A i \in DOMAIN S'.msgs : i \in DOMAIN S.msgs /\ S'.msgs[i] = S.msgs[i]
          /\ \A i \in DOMAIN S.msgs \ DOMAIN S'.msgs : S.msgs[i].st \in {"queued", "dead", "delivered"} /\ i \in last'.sel
          /\ last'.newIds = {}
       \/ /\ last'.cls = "lease"
          /\ DOMAIN S'.msgs = DOMAIN S.msgs
          /\ \A i \in DOMAIN S.msgs :
                \/ S'.msgs[i] = S.msgs[i]
                \/ /\ S.msgs[i].lease \in last'.lids /\ Expired(S.msgs[i], now)
                   /\ S'.msgs[i] = Requeued(S.msgs[i], now)]_vars

\* C03: a message is leased anew only if it was queued, or its lease had expired
LeaseExclusive ==
  [][\A i \in DOMAIN S'.msgs :
        (S'.msgs[i].st = "leased" /\ (i \notin DOMAIN S.msgs \/ S'.msgs[i].lease # S.msgs[i].lease)) =>
          /\ last'.cls = "dequeue" /\ i \in last'.got /\ i \in DOMAIN S.msgs
          /\ S.msgs[i].st = "queued" \/ Expired(S.msgs[i], now)
          /\ S.msgs[i].st \notin {"canceled", "dead", "delivered"}
          /\ S'.msgs[i].att = S.msgs[i].att + 1
          /\ \A j \in DOMAIN S.msgs : S.msgs[j].lease # S'.msgs[i].lease]_vars

\* C04: a lease call touches only messages whose CURRENT lease was presented;
\* an unexpired current lease is required for any effect other than the requeue
LeaseFence ==
  [][last'.cls = "lease" =>
       /\ \A i \in DOMAIN S.msgs :
            (i \notin DOMAIN S'.msgs \/ S'.msgs[i] # S.msgs[i]) =>
               /\ S.msgs[i].st = "leased" /\ S.msgs[i].lease \in last'.lids
               /\ Expired(S.msgs[i], now) => (i \in DOMAIN S'.msgs /\ S'.msgs[i] = Requeued(S.msgs[i], now))
       /\ DOMAIN S'.msgs \subseteq DOMAIN S.msgs]_vars

\* C05: never early, never starved
NotBefore ==
  [][last'.cls = "dequeue" =>
       \A i \in last'.got : S.msgs[i].next <= now \/ Expired(S.msgs[i], now)]_vars
NoStarvation ==
  [][last'.cls = "dequeue" /\ Cardinality(last'.got) < EffBatch(last'.batch) =>
       /\ Ready(S'.msgs, last'.rt, last'.tg, now) = {}
       /\ \A i \in DOMAIN S'.msgs :
            (S'.msgs[i].st = "leased" /\ (last'.rt = "" \/ S'.msgs[i].rt = last'.rt) /\ (last'.tg = "" \/ S'.msgs[i].tg = last'.tg))
              => S'.msgs[i].until > now - Cfg.sweepGran]_vars

\* C12: depth bound, eviction only of queued messages and only for a stored message
DepthBound ==
  [][last'.cls = "enqueue" /\ Cfg.maxDepth > 0 =>
       /\ Active(S'.msgs) <= Max2(Cfg.maxDepth, Active(S.msgs))
       /\ last'.err = "" /\ Active(S.msgs) < Cfg.maxDepth =>
            \A i \in DOMAIN S.msgs \ DOMAIN S'.msgs : i \in last'.sel]_vars
DropRule ==
  [][last'.cls = "enqueue" =>
       \A i \in DOMAIN S.msgs \ DOMAIN S'.msgs :
          /\ S.msgs[i].st # "leased" /\ S.msgs[i].st # "canceled"
          /\ (last'.err # "" \/ Cfg.drop # "drop_oldest") => S.msgs[i].st \in {"queued", "dead", "delivered"}]_vars

\* C14: operator mutations change exactly the selected messages in allowed states
OperatorExact ==
  [][last'.cls \in {"cancel", "requeue", "resume", "requeuedead", "deletedead"} =>
       LET changed == {i \in DOMAIN S.msgs : i \notin DOMAIN S'.msgs \/ S'.msgs[i] # S.msgs[i]}
       IN /\ changed \subseteq last'.sel
          /\ \A i \in changed : S.msgs[i].st \in AllowedFrom(last'.cls)
          /\ Cardinality(changed) = last'.n
          /\ \A i \in changed : i \in DOMAIN S'.msgs => S'.msgs[i].lease = "" /\ S'.msgs[i].st = TargetState(last'.cls)]_vars
=============================================================================
