---------------------------- MODULE OperApiMC ----------------------------
(***************************************************************************)
(* Design-level check of the API layer (OperApi.tla) over the complete     *)
(* table of abstract request shapes: whatever the layer passes lies inside *)
(* the contract the operator rule of Queue.tla is stated for, and every    *)
(* refusal reason is reachable (non-vacuity of the layer itself).          *)
(***************************************************************************)
EXTENDS OperApi, TLC

VARIABLE r
Limits == {-1, 0, 1, 100, 1000, 1001, 5000}
IdLists == {<<>>, <<"a">>, <<"a", "a">>, <<"a", "">>, <<"">>, [k \in 1..1000 |-> "a"], [k \in 1..1001 |-> "a"]}
StatesX == {"", "queued", "leased", "dead", "canceled", "delivered"}
Ops == [cancel |-> {"queued", "leased", "dead"}, requeue |-> {"dead", "canceled"}, resume |-> {"canceled"}]
\* the id list matters for by-id requests only, limit / state / route / form for the others
Rows == [surface : ApiSurfaces, kind : {"ids"}, form : {"global"}, audit : BOOLEAN, absent : {TRUE},
         lim : {0}, tids : IdLists, st : {""}, op : DOMAIN Ops, rt : {""}, managed : {{}, {"/r1"}}]
        \cup
        [surface : ApiSurfaces, kind : ApiKinds \ {"ids"}, form : {"global", "selector", "path"}, audit : BOOLEAN, absent : BOOLEAN,
         lim : Limits, tids : {<<>>}, st : StatesX, op : DOMAIN Ops, rt : {"", "/r1", "/r3"}, managed : {{}, {"/r1"}}]

Init == r \in Rows
Next == UNCHANGED r
Spec == Init /\ [][Next]_r

Ref(x) == Refuses(x.surface, x.kind, x.form, x.audit, x.absent, x.lim, x.tids, x.st, Ops[x.op], x.rt, x.managed)
DesignOK == /\ PassOK(r.surface, r.kind, r.form, r.audit, r.absent, r.lim, r.tids, r.st, Ops[r.op], r.rt, r.managed)
            /\ MustInMay(r.surface, r.kind, r.form, r.audit, r.absent, r.lim, r.tids, r.st, Ops[r.op], r.rt, r.managed)
\* the same limit is never refused on one spelling and meant differently on another: a passed limit means min(limit', 1000)
LimitMeaning == (~Ref(r) /\ r.kind # "ids" /\ ~r.absent /\ r.lim > 0) => WireLimit(r.absent, r.lim) = (IF r.lim > 1000 THEN 1000 ELSE r.lim)
=============================================================================
