------------------------------ MODULE OperApi ------------------------------
(***************************************************************************)
(* The API layer in front of the operator operations of Queue.tla (C14):   *)
(* what the Admin HTTP API and the MCP tools do with a request BEFORE the  *)
(* store sees it.  The layer is thin: it either refuses the request        *)
(* (nothing may change) or passes it on, and then the operator rule of     *)
(* Queue.tla (MutateIds, Select, FilterCand, IsTopK, ListedSet) applies    *)
(* unchanged to the abstract arguments.  Sources: docs/admin-api.md        *)
(* (audit reason required, managed ownership enforcement, endpoint-scoped  *)
(* paths), docs/mcp.md (`reason` required, managed selectors, "hard-capped *)
(* at limit <= 1000") and the property statement ("at most limit (default  *)
(* 100, max 1000)").  How each surface treats a limit that is spelled 0,   *)
(* negative or above the maximum is not documented; the three rules of     *)
(* LimitRefuses record what the pinned tree does (refuse or default / cap) *)
(* - either answer satisfies C14 as long as a refusal changes nothing and  *)
(* a passed request runs with WireLimit.                                   *)
(*                                                                         *)
(* A request on the wire is described by                                   *)
(*   surface     "admin-http-global" | "admin-http-selector" |             *)
(*               "admin-http-scoped" | "mcp-proxy-global" |                *)
(*               "mcp-proxy-scoped" | "mcp-direct" (the tool opens the     *)
(*               SQLite file itself; same argument rules as the proxy      *)
(*               tools, the managed-route rule from the configuration)     *)
(*   kind        "ids" (by-id mutation) | "filter" (by-filter mutation) |  *)
(*               "list" (messages listing) | "dlq" (dead-letter listing)   *)
(*   form        "global" (route selector or none) | "selector"            *)
(*               (application + endpoint_name next to the filter) | "path" *)
(*               (endpoint-scoped resource)                                *)
(*   audit       the audit reason was supplied                             *)
(*   limitAbsent / limitWire   the limit as spelled                        *)
(*   tids        the id list as sent, trimmed, repetitions kept            *)
(*   managed     the routes that carry management labels                   *)
(***************************************************************************)
EXTENDS Integers, Sequences, FiniteSets

ApiMaxIds   == 1000
ApiMaxLimit == 1000
ApiDefLimit == 100

IsMcpSurface(s)  == s \in {"mcp-proxy-global", "mcp-proxy-scoped", "mcp-direct"}
IsHttpSurface(s) == s \in {"admin-http-global", "admin-http-selector", "admin-http-scoped"}
ApiSurfaces == {"admin-http-global", "admin-http-selector", "admin-http-scoped", "mcp-proxy-global", "mcp-proxy-scoped", "mcp-direct"}
ApiKinds    == {"ids", "filter", "list", "dlq"}

\* Mutations need an audit reason (header X-Hookaido-Audit-Reason / argument `reason`).
AuditRefuses(kind, audit) == kind \in {"ids", "filter"} /\ ~audit

\* Id lists: 1..1000 entries as sent, none blank; repetitions are folded.
IdsRefuse(tids) == Len(tids) = 0 \/ Len(tids) > ApiMaxIds \/ \E k \in DOMAIN tids : tids[k] = ""

\* Limits.  An omitted limit is the default everywhere.  Spelled out:
\*   Admin API POST bodies (by-filter): 0 = default, negative refused, above the maximum capped;
\*   Admin API GET queries (listings):  must be positive, above the maximum capped;
\*   MCP tools:                         must lie in 1..1000.
LimitRefuses(surface, kind, absent, lim) ==
  /\ kind # "ids" /\ ~absent
  /\ IF IsMcpSurface(surface) THEN lim <= 0 \/ lim > ApiMaxLimit
     ELSE IF kind = "filter" THEN lim < 0
     ELSE lim <= 0

\* the limit the store operation runs with when the request passes (the store rule itself reads "<= 0" as the default)
WireLimit(absent, lim) == IF absent \/ lim <= 0 THEN ApiDefLimit ELSE IF lim > ApiMaxLimit THEN ApiMaxLimit ELSE lim

\* A by-filter mutation names a state only among those the operation is defined for.
StateRefuses(kind, st, allowed) == kind = "filter" /\ st # "" /\ st \notin allowed

\* Managed routes are mutated by filter only through their application / endpoint selector: a global form is
\* refused when it names a managed route, or names no route while managed routes exist.
SelectorRefuses(kind, form, rt, managed) ==
  kind = "filter" /\ form = "global" /\ ((rt = "" /\ managed # {}) \/ rt \in managed)

\* Scoped managed operations can be restricted to listed actors (defaults.publish_policy actor_allow / actor_prefix):
\* with an actor the policy does not admit, a by-filter mutation in a scoped form must be refused; a by-id mutation is
\* refused when it touches a message of a managed route in a state the operation is defined for - which the layer may
\* decide (the rule below lets it refuse any by-id mutation while managed routes exist, and never demands it).
ActorMustRefuse(kind, form, actorOK) == kind = "filter" /\ form # "global" /\ ~actorOK
ActorMayRefuse(kind, form, actorOK, managed) ==
  ~actorOK /\ managed # {} /\ (kind = "ids" \/ (kind = "filter" /\ form # "global"))

\* What the layer MAY refuse: every request-validation case above.
Refuses(surface, kind, form, audit, absent, lim, tids, st, allowed, rt, managed) ==
  \/ AuditRefuses(kind, audit)
  \/ (kind = "ids" /\ IdsRefuse(tids))
  \/ LimitRefuses(surface, kind, absent, lim)
  \/ StateRefuses(kind, st, allowed)
  \/ SelectorRefuses(kind, form, rt, managed)

\* What the layer MUST refuse: only what the documentation promises (audit reason required; managed ownership
\* enforcement).  For the id-list shape, the limit spelling and a state outside the operation's set, passing the
\* request on is just as good for C14, because the operator rule of Queue.tla is total on such arguments (blank ids
\* name nothing, a limit <= 0 is the default and one above the maximum is the maximum, a state outside the set selects
\* nothing) and the trace specification then holds the answer and the post-state to that rule.
MustRefuse(kind, form, audit, rt, managed) ==
  AuditRefuses(kind, audit) \/ SelectorRefuses(kind, form, rt, managed)

(***************************************************************************)
(* Design check (OperApiMC): whatever passes the layer is inside the       *)
(* store contract the operator rule is stated for - a limit in 1..1000, a  *)
(* state the operation is defined for (or none), an id list of 1..1000     *)
(* non-blank entries - and a scoped form is never refused for its          *)
(* selector; what must be refused may be refused.                          *)
(***************************************************************************)
PassOK(surface, kind, form, audit, absent, lim, tids, st, allowed, rt, managed) ==
  ~Refuses(surface, kind, form, audit, absent, lim, tids, st, allowed, rt, managed) =>
     /\ (kind # "ids" => WireLimit(absent, lim) \in 1..ApiMaxLimit)
     /\ (kind = "filter" => st = "" \/ st \in allowed)
     /\ (kind = "ids" => Len(tids) \in 1..ApiMaxIds /\ \A k \in DOMAIN tids : tids[k] # "")
     /\ (kind \in {"ids", "filter"} => audit)
MustInMay(surface, kind, form, audit, absent, lim, tids, st, allowed, rt, managed) ==
  MustRefuse(kind, form, audit, rt, managed) => Refuses(surface, kind, form, audit, absent, lim, tids, st, allowed, rt, managed)
=============================================================================
