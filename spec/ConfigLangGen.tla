---------------------------- MODULE ConfigLangGen ----------------------------
(***************************************************************************)
(* TLC as generator of abstract Hookaidofile programs (C19).               *)
(*                                                                         *)
(* A behaviour starts from a base program (route headers, optionally the   *)
(* minimal pull / deliver context that makes the routes valid) and adds    *)
(* one feature instance per step; missing ancestors are added with it.     *)
(*                                                                         *)
(* GenDepth = 0 (exhaustive): features are added in the order of the       *)
(* feature table (slot key strictly increasing), so the reachable states   *)
(* form a tree and EVERY program with at most K chosen feature instances   *)
(* from Scope x spellings x VC1 x VC2 is generated - and printed - exactly *)
(* once.  GenDepth > 0 (-simulate): features are added in any order and    *)
(* the program is printed when GenDepth features have been chosen (large   *)
(* mixed files).                                                           *)
(*                                                                         *)
(* The step relation is constructive (local guards only); the declarative  *)
(* well-formedness of ConfigLang.tla is checked as an INVARIANT of every   *)
(* generated state together with the other sanity invariants below, so a   *)
(* generator run is also a model-checking run of the feature model.        *)
(* Only inputs are printed (<<"PROG", tag, json>>; tag is the coverage     *)
(* label of ConfigLang!Tag, not an expected result).                       *)
(***************************************************************************)
EXTENDS ConfigLang, Json

CONSTANTS Scope,      \* feature ids that may be chosen
          VC1, VC2,   \* value classes that may be chosen for v / v2
          SpMode,     \* "all" | "default" spellings
          NMax,       \* max number of values of a multi-value directive
          IMax,       \* max instance number of indexed features
          K,          \* max number of chosen feature instances (exhaustive mode)
          GenDepth,   \* 0 = exhaustive; > 0 = simulation, print at this depth
          MinR, MaxR, \* number of routes
          ChForms,    \* set of <<channel, form>> a route header may take
          PqSet,      \* route path spellings
          ErrSet,     \* seeded structural errors
          Bases,      \* base contexts: "none" | "pull" | "deliver" | "auto" (by channel), with suffix "v": plus a vars block
          Orders, Cms,\* top-level order classes / comment classes
          NmScope,    \* features that may be written a second time (near-miss programs, exhaustive mode); {} = none
          NmVC        \* value classes of the extra instance

VARIABLES p,      \* the abstract program built so far
          last,   \* slot key of the last chosen feature (exhaustive mode)
          depth,  \* number of chosen features
          done,   \* simulation: program printed
          nbase,  \* number of items of the base program
          plan    \* simulation: [rt |-> number of routes to create, base |-> base context]
vars == <<p, last, depth, done, nbase, plan>>

It(r, f, i, sp, v, v2, n) == [r |-> r, f |-> f, i |-> i, sp |-> sp, v |-> v, v2 |-> v2, n |-> n]

-----------------------------------------------------------------------------
(* Base programs                                                            *)
PathOf(k) == CASE k = 1 -> "p1" [] k = 2 -> "p2" [] k = 3 -> "p3" [] OTHER -> "p4"

Headers == {[ch |-> cf[1], form |-> cf[2], pq |-> q] : cf \in ChForms, q \in PqSet}

RouteSeqs(err) ==
  LET raw == UNION {[1 .. n -> Headers] : n \in MinR .. MaxR}
      withPaths(s) == [k \in DOMAIN s |->
                         [ch |-> s[k].ch, form |-> s[k].form, pq |-> s[k].pq,
                          path |-> IF err = "dup_path" /\ k = 2 THEN "p1" ELSE PathOf(k)]]
  IN {rs \in {withPaths(s) : s \in raw} : WFRoutes(rs, err)}

PullItems(r)    == << It(r, "r.pull", 1, "block", "-", "-", 1), It(r, "r.pull.path", 1, "-", "bare", "-", 1) >>
DeliverItems(r) == << It(r, "r.deliver", 1, "block", "bare", "-", 1) >>
PullApiItems    == << It(0, "pull_api", 1, "block", "-", "-", 1), It(0, "pull_api.auth_token", 1, "rep", "bare", "-", 1) >>

WithVars == {"pullv", "deliverv", "autov"}

RouteBase(base, rs, r) ==
  CASE base = "none"                  -> << >>
    [] base \in {"pull", "pullv"}       -> PullItems(r)
    [] base \in {"deliver", "deliverv"} -> DeliverItems(r)
    [] OTHER                           -> IF rs[r].ch = "outbound" THEN DeliverItems(r) ELSE PullItems(r)

RECURSIVE BaseFrom(_, _, _)
BaseFrom(base, rs, r) == IF r > Len(rs) THEN << >> ELSE RouteBase(base, rs, r) \o BaseFrom(base, rs, r + 1)

VarsItems(base) == IF base \in WithVars THEN << It(0, "vars", 1, "block", "-", "-", 1) >> ELSE << >>

BaseItems(base, rs) ==
  LET ri == BaseFrom(base, rs, 1)
  IN VarsItems(base) \o (IF \E k \in DOMAIN ri : ri[k].f = "r.pull" THEN PullApiItems \o ri ELSE ri)

-----------------------------------------------------------------------------
(* Candidate variants of one slot                                           *)
DirectSps(f) ==
  IF SpMode = "default" THEN {FT[f].dsp}
  ELSE CASE f = "r.auth_hmac" -> {"block"}           \* the other spellings need a secret: see AutoSps
         [] f = "r.publish"   -> {"short", "block"}  \* "dot" needs a child: see AutoSps
         [] OTHER             -> FT[f].sps

\* spelling of a parent that is added together with its first child
AutoSps(par, child) ==
  IF SpMode = "default" THEN {FT[par].dsp}
  ELSE CASE par = "r.auth_hmac" /\ child \in HmacSecs -> {"inline", "inline_blk", "block", "mixed"}
         [] par = "r.publish" /\ child # "r.publish.enabled" -> {"block", "dot"}
         [] OTHER -> {FT[par].dsp}

NsFor(f, sp) == {n \in FT[f].nmin .. FT[f].nmax : n <= NMax /\ ((n = 1 /\ "line" \in FT[f].sps) => sp = "line")}
V1sFor(f, sp)     == IF UsesV(f, sp) THEN VFor(f) \cap (VC1 \cup (IF FT[f].kind = "mref" THEN {"bare"} ELSE {})) ELSE {"-"}
V2sFor(f, sp, n)  == IF UsesV2(f, sp, n) THEN V2For(f) \cap (VC2 \cup (IF FT[f].kind = "mref" THEN {"bare"} ELSE {})) ELSE {"-"}

\* computed once per feature (constant-level)
VariantsT == TLCEval([f \in Scope |->
                UNION {UNION {{[sp |-> sp, n |-> n, v |-> v, v2 |-> v2] : v \in V1sFor(f, sp), v2 \in V2sFor(f, sp, n)}
                              : n \in NsFor(f, sp)} : sp \in DirectSps(f)}])

Key(r, f, i) == r * 100000 + FPos[f] * 10 + i

-----------------------------------------------------------------------------
(* Adding one feature instance (with its missing ancestors)                 *)
Items(q) == SeqRange(q.items)

\* chain of missing ancestors of (r, f, i), nearest first; each with the set of spellings it may take
RECURSIVE Missing(_, _, _, _)
Missing(S, r, f, i) ==
  LET par == FT[f].par IN
  IF par \in Roots THEN << >>
  ELSE LET pi == IF IdxRootT[par] = "-" THEN 1 ELSE i IN
       IF HasItem(S, r, par, pi) THEN << >>
       ELSE << [f |-> par, i |-> pi, child |-> f] >> \o Missing(S, r, par, pi)

DefaultV(f, sp) == IF UsesV(f, sp) THEN "bare" ELSE "-"

\* nearest existing ancestor admits children (the missing ones are created with block spellings)
RECURSIVE AncestorsOpen(_, _, _, _)
AncestorsOpen(S, r, f, i) ==
  LET par == FT[f].par IN
  IF par \in Roots THEN TRUE
  ELSE LET pi == IF IdxRootT[par] = "-" THEN 1 ELSE i IN
       IF HasItem(S, r, par, pi)
       THEN LET pit == ItemOf(S, r, par, pi) IN
            /\ pit.sp \in FT[par].blk
            \* exhaustive mode: a container that was chosen by itself in the form it would also get when it is
            \* created together with this child stays childless (the same program is generated by that other path)
            /\ ~ (/\ GenDepth = 0
                  /\ Children(S, pit) = {}
                  /\ (CHOOSE k \in DOMAIN p.items : p.items[k] = pit) > nbase
                  /\ pit.sp \in AutoSps(par, f) /\ pit.v = DefaultV(par, pit.sp))
            /\ (par = "r.auth_hmac" /\ pit.sp = "inline") => f \in HmacSecs
            /\ (par = "r.publish" /\ pit.sp = "dot") => f # "r.publish.enabled"
       ELSE /\ (FT[par].idx /\ pi > 1) => HasItem(S, r, par, pi - 1)
            /\ AncestorsOpen(S, r, par, pi)

\* all ways of materialising the missing ancestors (a set of item sequences, outermost first)
RECURSIVE AncSeqs(_, _)
AncSeqs(r, miss) ==
  IF miss = << >> THEN {<< >>}
  ELSE LET m == Head(miss) IN
       {rest \o << It(r, m.f, m.i, sp, DefaultV(m.f, sp), "-", 1) >> :
           rest \in AncSeqs(r, Tail(miss)), sp \in AutoSps(m.f, m.child)}

Excluded(S, r, f, i) ==
  \/ (f = "r.deliver.sign_hmac" /\ HasItem(S, r, "r.deliver.sign_ref", i))
  \/ (f = "r.deliver.sign_ref" /\ HasItem(S, r, "r.deliver.sign_hmac", i))
  \/ (f = "r.publish_mix" /\ HasItem(S, r, "r.publish", 1))
  \/ (f \in {"r.publish", "r.publish.enabled", "r.publish.direct", "r.publish.managed"} /\ HasItem(S, r, "r.publish_mix", 1))

\* exhaustive mode: slots are taken in table order (Key strictly increasing)
AddStep ==
  \E r \in 0 .. Len(p.routes), f \in Scope :
    /\ (r = 0) <=> (RootOfT[f] = "top")
    /\ \E i \in 1 .. (IF IdxRootT[f] = "-" THEN 1 ELSE IMax) :
         LET S == Items(p) IN
         /\ Key(r, f, i) > last
         /\ ~HasItem(S, r, f, i)
         /\ (FT[f].idx /\ i > 1) => HasItem(S, r, f, i - 1)
         /\ ~Excluded(S, r, f, i)
         /\ AncestorsOpen(S, r, f, i)
         /\ \E x \in VariantsT[f], anc \in AncSeqs(r, Missing(S, r, f, i)) :
              /\ p' = [p EXCEPT !.items = @ \o anc \o << It(r, f, i, x.sp, x.v, x.v2, x.n) >>]
              /\ last' = Key(r, f, i)
              /\ depth' = depth + 1

\* Simulation: TLC's simulator computes ALL successors of a state before it picks one, which is hopeless with
\* thousands of candidate instances per state.  The step therefore draws the slot and the variant itself
\* (RandomElement, seeded by -seed) and has a single successor; a draw that is not addable only bumps `last`.
Addable(S, r, f, i) ==
  /\ r <= Len(p.routes) /\ (r = 0) <=> (RootOfT[f] = "top")
  /\ ~HasItem(S, r, f, i)
  /\ (FT[f].idx /\ i > 1) => HasItem(S, r, f, i - 1)
  /\ ~Excluded(S, r, f, i)
  /\ AncestorsOpen(S, r, f, i)
  /\ VariantsT[f] # {}

SimStep ==
  \E f \in {RandomElement(Scope)} :
  \E r \in {IF RootOfT[f] = "top" THEN 0 ELSE RandomElement(1 .. (IF Len(p.routes) = 0 THEN 1 ELSE Len(p.routes)))} :
  \E i \in {RandomElement(1 .. (IF IdxRootT[f] = "-" THEN 1 ELSE IMax))} :
    LET S == Items(p) IN
    IF Addable(S, r, f, i)
    THEN \E x \in {RandomElement(VariantsT[f])}, anc \in {RandomElement(AncSeqs(r, Missing(S, r, f, i)))} :
           /\ p' = [p EXCEPT !.items = @ \o anc \o << It(r, f, i, x.sp, x.v, x.v2, x.n) >>]
           /\ depth' = depth + 1
           /\ UNCHANGED last
    ELSE /\ last' = last + 1
         /\ UNCHANGED <<p, depth>>

Emit(q) == IF NonEmpty(q) THEN PrintT(<<"PROG", Tag(q), ToJson(q)>>) ELSE TRUE

\* exhaustive mode: the route headers are part of the initial state
GenInit ==
  /\ last = 0 /\ depth = 0 /\ done = FALSE
  /\ IF GenDepth = 0
     THEN /\ \E err \in ErrSet, base \in Bases, order \in Orders, cm \in Cms :
               \E rs \in RouteSeqs(err) :
                 /\ p = [cm |-> cm, order |-> order, err |-> err, routes |-> rs, items |-> BaseItems(base, rs), nm |-> << >>]
                 /\ plan = [rt |-> Len(rs), base |-> base]
          /\ nbase = Len(p.items)
          /\ Emit(p)
     ELSE \* simulation: the routes are created by the first steps of the behaviour (too many shapes to enumerate)
          /\ \E err \in ErrSet, order \in Orders, cm \in Cms :
               p = [cm |-> cm, order |-> order, err |-> err, routes |-> << >>, items |-> << >>, nm |-> << >>]
          /\ plan \in [rt : MinR .. MaxR, base : Bases]
          /\ p.err = "dup_path" => plan.rt >= 2
          /\ nbase = 0

HeaderOK(rs, h) ==
  /\ (h.form = "bare") <=> (h.ch = "bare")
  /\ h.form = "wrapjoin" => (Len(rs) > 0 /\ rs[Len(rs)].ch = h.ch /\ rs[Len(rs)].form \in {"wrapper", "wrapjoin"})

AddRoute ==
  /\ Len(p.routes) < plan.rt
  /\ \E h \in Headers :
       /\ HeaderOK(p.routes, h)
       /\ LET k  == Len(p.routes) + 1
              hd == [ch |-> h.ch, form |-> h.form, pq |-> h.pq,
                     path |-> IF p.err = "dup_path" /\ k = 2 THEN "p1" ELSE PathOf(k)]
              rs == Append(p.routes, hd)
              ri == RouteBase(plan.base, rs, k)
              pa == (IF k = 1 THEN VarsItems(plan.base) ELSE << >>) \o
                    (IF (\E j \in DOMAIN ri : ri[j].f = "r.pull") /\ ~HasItem(Items(p), 0, "pull_api", 1)
                     THEN PullApiItems ELSE << >>)
          IN p' = [p EXCEPT !.routes = rs, !.items = @ \o pa \o ri]
  /\ UNCHANGED <<last, depth, done, nbase, plan>>

\* Near-miss: one extra instance for a slot this behaviour created (or for its exclusive alternative), in every
\* spelling, before and after it, alone or with one single-value child.  It is the last step of a behaviour.
LKids(f)  == {g \in FeatIds : FT[g].par = f /\ IsLeafL(g)}
NmSps(f)  == {s \in (IF f = "r.auth_hmac" THEN {"block"} ELSE FT[f].sps) :
                (FT[f].nmax > 1 /\ "line" \in FT[f].sps) => s = "line"}

NmRec(it, f, sp, pos, v, kf, kv) ==
  [r |-> it.r, f |-> f, i |-> (IF f = it.f \/ IdxRootT[f] # "-" THEN it.i ELSE 1), sp |-> sp,
   v |-> v, v2 |-> (IF UsesV2(f, sp, 1) THEN "bare" ELSE "-"), n |-> 1, pos |-> pos, kf |-> kf, kv |-> kv]

\* candidate extra instances for item `it` (a set: each near-miss program is generated once)
NmOf(it) ==
  UNION {UNION {UNION {UNION {UNION {
      {NmRec(it, f, sp, pos, v, kf, kv) : kv \in (IF kf = "-" THEN {"-"} ELSE NmVC)}
        : kf \in {"-"} \cup (IF sp \in FT[f].blk THEN LKids(f) ELSE {})}
        : v \in (IF UsesV(f, sp) THEN VFor(f) \cap (NmVC \cup {"bare"}) ELSE {"-"})}
        : pos \in {"before", "after"}}
        : sp \in NmSps(f)}
        : f \in ({it.f} \cup {h \in FeatIds : <<it.f, h>> \in Partner}) \cap NmScope}

AddNm ==
  /\ NmScope # {} /\ p.nm = << >>
  /\ \E x \in UNION {NmOf(p.items[k]) : k \in (nbase + 1) .. Len(p.items)} :
       \* IF: the guard is evaluated as a value (a disjunction inside an action conjunct would make TLC branch
       \* and generate the same successor once per true disjunct)
       IF WFNm(x, Items(p), Len(p.routes)) THEN p' = [p EXCEPT !.nm = << x >>] ELSE FALSE
  /\ UNCHANGED <<last, depth>>

GenNext ==
  IF GenDepth = 0
  THEN /\ \/ depth < K /\ p.nm = << >> /\ AddStep
          \/ AddNm
       /\ UNCHANGED <<done, nbase, plan>>
       /\ Emit(p')
  ELSE \/ AddRoute
       \/ /\ Len(p.routes) = plan.rt /\ depth < GenDepth
          /\ SimStep
          /\ UNCHANGED <<done, nbase, plan>>
       \/ /\ Len(p.routes) = plan.rt /\ depth = GenDepth /\ ~done
          /\ Emit(p)
          /\ done' = TRUE
          /\ UNCHANGED <<p, last, depth, nbase, plan>>

GenSpec == GenInit /\ [][GenNext]_vars

-----------------------------------------------------------------------------
(* Sanity invariants of the feature model (MC)                              *)
Complete     == Len(p.routes) = plan.rt      \* simulation: all planned routes exist
WellFormed   == (Complete /\ NonEmpty(p)) => WFProgram(p)
UniquePaths  == p.err = "none" => \A j, k \in DOMAIN p.routes : p.routes[j].path = p.routes[k].path => j = k
DupSeeded    == (Complete /\ p.err = "dup_path") => (Len(p.routes) >= 2 /\ p.routes[1].path = p.routes[2].path)
ClosedUnderParents ==
  \A it \in Items(p) : FT[it.f].par \notin Roots => HasItem(Items(p), it.r, FT[it.f].par, ParentI(it))
Bounded      == depth <= (IF GenDepth = 0 THEN K ELSE GenDepth) /\ Len(p.items) <= 4 * (depth + 1) + 2 * Len(p.routes) + 2
TagSound     == (Complete /\ Tag(p) = "valid") =>
                   /\ \A it \in Items(p) : it.v \in SafeVC \cup {"-"} /\ it.v2 \in SafeVC \cup {"-"}
                   /\ p.err = "none" /\ Len(p.routes) > 0
\* channel wrappers: a joined route continues a wrapper of the same channel
WrapperShape == \A k \in DOMAIN p.routes : p.routes[k].form = "wrapjoin" => (k > 1 /\ p.routes[k - 1].ch = p.routes[k].ch)
=============================================================================
