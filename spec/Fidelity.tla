------------------------------ MODULE Fidelity ------------------------------
(***************************************************************************)
(* C07 - end-to-end payload and header fidelity.                           *)
(*                                                                         *)
(* The journey of ONE message, over opaque tokens.  A payload is a token   *)
(* (class name in MC/GEN, digest + length in TV) that is only ever         *)
(* compared for equality.  A header set is the list of header FIELDS as    *)
(* they reach hookaido, each field [n, c, v]:                              *)
(*    n  name identity (the name up to letter case, e.g. "cookie"),        *)
(*    c  the casing in which the sender wrote it (canon/lower/upper/mixed),*)
(*    v  a value token.                                                    *)
(* What must be stored is defined here, abstractly, from the statement:    *)
(*    Canon   forgets the casing and groups the fields by name identity,   *)
(*            keeping the values in order of arrival (the comma-join is    *)
(*            the sequence of value tokens; TV turns it into the concrete  *)
(*            string with the token table of the event),                   *)
(*    Strip   removes Authorization, Proxy-Authorization, Cookie,          *)
(*    Plus    adds the configured forward-auth copy_headers that the auth  *)
(*            response carried (they win over a received header of the     *)
(*            same name).                                                  *)
(*    Stored(ingress) = Plus(Strip(Canon(received)), Copied)               *)
(*    Stored(publish) = the given map.                                     *)
(* Nothing here is taken from copyHeadersWithExtra.                        *)
(***************************************************************************)
EXTENDS Naturals, Sequences, FiniteSets, TLC

Sensitive == {"authorization", "proxy-authorization", "cookie"}

SeqRange(s) == {s[i] : i \in DOMAIN s}

(* ------------------------------------------------------------ header algebra *)
NameIds(fs) == {fs[i].n : i \in DOMAIN fs}

\* the value tokens of the fields named n, in order of arrival
ValuesOf(fs, n) ==
  LET idx == SelectSeq([i \in 1..Len(fs) |-> i], LAMBDA i : fs[i].n = n)
  IN [k \in 1..Len(idx) |-> fs[idx[k]].v]

Canon(fs)  == [n \in NameIds(fs) |-> ValuesOf(fs, n)]
Strip(h)   == [n \in (DOMAIN h) \ Sensitive |-> h[n]]
\* copy_headers: only configured names, only when the auth response carries them
Copied(names, auth) == [n \in {x \in names : x \in NameIds(auth)} |-> ValuesOf(auth, n)]
Plus(h, c) == [n \in (DOMAIN h) \cup (DOMAIN c) |-> IF n \in DOMAIN c THEN c[n] ELSE h[n]]

Stored(src, recv, copyNames, auth) ==
  IF src = "publish" THEN Canon(recv)
  ELSE Plus(Strip(Canon(recv)), Copied(copyNames, auth))

(* ------------------------------------------------------------ abstract inputs *)
F(n, c, v) == [n |-> n, c |-> c, v |-> v]

\* names the forward-auth routes are configured to copy
CopyNames == {"uid", "org"}

\* Header-set classes: the fields sent by the client.  (The transport adds its
\* own fields - Content-Length on a real connection - in the harness, which
\* reports the complete list in the Start event.)
Fields(hc) ==
  CASE hc = "none"     -> <<>>
    [] hc = "plain"    -> <<F("a", "canon", "p1"), F("b", "canon", "p2")>>
    [] hc = "case"     -> <<F("a", "lower", "p1"), F("b", "upper", "p2"), F("c", "mixed", "p3"), F("u_s", "lower", "p4")>>
    [] hc = "repeat"   -> <<F("a", "canon", "p1"), F("b", "canon", "p2"), F("a", "canon", "p3"), F("a", "canon", "p1")>>
    [] hc = "repcase"  -> <<F("a", "lower", "p1"), F("a", "upper", "p2"), F("b", "canon", "p4"), F("a", "mixed", "p3")>>
    [] hc = "values"   -> <<F("a", "canon", "comma"), F("b", "canon", "lead"), F("c", "canon", "utf8"), F("d", "canon", "empty")>>
    [] hc = "values2"  -> <<F("a", "canon", "tab"), F("b", "canon", "json"), F("c", "canon", "ls"), F("d", "canon", "trail"),
                            F("a", "canon", "comma"), F("a", "canon", "empty"), F("c", "lower", "utf8")>>
    [] hc = "pvals"    -> <<F("a", "canon", "tab"), F("b", "canon", "json"), F("c", "canon", "ls"), F("d", "canon", "trail")>>
    [] hc = "sens"     -> <<F("authorization", "canon", "s1"), F("a", "canon", "p1"),
                            F("proxy-authorization", "canon", "s2"), F("cookie", "canon", "s3")>>
    [] hc = "senslow"  -> <<F("authorization", "lower", "s1"), F("a", "canon", "p1"),
                            F("proxy-authorization", "lower", "s2"), F("cookie", "lower", "s3")>>
    [] hc = "sensup"   -> <<F("authorization", "upper", "s1"), F("a", "canon", "p1"),
                            F("proxy-authorization", "upper", "s2"), F("cookie", "upper", "s3")>>
    [] hc = "sensmix"  -> <<F("authorization", "mixed", "s1"), F("a", "canon", "p1"),
                            F("proxy-authorization", "mixed", "s2"), F("cookie", "mixed", "s3"), F("cookie", "lower", "s4")>>
    [] hc = "near"     -> <<F("x-authorization", "canon", "p1"), F("cookie2", "lower", "p2"), F("set-cookie", "canon", "p3"),
                            F("authorization", "canon", "s1"), F("authorization-x", "upper", "p4")>>
    [] hc = "copy"     -> <<F("a", "canon", "p1")>>
    [] hc = "collide"  -> <<F("uid", "lower", "evil"), F("a", "canon", "p1"), F("org", "canon", "evil2")>>
    [] hc = "copysens" -> <<F("authorization", "canon", "s1"), F("cookie", "lower", "s3"), F("uid", "upper", "evil")>>
    [] hc = "sigcol"   -> <<F("sig", "canon", "p1"), F("sigts", "canon", "p2"), F("a", "canon", "p3")>>   \* the sender uses the names of the delivery signature headers
    [] hc = "hmaxm1"   -> <<F("a", "canon", "p1"), F("pad", "canon", "pad")>>
    [] hc = "hmax"     -> <<F("a", "canon", "p1"), F("pad", "canon", "pad")>>
    [] hc = "hmaxp1"   -> <<F("a", "canon", "p1"), F("pad", "canon", "pad")>>

\* what the forward-auth server answers (header fields of its 2xx response)
AuthFields(hc) ==
  CASE hc = "copy"     -> <<F("uid", "canon", "u1"), F("org", "lower", "o1"), F("org", "canon", "o2"), F("other", "canon", "x1")>>
    [] hc = "collide"  -> <<F("uid", "canon", "u1")>>
    [] hc = "copysens" -> <<F("uid", "lower", "u1"), F("org", "canon", "o1")>>
    [] OTHER           -> <<>>

HeaderClasses == {"sigcol", "none", "plain", "case", "repeat", "repcase", "values", "values2", "pvals", "sens", "senslow", "sensup",
                  "sensmix", "near", "copy", "collide", "copysens", "hmaxm1", "hmax", "hmaxp1"}
CopyHCs    == {"copy", "collide", "copysens"}            \* need a route with auth forward + copy_headers
LimHCs     == {"hmaxm1", "hmax", "hmaxp1"}               \* need a route with a small max_headers
\* a published item carries a JSON object: one value per name, names written in canonical form
PublishHCs == {"none", "plain", "values", "pvals", "sigcol", "hmaxm1", "hmax", "hmaxp1"}

\* Payload classes.  The harness owns the bytes; the model only knows the
\* relation of the size to the limit of the route the message is sent to.
PayloadClasses == {"empty", "one", "nul", "badutf8", "all256", "ws", "text", "b64ish", "maxm1", "max", "maxp1", "big", "dmax", "dmaxp1"}
LimPCs   == {"maxm1", "max", "maxp1"}                    \* sizes around the small max_body of the limit routes
DefPCs   == {"big", "dmax", "dmaxp1"}                    \* sizes up to / around the default max_body (2 MiB)
WirePCs  == {"dmax", "dmaxp1"}                           \* cannot be published (the publish request itself is capped at 2 MiB)
OverPCs  == {"maxp1", "dmaxp1"}
OverHCs  == {"hmaxp1"}

\* How the body reaches the ingress handler:
\*   handler  in-process request with a known length          wire     raw bytes on the real listener, Content-Length
\*   stream   in-process request of unknown length             chunked  raw bytes on the real listener, Transfer-Encoding:
\*            (what chunked / HTTP/2 looks like to a handler)           chunked, no declared length
IngressVias == {"handler", "wire", "stream", "chunked"}
FramePCs    == {"empty", "all256", "maxm1", "max", "maxp1", "big", "dmax", "dmaxp1"}   \* sizes where the framing matters

\* Shape of the publish request that carries the message M: alone, or in one batch with sibling items of the harness
\* (S+ has headers and a trace map, S- has neither; siblings go to the auxiliary route, so batches also mix routes):
\*   single <<M>>     after <<S+, M>>     before <<M, S->>     middle <<S+, M, S->>
PubShapes == {"single", "after", "before", "middle"}

\* Ways in besides ingress, all "publish": the global Admin API path, the endpoint-scoped path of a managed route
\* (/applications/{a}/endpoints/{e}/messages/publish), and the MCP tool messages_publish (direct SQLite mode on the
\* SQLite backend, admin-proxy mode on the memory backend).
PubSrcs == {"publish", "mpublish", "mcp"}
\* Features of a deliver route: fan = two deliver targets (ingress stores one message per target, each is delivered to
\* its own target); sg = the target is configured with `sign hmac`.  They vary around a few content classes only.
FeatPCs == {"text", "all256", "empty", "big", "max"}
FeatHCs == {"plain", "sigcol", "none", "sensmix"}

\* an input = everything that is chosen before the message is sent
ValidInput(i) ==
  /\ i.src \in PubSrcs => i.hc \in PublishHCs /\ i.via = "api" /\ ~i.fwd /\ i.pc \notin WirePCs /\ i.pb \in PubShapes
  /\ i.src = "ingress" => i.via \in IngressVias /\ i.pb = "single"
  /\ i.fan => i.mode = "push" /\ i.src = "ingress"
  /\ i.sg => i.mode = "push"
  /\ (i.fan \/ i.sg) => i.pc \in FeatPCs /\ i.hc \in FeatHCs
  /\ i.hc \in CopyHCs => i.fwd
  /\ (i.pc \in LimPCs \/ i.hc \in LimHCs) => i.lim
  /\ i.pc \in DefPCs => ~i.lim
  /\ i.mode \in {"pull", "push"} /\ i.be \in {"memory", "sqlite"}

Over(i) == i.pc \in OverPCs \/ i.hc \in OverHCs

ExpectedStored(i) == Stored(IF i.src \in PubSrcs THEN "publish" ELSE i.src, Fields(i.hc), CopyNames, IF i.fwd THEN AuthFields(i.hc) ELSE <<>>)
=============================================================================
