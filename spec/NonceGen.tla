------------------------------ MODULE NonceGen ------------------------------
(***************************************************************************)
(* TLC as generator of replay schedules (C09): originals, replays of the   *)
(* captured request, same-nonce requests with another timestamp, other     *)
(* traffic, concurrent bursts, reloads of every kind and clock steps that  *)
(* land on the edges of the tolerance window.  Inputs only; the executed   *)
(* trace is judged by NonceTrace.                                          *)
(***************************************************************************)
EXTENDS Integers, Sequences, FiniteSets, TLC, Json

CONSTANTS Depth, ReloadKinds, Ticks, GridTicks, DtsSet, MaxSent

VARIABLES hist, sent, reloads, elapsed
vars == <<hist, sent, reloads, elapsed>>

Init == hist = <<>> /\ sent = 0 /\ reloads = 0 /\ elapsed = 0

Emit(h) == PrintT(<<"SCHED", ToJson(h)>>)

Step(op) == hist' = Append(hist, op) /\ Len(hist) < Depth /\ Emit(hist')

\* original k is sent with its timestamp dts seconds away from the clock
Orig ==
  /\ sent < MaxSent
  /\ \E dts \in DtsSet : Step([op |-> "orig", k |-> sent + 1, dts |-> dts])
  /\ sent' = sent + 1 /\ UNCHANGED <<reloads, elapsed>>
Replay ==
  /\ sent > 0 /\ sent <= MaxSent
  /\ \E k \in 1..sent : Step([op |-> "replay", k |-> k])
  /\ UNCHANGED <<sent, reloads, elapsed>>
SameNonce ==
  /\ sent > 0 /\ sent <= MaxSent
  /\ \E k \in 1..sent, dts \in {0, 1} : Step([op |-> "samenonce", k |-> k, dts |-> dts])
  /\ UNCHANGED <<sent, reloads, elapsed>>
Burst ==
  /\ \E k \in 1..(sent + 1) : k <= MaxSent /\ Step([op |-> "burst", k |-> k, m |-> 8])
  /\ sent' = (IF sent < MaxSent THEN sent + 1 ELSE sent)
  /\ UNCHANGED <<reloads, elapsed>>
Other ==
  /\ sent <= MaxSent /\ Step([op |-> "other", m |-> 20]) /\ UNCHANGED <<sent, reloads, elapsed>>
Reload ==
  /\ reloads < 2 /\ sent > 0 /\ sent <= MaxSent
  /\ \E kind \in ReloadKinds : Step([op |-> "reload", kind |-> kind])
  /\ reloads' = reloads + 1 /\ UNCHANGED <<sent, elapsed>>
Tick ==
  /\ sent > 0 /\ sent <= MaxSent
  /\ \E d \in Ticks : elapsed + d <= 9000 /\ Step([op |-> "tick", d |-> d]) /\ elapsed' = elapsed + d
  /\ UNCHANGED <<sent, reloads>>

\* the window grid: original, wait a, optional reload, wait b, replay of the captured request -
\* every arrival instant in and at the edges of the window x every reload placement
Grid ==
  /\ hist = <<>>
  /\ \E dts \in {-1, 0, 1}, a \in GridTicks \cup {0}, kind \in ReloadKinds \cup {"none"}, b \in GridTicks \cup {0}, tail \in {"replay", "samenonce", "burst"} :
       LET pre  == <<[op |-> "orig", k |-> 1, dts |-> dts]>>
           ta   == IF a = 0 THEN <<>> ELSE <<[op |-> "tick", d |-> a]>>
           rl   == IF kind = "none" THEN <<>> ELSE <<[op |-> "reload", kind |-> kind]>>
           tb   == IF b = 0 THEN <<>> ELSE <<[op |-> "tick", d |-> b]>>
           fin  == IF tail = "replay" THEN <<[op |-> "replay", k |-> 1]>>
                   ELSE IF tail = "samenonce" THEN <<[op |-> "samenonce", k |-> 1, dts |-> 0]>>
                   ELSE <<[op |-> "burst", k |-> 1, m |-> 8]>>
           h    == pre \o ta \o rl \o tb \o fin \o <<[op |-> "replay", k |-> 1]>>
       IN hist' = h /\ Emit(h)
  /\ sent' = 9 /\ reloads' = 9 /\ elapsed' = 99999

Next == Orig \/ Replay \/ SameNonce \/ Burst \/ Other \/ Reload \/ Tick \/ Grid
Spec == Init /\ [][Next]_vars
=============================================================================
