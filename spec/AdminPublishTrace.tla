-------------------------- MODULE AdminPublishTrace --------------------------
(***************************************************************************)
(* Trace validation for C15 ("follow mode").  One line per publish request *)
(* executed on the real handlers: the frame and abstract items TLC         *)
(* generated, what was sent for every item, the answer (status, code,      *)
(* item_index, published) and the difference between the complete queue    *)
(* dumps before and after (added / removed / changed messages, digests).   *)
(* For every line the verdict of AdminPublish.tla is computed and the      *)
(* observation must agree; a failed requirement prints                     *)
(* <<"FAIL", line, ev, check>> and validation continues.                   *)
(***************************************************************************)
EXTENDS AdminPublish, Integers, Json

CONSTANT TraceFile
Trace == ndJsonDeserialize(TraceFile)

VARIABLE l
vars == <<l>>

Chk(name, b) == IF b THEN TRUE ELSE PrintT(<<"FAIL", l, Trace[l].ev, name>>)

Init == l = 1

Success == {"200", "201", "202"}
Max2(a, b) == IF a > b THEN a ELSE b
Ids(s) == {s[k].id : k \in DOMAIN s}

TracePublish ==
  /\ l <= Len(Trace) /\ Trace[l].ev = "Publish"
  /\ LET e     == Trace[l]
         f     == e.fr
         fl    == Filler(f.path, f.scope)
         all   == [i \in 1..(f.pad + Len(e.items) + f.tail) |->
                     IF i <= f.pad \/ i > f.pad + Len(e.items) THEN fl ELSE e.items[i - f.pad]]
         total == Len(all)
         rr    == ReqReasons(f.pol, f.path, f.scope, f.req, total)
         off   == Offending(f.pol, f.path, f.scope, f.req, all)
         Rs(i) == Reasons(f.pol, f.path, f.scope, all, i)
         need  == IF e.maxdepth > 0 /\ e.active + total > e.maxdepth THEN e.active + total - e.maxdepth ELSE 0
         full  == e.maxdepth > 0 /\ need > 0 /\ (IF e.drop = "drop_oldest" THEN need > e.queuedn ELSE TRUE)
         same  == e.preh = e.posth /\ e.added = <<>> /\ e.removed = <<>> /\ e.changed = <<>>
         idx   == e.index + 1
     IN \* the harness established the queue situation the frame names
        /\ Chk("frame", f.lim = "none" \/ (e.maxdepth = f.depth /\ e.active = f.depth - f.room /\ e.drop = f.lim))
        /\ Chk("structured", e.status \notin Success => (e.code # "" /\ e.detail /\ e.published = -1))
        /\ IF rr # {} \/ off # {}
           THEN \* any offending item or request-level problem: nothing stored, structured error naming an offender
                /\ Chk("refused", e.status \notin Success)
                /\ Chk("atomic_none", same)
                /\ Chk("names_item", (rr = {} /\ off # {}) => e.index >= 0)
                /\ Chk("attribution",
                       \/ /\ e.index = -1 /\ rr # {}
                          /\ \E r \in rr : e.status \in StatusOf(r) /\ CodeOK(r, e.code)
                       \/ /\ e.index >= 0 /\ idx \in off
                          /\ \E r \in Rs(idx) : /\ \A j \in 1..(idx - 1) : r \notin Rs(j)
                                                /\ e.status \in StatusOf(r) /\ CodeOK(r, e.code))
           ELSE IF full
           THEN \* acceptable batch that does not fit: refused as a whole
                /\ Chk("full_status", e.status \in StatusOf("queue_full") /\ CodeOK("queue_full", e.code))
                /\ Chk("atomic_none", same)
           ELSE \* acceptable batch: every item stored, in ingress shape, nothing else touched
                /\ Chk("accepted", e.status \in Success /\ e.published = total)
                /\ Chk("all_added", Len(e.added) = total /\ Len(e.want) = total /\ Ids(e.added) = Ids(e.want) /\ Cardinality(Ids(e.want)) = total)
                \* the dump is sorted by id and fresh ids grow with the item position, so added[k] is item k
                /\ Chk("shape", \A k \in DOMAIN e.added :
                         k \in DOMAIN e.want /\
                         LET m == e.added[k]  w == e.want[k]  rt == ItemRoute(f.path, f.scope, all[k])
                         IN /\ w.id = m.id /\ Known(rt)
                            /\ m.st = "queued" /\ m.rt = rt /\ m.tg = StoredTarget(rt, all[k])
                            /\ \E t \in DOMAIN RouteTab[rt].targets : RouteTab[rt].targets[t] = m.tg
                            /\ m.att = 0 /\ m.lease = "" /\ m.until = "" /\ m.dr = ""
                            /\ m.pl = w.pl /\ m.hd = w.hd /\ m.trc = w.trc
                            /\ w.pn <= RouteTab[rt].mb /\ w.hn <= RouteTab[rt].mh
                            /\ (IF w.recv = "" THEN m.recv # "" ELSE m.recv = w.recv)
                            /\ (IF w.next = "" THEN m.next = m.recv ELSE m.next = w.next))
                /\ Chk("rest_untouched", e.changed = <<>>)
                /\ Chk("evictions",
                       /\ Len(e.removed) = need
                       /\ (e.drop # "drop_oldest" => e.removed = <<>>)
                       /\ \A k \in DOMAIN e.removed : e.removed[k].st = "queued"
                       /\ need <= Len(e.oldq) /\ Ids(e.removed) = {e.oldq[k] : k \in 1..need})
  /\ l' = l + 1

Next == TracePublish

Spec == Init /\ [][Next]_vars

TraceAccepted ==
  LET d == TLCGet("stats").diameter
  IN IF d - 1 = Len(Trace) THEN TRUE
     ELSE PrintT(<<"REJECTED", "matched", d - 1, "of", Len(Trace)>>) /\ FALSE
=============================================================================
