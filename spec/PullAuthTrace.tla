---------------------------- MODULE PullAuthTrace ----------------------------
(***************************************************************************)
(* Trace validation for C11 ("follow mode").  Every line is one call made  *)
(* on the real code (or one compile verdict): the abstract row TLC         *)
(* generated, the concrete request, the observed status and digests of     *)
(* the complete queue dump, of the lease idempotency cache and of the      *)
(* configuration file before and after the call.  For every line the       *)
(* decision of PullAuth.tla is computed from the row and the observation   *)
(* must agree; a failed requirement prints <<"FAIL", line, ev, check>> and *)
(* validation continues.  Accepted iff every line was consumed and no FAIL *)
(* was printed.                                                            *)
(*                                                                         *)
(* kind = "strict": the canonical request form - the decision is binding   *)
(*   in both directions (refused => 401 / Unauthenticated and no effect;   *)
(*   authorized => the operation's own status and a visible effect).       *)
(* kind = "norm": a non-canonical spelling of the same endpoint (trailing  *)
(*   slash, dot segments, blanks, missing prefix, cross-mount traversal).  *)
(*   The statement does not say these must be served, so only safety is    *)
(*   required: served only if the credential is in the effective list of   *)
(*   the endpoint the spelling normalises to, otherwise refused unchanged. *)
(* kind = "method": a method other than POST on a pull endpoint: no        *)
(*   operation is addressed; refused (401 or 405) without effect.          *)
(***************************************************************************)
EXTENDS PullAuth, Json, TLC

CONSTANT TraceFile
Trace == ndJsonDeserialize(TraceFile)

VARIABLE l
vars == <<l>>

Chk(name, b) == IF b THEN TRUE ELSE PrintT(<<"FAIL", l, Trace[l].ev, name>>)

Init == l = 1

Unchanged(e) == e.pre = e.post /\ e.rpre = e.rpost /\ e.cpre = e.cpost /\ e.nitems = 0
IsUnauth(e)  == e.status = UnauthStatus(e.row.tr)
Refusals(tr) == IF tr = "grpc" THEN {"Unauthenticated", "NotFound", "InvalidArgument"} ELSE {"401", "404", "405"}
Success      == {"200", "201", "202", "204"}

Served(e) ==
  /\ e.status \in OwnStatus(e.row.tr, e.row.op)
  /\ e.row.op \in {"dequeue", "dequeue_batch"} => e.nitems >= 1
  /\ e.pre # e.post

TraceCompile ==
  /\ l <= Len(Trace) /\ Trace[l].ev = "Compile"
  /\ LET e == Trace[l]
     IN /\ Chk("compile", e.accepted = CompileAccepts(e.row.cfg))
        /\ Chk("boot", e.booted = CompileAccepts(e.row.cfg))
  /\ l' = l + 1

TracePull ==
  /\ l <= Len(Trace) /\ Trace[l].ev = "Call" /\ Trace[l].row.s = "pull"
  /\ LET e == Trace[l]
         d == Decision(e.row)
     IN /\ Chk("accepted_cfg", CompileAccepts(e.row.cfg))
        /\ CASE e.kind = "strict" ->
                 (CASE d = "deny"    -> Chk("deny_status", IsUnauth(e)) /\ Chk("deny_noeffect", Unchanged(e))
                    [] d = "allow"   -> Chk("allow_status", e.status \in OwnStatus(e.row.tr, e.row.op)) /\ Chk("allow_effect", Served(e))
                    [] d = "either"  -> Chk("either", (IsUnauth(e) /\ Unchanged(e)) \/ Served(e))
                    [] d = "noroute" -> /\ Chk("noroute_status", e.status \in {UnauthStatus(e.row.tr), NotFoundStatus(e.row.tr)})
                                        /\ Chk("noroute_noeffect", Unchanged(e)))
             [] e.kind = "norm" ->
                  /\ Chk("norm_noeffect", d \in {"deny", "noroute"} => Unchanged(e))
                  /\ Chk("norm_status", \/ Unchanged(e) /\ e.status \in Refusals(e.row.tr)
                                        \/ d \in {"allow", "either"} /\ e.status \in OwnStatus(e.row.tr, e.row.op))
             [] e.kind = "method" ->
                  /\ Chk("method_noeffect", Unchanged(e))
                  /\ Chk("method_status", e.status \in {"401", "405"})
  /\ l' = l + 1

TraceAdmin ==
  /\ l <= Len(Trace) /\ Trace[l].ev = "Call" /\ Trace[l].row.s = "admin"
  /\ LET e == Trace[l]
         d == Decision(e.row)
         ok == e.status # "401" /\ (e.good => e.status \in Success)
     IN CASE e.kind = "strict" ->
              (CASE d = "deny"   -> Chk("deny_status", e.status = "401") /\ Chk("deny_noeffect", Unchanged(e))
                 [] d = "allow"  -> Chk("allow_status", ok)
                 [] d = "either" -> Chk("either", (e.status = "401" /\ Unchanged(e)) \/ ok))
          [] OTHER ->
               /\ Chk("norm_noeffect", d = "deny" => Unchanged(e))
               \* (on the shared listener a cross-mount spelling may reach the pull handler, which answers 405 to non-POST)
               /\ Chk("norm_status", d = "deny" => e.status \in Refusals("http"))
  /\ l' = l + 1

Next == TraceCompile \/ TracePull \/ TraceAdmin

Spec == Init /\ [][Next]_vars

TraceAccepted ==
  LET d == TLCGet("stats").diameter
  IN IF d - 1 = Len(Trace) THEN TRUE
     ELSE PrintT(<<"REJECTED", "matched", d - 1, "of", Len(Trace)>>) /\ FALSE
=============================================================================
