------------------------------- MODULE Egress -------------------------------
(***************************************************************************)
(* C16 - egress policy on every delivery and redirect hop.                 *)
(*                                                                         *)
(* Written from the property statement and docs/security.md "Egress        *)
(* Protection (SSRF)", docs/delivery.md "Egress Policy", DESIGN.md "Egress *)
(* policy notes":                                                          *)
(*   - only http / https, and only https under https_only;                 *)
(*   - dns_rebind_protection: none of the addresses the host resolves to   *)
(*     (or is, for an IP literal) may be loopback, private, link-local,    *)
(*     multicast or unspecified - IPv4, IPv6 and IPv4-mapped IPv6;         *)
(*   - deny rules first; then, if an allow list exists, the host or one of *)
(*     its addresses must match it; rule shapes: exact host, "*", "*.dom"  *)
(*     (sub-domains only: neither the apex nor "evil-dom"), IP, CIDR;      *)
(*   - redirects are not followed unless enabled, and then every hop is    *)
(*     checked the same way; nothing is ever sent to a denied hop; a       *)
(*     denied delivery ends as policy_denied.                              *)
(*                                                                         *)
(* Everything is abstract.  An address is a class (an RFC block) plus a    *)
(* position in the block (lower edge, upper edge, inside) plus the flag    *)
(* "written / answered in IPv4-mapped IPv6 form".  A host name is its      *)
(* sequence of DNS labels, top-level label first.  The harness owns the    *)
(* concretisation (its own RFC-derived CIDR table).                        *)
(***************************************************************************)
EXTENDS Naturals, Sequences, FiniteSets

(***************************** address classes *****************************)
V4Forbidden == {"loop4", "priv10", "priv172", "priv192", "ll4", "mc4", "unspec4"}
V4Plain     == {"pub4", "pubA4"}                           \* pubA4: a public /24 that rules talk about
V4May       == {"bcast4", "resv4", "thisnet4", "cgnat4"}   \* not listed by the statement: refusing them is stricter, not wrong
V6Forbidden == {"loop6", "ula6", "ll6", "mc6", "unspec6"}
V6Plain     == {"pub6", "pubA6"}                           \* pubA6: a public /48 that rules talk about
V6May       == {"site6", "resv6"}                          \* fec0::/10, other space outside 2000::/3
V4Classes   == V4Forbidden \cup V4Plain \cup V4May
V6Classes   == V6Forbidden \cup V6Plain \cup V6May
Classes     == V4Classes \cup V6Classes
SingleAddr  == {"unspec4", "bcast4", "loop6", "unspec6"}   \* blocks of one address
Positions   == {"lo", "hi", "mid"}
Pos(c)      == IF c \in SingleAddr THEN {"mid"} ELSE Positions

A(c, p)  == [c |-> c, m |-> FALSE, p |-> p]
AM(c, p) == [c |-> c, m |-> TRUE, p |-> p]     \* ::ffff:a.b.c.d
NoA      == [c |-> "", m |-> FALSE, p |-> ""]

Addresses == {A(c, p) : c \in Classes, p \in Positions} \cup {AM(c, p) : c \in V4Classes, p \in Positions}
WellFormedAddr(a) == a.c \in Classes /\ a.p \in Pos(a.c) /\ (a.m => a.c \in V4Classes)

\* An IPv4-mapped IPv6 address IS the IPv4 address, for every part of the policy.
Forbidden(a) == a.c \in V4Forbidden \cup V6Forbidden
MayDeny(a)   == a.c \in V4May \cup V6May
SameAddr(a, b) == a.c = b.c /\ a.p = b.p

(******************************** host names *******************************)
\* label sequences, top-level label first; "xd" is a label whose text ENDS with the text of label "d"
Apex   == <<"t", "d">>                 \* d.t
Sub    == <<"t", "d", "s">>            \* s.d.t
Deep   == <<"t", "d", "s", "a">>       \* a.s.d.t
Evil   == <<"t", "xd">>                \* xd.t   (evil-d.t)
Other  == <<"u", "o">>                 \* o.u
Prefix == <<"u", "o", "t", "d">>       \* d.t.o.u
Names  == {Apex, Sub, Deep, Evil, Other, Prefix}

IsSubdomainOf(h, n) == Len(h) > Len(n) /\ SubSeq(h, 1, Len(n)) = n

HName(n) == [k |-> "name", n |-> n, a |-> NoA]
HLit(a)  == [k |-> "lit", n |-> <<>>, a |-> a]      \* IP literal (IPv6 / mapped in brackets), canonical text
HOdd(a)  == [k |-> "odd", n |-> <<>>, a |-> a]      \* IPv4 address in a non-canonical notation (decimal, octal, hex, short, zero-padded)
HEmpty   == [k |-> "empty", n |-> <<>>, a |-> NoA]  \* no host at all

(********************************** rules **********************************)
RExact(n) == [k |-> "exact", n |-> n, a |-> NoA, c |-> ""]
RStar     == [k |-> "star", n |-> <<>>, a |-> NoA, c |-> ""]
RSub(n)   == [k |-> "sub", n |-> n, a |-> NoA, c |-> ""]      \* "*.n"
RIP(a)    == [k |-> "ip", n |-> <<>>, a |-> a, c |-> ""]      \* a.m: the rule text is the IPv4-mapped form
RCidr(c)  == [k |-> "cidr", n |-> <<>>, a |-> NoA, c |-> c]   \* the whole block of class c

IsAddrRule(r) == r.k \in {"ip", "cidr"}

SeqRange(s) == {s[i] : i \in DOMAIN s}

\* addrs = set of addresses of the host when they are known, {} otherwise
RuleMatches(r, h, addrs) ==
  CASE r.k = "star"  -> h.k # "empty"
    [] r.k = "exact" -> h.k = "name" /\ h.n = r.n
    [] r.k = "sub"   -> h.k = "name" /\ IsSubdomainOf(h.n, r.n)
    [] r.k = "ip"    -> \E x \in addrs : SameAddr(x, r.a)
    [] r.k = "cidr"  -> \E x \in addrs : x.c = r.c
    [] OTHER         -> FALSE

AnyMatch(rules, h, addrs) == \E r \in SeqRange(rules) : RuleMatches(r, h, addrs)

(******************************* the decision ******************************)
\* hop = [u : url, ans : resolver answer];  url = [scheme, ui, port, h, dot, up]
\* ans = [st : "ok" | "err", as : sequence of addresses]  (st = ok with as = <<>> : empty answer)
\* userinfo, port, trailing dot and letter case are part of the input and do not take part in the decision.

SchemeOK(u, pol) == u.scheme \in {"http", "https"} /\ (pol.https => u.scheme = "https")

IsLiteral(h)  == h.k = "lit"
NeedsLookup(pol) == pol.rebind \/ \E r \in SeqRange(pol.allow) \cup SeqRange(pol.deny) : IsAddrRule(r)
LookupFails(hop) == ~IsLiteral(hop.u.h) /\ (hop.ans.st = "err" \/ hop.ans.as = <<>>)
KnownAddrs(hop)  == IF IsLiteral(hop.u.h) THEN {hop.u.h.a} ELSE SeqRange(hop.ans.as)

\* "allow"      : must be sent
\* "deny"       : must not be sent, result is the policy denial
\* "fail"       : must not be sent (the addresses cannot be established), result is an error or the policy denial
\* "either"     : the only objection is an address of a class the statement does not list (MayDeny): sending and
\*                policy denial both conform
\* "failorsend" : lookup failed but the host name alone satisfies the policy and no rule or flag needs the addresses
\*                for a refusal: sending and failing both conform
Decide(hop, pol) ==
  LET u == hop.u
      h == u.h
  IN IF u.scheme = "empty" THEN "fail"      \* not an absolute URL at all: nothing can be sent, refusal or plain failure
     ELSE IF ~SchemeOK(u, pol) \/ h.k = "empty" THEN "deny"
     ELSE IF NeedsLookup(pol) /\ LookupFails(hop)
     THEN IF \/ pol.rebind
             \/ \E r \in SeqRange(pol.deny) : IsAddrRule(r)
             \/ AnyMatch(pol.deny, h, {})
             \/ (pol.allow # <<>> /\ ~AnyMatch(pol.allow, h, {}))
          THEN "fail" ELSE "failorsend"
     ELSE LET addrs == IF NeedsLookup(pol) THEN KnownAddrs(hop) ELSE {}
          IN IF pol.rebind /\ \E x \in addrs : Forbidden(x) THEN "deny"
             ELSE IF AnyMatch(pol.deny, h, addrs) THEN "deny"
             ELSE IF pol.allow # <<>> /\ ~AnyMatch(pol.allow, h, addrs) THEN "deny"
             ELSE IF pol.rebind /\ \E x \in addrs : MayDeny(x) THEN "either"
             ELSE "allow"

\* The headline operator of the property: is sending to this URL, with these resolver answers, under this policy, allowed?
Allowed(url, answers, policy) == Decide([u |-> url, ans |-> answers], policy) = "allow"

CanSend(d)     == d \in {"allow", "either", "failorsend"}
StopClasses(d) == CASE d = "deny"       -> {"policy_denied"}
                    [] d = "fail"       -> {"error", "policy_denied"}
                    [] d = "either"     -> {"policy_denied"}
                    [] d = "failorsend" -> {"error", "policy_denied"}
                    [] OTHER            -> {}

(***************************** redirect chains *****************************)
\* hops[1] is the delivery target; hop i < Len answers 30x pointing at hop i+1; the last hop answers 2xx.
\* An outcome is [n : number of hops that received a request (always hops 1..n, in order), cls : result class]:
\*   "ok"            final 2xx received
\*   "redirect"      a 30x answer was received and not followed (redirects off): the 30x status is the result
\*   "policy_denied" refused by the policy (nothing sent to the refused hop)
\*   "error"         failed before sending (addresses could not be established)
RECURSIVE Walk(_, _, _)
Walk(hops, pol, i) ==
  LET d    == Decide(hops[i], pol)
      stop == {[n |-> i - 1, cls |-> c] : c \in StopClasses(d)}
      go   == IF ~CanSend(d) THEN {}
              ELSE IF i = Len(hops) THEN {[n |-> i, cls |-> "ok"]}
              ELSE IF ~pol.redir THEN {[n |-> i, cls |-> "redirect"]}
              ELSE Walk(hops, pol, i + 1)
  IN stop \cup go

Outcomes(hops, pol) == Walk(hops, pol, 1)

MaxContacted(hops, pol) ==
  LET ns == {o.n : o \in Outcomes(hops, pol)}
  IN CHOOSE n \in ns : \A k \in ns : k <= n

(************************ through the push dispatcher **********************)
\* What the dispatcher must do with a delivery whose (single attempt) outcome class is cls:
\*   ok            -> delivered
\*   policy_denied -> dead, reason policy_denied, exactly one attempt recorded, never retried
\*   redirect      -> dead, reason no_retry (a 30x final status is neither success nor retryable), one attempt
\*   error         -> retried up to retry.max times, then dead with reason max_retries; never a request
Terminal(cls, retryMax) ==
  CASE cls = "ok"            -> [state |-> "delivered", reason |-> "", attempts |-> 1]
    [] cls = "policy_denied" -> [state |-> "dead", reason |-> "policy_denied", attempts |-> 1]
    [] cls = "redirect"      -> [state |-> "dead", reason |-> "no_retry", attempts |-> 1]
    [] OTHER                 -> [state |-> "dead", reason |-> "max_retries", attempts |-> retryMax + 1]
=============================================================================
