----------------------------- MODULE Admission -----------------------------
(***************************************************************************)
(* Ingress admission (C12, second half): rate limiting, size limits and    *)
(* the fan-out rule.                                                       *)
(*                                                                         *)
(* Token bucket, exactly, in milli-tokens and milliseconds:                *)
(*   T' = min(burst * 1000, T + rps * dt)          (rps tokens per second) *)
(*   a request may be admitted only if T' >= 1000, and then T' -= 1000.    *)
(* The statement is an upper bound ("admits at most burst + rps x window"),*)
(* so the checked direction is: implementation admits => the exact bucket  *)
(* has a whole token.  A refusal is questioned only when the exact bucket  *)
(* holds two whole tokens (one token of slack for the implementation's     *)
(* floating-point refill).  The exact bucket follows the implementation's  *)
(* decisions, so it never holds fewer tokens than the implementation's.    *)
(* The limiter of a request is the route's own when it declares one, else  *)
(* the global one; requests that resolve to no route consume nothing.      *)
(***************************************************************************)
EXTENDS Integers, Sequences, FiniteSets, TLC

Min2(a, b) == IF a < b THEN a ELSE b

Refill(T, rps, burst, dt) == Min2(burst * 1000, T + rps * dt)
MayAdmit(T) == T >= 1000
MustAdmit(T) == T >= 2000

\* design-level: the admitted count in any window obeys the bound
CONSTANTS Rps, Burst, MaxT, Steps
VARIABLES now, T, log   \* log: sequence of admission instants
vars == <<now, T, log>>
Init == now = 0 /\ T = Burst * 1000 /\ log = <<>>
Arrive ==
  /\ Len(log) < 6
  /\ \E admit \in BOOLEAN :
       /\ admit => MayAdmit(T)
       /\ ~admit => ~MustAdmit(T) \/ TRUE
       /\ T' = IF admit THEN T - 1000 ELSE T
       /\ log' = IF admit THEN Append(log, now) ELSE log
  /\ UNCHANGED now
Tick == \E d \in Steps : now + d <= MaxT /\ now' = now + d /\ T' = Refill(T, Rps, Burst, d) /\ UNCHANGED log
Next == Arrive \/ Tick
Spec == Init /\ [][Next]_vars
\* in every window [a, b] of admissions: count <= burst + rps * (b - a) / 1000  (scaled by 1000)
RateBound ==
  \A i, j \in DOMAIN log : i <= j => (j - i + 1) * 1000 <= Burst * 1000 + Rps * (log[j] - log[i])
=============================================================================
