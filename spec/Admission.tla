----------------------------- MODULE Admission -----------------------------
(***************************************************************************)
(* Ingress admission (C12, second half): rate limiting, size limits and    *)
(* the fan-out rule.                                                       *)
(*                                                                         *)
(* Token bucket, exactly, in milli-tokens and milliseconds:                *)
(*   T' = min(burst * 1000, T + rps * dt)          (rps tokens per second) *)
(*   a request may be admitted only if T' >= 1000, and then T' -= 1000.    *)
(* The statement is an upper bound ("admits at most burst + rps x window"),*)
(* so the checked direction is: implementation admits => the exact bucket  *)
(* has a whole token.  A refusal is questioned only when the exact bucket  *)
(* holds two whole tokens (one token of slack for the implementation's     *)
(* floating-point refill).  The exact bucket follows the implementation's  *)
(* decisions, so it never holds fewer tokens than the implementation's.    *)
(* The limiter of a request is the route's own when it declares one, else  *)
(* the global one; requests that resolve to no route consume nothing.      *)
(***************************************************************************)
EXTENDS Integers, Sequences, FiniteSets, TLC

Min2(a, b) == IF a < b THEN a ELSE b

Refill(T, rps, burst, dt) == Min2(burst * 1000, T + rps * dt)
MayAdmit(T) == T >= 1000
MustAdmit(T) == T >= 2000

\* design-level: the admitted count in any window obeys the bound.
\* A request reads the clock (its timestamp ts) and only then takes the limiter's lock, so timestamps may reach the
\* bucket out of order (ts = now - d, d in Stale).  The bucket refills for max(0, ts - last) and keeps last = max(last, ts):
\* a stale timestamp earns nothing and does not move the refill reference back.  The instant of a decision is the
\* reference instant after it (no decision can be made before the newest clock reading the bucket has seen).
CONSTANTS Rps, Burst, MaxT, Steps, Stale,
          Rewind   \* FALSE: the rule above; TRUE: the defective variant last' = ts (TLC must find the bound broken)
VARIABLES now, last, hi, T, log   \* hi: newest timestamp seen; log: decision instants of the admitted requests
vars == <<now, last, hi, T, log>>
Max2(a, b) == IF a > b THEN a ELSE b
Init == now = 0 /\ last = 0 /\ hi = 0 /\ T = Burst * 1000 /\ log = <<>>
Arrive ==
  /\ Len(log) < 6
  /\ \E d \in Stale, admit \in BOOLEAN :
       LET ts == now - d
           T1 == Refill(T, Rps, Burst, Max2(0, ts - last))
           l1 == IF Rewind THEN ts ELSE Max2(last, ts)
           h1 == Max2(hi, ts)
       IN /\ ts >= 0
          /\ admit => MayAdmit(T1)
          /\ T' = IF admit THEN T1 - 1000 ELSE T1
          /\ last' = l1 /\ hi' = h1
          /\ log' = IF admit THEN Append(log, h1) ELSE log
  /\ UNCHANGED now
Tick == \E d \in Steps : now + d <= MaxT /\ now' = now + d /\ UNCHANGED <<last, hi, T, log>>
Next == Arrive \/ Tick
Spec == Init /\ [][Next]_vars
\* in every window [a, b] of admissions: count <= burst + rps * (b - a) / 1000  (scaled by 1000)
RateBound ==
  \A i, j \in DOMAIN log : i <= j => (j - i + 1) * 1000 <= Burst * 1000 + Rps * (log[j] - log[i])
=============================================================================
