------------------------------ MODULE EgressMC ------------------------------
(***************************************************************************)
(* MC and GEN for Egress.tla.  The abstract input table is the union of    *)
(* four finite families; every row is [fam, pol, hops].  Behaviours have   *)
(* length two: an initial "seed" state per (family, policy) - hops = <<>> -  *)
(* whose successors are the rows of that family under that policy (this    *)
(* only serves to let TLC's workers share the table; seeds are not rows).  *)
(*   shape : URL syntax (scheme class, userinfo, port class, host kind,    *)
(*           trailing dot, upper case) x https_only x rebind protection    *)
(*   addr  : every address class at every edge, as resolver answer, as IP  *)
(*           literal (plain, IPv4-mapped) and in odd IPv4 notation; all    *)
(*           ordered pairs of classes; triples with one odd one out;       *)
(*           resolver error / empty answer                                 *)
(*   rules : allow / deny lists over all rule shapes x hosts and answers   *)
(*           that do / do not match them                                   *)
(*   chain : redirect chains, every hop classified independently, all 8    *)
(*           flag combinations                                             *)
(*   MC : the invariants below (design-level facts of Decide / Outcomes).  *)
(*   GEN: Emit = TRUE prints every row as JSON (inputs only).              *)
(***************************************************************************)
EXTENDS Egress, TLC, Json

CONSTANTS Fams,       \* subset of {"shape", "addr", "rules", "chain"}
          MaxRedir,   \* longest redirect chain (number of 30x answers followed), >= 1
          Emit

VARIABLE row
vars == <<row>>

B == BOOLEAN

U(scheme, h)   == [scheme |-> scheme, ui |-> FALSE, port |-> "none", h |-> h, dot |-> FALSE, up |-> FALSE]
Ans(as)        == [st |-> "ok", as |-> as]
AnsErr         == [st |-> "err", as |-> <<>>]
Hop(u, ans)    == [u |-> u, ans |-> ans]
Pol(https, redir, rebind, allow, deny) ==
  [https |-> https, redir |-> redir, rebind |-> rebind, allow |-> allow, deny |-> deny]
Row(fam, pol, hops) == [fam |-> fam, pol |-> pol, hops |-> hops]

AllAddrs == {a \in Addresses : WellFormedAddr(a)}
MidAddrs == {a \in AllAddrs : a.p = "mid"}
P4  == A("pub4", "mid")
P6  == A("pub6", "mid")

(******************************** family shape *****************************)
\* host / answer pairs: a harmless and a forbidden representative of every host kind
ShapeHosts ==
  { <<HName(Apex), Ans(<<P4>>)>>, <<HName(Apex), Ans(<<A("loop4", "mid")>>)>>,
    <<HName(Other), Ans(<<P4>>)>>,
    <<HLit(P4), AnsErr>>, <<HLit(A("loop4", "lo")), AnsErr>>,
    <<HLit(P6), AnsErr>>, <<HLit(A("loop6", "mid")), AnsErr>>,
    <<HLit(AM("pub4", "mid")), AnsErr>>, <<HLit(AM("loop4", "hi")), AnsErr>>,
    <<HOdd(P4), Ans(<<P4>>)>>, <<HOdd(A("loop4", "mid")), Ans(<<A("loop4", "mid")>>)>>,
    <<HEmpty, AnsErr>> }

Schemes == {"http", "https", "other", "empty"}
Ports   == {"none", "default", "other", "empty"}

\* with an allow list naming the apex, userinfo is spelled like the allowed host by the concretiser
ShapeAllow == {<<>>, <<RExact(Apex)>>}

ShapePolicies == { Pol(hs, FALSE, rb, al, <<>>) : hs \in B, rb \in B, al \in ShapeAllow }
ShapeOf(p) ==
  { Row("shape", p, << Hop([scheme |-> sc, ui |-> ui, port |-> po, h |-> ha[1], dot |-> dot, up |-> up], ha[2]) >>) :
      sc \in Schemes, ui \in B, po \in Ports, ha \in ShapeHosts, dot \in B, up \in B }

(******************************** family addr ******************************)
AddrHops ==
     { Hop(U("https", HName(Apex)), Ans(<<a>>)) : a \in AllAddrs }
  \cup { Hop(U("https", HLit(a)), AnsErr) : a \in AllAddrs }
  \cup { Hop(U("https", HOdd(a)), Ans(<<a>>)) : a \in {x \in AllAddrs : x.c \in V4Classes /\ ~x.m} }
  \cup { Hop(U("https", HOdd(a)), AnsErr) : a \in {x \in AllAddrs : x.c \in V4Classes /\ ~x.m} }
  \cup { Hop(U("https", HName(Apex)), AnsErr), Hop(U("https", HName(Apex)), Ans(<<>>)) }
  \cup { Hop(U("https", HName(Apex)), Ans(<<a, b>>)) : a \in MidAddrs, b \in MidAddrs }
  \cup { Hop(U("https", HName(Apex)), Ans(<<P4, P6, a>>)) : a \in MidAddrs }
  \cup { Hop(U("https", HName(Apex)), Ans(<<P4, a, P6>>)) : a \in MidAddrs }
  \cup { Hop(U("https", HName(Apex)), Ans(<<a, P4, P6>>)) : a \in MidAddrs }

AddrPolicies == { Pol(hs, FALSE, rb, <<>>, <<>>) : hs \in B, rb \in B }
AddrOf(p) == { Row("addr", p, <<h>>) : h \in AddrHops }

(******************************** family rules *****************************)
PA4 == A("pubA4", "mid")
PA6 == A("pubA6", "mid")

RuleUniverse ==
  { RExact(Apex), RExact(Sub), RSub(Apex), RSub(Sub), RStar,
    RIP(PA4), RIP(AM("pubA4", "mid")), RIP(A("priv10", "lo")), RIP(PA6),
    RCidr("pubA4"), RCidr("priv10"), RCidr("pubA6"), RCidr("loop4"), RCidr("ula6") }

PairUniverse == { RExact(Apex), RSub(Apex), RIP(PA4), RCidr("priv10") }

RuleLists1 == {<<>>} \cup { <<r>> : r \in RuleUniverse }
RuleLists2 == { <<r1, r2>> : r1 \in PairUniverse, r2 \in PairUniverse }

NameAns  == { Ans(<<PA4>>), Ans(<<P4>>) }
ApexAns  == { Ans(<<PA4>>), Ans(<<A("pubA4", "lo")>>), Ans(<<A("pubA4", "hi")>>), Ans(<<P4>>), Ans(<<P4, PA4>>),
              Ans(<<AM("pubA4", "mid")>>), Ans(<<A("priv10", "lo")>>), Ans(<<A("priv10", "hi")>>), Ans(<<PA6>>),
              Ans(<<P6, A("pubA6", "lo")>>), Ans(<<A("loop4", "mid")>>), AnsErr }
RuleLits == { PA4, A("pubA4", "lo"), A("pubA4", "hi"), P4, AM("pubA4", "mid"), A("priv10", "lo"), PA6, A("pubA6", "hi"),
              P6, A("loop4", "mid"), A("ula6", "lo") }

RuleHops ==
     { Hop(U("https", HName(n)), a) : n \in Names, a \in NameAns }
  \cup { Hop(U("https", HName(Apex)), a) : a \in ApexAns }
  \cup { Hop(U("https", HLit(a)), AnsErr) : a \in RuleLits }
  \cup { Hop(U("https", HOdd(PA4)), Ans(<<PA4>>)), Hop(U("https", HOdd(A("priv10", "lo"))), Ans(<<A("priv10", "lo")>>)) }

RulePolicies ==
     { Pol(FALSE, FALSE, rb, al, dn) : rb \in B, al \in RuleLists1, dn \in RuleLists1 }
  \cup { Pol(FALSE, FALSE, rb, al, <<>>) : rb \in B, al \in RuleLists2 }
  \cup { Pol(FALSE, FALSE, rb, <<>>, dn) : rb \in B, dn \in RuleLists2 }
  \cup { Pol(FALSE, FALSE, FALSE, <<RStar>>, dn) : dn \in RuleLists2 }

RulesOf(p) == { Row("rules", p, <<h>>) : h \in RuleHops }

(******************************** family chain *****************************)
\* hop kinds; the chain policy denies the apex by name, so "byrule" is a hop refused by a rule
ChainKinds ==
  { Hop(U("https", HName(Other)), Ans(<<P4>>)),                                  \* fine everywhere
    Hop(U("http", HName(Other)), Ans(<<P6>>)),                                   \* refused iff https_only
    Hop(U("https", HName(Sub)), Ans(<<P4, A("priv192", "hi")>>)),                \* refused iff rebind protection (mixed answer)
    Hop(U("https", HLit(AM("loop4", "lo"))), AnsErr),                            \* refused iff rebind protection (mapped literal)
    Hop(U("https", HName(Apex)), Ans(<<P4>>)),                                   \* refused by the deny rule
    Hop(U("other", HName(Other)), Ans(<<P4>>)),                                  \* refused: scheme
    Hop(U("https", HName(Deep)), Ans(<<A("resv4", "mid")>>)),                    \* may be refused under rebind protection
    Hop(U("https", HName(Other)), AnsErr),                                       \* lookup fails
    Hop(U("https", HName(Other)), Ans(<<A("loop4", "mid")>>)) }                  \* the passing name, re-resolved to loopback (rebinding between hops)
Passing == { h \in ChainKinds : h.u.h.k = "name" /\ h.u.h.n = Other /\ h.ans.st = "ok" /\ h.u.scheme # "other" /\ \A x \in SeqRange(h.ans.as) : ~Forbidden(x) }

\* chains of 1 .. MaxRedir + 1 hops; all hops but the last two are of a kind that may pass
RECURSIVE Lead(_)
Lead(k) == IF k = 0 THEN {<<>>} ELSE { <<h>> \o s : h \in Passing, s \in Lead(k - 1) }
Chains ==
  { <<h>> : h \in ChainKinds } \cup
  UNION { { l \o <<a, b>> : l \in Lead(n - 2), a \in ChainKinds, b \in ChainKinds } : n \in 2 .. (MaxRedir + 1) }

ChainPolicies == { Pol(hs, rd, rb, <<>>, <<RExact(Apex)>>) : hs \in B, rd \in B, rb \in B }
ChainOf(p) == { Row("chain", p, c) : c \in Chains }

(********************************* the table *******************************)
Policies(fam) == CASE fam = "shape" -> ShapePolicies [] fam = "addr" -> AddrPolicies
                    [] fam = "rules" -> RulePolicies [] fam = "chain" -> ChainPolicies
RowsOf(fam, p) == CASE fam = "shape" -> ShapeOf(p) [] fam = "addr" -> AddrOf(p)
                    [] fam = "rules" -> RulesOf(p) [] fam = "chain" -> ChainOf(p)

Seeds == { Row(fam, p, <<>>) : fam \in Fams, p \in UNION {Policies(f) : f \in Fams} } 
IsSeed == row.hops = <<>>
IsRow  == row.hops # <<>>

Init == row \in { s \in Seeds : s.pol \in Policies(s.fam) }
Next == IsSeed /\ row' \in RowsOf(row.fam, row.pol)
Spec == Init /\ [][Next]_vars

(******************************** invariants *******************************)
outs == Outcomes(row.hops, row.pol)

TypeOKB ==
  /\ outs # {}
  /\ \A o \in outs : o.n \in 0 .. Len(row.hops) /\ o.cls \in {"ok", "redirect", "policy_denied", "error"}

\* 1. adding a deny rule never allows more (per hop and for the chain as a whole)
DenyMonotoneB ==
  \A r \in RuleUniverse :
     LET p2 == [row.pol EXCEPT !.deny = Append(@, r)]
     IN /\ \A i \in DOMAIN row.hops : CanSend(Decide(row.hops[i], p2)) => CanSend(Decide(row.hops[i], row.pol))
        /\ MaxContacted(row.hops, p2) <= MaxContacted(row.hops, row.pol)

\* 2. under rebind protection, adding a forbidden address to the answer set never allows more, wherever it is put
AnswerMonotoneB ==
  row.pol.rebind =>
    \A i \in DOMAIN row.hops : \A bad \in {x \in MidAddrs : Forbidden(x)} :
       LET h  == row.hops[i]
           h1 == [h EXCEPT !.ans = Ans(Append(h.ans.as, bad))]
           h2 == [h EXCEPT !.ans = Ans(<<bad>> \o h.ans.as)]
       IN ~IsLiteral(h.u.h) => ~CanSend(Decide(h1, row.pol)) /\ ~CanSend(Decide(h2, row.pol))

\* 3. https_only: no hop that receives a request is plain http (or anything but https)
HttpsOnlyB ==
  row.pol.https => \A o \in outs : \A i \in 1 .. o.n : row.hops[i].u.scheme = "https"

\* 4. rebind protection: no hop that receives a request has a forbidden address among the known ones
RebindSafeB ==
  row.pol.rebind => \A o \in outs : \A i \in 1 .. o.n : \A x \in KnownAddrs(row.hops[i]) : ~Forbidden(x)

\* 5. a hop the policy refuses is never contacted, and nothing behind it either
DeniedMeansNothingSentB ==
  \A i \in DOMAIN row.hops : ~CanSend(Decide(row.hops[i], row.pol)) => \A o \in outs : o.n < i

\* 6. redirects off: at most the target itself is contacted
RedirectsOff == (IsRow /\ ~row.pol.redir) => \A o \in outs : o.n <= 1

\* 7. only http(s) is ever contacted; a contacted hop has a host
OnlyHTTP == IsRow => \A o \in outs : \A i \in 1 .. o.n : row.hops[i].u.scheme \in {"http", "https"} /\ row.hops[i].u.h.k # "empty"

\* 8. deny wins over allow: a hop matching a deny rule is refused whatever the allow list says
DenyWinsB ==
  \A i \in DOMAIN row.hops :
     LET h == row.hops[i]
     IN (~LookupFails(h) /\ AnyMatch(row.pol.deny, h.u.h, IF NeedsLookup(row.pol) THEN KnownAddrs(h) ELSE {}))
          => Decide(h, [row.pol EXCEPT !.allow = <<RStar>>]) = "deny"

\* 9. an allow list only narrows: with one, nothing is sendable that was not sendable without
AllowNarrowsB ==
  \A i \in DOMAIN row.hops :
     CanSend(Decide(row.hops[i], row.pol)) =>
        \/ CanSend(Decide(row.hops[i], [row.pol EXCEPT !.allow = <<>>]))
        \/ (LookupFails(row.hops[i]) /\ ~NeedsLookup([row.pol EXCEPT !.allow = <<>>]))

\* 10. userinfo, port, trailing dot and letter case never change the decision
SyntaxIrrelevantB ==
  \A i \in DOMAIN row.hops : \A ui \in B, dot \in B, up \in B, po \in Ports :
     Decide([row.hops[i] EXCEPT !.u.ui = ui, !.u.dot = dot, !.u.up = up, !.u.port = po], row.pol) = Decide(row.hops[i], row.pol)

\* 11. "*.d" is for sub-domains only
WildcardShape ==
  /\ ~RuleMatches(RSub(Apex), HName(Apex), {}) /\ ~RuleMatches(RSub(Apex), HName(Evil), {})
  /\ ~RuleMatches(RSub(Apex), HName(Prefix), {}) /\ ~RuleMatches(RSub(Apex), HName(Other), {})
  /\ RuleMatches(RSub(Apex), HName(Sub), {}) /\ RuleMatches(RSub(Apex), HName(Deep), {})
  /\ ~RuleMatches(RExact(Apex), HName(Sub), {}) /\ RuleMatches(RExact(Apex), HName(Apex), {})

\* 12. an IPv4-mapped address is its IPv4 address
MappedIsV4B ==
  \A i \in DOMAIN row.hops :
     LET h == row.hops[i]
         unmapU == IF IsLiteral(h.u.h) THEN [h EXCEPT !.u.h.a.m = FALSE] ELSE h
         unmap == [unmapU EXCEPT !.ans.as = [k \in DOMAIN h.ans.as |-> [h.ans.as[k] EXCEPT !.m = FALSE]]]
     IN Decide(unmap, row.pol) = Decide(h, row.pol)

\* seeds are not rows
TypeOK == IsRow => TypeOKB
DenyMonotone == IsRow => DenyMonotoneB
AnswerMonotone == IsRow => AnswerMonotoneB
HttpsOnly == IsRow => HttpsOnlyB
RebindSafe == IsRow => RebindSafeB
DeniedMeansNothingSent == IsRow => DeniedMeansNothingSentB
DenyWins == IsRow => DenyWinsB
AllowNarrows == IsRow => AllowNarrowsB
SyntaxIrrelevant == IsRow => SyntaxIrrelevantB
MappedIsV4 == IsRow => MappedIsV4B

EmitRow == IF Emit /\ IsRow THEN PrintT(<<"ROW", ToJson(row)>>) ELSE TRUE
=============================================================================
