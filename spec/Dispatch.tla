------------------------------ MODULE Dispatch ------------------------------
(***************************************************************************)
(* hookaido push dispatcher (C06): what the dispatcher must do with one    *)
(* delivery result, written from the property statement and                *)
(* docs/delivery.md - not from push.go.                                    *)
(*                                                                         *)
(*  (a) the decision table:   Admissible / Classify (result, attempt, Max) *)
(*      the retry window:     DelayLo / DelayHi (attempt, retry config)    *)
(*  (b) the per-message step operators of the worker loop (lease, send,    *)
(*      settle, operator requeue) as pure functions on a message record.   *)
(*                                                                         *)
(* DispatchMC (design-level model checking), DispatchGen (table rows and   *)
(* schedules for the real code) and DispatchTrace (trace validation of the *)
(* real PushDispatcher) all use exactly these definitions.                 *)
(*                                                                         *)
(* Units.  TLC integers are 32 bit.  Durations are integer MICROSECONDS.   *)
(* The arithmetic below never forms a product larger than 2*cap or         *)
(* jd*jd, so it is exact for  1 <= base <= cap <= MaxCapUs (1000 s) and    *)
(* jitter = jn/jd with 0 <= jn <= jd <= 10000.  The harness only uses      *)
(* retry configurations inside that box (whole microseconds, jitter with   *)
(* at most four decimals) and refuses others.                              *)
(***************************************************************************)
EXTENDS Integers, Sequences, FiniteSets, TLC

MaxCapUs == 1000000000      \* 1000 s;  2*MaxCapUs < 2^31
MaxJd    == 10000

(***************************************************************************)
(* Results.  A delivery result is [kind, code]:                            *)
(*   kind = "status"  : the target answered with HTTP status code          *)
(*   kind = "neterr"  : network error (no answer)                          *)
(*   kind = "timeout" : the attempt timed out / the target hung            *)
(*   kind = "denied"  : the egress policy refused the request              *)
(***************************************************************************)
Kinds   == {"status", "neterr", "timeout", "denied"}
Classes == {"2xx", "1xx", "3xx", "408", "429", "4xx", "5xx", "neterr", "timeout", "denied"}

Status(code) == [kind |-> "status", code |-> code]
ErrRes(kind) == [kind |-> kind, code |-> 0]

ClassOf(res) ==
  IF res.kind # "status" THEN res.kind
  ELSE IF res.code = 408 THEN "408"
  ELSE IF res.code = 429 THEN "429"
  ELSE IF res.code >= 100 /\ res.code <= 199 THEN "1xx"
  ELSE IF res.code >= 200 /\ res.code <= 299 THEN "2xx"
  ELSE IF res.code >= 300 /\ res.code <= 399 THEN "3xx"
  ELSE IF res.code >= 400 /\ res.code <= 499 THEN "4xx"
  ELSE IF res.code >= 500 /\ res.code <= 599 THEN "5xx"
  ELSE "out-of-domain"

\* a representative result of every class (used by the state-machine model)
ResOfClass(c) ==
  CASE c = "2xx" -> Status(200) [] c = "1xx" -> Status(100) [] c = "3xx" -> Status(302)
    [] c = "408" -> Status(408) [] c = "429" -> Status(429) [] c = "4xx" -> Status(404)
    [] c = "5xx" -> Status(503) [] OTHER -> ErrRes(c)

(***************************************************************************)
(* Outcomes of settling one delivery result.                               *)
(***************************************************************************)
Reasons  == {"no_retry", "policy_denied", "max_retries"}
Outcomes == {"ack", "retry", "dead:no_retry", "dead:policy_denied", "dead:max_retries"}

IsDead(o)   == o \in {"dead:no_retry", "dead:policy_denied", "dead:max_retries"}
ReasonOf(o) == CASE o = "dead:no_retry" -> "no_retry" [] o = "dead:policy_denied" -> "policy_denied"
                 [] o = "dead:max_retries" -> "max_retries" [] OTHER -> ""
DeadOutcome(r) == "dead:" \o r

RetryableClass(c) == c \in {"neterr", "timeout", "5xx", "429", "408"}

(***************************************************************************)
(* Admissible(res, att, Max): the outcomes the statement allows.           *)
(*   2xx                      -> ack                                       *)
(*   neterr/timeout/5xx/429/408 -> retry while att <= Max, else dead with  *)
(*                               max_retries                               *)
(*   every other 4xx          -> dead:no_retry                             *)
(*   policy denial            -> dead:policy_denied, never retried         *)
(*   1xx / 3xx                -> "never treated as success": the statement *)
(*                               does not say more, so any bounded         *)
(*                               non-success outcome is admissible (dead   *)
(*                               as no_retry, or handled like a retryable  *)
(*                               failure).  Classify picks no_retry, which *)
(*                               is what docs/delivery.md implies ("no     *)
(*                               retry" on anything not listed).           *)
(***************************************************************************)
RetryOrExhausted(att, Max) == IF att <= Max THEN "retry" ELSE "dead:max_retries"

Admissible(res, att, Max) ==
  LET c == ClassOf(res)
  IN CASE c = "2xx"             -> {"ack"}
       [] c = "denied"          -> {"dead:policy_denied"}
       [] RetryableClass(c)     -> {RetryOrExhausted(att, Max)}
       [] c = "4xx"             -> {"dead:no_retry"}
       [] c \in {"1xx", "3xx"}  -> {"dead:no_retry", RetryOrExhausted(att, Max)}
       [] OTHER                 -> {}

Classify(res, att, Max) ==
  LET c == ClassOf(res)
  IN CASE c = "2xx"         -> "ack"
       [] c = "denied"      -> "dead:policy_denied"
       [] RetryableClass(c) -> RetryOrExhausted(att, Max)
       [] OTHER             -> "dead:no_retry"

(***************************************************************************)
(* The same table once more, clause by clause on the raw status code, as   *)
(* the statement words it.  DispatchGen checks Classify against these      *)
(* clauses on every row of the complete table (MC of the table).           *)
(***************************************************************************)
StatementClauses(res, att, Max, o) ==
  LET st == res.kind = "status"
      retryable == \/ res.kind \in {"neterr", "timeout"}
                   \/ st /\ (res.code >= 500 \/ res.code = 429 \/ res.code = 408)
  IN /\ (st /\ res.code >= 200 /\ res.code <= 299) => o = "ack"
     /\ o = "ack" => (st /\ res.code >= 200 /\ res.code <= 299)              \* 1xx, 3xx, errors never succeed
     /\ (retryable /\ att <= Max) => o = "retry"
     /\ (retryable /\ att > Max)  => o = "dead:max_retries"
     /\ o = "retry" => att <= Max                                            \* bounded
     /\ (st /\ res.code >= 400 /\ res.code <= 499 /\ res.code \notin {408, 429}) => o = "dead:no_retry"
     /\ res.kind = "denied" => o = "dead:policy_denied"
     /\ o = "dead:policy_denied" => res.kind = "denied"
     /\ o = "dead:max_retries" => retryable

(***************************************************************************)
(* Retry window.  R = [max, base, cap, jn, jd]: base and cap in us,        *)
(* jitter = jn/jd.                                                         *)
(*   nominal(att) = min(base * 2^(att-1), cap)       (saturating power)    *)
(*   lo = nominal * (1 - jitter),  hi = nominal * (1 + jitter)             *)
(* DelayLo is floor(lo), DelayHi is ceil(hi).  An observed delay d (ns)    *)
(* is accepted iff  DelayLo <= ceil(d/us)  and  floor(d/us) <= DelayHi:    *)
(* that is the statement's window with at most 1 us of slack on each side, *)
(* which covers the float64 -> time.Duration truncation in the code.       *)
(***************************************************************************)
RetryOK(R) ==
  /\ R.max >= 1
  /\ R.base >= 1 /\ R.base <= R.cap /\ R.cap <= MaxCapUs
  /\ R.jd >= 1 /\ R.jd <= MaxJd /\ R.jn >= 0 /\ R.jn <= R.jd

RECURSIVE SatDouble(_, _, _)
SatDouble(b, k, cap) == IF b >= cap THEN cap ELSE IF k <= 0 THEN b ELSE SatDouble(2 * b, k - 1, cap)

Nominal(att, R) == SatDouble(R.base, att - 1, R.cap)

\* ceil(v * n / d) for 0 <= n <= d <= MaxJd without forming v * n
MulDivCeil(v, n, d) == (v \div d) * n + (((v % d) * n) + d - 1) \div d

DelayLo(att, R) == Nominal(att, R) - MulDivCeil(Nominal(att, R), R.jn, R.jd)
DelayHi(att, R) == Nominal(att, R) + MulDivCeil(Nominal(att, R), R.jn, R.jd)

InWindow(dfl, dce, att, R) == DelayLo(att, R) <= dce /\ dfl <= DelayHi(att, R)

(***************************************************************************)
(* Message records of the worker loop.                                     *)
(*   st    : "queued" | "leased" | "delivered" | "dead"                    *)
(*   next  : not before this time (queued)                                 *)
(*   att   : attempt counter (incremented by every lease; survives an      *)
(*           operator requeue, so a requeued message that fails again may  *)
(*           be dead-lettered after one send - still within Max+1)         *)
(*   sends : sends to the target in the current enqueue/requeue cycle      *)
(*   dr    : dead reason                                                   *)
(***************************************************************************)
MsgStates == {"queued", "leased", "delivered", "dead"}
Terminal(m) == m.st \in {"delivered", "dead"}

NewMsg(att0, t)   == [st |-> "queued", next |-> t, att |-> att0, sends |-> 0, dr |-> ""]
CanLease(m, t)    == m.st = "queued" /\ m.next <= t
Lease(m)          == [m EXCEPT !.st = "leased", !.att = @ + 1]
Send(m)           == [m EXCEPT !.sends = @ + 1]
\* settle with outcome o; nextAt is only used for o = "retry"
Settle(m, o, nextAt) ==
  CASE o = "ack"   -> [m EXCEPT !.st = "delivered"]
    [] o = "retry" -> [m EXCEPT !.st = "queued", !.next = nextAt]
    [] OTHER       -> [m EXCEPT !.st = "dead", !.dr = ReasonOf(o)]
Requeue(m, t)     == [m EXCEPT !.st = "queued", !.next = t, !.sends = 0, !.dr = ""]

\* the attempt-log entry of one send
AttemptRec(id, tg, att, res, o) ==
  [id |-> id, tg |-> tg, att |-> att, code |-> res.code, iserr |-> res.kind # "status",
   outcome |-> (IF o = "ack" THEN "acked" ELSE IF o = "retry" THEN "retry" ELSE "dead"), dr |-> ReasonOf(o)]
=============================================================================
