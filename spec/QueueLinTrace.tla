---------------------------- MODULE QueueLinTrace ----------------------------
(***************************************************************************)
(* Linearizability checking of CONCURRENT histories of the real stores     *)
(* against Queue.tla (C03, also C04 / C12 under concurrency).              *)
(* The trace has one "Call" line per operation, written with a global      *)
(* sequence number taken immediately before the call, and one "Ret" line   *)
(* with a number taken immediately after it returned.  Between its Call    *)
(* and its Ret every operation takes effect at one instant: the internal   *)
(* step Lin(o) applies the operator of Queue.tla to the abstract state and *)
(* requires the result the real call reported.  TLC searches for an order  *)
(* of the Lin steps that explains every reported result and every dump     *)
(* taken at the quiescent "Check" points.  The clock moves only at         *)
(* quiescent points, so every operation runs at a known instant.           *)
(* Accepted iff some behaviour consumes the whole trace (high-water mark). *)
(***************************************************************************)
EXTENDS Queue, Json

CONSTANT TraceFile
Trace == ndJsonDeserialize(TraceFile)

VARIABLES l,       \* next trace line
          C, S,    \* configuration, abstract store state
          pend,    \* called, not yet linearized: set of line numbers of Call lines
          done,    \* linearized, not yet returned: set of operation ids
          issued   \* lease ids issued so far
vars == <<l, C, S, pend, done, issued>>

EmptyS == [msgs |-> <<>>, ord |-> <<>>, oc |-> 0, lp |-> 0, ls |-> 0]
CfgOf(c) == [backend |-> c.backend, maxDepth |-> c.maxDepth, drop |-> c.drop, retMaxAge |-> c.retMaxAge,
             pruneInt |-> c.pruneInt, delivMaxAge |-> c.delivMaxAge, dlqMaxAge |-> c.dlqMaxAge,
             dlqMaxDepth |-> c.dlqMaxDepth, sweepGran |-> c.sweepGran, pressItems |-> c.pressItems,
             pressure |-> c.pressure, delivGuard |-> c.delivGuard, dev |-> SeqRange(c.dev)]

Init == l = 1 /\ C = [backend |-> "none"] /\ S = EmptyS /\ pend = {} /\ done = {} /\ issued = {}

Line(name) == l <= Len(Trace) /\ Trace[l].ev = name

Reset ==
  /\ Line("Reset") /\ pend = {} /\ done = {}
  /\ C' = CfgOf(Trace[l].cfg) /\ S' = EmptyS /\ issued' = {} /\ l' = l + 1
  /\ UNCHANGED <<pend, done>>

Call ==
  /\ Line("Call")
  /\ pend' = pend \cup {l} /\ l' = l + 1
  /\ UNCHANGED <<C, S, done, issued>>

Ret ==
  /\ Line("Ret") /\ Trace[l].id \in done
  /\ done' = done \ {Trace[l].id} /\ l' = l + 1
  /\ UNCHANGED <<C, S, pend, issued>>

Tick ==
  /\ Line("Tick") /\ pend = {} /\ done = {}
  /\ l' = l + 1 /\ UNCHANGED <<C, S, pend, done, issued>>

Check ==
  /\ Line("Check") /\ pend = {} /\ done = {}
  /\ S.msgs = Trace[l].post
  /\ StoreOK(S.msgs)
  /\ l' = l + 1 /\ UNCHANGED <<C, S, pend, done, issued>>

BagEq(s1, s2) ==
  /\ Len(s1) = Len(s2)
  /\ \A x \in SeqRange(s1) \cup SeqRange(s2) :
        Cardinality({k \in DOMAIN s1 : s1[k] = x}) = Cardinality({k \in DOMAIN s2 : s2[k] = x})

ItemEq(it, m) ==
  /\ it.st = m.st /\ it.rt = m.rt /\ it.tg = m.tg /\ it.recv = m.recv /\ it.att = m.att /\ it.next = m.next
  /\ it.pl = m.pl /\ it.hd = m.hd /\ it.tr = m.tr /\ it.lease = m.lease /\ it.until = m.until

\* the set of states the operation on line c may lead to, given the result it reported
LinNext(c) ==
  LET e == Trace[c]
      t == e.now
  IN CASE e.op \in {"Enqueue", "EnqueueBatch"} ->
            {[S |-> o.S, iss |-> issued] :
               o \in {x \in EnqueueOutcomes(C, S, e.a.envs, t, e.op = "Enqueue") :
                        x.err = e.r.err /\ (e.op = "Enqueue" \/ e.r.n = (IF x.err = "" THEN Len(e.a.envs) ELSE 0))}}
       [] e.op = "Dequeue" ->
            LET items   == e.r.items
                got     == {items[k].id : k \in DOMAIN items}
                leases  == {items[k].lease : k \in DOMAIN items}
                leaseOf == [i \in got |-> items[CHOOSE k \in DOMAIN items : items[k].id = i].lease]
                ttl     == EffTTL(e.a.ttl)
            IN IF e.r.err # "" \/ Cardinality(got) # Len(items) \/ Cardinality(leases) # Len(items)
                  \/ leases \cap issued # {} \/ "" \in leases
               THEN {}
               ELSE {[S |-> n, iss |-> issued \cup leases] :
                       n \in {DeqApply(S, p, got, leaseOf, t, ttl) :
                                p \in {q \in DeqPre(C, S, t) : DeqAdmissible(q, e.a.rt, e.a.tg, e.a.batch, t, got)}}
                             \cap {x \in {DeqApply(S, p, got, leaseOf, t, ttl) : p \in DeqPre(C, S, t)} :
                                     \A k \in DOMAIN items : items[k].id \in DOMAIN x.msgs /\ ItemEq(items[k], x.msgs[items[k].id])}}
       [] e.op = "LeaseOp" ->
            LET arg == IF e.a.kind = "dead" THEN e.a.argn ELSE e.a.arg
                r   == LeaseOp(C, S.msgs, e.a.kind, e.a.lid, arg, t)
            IN IF r.err = e.r.err
               THEN {[S |-> [S EXCEPT !.msgs = r.msgs, !.ord = Keep(S.ord, DOMAIN r.msgs)], iss |-> issued]}
               ELSE {}
       [] e.op = "LeaseBatch" ->
            LET arg == IF e.a.kind = "dead" THEN e.a.argn ELSE e.a.arg
                r   == LeaseBatch(C, S.msgs, e.a.kind, e.a.lids, arg, t)
            IN IF e.r.err = "" /\ r.ok = e.r.ok /\ BagEq(r.nf, e.r.nf) /\ BagEq(r.ex, e.r.ex)
               THEN {[S |-> [S EXCEPT !.msgs = r.msgs, !.ord = Keep(S.ord, DOMAIN r.msgs)], iss |-> issued]}
               ELSE {}
       [] e.op = "MutateIds" ->
            LET r == MutateIds(S.msgs, e.a.op, SeqRange(e.a.nids), t)
            IN IF e.r.err = "" /\ e.r.n = r.n /\ e.r.matched = r.n
               THEN {[S |-> [S EXCEPT !.msgs = r.msgs, !.ord = Keep(S.ord, DOMAIN r.msgs)], iss |-> issued]}
               ELSE {}
       [] e.op = "Stats" ->
            IF e.r.err = "" /\ e.r.total = Cardinality(DOMAIN S.msgs) /\ \A s \in States : e.r.by[s] = CountBy(S.msgs)[s]
            THEN {[S |-> S, iss |-> issued]} ELSE {}
       [] e.op = "Lookup" ->
            LET want == SelectSeq(e.a.nids, LAMBDA i : i \in DOMAIN S.msgs)
            IN IF /\ e.r.err = "" /\ Len(e.r.items) = Len(want)
                  /\ \A k \in DOMAIN want : e.r.items[k].id = want[k] /\ e.r.items[k].st = S.msgs[want[k]].st
               THEN {[S |-> S, iss |-> issued]} ELSE {}

Lin ==
  \E c \in pend :
    \E n \in LinNext(c) :
      /\ S' = n.S /\ issued' = n.iss
      /\ pend' = pend \ {c} /\ done' = done \cup {Trace[c].id}
      /\ UNCHANGED <<l, C>>

Next == Reset \/ Call \/ Ret \/ Tick \/ Check \/ Lin
Spec == Init /\ [][Next]_vars

\* high-water mark of the trace position (register 1); needs -workers 1
ASSUME TLCSet(1, 1)
HighWater == (IF l > TLCGet(1) THEN TLCSet(1, l) ELSE TRUE)
\* used as an INVARIANT: its violation means that some behaviour consumed the whole trace
\* (a linearization exists) and lets TLC stop at the first one it finds
NotFinished == l <= Len(Trace)
TraceAccepted ==
  IF TLCGet(1) = Len(Trace) + 1 THEN TRUE
  ELSE PrintT(<<"REJECTED", "matched", TLCGet(1) - 1, "of", Len(Trace)>>) /\ FALSE
=============================================================================
