--------------------------- MODULE OperApiTrace ---------------------------
(***************************************************************************)
(* Trace validation of the operator operations of C14 executed THROUGH the *)
(* Admin HTTP API and THROUGH the MCP tools (admin-proxy mode) of a        *)
(* production-wired instance (harness/operapi, tool hkv-oper).             *)
(*                                                                         *)
(* The trace is a layer-L0 trace: same executor, same events, same dumps,  *)
(* and every action and every check of QueueTrace applies UNCHANGED (this  *)
(* module extends it and conjoins, never replaces).  What is added is the  *)
(* API layer of OperApi.tla as an explicit step in front of the store      *)
(* rule:                                                                   *)
(*   - an operator call that the API refused is logged as ApiRefused; it   *)
(*     must be a request the layer is specified to (may) refuse            *)
(*     (refusal_justified) and it must leave the message table and the     *)
(*     volatile throttle state exactly as they were (post, vol);           *)
(*   - an operator call that passed must not be a request the layer must   *)
(*     refuse (api_passes), the concrete spelling must stand               *)
(*     for the abstract arguments the store rule is evaluated with         *)
(*     (binding_limit, binding_ids), and the counts in the MCP audit       *)
(*     record of the call must be the counts of the answer (audit_counts). *)
(* Events that did not go through an API surface (enqueue, dequeue, lease  *)
(* operations, ticks: direct calls on the same store object) carry no api  *)
(* record and are judged by QueueTrace alone.                              *)
(***************************************************************************)
EXTENDS QueueTrace, OperApi

HasApi(e) == "api" \in DOMAIN e

\* arguments of the abstract operation behind an api-carrying event
ApiOp(e)     == IF e.ev = "ApiRefused" THEN e.a.op ELSE IF "op" \in DOMAIN e.a THEN e.a.op ELSE "list"
ApiFilter(e) == IF "f" \in DOMAIN e.a THEN e.a.f ELSE [rt |-> "", tg |-> "", st |-> "", before |-> 0, limit |-> 0]
ApiAllowed(e) == IF ApiOp(e) \in {"cancel", "requeue", "resume", "requeuedead", "deletedead"} THEN AllowedFrom(ApiOp(e)) ELSE States

ApiRefusesEvent(e) ==
  LET c == e.api
      f == ApiFilter(e)
  IN \/ Refuses(c.surface, c.kind, c.form, c.audit, c.limit_absent, c.limit_wire, c.tids, f.st, ApiAllowed(e), f.rt, SeqRange(c.managed))
     \/ ActorMayRefuse(c.kind, c.form, c.actor_ok, SeqRange(c.managed))

ApiMustRefuseEvent(e) ==
  LET c == e.api
  IN MustRefuse(c.kind, c.form, c.audit, ApiFilter(e).rt, SeqRange(c.managed)) \/ ActorMustRefuse(c.kind, c.form, c.actor_ok)

\* a passed operator call: not one the layer must refuse, and the wire spelling binds to the abstract arguments
ApiPass ==
  LET e == Trace[l]
  IN IF ~HasApi(e) \/ e.ev = "ApiRefused" THEN TRUE
     ELSE LET c == e.api
          IN /\ Chk("api_passes", ~c.refused /\ ~ApiMustRefuseEvent(e))
             /\ Chk("binding_limit", c.kind = "ids" \/ WireLimit(c.limit_absent, c.limit_wire) = EffLimit(ApiFilter(e).limit))
             /\ Chk("binding_ids", c.kind # "ids" \/ (SeqRange(c.tids) \ {""}) = SeqRange(e.a.nids))
             /\ Chk("audit_counts",
                    \/ ~IsMcpSurface(c.surface) \/ c.kind \notin {"ids", "filter"}
                    \* (an answer omits a count of 0, and the audit record copies the answer: absent = 0)
                    \/ /\ (c.aud_changed = e.r.n \/ (c.aud_changed = -1 /\ e.r.n = 0))
                       /\ (c.kind = "filter" => c.aud_matched = e.r.matched))

TraceApiRefused ==
  /\ IsEvent("ApiRefused")
  /\ LET e == Trace[l]
     IN /\ Chk("has_api", HasApi(e) /\ e.api.refused)
        /\ Chk("refusal_justified", ApiRefusesEvent(e))
        /\ Chk("post", e.post = S.msgs)                                \* a refused request changes no message
        /\ Chk("vol", e.vol.lp = S.lp /\ e.vol.ls = S.ls)               \* ... and runs no prune / sweep
        /\ Generic(e, "read", <<>>)
        /\ Follow(e, <<>>)
  /\ UNCHANGED <<C, issued>>

OperNext == (Next /\ ApiPass) \/ TraceApiRefused

OperSpec == Init /\ [][OperNext]_vars
=============================================================================
